/-
  Luqum.Lemmas.EsSchemaNested — `SchemaAnalyzer.nested_fields()` on the JSON of a mapping.

  Part 1: `jget` / `jset`; a fuel-free `nins` equal to `nestedInsert`; what an insertion does when
  the walk over the parents' names finds nothing (`nins_notfound`) or finds a registered key
  (`nins_found`); the fold of `nested_fields()` as a fold over "events" (`schemaNestedFields_toJson`),
  and how such a fold focuses below a key (`fold_focus`, `fold_create`).
-/
import Luqum.Lemmas.EsSchemaPaths

namespace Luqum.Lemmas.EsSchema
open Luqum

/-! ### `jget`, `jset` -/

theorem jget_nil (k : Str) : jget [] k = none := rfl

theorem jget_cons (e : Str × JVal) (o : JObj) (k : Str) :
    jget (e :: o) k = if e.1 == k then some e.2 else jget o k := by
  unfold jget
  rw [List.find?_cons]
  cases h : (e.1 == k) <;> simp

theorem jget_eq_none {o : JObj} {k : Str} : jget o k = none ↔ ∀ e ∈ o, e.1 ≠ k := by
  induction o with
  | nil => simp [jget_nil]
  | cons e r ih =>
    rw [jget_cons]
    cases h : (e.1 == k)
    · have hne : e.1 ≠ k := by simpa using h
      simp only [Bool.false_eq_true, if_false, ih, List.mem_cons, forall_eq_or_imp, hne, ne_eq,
        not_false_eq_true, true_and]
    · have : e.1 = k := by simpa using h
      simp [this]

theorem any_key_eq_false {o : JObj} {k : Str} :
    o.any (fun e => e.1 == k) = false ↔ jget o k = none := by
  rw [jget_eq_none, List.any_eq_false]
  constructor
  · intro h e he heq
    have := h e he
    simp [heq] at this
  · intro h e he
    have := h e he
    simpa using this

/-- setting an absent key appends it -/
theorem jset_of_none {o : JObj} {k : Str} (v : JVal) (h : jget o k = none) :
    jset o k v = o ++ [(k, v)] := by
  unfold jset
  rw [any_key_eq_false.mpr h]
  rfl

theorem jget_append_single (o : JObj) (k k' : Str) (v : JVal) :
    jget (o ++ [(k, v)]) k' = match jget o k' with
      | some x => some x
      | none => if k == k' then some v else none := by
  induction o with
  | nil => simp [jget_cons, jget_nil]
  | cons e r ih =>
    simp only [List.cons_append, jget_cons]
    cases h : (e.1 == k')
    · simp only [Bool.false_eq_true, if_false, ih]
    · simp

theorem jget_map_set (o : JObj) (k k' : Str) (v : JVal) :
    jget (o.map fun e => if e.1 == k then (k, v) else e) k' =
      if k == k' then (if o.any (fun e => e.1 == k) then some v else none) else jget o k' := by
  induction o with
  | nil => simp [jget_nil]
  | cons e r ih =>
    simp only [List.map_cons, jget_cons, List.any_cons, ih]
    by_cases he : e.1 = k
    · have hb : (e.1 == k) = true := by simpa using he
      simp only [hb, if_true, Bool.true_or]
      by_cases hk : k = k'
      · subst hk; simp
      · have hb' : (k == k') = false := by simpa using hk
        have hb2 : (e.1 == k') = false := by rw [he]; exact hb'
        simp [hb', hb2]
    · have hb : (e.1 == k) = false := by simpa using he
      simp only [hb, Bool.false_eq_true, if_false, Bool.false_or]
      by_cases hk : k = k'
      · subst hk; simp [hb]
      · have hb' : (k == k') = false := by simpa using hk
        simp [hb']

theorem jget_jset (o : JObj) (k k' : Str) (v : JVal) :
    jget (jset o k v) k' = if k == k' then some v else jget o k' := by
  unfold jset
  cases ha : o.any (fun e => e.1 == k)
  · have hn : jget o k = none := any_key_eq_false.mp ha
    simp only [Bool.false_eq_true, if_false]
    rw [jget_append_single]
    cases h' : (k == k')
    · simp only [Bool.false_eq_true, if_false]
      cases jget o k' <;> rfl
    · have hk : k = k' := by simpa using h'
      subst hk
      simp [hn]
  · simp only [if_true]
    rw [jget_map_set, ha]
    simp

theorem jget_jset_self (o : JObj) (k : Str) (v : JVal) : jget (jset o k v) k = some v := by
  rw [jget_jset]; simp

theorem jget_jset_ne (o : JObj) {k k' : Str} (v : JVal) (h : k ≠ k') :
    jget (jset o k v) k' = jget o k' := by
  rw [jget_jset]; simp [h]

/-- a second assignment to the same key overrides the first -/
theorem jset_jset (o : JObj) (k : Str) (v v' : JVal) : jset (jset o k v) k v' = jset o k v' := by
  cases ha : o.any (fun e => e.1 == k)
  · have hn : jget o k = none := any_key_eq_false.mp ha
    rw [jset_of_none v hn, jset_of_none v' hn]
    unfold jset
    have : (o ++ [(k, v)]).any (fun e => e.1 == k) = true := by simp
    rw [if_pos this, List.map_append]
    congr 1
    · rw [List.map_congr_left (g := id)]
      · simp
      · intro e he
        rw [List.any_eq_false] at ha
        have := ha e he
        simp only [id]
        rw [if_neg this]
    · simp
  · have h1 : jset o k v = o.map fun e => if e.1 == k then (k, v) else e := by
      unfold jset; rw [if_pos ha]
    have h2 : jset o k v' = o.map fun e => if e.1 == k then (k, v') else e := by
      unfold jset; rw [if_pos ha]
    have ha2 : (o.map fun e => if e.1 == k then (k, v) else e).any (fun e => e.1 == k) = true := by
      rw [List.any_eq_true] at ha ⊢
      obtain ⟨e, he, hk⟩ := ha
      exact ⟨(k, v), List.mem_map.mpr ⟨e, he, by simp [hk]⟩, by simp⟩
    rw [h1, h2]
    unfold jset
    rw [if_pos ha2, List.map_map]
    apply List.map_congr_left
    intro e _
    by_cases he : e.1 = k <;> simp [he]

/-! ### the insertion, without fuel -/

/-- `nestedInsert` by structural recursion over the names of the parents -/
def nins (target : JObj) (cum : List Str) : List Str → Str → JObj
  | [], fname =>
    if cum.isEmpty then jset target fname (.obj [])
    else
      jset target (joinDot cum)
        (.obj (jset ((jget target (joinDot cum)).getD (.obj [])).objD fname (.obj [])))
  | n :: rest, fname =>
    match jget target (joinDot (cum ++ [n])) with
    | some sub => jset target (joinDot (cum ++ [n])) (.obj (nins sub.objD [] rest fname))
    | none => nins target (cum ++ [n]) rest fname

theorem nestedInsert_eq_nins (names : List Str) : ∀ (fuel : Nat) (target : JObj) (cum : List Str)
    (fname : Str), names.length < fuel → nestedInsert fuel target cum names fname = nins target cum names fname := by
  induction names with
  | nil =>
    intro fuel target cum fname h
    cases fuel with
    | zero => simp at h
    | succ fuel => simp [nestedInsert, nins]
  | cons n rest ih =>
    intro fuel target cum fname h
    cases fuel with
    | zero => simp at h
    | succ fuel =>
      have h' : rest.length < fuel := by simp at h; omega
      simp only [nestedInsert, nins]
      cases jget target (joinDot (cum ++ [n])) with
      | none => simp only; exact ih fuel target (cum ++ [n]) fname h'
      | some sub => simp only; rw [ih fuel sub.objD [] fname h']

theorem nins_cons_none {t : JObj} {cum : List Str} {n : Str} (rest : List Str) (f : Str)
    (h : jget t (joinDot (cum ++ [n])) = none) :
    nins t cum (n :: rest) f = nins t (cum ++ [n]) rest f := by
  rw [nins]; simp only [h]

theorem nins_cons_some {t : JObj} {cum : List Str} {n : Str} (rest : List Str) (f : Str) {sub : JVal}
    (h : jget t (joinDot (cum ++ [n])) = some sub) :
    nins t cum (n :: rest) f = jset t (joinDot (cum ++ [n])) (.obj (nins sub.objD [] rest f)) := by
  rw [nins]; simp only [h]

/-- nothing registered along the names: the key of all the cumulated names is created -/
theorem nins_notfound (names : List Str) : ∀ (t : JObj) (cum : List Str) (f : Str),
    (∀ a b, names = a ++ b → cum ++ a ≠ [] → jget t (joinDot (cum ++ a)) = none) →
    cum ++ names ≠ [] →
    nins t cum names f = t ++ [(joinDot (cum ++ names), .obj [(f, .obj [])])] := by
  induction names with
  | nil =>
    intro t cum f h hne
    have hc : cum ≠ [] := by simpa using hne
    have hn : jget t (joinDot cum) = none := by
      have := h [] [] rfl (by simpa using hc)
      simpa using this
    have hce : cum.isEmpty = false := by cases cum <;> simp_all
    simp only [nins, hce, hn, Option.getD_none, JVal.objD, List.append_nil]
    rw [jset_of_none _ hn]
    rfl
  | cons n rest ih =>
    intro t cum f h _
    have hn : jget t (joinDot (cum ++ [n])) = none := h [n] rest rfl (by simp)
    rw [nins_cons_none rest f hn, ih t (cum ++ [n]) f _ (by simp)]
    · simp
    · intro a b hab hne
      have := h (n :: a) b (by simp [hab]) (by simp)
      simpa using this

/-- the names `pre` lead to a registered key: the insertion goes on below it -/
theorem nins_found (pre : List Str) : ∀ (t : JObj) (cum rest : List Str) (f : Str) (sub : JVal),
    pre ≠ [] →
    (∀ a b, pre = a ++ b → a ≠ [] → b ≠ [] → jget t (joinDot (cum ++ a)) = none) →
    jget t (joinDot (cum ++ pre)) = some sub →
    nins t cum (pre ++ rest) f = jset t (joinDot (cum ++ pre)) (.obj (nins sub.objD [] rest f)) := by
  induction pre with
  | nil => intro t cum rest f sub h; exact absurd rfl h
  | cons n pre2 ih =>
    intro t cum rest f sub _ hnone hsome
    cases pre2 with
    | nil =>
      exact nins_cons_some rest f hsome
    | cons m pre3 =>
      have hn : jget t (joinDot (cum ++ [n])) = none := hnone [n] (m :: pre3) rfl (by simp) (by simp)
      rw [List.cons_append, nins_cons_none _ f hn]
      have := ih t (cum ++ [n]) rest f sub (by simp) (by
        intro a b hab ha hb
        have := hnone (n :: a) b (by simp [hab]) (by simp) hb
        simpa using this) (by simpa using hsome)
      simpa using this

/-! ### events -/

/-- what `nested_fields()` looks at for a yielded field: the names of the parents, whether the
direct parent is a nested node, the name of the field -/
structure Ev where
  names : List Str
  pn : Bool
  fname : Str
deriving Repr

def Ev.pre (p : List Str) (e : Ev) : Ev := { e with names := p ++ e.names }

def evStep (result : JObj) (e : Ev) : JObj :=
  if e.pn then nins result [] e.names e.fname else result

mutual
def evNode (names : List Str) (pn : Bool) (k : Str) : Node → List Ev
  | .leaf _ => [⟨names, pn, k⟩]
  | .multi _ _ => [⟨names, pn, k⟩]
  | .object _ ps => ⟨names, pn, k⟩ :: evProps (names ++ [k]) false ps
  | .nested ps => ⟨names, pn, k⟩ :: evProps (names ++ [k]) true ps
def evProps (names : List Str) (pn : Bool) : Props → List Ev
  | [] => []
  | (k, n) :: r => evNode names pn k n ++ evProps names pn r
end

mutual
theorem evNode_pre (p names : List Str) (pn : Bool) (k : Str) : ∀ n : Node,
    evNode (p ++ names) pn k n = (evNode names pn k n).map (Ev.pre p)
  | .leaf _ => by simp [evNode, Ev.pre]
  | .multi _ _ => by simp [evNode, Ev.pre]
  | .object _ ps => by
    have := evProps_pre p (names ++ [k]) false ps
    simp [evNode, Ev.pre, this]
  | .nested ps => by
    have := evProps_pre p (names ++ [k]) true ps
    simp [evNode, Ev.pre, this]
theorem evProps_pre (p names : List Str) (pn : Bool) : ∀ ps : Props,
    evProps (p ++ names) pn ps = (evProps names pn ps).map (Ev.pre p)
  | [] => by simp [evProps]
  | (k, n) :: r => by simp [evProps, evNode_pre p names pn k n, evProps_pre p names pn r]
end

/-- the step of the loop of `nested_fields()` -/
def nfStep (result : JObj) (e : Entry) : JObj :=
  match e.2.2.getLast? with
  | some (_, pdef) =>
    if JVal.strEq (pdef.getKey "type") "nested"
    then nestedInsert (e.2.2.length + 2) result [] (e.2.2.map (·.1)) e.1
    else result
  | none => result

theorem schemaNestedFields_eq (schema : JVal) :
    schemaNestedFields schema = (schemaFields schema false).foldl nfStep [] := rfl

/-- is the direct parent a nested node? -/
def pnOf (parents : Parents) : Bool :=
  match parents.getLast? with
  | some (_, pdef) => JVal.strEq (pdef.getKey "type") "nested"
  | none => false

theorem nfStep_eq (result : JObj) (k : Str) (j : JVal) (parents : Parents) :
    nfStep result (k, j, parents) = evStep result ⟨parents.map (·.1), pnOf parents, k⟩ := by
  unfold nfStep evStep pnOf
  cases h : parents.getLast? with
  | none => simp
  | some x =>
    simp only
    rw [nestedInsert_eq_nins _ _ _ _ _ (by simp)]

theorem pnOf_snoc (parents : Parents) (k : Str) (j : JVal) :
    pnOf (parents ++ [(k, j)]) = JVal.strEq (j.getKey "type") "nested" := by
  simp [pnOf]

mutual
theorem foldl_enumNode (parents : Parents) (k : Str) : ∀ (n : Node) (r : JObj),
    (enumNode false parents k n).foldl nfStep r =
      (evNode (parents.map (·.1)) (pnOf parents) k n).foldl evStep r
  | .leaf d, r => by simp [enumNode, evNode, nfStep_eq]
  | .multi d subs, r => by simp [enumNode, evNode, nfStep_eq]
  | .object e ps, r => by
    simp only [enumNode, evNode, List.foldl_cons, nfStep_eq]
    rw [foldl_enumProps _ ps, pnOf_snoc]
    have : JVal.strEq ((Node.object e ps).toJson.getKey "type") "nested" = false := by
      cases e <;> rfl
    simp [this]
  | .nested ps, r => by
    simp only [enumNode, evNode, List.foldl_cons, nfStep_eq]
    rw [foldl_enumProps _ ps, pnOf_snoc]
    have : JVal.strEq ((Node.nested ps).toJson.getKey "type") "nested" = true := rfl
    simp [this]
theorem foldl_enumProps (parents : Parents) : ∀ (ps : Props) (r : JObj),
    (enumProps false parents ps).foldl nfStep r =
      (evProps (parents.map (·.1)) (pnOf parents) ps).foldl evStep r
  | [], r => by simp [enumProps, evProps]
  | (k, n) :: rest, r => by
    simp only [enumProps, evProps, List.foldl_append, foldl_enumNode parents k n,
      foldl_enumProps parents rest]
end

/-- **`nested_fields()` on the schema of a mapping** is the fold of the insertions over the events
of the mapping -/
theorem schemaNestedFields_toJson (m : Props) :
    schemaNestedFields (toJson m) = (evProps [] false m).foldl evStep [] := by
  rw [schemaNestedFields_eq, schemaFields_toJson, foldl_enumProps]
  rfl

/-! ### focusing the fold below a key -/

/-- all the events go through the registered key `joinDot pre`: the fold happens below it -/
theorem fold_focus (pre : List Str) (t0 : JObj) (hpre : pre ≠ [])
    (hnone : ∀ a b, pre = a ++ b → a ≠ [] → b ≠ [] → jget t0 (joinDot a) = none) :
    ∀ (evs : List Ev) (sub : JObj),
      (evs.map (Ev.pre pre)).foldl evStep (jset t0 (joinDot pre) (.obj sub)) =
        jset t0 (joinDot pre) (.obj (evs.foldl evStep sub)) := by
  intro evs
  induction evs with
  | nil => intro sub; rfl
  | cons e evs ih =>
    intro sub
    simp only [List.map_cons, List.foldl_cons]
    have : evStep (jset t0 (joinDot pre) (.obj sub)) (Ev.pre pre e) =
        jset t0 (joinDot pre) (.obj (evStep sub e)) := by
      unfold evStep
      by_cases hp : e.pn = true
      · simp only [Ev.pre, hp, if_true]
        rw [nins_found pre _ [] e.names e.fname (.obj sub) hpre]
        · simp only [List.nil_append, JVal.objD]
          rw [jset_jset]
        · intro a b hab ha hb
          simp only [List.nil_append]
          rw [jget_jset_ne]
          · exact hnone a b hab ha hb
          · rw [hab]
            exact (joinDot_append_ne ha hb).symm
        · simp only [List.nil_append]
          exact jget_jset_self _ _ _
      · simp [Ev.pre, hp]
    rw [this, ih]

/-- the first event creates the key `joinDot pre`; the fold then happens below it -/
theorem fold_create (pre : List Str) (t : JObj) (hpre : pre ≠ [])
    (hnone : ∀ a b, pre = a ++ b → a ≠ [] → jget t (joinDot a) = none) (f : Str) (evs : List Ev) :
    ((⟨[], true, f⟩ :: evs).map (Ev.pre pre)).foldl evStep t =
      t ++ [(joinDot pre, .obj ((⟨[], true, f⟩ :: evs).foldl evStep []))] := by
  have hk : jget t (joinDot pre) = none := by
    have := hnone pre [] (by simp) hpre
    exact this
  simp only [List.map_cons, List.foldl_cons]
  have h1 : evStep t (Ev.pre pre ⟨[], true, f⟩) = jset t (joinDot pre) (.obj [(f, .obj [])]) := by
    simp only [evStep, Ev.pre, if_true, List.append_nil]
    rw [nins_notfound pre t [] f _ (by simpa using hpre), jset_of_none _ hk]
    · simp
    · intro a b hab hne
      simp only [List.nil_append] at hne ⊢
      exact hnone a b hab hne
  have h2 : evStep [] ⟨[], true, f⟩ = [(f, .obj [])] := by
    simp [evStep, nins, jset]
  rw [h1, h2, fold_focus pre t hpre (fun a b hab ha _ => hnone a b hab ha), jset_of_none _ hk]

end Luqum.Lemmas.EsSchema
