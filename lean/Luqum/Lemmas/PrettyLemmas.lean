/-
  Luqum.Lemmas.PrettyLemmas — helper definitions and lemmas about the pretty-printer model
  (`Luqum.Model.Pretty`), used by `Luqum.Props.C18`.
-/
import Luqum.Model.Pretty

namespace Luqum.Pretty
open Luqum

/-! ### definitions -/

/-- remove every blank (`' '`) and every newline -/
def squash (s : Str) : Str := s.filter (fun c => c != ' ' && c != '\n')

mutual
/-- the strings of one chain element, in order (sub-lists flattened, stick markers dropped) -/
def chunk : Chain → List Str
  | .str s => [s]
  | .stick => []
  | .sub xs => chunks xs
/-- the strings of a chain list, in order -/
def chunks : List Chain → List Str
  | [] => []
  | x :: r => chunk x ++ chunks r
end

/-- the strings of a rendered element list -/
def eltStrs : List Elt → List Str
  | [] => []
  | .str s :: r => s :: eltStrs r
  | .stick :: r => eltStrs r

/-! ### squash -/

@[simp] theorem squash_nil : squash [] = [] := rfl
@[simp] theorem squash_append (a b : Str) : squash (a ++ b) = squash a ++ squash b := by
  simp [squash]
@[simp] theorem squash_blank : squash [' '] = [] := by decide
@[simp] theorem squash_newline : squash ['\n'] = [] := by decide
theorem squash_cons_newline (s : Str) : squash ('\n' :: s) = squash s := by
  simp [squash]
theorem squash_cons_blank (s : Str) : squash (' ' :: s) = squash s := by
  simp [squash]
@[simp] theorem squash_replicate_blank (n : Nat) : squash (List.replicate n ' ') = [] := by
  induction n with
  | zero => rfl
  | succ n ih => rw [List.replicate_succ, squash_cons_blank, ih]
/-- `squash` of a single character (normal form for `simp` with `squash_cons`) -/
def squashC (c : Char) : Str := squash [c]
theorem squash_cons (c : Char) (s : Str) : squash (c :: s) = squashC c ++ squash s := by
  rw [← List.singleton_append, squash_append]; rfl
theorem squash_reverse (s : Str) : squash s.reverse = (squash s).reverse := by
  simp [squash]
@[simp] theorem squash_squash (s : Str) : squash (squash s) = squash s := by
  simp [squash]

/-- joining with a blank-only separator is invisible after squashing -/
theorem squash_joinStr (sep : Str) (hs : squash sep = []) :
    ∀ xs : List Str, squash (joinStr sep xs) = xs.flatMap squash
  | [] => rfl
  | [x] => by simp [joinStr]
  | x :: y :: r => by
    have ih := squash_joinStr sep hs (y :: r)
    simp only [joinStr, squash_append, hs, ih, List.flatMap_cons, List.append_nil]

theorem splitLines_go_squash : ∀ (s cur : Str),
    (splitLines.go cur s).flatMap squash = squash cur.reverse ++ squash s
  | [], cur => by simp [splitLines.go]
  | c :: r, cur => by
    unfold splitLines.go
    split
    · next h =>
      subst h
      rw [List.flatMap_cons, splitLines_go_squash r [], squash_cons_newline]; simp
    · next h =>
      rw [splitLines_go_squash r (c :: cur)]
      simp only [List.reverse_cons, squash_append, List.append_assoc]
      rw [← squash_append]; rfl

/-- splitting at newlines loses nothing but newlines -/
theorem splitLines_squash (s : Str) : (splitLines s).flatMap squash = squash s := by
  simp [splitLines, splitLines_go_squash]

theorem flatMap_splitLines_squash (xs : List Str) :
    (xs.flatMap splitLines).flatMap squash = xs.flatMap squash := by
  induction xs with
  | nil => rfl
  | cons x r ih => simp [List.flatMap_cons, List.flatMap_append, splitLines_squash, ih]

/-- `sep.join(s.split("\n"))` only changes blanks/newlines when `sep` is blank-only -/
theorem squash_join_splitLines (sep s : Str) (hs : squash sep = []) :
    squash (joinStr sep (splitLines s)) = squash s := by
  rw [squash_joinStr sep hs, splitLines_squash]

/-! ### applyStick -/

theorem applyStick_squash : ∀ (elts : List Elt) (last : Option Str) (st : Bool) (strs : List Str),
    applyStick elts last st = some strs →
      strs.flatMap squash = (last.toList ++ eltStrs elts).flatMap squash
  | [], last, st, strs, h => by
    cases last <;> simp [applyStick] at h
    subst h; simp [eltStrs]
  | .stick :: r, last, st, strs, h => by
    cases last with
    | none => simp [applyStick] at h
    | some l =>
      simp only [applyStick] at h
      simpa [eltStrs] using applyStick_squash r (some l) true strs h
  | .str c :: r, last, st, strs, h => by
    cases st <;> cases last <;> simp [applyStick] at h
    · have := applyStick_squash r (some c) false strs h
      simpa [eltStrs] using this
    · obtain ⟨rest, h1, rfl⟩ := h
      have := applyStick_squash r (some c) false rest h1
      simp [eltStrs] at this ⊢
      exact this
    · have := applyStick_squash r _ false strs h
      simpa [eltStrs, squash_cons_blank] using this

theorem applyStick_some_isSome : ∀ (elts : List Elt) (l : Str) (st : Bool),
    (applyStick elts (some l) st).isSome
  | [], l, st => by simp [applyStick]
  | .stick :: r, l, st => by simpa [applyStick] using applyStick_some_isSome r l true
  | .str c :: r, l, st => by
    cases st <;> simp [applyStick]
    · exact applyStick_some_isSome r c false
    · exact applyStick_some_isSome r _ false

/-! ### concatenates / concatElts -/

@[simp] theorem chunks_nil : chunks [] = [] := by simp [chunks]
@[simp] theorem chunks_cons (x : Chain) (r : List Chain) : chunks (x :: r) = chunk x ++ chunks r := by
  simp [chunks]
@[simp] theorem chunk_str (s : Str) : chunk (.str s) = [s] := by simp [chunk]
@[simp] theorem chunk_stick : chunk .stick = [] := by simp [chunk]
@[simp] theorem chunk_sub (xs : List Chain) : chunk (.sub xs) = chunks xs := by simp [chunk]
theorem chunks_append (a b : List Chain) : chunks (a ++ b) = chunks a ++ chunks b := by
  induction a with
  | nil => simp
  | cons x r ih => simp [ih]

/-- one step: `concatenates` only adds blanks/newlines to what `concatElts` returned -/
theorem concatenates_step (cfg : PrettyCfg) (xs : List Chain) (n : Int) (level : Nat) (inOne : Bool)
    (out : Str) (h : concatenates cfg xs n level inOne = some out) :
    ∃ lvl one elts, concatElts cfg xs lvl one = some elts ∧
      squash out = (eltStrs elts).flatMap squash := by
  unfold concatenates at h
  simp only at h
  split at h
  · cases h
  · next elts he =>
    split at h
    · cases h
    · next strs hs =>
      refine ⟨_, _, elts, he, ?_⟩
      have h1 := applyStick_squash _ _ _ _ hs
      simp only [Option.some.injEq] at h
      subst h
      rw [squash_append, squash_joinStr, flatMap_splitLines_squash, h1]
      · split <;> simp
      · split
        · simp
        · rw [squash_cons_newline]; split <;> simp

theorem concatElts_squash (cfg : PrettyCfg) : ∀ (xs : List Chain) (lvl : Nat) (one : Bool)
    (elts : List Elt), concatElts cfg xs lvl one = some elts →
      (eltStrs elts).flatMap squash = (chunks xs).flatMap squash
  | [], lvl, one, elts, h => by
    simp [concatElts] at h; subst h; simp [eltStrs]
  | .str s :: r, lvl, one, elts, h => by
    simp only [concatElts, Option.map_eq_some_iff] at h
    obtain ⟨rest, h1, rfl⟩ := h
    simp [eltStrs, concatElts_squash cfg r lvl one rest h1]
  | .stick :: r, lvl, one, elts, h => by
    simp only [concatElts, Option.map_eq_some_iff] at h
    obtain ⟨rest, h1, rfl⟩ := h
    simp [eltStrs, concatElts_squash cfg r lvl one rest h1]
  | .sub ys :: r, lvl, one, elts, h => by
    simp only [concatElts] at h
    split at h
    · next s rest hs hr =>
      simp only [Option.some.injEq] at h
      subst h
      obtain ⟨lvl', one', elts', he, hsq⟩ := concatenates_step cfg ys _ _ _ s hs
      simp [eltStrs, hsq, concatElts_squash cfg ys lvl' one' elts' he,
        concatElts_squash cfg r lvl one rest hr]
    · cases h

/-- the printer never alters a chunk: it only inserts blanks and newlines between chunks -/
theorem concatenates_squash (cfg : PrettyCfg) (xs : List Chain) (n : Int) (level : Nat) (inOne : Bool)
    (out : Str) (h : concatenates cfg xs n level inOne = some out) :
    squash out = (chunks xs).flatMap squash := by
  obtain ⟨lvl, one, elts, he, hsq⟩ := concatenates_step cfg xs n level inOne out h
  rw [hsq, concatElts_squash cfg xs lvl one elts he]

/-! ### success of the printer -/

/-- the list is not empty and does not start with a stick marker -/
def startsOk : List Chain → Bool
  | .str _ :: _ => true
  | .sub _ :: _ => true
  | _ => false

mutual
/-- every nested sub-list is non-empty and does not start with a stick marker -/
def okC : Chain → Bool
  | .str _ => true
  | .stick => true
  | .sub ys => okL ys && startsOk ys
def okL : List Chain → Bool
  | [] => true
  | x :: r => okC x && okL r
end

def eltsStart : List Elt → Bool
  | .str _ :: _ => true
  | _ => false

@[simp] theorem startsOk_str (s : Str) (r : List Chain) : startsOk (.str s :: r) = true := rfl
@[simp] theorem startsOk_sub (ys r : List Chain) : startsOk (.sub ys :: r) = true := rfl

@[simp] theorem okL_nil : okL [] = true := by simp [okL]
@[simp] theorem okL_cons (x : Chain) (r : List Chain) : okL (x :: r) = (okC x && okL r) := by
  simp [okL]
@[simp] theorem okC_str (s : Str) : okC (.str s) = true := by simp [okC]
@[simp] theorem okC_stick : okC .stick = true := by simp [okC]
@[simp] theorem okC_sub (ys : List Chain) : okC (.sub ys) = (okL ys && startsOk ys) := by simp [okC]
theorem okL_append (a b : List Chain) : okL (a ++ b) = (okL a && okL b) := by
  induction a with
  | nil => simp
  | cons x r ih => simp [ih, Bool.and_assoc]
theorem startsOk_append (a b : List Chain) (h : startsOk a = true) : startsOk (a ++ b) = true := by
  cases a with
  | nil => simp [startsOk] at h
  | cons x r => cases x <;> simp_all [startsOk]

theorem applyStick_isSome (elts : List Elt) (h : eltsStart elts = true) :
    (applyStick elts none false).isSome := by
  cases elts with
  | nil => simp [eltsStart] at h
  | cons e r =>
    cases e with
    | stick => simp [eltsStart] at h
    | str c => simpa [applyStick] using applyStick_some_isSome r c false

theorem concatenates_isSome_step (cfg : PrettyCfg) (xs : List Chain) (n : Int) (level : Nat)
    (inOne : Bool)
    (h : ∀ lvl one, ∃ elts, concatElts cfg xs lvl one = some elts ∧ eltsStart elts = true) :
    (concatenates cfg xs n level inOne).isSome := by
  unfold concatenates
  simp only
  obtain ⟨elts, he, hs⟩ := h (if (inOne || decide (n < cfg.maxLen - ((cfg.indent * level : Nat) : Int))) = true
    then level else level + 1) (inOne || decide (n < cfg.maxLen - ((cfg.indent * level : Nat) : Int)))
  rw [he]
  simp only
  have := applyStick_isSome elts hs
  rw [Option.isSome_iff_exists] at this
  obtain ⟨strs, hstrs⟩ := this
  rw [hstrs]
  simp

theorem concatElts_ok (cfg : PrettyCfg) : ∀ (xs : List Chain) (lvl : Nat) (one : Bool),
    okL xs = true → ∃ elts, concatElts cfg xs lvl one = some elts ∧
      (startsOk xs = true → eltsStart elts = true)
  | [], lvl, one, _ => by simp [concatElts, startsOk]
  | .str s :: r, lvl, one, h => by
    simp only [okL_cons, okC_str, Bool.true_and] at h
    obtain ⟨rest, h1, _⟩ := concatElts_ok cfg r lvl one h
    simp [concatElts, h1, eltsStart]
  | .stick :: r, lvl, one, h => by
    simp only [okL_cons, okC_stick, Bool.true_and] at h
    obtain ⟨rest, h1, _⟩ := concatElts_ok cfg r lvl one h
    simp [concatElts, h1, startsOk]
  | .sub ys :: r, lvl, one, h => by
    simp only [okL_cons, okC_sub, Bool.and_eq_true] at h
    obtain ⟨⟨hy, hys⟩, hr⟩ := h
    obtain ⟨rest, h1, _⟩ := concatElts_ok cfg r lvl one hr
    have h2 := concatenates_isSome_step cfg ys (Chain.countList ys - 1) lvl one (fun lvl' one' => by
      obtain ⟨e, he, hst⟩ := concatElts_ok cfg ys lvl' one' hy
      exact ⟨e, he, hst hys⟩)
    rw [Option.isSome_iff_exists] at h2
    obtain ⟨s, hs⟩ := h2
    simp [concatElts, h1, hs, eltsStart]

/-- a well-formed chain list is always printed -/
theorem concatenates_isSome (cfg : PrettyCfg) (xs : List Chain) (n : Int) (level : Nat)
    (inOne : Bool) (h : okL xs = true) (hs : startsOk xs = true) :
    (concatenates cfg xs n level inOne).isSome :=
  concatenates_isSome_step cfg xs n level inOne (fun lvl one => by
    obtain ⟨e, he, hst⟩ := concatElts_ok cfg xs lvl one h
    exact ⟨e, he, hst hs⟩)

theorem applyStick_start (elts : List Elt) (st : Bool) (strs : List Str)
    (h : applyStick elts none st = some strs) : eltsStart elts = true := by
  cases elts with
  | nil => simp [applyStick] at h
  | cons e r =>
    cases e with
    | stick => simp [applyStick] at h
    | str c => rfl

theorem concatenates_step_start (cfg : PrettyCfg) (xs : List Chain) (n : Int) (level : Nat)
    (inOne : Bool) (out : Str) (h : concatenates cfg xs n level inOne = some out) :
    ∃ lvl one elts, concatElts cfg xs lvl one = some elts ∧ eltsStart elts = true := by
  unfold concatenates at h
  simp only at h
  split at h
  · cases h
  · next elts he =>
    split at h
    · cases h
    · next strs hs => exact ⟨_, _, elts, he, applyStick_start _ _ _ hs⟩

theorem concatElts_ok_conv (cfg : PrettyCfg) : ∀ (xs : List Chain) (lvl : Nat) (one : Bool)
    (elts : List Elt), concatElts cfg xs lvl one = some elts →
      okL xs = true ∧ (eltsStart elts = true → startsOk xs = true)
  | [], lvl, one, elts, h => by
    simp [concatElts] at h; subst h; simp [eltsStart]
  | .str s :: r, lvl, one, elts, h => by
    simp only [concatElts, Option.map_eq_some_iff] at h
    obtain ⟨rest, h1, rfl⟩ := h
    simp [(concatElts_ok_conv cfg r lvl one rest h1).1]
  | .stick :: r, lvl, one, elts, h => by
    simp only [concatElts, Option.map_eq_some_iff] at h
    obtain ⟨rest, h1, rfl⟩ := h
    simp [(concatElts_ok_conv cfg r lvl one rest h1).1, eltsStart]
  | .sub ys :: r, lvl, one, elts, h => by
    simp only [concatElts] at h
    split at h
    · next s rest hs hr =>
      obtain ⟨lvl', one', elts', he, hst⟩ := concatenates_step_start cfg ys _ _ _ s hs
      have ⟨h1, h2⟩ := concatElts_ok_conv cfg ys lvl' one' elts' he
      simp [h1, h2 hst, (concatElts_ok_conv cfg r lvl one rest hr).1]
    · cases h

/-- exact success condition of the printer on a chain list -/
theorem concatenates_isSome_iff (cfg : PrettyCfg) (xs : List Chain) (n : Int) (level : Nat)
    (inOne : Bool) :
    (concatenates cfg xs n level inOne).isSome ↔ (okL xs = true ∧ startsOk xs = true) := by
  constructor
  · intro h
    rw [Option.isSome_iff_exists] at h
    obtain ⟨out, h⟩ := h
    obtain ⟨lvl, one, elts, he, hst⟩ := concatenates_step_start cfg xs n level inOne out h
    have ⟨h1, h2⟩ := concatElts_ok_conv cfg xs lvl one elts he
    exact ⟨h1, h2 hst⟩
  · intro ⟨h1, h2⟩; exact concatenates_isSome cfg xs n level inOne h1 h2

/-! ### the chains of a tree -/

mutual
/-- no operation without operands, as far as the printer looks (through operations, groups and
search fields; every other node is printed with `str`) -/
def NoEmptyOp : Tree → Bool
  | .op _ xs _ => !xs.isEmpty && NoEmptyOps xs
  | .group _ e _ => NoEmptyOp e
  | .field _ e _ => NoEmptyOp e
  | _ => true
def NoEmptyOps : List Tree → Bool
  | [] => true
  | x :: r => NoEmptyOp x && NoEmptyOps r
end

theorem okL_opSeparators (inline : Bool) (op : Str) : okL (opSeparators inline op) = true := by
  unfold opSeparators
  cases inline <;> by_cases h : op.isEmpty <;> simp [h]

mutual
theorem getChains_ok (inline : Bool) : ∀ (t : Tree) (p : Option Str), NoEmptyOp t = true →
    okL (getChains inline p t) = true ∧ startsOk (getChains inline p t) = true
  | .op k xs _, p, h => by
    simp only [NoEmptyOp, Bool.and_eq_true] at h
    obtain ⟨hne, hxs⟩ := h
    have ⟨h1, h2⟩ := getChainsOperands_ok inline xs k.word hxs
    have h2 := h2 (by cases xs <;> simp_all)
    simp only [getChains]
    cases p with
    | none => exact ⟨h1, h2⟩
    | some p =>
      simp only
      split
      · exact ⟨h1, h2⟩
      · simp [h1, h2]
  | .group _ e _, p, h => by
    simp only [NoEmptyOp] at h
    have ⟨h1, h2⟩ := getChains_ok inline e none h
    simp only [getChains]
    cases inline <;> simp [h1, h2]
  | .field n e _, p, h => by
    simp only [NoEmptyOp] at h
    have ⟨h1, h2⟩ := getChains_ok inline e none h
    simp [getChains, h1]
  | .term .., p, _ => by simp [getChains]
  | .range .., p, _ => by simp [getChains]
  | .approx .., p, _ => by simp [getChains]
  | .boost .., p, _ => by simp [getChains]
  | .unary .., p, _ => by simp [getChains]
  | .orange .., p, _ => by simp [getChains]
  | .none _, p, _ => by simp [getChains]
theorem getChainsOperands_ok (inline : Bool) : ∀ (xs : List Tree) (op : Str), NoEmptyOps xs = true →
    okL (getChainsOperands inline op xs) = true ∧
      (xs ≠ [] → startsOk (getChainsOperands inline op xs) = true)
  | [], op, _ => by simp [getChainsOperands]
  | [x], op, h => by
    simp only [NoEmptyOps, Bool.and_true] at h
    have ⟨h1, h2⟩ := getChains_ok inline x (some op) h
    simp [getChainsOperands, h1, h2]
  | x :: y :: r, op, h => by
    simp only [NoEmptyOps, Bool.and_eq_true] at h
    have ⟨h1, h2⟩ := getChains_ok inline x (some op) h.1
    have ⟨h3, _⟩ := getChainsOperands_ok inline (y :: r) op (by simp [NoEmptyOps, h.2])
    simp only [getChainsOperands]
    refine ⟨?_, fun _ => ?_⟩
    · simp [okL_append, h1, h3, okL_opSeparators]
    · rw [List.append_assoc]; exact startsOk_append _ _ h2
end

/-! ### the chunks of a tree versus `str` -/

/-- head and tail of the node consist of blanks / newlines only -/
def blankHT (t : Tree) : Bool := (squash t.head).isEmpty && (squash t.tail).isEmpty

mutual
/-- every node *below* an operation, group or search field that the printer walks through has a
blank-only head and tail (nothing is asked of the root's own head/tail: `str` does not print them,
nor of what is inside the leaves of the printer, which are printed by `str` as they are) -/
def BlankLay : Tree → Bool
  | .op _ xs _ => BlankLays xs
  | .group _ e _ => blankHT e && BlankLay e
  | .field _ e _ => blankHT e && BlankLay e
  | _ => true
def BlankLays : List Tree → Bool
  | [] => true
  | x :: r => blankHT x && BlankLay x && BlankLays r
end

theorem squash_full (t : Tree) (h : blankHT t = true) :
    squash (t.full .norm) = squash t.str := by
  simp only [blankHT, Tree.head, Tree.tail, Bool.and_eq_true, List.isEmpty_iff] at h
  cases t <;> simp_all [Tree.full, Tree.body, Tree.lay, Tree.str, squash_cons]

theorem str_op (k : OpK) (xs : List Tree) (l : Lay) :
    (Tree.op k xs l).str = joinWith k.word (Tree.fulls .norm xs) := by simp [Tree.str, Tree.body]
theorem str_group (k : GrpK) (e : Tree) (l : Lay) :
    (Tree.group k e l).str = ['('] ++ e.full .norm ++ [')'] := by simp [Tree.str, Tree.body]
theorem str_field (n : Str) (e : Tree) (l : Lay) :
    (Tree.field n e l).str = n ++ [':'] ++ e.full .norm := by simp [Tree.str, Tree.body]

theorem chunks_opSeparators (inline : Bool) (op : Str) :
    (chunks (opSeparators inline op)).flatMap squash = squash op := by
  unfold opSeparators
  cases inline <;> by_cases h : op.isEmpty <;> simp [h]
  all_goals (simp only [List.isEmpty_iff] at h; subst h; rfl)

mutual
theorem chunks_getChains (inline : Bool) : ∀ (t : Tree) (p : Option Str), BlankLay t = true →
    (chunks (getChains inline p t)).flatMap squash = squash t.str
  | .op k xs _, p, h => by
    simp only [BlankLay] at h
    have h1 := chunks_getChainsOperands inline xs k.word h
    rw [str_op]
    simp only [getChains]
    cases p with
    | none => exact h1
    | some p =>
      simp only
      split
      · exact h1
      · simpa using h1
  | .group _ e _, p, h => by
    simp only [BlankLay, Bool.and_eq_true] at h
    have h1 := chunks_getChains inline e none h.2
    have h2 := squash_full e h.1
    rw [str_group]
    simp only [getChains]
    cases inline <;> simp [h1, h2, squash_cons]
  | .field n e _, p, h => by
    simp only [BlankLay, Bool.and_eq_true] at h
    have h1 := chunks_getChains inline e none h.2
    have h2 := squash_full e h.1
    rw [str_field]
    simp only [getChains]
    simp [h1, h2, squash_cons]
  | .term .., p, _ => by simp [getChains]
  | .range .., p, _ => by simp [getChains]
  | .approx .., p, _ => by simp [getChains]
  | .boost .., p, _ => by simp [getChains]
  | .unary .., p, _ => by simp [getChains]
  | .orange .., p, _ => by simp [getChains]
  | .none _, p, _ => by simp [getChains]
theorem chunks_getChainsOperands (inline : Bool) : ∀ (xs : List Tree) (op : Str),
    BlankLays xs = true →
    (chunks (getChainsOperands inline op xs)).flatMap squash
      = squash (joinWith op (Tree.fulls .norm xs))
  | [], op, _ => by simp [getChainsOperands, Tree.fulls, joinWith]
  | [x], op, h => by
    simp only [BlankLays, Bool.and_true, Bool.and_eq_true] at h
    have h1 := chunks_getChains inline x (some op) h.2
    have h2 := squash_full x h.1
    simp [getChainsOperands, Tree.fulls, joinWith, h1, h2]
  | x :: y :: r, op, h => by
    simp only [BlankLays, Bool.and_eq_true] at h
    have h1 := chunks_getChains inline x (some op) h.1.2
    have h2 := squash_full x h.1.1
    have h3 := chunks_getChainsOperands inline (y :: r) op (by simp [BlankLays, h.2])
    simp only [Tree.fulls] at h3
    simp [getChainsOperands, Tree.fulls, joinWith, chunks_append, h1, h2, h3,
      chunks_opSeparators]
end

end Luqum.Pretty
