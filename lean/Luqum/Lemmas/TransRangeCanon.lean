/-
  Luqum.Lemmas.TransRangeCanon — `OpenRangeTransformer`: the result for a canonical tree is canonical
  (without merging), canonical up to one-operand AND operations (with merging), and its words are
  fine.
-/
import Luqum.Lemmas.TransRange

namespace Luqum
open Luqum.Compl (wordTerm boundText)

theorem isBound_star : isBound wildcardWord = true := rfl

theorem openRangeList_length (m : Bool) (h : Str) (xs : List Tree) :
    (openRangeList m h xs).length = xs.length := by
  rw [openRangeList_eq_map]; simp

/-! ### without merging: canonical -/

mutual
/-- **`OpenRangeTransformer(merge_ranges=False)` maps canonical trees to canonical trees** -/
theorem canon_openRange (h : Str) : ∀ (t : Tree) (uf : Bool), CanonAt uf t = true →
    CanonAt uf (openRange false h t) = true
  | .term .., _, hc => hc
  | .none _, _, hc => by simp [CanonAt] at hc
  | .field n e l, uf, hc => by
    simp only [CanonAt, Bool.and_eq_true] at hc
    simp [openRange, CanonAt, canon_openRange h e true hc.1, (openRange_shape false h e).1, hc.2]
  | .group k e l, uf, hc => by
    simp only [CanonAt, Bool.and_eq_true] at hc
    simp only [openRange, CanonAt, Bool.and_eq_true]
    exact ⟨hc.1, canon_openRange h e false hc.2⟩
  | .approx .fuzzy e n l, uf, hc => by
    simp only [CanonAt] at hc
    simp [openRange, CanonAt, (openRange_shape false h e).2.2.2.1, hc]
  | .approx .proximity e n l, uf, hc => by
    simp only [CanonAt] at hc
    simp [openRange, CanonAt, (openRange_shape false h e).2.2.2.2.1, hc]
  | .boost e n l, uf, hc => by
    simp only [CanonAt, Bool.and_eq_true] at hc
    have := openRange_shape false h e
    simp [openRange, CanonAt, canon_openRange h e false hc.1.1.1, this.1, this.2.1, this.2.2.1,
      hc.1.1.2, hc.1.2, hc.2]
  | .unary k e l, uf, hc => by
    simp only [CanonAt, Bool.and_eq_true] at hc
    simp [openRange, CanonAt, canon_openRange h e false hc.1, (openRange_shape false h e).1, hc.2]
  | .range a b il ih l, uf, hc => by
    simp only [CanonAt, Bool.and_eq_true] at hc
    simp [openRange, CanonAt, (openRange_isBound false h a).1, (openRange_isBound false h b).1, hc.1, hc.2]
  | .orange .from e inc l, uf, hc => by
    simp only [CanonAt] at hc
    have : isBound (openRange false h e) = true := by
      rw [(openRange_isBound false h e).1]; exact isBound_of_isWP hc
    simp [openRange, CanonAt, this, isBound_star]
  | .orange .to e inc l, uf, hc => by
    simp only [CanonAt] at hc
    have : isBound (openRange false h e) = true := by
      rw [(openRange_isBound false h e).1]; exact isBound_of_isWP hc
    simp [openRange, CanonAt, this, isBound_star]
  | .op k xs l, uf, hc => by
    simp only [CanonAt, Bool.and_eq_true] at hc
    obtain ⟨h1, h2⟩ := canons_openRange h xs k hc.1.2 hc.2
    simp only [openRange, Bool.false_and, Bool.false_eq_true, if_false, CanonAt, Bool.and_eq_true,
      openRangeList_length]
    exact ⟨⟨hc.1.1, h1⟩, h2⟩
theorem canons_openRange (h : Str) : ∀ (xs : List Tree) (k : OpK), CanonsAt xs = true →
    xs.all (operandOK k) = true →
    CanonsAt (openRangeList false h xs) = true ∧ (openRangeList false h xs).all (operandOK k) = true
  | [], _, _, _ => ⟨rfl, rfl⟩
  | x :: r, k, hc, ho => by
    simp only [CanonsAt, Bool.and_eq_true] at hc
    simp only [List.all_cons, Bool.and_eq_true] at ho
    obtain ⟨h1, h2⟩ := canons_openRange h r k hc.2 ho.2
    simp only [openRangeList, CanonsAt, List.all_cons, Bool.and_eq_true, openRange_operandOK]
    exact ⟨⟨canon_openRange h x false hc.1, h1⟩, ho.1, h2⟩
end

/-! ### with merging: canonical up to one-operand AND operations -/

mutual
/-- **`OpenRangeTransformer` (either mode) maps a canonical tree to a tree that is canonical up to
normalisation**: a merged AND operation may be left with one operand -/
theorem preCanon_openRange (m : Bool) (h : Str) : ∀ (t : Tree) (uf : Bool), CanonAt uf t = true →
    (uf = true → isOp' t = false) → PreCanonAt uf (openRange m h t) = true
  | .term .., _, _, _ => rfl
  | .none _, _, hc, _ => by simp [CanonAt] at hc
  | .field n e l, uf, hc, _ => by
    simp only [CanonAt, Bool.and_eq_true, Bool.not_eq_true'] at hc
    simp [openRange, PreCanonAt, preCanon_openRange m h e true hc.1 (fun _ => hc.2),
      (openRange_shape m h e).1, hc.2]
  | .group k e l, uf, hc, _ => by
    simp only [CanonAt, Bool.and_eq_true] at hc
    simp only [openRange, PreCanonAt, Bool.and_eq_true]
    exact ⟨hc.1, preCanon_openRange m h e false hc.2 (fun h => by cases h)⟩
  | .approx .fuzzy e n l, uf, hc, _ => by
    simp only [CanonAt] at hc
    simp [openRange, PreCanonAt, (openRange_shape m h e).2.2.2.1, hc]
  | .approx .proximity e n l, uf, hc, _ => by
    simp only [CanonAt] at hc
    simp [openRange, PreCanonAt, (openRange_shape m h e).2.2.2.2.1, hc]
  | .boost e n l, uf, hc, _ => by
    simp only [CanonAt, Bool.and_eq_true] at hc
    have := openRange_shape m h e
    simp [openRange, PreCanonAt, preCanon_openRange m h e false hc.1.1.1 (fun h => by cases h), this.1,
      this.2.1, this.2.2.1, hc.1.1.2, hc.1.2, hc.2]
  | .unary k e l, uf, hc, _ => by
    simp only [CanonAt, Bool.and_eq_true] at hc
    simp [openRange, PreCanonAt, preCanon_openRange m h e false hc.1 (fun h => by cases h),
      (openRange_shape m h e).1, hc.2]
  | .range a b il ih l, uf, hc, _ => by
    simp only [CanonAt, Bool.and_eq_true] at hc
    simp [openRange, PreCanonAt, (openRange_isBound m h a).1, (openRange_isBound m h b).1, hc.1, hc.2]
  | .orange .from e inc l, uf, hc, _ => by
    simp only [CanonAt] at hc
    have : isBound (openRange m h e) = true := by
      rw [(openRange_isBound m h e).1]; exact isBound_of_isWP hc
    simp [openRange, PreCanonAt, this, isBound_star]
  | .orange .to e inc l, uf, hc, _ => by
    simp only [CanonAt] at hc
    have : isBound (openRange m h e) = true := by
      rw [(openRange_isBound m h e).1]; exact isBound_of_isWP hc
    simp [openRange, PreCanonAt, this, isBound_star]
  | .op k xs l, uf, hc, huf => by
    simp only [CanonAt, Bool.and_eq_true, decide_eq_true_eq] at hc
    obtain ⟨h1, h2⟩ := preCanons_openRange m h xs k hc.1.2 hc.2
    have huf' : uf = false := by
      cases uf with
      | false => rfl
      | true => simpa [isOp'] using huf rfl
    simp only [openRange]
    split
    · rename_i hcond
      simp only [Bool.and_eq_true, beq_iff_eq] at hcond
      obtain ⟨_, rfl⟩ := hcond
      -- every operand is canonical up to normalisation and not an operation; joining keeps that
      have hplain : (openRangeList m h xs).all plainOperand = true := by
        rw [List.all_eq_true]
        intro z hz
        have hz1 := List.all_eq_true.1 (by rw [← preCanonsAt_eq_all]; exact h1) z hz
        rw [openRangeList_eq_map] at hz
        obtain ⟨x, hx, rfl⟩ := List.mem_map.1 hz
        have ho := List.all_eq_true.1 hc.2 x hx
        simp only [operandOK, Bool.not_eq_true'] at ho
        simp only [plainOperand, Bool.and_eq_true, Bool.not_eq_true', (openRange_shape m h x).1, ho,
          and_true]
        exact hz1
      have hm := mergeOps_all_bool _ joinRange_plain _ hplain
      have hne : 1 ≤ (mergeOps (openRangeList m h xs)).length := by
        cases xs with
        | nil => simp at hc
        | cons x r => exact mergeOps_length_pos _ _
      have hpre : (mergeOps (openRangeList m h xs)).all (PreCanonAt false) = true := by
        rw [List.all_eq_true] at hm ⊢
        intro z hz
        have := hm z hz
        simp only [plainOperand, Bool.and_eq_true] at this
        exact this.1
      have hnon : (mergeOps (openRangeList m h xs)).all (fun x => !isOp' x) = true := by
        rw [List.all_eq_true] at hm ⊢
        intro z hz
        have := hm z hz
        simp only [plainOperand, Bool.and_eq_true] at this
        exact this.2
      simp only [PreCanonAt, Bool.and_eq_true, Bool.or_eq_true, decide_eq_true_eq, preCanonsAt_eq_all,
        Bool.not_eq_true']
      refine ⟨⟨by decide, hpre⟩, ?_⟩
      by_cases h2 : 2 ≤ (mergeOps (openRangeList m h xs)).length
      · left
        refine ⟨h2, ?_⟩
        rw [List.all_eq_true] at hnon ⊢
        intro z hz
        have := hnon z hz
        simp only [Bool.not_eq_true'] at this
        simp [preOperandOK, operandOK, this]
      · right
        exact ⟨⟨by omega, huf'⟩, hnon⟩
    · simp only [PreCanonAt, Bool.and_eq_true, Bool.or_eq_true, decide_eq_true_eq, openRangeList_length]
      exact ⟨⟨hc.1.1.1, h1⟩, Or.inl ⟨hc.1.1.2, h2⟩⟩
theorem preCanons_openRange (m : Bool) (h : Str) : ∀ (xs : List Tree) (k : OpK), CanonsAt xs = true →
    xs.all (operandOK k) = true →
    PreCanonsAt (openRangeList m h xs) = true ∧ (openRangeList m h xs).all (preOperandOK k) = true
  | [], _, _, _ => ⟨rfl, rfl⟩
  | x :: r, k, hc, ho => by
    simp only [CanonsAt, Bool.and_eq_true] at hc
    simp only [List.all_cons, Bool.and_eq_true] at ho
    obtain ⟨h1, h2⟩ := preCanons_openRange m h r k hc.2 ho.2
    simp only [openRangeList, PreCanonsAt, List.all_cons, Bool.and_eq_true, preOperandOK,
      openRange_operandOK, Bool.or_eq_true]
    exact ⟨⟨preCanon_openRange m h x false hc.1 (fun h => by cases h), h1⟩, Or.inl ho.1, h2⟩
end

end Luqum
