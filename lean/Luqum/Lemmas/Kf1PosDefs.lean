/-
  Luqum.Lemmas.Kf1PosDefs — positions without the KF1 hypothesis: `pos` and `size` designate
  slices of the INPUT.  The predicate `PosS` ("source layout", indexed by the start of the body) is
  `Pos` with every length of a printed text replaced by the extent the node claims in the source
  (`Tree.ext`: head, `size`, tail), and with a gap of any length between the name of a
  `SearchField` and its `:` (the blanks that known finding KF1 loses).
-/
import Luqum.Lemmas.LaidActMain

namespace Luqum

/-- the extent of an item in the source: its head, its body (`size` characters) and its tail -/
def Tree.ext (t : Tree) : Int := layLen t.lay

/-- the layout record says: the body starts at `p` and is `z` characters long -/
def LayS (l : Lay) (p z : Int) : Prop := l.pos = some p ∧ l.size = some z

/-- total extent of the operands, each followed by a separator of `sep` characters -/
def spanS (sep : Nat) : List Tree → Int
  | [] => 0
  | x :: r => x.ext + sep + spanS sep r

mutual
/-- `PosS t p`: the body of `t` starts at offset `p` of the source; `size` of `t` is the extent of
its parts in the source (for a `SearchField`: name, a gap of `g` lost characters, `:`, operand), and
the same holds for all descendants, each at the offset where the parts before it end -/
def PosS : Tree → Int → Prop
  | .term _ v l, p => LayS l p v.length
  | .field n e l, p =>
      ∃ g : Nat, LayS l p (n.length + g + 1 + e.ext) ∧ PosS e (p + n.length + g + 1 + e.head.length)
  | .group _ e l, p => LayS l p (1 + e.ext + 1) ∧ PosS e (p + 1 + e.head.length)
  | .range a b _ _ l, p =>
      LayS l p (1 + a.ext + 2 + b.ext + 1) ∧ PosS a (p + 1 + a.head.length) ∧
      PosS b (p + 1 + a.ext + 2 + b.head.length)
  | .approx _ t n l, p => LayS l p (t.ext + 1 + n.source.length) ∧ PosS t (p + t.head.length)
  | .boost e n l, p => LayS l p (e.ext + 1 + n.source.length) ∧ PosS e (p + e.head.length)
  | .op k xs l, p =>
      xs ≠ [] ∧ LayS l p (spanS k.word.length xs - k.word.length) ∧ PosListS k.word.length xs p
  | .unary k a l, p =>
      LayS l p (k.word.length + a.ext) ∧ PosS a (p + k.word.length + a.head.length)
  | .orange k a inc l, p =>
      LayS l p ((orangePre k inc).length + a.ext) ∧
      PosS a (p + (orangePre k inc).length + a.head.length)
  | .none _, _ => False
/-- the operands follow each other, `sep` characters apart -/
def PosListS (sep : Nat) : List Tree → Int → Prop
  | [], _ => True
  | x :: r, p => PosS x (p + x.head.length) ∧ PosListS sep r (p + x.ext + sep)
end

/-- **source layout**, indexed by the offset at which the item (head included) starts -/
def LaidSrc (off : Int) (t : Tree) : Prop := PosS t (off + t.head.length)

/-! ### basic facts -/

theorem PosS.not_none {t : Tree} {p : Int} (h : PosS t p) : t.isNone = false := by
  cases t <;> simp [PosS, Tree.isNone] at h ⊢

theorem PosS.pos_eq {t : Tree} {p : Int} (h : PosS t p) : t.lay.pos = some p := by
  cases t <;> simp only [PosS, LayS, Tree.lay] at h ⊢
  case field => obtain ⟨g, h1, _⟩ := h; exact h1.1
  case op => exact h.2.1.1
  all_goals first | exact h.1.1 | exact h.1

theorem PosS.cast {t : Tree} {p q : Int} (h : PosS t p) (e : p = q) : PosS t q := e ▸ h

@[simp] theorem posS_setHead (t : Tree) (h : Str) (p : Int) : PosS (t.setHead h) p ↔ PosS t p := by
  cases t <;> simp [Tree.setHead, Tree.setLay, Tree.lay, PosS, LayS]

@[simp] theorem posS_setTail (t : Tree) (x : Str) (p : Int) : PosS (t.setTail x) p ↔ PosS t p := by
  cases t <;> simp [Tree.setTail, Tree.setLay, Tree.lay, PosS, LayS]

@[simp] theorem posS_toFieldGroup (e : Tree) (p : Int) : PosS (toFieldGroup e) p ↔ PosS e p := by
  unfold toFieldGroup
  split
  · simp [PosS, LayS]
  · rfl

theorem ext_setHead (t : Tree) (h : Str) : (t.setHead h).ext = t.ext - t.head.length + h.length :=
  layLen_setHead t h

theorem ext_setTail (t : Tree) (x : Str) : (t.setTail x).ext = t.ext - t.tail.length + x.length := by
  simp only [Tree.ext, Tree.setTail, Tree.setLay_lay, layLen, Tree.tail]
  omega

theorem ext_toFieldGroup (e : Tree) : (toFieldGroup e).ext = e.ext := by
  unfold toFieldGroup
  split <;> rfl

theorem ext_eq (t : Tree) {z : Int} (h : t.lay.size = some z) :
    t.ext = t.head.length + z + t.tail.length := by
  simp only [Tree.ext, layLen, h, Option.getD_some, Tree.head, Tree.tail]; omega

/-! ### lists of operands -/

theorem spanS_append (sep : Nat) : ∀ (xs ys : List Tree),
    spanS sep (xs ++ ys) = spanS sep xs + spanS sep ys
  | [], ys => by simp [spanS]
  | x :: r, ys => by simp only [List.cons_append, spanS, spanS_append sep r ys]; omega

theorem posListS_append (sep : Nat) : ∀ (xs ys : List Tree) (p : Int),
    PosListS sep (xs ++ ys) p ↔ PosListS sep xs p ∧ PosListS sep ys (p + spanS sep xs)
  | [], ys, p => by simp [PosListS, spanS]
  | x :: r, ys, p => by
    simp only [List.cons_append, PosListS, spanS, posListS_append sep r ys, and_assoc]
    have : p + x.ext + (sep : Int) + spanS sep r = p + (x.ext + sep + spanS sep r) := by omega
    rw [this]

/-! ### sizes are natural numbers -/

mutual
theorem PosS.size_nonneg : ∀ {t : Tree} {p : Int}, PosS t p → ∃ z : Nat, t.lay.size = some (z : Int)
  | .term _ v l, p, h => ⟨v.length, h.2⟩
  | .field n e l, p, h => by
    obtain ⟨g, ⟨_, h2⟩, he⟩ := h
    obtain ⟨z, hz⟩ := PosS.size_nonneg he
    refine ⟨n.length + g + 1 + (e.head.length + z + e.tail.length), ?_⟩
    simp only [Tree.lay, h2, ext_eq e hz]; congr 1
  | .group _ e l, p, h => by
    obtain ⟨⟨_, h2⟩, he⟩ := h
    obtain ⟨z, hz⟩ := PosS.size_nonneg he
    refine ⟨1 + (e.head.length + z + e.tail.length) + 1, ?_⟩
    simp only [Tree.lay, h2, ext_eq e hz]; congr 1
  | .range a b _ _ l, p, h => by
    obtain ⟨⟨_, h2⟩, ha, hb⟩ := h
    obtain ⟨za, hza⟩ := PosS.size_nonneg ha
    obtain ⟨zb, hzb⟩ := PosS.size_nonneg hb
    refine ⟨1 + (a.head.length + za + a.tail.length) + 2 + (b.head.length + zb + b.tail.length) + 1, ?_⟩
    simp only [Tree.lay, h2, ext_eq a hza, ext_eq b hzb]; congr 1
  | .approx _ t n l, p, h => by
    obtain ⟨⟨_, h2⟩, he⟩ := h
    obtain ⟨z, hz⟩ := PosS.size_nonneg he
    refine ⟨(t.head.length + z + t.tail.length) + 1 + n.source.length, ?_⟩
    simp only [Tree.lay, h2, ext_eq t hz]; congr 1
  | .boost e n l, p, h => by
    obtain ⟨⟨_, h2⟩, he⟩ := h
    obtain ⟨z, hz⟩ := PosS.size_nonneg he
    refine ⟨(e.head.length + z + e.tail.length) + 1 + n.source.length, ?_⟩
    simp only [Tree.lay, h2, ext_eq e hz]; congr 1
  | .op k xs l, p, h => by
    obtain ⟨hne, ⟨_, h2⟩, hl⟩ := h
    obtain ⟨z, hz⟩ := PosListS.span_nonneg hne hl
    exact ⟨z, by simp only [Tree.lay, h2, hz]⟩
  | .unary k a l, p, h => by
    obtain ⟨⟨_, h2⟩, he⟩ := h
    obtain ⟨z, hz⟩ := PosS.size_nonneg he
    refine ⟨k.word.length + (a.head.length + z + a.tail.length), ?_⟩
    simp only [Tree.lay, h2, ext_eq a hz]; congr 1
  | .orange k a inc l, p, h => by
    obtain ⟨⟨_, h2⟩, he⟩ := h
    obtain ⟨z, hz⟩ := PosS.size_nonneg he
    refine ⟨(orangePre k inc).length + (a.head.length + z + a.tail.length), ?_⟩
    simp only [Tree.lay, h2, ext_eq a hz]; congr 1
  | .none _, _, h => h.elim
theorem PosListS.span_nonneg {sep : Nat} : ∀ {xs : List Tree} {p : Int}, xs ≠ [] →
    PosListS sep xs p → ∃ z : Nat, spanS sep xs - sep = (z : Int)
  | [], _, hne, _ => absurd rfl hne
  | [x], p, _, h => by
    obtain ⟨z, hz⟩ := PosS.size_nonneg h.1
    refine ⟨x.head.length + z + x.tail.length, ?_⟩
    simp only [spanS, ext_eq x hz]; omega
  | x :: y :: r, p, _, h => by
    obtain ⟨z, hz⟩ := PosS.size_nonneg h.1
    obtain ⟨z', hz'⟩ := PosListS.span_nonneg (xs := y :: r) (by simp) h.2
    refine ⟨x.head.length + z + x.tail.length + sep + z', ?_⟩
    simp only [spanS, ext_eq x hz] at hz' ⊢; omega
end

/-- the extent of a laid-out item is a natural number, at least the lengths of head and tail -/
theorem PosS.ext_nonneg {t : Tree} {p : Int} (h : PosS t p) :
    ∃ z : Nat, t.lay.size = some (z : Int) ∧ t.ext = ((t.head.length + z + t.tail.length : Nat) : Int) := by
  obtain ⟨z, hz⟩ := h.size_nonneg
  exact ⟨z, hz, by rw [ext_eq t hz]; omega⟩

end Luqum
