/-
  Luqum.Lemmas.EsDefs — specifications on (configuration, tree) used by C05 / C06 / C07, stated
  without reference to the visitor: and-like and or-like operations, the AND/OR mix, container-field misuse, and the
  supported constructs.
-/
import Luqum.Model.Es

namespace Luqum.Lemmas.Es
open Luqum

/-! ### and-like, or-like -/

/-- an operation of kind `k` is a conjunction: `AND`, or the implicit operation when the default is MUST -/
def kindAnd (c : EsCfg) : OpK → Bool
  | .and => true
  | .unk => c.defaultMust
  | _ => false

/-- an operation of kind `k` is a disjunction: `OR`, or the implicit operation when the default is SHOULD -/
def kindOr (c : EsCfg) : OpK → Bool
  | .or => true
  | .unk => !c.defaultMust
  | _ => false

def andLike (c : EsCfg) : Tree → Bool
  | .op k _ _ => kindAnd c k
  | _ => false

def orLike (c : EsCfg) : Tree → Bool
  | .op k _ _ => kindOr c k
  | _ => false

/-- kinds of opposite likeness -/
def opposite (c : EsCfg) (k k' : OpK) : Bool :=
  (kindOr c k && kindAnd c k') || (kindAnd c k && kindOr c k')

/-! ### the AND/OR mix -/

mutual
/-- the operand `t` of an operation of kind `k` exhibits a mix: after flattening the operands of
exactly the same kind, it is an operation of the opposite likeness -/
def mixOp (c : EsCfg) (k : OpK) : Tree → Bool
  | .op k' ys _ => if k' = k then mixOps c k ys else opposite c k k'
  | _ => false
def mixOps (c : EsCfg) (k : OpK) : List Tree → Bool
  | [] => false
  | x :: r => mixOp c k x || mixOps c k r
end

mutual
/-- some operation of the query has (after flattening same-kind operands) a direct operand of the
opposite likeness. Range bounds are not inspected (they are terms in every supported query). -/
def Mix (c : EsCfg) : Tree → Bool
  | .op k xs _ => mixOps c k xs || MixL c xs
  | .field _ e _ => Mix c e
  | .group _ e _ => Mix c e
  | .approx _ e _ _ => Mix c e
  | .boost e _ _ => Mix c e
  | .unary _ e _ => Mix c e
  | .orange _ e _ _ => Mix c e
  | .term .. => false
  | .range .. => false
  | .none _ => false
def MixL (c : EsCfg) : List Tree → Bool
  | [] => false
  | x :: r => Mix c x || MixL c r
end

/-! ### container-field misuse -/

/-- what the checker reports for a term reached under the accumulated field path `pfx` -/
def termMisuse (c : EsCfg) (pfx : List Str) (node : Tree) : Option EsErr :=
  if pfx.isEmpty then none
  else
    let full := joinDot pfx
    if c.nestedPrefixes.contains full then
      some (.nestedSearch (quoteMsg node.str full "\" as it is a nested field"))
    else if c.objectPrefixes.contains full then
      some (.nestedSearch (quoteMsg node.str full "\" as it is an object field"))
    else
      match c.subNorm, c.objectNorm with
      | some sub, some obj =>
        if 2 ≤ pfx.length && !sub.contains full && !obj.contains full && !c.nestedFlat.contains full then
          some (.objectSearch (['"'] ++ node.str ++ "\" attributed to unknown nested or object field \"".toList
            ++ full ++ ['"']))
        else none
      | _, _ => none

mutual
/-- the terms of a query in document order (including the bounds of a range and the term of a
fuzzy / proximity), each with the field path accumulated from the enclosing `SearchField`s -/
def fieldedTerms (pfx : List Str) : Tree → List (List Str × Tree)
  | .term k v l => [(pfx, .term k v l)]
  | .none _ => []
  | .field n e _ => fieldedTerms (pfx ++ splitOnChar '.' n) e
  | .group _ e _ => fieldedTerms pfx e
  | .approx _ e _ _ => fieldedTerms pfx e
  | .boost e _ _ => fieldedTerms pfx e
  | .unary _ e _ => fieldedTerms pfx e
  | .orange _ e _ _ => fieldedTerms pfx e
  | .range a b _ _ _ => fieldedTerms pfx a ++ fieldedTerms pfx b
  | .op _ xs _ => fieldedTermsL pfx xs
def fieldedTermsL (pfx : List Str) : List Tree → List (List Str × Tree)
  | [] => []
  | x :: r => fieldedTerms pfx x ++ fieldedTermsL pfx r
end

/-- the misuse of the first (document order) offending term below the field path `pfx` -/
def misuseAt (c : EsCfg) (pfx : List Str) (t : Tree) : Option EsErr :=
  (fieldedTerms pfx t).findSome? fun p => termMisuse c p.1 p.2

/-- the first term attributed to a container (nested / object) field, or to an unknown dotted field -/
def misuse (c : EsCfg) (t : Tree) : Option EsErr := misuseAt c [] t

/-! ### supported constructs -/

mutual
/-- words, phrases, ranges between terms, fuzzy, proximity, boost, groups, fields, unary operators
and operations (of any of the four kinds) with at least two operands; no regex, no open range, no
`NoneItem` -/
def Supported : Tree → Bool
  | .term .word _ _ => true
  | .term .phrase _ _ => true
  | .term .regex _ _ => false
  | .range lo hi _ _ _ => (termValue? lo).isSome && (termValue? hi).isSome
  | .approx _ e _ _ => Supported e
  | .boost e _ _ => Supported e
  | .group _ e _ => Supported e
  | .field _ e _ => Supported e
  | .unary _ e _ => Supported e
  | .op _ xs _ => decide (2 ≤ xs.length) && SupportedL xs
  | .orange .. => false
  | .none _ => false
def SupportedL : List Tree → Bool
  | [] => true
  | x :: r => Supported x && SupportedL r
end

end Luqum.Lemmas.Es
