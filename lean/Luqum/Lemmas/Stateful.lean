/-
  Luqum.Lemmas.Stateful — the stateful lexer (`lexLoopS`, tracker stored in the lexer state)
  simulates the pure `lexLoop`, provided the stored tracker is in sync with `lexLoop`'s arguments
  *once the offset is no longer 0*.  At offset 0 nothing is required of the stored tracker: it is
  replaced before being read.
-/
import Luqum.Model.Stateful

namespace Luqum

/-- the tracker that `lexLoop`'s arguments `acc`, `pending` stand for -/
def trackerOf (acc : List Tok) (pending : Option Str) : Tracker :=
  { head := pending, last := if acc = [] then none else some .current }

theorem take_add_reverse (data : Str) (pos n : Nat) :
    (data.take (pos + n)).reverse = ((data.drop pos).take n).reverse ++ (data.take pos).reverse := by
  rw [List.take_add, List.reverse_append]

theorem drop_add' (data : Str) (pos n : Nat) : data.drop (pos + n) = (data.drop pos).drop n := by
  rw [List.drop_drop]

theorem addTail_eq_nil (acc : List Tok) (s : Str) : addTail acc s = [] ↔ acc = [] := by
  cases acc <;> simp [addTail]

/-- **simulation**: from a state at offset 0 (stored tracker ARBITRARY, nothing lexed yet) or at a
later offset with the stored tracker in sync, the stateful loop yields what `lexLoop` yields -/
theorem lexLoopS_eq : ∀ (fuel : Nat) (st : LexerState) (acc : List Tok) (pending : Option Str),
    (st.pos = 0 → acc = [] ∧ pending = none) →
    (st.pos ≠ 0 → st.tracker = some (trackerOf acc pending)) →
    (lexLoopS fuel st acc).1 =
      lexLoop fuel st.pos (st.data.take st.pos).reverse (st.data.drop st.pos) acc pending := by
  intro fuel
  induction fuel with
  | zero => intro st acc pending _ _; rfl
  | succ fuel ih =>
    intro st acc pending h0 h1
    obtain ⟨data, pos, tracker⟩ := st
    simp only at h0 h1 ⊢
    unfold lexLoopS lexLoop
    simp only
    cases hrest : data.drop pos with
    | nil => rfl
    | cons c r =>
      simp only
      cases hl : lexOne (data.take pos).reverse (c :: r) with
      | none => rfl
      | some l =>
        cases l with
        | sep n =>
          simp only
          have hn : max n 1 ≠ 0 := by omega
          by_cases hp : pos = 0
          · -- offset 0: the stored tracker is replaced by a fresh one
            subst hp
            obtain ⟨rfl, rfl⟩ := h0 rfl
            simp only [LexerState.fetch, if_pos, Tracker.handleSep, Tracker.fresh]
            rw [ih _ _ (some ((c :: r).take (max n 1)))]
            · simp only []
              rw [take_add_reverse, drop_add', hrest]
            · intro h; simp only at h; omega
            · intro _; rfl
          · have ht := h1 hp
            subst ht
            simp only [LexerState.fetch, if_neg hp, Tracker.handleSep, trackerOf]
            by_cases hacc : acc = []
            · subst hacc
              simp only [if_pos]
              rw [ih _ _ pending]
              · rw [take_add_reverse, drop_add', hrest]; rfl
              · intro h; simp only at h; omega
              · intro _; rfl
            · simp only [if_neg hacc]
              rw [ih _ _ pending]
              · rw [take_add_reverse, drop_add', hrest]
              · intro h; simp only at h; omega
              · intro _
                simp only [trackerOf, addTail_eq_nil, if_neg hacc]
        | tok k n =>
          simp only
          have hn : max n 1 ≠ 0 := by omega
          by_cases hp : pos = 0
          · subst hp
            obtain ⟨rfl, rfl⟩ := h0 rfl
            simp only [LexerState.fetch, if_pos, Tracker.handleTok, Tracker.fresh]
            rw [ih _ _ none]
            · rw [take_add_reverse, drop_add', hrest]
            · intro h; simp only at h; omega
            · intro _; simp [trackerOf]
          · have ht := h1 hp
            subst ht
            simp only [LexerState.fetch, if_neg hp, Tracker.handleTok, trackerOf]
            rw [ih _ _ none]
            · rw [take_add_reverse, drop_add', hrest]
            · intro h; simp only at h; omega
            · intro _; simp [trackerOf]

/-- **the first lexeme starts at offset 0**: right after `input(s)` the offset is 0 whatever the
previous state, so the simulation applies with no hypothesis on the stored tracker -/
theorem input_pos (st : LexerState) (s : Str) : (st.input s).pos = 0 := rfl

theorem input_data (st : LexerState) (s : Str) : (st.input s).data = s := rfl

/-- **history independence of the lexer**: whatever state the lexer object was left in, the tokens
(and the lexer error) of the next call are those of the pure `lex` -/
theorem lexFrom_eq (st : LexerState) (s : Str) : (lexFrom st s).1 = lex s := by
  unfold lexFrom lex
  rw [lexLoopS_eq _ _ [] none (fun _ => ⟨rfl, rfl⟩) (fun h => absurd (input_pos st s) h)]
  simp [input_pos, input_data]

end Luqum
