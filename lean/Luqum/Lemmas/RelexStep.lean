/-
  Luqum.Lemmas.RelexStep — converse of the context lemma: the lexeme of a token that the master
  regex matches in context is a valid token text on its own, and the text that follows it satisfies
  `followOK` (when the lexer does not fail right there).
-/
import Luqum.Lemmas.RelexConv
import Luqum.Lemmas.RelexValid

namespace Luqum

/-! ### dispatch on the first character -/

theorem lexOne_quote (prev r : Str) :
    lexOne prev ('"' :: r) = (delimLen '"' ('"' :: r)).map (.tok .phrase) := by
  simp [lexOne, (by decide : isSpace '"' = false)]
theorem lexOne_slash (prev r : Str) :
    lexOne prev ('/' :: r) = (delimLen '/' ('/' :: r)).map (.tok .regex) := by
  simp [lexOne, (by decide : isSpace '/' = false)]
theorem lexOne_tilde (prev r : Str) :
    lexOne prev ('~' :: r) = (suffixLen '~' ('~' :: r)).map (.tok .approx) := by
  simp [lexOne, (by decide : isSpace '~' = false)]
theorem lexOne_caret (prev r : Str) :
    lexOne prev ('^' :: r) = (suffixLen '^' ('^' :: r)).map (.tok .boost) := by
  simp [lexOne, (by decide : isSpace '^' = false)]

/-! ### phrases, regexes, `~`, `^` -/

theorem delimScan_take {q : Char} : ∀ (f : Nat) (xs : Str) (n : Nat), delimScan q f xs = some n →
    delimScan q f (xs.take n) = some n ∧ n ≤ xs.length ∧ 1 ≤ n := by
  intro f
  induction f with
  | zero => intro xs n h; simp [delimScan] at h
  | succ f ih =>
    intro xs n h
    cases xs with
    | nil => simp [delimScan] at h
    | cons c xs =>
      simp only [delimScan] at h
      by_cases hc : c = q
      · simp only [hc, if_true, Option.some.injEq] at h
        subst h
        simp [delimScan, hc]
      · simp only [hc, if_false] at h
        by_cases hb : c = '\\'
        · simp only [hb, if_true] at h
          cases xs with
          | nil => simp at h
          | cons d xs =>
            simp only at h
            by_cases hd : d = '\n'
            · simp [hd] at h
            · simp only [hd, ne_eq, not_false_eq_true, if_true, Option.map_eq_some_iff] at h
              obtain ⟨m, hm, rfl⟩ := h
              obtain ⟨h1, h2, h3⟩ := ih xs m hm
              refine ⟨?_, by simp; omega, by omega⟩
              subst hb
              simp only [List.take_succ_cons, delimScan, hc, if_false, if_true, hd, ne_eq,
                not_false_eq_true, h1, Option.map_some]
        · simp only [hb, if_false, Option.map_eq_some_iff] at h
          obtain ⟨m, hm, rfl⟩ := h
          obtain ⟨h1, h2, h3⟩ := ih xs m hm
          refine ⟨?_, by simp; omega, by omega⟩
          simp only [List.take_succ_cons, delimScan, hc, if_false, hb, h1, Option.map_some]

theorem delimScan_mono {q : Char} : ∀ (f f' : Nat) (xs : Str) (n : Nat), delimScan q f xs = some n →
    xs.length + 1 ≤ f' → delimScan q f' xs = some n := by
  intro f f' xs n h hf
  have := delimScan_ext (q := q) f (max f f') xs [] n h (Nat.le_max_left _ _)
  rw [List.append_nil] at this
  -- go down from `max f f'` to `f'`: both are large enough; prove by a direct induction instead
  clear this
  induction f generalizing f' xs n with
  | zero => simp [delimScan] at h
  | succ f ih =>
    obtain ⟨g, rfl⟩ : ∃ g, f' = g + 1 := ⟨f' - 1, by omega⟩
    cases xs with
    | nil => simp [delimScan] at h
    | cons c xs =>
      simp only [List.length_cons] at hf
      simp only [delimScan] at h ⊢
      by_cases hc : c = q
      · simpa [hc] using h
      · simp only [hc, if_false] at h ⊢
        by_cases hb : c = '\\'
        · simp only [hb, if_true] at h ⊢
          cases xs with
          | nil => simp at h
          | cons d xs =>
            simp only at h ⊢
            by_cases hd : d = '\n'
            · simp [hd] at h
            · simp only [hd, ne_eq, not_false_eq_true, if_true, Option.map_eq_some_iff] at h ⊢
              obtain ⟨m, hm, rfl⟩ := h
              simp only [List.length_cons] at hf
              exact ⟨m, ih g xs m hm (by omega), rfl⟩
        · simp only [hb, if_false, Option.map_eq_some_iff] at h ⊢
          obtain ⟨m, hm, rfl⟩ := h
          exact ⟨m, ih g xs m hm (by omega), rfl⟩

/-- the lexeme of a phrase / regex is matched entirely when alone -/
theorem delimLen_take {q : Char} {rest : Str} {n : Nat} (h : delimLen q rest = some n) :
    delimLen q (rest.take n) = some n ∧ n ≤ rest.length ∧ 1 ≤ n := by
  cases rest with
  | nil => simp [delimLen] at h
  | cons c r =>
    simp only [delimLen] at h
    by_cases hc : c = q
    · simp only [hc, if_true, Option.map_eq_some_iff] at h
      obtain ⟨m, hm, rfl⟩ := h
      obtain ⟨h1, h2, h3⟩ := delimScan_take _ _ _ hm
      refine ⟨?_, by simp; omega, by omega⟩
      simp only [List.take_succ_cons, delimLen, hc, if_true]
      rw [delimScan_mono _ ((r.take m).length + 1) _ _ h1 (by omega)]
      rfl
    · simp [hc] at h

theorem takeWhile_drop_stop {p : Char → Bool} (xs : Str) :
    ∀ c r', xs.drop (xs.takeWhile p).length = c :: r' → p c = false := by
  induction xs with
  | nil => intro c r' h; simp at h
  | cons a xs ih =>
    intro c r' h
    by_cases ha : p a = true
    · simp only [List.takeWhile_cons, ha, if_true, List.length_cons, List.drop_succ_cons] at h
      exact ih c r' h
    · simp only [List.takeWhile_cons, ha] at h
      simp at h
      rw [← h.1]; simpa using ha

theorem take_takeWhile_length {p : Char → Bool} (xs : Str) :
    xs.take (xs.takeWhile p).length = xs.takeWhile p := by
  induction xs with
  | nil => rfl
  | cons a xs ih =>
    by_cases ha : p a = true
    · simp [ha, ih]
    · simp [ha]

theorem takeWhile_idem {p : Char → Bool} (xs : Str) :
    (xs.takeWhile p).takeWhile p = xs.takeWhile p := by
  induction xs with
  | nil => rfl
  | cons a xs ih =>
    by_cases ha : p a = true
    · simp [ha, ih]
    · simp [ha]

theorem suffixLen_take {m : Char} {rest : Str} {n : Nat} (h : suffixLen m rest = some n) :
    suffixLen m (rest.take n) = some (rest.take n).length ∧ (rest.take n).length = n ∧ 1 ≤ n ∧
      ∀ c r', rest.drop n = c :: r' → isNumChar c = false := by
  cases rest with
  | nil => simp [suffixLen] at h
  | cons c r =>
    simp only [suffixLen] at h
    by_cases hc : c = m
    · simp only [hc, if_true, Option.some.injEq] at h
      subst h
      rw [Nat.add_comm 1]
      simp only [List.take_succ_cons, List.drop_succ_cons, take_takeWhile_length, List.length_cons]
      refine ⟨?_, trivial, by omega, takeWhile_drop_stop r⟩
      simp [suffixLen, hc, takeWhile_idem, Nat.add_comm]
    · simp [hc] at h

/-! ### terms -/

theorem tmmR_shape {pv : Str} (h : tmmR pv = true) :
    ∃ m2 m1 d2 d1 k, pv = m2 :: m1 :: ':' :: d2 :: d1 :: 'T' :: k ∧
      (isDigitU d1 && isDigitU d2) = true ∧ (isDigitU m1 && isDigitU m2) = true := by
  unfold tmmR at h
  split at h
  · simp only [Bool.and_eq_true] at h
    exact ⟨_, _, _, _, _, rfl, by simp [h.1.1.1, h.1.1.2], by simp [h.1.2, h.2]⟩
  · cases h

theorem tmmR_append {y z : Str} (h : tmmR y = true) : tmmR (y ++ z) = true := by
  obtain ⟨m2, m1, d2, d1, k, rfl, hd, hm⟩ := tmmR_shape h
  simp only [Bool.and_eq_true] at hd hm
  simp [tmmR, hd.1, hd.2, hm.1, hm.2]

/-- `termRest_no_tmm` in terms of what was consumed and what is left -/
theorem termRest_no_tmm' {fuel : Nat} {pv xs : Str} {n : Nat} (h : termRest fuel pv xs = n)
    (hn : n ≤ xs.length) (ht : tmmR ((xs.take n).reverse ++ pv) = true) (h3 : 3 ≤ n) :
    secOK (xs.drop n) = false := by
  cases hs : secOK (xs.drop n) with
  | false => rfl
  | true =>
    exfalso
    obtain ⟨s1, s2, b, hdrop, hsd⟩ := secOK_shape hs
    have hlen : ((xs.take n).reverse).length = n := by simp; omega
    match hrev : (xs.take n).reverse, hlen with
    | e1 :: e2 :: e3 :: tl, hlen =>
      rw [hrev] at ht
      obtain ⟨m2, m1, d2, d1, k, hsh, hd, hm⟩ := tmmR_shape ht
      simp only [List.cons_append, List.cons.injEq] at hsh
      obtain ⟨rfl, rfl, rfl, htl⟩ := hsh
      have htake : xs.take n = tl.reverse ++ [':', e2, e1] := by
        have := congrArg List.reverse hrev
        simpa using this
      have hxs : xs = tl.reverse ++ ':' :: e2 :: e1 :: ':' :: s1 :: s2 :: b := by
        rw [← List.take_append_drop n xs, htake, hdrop]; simp
      have htd : tddR (tl.reverse.reverse ++ pv) = true := by
        rw [List.reverse_reverse, htl]; simpa [tddR] using hd
      have := termRest_no_tmm fuel pv tl.reverse e2 e1 s1 s2 b htd hm hsd
      rw [← hxs, h] at this
      simp only [List.length_cons, List.length_reverse] at hlen this
      omega
    | [], hlen => simp at hlen; omega
    | [_], hlen => simp at hlen; omega
    | [_, _], hlen => simp at hlen; omega

/-- **converse context lemma for terms**: the lexeme the `TERM_RE` rule matches after `prev` is
matched entirely when it stands alone, and what follows it stops the loop -/
theorem termLen_conv {prev rest : Str} {n : Nat} (h : termLen prev rest = some n)
    (hb : boundOK prev = true) :
    1 ≤ n ∧ n ≤ rest.length ∧ termLen [] (rest.take n) = some n ∧
    exactStop ((rest.take n).reverse ++ prev) (rest.drop n) ∧
    (tmmR (rest.take n).reverse = true → secOK (rest.drop n) = false) := by
  cases rest with
  | nil => simp [termLen] at h
  | cons c r =>
    simp only [termLen] at h
    by_cases hc : isTermFirst c = true
    · simp only [hc, if_true, Option.some.injEq] at h
      subst h
      have hbd : ∀ y, tddR (y ++ [c] ++ prev) = tddR (y ++ [c]) := fun y =>
        tddR_bound (y := y ++ [c]) (by simp) hb
      have h1 := fun f' hf => termRest_take r.length f' [c] prev r _ hbd hf rfl
      obtain ⟨h2, h3⟩ := termRest_exact r.length (c :: prev) r _ rfl (Nat.le_refl _)
      have hN := fun ht h3 => termRest_no_tmm' (fuel := r.length) (pv := c :: prev) (xs := r) rfl h2 ht h3
      simp only [List.singleton_append] at h1
      generalize termRest r.length (c :: prev) r = m at h1 h2 h3 hN
      have hlt : (r.take m).length = m := by simp; omega
      refine ⟨by omega, by simp; omega, ?_, ?_, ?_⟩
      · rw [Nat.add_comm 1, List.take_succ_cons]
        simp only [termLen, hc, if_true, hlt, h1 m (Nat.le_refl _)]
        rw [Nat.add_comm]
      · rw [Nat.add_comm 1]
        simpa using h3
      · rw [Nat.add_comm 1]
        simp only [List.take_succ_cons, List.drop_succ_cons, List.reverse_cons]
        intro ht
        have h6 : 6 ≤ ((r.take m).reverse ++ [c]).length := by
          obtain ⟨_, _, _, _, _, hsh, _⟩ := tmmR_shape ht
          rw [hsh]; simp
        simp only [List.length_append, List.length_reverse, hlt, List.length_cons, List.length_nil] at h6
        refine hN ?_ (by omega)
        have := tmmR_append (z := prev) ht
        simpa using this
    · simp only [hc] at h
      by_cases hc' : c = '\\'
      · subst hc'
        simp only [if_true] at h
        cases r with
        | nil => simp at h
        | cons d r' =>
          simp only at h
          by_cases hd : d = '\n'
          · simp [hd] at h
          · simp only [hd, ne_eq, not_false_eq_true, if_true, Option.some.injEq, Bool.false_eq_true,
              if_false] at h
            subst h
            have hbd : ∀ y, tddR (y ++ [d, '\\'] ++ prev) = tddR (y ++ [d, '\\']) := fun y =>
              tddR_bound (y := y ++ [d, '\\']) (by simp) hb
            have h1 := fun f' hf => termRest_take r'.length f' [d, '\\'] prev r' _ hbd hf rfl
            obtain ⟨h2, h3⟩ := termRest_exact r'.length (d :: '\\' :: prev) r' _ rfl (Nat.le_refl _)
            have hN := fun ht h3 =>
              termRest_no_tmm' (fuel := r'.length) (pv := d :: '\\' :: prev) (xs := r') rfl h2 ht h3
            simp only [List.cons_append, List.nil_append] at h1
            generalize termRest r'.length (d :: '\\' :: prev) r' = m at h1 h2 h3 hN
            have hlt : (r'.take m).length = m := by simp; omega
            refine ⟨by omega, by simp; omega, ?_, ?_, ?_⟩
            · rw [Nat.add_comm 2, List.take_succ_cons, List.take_succ_cons]
              simp only [termLen, hc, Bool.false_eq_true, if_false, if_true, hd, ne_eq,
                not_false_eq_true, hlt, h1 m (Nat.le_refl _)]
              rw [Nat.add_comm]
            · rw [Nat.add_comm 2]
              simpa using h3
            · rw [Nat.add_comm 2]
              simp only [List.take_succ_cons, List.drop_succ_cons, List.reverse_cons]
              intro ht
              have h6 : 6 ≤ (((r'.take m).reverse ++ [d]) ++ ['\\']).length := by
                obtain ⟨_, _, _, _, _, hsh, _⟩ := tmmR_shape ht
                rw [hsh]; simp
              simp only [List.length_append, List.length_reverse, hlt, List.length_cons,
                List.length_nil] at h6
              refine hN ?_ (by omega)
              have := tmmR_append (z := prev) ht
              simpa using this
      · simp [hc'] at h

/-! ### one step of the master regex, converse direction -/

theorem lexOne_bslash_stop {pv r' : Str} (h : r' = [] ∨ ∃ r'', r' = '\n' :: r'') :
    lexOne pv ('\\' :: r') = none := by
  have h1 : isSpace '\\' = false := by decide
  have h2 : isTermFirst '\\' = false := by decide
  rcases h with rfl | ⟨r'', rfl⟩ <;> simp [lexOne, h1, termLen, h2]

/-- a character that can start a term is dispatched to the `TERM_RE` rule -/
theorem lexOne_of_termStart {prev r : Str} {c : Char} (hc : isTermFirst c = true ∨ c = '\\') :
    lexOne prev (c :: r) =
      (termLen prev (c :: r)).map fun n => .tok (reservedKind ((c :: r).take n)) n := by
  rcases hc with hc | rfl
  · simp only [isTermFirst, termFirstExcl, Bool.and_eq_true, Bool.not_eq_true',
      List.contains_eq_mem, List.mem_cons, List.not_mem_nil, or_false, decide_eq_false_iff_not,
      not_or] at hc
    obtain ⟨h0, h1, h2, h3, h4, h5, h6, h7, h8, h9, h10, h11, _, h13, h14, _, h16, h17⟩ := hc
    simp [lexOne, h0, h1, h2, h3, h4, h5, h6, h7, h8, h9, h10, h11, h13, h14, h16, h17]
  · simp [lexOne, (by decide : isSpace '\\' = false)]

theorem termLen_start {prev : Str} {c : Char} {r : Str} {n : Nat}
    (h : termLen prev (c :: r) = some n) : isTermFirst c = true ∨ c = '\\' := by
  simp only [termLen] at h
  by_cases h1 : isTermFirst c = true
  · exact Or.inl h1
  · right
    simp only [h1] at h
    by_cases h2 : c = '\\'
    · exact h2
    · simp [h2] at h

/-- **converse context lemma for one token**: the lexeme of a token matched after `prev` is a valid
token text on its own, and, unless the lexer fails right after it, what follows satisfies
`followOK` -/
theorem lexOne_conv {prev rest : Str} {k : TokK} {n : Nat} (h : lexOne prev rest = some (.tok k n))
    (hb : isTermKind k = true → boundOK prev = true) :
    1 ≤ n ∧ n ≤ rest.length ∧ validTok k (rest.take n) = true ∧
    (rest.drop n = [] ∨ lexOne ((rest.take n).reverse ++ prev) (rest.drop n) ≠ none →
      followOK k (rest.take n) (rest.drop n) = true) ∧
    (isTermKind k = true → termLen ((rest.take n).reverse ++ prev) (rest.drop n) = none) := by
  cases rest with
  | nil => simp [lexOne] at h
  | cons c r =>
    unfold lexOne at h
    simp only at h
    rcases ite_elim h with ⟨_, h'⟩ | ⟨hsp, h'⟩
    · cases h'
    clear h
    have h := h'; clear h'
    -- `+ - : ( )`
    iterate 5
      (rcases ite_elim h with ⟨hc, h'⟩ | ⟨hc, h'⟩
       · clear h; have h := h'; clear h'
         simp only [Option.some.injEq, Lexeme.tok.injEq] at h
         obtain ⟨rfl, rfl⟩ := h
         subst hc
         exact ⟨by omega, by simp, by simp only [List.take_succ_cons, List.take_zero]; decide, fun _ => rfl, fun h => by cases h⟩
       clear hc h; have h := h'; clear h')
    -- `[ {`, `] }`
    iterate 2
      (rcases ite_elim h with ⟨hc, h'⟩ | ⟨hc, h'⟩
       · clear h; have h := h'; clear h'
         simp only [Option.some.injEq, Lexeme.tok.injEq] at h
         obtain ⟨rfl, rfl⟩ := h
         simp only [Bool.or_eq_true, decide_eq_true_eq] at hc
         refine ⟨by omega, by simp, ?_, fun _ => rfl, fun h => by cases h⟩
         rcases hc with rfl | rfl <;> simp only [List.take_succ_cons, List.take_zero] <;> decide
       clear hc h; have h := h'; clear h')
    -- `>` and `<`
    iterate 2
      (rcases ite_elim h with ⟨hc, h'⟩ | ⟨hc, h'⟩
       · clear h; have h := h'; clear h'
         simp only [Option.some.injEq, Lexeme.tok.injEq] at h
         obtain ⟨rfl, rfl⟩ := h
         subst hc
         split
         · exact ⟨by omega, by simp, by simp only [List.take_succ_cons, List.take_zero]; decide,
             fun _ => by simp only [followOK]; split <;> simp, fun h => by cases h⟩
         · rename_i hne
           refine ⟨by omega, by simp, by simp only [List.take_succ_cons, List.take_zero]; decide, fun _ => ?_,
             fun h => by cases h⟩
           simp only [List.take_succ_cons, List.take_zero, List.drop_succ_cons, List.drop_zero,
             followOK, List.length_cons, List.length_nil]
           cases r with
           | nil => rfl
           | cons d r' =>
             have : d ≠ '=' := fun hd => hne r' (by rw [hd])
             simp [this]
       clear hc h; have h := h'; clear h')
    -- phrase, regex
    rcases ite_elim h with ⟨hc, h'⟩ | ⟨hc, h'⟩
    · clear h; have h := h'; clear h'
      simp only [Option.map_eq_some_iff] at h
      obtain ⟨m, hm, he⟩ := h
      simp only [Lexeme.tok.injEq] at he
      obtain ⟨rfl, rfl⟩ := he
      obtain ⟨h1, h2, h3⟩ := delimLen_take hm
      refine ⟨h3, h2, ?_, fun _ => rfl, fun h => by cases h⟩
      subst hc
      obtain ⟨m', rfl⟩ : ∃ m', m = m' + 1 := ⟨m - 1, by omega⟩
      simp only [List.take_succ_cons] at h1 ⊢
      have hl : ('"' :: r.take m').length = m' + 1 := by
        simp only [List.length_cons, List.length_take] at h2 ⊢; omega
      simp only [validTok, decide_eq_true_eq, lexOne_quote, h1, hl, Option.map_some]
    clear hc h; have h := h'; clear h'
    rcases ite_elim h with ⟨hc, h'⟩ | ⟨hc, h'⟩
    · clear h; have h := h'; clear h'
      simp only [Option.map_eq_some_iff] at h
      obtain ⟨m, hm, he⟩ := h
      simp only [Lexeme.tok.injEq] at he
      obtain ⟨rfl, rfl⟩ := he
      obtain ⟨h1, h2, h3⟩ := delimLen_take hm
      refine ⟨h3, h2, ?_, fun _ => rfl, fun h => by cases h⟩
      subst hc
      obtain ⟨m', rfl⟩ : ∃ m', m = m' + 1 := ⟨m - 1, by omega⟩
      simp only [List.take_succ_cons] at h1 ⊢
      have hl : ('/' :: r.take m').length = m' + 1 := by
        simp only [List.length_cons, List.length_take] at h2 ⊢; omega
      simp only [validTok, decide_eq_true_eq, lexOne_slash, h1, hl, Option.map_some]
    clear hc h; have h := h'; clear h'
    -- `~`, `^`
    rcases ite_elim h with ⟨hc, h'⟩ | ⟨hc, h'⟩
    · clear h; have h := h'; clear h'
      simp only [Option.map_eq_some_iff] at h
      obtain ⟨m, hm, he⟩ := h
      simp only [Lexeme.tok.injEq] at he
      obtain ⟨rfl, rfl⟩ := he
      obtain ⟨h1, h2, h3, h4⟩ := suffixLen_take hm
      subst hc
      refine ⟨h3, by simp only [List.length_take] at h2; omega, ?_, fun _ => ?_, fun h => by cases h⟩
      · obtain ⟨m', rfl⟩ : ∃ m', m = m' + 1 := ⟨m - 1, by omega⟩
        simp only [List.take_succ_cons] at h1 ⊢
        simp only [validTok, decide_eq_true_eq, lexOne_tilde, h1, Option.map_some]
      · simp only [followOK]
        split
        · rename_i d r' hd; simp [h4 d r' hd]
        · rfl
    clear hc h; have h := h'; clear h'
    rcases ite_elim h with ⟨hc, h'⟩ | ⟨hc, h'⟩
    · clear h; have h := h'; clear h'
      simp only [Option.map_eq_some_iff] at h
      obtain ⟨m, hm, he⟩ := h
      simp only [Lexeme.tok.injEq] at he
      obtain ⟨rfl, rfl⟩ := he
      obtain ⟨h1, h2, h3, h4⟩ := suffixLen_take hm
      subst hc
      refine ⟨h3, by simp only [List.length_take] at h2; omega, ?_, fun _ => ?_, fun h => by cases h⟩
      · obtain ⟨m', rfl⟩ : ∃ m', m = m' + 1 := ⟨m - 1, by omega⟩
        simp only [List.take_succ_cons] at h1 ⊢
        simp only [validTok, decide_eq_true_eq, lexOne_caret, h1, Option.map_some]
      · simp only [followOK]
        split
        · rename_i d r' hd; simp [h4 d r' hd]
        · rfl
    clear hc h; have h := h'; clear h'
    -- the `TERM_RE` rule
    simp only [Option.map_eq_some_iff] at h
    obtain ⟨m, hm, he⟩ := h
    simp only [Lexeme.tok.injEq] at he
    obtain ⟨hk, rfl⟩ := he
    have hkind : isTermKind k = true := hk ▸ reservedKind_isTermKind _
    have hbd := hb hkind
    obtain ⟨h1, h2, h3, h4, h5⟩ := termLen_conv hm hbd
    have hstart := termLen_start hm
    have hlen : ((c :: r).take m).length = m := by simp only [List.length_take]; omega
    refine ⟨h1, h2, ?_, fun hnext => ?_, fun _ => ?_⟩
    · obtain ⟨m', rfl⟩ : ∃ m', m = m' + 1 := ⟨m - 1, by omega⟩
      simp only [List.take_succ_cons] at h3 hlen hk ⊢
      simp only [validTok, decide_eq_true_eq, lexOne_of_termStart hstart, h3, Option.map_some, hlen]
      rw [← hlen, List.take_length, hk]
    · rw [followOK_termKind hkind]
      cases hd : (c :: r).drop m with
      | nil => rfl
      | cons c' r'' =>
        rw [hd] at hnext h4 h5
        simp only [exactStop] at h4
        obtain ⟨e1, e2, e3⟩ := h4
        have hne : c' ≠ '\\' := by
          rintro rfl
          rcases hnext with hnext | hnext
          · cases hnext
          · exact hnext (lexOne_bslash_stop (e2 rfl))
        simp only [termStops, e1, Bool.not_false, Bool.true_and, Bool.and_eq_true, bne_iff_ne, ne_eq,
          hne, not_false_eq_true, true_and, Bool.not_eq_true', Bool.and_eq_false_iff]
        by_cases hc' : c' = ':'
        · subst hc'
          cases hs : startsDD r'' with
          | false => right; rfl
          | true =>
            left; right
            have e3' := e3 rfl
            rw [hs, Bool.and_true] at e3'
            have hxne : ((c :: r).take m).reverse ≠ [] := by
              intro h0
              have := congrArg List.length h0
              simp only [List.length_reverse, hlen, List.length_nil] at this
              omega
            rw [tddR_bound hxne hbd] at e3'
            rw [e3', Bool.false_or]
            cases ht : tmmR ((c :: r).take m).reverse with
            | false => rfl
            | true =>
              have := h5 ht
              rw [secOK_eq] at this
              simp only [hs] at this
              cases this
        · left; left; simpa using hc'
    · cases hd : (c :: r).drop m with
      | nil => rfl
      | cons c' r'' =>
        rw [hd] at h4
        simp only [exactStop] at h4
        obtain ⟨e1, e2, _⟩ := h4
        have hf : isTermFirst c' = false := by
          cases hf : isTermFirst c' with
          | false => rfl
          | true => rw [isTermFirst_next hf] at e1; cases e1
        simp only [termLen, hf, Bool.false_eq_true, if_false]
        by_cases hb' : c' = '\\'
        · rcases e2 hb' with rfl | ⟨r3, rfl⟩ <;> simp [hb']
        · simp [hb']

end Luqum
