/-
  Luqum.Lemmas.CertRun — soundness of the certificate checker, for ARBITRARY tables and certificate:
  if `certOK T C` holds then along every run of the driver the stack values are canonical, the shape
  of the top value lies in `C.S state look-ahead`, the shape of every buried value lies in the set of
  the certificate edge (its state, state above), and every adjacent pair of the state stack is a
  certificate edge. Hence the accepted value is a canonical item.
-/
import Luqum.Lemmas.CertAct
import Luqum.Lemmas.RunLossless

namespace Luqum

/-! ### the invariant -/

/-- the stack below a state `above`: `ss` are the states (top first, down to the bottom state),
`vs` the values pushed with them (the bottom state has none). Every adjacent pair of states is an
edge of the certificate and every value has a shape allowed by its edge. -/
def Below (C : Cert) : Nat → List Nat → List Val → Prop
  | above, s :: ss, [] => ss = [] ∧ (C.edge s above).isSome = true
  | above, s :: ss, v :: vs => ∃ m, C.edge s above = some m ∧ HasShape v m ∧ Below C s ss vs
  | _, [], _ => False

/-- number of the look-ahead column -/
def lookIdx (T : Tables) (look : Option Tok) : Nat := T.termIdx (lookName look)

/-- the invariant of the run: the initial configuration, or a top value whose shape is allowed for
(state, look-ahead) over a stack that follows the certificate -/
inductive CertInv (T : Tables) (C : Cert) : Cfg → Option Tok → Prop
  | init (s0 : Nat) (look : Option Tok) : CertInv T C { states := [s0], vals := [] } look
  | push (s : Nat) (ss : List Nat) (v : Val) (vs : List Val) (look : Option Tok) :
      HasShape v (C.top s (lookIdx T look)) → Below C s ss vs →
      CertInv T C { states := s :: ss, vals := v :: vs } look

theorem lookName_eq (look : Option Tok) : lookName look = lookNameK (look.map (·.kind)) := by
  cases look <;> rfl

theorem mem_allLooks (o : Option TokK) : o ∈ allLooks := by
  cases o with
  | none => simp [allLooks]
  | some k => cases k <;> simp [allLooks, allKindsC]

/-! ### reading the checker -/

theorem checkCell_of_certOK {T : Tables} {C : Cert} (hC : certOK T C = true) {s : Nat}
    {o : Option TokK} {a : Int} (ha : T.act? s (lookNameK o) = some a) :
    checkCell T C s o = true := by
  obtain ⟨hs, _, _⟩ := getD_getD_some ha
  simp only [certOK, List.all_eq_true, List.mem_range] at hC
  exact hC s hs o (mem_allLooks o)

theorem edge_mem_preds {C : Cert} {s above m : Nat} (h : C.edge s above = some m) :
    (s, m) ∈ C.preds above := by
  unfold Cert.edge at h
  cases hf : (C.preds above).find? (fun p => p.1 == s) with
  | none => rw [hf] at h; cases h
  | some p =>
    rw [hf] at h
    have hm := List.mem_of_find?_eq_some hf
    have hp := List.find?_some hf
    simp only [Option.map_some, Option.some.injEq] at h
    have : p = (s, m) := by
      obtain ⟨p1, p2⟩ := p
      simp only [beq_iff_eq] at hp
      simp only at h
      rw [hp, h]
    rw [← this]; exact hm

theorem checkCell_shift {T : Tables} {C : Cert} {s : Nat} {k : TokK} {a : Int}
    (h : checkCell T C s (some k) = true) (ha : T.act? s k.name = some a) (hpos : a > 0) :
    ∃ m, C.edge s a.toNat = some m ∧ sub (C.top s (T.termIdx k.name)) m = true ∧
      ∀ o', (C.top a.toNat (T.termIdx (lookNameK o'))).testBit (tokValShape k) = true := by
  unfold checkCell at h
  simp only [lookNameK, ha, hpos, if_true] at h
  split at h
  · cases h
  · rename_i m hm
    simp only [Bool.and_eq_true, List.all_eq_true] at h
    exact ⟨m, hm, h.1, fun o' => h.2 o' (mem_allLooks o')⟩

theorem checkCell_reduce {T : Tables} {C : Cert} {s : Nat} {o : Option TokK} {a : Int}
    (h : checkCell T C s o = true) (ha : T.act? s (lookNameK o) = some a) (hnpos : ¬ a > 0)
    (hneg : a < 0) {lhs f : String} {rhs : List String}
    (hp : T.prods.getD (-a).toNat ("", [], "") = (lhs, rhs, f)) {n : Nat} (hn : rhs.length = n + 1) :
    walkDown C (reduceFin T C lhs f (T.termIdx (lookNameK o))) n s
      [C.top s (T.termIdx (lookNameK o))] = true := by
  unfold checkCell at h
  simp only [ha, hnpos, hneg, if_true, if_false, hp, hn] at h
  exact h

theorem checkCell_accept {T : Tables} {C : Cert} {s : Nat} {o : Option TokK}
    (h : checkCell T C s o = true) (ha : T.act? s (lookNameK o) = some 0) :
    sub (C.top s (T.termIdx (lookNameK o))) mItems = true := by
  unfold checkCell at h
  simpa [ha] using h

/-! ### walking down the stack -/

theorem below_cons_inv {C : Cert} {above : Nat} {ss : List Nat} {v : Val} {vs : List Val}
    (h : Below C above ss (v :: vs)) :
    ∃ s ss' m, ss = s :: ss' ∧ C.edge s above = some m ∧ HasShape v m ∧ Below C s ss' vs := by
  cases ss with
  | nil => simp [Below] at h
  | cons s ss' =>
    simp only [Below] at h
    obtain ⟨m, h1, h2, h3⟩ := h
    exact ⟨s, ss', m, rfl, h1, h2, h3⟩

theorem walkDown_spec {C : Cert} {fin : Nat → List Nat → Bool} :
    ∀ (n above : Nat) (acc : List Nat) (ss : List Nat) (vs args : List Val),
      walkDown C fin n above acc = true → Below C above ss vs → n ≤ vs.length →
      HasShapes args acc →
      ∃ c₁ acc', fin c₁ acc' = true ∧ HasShapes ((vs.take n).reverse ++ args) acc' ∧
        Below C c₁ (ss.drop n) (vs.drop n) := by
  intro n
  induction n with
  | zero =>
    intro above acc ss vs args hw hb _ ha
    exact ⟨above, acc, hw, by simpa using ha, by simpa using hb⟩
  | succ n ih =>
    intro above acc ss vs args hw hb hn ha
    cases vs with
    | nil => simp at hn
    | cons v vs' =>
      obtain ⟨s, ss', m, rfl, he, hv, hb'⟩ := below_cons_inv hb
      simp only [walkDown, List.all_eq_true] at hw
      have hw' := hw (s, m) (edge_mem_preds he)
      obtain ⟨c₁, acc', hf, hs, hbl⟩ := ih s (m :: acc) ss' vs' (v :: args) hw' hb'
        (by simpa using hn) ⟨hv, ha⟩
      refine ⟨c₁, acc', hf, ?_, by simpa using hbl⟩
      simpa using hs

theorem hasShapes_no_zero : ∀ (args : List Val) (acc : List Nat), HasShapes args acc →
    acc.any (· == 0) = false
  | [], [], _ => rfl
  | [], _ :: _, h => by simp [HasShapes] at h
  | _ :: _, [], h => by simp [HasShapes] at h
  | v :: vs, m :: ms, h => by
    obtain ⟨⟨_, hb⟩, hr⟩ := h
    have : m ≠ 0 := by
      rintro rfl
      simp at hb
    simp [this, hasShapes_no_zero vs ms hr]

theorem hasShape_mono {v : Val} {m m' : Nat} (h : HasShape v m) (hs : sub m m' = true) :
    HasShape v m' := ⟨h.1, testBit_of_sub hs h.2⟩

/-! ### shift and reduce keep the invariant -/

theorem toVal_hasShape (t : Tok) {m : Nat} (h : m.testBit (tokValShape t.kind) = true) :
    HasShape t.toVal m := by
  obtain ⟨k, text, pos, hd, tl⟩ := t
  cases k <;> exact ⟨by simp [Tok.toVal, ValOK, CanonAt], by simpa [Tok.toVal, shapeOf, shapeOfTree, tokValShape] using h⟩

theorem inv_shift {T : Tables} {C : Cert} (hC : certOK T C = true) {c c' : Cfg} {t : Tok}
    (hI : CertInv T C c (some t)) (hs : step T c (some t) = .shift c') (look' : Option Tok) :
    CertInv T C c' look' := by
  obtain ⟨t', a, hl, ha, hpos, rfl⟩ := step_shift hs
  cases hl
  have hcell := checkCell_of_certOK hC (o := some t.kind) ha
  obtain ⟨m, hm, hsub, htok⟩ := checkCell_shift hcell ha hpos
  have htop : HasShape t.toVal (C.top a.toNat (lookIdx T look')) := by
    apply toVal_hasShape
    rw [lookIdx, lookName_eq]
    exact htok _
  cases hI with
  | init s0 _ =>
    refine .push _ _ _ _ _ htop ?_
    simp only [List.headD_cons] at hm
    simp [Below, hm]
  | push s ss v vs _ hv hb =>
    refine .push _ _ _ _ _ htop ?_
    simp only [List.headD_cons] at hm hsub
    exact ⟨m, hm, hasShape_mono hv hsub, hb⟩

/-- the reduce branch of `step`, with the production that was used -/
theorem step_reduce_cert {T : Tables} {c c' : Cfg} {look : Option Tok} (h : step T c look = .reduce c') :
    ∃ (a : Int) (lhs f : String) (rhs : List String) (v : Val) (g : Int),
      T.act? (c.states.headD 0) (lookName look) = some a ∧ ¬ a > 0 ∧ a < 0 ∧
      T.prods.getD (-a).toNat ("", [], "") = (lhs, rhs, f) ∧ rhs.length ≤ c.vals.length ∧
      act f (c.vals.take rhs.length).reverse = .ok v ∧
      T.goto? ((c.states.drop rhs.length).headD 0) lhs = some g ∧
      c' = { states := g.toNat :: c.states.drop rhs.length, vals := v :: c.vals.drop rhs.length } := by
  rw [step_eq] at h
  split at h
  · split at h <;> cases h
  · rename_i a ha
    split at h
    · split at h <;> cases h
    · rename_i hnpos
      split at h
      · rename_i hneg
        rcases hp : T.prods.getD (-a).toNat ("", [], "") with ⟨lhs, rhs, f⟩
        rw [hp] at h
        unfold reduceBy at h
        split at h
        · cases h
        · rename_i hlen
          split at h
          · cases h
          · rename_i v hv
            split at h
            · rename_i g hg
              cases h
              refine ⟨a, lhs, f, rhs, v, g, ha, hnpos, hneg, hp, ?_, hv, hg, rfl⟩
              simp at hlen
              omega
            · cases h
      · split at h <;> cases h

theorem inv_reduce {T : Tables} {C : Cert} (hC : certOK T C = true) {c c' : Cfg} {look : Option Tok}
    (hI : CertInv T C c look) (hs : step T c look = .reduce c') : CertInv T C c' look := by
  obtain ⟨a, lhs, f, rhs, vnew, g, ha, hnpos, hneg, hp, hlen, hact, hg, rfl⟩ := step_reduce_cert hs
  cases hn : rhs.length with
  | zero => rw [hn] at hact; exact absurd hact (act_nil f vnew)
  | succ n =>
    rw [hn] at hlen hact hg
    cases hI with
    | init s0 _ => simp at hlen
    | push s ss v vs _ hv hb =>
      simp only [List.headD_cons] at ha
      rw [lookName_eq] at ha
      have hcell := checkCell_of_certOK hC ha
      have hwalk := checkCell_reduce hcell ha hnpos hneg hp hn
      have hn' : n ≤ vs.length := by simpa using hlen
      have hv2 : HasShape v (C.top s (T.termIdx (lookNameK (look.map (·.kind))))) := by
        rw [lookIdx, lookName_eq] at hv; exact hv
      obtain ⟨c₁, acc', hfin, hshapes, hbl⟩ :=
        walkDown_spec n s _ ss vs [v] hwalk hb hn' ⟨hv2, trivial⟩
      -- the arguments of the action
      have hargs : ((v :: vs).take (n + 1)).reverse = (vs.take n).reverse ++ [v] := by simp
      simp only [hargs] at hact
      simp only [List.drop_succ_cons] at hg ⊢
      -- the check at the bottom of the walk
      unfold reduceFin at hfin
      rw [hasShapes_no_zero _ _ hshapes, Bool.false_or, List.all_eq_true] at hfin
      -- the slot below the popped values
      cases hss : ss.drop n with
      | nil => rw [hss] at hbl; simp [Below] at hbl
      | cons s0 rest =>
        rw [hss] at hbl hg
        simp only [List.headD_cons] at hg
        have key : ∀ m0, C.edge s0 c₁ = some m0 →
            HasShape vnew (C.top g.toNat (lookIdx T look)) ∧
            ∃ m', C.edge s0 g.toNat = some m' ∧ sub m0 m' = true := by
          intro m0 hm0
          have := hfin (s0, m0) (edge_mem_preds hm0)
          simp only [hg, Bool.and_eq_true] at this
          obtain ⟨hadm, hrest⟩ := this
          split at hrest
          · cases hrest
          · rename_i m' hm'
            simp only [Bool.and_eq_true] at hrest
            refine ⟨hasShape_mono (act_cert hact hshapes hadm) ?_, m', hm', hrest.1⟩
            rw [lookIdx, lookName_eq]; exact hrest.2
        cases hvs : vs.drop n with
        | nil =>
          rw [hvs] at hbl
          simp only [Below] at hbl
          obtain ⟨rfl, hsome⟩ := hbl
          obtain ⟨m0, hm0⟩ := Option.isSome_iff_exists.mp hsome
          obtain ⟨hnew, m', hm', _⟩ := key m0 hm0
          exact .push _ _ _ _ _ hnew (by simp [Below, hm'])
        | cons v0 vs0 =>
          rw [hvs] at hbl
          simp only [Below] at hbl
          obtain ⟨m0, hm0, hv0, hb0⟩ := hbl
          obtain ⟨hnew, m', hm', hsub⟩ := key m0 hm0
          exact .push _ _ _ _ _ hnew ⟨m', hm', hasShape_mono hv0 hsub, hb0⟩

/-! ### the run -/

theorem mItems_tokIdx (k : TokK) : mItems.testBit (tokIdx k) = false := by
  cases k <;> decide

/-- **soundness of the certificate checker**: whatever the tables and the certificate, if the
checker accepts them then a successful run returns an item in canonical form -/
theorem runLoop_canon {T : Tables} {C : Cert} (hC : certOK T C = true) (fuel : Nat)
    (toks : List Tok) (lerr : Option LexErr) (v : Val)
    (h : runLoop T fuel { states := [0], vals := [] } toks lerr = .ok v) :
    ∃ t, v = .item t ∧ CanonAt false t = true := by
  obtain ⟨c', toks', hI, hacc, _⟩ := runLoop_ok (T := T) (P := fun c tk => CertInv T C c tk.head?)
    (fun c t tk c' hP hs => inv_shift hC hP hs _)
    (fun c tk c' hP hs => inv_reduce hC hP hs)
    fuel { states := [0], vals := [] } toks lerr v (.init 0 _) h
  obtain ⟨ha, r, hv⟩ := step_accept hacc
  cases hI with
  | init s0 _ => cases hv
  | push s ss v' vs _ hv' hb =>
    simp only [List.cons.injEq] at hv
    obtain ⟨rfl, _⟩ := hv
    simp only [List.headD_cons] at ha
    rw [lookName_eq] at ha
    have hsub := checkCell_accept (checkCell_of_certOK hC ha) ha
    have hbit := testBit_of_sub hsub (by rw [lookIdx, lookName_eq] at hv'; exact hv'.2)
    cases v' with
    | tok k tv => rw [show shapeOf (Val.tok k tv) = tokIdx k from rfl, mItems_tokIdx] at hbit; cases hbit
    | item t => exact ⟨t, rfl, hv'.1⟩

/-- for the parser over tables `T`: a successful parse returns a canonical tree -/
theorem parseWith_canon {T : Tables} {C : Cert} (hC : certOK T C = true) (s : Str) (t : Tree)
    (h : parseWith T s = .ok t) : CanonAt false t = true := by
  unfold parseWith at h
  simp only at h
  split at h
  · rename_i t' hrun
    cases h
    obtain ⟨t'', he, hc⟩ := runLoop_canon hC _ _ _ _ hrun
    cases he
    exact hc
  · cases h
  · cases h

end Luqum
