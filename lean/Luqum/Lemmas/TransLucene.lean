/-
  Luqum.Lemmas.TransLucene — `UnknownOperationResolver` in lucene mode (`resolve_to=None`, the
  default): the result is the result of resolving to AND up to the choice between AND and OR for each
  resolved operation (C10, `resolve_lucene_skeleton`); the hypotheses of the print-and-reparse theorem
  that do not look at the classes of the operations pass to it, and so does the canonical form up to
  same-class nesting, if no operation of the result has a looser operation as direct operand.
-/
import Luqum.Lemmas.TransResolve

namespace Luqum
open Luqum.Compl (wordTerm boundText)
open Luqum.Props.C10 (eraseOpKind eraseOpKinds eraseK relabel relabelList relabelList_eq_map
  eraseOpKinds_eq_map)

/-! ### the classes of the operations are invisible to … -/

theorem erase_shape (t : Tree) :
    isOp' (eraseOpKind t) = isOp' t ∧ isUnary (eraseOpKind t) = isUnary t ∧
      isField (eraseOpKind t) = isField t ∧ isWord (eraseOpKind t) = isWord t ∧
      isPhrase (eraseOpKind t) = isPhrase t ∧ isWP (eraseOpKind t) = isWP t ∧
      wordTerm (eraseOpKind t) = wordTerm t := by
  cases t with
  | term k v l => cases k <;> simp [eraseOpKind, isOp', isUnary, isField, isWord, isPhrase, isWP, wordTerm]
  | _ => simp [eraseOpKind, isOp', isUnary, isField, isWord, isPhrase, isWP, wordTerm]

theorem erase_isBound (t : Tree) :
    isBound (eraseOpKind t) = isBound t ∧ boundText (eraseOpKind t) = boundText t := by
  cases t with
  | term k v l => cases k <;> simp [eraseOpKind, isBound, boundText, wordTerm]
  | unary k e l =>
    have := erase_shape e
    cases k
    · simp [eraseOpKind, isBound, boundText, wordTerm]
    · simp [eraseOpKind, isBound, boundText, wordTerm]
    · simp only [eraseOpKind, isBound, boundText]; exact ⟨this.2.2.2.2.2.1, this.2.2.2.2.2.2⟩
  | _ => simp [eraseOpKind, isBound, boundText, wordTerm]

mutual
/-- … the layout, the words, the numerals and the token texts -/
theorem erase_preds : ∀ t : Tree,
    (eraseOpKind t).blankLayout = t.blankLayout ∧ WordsOK (eraseOpKind t) = WordsOK t ∧
      numsOK (eraseOpKind t) = numsOK t ∧ validTexts (eraseOpKind t) = validTexts t
  | .term k v l => by cases k <;> exact ⟨rfl, rfl, rfl, rfl⟩
  | .none _ => ⟨rfl, rfl, rfl, rfl⟩
  | .field n e l => by
    obtain ⟨h1, h2, h3, h4⟩ := erase_preds e
    simp [eraseOpKind, Tree.blankLayout, WordsOK, numsOK, validTexts, h1, h2, h3, h4]
  | .group k e l => by
    obtain ⟨h1, h2, h3, h4⟩ := erase_preds e
    simp [eraseOpKind, Tree.blankLayout, WordsOK, numsOK, validTexts, h1, h2, h3, h4]
  | .approx k e n l => by
    obtain ⟨h1, h2, h3, h4⟩ := erase_preds e
    cases k <;>
      simp [eraseOpKind, Tree.blankLayout, WordsOK, numsOK, validTexts, h1, h3, h4,
        (erase_shape e).2.2.2.2.2.2]
  | .boost e n l => by
    obtain ⟨h1, h2, h3, h4⟩ := erase_preds e
    simp [eraseOpKind, Tree.blankLayout, WordsOK, numsOK, validTexts, h1, h2, h3, h4]
  | .unary k e l => by
    obtain ⟨h1, h2, h3, h4⟩ := erase_preds e
    simp [eraseOpKind, Tree.blankLayout, WordsOK, numsOK, validTexts, h1, h2, h3, h4]
  | .orange k e i l => by
    obtain ⟨h1, h2, h3, h4⟩ := erase_preds e
    simp [eraseOpKind, Tree.blankLayout, WordsOK, numsOK, validTexts, h1, h3, h4,
      (erase_shape e).2.2.2.2.2.2]
  | .range a b il ih l => by
    obtain ⟨a1, _, a3, a4⟩ := erase_preds a
    obtain ⟨b1, _, b3, b4⟩ := erase_preds b
    simp [eraseOpKind, Tree.blankLayout, WordsOK, numsOK, validTexts, a1, a3, a4, b1, b3, b4,
      (erase_isBound a).2, (erase_isBound b).2]
  | .op k xs l => by
    obtain ⟨h1, h2, h3, h4⟩ := erases_preds xs
    simp [eraseOpKind, Tree.blankLayout, WordsOK, numsOK, validTexts, h1, h2, h3, h4]
theorem erases_preds : ∀ xs : List Tree,
    Tree.blankLayouts (eraseOpKinds xs) = Tree.blankLayouts xs ∧ WordssOK (eraseOpKinds xs) = WordssOK xs ∧
      numssOK (eraseOpKinds xs) = numssOK xs ∧ validTextss (eraseOpKinds xs) = validTextss xs
  | [] => ⟨rfl, rfl, rfl, rfl⟩
  | x :: r => by
    obtain ⟨h1, h2, h3, h4⟩ := erase_preds x
    obtain ⟨r1, r2, r3, r4⟩ := erases_preds r
    simp [eraseOpKinds, Tree.blankLayouts, WordssOK, numssOK, validTextss, h1, h2, h3, h4, r1, r2, r3, r4]
end

/-! ### the canonical form without the conditions on the classes of the operands -/

mutual
/-- `CanonAt` without the conditions on the classes of the operands of an operation -/
def SkelCanonAt : Bool → Tree → Bool
  | _, .term .. => true
  | _, .none _ => false
  | _, .op k xs _ => k != .bool && decide (2 ≤ xs.length) && SkelCanonsAt xs
  | _, .unary _ e _ => SkelCanonAt false e && !isOp' e
  | _, .field _ e _ => SkelCanonAt true e && !isOp' e
  | uf, .group k e _ => ((k == .fieldGroup) == uf) && SkelCanonAt false e
  | _, .boost e _ _ => SkelCanonAt false e && !isOp' e && !isUnary e && !isField e
  | _, .approx .fuzzy e _ _ => isWord e
  | _, .approx .proximity e _ _ => isPhrase e
  | _, .range lo hi _ _ _ => isBound lo && isBound hi
  | _, .orange _ e _ _ => isWP e
def SkelCanonsAt : List Tree → Bool
  | [] => true
  | x :: r => SkelCanonAt false x && SkelCanonsAt r
end

theorem skelCanonsAt_eq_all : ∀ xs : List Tree, SkelCanonsAt xs = xs.all (SkelCanonAt false)
  | [] => rfl
  | x :: r => by simp [SkelCanonsAt, skelCanonsAt_eq_all r]

theorem skelCanonAt_setLay (uf : Bool) (t : Tree) (l : Lay) :
    SkelCanonAt uf (t.setLay l) = SkelCanonAt uf t := by
  cases t with
  | approx k e n l' => cases k <;> simp [Tree.setLay, SkelCanonAt]
  | _ => simp [Tree.setLay, SkelCanonAt]

theorem eraseK_ne_bool (k : OpK) : (eraseK k != .bool) = (k != .bool) := by cases k <;> rfl

theorem eraseOpKinds_length (xs : List Tree) : (eraseOpKinds xs).length = xs.length := by
  rw [eraseOpKinds_eq_map]; simp

mutual
theorem skelCanon_erase : ∀ (t : Tree) (uf : Bool), SkelCanonAt uf (eraseOpKind t) = SkelCanonAt uf t
  | .term .., _ => rfl
  | .none _, _ => rfl
  | .field n e l, _ => by simp [eraseOpKind, SkelCanonAt, skelCanon_erase e true, (erase_shape e).1]
  | .group k e l, _ => by simp [eraseOpKind, SkelCanonAt, skelCanon_erase e false]
  | .approx .fuzzy e n l, _ => by simp [eraseOpKind, SkelCanonAt, (erase_shape e).2.2.2.1]
  | .approx .proximity e n l, _ => by simp [eraseOpKind, SkelCanonAt, (erase_shape e).2.2.2.2.1]
  | .boost e n l, _ => by
    have := erase_shape e
    simp [eraseOpKind, SkelCanonAt, skelCanon_erase e false, this.1, this.2.1, this.2.2.1]
  | .unary k e l, _ => by simp [eraseOpKind, SkelCanonAt, skelCanon_erase e false, (erase_shape e).1]
  | .orange k e i l, _ => by simp [eraseOpKind, SkelCanonAt, (erase_shape e).2.2.2.2.2.1]
  | .range a b il ih l, _ => by simp [eraseOpKind, SkelCanonAt, (erase_isBound a).1, (erase_isBound b).1]
  | .op k xs l, _ => by
    simp [eraseOpKind, SkelCanonAt, eraseK_ne_bool, eraseOpKinds_length, skelCanons_erase xs]
theorem skelCanons_erase : ∀ xs : List Tree, SkelCanonsAt (eraseOpKinds xs) = SkelCanonsAt xs
  | [] => rfl
  | x :: r => by simp [eraseOpKinds, SkelCanonsAt, skelCanon_erase x false, skelCanons_erase r]
end

mutual
/-- resolving a canonical tree to a fixed class keeps the canonical form as far as it does not
depend on the classes of the operands -/
theorem skelCanon_relabel (k : OpK) (hk : k ≠ .bool) (h : Str) : ∀ (t : Tree) (uf : Bool),
    CanonAt uf t = true → SkelCanonAt uf (relabel k h t) = true
  | .term .., _, _ => rfl
  | .none _, _, hc => by simp [CanonAt] at hc
  | .field n e l, _, hc => by
    simp only [CanonAt, Bool.and_eq_true] at hc
    simp [relabel, SkelCanonAt, skelCanon_relabel k hk h e true hc.1, (relabel_shape k h e).1, hc.2]
  | .group k' e l, _, hc => by
    simp only [CanonAt, Bool.and_eq_true] at hc
    simp only [relabel, SkelCanonAt, Bool.and_eq_true]
    exact ⟨hc.1, skelCanon_relabel k hk h e false hc.2⟩
  | .approx .fuzzy e n l, _, hc => by
    simp only [CanonAt] at hc
    simp [relabel, SkelCanonAt, (relabel_shape k h e).2.2.2.1, hc]
  | .approx .proximity e n l, _, hc => by
    simp only [CanonAt] at hc
    simp [relabel, SkelCanonAt, (relabel_shape k h e).2.2.2.2.1, hc]
  | .boost e n l, _, hc => by
    simp only [CanonAt, Bool.and_eq_true] at hc
    have := relabel_shape k h e
    simp [relabel, SkelCanonAt, skelCanon_relabel k hk h e false hc.1.1.1, this.1, this.2.1, this.2.2.1,
      hc.1.1.2, hc.1.2, hc.2]
  | .unary k' e l, _, hc => by
    simp only [CanonAt, Bool.and_eq_true] at hc
    simp [relabel, SkelCanonAt, skelCanon_relabel k hk h e false hc.1, (relabel_shape k h e).1, hc.2]
  | .orange k' e i l, _, hc => by
    simp only [CanonAt] at hc
    simp [relabel, SkelCanonAt, (relabel_shape k h e).2.2.2.2.2.1, hc]
  | .range a b il ih l, _, hc => by
    simp only [CanonAt, Bool.and_eq_true] at hc
    simp [relabel, SkelCanonAt, (relabel_isBound k h a).1, (relabel_isBound k h b).1, hc.1, hc.2]
  | .op .bool xs l, _, hc => by simp [CanonAt] at hc
  | .op .unk xs l, _, hc => by
    simp only [CanonAt, Bool.and_eq_true, decide_eq_true_eq] at hc
    have ih := skelCanons_relabel k hk h xs hc.1.2
    rw [skelCanonsAt_eq_all] at ih
    simp only [relabel, SkelCanonAt, Bool.and_eq_true, decide_eq_true_eq, skelCanonsAt_eq_all,
      all_addHeads _ (skelCanonAt_setLay false), addHeads_length, bne_iff_ne, ne_eq]
    refine ⟨⟨hk, ?_⟩, ih⟩
    rw [relabelList_eq_map, List.length_map]; exact hc.1.1.2
  | .op .and xs l, _, hc => by
    simp only [CanonAt, Bool.and_eq_true, decide_eq_true_eq] at hc
    simp only [relabel, SkelCanonAt, Bool.and_eq_true, decide_eq_true_eq]
    refine ⟨⟨by decide, ?_⟩, skelCanons_relabel k hk h xs hc.1.2⟩
    rw [relabelList_eq_map, List.length_map]; exact hc.1.1.2
  | .op .or xs l, _, hc => by
    simp only [CanonAt, Bool.and_eq_true, decide_eq_true_eq] at hc
    simp only [relabel, SkelCanonAt, Bool.and_eq_true, decide_eq_true_eq]
    refine ⟨⟨by decide, ?_⟩, skelCanons_relabel k hk h xs hc.1.2⟩
    rw [relabelList_eq_map, List.length_map]; exact hc.1.1.2
theorem skelCanons_relabel (k : OpK) (hk : k ≠ .bool) (h : Str) : ∀ xs : List Tree,
    CanonsAt xs = true → SkelCanonsAt (relabelList k h xs) = true
  | [], _ => rfl
  | x :: r, hc => by
    simp only [CanonsAt, Bool.and_eq_true] at hc
    simp [relabelList, SkelCanonsAt, skelCanon_relabel k hk h x false hc.1, skelCanons_relabel k hk h r hc.2]
end

mutual
/-- with the conditions on the classes of the operands (up to same-class nesting) back: canonical up
to normalisation -/
theorem preCanon_of_skel : ∀ (u : Tree) (uf : Bool), SkelCanonAt uf u = true →
    noLooserOperand u = true → PreCanonAt uf u = true
  | .term .., _, _, _ => rfl
  | .none _, _, hc, _ => by simp [SkelCanonAt] at hc
  | .field n e l, _, hc, hn => by
    simp only [SkelCanonAt, Bool.and_eq_true] at hc
    simp only [noLooserOperand] at hn
    simp [PreCanonAt, preCanon_of_skel e true hc.1 hn, hc.2]
  | .group k e l, _, hc, hn => by
    simp only [SkelCanonAt, Bool.and_eq_true] at hc
    simp only [noLooserOperand] at hn
    simp only [PreCanonAt, Bool.and_eq_true]
    exact ⟨hc.1, preCanon_of_skel e false hc.2 hn⟩
  | .approx .fuzzy e n l, _, hc, _ => hc
  | .approx .proximity e n l, _, hc, _ => hc
  | .boost e n l, _, hc, hn => by
    simp only [SkelCanonAt, Bool.and_eq_true] at hc
    simp only [noLooserOperand] at hn
    simp only [PreCanonAt, Bool.and_eq_true]
    exact ⟨⟨⟨preCanon_of_skel e false hc.1.1.1 hn, hc.1.1.2⟩, hc.1.2⟩, hc.2⟩
  | .unary k e l, _, hc, hn => by
    simp only [SkelCanonAt, Bool.and_eq_true] at hc
    simp only [noLooserOperand] at hn
    simp [PreCanonAt, preCanon_of_skel e false hc.1 hn, hc.2]
  | .orange k e i l, _, hc, _ => hc
  | .range a b il ih l, _, hc, _ => hc
  | .op k xs l, _, hc, hn => by
    simp only [SkelCanonAt, Bool.and_eq_true] at hc
    simp only [noLooserOperand, Bool.and_eq_true] at hn
    simp only [PreCanonAt, Bool.and_eq_true, Bool.or_eq_true]
    exact ⟨⟨hc.1.1, preCanons_of_skel xs hc.2 hn.2⟩, Or.inl ⟨hc.1.2, hn.1⟩⟩
theorem preCanons_of_skel : ∀ xs : List Tree, SkelCanonsAt xs = true → noLooserOperands xs = true →
    PreCanonsAt xs = true
  | [], _, _ => rfl
  | x :: r, hc, hn => by
    simp only [SkelCanonsAt, Bool.and_eq_true] at hc
    simp only [noLooserOperands, Bool.and_eq_true] at hn
    simp [PreCanonsAt, preCanon_of_skel x false hc.1 hn.1, preCanons_of_skel r hc.2 hn.2]
end

/-! ### the lucene mode -/

open Luqum.Props.C10 (resolve_lucene_skeleton) in
/-- **the hypotheses of the print-and-reparse theorem (up to normalisation) for the lucene mode** -/
theorem lucene_hyps (h : Str) (hh : isBlank h = true) (t : Tree) (hb : t.blankLayout = true)
    (hc : CanonAt false t = true) (hw : WordsOK t = true) (hn : numsOK t = true)
    (ht : validTexts t = true) (h6 : noLooserOperand (resolve .lucene h t) = true) :
    (resolve .lucene h t).blankLayout = true ∧ PreCanonAt false (resolve .lucene h t) = true ∧
      WordsOK (resolve .lucene h t) = true ∧ numsOK (resolve .lucene h t) = true ∧
      validTexts (resolve .lucene h t) = true := by
  have e := resolve_lucene_skeleton h t
  obtain ⟨u1, u2, u3, u4⟩ := erase_preds (resolve .lucene h t)
  obtain ⟨v1, v2, v3, v4⟩ := erase_preds (relabel .and h t)
  rw [e] at u1 u2 u3 u4
  refine ⟨?_, ?_, ?_, ?_, ?_⟩
  · rw [← u1, v1]; exact blank_relabel .and h hh t hb
  · refine preCanon_of_skel _ false ?_ h6
    rw [← skelCanon_erase, e, skelCanon_erase]
    exact skelCanon_relabel .and (by decide) h t false hc
  · rw [← u2, v2, wordsOK_relabel]; exact hw
  · rw [← u3, v3, numsOK_relabel]; exact hn
  · rw [← u4, v4, validTexts_relabel]; exact ht

end Luqum
