/-
  Luqum.Lemmas.CheckLemmas — helper lemmas on the model of `LuceneCheck` (used by Props/C20):

  * the **method table obligations**: for each of the 20 class names `Tree.className` can produce,
    which `check_*` method the MRO dispatch selects and whether it is wrapped by `_check_children`
    (if the translator's table changes — e.g. a class loses its wrapper — these lemmas fail);
  * the class tests (`isinstance`) as pattern matchings;
  * one unfolding equation of `checkErrors` per class.
-/
import Luqum.Model.Check

namespace Luqum.Lemmas.Check
open Luqum

/-! ### 1. method table obligations (one per concrete class) -/

theorem method_Word : checkMethodOf "Word" = some ("Word", false) := by decide
theorem method_Phrase : checkMethodOf "Phrase" = some ("Phrase", false) := by decide
theorem method_Regex : checkMethodOf "Regex" = none := by decide
theorem method_SearchField : checkMethodOf "SearchField" = some ("SearchField", true) := by decide
theorem method_Group : checkMethodOf "Group" = some ("Group", true) := by decide
theorem method_FieldGroup : checkMethodOf "FieldGroup" = some ("FieldGroup", true) := by decide
theorem method_Range : checkMethodOf "Range" = some ("Range", false) := by decide
theorem method_Fuzzy : checkMethodOf "Fuzzy" = some ("Fuzzy", false) := by decide
theorem method_Proximity : checkMethodOf "Proximity" = some ("Proximity", false) := by decide
theorem method_Boost : checkMethodOf "Boost" = some ("Boost", true) := by decide
theorem method_AndOperation : checkMethodOf "AndOperation" = some ("BaseOperation", true) := by decide
theorem method_OrOperation : checkMethodOf "OrOperation" = some ("BaseOperation", true) := by decide
theorem method_UnknownOperation :
    checkMethodOf "UnknownOperation" = some ("BaseOperation", true) := by decide
theorem method_BoolOperation : checkMethodOf "BoolOperation" = some ("BaseOperation", true) := by decide
theorem method_Plus : checkMethodOf "Plus" = some ("Plus", true) := by decide
theorem method_Not : checkMethodOf "Not" = some ("Not", true) := by decide
theorem method_Prohibit : checkMethodOf "Prohibit" = some ("Prohibit", true) := by decide
theorem method_From : checkMethodOf "From" = none := by decide
theorem method_To : checkMethodOf "To" = none := by decide
theorem method_NoneItem : checkMethodOf "NoneItem" = none := by decide

/-- the check method (class that defines it, does it recurse) selected for a node -/
def methodOf : Tree → Option (String × Bool)
  | .term .word _ _ => some ("Word", false)
  | .term .phrase _ _ => some ("Phrase", false)
  | .term .regex _ _ => none
  | .field .. => some ("SearchField", true)
  | .group .group _ _ => some ("Group", true)
  | .group .fieldGroup _ _ => some ("FieldGroup", true)
  | .range .. => some ("Range", false)
  | .approx .fuzzy .. => some ("Fuzzy", false)
  | .approx .proximity .. => some ("Proximity", false)
  | .boost .. => some ("Boost", true)
  | .op .. => some ("BaseOperation", true)
  | .unary .plus _ _ => some ("Plus", true)
  | .unary .not _ _ => some ("Not", true)
  | .unary .prohibit _ _ => some ("Prohibit", true)
  | .orange .. => none
  | .none _ => none

/-- the MRO dispatch of `LuceneCheck.check`, for all 20 classes at once -/
theorem checkMethodOf_className (t : Tree) : checkMethodOf t.className = methodOf t := by
  cases t with
  | term k => cases k <;> simp only [Tree.className, methodOf, method_Word, method_Phrase, method_Regex]
  | group k => cases k <;> simp only [Tree.className, methodOf, method_Group, method_FieldGroup]
  | approx k => cases k <;> simp only [Tree.className, methodOf, method_Fuzzy, method_Proximity]
  | op k =>
    cases k <;> simp only [Tree.className, methodOf, method_AndOperation, method_OrOperation,
      method_UnknownOperation, method_BoolOperation]
  | unary k => cases k <;> simp only [Tree.className, methodOf, method_Plus, method_Not, method_Prohibit]
  | orange k => cases k <;> simp only [Tree.className, methodOf, method_From, method_To]
  | field => simp only [Tree.className, methodOf, method_SearchField]
  | range => simp only [Tree.className, methodOf, method_Range]
  | boost => simp only [Tree.className, methodOf, method_Boost]
  | none => simp only [Tree.className, methodOf, method_NoneItem]

/-! ### 2. class tests as pattern matchings -/

def isWord : Tree → Bool | .term .word _ _ => true | _ => false
def isPhrase : Tree → Bool | .term .phrase _ _ => true | _ => false
def isField : Tree → Bool | .field .. => true | _ => false
/-- `isinstance(·, OrOperation)`: of the four operation classes only `OrOperation` itself -/
def isOr : Tree → Bool | .op .or _ _ => true | _ => false
/-- `FIELD_EXPR_FIELDS`: Boost, Proximity, Fuzzy, Word, Phrase, FieldGroup -/
def isValue : Tree → Bool
  | .boost .. | .approx .. | .term .word _ _ | .term .phrase _ _ | .group .fieldGroup _ _ => true
  | _ => false

theorem isInstance_Word (t : Tree) : isInstance ["Word"] t = isWord t := by
  cases t with
  | term k => cases k <;> rfl
  | group k => cases k <;> rfl
  | approx k => cases k <;> rfl
  | op k => cases k <;> rfl
  | unary k => cases k <;> rfl
  | orange k => cases k <;> rfl
  | _ => rfl

theorem isInstance_Phrase (t : Tree) : isInstance ["Phrase"] t = isPhrase t := by
  cases t with
  | term k => cases k <;> rfl
  | group k => cases k <;> rfl
  | approx k => cases k <;> rfl
  | op k => cases k <;> rfl
  | unary k => cases k <;> rfl
  | orange k => cases k <;> rfl
  | _ => rfl

theorem isInstance_SearchField (t : Tree) : isInstance ["SearchField"] t = isField t := by
  cases t with
  | term k => cases k <;> rfl
  | group k => cases k <;> rfl
  | approx k => cases k <;> rfl
  | op k => cases k <;> rfl
  | unary k => cases k <;> rfl
  | orange k => cases k <;> rfl
  | _ => rfl

theorem isInstance_OrOperation (t : Tree) : isInstance ["OrOperation"] t = isOr t := by
  cases t with
  | term k => cases k <;> rfl
  | group k => cases k <;> rfl
  | approx k => cases k <;> rfl
  | op k => cases k <;> rfl
  | unary k => cases k <;> rfl
  | orange k => cases k <;> rfl
  | _ => rfl

theorem isInstance_fieldExpr (t : Tree) : isInstance Generated.fieldExprFields t = isValue t := by
  cases t with
  | term k => cases k <;> rfl
  | group k => cases k <;> rfl
  | approx k => cases k <;> rfl
  | op k => cases k <;> rfl
  | unary k => cases k <;> rfl
  | orange k => cases k <;> rfl
  | _ => rfl

/-! ### 3. what the checker sees of `parents`: only the class of the last one -/

/-- `parents and isinstance(parents[-1], SearchField)` -/
def afterField (ps : List Tree) : Bool :=
  match ps.getLast? with | some p => isField p | none => false
/-- `parents and isinstance(parents[-1], OrOperation)` -/
def underOr (ps : List Tree) : Bool :=
  match ps.getLast? with | some p => isOr p | none => false

@[simp] theorem afterField_nil : afterField [] = false := rfl
@[simp] theorem underOr_nil : underOr [] = false := rfl
@[simp] theorem afterField_snoc (ps : List Tree) (t : Tree) : afterField (ps ++ [t]) = isField t := by
  simp [afterField]
@[simp] theorem underOr_snoc (ps : List Tree) (t : Tree) : underOr (ps ++ [t]) = isOr t := by
  simp [underOr]

/-! ### 4. unfolding equations of `checkErrors`, one per class -/

/-- `check_word`: the two tests on the value; no recursion -/
def wordErrors (z : Nat) (v : Str) (l : Lay) : List Str :=
  (if v.any isSpace then [lit "A single term value can't hold a space " ++ (Tree.term .word v l).str]
   else []) ++
  (if z ≠ 0 && v.any (fun c => c == '+' || c == '/' || c == '-')
   then [lit "Invalid characters in term value: " ++ v] else [])

theorem checkErrors_word (z ps v l) : checkErrors z ps (.term .word v l) = wordErrors z v l := by
  simp [checkErrors, Tree.className, method_Word, ownErrors, wordErrors]

theorem checkErrors_phrase (z ps v l) : checkErrors z ps (.term .phrase v l) = [] := by
  simp [checkErrors, Tree.className, method_Phrase, ownErrors]

theorem checkErrors_regex (z ps v l) : checkErrors z ps (.term .regex v l) =
    [lit "Unknown item type " ++ "Regex".toList ++ lit " : " ++ (Tree.term .regex v l).str] := by
  simp [checkErrors, Tree.className, method_Regex]

theorem checkErrors_orange (z ps k a i l) : checkErrors z ps (.orange k a i l) =
    [lit "Unknown item type " ++ (Tree.orange k a i l).className.toList ++ lit " : "
      ++ (Tree.orange k a i l).str] := by
  cases k <;> simp [checkErrors, Tree.className, method_From, method_To]

theorem checkErrors_none (z ps l) : checkErrors z ps (.none l) =
    [lit "Unknown item type " ++ "NoneItem".toList ++ lit " : " ++ (Tree.none l).str] := by
  simp [checkErrors, Tree.className, method_NoneItem]

/-- `check_range` yields nothing and is not wrapped: the bounds are not looked at -/
theorem checkErrors_range (z ps a b il ih l) : checkErrors z ps (.range a b il ih l) = [] := by
  simp [checkErrors, Tree.className, method_Range, ownErrors]

/-- `check_fuzzy`; not wrapped: the term is not checked itself -/
theorem checkErrors_fuzzy (z ps t n l) : checkErrors z ps (.approx .fuzzy t n l) =
    (if n.val.neg then [lit "invalid degree " ++ n.val.render ++ lit ", it must be positive"]
     else []) ++
    (if isWord t then [] else [lit "Fuzzy should be on a single term in " ++ (Tree.approx .fuzzy t n l).str]) := by
  simp [checkErrors, Tree.className, method_Fuzzy, ownErrors, isInstance_Word]

/-- `check_proximity`; not wrapped -/
theorem checkErrors_proximity (z ps t n l) : checkErrors z ps (.approx .proximity t n l) =
    if isPhrase t then []
    else [lit "Proximity can be only on a phrase in " ++ (Tree.approx .proximity t n l).str] := by
  simp [checkErrors, Tree.className, method_Proximity, ownErrors, isInstance_Phrase]

theorem checkErrors_boost (z ps e n l) :
    checkErrors z ps (.boost e n l) = checkErrors z (ps ++ [.boost e n l]) e := by
  simp [checkErrors, Tree.className, method_Boost, ownErrors]

theorem checkErrors_op (z ps k xs l) :
    checkErrors z ps (.op k xs l) = checkErrorsList z (ps ++ [.op k xs l]) xs := by
  cases k <;> simp [checkErrors, Tree.className, method_AndOperation, method_OrOperation,
    method_UnknownOperation, method_BoolOperation, ownErrors]

theorem checkErrors_plus (z ps a l) :
    checkErrors z ps (.unary .plus a l) = checkErrors z (ps ++ [.unary .plus a l]) a := by
  simp [checkErrors, Tree.className, method_Plus, ownErrors]

/-- `check_search_field` -/
theorem checkErrors_field (z ps n e l) : checkErrors z ps (.field n e l) =
    (if validFieldName n then [] else [n ++ lit " is not a valid field name"]) ++
    (if isValue e then [] else [lit "field expression is not valid : " ++ (Tree.field n e l).str]) ++
    checkErrors z (ps ++ [.field n e l]) e := by
  simp [checkErrors, Tree.className, method_SearchField, ownErrors, isInstance_fieldExpr]

/-- the own messages of `check_group` -/
def groupErrors (ps : List Tree) : List Str :=
  match ps.getLast? with
  | some p => if isField p
      then [lit "Group misuse, after SearchField you should use Group : " ++ p.str] else []
  | none => []

theorem checkErrors_group (z ps e l) : checkErrors z ps (.group .group e l) =
    groupErrors ps ++ checkErrors z (ps ++ [.group .group e l]) e := by
  cases hp : ps.getLast? <;>
    simp [checkErrors, Tree.className, method_Group, ownErrors, isInstance_SearchField, groupErrors, hp]

theorem groupErrors_eq_nil (ps : List Tree) : groupErrors ps = [] ↔ afterField ps = false := by
  unfold groupErrors afterField; split <;> simp

/-- the own messages of `check_field_group` -/
def fieldGroupErrors (ps : List Tree) (t : Tree) : List Str :=
  match ps.getLast? with
  | some p => if isField p then []
      else [lit "FieldGroup misuse, it must be used after SearchField : " ++ p.str]
  | none => [lit "FieldGroup misuse, it must be used after SearchField : " ++ t.str]

theorem checkErrors_fieldGroup (z ps e l) : checkErrors z ps (.group .fieldGroup e l) =
    fieldGroupErrors ps (.group .fieldGroup e l)
      ++ checkErrors z (ps ++ [.group .fieldGroup e l]) e := by
  cases hp : ps.getLast? <;>
    simp [checkErrors, Tree.className, method_FieldGroup, ownErrors, isInstance_SearchField,
      fieldGroupErrors, hp]

theorem fieldGroupErrors_eq_nil (ps : List Tree) (t : Tree) :
    fieldGroupErrors ps t = [] ↔ afterField ps = true := by
  unfold fieldGroupErrors afterField; split <;> simp

/-- the own messages of `_check_not_operator` -/
def notErrors (z : Nat) (ps : List Tree) : List Str :=
  match ps.getLast? with
  | some p => if z ≠ 0 && isOr p
      then [lit "Prohibit or Not really means 'AND NOT' wich is inconsistent with OR operation in " ++ p.str]
      else []
  | none => []

theorem checkErrors_not (z ps a l) : checkErrors z ps (.unary .not a l) =
    notErrors z ps ++ checkErrors z (ps ++ [.unary .not a l]) a := by
  cases hp : ps.getLast? <;>
    simp [checkErrors, Tree.className, method_Not, ownErrors, isInstance_OrOperation, notErrors, hp]

theorem checkErrors_prohibit (z ps a l) : checkErrors z ps (.unary .prohibit a l) =
    notErrors z ps ++ checkErrors z (ps ++ [.unary .prohibit a l]) a := by
  cases hp : ps.getLast? <;>
    simp [checkErrors, Tree.className, method_Prohibit, ownErrors, isInstance_OrOperation, notErrors, hp]

theorem notErrors_eq_nil (z : Nat) (ps : List Tree) :
    notErrors z ps = [] ↔ (z = 0 ∨ underOr ps = false) := by
  unfold notErrors underOr
  by_cases hz : z = 0 <;> split <;> simp [hz]

theorem checkErrorsList_append (z ps) : ∀ xs ys,
    checkErrorsList z ps (xs ++ ys) = checkErrorsList z ps xs ++ checkErrorsList z ps ys
  | [], ys => by simp [checkErrorsList]
  | x :: r, ys => by simp [checkErrorsList, checkErrorsList_append z ps r ys]

end Luqum.Lemmas.Check
