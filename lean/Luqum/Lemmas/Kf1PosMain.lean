/-
  Luqum.Lemmas.Kf1PosMain — positions without the KF1 hypothesis: the per-action lemma `act_posS`.
  If the arguments of a semantic action are well-formed (no adjacency clause), laid out in the
  source consecutively from `off`, and their shapes are admissible for the action (table fact), the
  value built is laid out at `off` and claims exactly the extent of the arguments.
-/
import Luqum.Lemmas.Kf1PosBin

namespace Luqum

theorem extsV_one (a : Val) : extsV [a] = a.ext := by simp [extsV]
theorem extsV_two (a b : Val) : extsV [a, b] = a.ext + b.ext := by simp [extsV]
theorem extsV_three (a b c : Val) : extsV [a, b, c] = a.ext + b.ext + c.ext := by
  simp only [extsV]; omega
theorem extsV_five (a b c d e : Val) :
    extsV [a, b, c, d, e] = a.ext + b.ext + c.ext + d.ext + e.ext := by
  simp only [extsV]; omega

theorem Val.ext_item (t : Tree) : (Val.item t).ext = t.ext := rfl
theorem Val.ext_tok (k : TokK) (v : TokV) : (Val.tok k v).ext = layLen v.lay := rfl

/-- `expr OP expr` -/
theorem bin_posS {k : OpK} {kk : TokK} {a b : Tree} {o : TokV} {off : Int}
    (hw : tokText kk o.value = k.word)
    (hok : SeqOK0 [.item a, .tok kk o, .item b])
    (hp : SeqPosS [.item a, .tok kk o, .item b] off) (hkb : isOpK k b = false) :
    Val.PosAtS (.item (binaryOp k a (some o.lay) b))
      (off + (Val.lay (.item (binaryOp k a (some o.lay) b))).head.length) ∧
    (Val.item (binaryOp k a (some o.lay) b)).ext = extsV [.item a, .tok kk o, .item b] := by
  obtain ⟨hg, hn⟩ := hok
  have hga : a.good := hg (.item a) (by simp)
  have hno : o.lay.head = [] := hn (.tok kk o) (by simp)
  simp only [SeqPosS, Val.PosAtS, Val.lay, Val.ext_item, Val.ext_tok, hw, hno, List.length_nil,
    and_true] at hp
  obtain ⟨hpa, hpo, hpb⟩ := hp
  have := binaryOp_posS k a b (some o.lay) off hga hkb hpa
    (fun l hl => by cases hl; exact ⟨hno, hpo.2⟩) (by simp) (hpb.cast (by simp [olLen, Tree.head]))
  refine ⟨this.1.cast (by simp [Val.lay, binaryOp_lay_head]), ?_⟩
  rw [extsV_three]; simpa [Val.ext_item, Val.ext_tok, olLen] using this.2

/-- `expr expr` -/
theorem impl_posS {a b : Tree} {off : Int}
    (hok : SeqOK0 [.item a, .item b]) (hp : SeqPosS [.item a, .item b] off)
    (hkb : isOpK .unk b = false) :
    Val.PosAtS (.item (binaryOp .unk a none b))
      (off + (Val.lay (.item (binaryOp .unk a none b))).head.length) ∧
    (Val.item (binaryOp .unk a none b)).ext = extsV [.item a, .item b] := by
  obtain ⟨hg, hn⟩ := hok
  have hga : a.good := hg (.item a) (by simp)
  simp only [SeqPosS, Val.PosAtS, Val.lay, Val.ext_item, and_true] at hp
  obtain ⟨hpa, hpb⟩ := hp
  have := binaryOp_posS .unk a b none off hga hkb hpa (by simp) (fun _ => rfl)
    (hpb.cast (by simp [olLen, Tree.head]))
  refine ⟨this.1.cast (by simp [Val.lay, binaryOp_lay_head]), ?_⟩
  rw [extsV_two]; simpa [Val.ext_item, olLen] using this.2

/-- `OP expr` -/
theorem pre_posS {kk : TokK} {o : TokV} {e : Tree} {mk : Tree → Lay → Tree} {w : Str} {off : Int}
    (hmk : PreMkS w mk) (hw : tokText kk o.value = w) (hlay : ∀ a l, (mk a l).lay = l)
    (hp : SeqPosS [.tok kk o, .item e] off) :
    Val.PosAtS (.item (mgrUnary o.lay e mk))
      (off + (Val.lay (.item (mgrUnary o.lay e mk))).head.length) ∧
    (Val.item (mgrUnary o.lay e mk)).ext = extsV [.tok kk o, .item e] := by
  simp only [SeqPosS, Val.PosAtS, Val.lay, Val.ext_tok, hw, and_true] at hp
  obtain ⟨hpo, hpe⟩ := hp
  have := mgrUnary_posS hmk hlay hpo (hpe.cast (by simp [Tree.head]))
  refine ⟨this.1.cast (by simp [Val.lay, mgrUnary, hlay]), ?_⟩
  rw [extsV_two]; exact this.2

/-- `expr OP` -/
theorem post_posS {kk : TokK} {a : TokV} {e : Tree} {mk : Tree → Lay → Tree} {w : Str} {off : Int}
    (hmk : PostMkS w mk) (hw : tokText kk a.value = w) (hlay : ∀ a l, (mk a l).lay = l)
    (hok : SeqOK0 [.item e, .tok kk a])
    (hp : SeqPosS [.item e, .tok kk a] off) :
    Val.PosAtS (.item (mgrPostUnary e a.lay mk))
      (off + (Val.lay (.item (mgrPostUnary e a.lay mk))).head.length) ∧
    (Val.item (mgrPostUnary e a.lay mk)).ext = extsV [.item e, .tok kk a] := by
  have hna : a.lay.head = [] := hok.nf (.tok kk a) (by simp)
  simp only [SeqPosS, Val.PosAtS, Val.lay, Val.ext_item, hw, and_true] at hp
  obtain ⟨hpe, hpa⟩ := hp
  have := mgrPostUnary_posS hmk hlay hpe hpa.2 hna
  refine ⟨this.1.cast (by simp [Val.lay, mgrPostUnary, hlay]), ?_⟩
  rw [extsV_two]; exact this.2

/-- **the per-action lemma** -/
theorem act_posS {f : String} {args : List Val} {v : Val} {As : List Nat} {off : Int}
    (h : act f args = .ok v) (hok : SeqOK0 args) (hp : SeqPosS args off)
    (hs : HasShapes args As) (hadm : admSet f As = true) :
    v.PosAtS (off + v.lay.head.length) ∧ v.ext = extsV args := by
  have hg := hok.good
  have hn := hok.nf
  have hunit : ∀ v', SeqPosS [v'] off → v'.PosAtS (off + v'.lay.head.length) ∧ v'.ext = extsV [v'] :=
    fun v' hp' => ⟨by simp only [SeqPosS] at hp'; exact hp'.1, (extsV_one v').symm⟩
  unfold act at h
  split at h
  case h_1 a o b =>
    simp only [hasShapes_cons, hasShapes_nil] at hs
    obtain ⟨A, _, rfl, ⟨ha, hA⟩, O, _, rfl, _, B, _, rfl, ⟨hb, hB⟩, rfl⟩ := hs
    cases h
    rw [admSet_or] at hadm
    simp only [Bool.and_eq_true, Bool.not_eq_true'] at hadm
    have h2 : (bit shUnk ||| bit shOr).testBit (shapeOfTree b) = false := testBit_of_not_meets hadm.2 hB
    simp only [Nat.testBit_or, Bool.or_eq_false_iff] at h2
    rw [← isOpK_unk_eq, ← isOpK_or_eq] at h2
    have hgo : o.value = some "OR".toList := hg (.tok .orOp o) (by simp)
    exact bin_posS (k := .or) (by simp [tokText, hgo, OpK.word]) hok hp h2.2
  case h_2 a o b =>
    simp only [hasShapes_cons, hasShapes_nil] at hs
    obtain ⟨A, _, rfl, ⟨ha, hA⟩, O, _, rfl, _, B, _, rfl, ⟨hb, hB⟩, rfl⟩ := hs
    cases h
    rw [admSet_and] at hadm
    simp only [Bool.and_eq_true, Bool.not_eq_true'] at hadm
    have h2 : isOp' b = false := notOp_of_not_meets hb hB hadm.2
    have hb' : isOpK .and b = false := by cases b <;> simp_all [isOp', isOpK]
    have hgo : o.value = some "AND".toList := hg (.tok .andOp o) (by simp)
    exact bin_posS (k := .and) (by simp [tokText, hgo, OpK.word]) hok hp hb'
  case h_3 a b =>
    simp only [hasShapes_cons, hasShapes_nil] at hs
    obtain ⟨A, _, rfl, ⟨ha, hA⟩, B, _, rfl, ⟨hb, hB⟩, rfl⟩ := hs
    cases h
    rw [admSet_implicit] at hadm
    simp only [Bool.not_eq_true'] at hadm
    have h2 : (bit shUnk).testBit (shapeOfTree b) = false := testBit_of_not_meets hadm hB
    rw [← isOpK_unk_eq] at h2
    exact impl_posS hok hp h2
  case h_4 o e =>
    cases h
    have hgo : o.value = some ['+'] := hg (.tok .plus o) (by simp)
    exact pre_posS (preMkS_unary .plus) (by simp [tokText, hgo, UnK.word]) (fun _ _ => rfl) hp
  case h_5 o e =>
    cases h
    have hgo : o.value = some ['-'] := hg (.tok .minus o) (by simp)
    exact pre_posS (preMkS_unary .prohibit) (by simp [tokText, hgo, UnK.word]) (fun _ _ => rfl) hp
  case h_6 o e =>
    cases h
    have hgo : o.value = some "NOT".toList := hg (.tok .not o) (by simp)
    exact pre_posS (preMkS_unary .not) (by simp [tokText, hgo, UnK.word]) (fun _ _ => rfl) hp
  case h_7 v' => cases h; exact hunit _ hp
  case h_8 lp e rp =>
    split at h
    rename_i pos size hm
    cases h
    have hglp : lp.value = some ['('] := hg (.tok .lparen lp) (by simp)
    have hgrp : rp.value = some [')'] := hg (.tok .rparen rp) (by simp)
    have hnrp : rp.lay.head = [] := hn (.tok .rparen rp) (by simp)
    simp only [SeqPosS, Val.PosAtS, Val.lay, Val.ext_tok, Val.ext_item, tokText, hglp, hgrp,
      Option.getD_some, and_true] at hp
    obtain ⟨hplp, hpe, hprp⟩ := hp
    have := group_posS hm hplp (hpe.cast (by simp [Tree.head])) hprp.2 hnrp
    exact ⟨this.1, by rw [extsV_three]; exact this.2⟩
  case h_9 lb lo to hi rb =>
    split at h
    rename_i pos size hm
    cases h
    have hglb : lb.value = some ['['] ∨ lb.value = some ['{'] := hg (.tok .lbracket lb) (by simp)
    have hgrb : rb.value = some [']'] ∨ rb.value = some ['}'] := hg (.tok .rbracket rb) (by simp)
    have hgto : to.value = some "TO".toList := hg (.tok .to to) (by simp)
    have hnto : to.lay.head = [] := hn (.tok .to to) (by simp)
    have hnrb : rb.lay.head = [] := hn (.tok .rbracket rb) (by simp)
    have hlb1 : (tokText .lbracket lb.value).length = 1 := by
      rcases hglb with h | h <;> simp [tokText, h]
    have hrb1 : (tokText .rbracket rb.value).length = 1 := by
      rcases hgrb with h | h <;> simp [tokText, h]
    have hto2 : (tokText .to to.value).length = 2 := by simp [tokText, hgto]
    simp only [SeqPosS, Val.PosAtS, Val.lay, Val.ext_tok, Val.ext_item, LayAt, hlb1, hrb1, hto2,
      and_true] at hp
    obtain ⟨⟨hplb, hslb⟩, hplo, ⟨_, hsto⟩, hphi, ⟨_, hsrb⟩⟩ := hp
    have := range_posS (il := lb.value == some ['[']) (ih := rb.value == some [']']) hm hplb hslb
      (hplo.cast (by simp [Tree.head])) hsto hnto (hphi.cast (by simp [Tree.head])) hsrb hnrb
    exact ⟨this.1, by rw [extsV_five]; exact this.2⟩
  case h_10 o e =>
    cases h
    have hgo : o.value = some ['-'] := hg (.tok .minus o) (by simp)
    exact pre_posS (preMkS_unary .prohibit) (by simp [tokText, hgo, UnK.word]) (fun _ _ => rfl) hp
  case h_11 v' => cases h; exact hunit _ hp
  case h_12 v' => cases h; exact hunit _ hp
  case h_13 o e =>
    cases h
    have hgo : tokValOK .lessthan o.value := hg (.tok .lessthan o) (by simp)
    exact pre_posS (preMkS_orange .to _) (tokText_lessthan hgo) (fun _ _ => rfl) hp
  case h_14 o e =>
    cases h
    have hgo : tokValOK .greaterthan o.value := hg (.tok .greaterthan o) (by simp)
    exact pre_posS (preMkS_orange .from _) (tokText_greaterthan hgo) (fun _ _ => rfl) hp
  case h_15 name nl c e =>
    have hm : mgrPos [nl, c.lay, (toFieldGroup e).lay] true false =
        ((mgrPos [nl, c.lay, (toFieldGroup e).lay] true false).1,
         (mgrPos [nl, c.lay, (toFieldGroup e).lay] true false).2) := rfl
    have h' : Val.item (.field name ((toFieldGroup e).setHead (c.lay.tail ++ (toFieldGroup e).head))
        { head := nl.head, tail := [],
          pos := (mgrPos [nl, c.lay, (toFieldGroup e).lay] true false).1,
          size := (mgrPos [nl, c.lay, (toFieldGroup e).lay] true false).2 }) = v := Except.ok.inj h
    subst h'
    have hgc : c.value = some [':'] := hg (.tok .column c) (by simp)
    have hnc : c.lay.head = [] := hn (.tok .column c) (by simp)
    simp only [SeqPosS, Val.PosAtS, Val.lay, Val.ext_tok, Val.ext_item, lay_term, PosS, tokText,
      hgc, hnc, Option.getD_some, List.length_nil, and_true] at hp
    obtain ⟨hpn, hpc, hpe⟩ := hp
    have := field_posS hm hpn hpc.2 hnc (hpe.cast (by simp [Tree.head, Tree.ext, lay_term]))
    exact ⟨this.1, by rw [extsV_three]; exact this.2⟩
  case h_16 v' => cases h; exact hunit _ hp
  case h_17 e a =>
    split at h
    · rename_i n hnum
      cases h
      exact post_posS (postMkS_approx .proximity n) (by simp [tokText, intNum_source hnum])
        (fun _ _ => rfl) hok hp
    · cases h
  case h_18 e a =>
    split at h
    · rename_i n hnum
      cases h
      exact post_posS (postMkS_boost n) (by simp [tokText, decNum_source hnum]) (fun _ _ => rfl)
        hok hp
    · cases h
  case h_19 v' => cases h; exact hunit _ hp
  case h_20 e a =>
    split at h
    · rename_i n hnum
      cases h
      exact post_posS (postMkS_approx .fuzzy n) (by simp [tokText, decNum_source hnum])
        (fun _ _ => rfl) hok hp
    · cases h
  case h_21 v' => cases h; exact hunit _ hp
  case h_22 t =>
    split at h
    rename_i pos size hm
    cases h
    simp only [SeqPosS, Val.PosAtS, Val.lay, tokText, and_true] at hp
    have := toTerm_posS hm hp
    exact ⟨this.1, by rw [extsV_one]; exact this.2⟩
  case h_23 v' => cases h; exact hunit _ hp
  case h_24 => cases h

end Luqum
