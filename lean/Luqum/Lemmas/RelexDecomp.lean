/-
  Luqum.Lemmas.RelexDecomp — converse of the spelling theorem: the tokens of any input are valid
  token texts, and an input without illegal character is the spelling of pieces that satisfy the
  hypotheses of the spelling theorem.
-/
import Luqum.Lemmas.RelexStep
import Luqum.Lemmas.RelexLoop
import Luqum.Lemmas.Yield

namespace Luqum

/-- invariant of the lexer loop: where a term starts, the look-behind cannot reach before it -/
def TermStartOK (prev rest : Str) : Prop := ∀ n, termLen prev rest = some n → boundOK prev = true

theorem termStartOK_init (s : Str) : TermStartOK [] s := fun _ _ => rfl

theorem termStartOK_tok {prev rest : Str} {k : TokK} {n : Nat}
    (h : lexOne prev rest = some (.tok k n)) (hj : TermStartOK prev rest) :
    isTermKind k = true → boundOK prev = true := by
  intro hk
  cases rest with
  | nil => simp [lexOne] at h
  | cons c r =>
    cases ht : termLen prev (c :: r) with
    | some m => exact hj m ht
    | none =>
      exfalso
      -- a term kind comes from the `TERM_RE` rule only
      unfold lexOne at h
      simp only at h
      rcases ite_elim h with ⟨_, h'⟩ | ⟨_, h'⟩
      · cases h'
      clear h; have h := h'; clear h'
      iterate 13
        (rcases ite_elim h with ⟨_, h'⟩ | ⟨_, h'⟩
         · first
           | (simp only [Option.some.injEq, Lexeme.tok.injEq] at h'
              obtain ⟨rfl, _⟩ := h'
              cases hk)
           | (simp only [Option.map_eq_some_iff, Lexeme.tok.injEq] at h'
              obtain ⟨_, _, rfl, _⟩ := h'
              cases hk)
         clear h; have h := h'; clear h')
      rw [ht] at h
      cases h

theorem termStartOK_after_tok {prev rest : Str} {k : TokK} {n : Nat}
    (h : lexOne prev rest = some (.tok k n)) (hj : TermStartOK prev rest) :
    TermStartOK ((rest.take (max n 1)).reverse ++ prev) (rest.drop (max n 1)) := by
  obtain ⟨h1, _, hv, _, hnt⟩ := lexOne_conv h (termStartOK_tok h hj)
  rw [Nat.max_eq_left h1]
  intro m hm
  cases hk : isTermKind k with
  | true => rw [hnt hk] at hm; cases hm
  | false =>
    rcases validTok_cases hv with ⟨hk', _⟩ | ⟨_, hb⟩
    · rw [hk] at hk'; cases hk'
    · exact hb prev

theorem mem_takeWhile_sat {p : Char → Bool} : ∀ (xs : Str) (c : Char), c ∈ xs.takeWhile p → p c = true
  | [], c, h => by simp at h
  | a :: xs, c, h => by
    by_cases ha : p a = true
    · simp only [List.takeWhile_cons, ha, if_true, List.mem_cons] at h
      rcases h with rfl | h
      · exact ha
      · exact mem_takeWhile_sat xs c h
    · simp [ha] at h

theorem sepLen_take_blank (rest : Str) : isBlank (rest.take (sepLen rest)) = true := by
  unfold sepLen
  rw [take_takeWhile_length]
  simp only [isBlank, List.all_eq_true]
  intro c hc
  exact mem_takeWhile_sat _ _ hc

theorem termStartOK_after_sep {prev : Str} {c : Char} {r : Str} (hc : isSpace c = true) (rest' : Str) :
    TermStartOK (((c :: r).take (max (sepLen (c :: r)) 1)).reverse ++ prev) rest' := by
  intro _ _
  have hp := sepLen_pos (r := r) hc
  rw [Nat.max_eq_left hp]
  exact boundOK_blank_rev (sepLen_take_blank _) (take_ne_nil hp)

/-- `lexLoop_all` with the invariant `TermStartOK` -/
theorem lexLoop_all_inv {C : Tok → Prop}
    (htail : ∀ (t : Tok) (s : Str), C t → C { t with tail := t.tail ++ s })
    (hnew : ∀ (prev rest : Str) (k : TokK) (n pos : Nat) (hd : Str), TermStartOK prev rest →
      lexOne prev rest = some (.tok k n) →
      C { kind := k, text := rest.take (max n 1), pos := pos, head := hd, tail := [] }) :
    ∀ (fuel pos : Nat) (prev rest : Str) (acc : List Tok) (pending : Option Str),
      (∀ t ∈ acc, C t) → TermStartOK prev rest →
      ∀ t ∈ (lexLoop fuel pos prev rest acc pending).1, C t := by
  intro fuel
  induction fuel with
  | zero => intro pos prev rest acc pending hacc _ t ht; simp [lexLoop] at ht; exact hacc t ht
  | succ fuel ih =>
    intro pos prev rest acc pending hacc hj t ht
    cases rest with
    | nil => simp [lexLoop] at ht; exact hacc t ht
    | cons c r =>
      unfold lexLoop at ht
      simp only at ht
      cases hl : lexOne prev (c :: r) with
      | none => rw [hl] at ht; simp at ht; exact hacc t ht
      | some l =>
        rw [hl] at ht
        cases l with
        | sep n =>
          have hc : isSpace c = true := by
            rcases lexOne_spec hl with ⟨hc, _⟩ | ⟨_, _, _, he, _⟩
            · exact hc
            · cases he
          have hn : n = sepLen (c :: r) := by
            rcases lexOne_spec hl with ⟨_, he⟩ | ⟨_, _, _, he, _⟩
            · cases he; rfl
            · cases he
          subst hn
          simp only at ht
          split at ht
          · exact ih _ _ _ _ _ hacc (termStartOK_after_sep hc _) t ht
          · refine ih _ _ _ _ _ ?_ (termStartOK_after_sep hc _) t ht
            intro x hx
            cases acc with
            | nil => simp [addTail] at hx
            | cons y ys =>
              simp only [addTail, List.mem_cons] at hx
              rcases hx with rfl | hx
              · exact htail y _ (hacc y (by simp))
              · exact hacc x (by simp [hx])
        | tok k n =>
          simp only at ht
          refine ih _ _ _ _ _ ?_ (termStartOK_after_tok hl hj) t ht
          intro x hx
          simp only [List.mem_cons] at hx
          rcases hx with rfl | hx
          · exact hnew _ _ _ _ _ _ hj hl
          · exact hacc x hx

/-- **(a) every token the lexer produces is a valid token text** (with or without lexer error) -/
theorem lex_validTok (s : Str) : ∀ t ∈ (lex s).1, validTok t.kind t.text = true := by
  unfold lex
  refine lexLoop_all_inv (C := fun t => validTok t.kind t.text = true) (fun t s h => h) ?_ _ _ _ _ _ _
    (by simp) (termStartOK_init s)
  intro prev rest k n pos hd hj hl
  obtain ⟨h1, _, hv, _⟩ := lexOne_conv hl (termStartOK_tok hl hj)
  rw [Nat.max_eq_left h1]
  exact hv

/-! ### decomposition of an input without illegal character -/

theorem lexLoop_err {f pos : Nat} {prev : Str} {c : Char} {r : Str} {acc : List Tok}
    {pending : Option Str} (h : lexOne prev (c :: r) = none) :
    (lexLoop (f + 1) pos prev (c :: r) acc pending).2 ≠ none := by
  unfold lexLoop
  simp [h]

theorem piecesOK_nil : PiecesOK [] [] := ⟨rfl, by simp, by simp, rfl⟩

/-- the rest of an input on which the lexer loop meets no illegal character is a spelling of pieces
that satisfy the hypotheses of the spelling theorem -/
theorem lexLoop_decomp : ∀ (fuel pos : Nat) (prev rest : Str) (acc : List Tok) (pending : Option Str),
    rest.length < fuel → (lexLoop fuel pos prev rest acc pending).2 = none → TermStartOK prev rest →
    ∃ ps trail, rest = spell ps trail ∧ PiecesOK ps trail := by
  intro fuel
  induction fuel with
  | zero => intro pos prev rest acc pending hf; omega
  | succ fuel ih =>
    intro pos prev rest acc pending hf h hj
    cases rest with
    | nil => exact ⟨[], [], rfl, piecesOK_nil⟩
    | cons c r =>
      cases hl : lexOne prev (c :: r) with
      | none => exact absurd h (lexLoop_err hl)
      | some l =>
        unfold lexLoop at h
        simp only [hl] at h
        cases l with
        | sep n =>
          have hc : isSpace c = true := by
            rcases lexOne_spec hl with ⟨hc, _⟩ | ⟨_, _, _, he, _⟩
            · exact hc
            · cases he
          have hn : n = sepLen (c :: r) := by
            rcases lexOne_spec hl with ⟨_, he⟩ | ⟨_, _, _, he, _⟩
            · cases he; rfl
            · cases he
          subst hn
          have hp := sepLen_pos (r := r) hc
          simp only [Nat.max_eq_left hp] at h
          have hj' : TermStartOK (((c :: r).take (sepLen (c :: r))).reverse ++ prev)
              ((c :: r).drop (sepLen (c :: r))) := by
            have := termStartOK_after_sep (prev := prev) (r := r) hc ((c :: r).drop (sepLen (c :: r)))
            rwa [Nat.max_eq_left hp] at this
          have hlen := drop_length_lt hp hf
          have hblank := sepLen_take_blank (c :: r)
          have hstart : StartOK ((c :: r).drop (sepLen (c :: r))) := sepLen_drop (c :: r)
          obtain ⟨ps', trail', hsp, hok⟩ : ∃ ps trail,
              (c :: r).drop (sepLen (c :: r)) = spell ps trail ∧ PiecesOK ps trail := by
            split at h
            · exact ih _ _ _ _ _ hlen h hj'
            · exact ih _ _ _ _ _ hlen h hj'
          cases ps' with
          | nil =>
            simp only [spell] at hsp
            have : trail' = [] := by
              cases htr : trail' with
              | nil => rfl
              | cons d w =>
                have h1 := hstart d w (by rw [hsp, htr])
                have h2 := hok.blankTrail
                rw [htr, isBlank_cons, h1] at h2
                cases h2
            subst this
            refine ⟨[], (c :: r).take (sepLen (c :: r)), ?_, ⟨hblank, by simp, by simp, rfl⟩⟩
            simp only [spell]
            conv => lhs; rw [← List.take_append_drop (sepLen (c :: r)) (c :: r), hsp]
            simp
          | cons q qs =>
            have hq : q.sep = [] := by
              cases hs : q.sep with
              | nil => rfl
              | cons d w =>
                have h1 := hstart d (w ++ q.text ++ spell qs trail') (by rw [hsp]; simp [spell, hs])
                have h2 := hok.blank q (by simp)
                rw [hs, isBlank_cons, h1] at h2
                cases h2
            refine ⟨{ q with sep := (c :: r).take (sepLen (c :: r)) } :: qs, trail', ?_, ?_⟩
            · simp only [spell, List.append_assoc]
              conv => lhs; rw [← List.take_append_drop (sepLen (c :: r)) (c :: r), hsp]
              simp [spell, hq]
            · refine ⟨hok.blankTrail, ?_, ?_, ?_⟩
              · intro p hp'
                simp only [List.mem_cons] at hp'
                rcases hp' with rfl | hp'
                · exact hblank
                · exact hok.blank p (by simp [hp'])
              · intro p hp'
                simp only [List.mem_cons] at hp'
                rcases hp' with rfl | hp'
                · exact hok.valid q (by simp)
                · exact hok.valid p (by simp [hp'])
              · have := hok.chain
                simpa [chainOK] using this
        | tok k n =>
          obtain ⟨h1, h2, hv, hfo, _⟩ := lexOne_conv hl (termStartOK_tok hl hj)
          have hj' := termStartOK_after_tok hl hj
          simp only [Nat.max_eq_left h1] at h hj'
          have hlen := drop_length_lt h1 hf
          obtain ⟨ps', trail', hsp, hok⟩ := ih _ _ _ _ _ hlen h hj'
          have hnext : (c :: r).drop n = [] ∨
              lexOne (((c :: r).take n).reverse ++ prev) ((c :: r).drop n) ≠ none := by
            cases hd : (c :: r).drop n with
            | nil => exact Or.inl rfl
            | cons d w =>
              right
              intro hnone
              rw [hd] at h hlen
              obtain ⟨g, rfl⟩ : ∃ g, fuel = g + 1 := ⟨fuel - 1, by omega⟩
              exact lexLoop_err hnone h
          refine ⟨{ sep := [], kind := k, text := (c :: r).take n } :: ps', trail', ?_, ?_⟩
          · simp only [spell, List.nil_append]
            rw [← hsp, List.take_append_drop]
          · refine ⟨hok.blankTrail, ?_, ?_, ?_⟩
            · intro p hp'
              simp only [List.mem_cons] at hp'
              rcases hp' with rfl | hp'
              · rfl
              · exact hok.blank p hp'
            · intro p hp'
              simp only [List.mem_cons] at hp'
              rcases hp' with rfl | hp'
              · exact hv
              · exact hok.valid p hp'
            · simp only [chainOK, Bool.and_eq_true]
              exact ⟨by rw [← hsp]; exact hfo hnext, hok.chain⟩

/-- **converse of the spelling theorem**: an input without illegal character is the spelling of
pieces that satisfy the hypotheses of the spelling theorem -/
theorem lex_decomp (s : Str) (h : (lex s).2 = none) :
    ∃ ps trail, s = spell ps trail ∧ PiecesOK ps trail :=
  lexLoop_decomp _ _ _ _ _ _ (by omega) h (termStartOK_init s)

end Luqum
