/-
  Luqum.Lemmas.ParseTotal — the generated tables satisfy the checkable facts of Luqum.Lemmas.Fuel and
  Luqum.Lemmas.Consistent (kernel-checked certificates), hence: the fuel of `parse` always suffices,
  and `parse` never ends with a model-internal error.
-/
import Luqum.Lemmas.Consistent
import Luqum.Model.ParserInst

namespace Luqum

/-! ### the measure -/

theorem reduce_rank_ok : reduceRankOK tables = true := by decide +kernel
theorem goto_rank_ok : gotoRankOK tables = true := by decide +kernel

/-- no reduce action by an empty production; unit reductions raise the rank of the top state -/
theorem fuel_ok : FuelOK tables tables.srank := fuelOK_of_checks reduce_rank_ok goto_rank_ok

/-- **fuel sufficiency**: the fuel `parseFuel` given to the loop by `parse` is never exhausted -/
theorem runLoop_fuel_ok (toks : List Tok) (lerr : Option LexErr) :
    runLoop tables (parseFuel toks.length) { states := [0], vals := [] } toks lerr
      ≠ .error (.internal "out of fuel") := by
  apply runLoop_fuel_of_potential fuel_ok
  simp only [potential, parseFuel, List.length_nil, List.headD_cons]
  omega

/-- hence any larger fuel gives the same outcome -/
theorem runLoop_more_fuel (toks : List Tok) (lerr : Option LexErr) (k : Nat) :
    runLoop tables (parseFuel toks.length + k) { states := [0], vals := [] } toks lerr =
    runLoop tables (parseFuel toks.length) { states := [0], vals := [] } toks lerr :=
  runLoop_fuel_mono tables _ k _ _ _ (runLoop_fuel_ok toks lerr)

/-! ### the semantic actions on values of the kinds of the right-hand sides -/

theorem symKind_expression : symKind "expression" = .item := by decide
theorem symKind_unary : symKind "unary_expression" = .item := by decide
theorem symKind_pot : symKind "phrase_or_term" = .item := by decide
theorem symKind_pnt : symKind "possibly_negative_term" = .item := by decide
theorem symKind_popnt : symKind "phrase_or_possibly_negative_term" = .item := by decide

/-- every production of the grammar (but the augmented start production, which is never reduced):
its action function handles all values of the kinds of its right-hand side and yields an item or
an invalid-number error -/
theorem prod_act_ok : ∀ p ∈ Generated.productions.tail, ProdActOK p := by
  intro p hp
  simp only [Generated.productions, List.tail_cons, List.mem_cons, List.not_mem_nil, or_false] at hp
  rcases hp with rfl | rfl | rfl | rfl | rfl | rfl | rfl | rfl | rfl | rfl | rfl | rfl | rfl | rfl |
    rfl | rfl | rfl | rfl | rfl | rfl | rfl | rfl | rfl | rfl | rfl
  all_goals
    simp only [ProdActOK, List.reverse_cons, List.reverse_nil, List.nil_append, List.cons_append,
      List.map_cons, List.map_nil, symKind_expression, symKind_unary, symKind_pot, symKind_pnt,
      symKind_popnt]
    simp only [symKind, AllVals]
    intros
    first
      | exact ⟨_, rfl⟩
      | exact good_intNum _ _
      | exact good_decNum _ _ _

/-! ### LR consistency of the generated tables -/

theorem rows_ok : tables.rowsOK = true := by decide +kernel
theorem accept_end_ok : acceptOnlyAtEnd tables = true := by decide +kernel
theorem end_no_shift_ok : endNoShiftOK tables = true := by decide +kernel
theorem acc_item_ok : accItemOK tables tables.edges = true := by decide +kernel
/-- for every reduce action `A → X₁…Xₖ` of a state `s`: every path of the automaton into `s` spells
`X₁…Xₖ` and starts in a state with a goto on `A` -/
theorem reduces_ok : reducesOK tables tables.edges Generated.productions.tail = true := by
  decide +kernel

theorem cons_ok : ConsOK tables :=
  consOK_of_checks prod_act_ok rows_ok accept_end_ok end_no_shift_ok acc_item_ok reduces_ok

/-- along the run of `parse` the driver yields an item or an error of luqum -/
theorem runLoop_tables_good (toks : List Tok) (lerr : Option LexErr) :
    Good (runLoop tables (parseFuel toks.length) { states := [0], vals := [] } toks lerr) := by
  apply runLoop_good cons_ok fuel_ok _ _ _ _ .base
  simp only [potential, parseFuel, List.length_nil, List.headD_cons]
  omega

/-- **`parse` never ends with a model-internal error**: none of "out of fuel", "shift on end of
input", "value stack underflow", "no goto", "accept on empty stack", "token value as result",
"no action f for these values" can occur, for any input -/
theorem parse_never_internal (s : Str) (m : String) : parse s ≠ .error (.internal m) :=
  parseWith_never_internal cons_ok fuel_ok s m

end Luqum
