/-
  Vocabulary of the code translator (tools/pysym.py): what a generated function may return besides a tree, and the
  primitives the translator does not look into (the numeric conversions made by the constructors of `Fuzzy`,
  `Boost` and `Proximity`). Everything else in `Luqum/Generated/Actions.lean` is produced from the python source.
-/
import Luqum.Model.Parser

namespace Luqum

/-- argument of a `%`-formatted message -/
inductive PyArg
  | ostr (s : Option Str)
  | oint (i : Option Int)
deriving Repr, DecidableEq

/-- a python exception escaping from translated code: its class and, when the program built it from
`fmt % args`, the format string and the arguments -/
inductive PyErr
  | exc (cls : String)
  | fmt (cls : String) (fmt : String) (args : List PyArg)
  /-- an exception built with a message computed from the input -/
  | msg (cls : String) (text : Str)
deriving Repr, DecidableEq

/-- what `HeadTailLexer.last_elt` is after a call of `handle`: `None`, the token just handled, or what it was -/
inductive LastAfter
  | none
  | token
  | old
deriving Repr, DecidableEq

/-- the effects of one call of `HeadTailLexer.handle(token, orig_value)` (tools/pysym.translate_handle) -/
structure HandleOut where
  /-- a new `HeadTailLexer` instance was stored on the lexer -/
  freshTracker : Bool
  /-- `instance.head` afterwards -/
  head : Option Str
  /-- `instance.last_elt` afterwards -/
  last : LastAfter
  /-- text appended to `last_elt.value.tail` of the previous `last_elt` (`none`: untouched) -/
  oldTail : Option Str
  /-- `token.value.head` if it was assigned -/
  tokHead : Option Str
  /-- `token.value.pos` / `.size` if they were assigned -/
  tokPos : Option (Option Int)
  tokSize : Option (Option Int)
deriving Repr, DecidableEq

/-- the tracked entries of the context `child_context` returns (`none`: key absent), and whether a foreign key of the
parent's context is still there -/
structure CtxOut where
  parents : Option (List Tree)
  newParents : Option (List Tree)
  path : Option (List Int)
  otherKept : Bool

namespace PyPrim

/-- `Decimal(v).normalize()` when `v` is text, the default when it is `None`; `none` = `InvalidOperation` -/
def decOf (v : Option Str) (dflt : Dec) : Option Num :=
  match v with
  | none => some { val := dflt, implicit := true, raw := [] }
  | some s =>
    match Dec.ofLiteral s with
    | some d => some { val := d.normalize, implicit := false, raw := s }
    | none => none

/-- `Fuzzy(term, v)`: the degree -/
def fuzzyNum (v : Option Str) : Option Num := decOf v { coeff := 5, exp := -1 }
/-- `Boost(expr, v)`: the force -/
def boostNum (v : Option Str) : Option Num := decOf v { coeff := 1 }
/-- `Proximity(term, v)`: `int(v)`; `none` = `ValueError` -/
def proximityNum (v : Option Str) : Option Num :=
  match v with
  | none => some { val := { coeff := 1 }, implicit := true, raw := [] }
  | some s =>
    match intOfLiteral s with
    | some n => some { val := { coeff := n }, implicit := false, raw := s }
    | none => none

/-- a number with its display flag (`_implicit_degree` / `implicit_force`) set -/
def mkNum (n : Num) (implicit : Bool) : Num := { n with implicit := implicit }
/-- `Decimal(d).normalize()` applied to a stored force -/
def renorm (n : Num) : Num := { n with val := n.val.normalize }
/-- `s.endswith(x)` / `s.startswith(x)` -/
def endsWith (s x : Str) : Bool := x.isSuffixOf s
def startsWith (s x : Str) : Bool := x.isPrefixOf s

/-- `format(d, "f")` of the Decimal of a `Fuzzy` / `Boost` -/
def formatDecimalF (n : Num) : Str := n.val.render
/-- `str(i)` of the int of a `Proximity` -/
def strInt (n : Num) : Str := n.val.render

end PyPrim

theorem decNum_eq_prim (a : TokV) (dflt : Dec) :
    decNum a dflt = match PyPrim.decOf a.value dflt with
      | some n => .ok n
      | none => .error (numError a) := by
  unfold decNum PyPrim.decOf
  cases a.value with
  | none => rfl
  | some s => simp only []; cases Dec.ofLiteral s <;> rfl

theorem intNum_eq_prim (a : TokV) :
    intNum a = match PyPrim.proximityNum a.value with
      | some n => .ok n
      | none => .error (numError a) := by
  unfold intNum PyPrim.proximityNum
  cases a.value with
  | none => rfl
  | some s => simp only []; cases intOfLiteral s <;> rfl

end Luqum
