/-
  Primitives of the code translator used by the translation of `luqum/check.py`: the three compiled regular
  expressions of `LuceneCheck` applied to a string (only "did it match?" is used), and the sign test
  `math.copysign(1, degree) < 0`. A pattern the table does not know answers `false`: a changed regular expression makes
  the obligations of Props/GenCheck fail.
-/
import Luqum.Lemmas.PyPrim
import Luqum.Model.Check

namespace Luqum.PyPrim

/-- `pattern.search(s) is not None` -/
def reSearch (pattern : String) (s : Str) : Bool :=
  if pattern = "\\s" then s.any isSpace
  else if pattern = "[+/-]" then s.any (fun c => c == '+' || c == '/' || c == '-')
  else false

/-- `pattern.match(s) is not None` (no pattern of `LuceneCheck` is used with `match` any more: fix F8) -/
def reMatch (pattern : String) (s : Str) : Bool := false

/-- `pattern.fullmatch(s) is not None` -/
def reFullmatch (pattern : String) (s : Str) : Bool :=
  if pattern = "^\\w+$" then validFieldName s
  else false

/-- `math.copysign(1, d) < 0`: the sign bit of the Decimal -/
def signNegative (n : Num) : Bool := n.val.neg

end Luqum.PyPrim
