/-
  Luqum.Lemmas.ComplRun — an unfuelled small-step relation `Run` for the LR driver, for ARBITRARY
  tables: shifts, reductions, unit chains as `Run` steps, and the connection to `runLoop`
  ("if the small-step run reaches an accepting configuration, `runLoop` with enough fuel returns the
  value").
-/
import Luqum.Lemmas.ComplDefs

namespace Luqum.Compl
open Luqum
open Luqum.Props.C09 (content contents)

/-- `Run T c toks c' toks'`: the driver goes from configuration `c` with remaining input `toks` to
`c'` with remaining input `toks'` by shifts and reductions -/
inductive Run (T : Tables) : Cfg → List Tok → Cfg → List Tok → Prop
  | refl (c : Cfg) (toks : List Tok) : Run T c toks c toks
  | shift {c c1 c' : Cfg} {t : Tok} {toks toks' : List Tok} :
      step T c (some t) = .shift c1 → Run T c1 toks c' toks' → Run T c (t :: toks) c' toks'
  | reduce {c c1 c' : Cfg} {toks toks' : List Tok} :
      step T c toks.head? = .reduce c1 → Run T c1 toks c' toks' → Run T c toks c' toks'

theorem Run.trans {T : Tables} {c1 c2 c3 : Cfg} {k1 k2 k3 : List Tok}
    (h1 : Run T c1 k1 c2 k2) (h2 : Run T c2 k2 c3 k3) : Run T c1 k1 c3 k3 := by
  induction h1 with
  | refl => exact h2
  | shift hs _ ih => exact .shift hs (ih h2)
  | reduce hs _ ih => exact .reduce hs (ih h2)

/-- a run that reaches an accepting configuration at the end of the input: `runLoop` with enough
fuel returns the accepted value -/
theorem Run.runLoop {T : Tables} {c c' : Cfg} {toks toks' : List Tok} (h : Run T c toks c' toks')
    {v : Val} (hacc : step T c' toks'.head? = .accept v) :
    ∃ fuel, runLoop T fuel c toks none = .ok v := by
  induction h with
  | refl c toks =>
    refine ⟨1, ?_⟩
    rw [runLoop_succ_eq, if_neg (by simp), hacc]
  | shift hs _ ih =>
    obtain ⟨fuel, hf⟩ := ih hacc
    refine ⟨fuel + 1, ?_⟩
    rw [runLoop_succ_eq, if_neg (by simp)]
    simp only [List.head?_cons, hs, List.tail_cons]
    exact hf
  | reduce hs _ ih =>
    obtain ⟨fuel, hf⟩ := ih hacc
    refine ⟨fuel + 1, ?_⟩
    rw [runLoop_succ_eq, if_neg (by simp), hs]
    exact hf

/-! ### table access -/

theorem shiftTo_spec {T : Tables} {s s1 : Nat} {name : String} (h : shiftTo T s name = some s1) :
    ∃ a : Int, T.act? s name = some a ∧ a > 0 ∧ a.toNat = s1 := by
  unfold shiftTo at h
  rw [actF_eq] at h
  split at h
  · rename_i a ha
    split at h
    · rename_i hpos
      cases h
      exact ⟨a, ha, hpos, rfl⟩
    · cases h
  · cases h

theorem redBy_spec {T : Tables} {s : Nat} {name : String} {p : String × List String × String}
    (h : redBy T s name = some p) :
    ∃ a : Int, T.act? s name = some a ∧ a < 0 ∧ T.prods.getD (-a).toNat ("", [], "") = p := by
  unfold redBy at h
  simp only [actF_eq, prodF_eq] at h
  split at h
  · rename_i a ha
    split at h
    · rename_i hneg
      cases h
      exact ⟨a, ha, hneg, rfl⟩
    · cases h
  · cases h

theorem gotoN_spec {T : Tables} {s g : Nat} {nt : String} (h : gotoN T s nt = some g) :
    ∃ gi : Int, T.goto? s nt = some gi ∧ gi.toNat = g := by
  unfold gotoN at h
  rw [gotoF_eq] at h
  cases hg : T.goto? s nt with
  | none => rw [hg] at h; cases h
  | some gi => rw [hg] at h; cases h; exact ⟨gi, rfl, rfl⟩

/-! ### single steps -/

/-- one shift -/
theorem run_shift {T : Tables} {s s1 : Nat} {name : String} (h : shiftTo T s name = some s1)
    (t : Tok) (hk : t.kind.name = name) (ss : List Nat) (vs : List Val) (rest : List Tok) :
    Run T ⟨s :: ss, vs⟩ (t :: rest) ⟨s1 :: s :: ss, t.toVal :: vs⟩ rest := by
  obtain ⟨a, ha, hpos, rfl⟩ := shiftTo_spec h
  refine .shift ?_ (.refl _ _)
  rw [step_eq]
  simp only [List.headD_cons, lookName, hk, ha, if_pos hpos]

/-- one reduction by a production with `n` right-hand-side symbols: `pre` are the `n` states popped
(`cur` on top), `argsRev` the `n` values popped (top first) -/
theorem run_reduce {T : Tables} {s0 cur g n : Nat} {a f : String}
    (h : redTo T s0 cur a f n = some g) {rest : List Tok} (hl : lookName rest.head? = a)
    (pre : List Nat) (hpre : (cur :: pre).length = n) (argsRev : List Val) (hargs : argsRev.length = n)
    {v : Val} (hact : act f argsRev.reverse = .ok v) (ss : List Nat) (vs : List Val) :
    Run T ⟨cur :: pre ++ s0 :: ss, argsRev ++ vs⟩ rest ⟨g :: s0 :: ss, v :: vs⟩ rest := by
  unfold redTo at h
  split at h
  · rename_i p hp
    split at h
    · rename_i hfn
      obtain ⟨hf, hn⟩ := hfn
      obtain ⟨r, hr, hneg, hprod⟩ := redBy_spec hp
      obtain ⟨gi, hgi, rfl⟩ := gotoN_spec h
      refine .reduce ?_ (.refl _ _)
      rw [step_eq]
      simp only [List.cons_append, List.headD_cons, hl, hr, if_neg (show ¬ r > 0 by omega), if_pos hneg,
        hprod]
      unfold reduceBy
      have htake : List.take p.2.1.length (argsRev ++ vs) = argsRev := by
        rw [hn, ← hargs]; simp
      have hdropv : List.drop p.2.1.length (argsRev ++ vs) = vs := by
        rw [hn, ← hargs]; simp
      have hdrops : List.drop p.2.1.length (cur :: (pre ++ s0 :: ss)) = s0 :: ss := by
        rw [hn, ← hpre]
        have : cur :: (pre ++ s0 :: ss) = (cur :: pre) ++ s0 :: ss := rfl
        rw [this]; simp
      rw [htake, hdropv, hdrops]
      rw [if_neg (by simp [hargs, hn]), hf, hact]
      simp only [List.headD_cons, hgi]
    · cases h
  · cases h

/-- `run_reduce` with the arguments of the action in their order -/
theorem run_reduce' {T : Tables} {s0 cur g n : Nat} {a f : String}
    (h : redTo T s0 cur a f n = some g) {rest : List Tok} (hl : lookName rest.head? = a)
    (pre : List Nat) (hpre : (cur :: pre).length = n) (args : List Val) (hargs : args.length = n)
    {v : Val} (hact : act f args = .ok v) (ss : List Nat) (vs : List Val) :
    Run T ⟨cur :: pre ++ s0 :: ss, args.reverse ++ vs⟩ rest ⟨g :: s0 :: ss, v :: vs⟩ rest :=
  run_reduce h hl pre hpre args.reverse (by simpa using hargs) (by simpa using hact) ss vs

/-- unit reductions up to `goto[s0][target]` -/
theorem run_chain {T : Tables} {s0 : Nat} {a target : String} {rest : List Tok}
    (hl : lookName rest.head? = a) (v : Val) (ss : List Nat) (vs : List Val) :
    ∀ (fuel cur : Nat), chainTo T s0 a target fuel cur = true →
      ∃ g, gotoN T s0 target = some g ∧ Run T ⟨cur :: s0 :: ss, v :: vs⟩ rest ⟨g :: s0 :: ss, v :: vs⟩ rest := by
  intro fuel
  induction fuel with
  | zero =>
    intro cur h
    simp only [chainTo, beq_iff_eq] at h
    exact ⟨cur, h, .refl _ _⟩
  | succ fuel ih =>
    intro cur h
    simp only [chainTo, Bool.or_eq_true, beq_iff_eq] at h
    rcases h with h | h
    · exact ⟨cur, h, .refl _ _⟩
    · split at h
      · rename_i p hp
        simp only [Bool.and_eq_true, beq_iff_eq, List.contains_iff_mem] at h
        obtain ⟨⟨hlen, hunit⟩, h⟩ := h
        split at h
        · rename_i g hg
          obtain ⟨g', hg', hrun⟩ := ih g h
          refine ⟨g', hg', Run.trans ?_ hrun⟩
          have hred : redTo T s0 cur a p.2.2 1 = some g := by
            simp [redTo, hp, hlen, hg]
          exact run_reduce hred hl [] rfl [v] rfl (act_unit _ _ hunit) ss vs
        · cases h
      · cases h

/-- shift the terminal `tok`, then unit reductions up to `target` -/
theorem run_leaf {T : Tables} {s : Nat} {tok a target : String} (h : chkLeaf T s tok a target = true)
    (t : Tok) (hk : t.kind.name = tok) {rest : List Tok} (hl : lookName rest.head? = a)
    (ss : List Nat) (vs : List Val) :
    ∃ g, gotoN T s target = some g ∧
      Run T ⟨s :: ss, vs⟩ (t :: rest) ⟨g :: s :: ss, t.toVal :: vs⟩ rest := by
  simp only [chkLeaf, Option.any_eq_true] at h
  obtain ⟨s1, hs1, hc⟩ := h
  obtain ⟨g, hg, hrun⟩ := run_chain hl t.toVal ss vs _ _ hc
  exact ⟨g, hg, (run_shift hs1 t hk ss vs rest).trans hrun⟩

/-! ### token values -/

/-- the layout a token brings -/
def tokLay (t : Tok) : Lay :=
  { head := t.head, tail := t.tail, pos := some t.pos, size := some t.text.length }

theorem toVal_term {t : Tok} (h : t.kind = .term) : t.toVal = .item (.term .word t.text (tokLay t)) := by
  simp [Tok.toVal, h, tokLay]

theorem toVal_phrase {t : Tok} (h : t.kind = .phrase) :
    t.toVal = .item (.term .phrase t.text (tokLay t)) := by
  simp [Tok.toVal, h, tokLay]

theorem toVal_regex {t : Tok} (h : t.kind = .regex) :
    t.toVal = .item (.term .regex t.text (tokLay t)) := by
  simp [Tok.toVal, h, tokLay]

/-- the kinds whose token value is the text -/
def plainKind : TokK → Bool
  | .term | .phrase | .regex | .approx | .boost => false
  | _ => true

theorem toVal_plain {t : Tok} {k : TokK} (h : t.kind = k) (hp : plainKind k = true) :
    t.toVal = .tok k { value := some t.text, lay := tokLay t } := by
  subst h
  obtain ⟨kind, text, pos, head, tail⟩ := t
  cases kind <;> simp [plainKind] at hp <;> rfl

theorem toVal_approx {t : Tok} {src : Str} (h : t.kind = .approx) (hx : t.text = '~' :: src) :
    t.toVal = .tok .approx { value := srcValue src, lay := tokLay t } := by
  obtain ⟨kind, text, pos, head, tail⟩ := t
  simp only at h hx
  subst h hx
  cases src <;> simp [Tok.toVal, srcValue, tokLay]

theorem toVal_boost {t : Tok} {src : Str} (h : t.kind = .boost) (hx : t.text = '^' :: src) :
    t.toVal = .tok .boost { value := srcValue src, lay := tokLay t } := by
  obtain ⟨kind, text, pos, head, tail⟩ := t
  simp only at h hx
  subst h hx
  cases src <;> simp [Tok.toVal, srcValue, tokLay]

theorem tokKey_eq {t : Tok} {k : TokK} {x : Str} (h : tokKey t = (k, x)) : t.kind = k ∧ t.text = x := by
  simpa [tokKey] using h

/-! ### eventualities -/

/-- `Ev T s nt a toks c`: from any configuration with top state `s`, reading `toks` followed by a
look-ahead named `a`, the driver reaches `goto[s][nt]` pushed on the same stack, with an item of
content `c`, without consuming what follows `toks` -/
def Ev (T : Tables) (s : Nat) (nt a : String) (toks : List Tok) (c : Tree) : Prop :=
  ∀ (ss : List Nat) (vs : List Val) (rest : List Tok), lookName rest.head? = a →
    ∃ g t', gotoN T s nt = some g ∧ content t' = c ∧
      Run T ⟨s :: ss, vs⟩ (toks ++ rest) ⟨g :: s :: ss, .item t' :: vs⟩ rest

end Luqum.Compl
