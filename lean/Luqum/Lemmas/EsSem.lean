/-
  Luqum.Lemmas.EsSem — definitions of C05: documents with nested objects, the meaning of the JSON the
  builder returns (`evalJ`), of the E-tree (`evalE`), and of a luqum tree (`denote`).
-/
import Luqum.Lemmas.EsDefs
import Luqum.Lemmas.EsJson

namespace Luqum.Lemmas.Es
open Luqum

/-! ### documents -/

/-- a document: a finite tree of nested objects, each labelled by the nested path it instantiates,
as the list of names (`author.book` is `["author", "book"]`); the root document has path `[]` -/
inductive Obj where
  | mk (path : List Str) (kids : List Obj)
deriving Repr, Inhabited

def Obj.path : Obj → List Str | .mk p _ => p
def Obj.kids : Obj → List Obj | .mk _ k => k

mutual
/-- the proper descendants of an object (document order) -/
def Obj.desc : Obj → List Obj
  | .mk _ kids => Obj.descL kids
def Obj.descL : List Obj → List Obj
  | [] => []
  | k :: r => k :: (k.desc ++ Obj.descL r)
end

/-- `f` evaluated "at the nested path `p`" from the object `o`: at `o` itself when `o` instantiates
`p`, else at some descendant of `o` that instantiates `p` -/
def atPath (p : Str) (o : Obj) (f : Obj → Bool) : Bool :=
  if o.path = splitOnChar '.' p then f o
  else o.desc.any fun o' => o'.path == splitOnChar '.' p && f o'

/-- `xs` is a proper prefix of `ys` -/
def properPrefix (xs ys : List Str) : Bool := xs.isPrefixOf ys && xs.length < ys.length

mutual
/-- well-formed documents w.r.t. the declared nested containers `decl` (lists of names): the path of
a child properly extends the path of its parent, and no declared container lies strictly between
the two (an object at `a.b` sits inside an object at `a` when `a` is a declared container) -/
def Obj.wf (decl : List (List Str)) : Obj → Bool
  | .mk p kids => Obj.wfL decl p kids
def Obj.wfL (decl : List (List Str)) (p : List Str) : List Obj → Bool
  | [] => true
  | k :: r =>
    properPrefix p k.path && decl.all (fun d => !(properPrefix p d && properPrefix d k.path)) &&
    k.wf decl && Obj.wfL decl p r
end

/-- the declared nested containers of a configuration, as lists of names -/
def EsCfg.containers (c : EsCfg) : List (List Str) := c.nestedPrefixes.map (splitOnChar '.')

/-- a well-formed document of a configuration: a root (path `[]`) over well-formed nested objects -/
def DocWF (c : EsCfg) (doc : Obj) : Bool := doc.path.isEmpty && doc.wf (EsCfg.containers c)

/-! ### atoms -/

/-- the atom of a leaf clause: the item without `_name` and `zero_terms_query` (they do not take
part in the meaning) -/
def norm (i : EItem) : EItem := { i with zeroTerms := "none".toList, name := none }

/-! ### meaning of the E-tree -/

mutual
/-- meaning of an E-tree at an object; `atom o i` is the truth of the (normalised) leaf clause `i` at
the object `o` -/
def evalE (atom : Obj → EItem → Bool) : ETree → Obj → Bool
  | .item i, o => atom o (norm i)
  | .nested p inner _, o => atPath p o fun o' => evalE atom inner o'
  | .op .must items, o => evalAll atom items o
  | .op .mustNot items, o => !evalAny atom items o
  | .op .should items, o => items.isEmpty || evalAny atom items o
  | .op .boolOp items, o =>
    mustPart atom items o && !mustNotPart atom items o &&
      (hasMust items || !hasShould items || shouldPart atom items o)
def evalAll (atom : Obj → EItem → Bool) : List ETree → Obj → Bool
  | [], _ => true
  | x :: r, o => evalE atom x o && evalAll atom r o
def evalAny (atom : Obj → EItem → Bool) : List ETree → Obj → Bool
  | [], _ => false
  | x :: r, o => evalE atom x o || evalAny atom r o
/-- all the clauses that `EBoolOperation.json` puts under `must` -/
def mustPart (atom : Obj → EItem → Bool) : List ETree → Obj → Bool
  | [], _ => true
  | .op .must sub :: r, o => evalAll atom sub o && mustPart atom r o
  | _ :: r, o => mustPart atom r o
/-- some clause of those it puts under `must_not` -/
def mustNotPart (atom : Obj → EItem → Bool) : List ETree → Obj → Bool
  | [], _ => false
  | .op .mustNot sub :: r, o => evalAny atom sub o || mustNotPart atom r o
  | _ :: r, o => mustNotPart atom r o
/-- some clause of those it puts under `should` -/
def shouldPart (atom : Obj → EItem → Bool) : List ETree → Obj → Bool
  | [], _ => false
  | .op .must _ :: r, o => shouldPart atom r o
  | .op .mustNot _ :: r, o => shouldPart atom r o
  | x :: r, o => evalE atom x o || shouldPart atom r o
/-- the `must` list is not empty -/
def hasMust : List ETree → Bool
  | [] => false
  | .op .must sub :: r => !sub.isEmpty || hasMust r
  | _ :: r => hasMust r
/-- the `should` list is not empty -/
def hasShould : List ETree → Bool
  | [] => false
  | .op .must _ :: r => hasShould r
  | .op .mustNot _ :: r => hasShould r
  | _ :: _ => true
end

/-! ### meaning of the JSON -/

def JVal.arrD : JVal → List JVal
  | .arr xs => xs
  | _ => []

/-- the `must` list of a `bool` body is absent or empty -/
def mustEmpty (body : JObj) : Bool :=
  match jget body "must".toList with
  | some (.arr (_ :: _)) => false
  | _ => true

def pathOf (body : JObj) : Str :=
  match jget body "path".toList with
  | some (.str p) => p
  | _ => []

mutual
/-- meaning of a query in the Elasticsearch DSL, as far as the builder uses it:
* `{"bool": {"must": […], "should": […], "must_not": […]}}`: all `must`, no `must_not`, and — when
  `must` is empty and `should` is not — some `should`;
* `{"nested": {"path": p, "query": q}}`: `q` at the nested path `p` (`atPath`);
* any other clause is an atom, whose truth at an object is given by `truth`. -/
def evalJ (truth : Obj → JVal → Bool) : JVal → Obj → Bool
  | .obj ((k, .obj body) :: rest), o =>
    if k = boolKey then evalBoolBody truth (mustEmpty body) body o
    else if k = nestedKey then evalNestedBody truth (pathOf body) body o
    else truth o (.obj ((k, .obj body) :: rest))
  | j, o => truth o j
/-- conjunction over the keys of a `bool` body -/
def evalBoolBody (truth : Obj → JVal → Bool) (noMust : Bool) : List (Str × JVal) → Obj → Bool
  | [], _ => true
  | (k, .arr xs) :: r, o =>
    (if k = "must".toList then evalJAll truth xs o
     else if k = "must_not".toList then !evalJAny truth xs o
     else if k = "should".toList then !(noMust && !xs.isEmpty) || evalJAny truth xs o
     else true) && evalBoolBody truth noMust r o
  | _ :: r, o => evalBoolBody truth noMust r o
/-- the `query` of a `nested` body at the nested path -/
def evalNestedBody (truth : Obj → JVal → Bool) (p : Str) : List (Str × JVal) → Obj → Bool
  | [], _ => false
  | (k, v) :: r, o =>
    if k = "query".toList then atPath p o fun o' => evalJ truth v o'
    else evalNestedBody truth p r o
def evalJAll (truth : Obj → JVal → Bool) : List JVal → Obj → Bool
  | [], _ => true
  | x :: r, o => evalJ truth x o && evalJAll truth r o
def evalJAny (truth : Obj → JVal → Bool) : List JVal → Obj → Bool
  | [], _ => false
  | x :: r, o => evalJ truth x o || evalJAny truth r o
end

/-- the truth of leaf clauses does not depend on `_name` and `zero_terms_query` -/
def Insens (c : EsCfg) (truth : Obj → JVal → Bool) : Prop :=
  ∀ (o : Obj) (i : EItem), truth o (i.json c) = truth o ((norm i).json c)

/-! ### meaning of the luqum tree -/

/-- `_is_analyzed` from the analysed marker of the context -/
def isAn (c : EsCfg) (an : Option Bool) : Bool :=
  match an with
  | some b => b
  | none => !c.notAnalyzed.contains c.defaultField

/-- the nested container a field name reaches, given the accumulated prefix: the longest
`prefix ++ names[:k]` (`k ≥ 1`) that is a declared container -/
def nestedCand (c : EsCfg) (fp : Option (List Str)) (n : Str) : Option Str :=
  let names := splitOnChar '.' n
  let base := fp.getD []
  ((List.range names.length).map fun i => joinDot (base ++ names.take (names.length - i))).find?
    (fun p => c.nestedPrefixes.contains p)

def fieldFp (fp : Option (List Str)) (n : Str) : Option (List Str) := some (fp.getD [] ++ splitOnChar '.' n)
def fieldAn (c : EsCfg) (fp : Option (List Str)) (n : Str) : Option Bool :=
  some (!c.notAnalyzed.contains (joinDot (fp.getD [] ++ splitOnChar '.' n)))

def boostI (d : Dec) (i : EItem) : EItem := { i with boost := some d }
def fuzzyI (d : Dec) (i : EItem) : EItem := { i with fuzzy := some d, method0 := "fuzzy".toList }
def slopI (d : Dec) (i : EItem) : EItem := if i.kind == .phrase then { i with slop := some d } else i

/-- the clause of a leaf-like expression — a term or a range, possibly inside groups, fields that
reach no nested container, boosts, fuzzy and proximity operators — for the analysed marker `an` and
the field prefix `fp`; `none` for every other expression -/
def leafItem (c : EsCfg) (an : Option Bool) (fp : Option (List Str)) : Tree → Option EItem
  | .term .word v _ =>
    some { kind := .word, q := some v,
           method0 := if isAn c an then (if c.matchWordAsPhrase then "match_phrase".toList else "match".toList)
                      else "term".toList,
           fields := fp.getD [c.defaultField] }
  | .term .phrase v _ =>
    if isAn c an then
      some { kind := .phrase, q := some (((collapseSpaces v).drop 1).dropLast),
             method0 := "match_phrase".toList, fields := fp.getD [c.defaultField] }
    else
      some { kind := .word, q := some ((v.drop 1).dropLast), method0 := "term".toList,
             fields := fp.getD [c.defaultField] }
  | .term .regex _ _ => none
  | .range lo hi il ih _ =>
    match termValue? lo, termValue? hi with
    | some lv, some hv =>
      some { kind := .range, method0 := "range".toList, fields := fp.getD [c.defaultField],
             rangeKeys := rangeKeysOf (if il then "gte".toList else "gt".toList)
                                      (if ih then "lte".toList else "lt".toList) lv hv }
    | _, _ => none
  | .group _ e _ => leafItem c an fp e
  | .orange _ e _ _ => leafItem c an fp e
  | .field n e _ =>
    if (nestedCand c fp n).isSome then none else leafItem c (fieldAn c fp n) (fieldFp fp n) e
  | .boost e n _ => (leafItem c an fp e).map (boostI n.val)
  | .approx .fuzzy e n _ => (leafItem c an fp e).map (fuzzyI n.val)
  | .approx .proximity e n _ =>
    (leafItem c an fp e).map (if isAn c an then slopI n.val else fuzzyI n.val)
  | .unary .. => none
  | .op .. => none
  | .none _ => none

def leafAtom (atom : Obj → EItem → Bool) (i : Option EItem) (o : Obj) : Bool :=
  match i with
  | some i => atom o (norm i)
  | none => false

mutual
/-- meaning of a luqum tree at an object: AND = all, OR = any, the implicit operation = the default
operator, `NOT` / `-` = complement, `+`, groups, boosts, fuzzy, proximity are transparent (but a boost
/ fuzzy / proximity applied to a leaf-like expression is part of its atom), a field that reaches a
nested container `p` means "at the nested path `p`", a Lucene-boolean operation: `+x` required,
`-x` / `NOT x` prohibited, the others optional but one of them required when nothing is required -/
def denote (c : EsCfg) (atom : Obj → EItem → Bool) (an : Option Bool) (fp : Option (List Str)) :
    Tree → Obj → Bool
  | .term k v l, o => leafAtom atom (leafItem c an fp (.term k v l)) o
  | .range lo hi il ih l, o => leafAtom atom (leafItem c an fp (.range lo hi il ih l)) o
  | .group _ e _, o => denote c atom an fp e o
  | .orange _ e _ _, o => denote c atom an fp e o
  | .field n e _, o =>
    match nestedCand c fp n with
    | some p => atPath p o fun o' => denote c atom (fieldAn c fp n) (fieldFp fp n) e o'
    | none => denote c atom (fieldAn c fp n) (fieldFp fp n) e o
  | .boost e n l, o =>
    match leafItem c an fp (.boost e n l) with
    | some i => atom o (norm i)
    | none => denote c atom an fp e o
  | .approx k e n l, o =>
    match leafItem c an fp (.approx k e n l) with
    | some i => atom o (norm i)
    | none => denote c atom an fp e o
  | .unary .plus e _, o => denote c atom an fp e o
  | .unary .not e _, o => !denote c atom an fp e o
  | .unary .prohibit e _, o => !denote c atom an fp e o
  | .op .and xs _, o => denoteAll c atom an fp xs o
  | .op .or xs _, o => denoteAny c atom an fp xs o
  | .op .unk xs _, o => if c.defaultMust then denoteAll c atom an fp xs o else denoteAny c atom an fp xs o
  | .op .bool xs _, o =>
    reqAll c atom an fp xs o && !prohAny c atom an fp xs o &&
      (hasReq xs || !hasOpt xs || optAny c atom an fp xs o)
  | .none _, _ => true
def denoteAll (c : EsCfg) (atom : Obj → EItem → Bool) (an : Option Bool) (fp : Option (List Str)) :
    List Tree → Obj → Bool
  | [], _ => true
  | x :: r, o => denote c atom an fp x o && denoteAll c atom an fp r o
def denoteAny (c : EsCfg) (atom : Obj → EItem → Bool) (an : Option Bool) (fp : Option (List Str)) :
    List Tree → Obj → Bool
  | [], _ => false
  | x :: r, o => denote c atom an fp x o || denoteAny c atom an fp r o
/-- all the required operands (`+x`) -/
def reqAll (c : EsCfg) (atom : Obj → EItem → Bool) (an : Option Bool) (fp : Option (List Str)) :
    List Tree → Obj → Bool
  | [], _ => true
  | .unary .plus e _ :: r, o => denote c atom an fp e o && reqAll c atom an fp r o
  | _ :: r, o => reqAll c atom an fp r o
/-- some prohibited operand (`-x`, `NOT x`) -/
def prohAny (c : EsCfg) (atom : Obj → EItem → Bool) (an : Option Bool) (fp : Option (List Str)) :
    List Tree → Obj → Bool
  | [], _ => false
  | .unary .not e _ :: r, o => denote c atom an fp e o || prohAny c atom an fp r o
  | .unary .prohibit e _ :: r, o => denote c atom an fp e o || prohAny c atom an fp r o
  | _ :: r, o => prohAny c atom an fp r o
/-- some optional operand -/
def optAny (c : EsCfg) (atom : Obj → EItem → Bool) (an : Option Bool) (fp : Option (List Str)) :
    List Tree → Obj → Bool
  | [], _ => false
  | .unary _ _ _ :: r, o => optAny c atom an fp r o
  | x :: r, o => denote c atom an fp x o || optAny c atom an fp r o
/-- there is a required operand -/
def hasReq : List Tree → Bool
  | [] => false
  | .unary .plus _ _ :: _ => true
  | _ :: r => hasReq r
/-- there is an optional operand -/
def hasOpt : List Tree → Bool
  | [] => false
  | .unary _ _ _ :: r => hasOpt r
  | _ :: _ => true
end

/-! ### the constructs of the property -/

/-- the core of an operand: below groups, fields, boosts, fuzzy / proximity operators -/
def core : Tree → Tree
  | .group _ e _ => core e
  | .field _ e _ => core e
  | .boost e _ _ => core e
  | .approx _ e _ _ => core e
  | t => t

/-- the E-node of `t` would be an `EMust` / `EMustNot`, which `EBoolOperation.json` merges into its
own `must` / `must_not` lists (known finding KF3) -/
def mergedCore (c : EsCfg) (t : Tree) : Bool :=
  match core t with
  | .op k _ _ => kindAnd c k
  | .unary .. => true
  | _ => false

/-- an acceptable operand of a Lucene-boolean operation: `+x`, `-x`, `NOT x`, or an expression whose
core is no conjunction and no unary operator; and no boolean operation directly (known finding KF4:
it would be flattened into its parent) -/
def boolOperandOK (c : EsCfg) : Tree → Bool
  | .unary .. => true
  | .op .bool _ _ => false
  | t => !mergedCore c t

mutual
/-- the constructs for which the meaning is claimed: `Supported`, and the operands of every
Lucene-boolean operation are acceptable -/
def SupportedSem (c : EsCfg) : Tree → Bool
  | .term .word _ _ => true
  | .term .phrase _ _ => true
  | .term .regex _ _ => false
  | .range lo hi _ _ _ => (termValue? lo).isSome && (termValue? hi).isSome
  | .approx _ e _ _ => SupportedSem c e
  | .boost e _ _ => SupportedSem c e
  | .group _ e _ => SupportedSem c e
  | .field _ e _ => SupportedSem c e
  | .unary _ e _ => SupportedSem c e
  | .op k xs _ =>
    decide (2 ≤ xs.length) && SupportedSemL c xs && (k != .bool || xs.all (boolOperandOK c))
  | .orange .. => false
  | .none _ => false
def SupportedSemL (c : EsCfg) : List Tree → Bool
  | [] => true
  | x :: r => SupportedSem c x && SupportedSemL c r
end

end Luqum.Lemmas.Es
