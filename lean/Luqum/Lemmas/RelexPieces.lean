/-
  Luqum.Lemmas.RelexPieces — from tokens back to pieces: `piecesOf`, the round trip
  `s = spell (piecesOf (lex s).1) (trailOf (lex s).1)`, and adjacent tokens without separator.
-/
import Luqum.Lemmas.RelexDecomp

namespace Luqum

/-- pieces of a token list whose first separator is `sep`: every later separator is the tail of the
token before -/
def piecesAux (sep : Str) : List Tok → List Piece
  | [] => []
  | t :: ts => { sep := sep, kind := t.kind, text := t.text } :: piecesAux t.tail ts

/-- the pieces of a token list as `HeadTailLexer` gives it: the first separator is the head of the
first token, every later separator is the tail of the token before -/
def piecesOf : List Tok → List Piece
  | [] => []
  | t :: ts => { sep := t.head, kind := t.kind, text := t.text } :: piecesAux t.tail ts

/-- the tail of the last token -/
def trailOf (toks : List Tok) : Str :=
  match toks.getLast? with
  | some t => t.tail
  | none => []

theorem piecesAux_toksOf (trail : Str) : ∀ (ps : List Piece) (pos : Nat),
    piecesAux (nextSep ps trail) (toksOf pos false ps trail) = ps
  | [], _ => rfl
  | p :: ps, pos => by
    simp only [toksOf, piecesAux]
    rw [piecesAux_toksOf trail ps]
    rfl

theorem piecesOf_toksOf (ps : List Piece) (trail : Str) : piecesOf (toksOf 0 true ps trail) = ps := by
  cases ps with
  | nil => rfl
  | cons p ps =>
    simp only [toksOf, piecesOf, if_true]
    rw [piecesAux_toksOf trail ps]

theorem trailOf_toksOf (trail : Str) : ∀ (ps : List Piece) (pos : Nat) (first : Bool), ps ≠ [] →
    trailOf (toksOf pos first ps trail) = trail
  | [], _, _, h => absurd rfl h
  | [p], _, _, _ => by simp [toksOf, trailOf, nextSep]
  | p :: q :: ps, pos, first, _ => by
    have := trailOf_toksOf trail (q :: ps) (pos + p.sep.length + p.text.length) false (by simp)
    simp only [toksOf, trailOf, List.getLast?_cons_cons] at this ⊢
    exact this

theorem piecesOf_keys (toks : List Tok) : (piecesOf toks).map Piece.key = toks.map tokKey := by
  have aux : ∀ (ts : List Tok) (sep : Str), (piecesAux sep ts).map Piece.key = ts.map tokKey := by
    intro ts
    induction ts with
    | nil => intro _; rfl
    | cons t ts ih => intro sep; simp [piecesAux, Piece.key, tokKey, ih]
  cases toks with
  | nil => rfl
  | cons t ts => simp [piecesOf, Piece.key, tokKey, aux]

/-- **round trip**: an input without illegal character (and not blank) is the spelling of the
pieces of its tokens, and these satisfy the hypotheses of the spelling theorem -/
theorem lex_roundtrip (s : Str) (h : (lex s).2 = none) (hne : (lex s).1 ≠ []) :
    s = spell (piecesOf (lex s).1) (trailOf (lex s).1) ∧
      PiecesOK (piecesOf (lex s).1) (trailOf (lex s).1) := by
  obtain ⟨ps, trail, hs, hok⟩ := lex_decomp s h
  have hl := lex_spell ps trail hok
  rw [← hs] at hl
  rw [hl] at hne ⊢
  simp only at hne ⊢
  have hps : ps ≠ [] := by rintro rfl; exact hne rfl
  rw [piecesOf_toksOf, trailOf_toksOf trail ps 0 true hps]
  exact ⟨hs, hok⟩

/-! ### adjacent tokens -/

theorem startsDD_append {a b : Str} (h : startsDD a = true) : startsDD (a ++ b) = true := by
  obtain ⟨m1, m2, r, rfl, hm⟩ := startsDD_shape h
  simpa [startsDD] using hm

/-- `followOK` only looks at a prefix: a shorter (non empty) following text is at least as good -/
theorem followOK_prefix {k : TokK} {x x₂ r : Str} (hx : x₂ ≠ [])
    (h : followOK k x (x₂ ++ r) = true) : followOK k x x₂ = true := by
  cases x₂ with
  | nil => exact absurd rfl hx
  | cons c r' =>
    have hterm : termStops x.reverse (c :: r' ++ r) = true → termStops x.reverse (c :: r') = true := by
      simp only [List.cons_append, termStops, Bool.and_eq_true, Bool.not_eq_true', bne_iff_ne, ne_eq,
        Bool.and_eq_false_iff]
      rintro ⟨h1, h2⟩
      refine ⟨h1, ?_⟩
      rcases h2 with h2 | h2
      · exact Or.inl h2
      · right
        cases hs : startsDD r' with
        | false => rfl
        | true => rw [startsDD_append hs] at h2; cases h2
    cases k <;> first | exact hterm h | rfl | exact h

theorem chainOK_split {trail : Str} : ∀ (ps₁ : List Piece) (p q : Piece) (ps₂ : List Piece),
    chainOK (ps₁ ++ p :: q :: ps₂) trail = true →
    followOK p.kind p.text (q.sep ++ q.text ++ spell ps₂ trail) = true
  | [], p, q, ps₂, h => by
    simp only [List.nil_append, chainOK, spell, Bool.and_eq_true] at h
    exact h.1
  | a :: ps₁, p, q, ps₂, h => by
    simp only [List.cons_append, chainOK, Bool.and_eq_true] at h
    exact chainOK_split ps₁ p q ps₂ h.2

theorem toksOf_split (trail : Str) : ∀ (l₁ : List Tok) (t₁ t₂ : Tok) (l₂ : List Tok) (ps : List Piece)
    (pos : Nat) (first : Bool), toksOf pos first ps trail = l₁ ++ t₁ :: t₂ :: l₂ →
    ∃ ps₁ p q ps₂, ps = ps₁ ++ p :: q :: ps₂ ∧ t₁.kind = p.kind ∧ t₁.text = p.text ∧
      t₁.tail = q.sep ∧ t₂.kind = q.kind ∧ t₂.text = q.text
  | [], t₁, t₂, l₂, ps, pos, first, h => by
    match ps, h with
    | p :: q :: ps₂, h =>
      simp only [toksOf, List.nil_append, List.cons.injEq] at h
      obtain ⟨rfl, rfl, _⟩ := h
      exact ⟨[], p, q, ps₂, rfl, rfl, rfl, rfl, rfl, rfl⟩
    | [], h => simp [toksOf] at h
    | [p], h => simp [toksOf] at h
  | a :: l₁, t₁, t₂, l₂, ps, pos, first, h => by
    match ps, h with
    | p :: ps', h =>
      simp only [toksOf, List.cons_append, List.cons.injEq] at h
      obtain ⟨ps₁, p', q, ps₂, rfl, h'⟩ := toksOf_split trail l₁ t₁ t₂ l₂ ps' _ _ h.2
      exact ⟨p :: ps₁, p', q, ps₂, rfl, h'⟩
    | [], h => simp [toksOf] at h

/-- **(b) adjacent tokens of an input (without illegal character) that are not separated satisfy
`glueOK`** -/
theorem lex_adjacent_glueOK (s : Str) (h : (lex s).2 = none) (l₁ : List Tok) (t₁ t₂ : Tok)
    (l₂ : List Tok) (hsplit : (lex s).1 = l₁ ++ t₁ :: t₂ :: l₂) (htail : t₁.tail = []) :
    glueOK t₁.kind t₁.text t₂.kind t₂.text = true := by
  obtain ⟨ps, trail, hs, hok⟩ := lex_decomp s h
  have hl := lex_spell ps trail hok
  rw [← hs] at hl
  rw [hl] at hsplit
  obtain ⟨ps₁, p, q, ps₂, rfl, e1, e2, e3, e4, e5⟩ := toksOf_split trail l₁ t₁ t₂ l₂ ps 0 true hsplit
  have hf := chainOK_split ps₁ p q ps₂ hok.chain
  rw [← e3, htail, List.nil_append] at hf
  have hq : q.text ≠ [] := by
    obtain ⟨c, xs, hx, _⟩ := validTok_cons (hok.valid q (by simp))
    rw [hx]; simp
  unfold glueOK
  rw [e1, e2, e5]
  exact followOK_prefix hq hf

end Luqum
