/-
  Luqum.Lemmas.CertDefs — definitions for property C03 (precedence shape of the parse tree):
  the canonical-form predicate on trees, the abstract domain of *shapes* (bit masks), the abstract
  transfer of the semantic actions, the certificate format and its checker `certOK`.

  The certificate is produced by `tools_absint.py` (an abstract interpretation of the LALR tables);
  nothing about that tool is trusted: `certOK` is proved sound for arbitrary tables and certificates
  in Luqum.Lemmas.CertRun.
-/
import Luqum.Model.Parser

namespace Luqum

/-! ### canonical form -/

def isOp' : Tree → Bool
  | .op .. => true
  | _ => false

def isOpK (k : OpK) : Tree → Bool
  | .op k' _ _ => k' == k
  | _ => false

def isUnary : Tree → Bool
  | .unary .. => true
  | _ => false

def isField : Tree → Bool
  | .field .. => true
  | _ => false

def isWord : Tree → Bool
  | .term .word _ _ => true
  | _ => false

def isPhrase : Tree → Bool
  | .term .phrase _ _ => true
  | _ => false

/-- a `Word` or a `Phrase` -/
def isWP : Tree → Bool
  | .term .word _ _ => true
  | .term .phrase _ _ => true
  | _ => false

/-- what a range bound can be: a word, a phrase, or the prohibition of one -/
def isBound : Tree → Bool
  | .term .word _ _ => true
  | .term .phrase _ _ => true
  | .unary .prohibit e _ => isWP e
  | _ => false

/-- what an operation of class `k` accepts as a direct operand -/
def operandOK (k : OpK) (x : Tree) : Bool :=
  match k with
  | .unk => !isOpK .unk x
  | .or => !isOpK .unk x && !isOpK .or x
  | .and => !isOp' x
  | .bool => false

mutual
/-- canonical form; the flag says whether the node is the direct child of a `SearchField` (where,
and only where, a parenthesis is a `FieldGroup`) -/
def CanonAt : Bool → Tree → Bool
  | _, .term .. => true
  | _, .none _ => false
  | _, .op k xs _ => k != .bool && decide (2 ≤ xs.length) && CanonsAt xs && xs.all (operandOK k)
  | _, .unary _ e _ => CanonAt false e && !isOp' e
  | _, .field _ e _ => CanonAt true e && !isOp' e
  | uf, .group k e _ => ((k == .fieldGroup) == uf) && CanonAt false e
  | _, .boost e _ _ => CanonAt false e && !isOp' e && !isUnary e && !isField e
  | _, .approx .fuzzy e _ _ => isWord e
  | _, .approx .proximity e _ _ => isPhrase e
  | _, .range lo hi _ _ _ => isBound lo && isBound hi
  | _, .orange _ e _ _ => isWP e
def CanonsAt : List Tree → Bool
  | [] => true
  | x :: r => CanonAt false x && CanonsAt r
end

/-! ### shapes -/

/-- shape number of a token kind -/
def tokIdx : TokK → Nat
  | .term => 0 | .phrase => 1 | .regex => 2 | .approx => 3 | .boost => 4 | .minus => 5 | .plus => 6
  | .column => 7 | .lparen => 8 | .rparen => 9 | .lbracket => 10 | .rbracket => 11 | .lessthan => 12
  | .greaterthan => 13 | .andOp => 14 | .orOp => 15 | .not => 16 | .to => 17

def shWord := 18
def shPhrase := 19
def shRegex := 20
/-- `Prohibit` of a word or phrase -/
def shNeg := 21
/-- group, range, fuzzy, proximity, from, to -/
def shAtomic := 22
/-- any other `Plus` / `Not` / `Prohibit` -/
def shPre := 23
def shFld := 24
def shBst := 25
def shAnd := 26
def shOr := 27
def shUnk := 28
/-- `NoneItem`, `BoolOperation`: never built by the parser -/
def shJunk := 29

/-- names of the shapes by number (as used by `tools_absint.py`) -/
def shapeNames : List String :=
  ["tok:TERM", "tok:PHRASE", "tok:REGEX", "tok:APPROX", "tok:BOOST", "tok:MINUS", "tok:PLUS",
   "tok:COLUMN", "tok:LPAREN", "tok:RPAREN", "tok:LBRACKET", "tok:RBRACKET", "tok:LESSTHAN",
   "tok:GREATERTHAN", "tok:AND_OP", "tok:OR_OP", "tok:NOT", "tok:TO",
   "word", "phrase", "regex", "negterm", "atomic", "pre", "fld", "bst", "and", "or", "unk"]

/-- shape of an item, from the tree alone -/
def shapeOfTree : Tree → Nat
  | .term .word _ _ => shWord
  | .term .phrase _ _ => shPhrase
  | .term .regex _ _ => shRegex
  | .unary k e _ => if k == .prohibit && isWP e then shNeg else shPre
  | .field .. => shFld
  | .boost .. => shBst
  | .op .and _ _ => shAnd
  | .op .or _ _ => shOr
  | .op .unk _ _ => shUnk
  | .op .bool _ _ => shJunk
  | .none _ => shJunk
  | .group .. => shAtomic
  | .range .. => shAtomic
  | .approx .. => shAtomic
  | .orange .. => shAtomic

def shapeOf : Val → Nat
  | .tok k _ => tokIdx k
  | .item t => shapeOfTree t

/-- the invariant on a single stack value -/
def ValOK : Val → Prop
  | .tok .. => True
  | .item t => CanonAt false t = true

/-- `v` is fine and its shape belongs to the set `m` -/
def HasShape (v : Val) (m : Nat) : Prop := ValOK v ∧ m.testBit (shapeOf v) = true

def HasShapes : List Val → List Nat → Prop
  | [], [] => True
  | v :: vs, m :: ms => HasShape v m ∧ HasShapes vs ms
  | _, _ => False

/-! ### sets of shapes as bit masks -/

def bit (i : Nat) : Nat := 1 <<< i
def sub (a b : Nat) : Bool := (a &&& b) == a
def meets (a b : Nat) : Bool := (a &&& b) != 0

def mWP : Nat := bit shWord ||| bit shPhrase
def mOps : Nat := bit shAnd ||| bit shOr ||| bit shUnk
/-- the shapes of items (as opposed to token values) -/
def mItems : Nat :=
  bit shWord ||| bit shPhrase ||| bit shRegex ||| bit shNeg ||| bit shAtomic ||| bit shPre |||
  bit shFld ||| bit shBst ||| bit shAnd ||| bit shOr ||| bit shUnk

/-- the semantic actions, as far as the shape of their result is concerned -/
inductive ActK
  | or | and | implicit | plus | minus | not | grouping | range | negterm | lessthan | greaterthan
  | field | proximity | fuzzy | boosting | toTerm
  /-- one-symbol productions that hand their value on -/
  | pass
  | other
deriving DecidableEq, Repr

/-- classification of a production by the name of its action and the number of its symbols -/
def actK (f : String) (n : Nat) : ActK :=
  match f, n with
  | "p_expression_or", 3 => .or
  | "p_expression_and", 3 => .and
  | "p_expression_implicit", 2 => .implicit
  | "p_expression_plus", 2 => .plus
  | "p_expression_minus", 2 => .minus
  | "p_expression_not", 2 => .not
  | "p_grouping", 3 => .grouping
  | "p_range", 5 => .range
  | "p_possibly_negative_term", 2 => .negterm
  | "p_lessthan", 2 => .lessthan
  | "p_greaterthan", 2 => .greaterthan
  | "p_field_search", 3 => .field
  | "p_proximity", 2 => .proximity
  | "p_fuzzy", 2 => .fuzzy
  | "p_boosting", 2 => .boosting
  | "p_to_as_term", 1 => .toTerm
  | _, 1 => .pass
  | _, _ => .other

/-- every member of the argument shape sets is acceptable to the action -/
def admK (k : ActK) (as : List Nat) : Bool :=
  match k, as with
  | .or, [a, _, b] => !meets a (bit shUnk) && !meets b (bit shUnk ||| bit shOr)
  | .and, [a, _, b] => !meets a (bit shUnk ||| bit shOr) && !meets b mOps
  | .implicit, [_, b] => !meets b (bit shUnk)
  | .plus, [_, a] => !meets a mOps
  | .minus, [_, a] => !meets a mOps
  | .not, [_, a] => !meets a mOps
  | .range, [_, lo, _, hi, _] => sub lo (mWP ||| bit shNeg) && sub hi (mWP ||| bit shNeg)
  | .negterm, [_, a] => sub a mWP
  | .lessthan, [_, a] => sub a mWP
  | .greaterthan, [_, a] => sub a mWP
  | .field, [_, _, a] => !meets a mOps
  | .proximity, [a, _] => sub a (bit shPhrase)
  | .fuzzy, [a, _] => sub a (bit shWord)
  | .boosting, [a, _] => !meets a (mOps ||| bit shPre ||| bit shNeg ||| bit shFld)
  | _, _ => true

/-- shapes of the value built by the action -/
def resK (k : ActK) (as : List Nat) : Nat :=
  match k, as with
  | .or, _ => bit shOr
  | .and, _ => bit shAnd
  | .implicit, _ => bit shUnk
  | .plus, _ => bit shPre
  | .not, _ => bit shPre
  | .minus, [_, a] => (if meets a mWP then bit shNeg else 0) ||| (if sub a mWP then 0 else bit shPre)
  | .grouping, _ => bit shAtomic
  | .range, _ => bit shAtomic
  | .negterm, _ => bit shNeg
  | .lessthan, _ => bit shAtomic
  | .greaterthan, _ => bit shAtomic
  | .field, _ => bit shFld
  | .proximity, _ => bit shAtomic
  | .fuzzy, _ => bit shAtomic
  | .boosting, _ => bit shBst
  | .toTerm, _ => bit shWord
  | .pass, [a] => a
  | _, _ => 0

/-- every member of the argument shape sets is acceptable to the semantic action named `f` -/
def admSet (f : String) (as : List Nat) : Bool := admK (actK f as.length) as

/-- shapes of the value built by the semantic action named `f` -/
def resSet (f : String) (as : List Nat) : Nat := resK (actK f as.length) as

/-! ### certificate and checker -/

structure Cert where
  /-- `S[s][t]`: shapes possible for the top value in state `s` when the look-ahead is terminal
  number `t` -/
  S : Array (Array Nat)
  /-- `E[s']`: the states `s` that can lie directly below `s'`, each with the shapes possible for
  the value pushed together with `s` while `s'` is above it -/
  E : Array (List (Nat × Nat))

def Cert.top (C : Cert) (s t : Nat) : Nat := (C.S.getD s #[]).getD t 0
def Cert.preds (C : Cert) (above : Nat) : List (Nat × Nat) := C.E.getD above []
def Cert.edge (C : Cert) (s above : Nat) : Option Nat :=
  ((C.preds above).find? (fun p => p.1 == s)).map (·.2)

/-- the look-aheads: end of input, or a token of some kind -/
def lookNameK : Option TokK → String
  | some k => k.name
  | none => "$end"

def allKindsC : List TokK :=
  [.term, .phrase, .regex, .approx, .boost, .minus, .plus, .column, .lparen, .rparen,
   .lbracket, .rbracket, .lessthan, .greaterthan, .andOp, .orOp, .not, .to]

def allLooks : List (Option TokK) := none :: allKindsC.map some

/-- shape of the value a shifted token of kind `k` puts on the stack (`Tok.toVal`) -/
def tokValShape : TokK → Nat
  | .term => shWord
  | .phrase => shPhrase
  | .regex => shRegex
  | k => tokIdx k

/-- walk `n` slots down the stack from state `above` along certificate edges, collecting the shape
sets of the buried values (deepest first, in front of `acc`), then run `fin c₁ acc'` where `c₁` is
the lowest state reached -/
def walkDown (C : Cert) (fin : Nat → List Nat → Bool) : Nat → Nat → List Nat → Bool
  | 0, above, acc => fin above acc
  | n + 1, above, acc => (C.preds above).all fun p => walkDown C fin n p.1 (p.2 :: acc)

/-- the check at the bottom of a reduction by `lhs → … {f}`: below the lowest popped state `c₁` lies
some `s₀` (edge set `m₀`): the action is admissible for the collected argument sets, the goto exists,
what is buried under `c₁` stays valid under the goto state, and the result is a possible top there -/
def reduceFin (T : Tables) (C : Cert) (lhs f : String) (t : Nat) (c₁ : Nat) (acc : List Nat) : Bool :=
  acc.any (· == 0) ||
  (C.preds c₁).all fun p =>
    admSet f acc &&
    match T.goto? p.1 lhs with
    | none => false
    | some g =>
      match C.edge p.1 g.toNat with
      | none => false
      | some m' => sub p.2 m' && sub (resSet f acc) (C.top g.toNat t)

/-- the check of one cell of the action table: a shift buries the top value under the new state and
puts a token value on top (whatever the next look-ahead is); a reduction is checked along every
path of the certificate's edges; what is accepted is an item -/
def checkCell (T : Tables) (C : Cert) (s : Nat) (o : Option TokK) : Bool :=
  let t := T.termIdx (lookNameK o)
  match T.act? s (lookNameK o) with
  | none => true
  | some a =>
    if a > 0 then
      match o with
      | none => true
      | some k =>
        match C.edge s a.toNat with
        | none => false
        | some m =>
          sub (C.top s t) m &&
          allLooks.all fun o' => (C.top a.toNat (T.termIdx (lookNameK o'))).testBit (tokValShape k)
    else if a < 0 then
      let p := T.prods.getD (-a).toNat ("", [], "")
      match p.2.1.length with
      | 0 => true
      | n + 1 => walkDown C (reduceFin T C p.1 p.2.2 t) n s [C.top s t]
    else sub (C.top s t) mItems

/-- the certificate is inductive for the tables -/
def certOK (T : Tables) (C : Cert) : Bool :=
  (List.range T.action.size).all fun s => allLooks.all fun o => checkCell T C s o

end Luqum
