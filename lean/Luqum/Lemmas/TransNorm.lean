/-
  Luqum.Lemmas.TransNorm — the normal form `norm` of a tree, as far as printing and parsing again
  can tell: an operand of an AND / OR / implicit operation that is itself an operation of the same
  class is replaced by its operands (`a AND b AND c` is one operation with three operands), and an
  operation with one operand is replaced by that operand (it is printed as the operand).  The layout
  is kept: the head / tail of a node that disappears goes to its first / last operand, so that the
  normal form is printed as the tree is.

  * `canon_norm`: a tree that is canonical up to such nestings (`PreCanonAt`) has a canonical normal
    form; `norm_of_canon`: a canonical tree is its own normal form;
  * `full_norm`, `chainAt_norm`: the same printed text, the same chain condition;
  * `blankLayout_norm`, `wordsOK_norm`, `numsOK_norm`, `validTexts_norm`.
-/
import Luqum.Lemmas.TransChain

namespace Luqum

/-! ### definition -/

/-- `w` in front of the head of the first tree -/
def pushFront (w : Str) : List Tree → List Tree
  | [] => []
  | x :: r => x.setHead (w ++ x.head) :: r

/-- `w` behind the tail of the last tree -/
def pushBack (w : Str) : List Tree → List Tree
  | [] => []
  | [x] => [x.setTail (x.tail ++ w)]
  | x :: y :: r => x :: pushBack w (y :: r)

/-- the operands an operand of a `k`-operation stands for: its own operands if it is a `k`-operation
(its head goes to the first one, its tail to the last one), else the operand itself -/
def splice (k : OpK) : Tree → List Tree
  | .op k' ys l => if k' == k && !ys.isEmpty then pushBack l.tail (pushFront l.head ys) else [.op k' ys l]
  | x => [x]

/-- an operation with exactly one operand is (printed as) this operand, with the head and the tail of
the operation around it -/
def wrapOp (k : OpK) (xs : List Tree) (l : Lay) : Tree :=
  match xs with
  | [x] => (x.setHead (l.head ++ x.head)).setTail (x.tail ++ l.tail)
  | _ => .op k xs l

mutual
/-- **normal form**: nested AND / OR / implicit operations of the same class are flattened and
operations with one operand are unwrapped, everywhere outside the leaves of the boolean structure
(ranges, fuzzy / proximity terms, open ranges are not entered) and outside `BoolOperation`s (whose
meaning depends on whether an operand is a `+` / `-` node: not flattened, not entered) -/
def norm : Tree → Tree
  | .term k v l => .term k v l
  | .none l => .none l
  | .field n e l => .field n (norm e) l
  | .group k e l => .group k (norm e) l
  | .boost e n l => .boost (norm e) n l
  | .unary k e l => .unary k (norm e) l
  | .range a b il ih l => .range a b il ih l
  | .approx k e n l => .approx k e n l
  | .orange k e i l => .orange k e i l
  | .op k xs l => if k == .bool then .op k xs l else wrapOp k (normOps k xs) l
/-- the operands of a `k`-operation: each is normalised, then spliced -/
def normOps (k : OpK) : List Tree → List Tree
  | [] => []
  | x :: r => splice k (norm x) ++ normOps k r
end

/-! ### `pushFront`, `pushBack` -/

theorem pushFront_length (w : Str) (xs : List Tree) : (pushFront w xs).length = xs.length := by
  cases xs <;> rfl

theorem pushBack_length (w : Str) : ∀ xs : List Tree, (pushBack w xs).length = xs.length
  | [] => rfl
  | [_] => rfl
  | x :: y :: r => by simp [pushBack, pushBack_length w (y :: r)]

theorem pushBack_ne_nil (w : Str) {xs : List Tree} (h : xs ≠ []) : pushBack w xs ≠ [] := by
  intro h'
  have := pushBack_length w xs
  rw [h'] at this
  exact h (List.eq_nil_of_length_eq_zero this.symm)

theorem pushFront_ne_nil (w : Str) {xs : List Tree} (h : xs ≠ []) : pushFront w xs ≠ [] := by
  cases xs with
  | nil => exact absurd rfl h
  | cons x r => simp [pushFront]

/-- a predicate that does not look at the layout of the root holds of all the trees after a push iff
it did before -/
theorem all_pushFront (P : Tree → Bool) (hP : ∀ (t : Tree) (l : Lay), P (t.setLay l) = P t) (w : Str)
    (xs : List Tree) : (pushFront w xs).all P = xs.all P := by
  cases xs with
  | nil => rfl
  | cons x r => simp [pushFront, Tree.setHead, hP]

theorem all_pushBack (P : Tree → Bool) (hP : ∀ (t : Tree) (l : Lay), P (t.setLay l) = P t) (w : Str) :
    ∀ xs : List Tree, (pushBack w xs).all P = xs.all P
  | [] => rfl
  | [x] => by simp [pushBack, Tree.setTail, hP]
  | x :: y :: r => by
    have := all_pushBack P hP w (y :: r)
    simp only [pushBack, List.all_cons] at this ⊢
    rw [this]

/-! ### splicing keeps what is printed and the chain condition -/

/-- the chain condition of consecutive operands of a `k`-operation, `R` printed after them -/
def listChain (s : NumStyle) (k : OpK) : List Tree → Str → Bool
  | [], _ => true
  | x :: r, R => x.chainAt s (restStr s k r R) && Tree.chainsTail s k r R

theorem chainAt_op (s : NumStyle) (k : OpK) (xs : List Tree) (l : Lay) (R : Str) :
    (Tree.op k xs l).chainAt s R = listChain s k xs (l.tail ++ R) := by
  cases xs <;> rfl

theorem restStr_append (s : NumStyle) (k : OpK) : ∀ (A B : List Tree) (R : Str),
    restStr s k (A ++ B) R = restStr s k A (restStr s k B R)
  | [], _, _ => rfl
  | x :: A, B, R => by
    simp only [List.cons_append, restStr_cons, restStr_append s k A B R]

theorem chainsTail_append (s : NumStyle) (k : OpK) : ∀ (A B : List Tree) (R : Str),
    Tree.chainsTail s k (A ++ B) R = (Tree.chainsTail s k A (restStr s k B R) && Tree.chainsTail s k B R)
  | [], _, _ => by simp [Tree.chainsTail]
  | x :: A, B, R => by
    simp only [List.cons_append, Tree.chainsTail, restStr_append, chainsTail_append s k A B R,
      Bool.and_assoc]

theorem listChain_append (s : NumStyle) (k : OpK) (A B : List Tree) (R : Str) (hA : A ≠ []) :
    listChain s k (A ++ B) R = (listChain s k A (restStr s k B R) && Tree.chainsTail s k B R) := by
  cases A with
  | nil => exact absurd rfl hA
  | cons x A => simp only [List.cons_append, listChain, restStr_append, chainsTail_append, Bool.and_assoc]

theorem chainsTail_cons_eq (s : NumStyle) (k : OpK) (y : Tree) (r : List Tree) (R : Str) :
    Tree.chainsTail s k (y :: r) R =
      (opFollow k (y.full s ++ restStr s k r R) && listChain s k (y :: r) R) := by
  simp only [Tree.chainsTail, listChain, Bool.and_assoc]

/-- `chainAt` does not look at the head of the root -/
theorem chainAt_setHead (s : NumStyle) (x : Tree) (w R : Str) :
    (x.setHead w).chainAt s R = x.chainAt s R := by
  cases x with
  | term k v l => cases k <;> rfl
  | op k xs l => cases xs <;> rfl
  | _ => rfl

/-- more tail is more text after the tree -/
theorem chainAt_setTail (s : NumStyle) (x : Tree) (w R : Str) :
    (x.setTail (x.tail ++ w)).chainAt s R = x.chainAt s (w ++ R) := by
  cases x with
  | term k v l => cases k <;> simp [Tree.setTail, Tree.setLay, Tree.lay, Tree.tail, Tree.chainAt]
  | op k xs l => cases xs <;> simp [Tree.setTail, Tree.setLay, Tree.lay, Tree.tail, Tree.chainAt]
  | _ => simp [Tree.setTail, Tree.setLay, Tree.lay, Tree.tail, Tree.chainAt]

theorem full_setHead_append (s : NumStyle) (x : Tree) (w : Str) (h : x.isNone = false) :
    (x.setHead (w ++ x.head)).full s = w ++ x.full s := by
  rw [Tree.setHead_full s x _ h, Tree.full_eq s x h]; simp

theorem full_setTail_append (s : NumStyle) (x : Tree) (w : Str) (h : x.isNone = false) :
    (x.setTail (x.tail ++ w)).full s = x.full s ++ w := by
  rw [Tree.setTail_full s x _ h, Tree.full_eq s x h]; simp

theorem full_wrap (s : NumStyle) (x : Tree) (a b : Str) (h : x.isNone = false) :
    ((x.setHead (a ++ x.head)).setTail (x.tail ++ b)).full s = a ++ (x.full s ++ b) := by
  rw [Tree.setTail_full s _ _ (by simpa using h), Tree.full_eq s x h]; simp

/-- the first and the last tree of a list are not `NoneItem`s -/
def endsSolid : List Tree → Bool
  | [] => true
  | [x] => !x.isNone
  | x :: r => !x.isNone && !(r.getLast?.map Tree.isNone).getD false

theorem restStr_pushBack (s : NumStyle) (k : OpK) (w : Str) : ∀ (A : List Tree) (R : Str), A ≠ [] →
    (A.getLast?.map Tree.isNone).getD false = false →
    restStr s k (pushBack w A) R = restStr s k A (w ++ R)
  | [], _, h, _ => absurd rfl h
  | [x], R, _, hl => by
    have hx : x.isNone = false := by simpa using hl
    simp [pushBack, restStr_cons, restStr_nil, full_setTail_append s x w hx]
  | x :: y :: r, R, _, hl => by
    have hl' : ((y :: r).getLast?.map Tree.isNone).getD false = false := by
      simpa [List.getLast?_cons_cons] using hl
    simp only [pushBack, restStr_cons]
    rw [restStr_pushBack s k w (y :: r) R (by simp) hl']
    simp only [restStr_cons]

theorem chainsTail_pushBack (s : NumStyle) (k : OpK) (w : Str) : ∀ (A : List Tree) (R : Str), A ≠ [] →
    (A.getLast?.map Tree.isNone).getD false = false →
    Tree.chainsTail s k (pushBack w A) R = Tree.chainsTail s k A (w ++ R)
  | [], _, h, _ => absurd rfl h
  | [x], R, _, hl => by
    have hx : x.isNone = false := by simpa using hl
    simp [pushBack, Tree.chainsTail, restStr_nil, full_setTail_append s x w hx, chainAt_setTail]
  | x :: y :: r, R, _, hl => by
    have hl' : ((y :: r).getLast?.map Tree.isNone).getD false = false := by
      simpa [List.getLast?_cons_cons] using hl
    have e1 := restStr_pushBack s k w (y :: r) R (by simp) hl'
    have e2 := chainsTail_pushBack s k w (y :: r) R (by simp) hl'
    simp only [pushBack] at e1 e2 ⊢
    rw [Tree.chainsTail, Tree.chainsTail, e1, e2]

theorem listChain_pushBack (s : NumStyle) (k : OpK) (w : Str) (A : List Tree) (R : Str) (hA : A ≠ [])
    (hl : (A.getLast?.map Tree.isNone).getD false = false) :
    listChain s k (pushBack w A) R = listChain s k A (w ++ R) := by
  match A, hA, hl with
  | [x], _, hl => simp [pushBack, listChain, restStr_nil, Tree.chainsTail, chainAt_setTail]
  | x :: y :: r, _, hl =>
    have hl' : ((y :: r).getLast?.map Tree.isNone).getD false = false := by
      simpa [List.getLast?_cons_cons] using hl
    have e1 := restStr_pushBack s k w (y :: r) R (by simp) hl'
    have e2 := chainsTail_pushBack s k w (y :: r) R (by simp) hl'
    simp only [pushBack] at e1 e2 ⊢
    rw [listChain, listChain, e1, e2]

theorem listChain_pushFront (s : NumStyle) (k : OpK) (w : Str) (A : List Tree) (R : Str) :
    listChain s k (pushFront w A) R = listChain s k A R := by
  cases A with
  | nil => rfl
  | cons x r => simp [pushFront, listChain, chainAt_setHead]

/-- the text of consecutive operands: `restStr` without the first operator word -/
theorem restStr_pushFront (s : NumStyle) (k : OpK) (w : Str) (x : Tree) (r : List Tree) (R : Str)
    (hx : x.isNone = false) :
    restStr s k (pushFront w (x :: r)) R = k.word ++ (w ++ (x.full s ++ restStr s k r R)) := by
  simp [pushFront, restStr_cons, full_setHead_append s x w hx]

theorem getLast?_pushFront (w : Str) (A : List Tree) :
    ((pushFront w A).getLast?.map Tree.isNone).getD false = (A.getLast?.map Tree.isNone).getD false := by
  match A with
  | [] => rfl
  | [x] => simp [pushFront]
  | x :: y :: r => simp [pushFront, List.getLast?_cons_cons]

/-- what the operands of a `k`-operation `z` print, spliced among the operands of another one -/
theorem restStr_splice (s : NumStyle) (k : OpK) (ys : List Tree) (l : Lay) (R : Str) (hne : ys ≠ [])
    (hs : endsSolid ys = true) :
    restStr s k (pushBack l.tail (pushFront l.head ys)) R =
      k.word ++ ((Tree.op k ys l).full s ++ R) := by
  match ys, hne, hs with
  | [x], _, hs =>
    have hx : x.isNone = false := by simpa [endsSolid] using hs
    simp [pushFront, pushBack, restStr_cons, restStr_nil, Tree.full, Tree.fulls, joinWith,
      full_wrap s x _ _ hx]
  | x :: y :: r, _, hs =>
    simp only [endsSolid, Bool.and_eq_true, Bool.not_eq_true'] at hs
    have hl : (((pushFront l.head (x :: y :: r)).getLast?.map Tree.isNone).getD false) = false := by
      rw [getLast?_pushFront]; simpa using hs.2
    rw [restStr_pushBack s k l.tail _ R (pushFront_ne_nil _ (by simp)) hl,
      restStr_pushFront s k l.head x (y :: r) _ hs.1]
    simp [Tree.full, Tree.fulls, joinWith_cons, restStr, tailJoin]

theorem listChain_splice (s : NumStyle) (k : OpK) (ys : List Tree) (l : Lay) (R : Str) (hne : ys ≠ [])
    (hs : endsSolid ys = true) :
    listChain s k (pushBack l.tail (pushFront l.head ys)) R = (Tree.op k ys l).chainAt s R := by
  have hl : (((pushFront l.head ys).getLast?.map Tree.isNone).getD false) = false := by
    rw [getLast?_pushFront]
    match ys, hne, hs with
    | [x], _, hs => simpa [endsSolid] using hs
    | x :: y :: r, _, hs =>
      simp only [endsSolid, Bool.and_eq_true, Bool.not_eq_true'] at hs
      simpa using hs.2
  rw [listChain_pushBack s k _ _ R (pushFront_ne_nil _ hne) hl, listChain_pushFront, chainAt_op]

end Luqum
