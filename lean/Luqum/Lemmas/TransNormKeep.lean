/-
  Luqum.Lemmas.TransNormKeep — what normalisation keeps: a blank layout (`blankLayout_norm`) and
  every predicate that is structural the way `WordsOK`, `numsOK`, `validTexts` are (`norm_keeps`).
-/
import Luqum.Lemmas.TransNormPrint

namespace Luqum

/-! ### structural predicates -/

/-- a predicate that does not look at the layout, is monotone in the child of a field / group /
boost / unary node, and holds of an operation iff it holds of its operands -/
structure Keeps (P : Tree → Bool) : Prop where
  lay : ∀ t l, P (t.setLay l) = P t
  field : ∀ n e e' l, (P e = true → P e' = true) → P (.field n e l) = true → P (.field n e' l) = true
  group : ∀ k e e' l, (P e = true → P e' = true) → P (.group k e l) = true → P (.group k e' l) = true
  boost : ∀ e e' n l, (P e = true → P e' = true) → P (.boost e n l) = true → P (.boost e' n l) = true
  unary : ∀ k e e' l, (P e = true → P e' = true) → P (.unary k e l) = true → P (.unary k e' l) = true
  op : ∀ k xs l, P (.op k xs l) = xs.all P

theorem Keeps.splice {P : Tree → Bool} (hP : Keeps P) (k : OpK) (z : Tree) (h : P z = true) :
    (splice k z).all P = true := by
  cases z with
  | op k' ys l =>
    simp only [Luqum.splice]
    split
    · rw [all_pushBack P hP.lay, all_pushFront P hP.lay, ← hP.op k' ys l]; exact h
    · simp [h]
  | _ => simp [Luqum.splice, h]

theorem Keeps.wrapOp {P : Tree → Bool} (hP : Keeps P) (k : OpK) (zs : List Tree) (l : Lay)
    (h : zs.all P = true) : P (wrapOp k zs l) = true := by
  unfold Luqum.wrapOp
  split
  · simp only [Tree.setTail, Tree.setHead, hP.lay]
    simpa using h
  · rw [hP.op]; exact h

mutual
/-- **normalisation keeps every structural predicate** -/
theorem norm_keeps {P : Tree → Bool} (hP : Keeps P) : ∀ u : Tree, P u = true → P (norm u) = true
  | .term .., h => h
  | .none _, h => h
  | .field n e l, h => hP.field n e (norm e) l (norm_keeps hP e) h
  | .group k e l, h => hP.group k e (norm e) l (norm_keeps hP e) h
  | .boost e n l, h => hP.boost e (norm e) n l (norm_keeps hP e) h
  | .unary k e l, h => hP.unary k e (norm e) l (norm_keeps hP e) h
  | .approx .., h => h
  | .range .., h => h
  | .orange .., h => h
  | .op k xs l, h => by
    simp only [norm]
    split
    · exact h
    · rw [hP.op] at h
      exact hP.wrapOp k _ l (normOps_keeps hP xs k h)
theorem normOps_keeps {P : Tree → Bool} (hP : Keeps P) : ∀ (xs : List Tree) (k : OpK),
    xs.all P = true → (normOps k xs).all P = true
  | [], _, _ => rfl
  | x :: r, k, h => by
    simp only [List.all_cons, Bool.and_eq_true] at h
    simp only [normOps, List.all_append, Bool.and_eq_true]
    exact ⟨hP.splice k _ (norm_keeps hP x h.1), normOps_keeps hP r k h.2⟩
end

theorem wordssOK_eq_all : ∀ xs : List Tree, WordssOK xs = xs.all WordsOK
  | [] => rfl
  | x :: r => by simp [WordssOK, wordssOK_eq_all r]

theorem numssOK_eq_all : ∀ xs : List Tree, numssOK xs = xs.all numsOK
  | [] => rfl
  | x :: r => by simp [numssOK, numssOK_eq_all r]

theorem validTextss_eq_all : ∀ xs : List Tree, validTextss xs = xs.all validTexts
  | [] => rfl
  | x :: r => by simp [validTextss, validTextss_eq_all r]

theorem keeps_wordsOK : Keeps WordsOK where
  lay := wordsOK_setLay
  field := by intro n e e' l h; simp only [WordsOK, Bool.and_eq_true]; exact fun h' => ⟨h'.1, h h'.2⟩
  group := by intro k e e' l h; simpa only [WordsOK] using h
  boost := by intro e e' n l h; simpa only [WordsOK] using h
  unary := by intro k e e' l h; simpa only [WordsOK] using h
  op := by intro k xs l; simp only [WordsOK, wordssOK_eq_all]

theorem keeps_numsOK : Keeps numsOK where
  lay := numsOK_setLay
  field := by intro n e e' l h; simpa only [numsOK] using h
  group := by intro k e e' l h; simpa only [numsOK] using h
  boost := by intro e e' n l h; simp only [numsOK, Bool.and_eq_true]; exact fun h' => ⟨h'.1, h h'.2⟩
  unary := by intro k e e' l h; simpa only [numsOK] using h
  op := by intro k xs l; simp only [numsOK, numssOK_eq_all]

theorem keeps_validTexts : Keeps validTexts where
  lay := validTexts_setLay
  field := by intro n e e' l h; simp only [validTexts, Bool.and_eq_true]; exact fun h' => ⟨h'.1, h h'.2⟩
  group := by intro k e e' l h; simpa only [validTexts] using h
  boost := by intro e e' n l h; simpa only [validTexts] using h
  unary := by intro k e e' l h; simpa only [validTexts] using h
  op := by intro k xs l; simp only [validTexts, validTextss_eq_all]

/-! ### blank layout -/

theorem blankLayouts_pushFront (w : Str) (hw : isBlank w = true) (xs : List Tree)
    (h : Tree.blankLayouts xs = true) : Tree.blankLayouts (pushFront w xs) = true := by
  cases xs with
  | nil => rfl
  | cons x r =>
    simp only [Tree.blankLayouts, Bool.and_eq_true] at h
    simp only [pushFront, Tree.blankLayouts, Bool.and_eq_true]
    exact ⟨blank_setHead_pre x w h.1 hw, h.2⟩

theorem blankLayouts_pushBack (w : Str) (hw : isBlank w = true) : ∀ xs : List Tree,
    Tree.blankLayouts xs = true → Tree.blankLayouts (pushBack w xs) = true
  | [], _ => rfl
  | [x], h => by
    simp only [Tree.blankLayouts, Bool.and_eq_true] at h
    simp only [pushBack, Tree.blankLayouts, Bool.and_eq_true]
    exact ⟨blank_setTail_post x w h.1 hw, trivial⟩
  | x :: y :: r, h => by
    have e : Tree.blankLayouts (x :: y :: r) = (x.blankLayout && Tree.blankLayouts (y :: r)) := rfl
    rw [e, Bool.and_eq_true] at h
    have ih := blankLayouts_pushBack w hw (y :: r) h.2
    simp only [pushBack] at ih ⊢
    have e2 : ∀ zs, Tree.blankLayouts (x :: zs) = (x.blankLayout && Tree.blankLayouts zs) := fun _ => rfl
    rw [e2, h.1, ih]; rfl

theorem blankLayouts_splice (k : OpK) (z : Tree) (h : z.blankLayout = true) :
    Tree.blankLayouts (splice k z) = true := by
  cases z with
  | op k' ys l =>
    simp only [Tree.blankLayout, Bool.and_eq_true] at h
    simp only [splice]
    split
    · exact blankLayouts_pushBack _ h.1.2 _ (blankLayouts_pushFront _ h.1.1 _ h.2)
    · simp [Tree.blankLayouts, Tree.blankLayout, h]
  | _ => simp [splice, Tree.blankLayouts, h]

theorem blankLayout_wrapOp (k : OpK) (zs : List Tree) (l : Lay) (hh : isBlank l.head = true)
    (ht : isBlank l.tail = true) (h : Tree.blankLayouts zs = true) :
    (wrapOp k zs l).blankLayout = true := by
  unfold wrapOp
  split
  · rename_i x
    simp only [Tree.blankLayouts, Bool.and_true] at h
    have h1 := blank_setHead_pre x l.head h hh
    have h2 := blank_setTail_post _ l.tail h1 ht
    simpa using h2
  · simp [Tree.blankLayout, hh, ht, h]

mutual
/-- **the normal form of a tree with a blank layout has a blank layout** -/
theorem blankLayout_norm : ∀ u : Tree, u.blankLayout = true → (norm u).blankLayout = true
  | .term .., h => h
  | .none _, h => h
  | .field n e l, h => by
    simp only [Tree.blankLayout, Bool.and_eq_true] at h
    simp [norm, Tree.blankLayout, h.1, blankLayout_norm e h.2]
  | .group k e l, h => by
    simp only [Tree.blankLayout, Bool.and_eq_true] at h
    simp [norm, Tree.blankLayout, h.1, blankLayout_norm e h.2]
  | .boost e n l, h => by
    simp only [Tree.blankLayout, Bool.and_eq_true] at h
    simp [norm, Tree.blankLayout, h.1, blankLayout_norm e h.2]
  | .unary k e l, h => by
    simp only [Tree.blankLayout, Bool.and_eq_true] at h
    simp [norm, Tree.blankLayout, h.1, blankLayout_norm e h.2]
  | .approx .., h => h
  | .range .., h => h
  | .orange .., h => h
  | .op k xs l, h => by
    simp only [norm]
    split
    · exact h
    · simp only [Tree.blankLayout, Bool.and_eq_true] at h
      exact blankLayout_wrapOp k _ l h.1.1 h.1.2 (blankLayouts_normOps xs k h.2)
theorem blankLayouts_normOps : ∀ (xs : List Tree) (k : OpK), Tree.blankLayouts xs = true →
    Tree.blankLayouts (normOps k xs) = true
  | [], _, _ => rfl
  | x :: r, k, h => by
    simp only [Tree.blankLayouts, Bool.and_eq_true] at h
    rw [normOps, blankLayouts_append, blankLayouts_splice k _ (blankLayout_norm x h.1),
      blankLayouts_normOps r k h.2]; rfl
end

end Luqum
