/-
  Luqum.Lemmas.Kf1PosAct — positions without the KF1 hypothesis: every semantic action keeps the
  source layout.  If the arguments of an action are laid out in the source consecutively from `off`,
  the value it builds is laid out at `off` and claims exactly the extent of its arguments.  This is
  the arithmetic of `HeadTailManager.pos` read literally (it adds up `size`, head and tail of the
  parts); nothing is assumed about tails before a `:`.
-/
import Luqum.Lemmas.Kf1PosDefs
import Luqum.Lemmas.Kf1Flat

namespace Luqum

/-! ### stack values and sequences of them -/

/-- the body of the value (the lexeme, for a token value) starts at `p` in the source -/
def Val.PosAtS : Val → Int → Prop
  | .tok k v, p => LayAt v.lay p (tokText k v.value)
  | .item t, p => PosS t p

/-- the extent of a value in the source -/
def Val.ext (v : Val) : Int := layLen v.lay

def extsV : List Val → Int
  | [] => 0
  | v :: r => v.ext + extsV r

/-- the values are laid out one after the other in the source, the first starting at `off` -/
def SeqPosS : List Val → Int → Prop
  | [], _ => True
  | v :: r, off => v.PosAtS (off + v.lay.head.length) ∧ SeqPosS r (off + v.ext)

theorem extsV_append : ∀ (xs ys : List Val), extsV (xs ++ ys) = extsV xs + extsV ys
  | [], ys => by simp [extsV]
  | x :: r, ys => by simp only [List.cons_append, extsV, extsV_append r ys]; omega

theorem seqPosS_append : ∀ (xs ys : List Val) (off : Int),
    SeqPosS (xs ++ ys) off ↔ SeqPosS xs off ∧ SeqPosS ys (off + extsV xs)
  | [], ys, off => by simp [SeqPosS, extsV]
  | x :: r, ys, off => by
    simp only [List.cons_append, SeqPosS, seqPosS_append r ys, extsV, and_assoc]
    have : off + x.ext + extsV r = off + (x.ext + extsV r) := by omega
    rw [this]

theorem layLen_of_layAt {l : Lay} {p : Int} {w : Str} (h : LayAt l p w) :
    layLen l = (w.length : Int) + l.head.length + l.tail.length := by
  simp [layLen, h.2]

/-! ### prefix and postfix operators -/

/-- a node constructor for `OP expr` whose node prints `w` before the operand -/
def PreMkS (w : Str) (mk : Tree → Lay → Tree) : Prop :=
  ∀ a l p, PosS (mk a l) p ↔ LayS l p (w.length + a.ext) ∧ PosS a (p + w.length + a.head.length)

/-- a node constructor for `expr OP` whose node prints `w` after the operand -/
def PostMkS (w : Str) (mk : Tree → Lay → Tree) : Prop :=
  ∀ a l p, PosS (mk a l) p ↔ LayS l p (a.ext + w.length) ∧ PosS a (p + a.head.length)

theorem preMkS_unary (k : UnK) : PreMkS k.word (.unary k) := by
  intro a l p; simp only [PosS]

theorem preMkS_orange (k : ORK) (inc : Bool) :
    PreMkS (orangePre k inc) (fun a l => .orange k a inc l) := by
  intro a l p; simp only [PosS]

theorem postMkS_approx (k : ApxK) (n : Num) :
    PostMkS ('~' :: n.source) (fun x l => .approx k x n l) := by
  intro a l p
  simp only [PosS, List.length_cons]
  have : a.ext + 1 + (n.source.length : Int) = a.ext + ((n.source.length + 1 : Nat) : Int) := by omega
  rw [this]

theorem postMkS_boost (n : Num) : PostMkS ('^' :: n.source) (fun x l => .boost x n l) := by
  intro a l p
  simp only [PosS, List.length_cons]
  have : a.ext + 1 + (n.source.length : Int) = a.ext + ((n.source.length + 1 : Nat) : Int) := by omega
  rw [this]

/-- `HeadTailManager.unary` -/
theorem mgrUnary_posS {o : Lay} {e : Tree} {mk : Tree → Lay → Tree} {w : Str} {off : Int}
    (hmk : PreMkS w mk) (hlay : ∀ a l, (mk a l).lay = l) (ho : LayAt o (off + o.head.length) w)
    (he : PosS e (off + layLen o + e.head.length)) :
    PosS (mgrUnary o e mk) (off + o.head.length) ∧ (mgrUnary o e mk).ext = layLen o + e.ext := by
  have hlo := layLen_of_layAt ho
  unfold mgrUnary
  simp only []
  refine ⟨?_, ?_⟩
  · rw [hmk]
    refine ⟨⟨?_, ?_⟩, ?_⟩
    · simp [mgrPos, ho.1]
    · simp only [mgrPos, List.map, List.foldl, if_true, Bool.false_eq_true, if_false,
        ext_setHead, List.length_append, Option.some.injEq]
      simp only [Tree.ext, Tree.head] at hlo ⊢
      omega
    · simp only [posS_setHead, Tree.setHead_head, List.length_append]
      exact he.cast (by omega)
  · simp only [Tree.ext, hlay, layLen, mgrPos, List.map, List.foldl, if_true, Bool.false_eq_true,
      if_false, Option.getD_some, List.length_nil]
    simp only [layLen] at hlo ⊢
    omega

/-- `HeadTailManager.post_unary` -/
theorem mgrPostUnary_posS {e : Tree} {o : Lay} {mk : Tree → Lay → Tree} {w : Str} {off : Int}
    (hmk : PostMkS w mk) (hlay : ∀ a l, (mk a l).lay = l) (he : PosS e (off + e.head.length))
    (ho : o.size = some (w.length : Int)) (hoh : o.head = []) :
    PosS (mgrPostUnary e o mk) off ∧ (mgrPostUnary e o mk).ext = e.ext + layLen o := by
  unfold mgrPostUnary
  simp only []
  refine ⟨?_, ?_⟩
  · rw [hmk]
    refine ⟨⟨?_, ?_⟩, ?_⟩
    · simp [mgrPos, he.pos_eq, Tree.head]
    · simp only [mgrPos, List.map, List.foldl, if_true, Bool.false_eq_true, if_false,
        ext_setTail, List.length_append, Option.some.injEq, List.getLast?_cons_cons, List.getLast?_singleton, Option.getD_some]
      simp only [Tree.ext, layLen, ho, hoh, Option.getD_some, List.length_nil]
      omega
    · simp only [posS_setTail, Tree.setTail_head]
      exact he
  · simp only [Tree.ext, hlay, layLen, mgrPos, List.map, List.foldl, if_true, Bool.false_eq_true,
      if_false, Option.getD_some, List.length_nil, List.getLast?_cons_cons, List.getLast?_singleton, ho, hoh]
    omega

/-! ### parentheses, ranges, fields, `TO` as a term -/

theorem group_posS {lp rp : Lay} {e : Tree} {pos size : Option Int} {off : Int}
    (hm : mgrPos [lp, e.lay, rp] true true = (pos, size))
    (hlp : LayAt lp (off + lp.head.length) ['('])
    (he : PosS e (off + layLen lp + e.head.length))
    (hrp : rp.size = some 1) (hrh : rp.head = []) :
    PosS (.group .group
      ((e.setHead (lp.tail ++ e.head)).setTail ((e.setHead (lp.tail ++ e.head)).tail ++ rp.head))
      { head := lp.head, tail := rp.tail, pos := pos, size := size }) (off + lp.head.length) ∧
    layLen { head := lp.head, tail := rp.tail, pos := pos, size := size }
      = layLen lp + e.ext + layLen rp := by
  have hlo := layLen_of_layAt hlp
  simp only [mgrPos, hlp.1, List.map, List.foldl, List.getLast?_cons_cons, List.getLast?_singleton, Prod.mk.injEq, if_true,
    Option.map_some, Option.getD_some] at hm
  obtain ⟨rfl, rfl⟩ := hm
  have hlr : layLen rp = 1 + rp.tail.length := by simp [layLen, hrp, hrh]
  refine ⟨?_, ?_⟩
  · simp only [PosS, LayS, posS_setTail, posS_setHead, Tree.setTail_head, Tree.setHead_head,
      ext_setTail, ext_setHead, Tree.setHead_tail, List.length_append, hrh, List.length_nil]
    refine ⟨⟨trivial, ?_⟩, he.cast ?_⟩
    · simp only [Tree.ext, Option.some.injEq, List.length_cons, List.length_nil] at hlo ⊢; omega
    · simp only [List.length_cons, List.length_nil] at hlo; omega
  · simp only [layLen, Option.getD_some] at hlo hlr ⊢
    simp only [Tree.ext, layLen]; omega

theorem toTerm_posS {t : TokV} {pos size : Option Int} {off : Int}
    (hm : mgrPos [t.lay] true true = (pos, size))
    (ht : LayAt t.lay (off + t.lay.head.length) (t.value.getD [])) :
    PosS (.term .word (t.value.getD [])
      { head := t.lay.head, tail := t.lay.tail, pos := pos, size := size })
      (off + t.lay.head.length) ∧
    layLen { head := t.lay.head, tail := t.lay.tail, pos := pos, size := size } = layLen t.lay := by
  simp only [mgrPos, layLen, ht.1, ht.2, List.map, List.foldl, List.getLast?_singleton,
    Prod.mk.injEq] at hm
  obtain ⟨rfl, rfl⟩ := hm
  refine ⟨⟨by simp, ?_⟩, ?_⟩
  · simp; omega
  · simp [layLen, ht.2]; omega

theorem range_posS {lb to rb : Lay} {lo hi : Tree} {il ih : Bool} {pos size : Option Int} {off : Int}
    (hm : mgrPos [lb, lo.lay, to, hi.lay, rb] true true = (pos, size))
    (hlbp : lb.pos = some (off + lb.head.length)) (hlbs : lb.size = some 1)
    (hlo : PosS lo (off + layLen lb + lo.head.length))
    (hto : to.size = some 2) (htoh : to.head = [])
    (hhi : PosS hi (off + layLen lb + lo.ext + layLen to + hi.head.length))
    (hrb : rb.size = some 1) (hrh : rb.head = []) :
    PosS (.range
      ((lo.setHead (lb.tail ++ lo.head)).setTail ((lo.setHead (lb.tail ++ lo.head)).tail ++ to.head))
      ((hi.setHead (to.tail ++ hi.head)).setTail ((hi.setHead (to.tail ++ hi.head)).tail ++ rb.head))
      il ih { head := lb.head, tail := rb.tail, pos := pos, size := size }) (off + lb.head.length) ∧
    layLen { head := lb.head, tail := rb.tail, pos := pos, size := size }
      = layLen lb + lo.ext + layLen to + hi.ext + layLen rb := by
  simp only [mgrPos, hlbp, List.map, List.foldl, List.getLast?_cons_cons, List.getLast?_singleton, Prod.mk.injEq, if_true,
    Option.map_some, Option.getD_some] at hm
  obtain ⟨rfl, rfl⟩ := hm
  have h1 : layLen lb = 1 + lb.head.length + lb.tail.length := by simp [layLen, hlbs]
  have h2 : layLen to = 2 + to.tail.length := by simp [layLen, hto, htoh]
  have h3 : layLen rb = 1 + rb.tail.length := by simp [layLen, hrb, hrh]
  refine ⟨?_, ?_⟩
  · simp only [PosS, LayS, posS_setTail, posS_setHead, Tree.setTail_head, Tree.setHead_head,
      ext_setTail, ext_setHead, Tree.setHead_tail, List.length_append, hrh, htoh, List.length_nil]
    refine ⟨⟨trivial, ?_⟩, hlo.cast ?_, hhi.cast ?_⟩
    · simp only [Tree.ext, Option.some.injEq] at h1 h2 h3 ⊢; omega
    · omega
    · simp only [Tree.ext] at h1 h2 h3 ⊢; omega
  · simp only [layLen, Option.getD_some] at h1 h2 h3 ⊢
    simp only [Tree.ext, layLen]; omega

theorem field_posS {nl c : Lay} {name : Str} {e : Tree} {pos size : Option Int} {off : Int}
    (hm : mgrPos [nl, c, (toFieldGroup e).lay] true false = (pos, size))
    (hnl : LayS nl (off + nl.head.length) name.length)
    (hc : c.size = some 1) (hch : c.head = [])
    (he : PosS e (off + layLen nl + layLen c + e.head.length)) :
    PosS (.field name ((toFieldGroup e).setHead (c.tail ++ (toFieldGroup e).head))
      { head := nl.head, tail := [], pos := pos, size := size }) (off + nl.head.length) ∧
    layLen { head := nl.head, tail := [], pos := pos, size := size }
      = layLen nl + layLen c + e.ext := by
  obtain ⟨f1, f2, f3, f4, f5⟩ := toFieldGroup_spec e
  simp only [mgrPos, hnl.1, List.map, List.foldl, List.getLast?_cons_cons, List.getLast?_singleton, Prod.mk.injEq, if_true,
    Option.map_some, Option.getD_some, Bool.false_eq_true, if_false] at hm
  obtain ⟨rfl, rfl⟩ := hm
  have h1 : layLen nl = name.length + nl.head.length + nl.tail.length := by simp [layLen, hnl.2]
  have h2 : layLen c = 1 + c.tail.length := by simp [layLen, hc, hch]
  have h3 : layLen (toFieldGroup e).lay = e.ext := ext_toFieldGroup e
  refine ⟨⟨nl.tail.length, ⟨rfl, ?_⟩, ?_⟩, ?_⟩
  · simp only [ext_setHead, ext_toFieldGroup, f3, List.length_append, Option.some.injEq]
    simp only [h3]; omega
  · simp only [posS_setHead, posS_toFieldGroup, Tree.setHead_head, List.length_append, f3]
    exact he.cast (by omega)
  · simp only [layLen, Option.getD_some, List.length_nil] at h1 h2 ⊢
    simp only [Tree.ext, layLen] at h3 ⊢; omega

end Luqum
