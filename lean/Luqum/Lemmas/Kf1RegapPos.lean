/-
  Luqum.Lemmas.Kf1RegapPos — known finding KF1: a tree laid out in the source (`PosS`) becomes,
  with the lost separators put back (`regap`), a tree laid out in its own printed text (`Pos`,
  the predicate of C02), with the same layout records; its printed length is the extent it claims.
-/
import Luqum.Lemmas.Kf1Regap
import Luqum.Lemmas.Kf1PosPath

namespace Luqum

theorem gapOf_length (s : Str) {n : Str} {e : Tree} {l : Lay} {g : Nat}
    (h : l.size = some ((n.length : Int) + g + 1 + e.ext)) : (gapOf s n e l).length = g := by
  simp only [gapOf, gapText_length, h, Option.getD_some]
  omega

mutual
theorem pos_regap (s : Str) : ∀ (t : Tree) (p : Int), PosS t p → Pos .raw (regap s t) p
  | .term _ v l, p, h => by simpa only [regap, Pos, PosS, LayAt, LayS, body_term] using h
  | .field n e l, p, h => by
    obtain ⟨g, ⟨h1, h2⟩, he⟩ := h
    have ih := pos_regap s e _ he
    have hl := layLen_of_pos ih
    have hg := gapOf_length s h2
    simp only [regap_lay] at hl
    simp only [regap, Pos, LayAt, body_field, List.length_append, List.length_cons, List.length_nil,
      hg, regap_head]
    refine ⟨⟨h1, ?_⟩, ih.cast (by omega)⟩
    rw [h2, Tree.ext, hl]; congr 1
  | .group _ e l, p, h => by
    obtain ⟨⟨h1, h2⟩, he⟩ := h
    have ih := pos_regap s e _ he
    have hl := layLen_of_pos ih
    simp only [regap_lay] at hl
    simp only [regap, Pos, LayAt, body_group, List.length_append, List.length_cons, List.length_nil,
      regap_head]
    refine ⟨⟨h1, ?_⟩, ih⟩
    rw [h2, Tree.ext, hl]; congr 1
  | .range a b il ih l, p, h => by
    obtain ⟨⟨h1, h2⟩, ha, hb⟩ := h
    have iha := pos_regap s a _ ha
    have ihb := pos_regap s b _ hb
    have hla := layLen_of_pos iha
    have hlb := layLen_of_pos ihb
    have h2' : ("TO".toList).length = 2 := rfl
    simp only [regap_lay] at hla hlb
    simp only [regap, Pos, LayAt, body_range, List.length_append, List.length_cons, List.length_nil,
      regap_head, h2']
    refine ⟨⟨h1, ?_⟩, iha, ihb.cast ?_⟩
    · rw [h2, Tree.ext, Tree.ext, hla, hlb]; congr 1
    · rw [Tree.ext, hla]
  | .approx _ t n l, p, h => by
    obtain ⟨⟨h1, h2⟩, he⟩ := h
    have ih := pos_regap s t _ he
    have hl := layLen_of_pos ih
    simp only [regap_lay] at hl
    simp only [regap, Pos, LayAt, Tree.body, Num.text, List.length_append, List.length_cons,
      List.length_nil, regap_head]
    refine ⟨⟨h1, ?_⟩, ih⟩
    rw [h2, Tree.ext, hl]; congr 1
  | .boost e n l, p, h => by
    obtain ⟨⟨h1, h2⟩, he⟩ := h
    have ih := pos_regap s e _ he
    have hl := layLen_of_pos ih
    simp only [regap_lay] at hl
    simp only [regap, Pos, LayAt, Tree.body, Num.text, List.length_append, List.length_cons,
      List.length_nil, regap_head]
    refine ⟨⟨h1, ?_⟩, ih⟩
    rw [h2, Tree.ext, hl]; congr 1
  | .op k xs l, p, h => by
    obtain ⟨hne, ⟨h1, h2⟩, hl⟩ := h
    obtain ⟨ih, hsp⟩ := posList_regap s k.word.length xs p hl
    have hne' : regaps s xs ≠ [] := by cases xs <;> simp [regaps] at hne ⊢
    simp only [regap, Pos, LayAt, body_op]
    refine ⟨⟨h1, ?_⟩, ih⟩
    have := spanLen_joinWith .raw k.word (regaps s xs) hne'
    rw [h2, ← hsp, this]; congr 1; omega
  | .unary k a l, p, h => by
    obtain ⟨⟨h1, h2⟩, he⟩ := h
    have ih := pos_regap s a _ he
    have hl := layLen_of_pos ih
    simp only [regap_lay] at hl
    simp only [regap, Pos, LayAt, Tree.body, List.length_append, regap_head]
    refine ⟨⟨h1, ?_⟩, ih⟩
    rw [h2, Tree.ext, hl]; congr 1
  | .orange k a inc l, p, h => by
    obtain ⟨⟨h1, h2⟩, he⟩ := h
    have ih := pos_regap s a _ he
    have hl := layLen_of_pos ih
    simp only [regap_lay] at hl
    have hw : (k.word ++ if inc = true then ['='] else []).length = (orangePre k inc).length := rfl
    simp only [regap, Pos, LayAt, Tree.body, List.length_append, regap_head] at hw ⊢
    refine ⟨⟨h1, ?_⟩, ih.cast (by simp only [orangePre, List.length_append])⟩
    rw [h2, Tree.ext, hl]; congr 1
    simp only [orangePre, List.length_append]; omega
  | .none _, _, h => h.elim
theorem posList_regap (s : Str) (sep : Nat) : ∀ (xs : List Tree) (p : Int), PosListS sep xs p →
    PosList .raw sep (regaps s xs) p ∧ (spanLen .raw sep (regaps s xs) : Int) = spanS sep xs
  | [], _, _ => ⟨trivial, rfl⟩
  | x :: r, p, h => by
    simp only [PosListS] at h
    obtain ⟨hx, hr⟩ := h
    have ihx := pos_regap s x _ hx
    have hl := layLen_of_pos ihx
    simp only [regap_lay] at hl
    obtain ⟨ih1, ih2⟩ := posList_regap s sep r _ hr
    simp only [regaps, PosList, spanLen, spanS, regap_head]
    rw [Tree.ext, hl] at ih1
    refine ⟨⟨ihx, ih1⟩, ?_⟩
    rw [Tree.ext, hl, ← ih2]; omega
end

/-- the printed length of the re-gapped tree is the extent the tree claims in the source -/
theorem regap_full_length (s : Str) {t : Tree} {p : Int} (h : PosS t p) :
    (((regap s t).full .raw).length : Int) = t.ext := by
  have := layLen_of_pos (pos_regap s t p h)
  simp only [regap_lay] at this
  rw [Tree.ext, this]

/-- the same for stack values -/
theorem regapV_flat_length (s : Str) {v : Val} {p : Int} (h : v.PosAtS p) :
    (((regapV s v).flat.length : Nat) : Int) = v.ext := by
  cases v with
  | tok k v =>
    have := layLen_of_layAt h
    simp only [regapV, Val.flat, Val.ext, Val.lay, List.length_append, this]; omega
  | item t => exact regap_full_length s h

theorem regap_flats_length (s : Str) : ∀ {l : List Val} {off : Int}, SeqPosS l off →
    (((flats (l.map (regapV s))).length : Nat) : Int) = extsV l
  | [], _, _ => rfl
  | v :: r, off, h => by
    simp only [SeqPosS] at h
    have h1 := regapV_flat_length s h.1
    have h2 := regap_flats_length s h.2
    simp only [List.map_cons, flats_cons, List.length_append, extsV]
    omega

end Luqum
