/-
  Luqum.Lemmas.ReparseRun — two facts about every tree returned by the parser, by a run invariant
  ("every value on the stack is good", kept by every semantic action, for arbitrary tables):
  * its layout is blank (`Tree.blankLayout`): the heads and tails the lexer attaches to the tokens
    are runs of `\s`, and the semantic actions only move and concatenate them;
  * its numerals satisfy `numsOK`: the stored value is `Decimal(raw).normalize()` (at most `decPrec`
    significant digits, not negative) or `int(raw)`, or the default of the class.
-/
import Luqum.Lemmas.ReparseNums
import Luqum.Lemmas.Lockstep
import Luqum.Lemmas.RelexPieces
import Luqum.Model.ParserInst

namespace Luqum
open Luqum.Compl (fuzzyDflt boostDflt)

/-! ### layout -/

theorem blank_setHead_pre (t : Tree) (x : Str) (h : t.blankLayout = true) (hx : isBlank x = true) :
    (t.setHead (x ++ t.head)).blankLayout = true := by
  cases t <;>
    simp only [Tree.setHead, Tree.setLay, Tree.lay, Tree.head, Tree.blankLayout, Bool.and_eq_true,
      isBlank_append] at h ⊢ <;> simp [h, hx]

theorem blank_setHead_post (t : Tree) (x : Str) (h : t.blankLayout = true) (hx : isBlank x = true) :
    (t.setHead (t.head ++ x)).blankLayout = true := by
  cases t <;>
    simp only [Tree.setHead, Tree.setLay, Tree.lay, Tree.head, Tree.blankLayout, Bool.and_eq_true,
      isBlank_append] at h ⊢ <;> simp [h, hx]

theorem blank_setTail_post (t : Tree) (x : Str) (h : t.blankLayout = true) (hx : isBlank x = true) :
    (t.setTail (t.tail ++ x)).blankLayout = true := by
  cases t <;>
    simp only [Tree.setTail, Tree.setLay, Tree.lay, Tree.tail, Tree.blankLayout, Bool.and_eq_true,
      isBlank_append] at h ⊢ <;> simp [h, hx]

theorem blank_toFieldGroup (e : Tree) : (toFieldGroup e).blankLayout = e.blankLayout := by
  unfold toFieldGroup
  split <;> simp [Tree.blankLayout]

theorem blankLayouts_append (xs ys : List Tree) :
    Tree.blankLayouts (xs ++ ys) = (Tree.blankLayouts xs && Tree.blankLayouts ys) := by
  induction xs with
  | nil => simp [Tree.blankLayouts]
  | cons x r ih => simp [Tree.blankLayouts, ih, Bool.and_assoc]

theorem blankLayouts_side (k : OpK) (t : Tree) (h : t.blankLayout = true) :
    Tree.blankLayouts (side k t) = true := by
  rcases side_cases k t with ⟨xs, l, rfl, hs⟩ | hs
  · rw [hs]
    simp only [Tree.blankLayout, Bool.and_eq_true] at h
    exact h.2
  · rw [hs]; simp [Tree.blankLayouts, h]

theorem blankLayouts_pushHead (tl : Str) (xs : List Tree) (h : Tree.blankLayouts xs = true)
    (htl : isBlank tl = true) : Tree.blankLayouts (pushHead tl xs) = true := by
  cases xs with
  | nil => rfl
  | cons x r =>
    simp only [Tree.blankLayouts, Bool.and_eq_true] at h
    simp only [pushHead, Tree.blankLayouts, Bool.and_eq_true]
    exact ⟨blank_setHead_post x tl h.1 htl, h.2⟩

theorem blank_binaryOp (k : OpK) (a b : Tree) (ol : Option Lay) (ha : a.blankLayout = true)
    (hb : b.blankLayout = true) (hol : isBlank (opTailOf ol) = true) :
    (binaryOp k a ol b).blankLayout = true := by
  obtain ⟨pos, size, he⟩ := binaryOp_eq k a b ol
  rw [he]
  simp only [Tree.blankLayout, blankLayouts_append, Bool.and_eq_true]
  exact ⟨⟨rfl, rfl⟩, blankLayouts_side k a ha,
    blankLayouts_pushHead _ _ (blankLayouts_side k b hb) hol⟩

/-! ### numerals -/

@[simp] theorem numsOK_setLay (t : Tree) (l : Lay) : numsOK (t.setLay l) = numsOK t := by
  cases t with
  | approx k e n l' => cases k <;> simp [Tree.setLay, numsOK]
  | _ => simp [Tree.setLay, numsOK]

@[simp] theorem numsOK_setHead (t : Tree) (h : Str) : numsOK (t.setHead h) = numsOK t := numsOK_setLay _ _
@[simp] theorem numsOK_setTail (t : Tree) (h : Str) : numsOK (t.setTail h) = numsOK t := numsOK_setLay _ _

@[simp] theorem numsOK_toFieldGroup (e : Tree) : numsOK (toFieldGroup e) = numsOK e := by
  unfold toFieldGroup
  split <;> simp [numsOK]

theorem numssOK_append (xs ys : List Tree) : numssOK (xs ++ ys) = (numssOK xs && numssOK ys) := by
  induction xs with
  | nil => simp [numssOK]
  | cons x r ih => simp [numssOK, ih, Bool.and_assoc]

theorem numssOK_pushHead (tl : Str) (xs : List Tree) : numssOK (pushHead tl xs) = numssOK xs := by
  cases xs <;> simp [pushHead, numssOK]

theorem numssOK_side (k : OpK) (t : Tree) : numssOK (side k t) = numsOK t := by
  rcases side_cases k t with ⟨xs, l, rfl, hs⟩ | hs
  · rw [hs]; simp [numsOK]
  · rw [hs]; simp [numssOK]

theorem numsOK_binaryOp (k : OpK) (a b : Tree) (ol : Option Lay) (ha : numsOK a = true)
    (hb : numsOK b = true) : numsOK (binaryOp k a ol b) = true := by
  obtain ⟨pos, size, he⟩ := binaryOp_eq k a b ol
  rw [he]
  simp [numsOK, numssOK_append, numssOK_pushHead, numssOK_side, ha, hb]

theorem shortSig_normalize (d : Dec) : shortSig d.normalize = true := by
  simp only [shortSig, decide_eq_true_eq]
  rw [Dec.canon_coeff_of_normal (Dec.normalize_normal d)]
  rcases Dec.normalize_normal d with ⟨h0, _⟩ | ⟨_, hlt⟩
  · rw [h0, natDigits_zero]; decide
  · exact (natDigits_length_le_iff (by decide)).mpr hlt

/-- the number `p_fuzzy` / `p_boosting` build satisfies `decOK` -/
theorem decOK_decNum {a : TokV} {d : Dec} {n : Num} (h : decNum a d = .ok n) : decOK d n = true := by
  unfold decNum at h
  cases hv : a.value with
  | none =>
    rw [hv] at h
    cases h
    simp [decOK, Dec.numEq]
  | some s =>
    rw [hv] at h
    simp only at h
    cases hd : Dec.ofLiteral s with
    | none => rw [hd] at h; cases h
    | some d' =>
      rw [hd] at h
      cases h
      simp only [decOK, Bool.false_eq_true, if_false, Bool.and_eq_true, Bool.not_eq_true']
      exact ⟨by rw [Dec.normalize_neg]; exact ofLiteral_neg hd, shortSig_normalize d'⟩

/-- the number `p_proximity` builds satisfies `intOK` -/
theorem intOK_intNum {a : TokV} {n : Num} (h : intNum a = .ok n) : intOK n = true := by
  unfold intNum at h
  cases hv : a.value with
  | none =>
    rw [hv] at h
    cases h
    simp [intOK, Dec.numEq]
  | some s =>
    rw [hv] at h
    simp only at h
    cases hk : intOfLiteral s with
    | none => rw [hk] at h; cases h
    | some k =>
      rw [hk] at h
      cases h
      have hlen : s.length ≤ intMaxStrDigits := by
        unfold intOfLiteral at hk
        split at hk
        · rename_i hc
          simp only [Bool.and_eq_true, decide_eq_true_eq] at hc
          exact hc.2
        · cases hk
      obtain ⟨_, hle, _, _⟩ := Props.C01Num.proximity_respelling s k hk
      have hr : (Dec.render { coeff := k }).length ≤ intMaxStrDigits := by
        rw [Props.C01Num.proximity_shown]; omega
      simp [intOK, hr]

/-! ### the invariant -/

/-- a good stack value: an item with a blank layout and good numerals, or a token value with a
blank head and tail -/
def RVal : Val → Prop
  | .item t => t.blankLayout = true ∧ numsOK t = true
  | .tok _ tv => isBlank tv.lay.head = true ∧ isBlank tv.lay.tail = true

theorem rval_unary {k : TokK} {o : TokV} {e : Tree} {mk : Tree → Lay → Tree}
    (hmk : ∀ a l, (mk a l).blankLayout = (isBlank l.head && isBlank l.tail && a.blankLayout) ∧
      numsOK (mk a l) = numsOK a)
    (ho : RVal (.tok k o)) (he : RVal (.item e)) : RVal (.item (mgrUnary o.lay e mk)) := by
  simp only [RVal] at ho he ⊢
  simp only [mgrUnary, (hmk _ _).1, (hmk _ _).2, numsOK_setHead, Bool.and_eq_true]
  exact ⟨⟨⟨ho.1, rfl⟩, blank_setHead_pre e _ he.1 ho.2⟩, he.2⟩

theorem rval_postUnary {k : TokK} {a : TokV} {e : Tree} {mk : Tree → Lay → Tree} (b : Bool)
    (hmk : ∀ x l, (mk x l).blankLayout = (isBlank l.head && isBlank l.tail && x.blankLayout) ∧
      numsOK (mk x l) = (b && numsOK x))
    (hb : b = true) (he : RVal (.item e)) (ha : RVal (.tok k a)) :
    RVal (.item (mgrPostUnary e a.lay mk)) := by
  simp only [RVal] at ha he ⊢
  simp only [mgrPostUnary, (hmk _ _).1, (hmk _ _).2, numsOK_setTail, Bool.and_eq_true]
  exact ⟨⟨⟨rfl, ha.2⟩, blank_setTail_post e _ he.1 ha.1⟩, hb, he.2⟩

theorem rval_bin (k : OpK) (kk : TokK) (a : Tree) (o : TokV) (b : Tree) (ha : RVal (.item a))
    (ho : RVal (.tok kk o)) (hb : RVal (.item b)) : RVal (.item (binaryOp k a (some o.lay) b)) :=
  ⟨blank_binaryOp _ _ _ _ ha.1 hb.1 ho.2, numsOK_binaryOp _ _ _ _ ha.2 hb.2⟩

theorem rval_impl (a b : Tree) (ha : RVal (.item a)) (hb : RVal (.item b)) :
    RVal (.item (binaryOp .unk a none b)) :=
  ⟨blank_binaryOp _ _ _ _ ha.1 hb.1 rfl, numsOK_binaryOp _ _ _ _ ha.2 hb.2⟩

theorem rval_group (lp : TokV) (e : Tree) (rp : TokV) (pos size : Option Int)
    (h1 : RVal (.tok .lparen lp)) (h2 : RVal (.item e)) (h3 : RVal (.tok .rparen rp)) :
    RVal (.item (.group .group
      ((e.setHead (lp.lay.tail ++ e.head)).setTail
        ((e.setHead (lp.lay.tail ++ e.head)).tail ++ rp.lay.head))
      { head := lp.lay.head, tail := rp.lay.tail, pos := pos, size := size })) := by
  simp only [RVal] at h1 h2 h3 ⊢
  simp only [Tree.blankLayout, numsOK, numsOK_setTail, numsOK_setHead, Bool.and_eq_true]
  exact ⟨⟨⟨h1.1, h3.2⟩, blank_setTail_post _ _ (blank_setHead_pre e _ h2.1 h1.2) h3.1⟩, h2.2⟩

theorem rval_range (lb : TokV) (lo : Tree) (tt : TokV) (hi : Tree) (rb : TokV) (il ih : Bool)
    (pos size : Option Int) (h1 : RVal (.tok .lbracket lb)) (h2 : RVal (.item lo))
    (h3 : RVal (.tok .to tt)) (h4 : RVal (.item hi)) (h5 : RVal (.tok .rbracket rb)) :
    RVal (.item (.range
      ((lo.setHead (lb.lay.tail ++ lo.head)).setTail
        ((lo.setHead (lb.lay.tail ++ lo.head)).tail ++ tt.lay.head))
      ((hi.setHead (tt.lay.tail ++ hi.head)).setTail
        ((hi.setHead (tt.lay.tail ++ hi.head)).tail ++ rb.lay.head))
      il ih { head := lb.lay.head, tail := rb.lay.tail, pos := pos, size := size })) := by
  simp only [RVal] at h1 h2 h3 h4 h5 ⊢
  simp only [Tree.blankLayout, numsOK, numsOK_setTail, numsOK_setHead, Bool.and_eq_true]
  exact ⟨⟨⟨⟨h1.1, h5.2⟩, blank_setTail_post _ _ (blank_setHead_pre lo _ h2.1 h1.2) h3.1⟩,
    blank_setTail_post _ _ (blank_setHead_pre hi _ h4.1 h3.2) h5.1⟩, h2.2, h4.2⟩

theorem rval_field (name : Str) (nl : Lay) (c : TokV) (e : Tree) (pos size : Option Int)
    (h1 : RVal (.item (.term .word name nl))) (h2 : RVal (.tok .column c)) (h3 : RVal (.item e)) :
    RVal (.item (.field name ((toFieldGroup e).setHead (c.lay.tail ++ (toFieldGroup e).head))
      { head := nl.head, tail := [], pos := pos, size := size })) := by
  simp only [RVal] at h1 h2 h3 ⊢
  simp only [Tree.blankLayout, Bool.and_eq_true] at h1
  simp only [Tree.blankLayout, numsOK, numsOK_setHead, numsOK_toFieldGroup, Bool.and_eq_true]
  exact ⟨⟨⟨h1.1.1, rfl⟩, blank_setHead_pre _ _ (by rw [blank_toFieldGroup]; exact h3.1) h2.2⟩, h3.2⟩

theorem rval_toTerm (t : TokV) (pos size : Option Int) (h1 : RVal (.tok .to t)) :
    RVal (.item (.term .word (t.value.getD [])
      { head := t.lay.head, tail := t.lay.tail, pos := pos, size := size })) := by
  simp only [RVal] at h1 ⊢
  simp only [Tree.blankLayout, numsOK, Bool.and_eq_true]
  exact ⟨h1, trivial⟩

/-- **every semantic action keeps the invariant** -/
theorem act_rval {f : String} {args : List Val} {v : Val} (h : act f args = .ok v)
    (hargs : ∀ a ∈ args, RVal a) : RVal v := by
  unfold act at h
  split at h
  all_goals try (simp at h; done)
  all_goals try (cases h; exact hargs _ (List.mem_cons_self ..))
  case h_1 =>
    cases h
    exact rval_bin _ _ _ _ _ (hargs _ (by simp)) (hargs _ (List.mem_cons_of_mem _ (List.mem_cons_self ..)))
      (hargs _ (by simp))
  case h_2 =>
    cases h
    exact rval_bin _ _ _ _ _ (hargs _ (by simp)) (hargs _ (List.mem_cons_of_mem _ (List.mem_cons_self ..)))
      (hargs _ (by simp))
  case h_3 => cases h; exact rval_impl _ _ (hargs _ (by simp)) (hargs _ (by simp))
  case h_4 =>
    cases h
    exact rval_unary (fun a l => ⟨rfl, rfl⟩) (hargs _ (List.mem_cons_self ..)) (hargs _ (by simp))
  case h_5 =>
    cases h
    exact rval_unary (fun a l => ⟨rfl, rfl⟩) (hargs _ (List.mem_cons_self ..)) (hargs _ (by simp))
  case h_6 =>
    cases h
    exact rval_unary (fun a l => ⟨rfl, rfl⟩) (hargs _ (List.mem_cons_self ..)) (hargs _ (by simp))
  case h_8 =>
    split at h
    cases h
    exact rval_group _ _ _ _ _ (hargs _ (List.mem_cons_self ..)) (hargs _ (by simp))
      (hargs _ (List.mem_cons_of_mem _ (List.mem_cons_of_mem _ (List.mem_cons_self ..))))
  case h_9 =>
    split at h
    cases h
    exact rval_range _ _ _ _ _ _ _ _ _ (hargs _ (List.mem_cons_self ..)) (hargs _ (by simp))
      (hargs _ (List.mem_cons_of_mem _ (List.mem_cons_of_mem _ (List.mem_cons_self ..))))
      (hargs _ (by simp))
      (hargs _ (List.mem_cons_of_mem _ (List.mem_cons_of_mem _ (List.mem_cons_of_mem _
        (List.mem_cons_of_mem _ (List.mem_cons_self ..))))))
  case h_10 =>
    cases h
    exact rval_unary (fun a l => ⟨rfl, rfl⟩) (hargs _ (List.mem_cons_self ..)) (hargs _ (by simp))
  case h_13 =>
    cases h
    exact rval_unary (fun a l => ⟨rfl, rfl⟩) (hargs _ (List.mem_cons_self ..)) (hargs _ (by simp))
  case h_14 =>
    cases h
    exact rval_unary (fun a l => ⟨rfl, rfl⟩) (hargs _ (List.mem_cons_self ..)) (hargs _ (by simp))
  case h_15 =>
    rename_i name nl c e
    have h' : Val.item (.field name ((toFieldGroup e).setHead (c.lay.tail ++ (toFieldGroup e).head))
        { head := nl.head, tail := [],
          pos := (mgrPos [nl, c.lay, (toFieldGroup e).lay] true false).1,
          size := (mgrPos [nl, c.lay, (toFieldGroup e).lay] true false).2 }) = v := Except.ok.inj h
    subst h'
    exact rval_field _ _ _ _ _ _ (hargs _ (List.mem_cons_self ..))
      (hargs _ (List.mem_cons_of_mem _ (List.mem_cons_self ..))) (hargs _ (by simp))
  case h_17 =>
    split at h
    · rename_i n hn; cases h
      exact rval_postUnary (intOK n) (fun x l => ⟨rfl, rfl⟩) (intOK_intNum hn)
        (hargs _ (List.mem_cons_self ..)) (hargs _ (List.mem_cons_of_mem _ (List.mem_cons_self ..)))
    · cases h
  case h_18 =>
    split at h
    · rename_i n hn; cases h
      exact rval_postUnary (decOK boostDflt n) (fun x l => ⟨rfl, rfl⟩) (decOK_decNum hn)
        (hargs _ (List.mem_cons_self ..)) (hargs _ (List.mem_cons_of_mem _ (List.mem_cons_self ..)))
    · cases h
  case h_20 =>
    split at h
    · rename_i n hn; cases h
      exact rval_postUnary (decOK fuzzyDflt n) (fun x l => ⟨rfl, rfl⟩) (decOK_decNum hn)
        (hargs _ (List.mem_cons_self ..)) (hargs _ (List.mem_cons_of_mem _ (List.mem_cons_self ..)))
    · cases h
  case h_22 =>
    split at h
    cases h
    exact rval_toTerm _ _ _ (hargs _ (List.mem_cons_self ..))

/-! ### the tokens -/

theorem toksOf_blank {trail : Str} (htr : isBlank trail = true) : ∀ (ps : List Piece) (pos : Nat)
    (first : Bool), (∀ p ∈ ps, isBlank p.sep = true) →
    ∀ t ∈ toksOf pos first ps trail, isBlank t.head = true ∧ isBlank t.tail = true
  | [], _, _, _, t, ht => by simp [toksOf] at ht
  | p :: ps, pos, first, hb, t, ht => by
    simp only [toksOf, List.mem_cons] at ht
    rcases ht with rfl | ht
    · refine ⟨?_, ?_⟩
      · simp only
        split
        · exact hb p (by simp)
        · rfl
      · simp only
        cases ps with
        | nil => exact htr
        | cons q qs => exact hb q (by simp)
    · exact toksOf_blank htr ps _ _ (fun q hq => hb q (List.mem_cons_of_mem _ hq)) t ht

/-- **the heads and tails the lexer attaches to the tokens are blank** (input without illegal
character) -/
theorem lex_toks_blank (s : Str) (h : (lex s).2 = none) :
    ∀ t ∈ (lex s).1, isBlank t.head = true ∧ isBlank t.tail = true := by
  obtain ⟨ps, trail, hs, hok⟩ := lex_decomp s h
  have hl := lex_spell ps trail hok
  rw [← hs] at hl
  rw [hl]
  exact toksOf_blank hok.blankTrail ps 0 true hok.blank

theorem rval_toVal {t : Tok} (h : isBlank t.head = true ∧ isBlank t.tail = true) : RVal t.toVal := by
  obtain ⟨kind, text, pos, head, tail⟩ := t
  cases kind <;> simp only [Tok.toVal, RVal, Tree.blankLayout, numsOK, Bool.and_eq_true] <;>
    first | exact ⟨h, trivial⟩ | exact h

/-! ### the run -/

/-- the invariant of the driver loop -/
def RInv (c : Cfg) (toks : List Tok) : Prop :=
  (∀ v ∈ c.vals, RVal v) ∧ ∀ t ∈ toks, RVal t.toVal

theorem runLoop_rval (T : Tables) (fuel : Nat) (toks : List Tok) (lerr : Option LexErr) (v : Val)
    (hT : ∀ t ∈ toks, RVal t.toVal)
    (h : runLoop T fuel { states := [0], vals := [] } toks lerr = .ok v) : RVal v := by
  have := runLoop_ok (T := T) (P := RInv)
    (fun c t toks c' hP hs => by
      obtain ⟨t', a, hl, _, _, rfl⟩ := step_shift hs
      cases hl
      refine ⟨fun x hx => ?_, fun x hx => hP.2 x (List.mem_cons_of_mem _ hx)⟩
      simp only [List.mem_cons] at hx
      rcases hx with rfl | hx
      · exact hP.2 t (List.mem_cons_self ..)
      · exact hP.1 x hx)
    (fun c toks c' hP hs => by
      obtain ⟨n, f, lhs, v, g, _, hact, _, rfl⟩ := step_reduce hs
      refine ⟨fun x hx => ?_, hP.2⟩
      simp only [List.mem_cons] at hx
      rcases hx with rfl | hx
      · exact act_rval hact (fun a ha => hP.1 a (List.mem_of_mem_take (List.mem_reverse.1 ha)))
      · exact hP.1 x (List.mem_of_mem_drop hx))
    fuel { states := [0], vals := [] } toks lerr v ⟨fun x hx => (by cases hx), hT⟩ h
  obtain ⟨c', toks', hP, hacc, _⟩ := this
  obtain ⟨_, r, hv⟩ := step_accept hacc
  exact hP.1 v (by rw [hv]; exact List.mem_cons_self ..)

/-- **every tree returned by the parser has a blank layout and good numerals** -/
theorem parse_rval (s : Str) (t : Tree) (h : parse s = .ok t) :
    t.blankLayout = true ∧ numsOK t = true := by
  have hnolex := Props.C01.parse_ok_no_lexErr s t h
  have hblank := lex_toks_blank s hnolex
  unfold parse parseWith at h
  rcases hlex : lex s with ⟨toks, lerr⟩
  rw [hlex] at h hblank
  simp only at h hblank
  split at h
  · rename_i t' hrun
    cases h
    exact runLoop_rval _ _ toks lerr _ (fun x hx => rval_toVal (hblank x hx)) hrun
  · cases h
  · cases h

end Luqum
