/-
  Luqum.Lemmas.EsLeaves — the leaf clauses of a JSON query and the items of an E-tree (lemmas of C06).

  * `leaves j`      : the leaf clauses of a JSON query in document order, through `bool` and `nested`;
  * `eLeaves e`     : the items of an E-tree in the order in which their clauses appear in `e.json`
                      (an `EBoolOperation` regroups: must-parts, should-parts, must_not-parts);
  * `eItems e`      : the items of an E-tree in the order of the E-tree;
  * `leaves_json`   : `leaves (e.json c) = (eLeaves e).map (EItem.json c)`;
  * `eLeaves_perm`  : `eLeaves e` is a permutation of `eItems e`, and equal to it when the E-tree
                      contains no `EBoolOperation` (`eLeaves_eq`).
-/
import Luqum.Lemmas.EsJson

namespace Luqum.Lemmas.Es
open Luqum

/-! ### the leaf clauses of a JSON query -/

def queryKey : Str := "query".toList

mutual
/-- the leaf clauses of a query, in document order: a clause whose first key is `bool` stands for the
clauses in the lists of its value (in the order of the keys), a clause whose first key is `nested` for
the clauses of its `query`; any other clause is a leaf -/
def leaves : JVal → List JVal
  | .obj ((k, v) :: r) =>
    if k = boolKey then leavesBool v
    else if k = nestedKey then leavesNested v
    else [.obj ((k, v) :: r)]
  | j => [j]
/-- the value of `bool`: an object whose values are lists of clauses -/
def leavesBool : JVal → List JVal
  | .obj kvs => leavesParts kvs
  | _ => []
def leavesParts : List (Str × JVal) → List JVal
  | [] => []
  | (_, v) :: r => leavesPart v ++ leavesParts r
def leavesPart : JVal → List JVal
  | .arr xs => leavesList xs
  | _ => []
def leavesList : List JVal → List JVal
  | [] => []
  | x :: r => leaves x ++ leavesList r
/-- the value of `nested`: an object with a `query` -/
def leavesNested : JVal → List JVal
  | .obj kvs => leavesQuery kvs
  | _ => []
def leavesQuery : List (Str × JVal) → List JVal
  | [] => []
  | (k, v) :: r => if k = queryKey then leaves v else leavesQuery r
end

theorem leaves_of_isLeafClause (j : JVal) (h : isLeafClause j = true) : leaves j = [j] := by
  match j with
  | .obj ((k, v) :: r) =>
    simp only [isLeafClause, clauseKey, plainKey, Bool.and_eq_true, bne_iff_ne, ne_eq] at h
    simp only [leaves, h.1, h.2, if_false]
  | .obj [] => simp only [leaves]
  | .str _ => simp only [leaves]
  | .num _ => simp only [leaves]
  | .bool _ => simp only [leaves]
  | .null => simp only [leaves]
  | .arr _ => simp only [leaves]

theorem leavesList_append (xs ys : List JVal) : leavesList (xs ++ ys) = leavesList xs ++ leavesList ys := by
  induction xs with
  | nil => simp only [leavesList, List.nil_append]
  | cons x r ih => simp only [List.cons_append, leavesList, ih, List.append_assoc]

theorem leavesParts_append (xs ys : List (Str × JVal)) :
    leavesParts (xs ++ ys) = leavesParts xs ++ leavesParts ys := by
  induction xs with
  | nil => simp only [leavesParts, List.nil_append]
  | cons x r ih => obtain ⟨k, v⟩ := x; simp only [List.cons_append, leavesParts, ih, List.append_assoc]

/-- a part of a `bool` that is left out when empty -/
theorem leavesParts_opt (k : Str) (xs : List JVal) :
    leavesParts (if xs.isEmpty then [] else [(k, JVal.arr xs)]) = leavesList xs := by
  cases xs with
  | nil => simp only [List.isEmpty_nil, if_true, leavesParts, leavesList]
  | cons x r =>
    simp only [List.isEmpty_cons, Bool.false_eq_true, if_false, leavesParts, leavesPart, List.append_nil]

/-! ### the items of an E-tree -/

mutual
/-- the items of an E-tree in the order in which their clauses appear in its JSON -/
def eLeaves : ETree → List EItem
  | .item i => [i]
  | .nested _ inner _ => eLeaves inner
  | .op .boolOp items => eBoolPart .must items ++ eBoolPart .should items ++ eBoolPart .mustNot items
  | .op _ items => eLeavesL items
def eLeavesL : List ETree → List EItem
  | [] => []
  | x :: r => eLeaves x ++ eLeavesL r
/-- as `ETree.boolPart` -/
def eBoolPart (part : EOpK) : List ETree → List EItem
  | [] => []
  | .op .must sub :: r => (if part == .must then eLeavesL sub else []) ++ eBoolPart part r
  | .op .mustNot sub :: r => (if part == .mustNot then eLeavesL sub else []) ++ eBoolPart part r
  | x :: r => (if part == .should then eLeaves x else []) ++ eBoolPart part r
end

mutual
/-- the items of an E-tree in the order of the E-tree -/
def eItems : ETree → List EItem
  | .item i => [i]
  | .nested _ inner _ => eItems inner
  | .op _ items => eItemsL items
def eItemsL : List ETree → List EItem
  | [] => []
  | x :: r => eItems x ++ eItemsL r
end

theorem eItemsL_append (xs ys : List ETree) : eItemsL (xs ++ ys) = eItemsL xs ++ eItemsL ys := by
  induction xs with
  | nil => simp only [eItemsL, List.nil_append]
  | cons x r ih => simp only [List.cons_append, eItemsL, ih, List.append_assoc]

mutual
/-- the E-tree contains no `EBoolOperation` -/
def noBoolOp : ETree → Bool
  | .item _ => true
  | .nested _ inner _ => noBoolOp inner
  | .op k items => k != .boolOp && noBoolOpL items
def noBoolOpL : List ETree → Bool
  | [] => true
  | x :: r => noBoolOp x && noBoolOpL r
end

theorem noBoolOpL_append (xs ys : List ETree) : noBoolOpL (xs ++ ys) = (noBoolOpL xs && noBoolOpL ys) := by
  induction xs with
  | nil => simp [noBoolOpL]
  | cons x r ih => simp [noBoolOpL, ih, Bool.and_assoc]

/-! ### the leaf clauses of the JSON of an E-tree -/

section Json
variable (c : EsCfg) (hc : cfgPlain c = true)
include hc

theorem leaves_item (i : EItem) (hi : okItem i = true) : leaves (i.json c) = [i.json c] :=
  leaves_of_isLeafClause _ (isLeafClause_json c i hc hi)

set_option linter.unusedSectionVars false in
mutual
/-- the leaf clauses of the JSON of an E-tree are the JSON of its items -/
theorem leaves_json : ∀ (e : ETree), allItems okItem e = true →
    leaves (e.json c) = (eLeaves e).map (EItem.json c)
  | .item i, h => by
      simp only [ETree.json, eLeaves, List.map_cons, List.map_nil]
      exact leaves_item c hc i h
  | .nested p inner nm, h => by
      simp only [allItems] at h
      have hq : ("path".toList = queryKey) = False := by decide
      simp only [ETree.json, eLeaves, leaves, leavesNested, List.cons_append, leavesQuery, hq, if_false, if_true,
        (by decide : ("nested".toList = boolKey) = False),
        (by decide : ("nested".toList = nestedKey) = True), (by decide : ("query".toList = queryKey) = True)]
      exact leaves_json inner h
  | .op .boolOp items, h => by
      simp only [allItems] at h
      simp only [ETree.json, eLeaves, leaves, leavesBool, (by decide : ("bool".toList = boolKey) = True), if_true,
        leavesParts_append, leavesParts_opt, List.map_append,
        leaves_boolPart .must items h, leaves_boolPart .should items h, leaves_boolPart .mustNot items h]
  | .op .must items, h => by
      simp only [allItems] at h
      simp only [ETree.json, eLeaves, leaves, leavesBool, (by decide : ("bool".toList = boolKey) = True), if_true,
        leavesParts, leavesPart, List.append_nil, leaves_jsons items h]
  | .op .mustNot items, h => by
      simp only [allItems] at h
      simp only [ETree.json, eLeaves, leaves, leavesBool, (by decide : ("bool".toList = boolKey) = True), if_true,
        leavesParts, leavesPart, List.append_nil, leaves_jsons items h]
  | .op .should items, h => by
      simp only [allItems] at h
      simp only [ETree.json, eLeaves, leaves, leavesBool, (by decide : ("bool".toList = boolKey) = True), if_true,
        leavesParts, leavesPart, List.append_nil, leaves_jsons items h]
theorem leaves_jsons : ∀ (es : List ETree), allItemsL okItem es = true →
    leavesList (ETree.jsons c es) = (eLeavesL es).map (EItem.json c)
  | [], _ => by simp only [ETree.jsons, leavesList, eLeavesL, List.map_nil]
  | x :: r, h => by
      simp only [allItemsL, Bool.and_eq_true] at h
      simp only [ETree.jsons, leavesList, eLeavesL, List.map_append, leaves_json x h.1, leaves_jsons r h.2]
theorem leaves_boolPart (part : EOpK) : ∀ (es : List ETree), allItemsL okItem es = true →
    leavesList (ETree.boolPart c part es) = (eBoolPart part es).map (EItem.json c)
  | [], _ => by simp only [ETree.boolPart, leavesList, eBoolPart, List.map_nil]
  | .op .must sub :: r, h => by
      simp only [allItemsL, allItems, Bool.and_eq_true] at h
      simp only [ETree.boolPart, eBoolPart, leavesList_append, List.map_append, leaves_boolPart part r h.2]
      split
      · rw [leaves_jsons sub h.1]
      · rfl
  | .op .mustNot sub :: r, h => by
      simp only [allItemsL, allItems, Bool.and_eq_true] at h
      simp only [ETree.boolPart, eBoolPart, leavesList_append, List.map_append, leaves_boolPart part r h.2]
      split
      · rw [leaves_jsons sub h.1]
      · rfl
  | .op .should sub :: r, h => by
      simp only [allItemsL, Bool.and_eq_true] at h
      simp only [ETree.boolPart, eBoolPart, leavesList_append, List.map_append, leaves_boolPart part r h.2]
      split
      · simp only [leavesList, List.append_nil, leaves_json _ h.1]
      · rfl
  | .op .boolOp sub :: r, h => by
      simp only [allItemsL, Bool.and_eq_true] at h
      simp only [ETree.boolPart, eBoolPart, leavesList_append, List.map_append, leaves_boolPart part r h.2]
      split
      · simp only [leavesList, List.append_nil, leaves_json _ h.1]
      · rfl
  | .item i :: r, h => by
      simp only [allItemsL, Bool.and_eq_true] at h
      simp only [ETree.boolPart, eBoolPart, leavesList_append, List.map_append, leaves_boolPart part r h.2]
      split
      · simp only [leavesList, List.append_nil, leaves_json _ h.1]
      · rfl
  | .nested p i n :: r, h => by
      simp only [allItemsL, Bool.and_eq_true] at h
      simp only [ETree.boolPart, eBoolPart, leavesList_append, List.map_append, leaves_boolPart part r h.2]
      split
      · simp only [leavesList, List.append_nil, leaves_json _ h.1]
      · rfl
end

end Json

/-! ### `eLeaves` against `eItems` -/

mutual
theorem eLeaves_eq : ∀ (e : ETree), noBoolOp e = true → eLeaves e = eItems e
  | .item i, _ => by simp only [eLeaves, eItems]
  | .nested p inner nm, h => by
      simp only [noBoolOp] at h; simp only [eLeaves, eItems, eLeaves_eq inner h]
  | .op .boolOp items, h => by simp [noBoolOp] at h
  | .op .must items, h => by
      simp only [noBoolOp, Bool.and_eq_true] at h; simp only [eLeaves, eItems, eLeavesL_eq items h.2]
  | .op .mustNot items, h => by
      simp only [noBoolOp, Bool.and_eq_true] at h; simp only [eLeaves, eItems, eLeavesL_eq items h.2]
  | .op .should items, h => by
      simp only [noBoolOp, Bool.and_eq_true] at h; simp only [eLeaves, eItems, eLeavesL_eq items h.2]
theorem eLeavesL_eq : ∀ (es : List ETree), noBoolOpL es = true → eLeavesL es = eItemsL es
  | [], _ => by simp only [eLeavesL, eItemsL]
  | x :: r, h => by
      simp only [noBoolOpL, Bool.and_eq_true] at h
      simp only [eLeavesL, eItemsL, eLeaves_eq x h.1, eLeavesL_eq r h.2]
end

/-- the three parts of an `EBoolOperation` -/
def eBoolParts (es : List ETree) : List EItem :=
  eBoolPart .must es ++ eBoolPart .should es ++ eBoolPart .mustNot es

theorem eBoolParts_cons_perm (x : ETree) (r : List ETree) (hd : List EItem)
    (h : (eBoolPart .must [x] ++ eBoolPart .should [x] ++ eBoolPart .mustNot [x]).Perm hd)
    (hm : ∀ part, eBoolPart part (x :: r) = eBoolPart part [x] ++ eBoolPart part r) :
    (eBoolParts (x :: r)).Perm (hd ++ eBoolParts r) := by
  unfold eBoolParts
  rw [hm .must, hm .should, hm .mustNot]
  refine List.Perm.trans ?_ (List.Perm.append_right _ h)
  generalize eBoolPart .must [x] = a1, eBoolPart .should [x] = a2, eBoolPart .mustNot [x] = a3
  generalize eBoolPart .must r = b1, eBoolPart .should r = b2, eBoolPart .mustNot r = b3
  simp only [List.append_assoc]
  refine List.Perm.append_left a1 ?_
  -- b1 ++ (a2 ++ b2 ++ (a3 ++ b3)) ~ a2 ++ (a3 ++ (b1 ++ (b2 ++ b3)))
  refine List.Perm.trans (List.perm_append_comm_assoc b1 a2 _) (List.Perm.append_left a2 ?_)
  refine List.Perm.trans (List.Perm.append_left b1 (List.perm_append_comm_assoc b2 a3 b3)) ?_
  exact List.perm_append_comm_assoc b1 a3 _

theorem eBoolPart_cons (part : EOpK) (x : ETree) (r : List ETree) :
    eBoolPart part (x :: r) = eBoolPart part [x] ++ eBoolPart part r := by
  cases x with
  | item i => simp only [eBoolPart, List.append_nil]
  | nested p i n => simp only [eBoolPart, List.append_nil]
  | op k sub => cases k <;> simp only [eBoolPart, List.append_nil]

mutual
/-- up to the regrouping of an `EBoolOperation`, the clauses are in the order of the E-tree -/
theorem eLeaves_perm : ∀ (e : ETree), (eLeaves e).Perm (eItems e)
  | .item i => by simp only [eLeaves, eItems]; exact .refl _
  | .nested p inner nm => by simp only [eLeaves, eItems]; exact eLeaves_perm inner
  | .op .boolOp items => by simp only [eLeaves, eItems]; exact eBoolParts_perm items
  | .op .must items => by simp only [eLeaves, eItems]; exact eLeavesL_perm items
  | .op .mustNot items => by simp only [eLeaves, eItems]; exact eLeavesL_perm items
  | .op .should items => by simp only [eLeaves, eItems]; exact eLeavesL_perm items
theorem eLeavesL_perm : ∀ (es : List ETree), (eLeavesL es).Perm (eItemsL es)
  | [] => by simp only [eLeavesL, eItemsL]; exact .refl _
  | x :: r => by
      simp only [eLeavesL, eItemsL]; exact List.Perm.append (eLeaves_perm x) (eLeavesL_perm r)
theorem eBoolParts_perm : ∀ (es : List ETree), (eBoolParts es).Perm (eItemsL es)
  | [] => by simp only [eBoolParts, eBoolPart, eItemsL, List.append_nil]; exact .refl _
  | .op .must sub :: r => by
      refine (eBoolParts_cons_perm _ r (eItems (.op .must sub)) ?_ (fun p => eBoolPart_cons p _ r)).trans ?_
      · simp [eBoolPart, eItems]; exact eLeavesL_perm sub
      · simp only [eItemsL]; exact List.Perm.append_left _ (eBoolParts_perm r)
  | .op .mustNot sub :: r => by
      refine (eBoolParts_cons_perm _ r (eItems (.op .mustNot sub)) ?_ (fun p => eBoolPart_cons p _ r)).trans ?_
      · simp [eBoolPart, eItems]; exact eLeavesL_perm sub
      · simp only [eItemsL]; exact List.Perm.append_left _ (eBoolParts_perm r)
  | .op .should sub :: r => by
      refine (eBoolParts_cons_perm _ r (eItems (.op .should sub)) ?_ (fun p => eBoolPart_cons p _ r)).trans ?_
      · simp [eBoolPart]; exact eLeaves_perm _
      · simp only [eItemsL]; exact List.Perm.append_left _ (eBoolParts_perm r)
  | .op .boolOp sub :: r => by
      refine (eBoolParts_cons_perm _ r (eItems (.op .boolOp sub)) ?_ (fun p => eBoolPart_cons p _ r)).trans ?_
      · simp [eBoolPart]; exact eLeaves_perm _
      · simp only [eItemsL]; exact List.Perm.append_left _ (eBoolParts_perm r)
  | .item i :: r => by
      refine (eBoolParts_cons_perm _ r (eItems (.item i)) ?_ (fun p => eBoolPart_cons p _ r)).trans ?_
      · simp [eBoolPart]; exact eLeaves_perm _
      · simp only [eItemsL]; exact List.Perm.append_left _ (eBoolParts_perm r)
  | .nested p i n :: r => by
      refine (eBoolParts_cons_perm _ r (eItems (.nested p i n)) ?_ (fun p => eBoolPart_cons p _ r)).trans ?_
      · simp [eBoolPart]; exact eLeaves_perm _
      · simp only [eItemsL]; exact List.Perm.append_left _ (eBoolParts_perm r)
end

/-! ### decidable equality of JSON values (for the examples) -/

mutual
def jbeq : JVal → JVal → Bool
  | .str a, .str b => a == b
  | .num a, .num b => a == b
  | .bool a, .bool b => a == b
  | .null, .null => true
  | .arr a, .arr b => jbeqL a b
  | .obj a, .obj b => jbeqKvs a b
  | _, _ => false
def jbeqL : List JVal → List JVal → Bool
  | [], [] => true
  | x :: r, y :: s => jbeq x y && jbeqL r s
  | _, _ => false
def jbeqKvs : List (Str × JVal) → List (Str × JVal) → Bool
  | [], [] => true
  | (k, v) :: r, (k', v') :: s => k == k' && jbeq v v' && jbeqKvs r s
  | _, _ => false
end

mutual
theorem jbeq_iff : ∀ (a b : JVal), jbeq a b = true ↔ a = b
  | .str a, b => by cases b <;> simp [jbeq]
  | .num a, b => by cases b <;> simp [jbeq]
  | .bool a, b => by cases b <;> simp [jbeq]
  | .null, b => by cases b <;> simp [jbeq]
  | .arr a, b => by cases b <;> simp [jbeq, jbeqL_iff a]
  | .obj a, b => by cases b <;> simp [jbeq, jbeqKvs_iff a]
theorem jbeqL_iff : ∀ (a b : List JVal), jbeqL a b = true ↔ a = b
  | [], b => by cases b <;> simp [jbeqL]
  | x :: r, b => by cases b <;> simp [jbeqL, jbeq_iff x, jbeqL_iff r]
theorem jbeqKvs_iff : ∀ (a b : List (Str × JVal)), jbeqKvs a b = true ↔ a = b
  | [], b => by cases b <;> simp [jbeqKvs]
  | (k, v) :: r, b => by
      cases b with
      | nil => simp [jbeqKvs]
      | cons y s => obtain ⟨k', v'⟩ := y; simp [jbeqKvs, jbeq_iff v, jbeqKvs_iff r, and_assoc]
end

/-- decidable equality of JSON values; not an instance (use `attribute [local instance]`) -/
@[instance_reducible] def jvalDecEq : DecidableEq JVal := fun a b => decidable_of_iff _ (jbeq_iff a b)

end Luqum.Lemmas.Es
