/-
  Luqum.Lemmas.NumRender — the shape of `Dec.render` (`format(d, 'f')`) on unsigned decimals and
  what `Dec.ofLiteral` reads back from it.  Core Lean only.
-/
import Luqum.Lemmas.NumCanon

namespace Luqum

/-! ### the two shapes of `render` -/

theorem Dec.render_of_nonneg_exp {d : Dec} (hn : d.neg = false) (he : 0 ≤ d.exp) :
    d.render = if d.coeff = 0 then ['0']
      else natDigits d.coeff ++ List.replicate d.exp.toNat '0' := by
  unfold Dec.render
  simp only [hn, ge_iff_le, he, if_true]
  rfl

/-- the zero-padded digit string `render` cuts at the decimal point (`k` = number of decimals) -/
def Dec.padded (d : Dec) : Str :=
  List.replicate ((-d.exp).toNat + 1 - (natDigits d.coeff).length) '0' ++ natDigits d.coeff

theorem Dec.padded_length (d : Dec) :
    d.padded.length = max ((-d.exp).toNat + 1) (natDigits d.coeff).length := by
  simp [Dec.padded]; omega

theorem Dec.padded_digit (d : Dec) : ∀ c ∈ d.padded, isDigitC c = true := by
  intro c hc
  simp only [Dec.padded, List.mem_append, List.mem_replicate] at hc
  rcases hc with ⟨_, rfl⟩ | hc
  · exact isDigitC_zero
  · exact natDigits_digit _ c hc

theorem Dec.digitsToNat_padded (d : Dec) : digitsToNat d.padded = d.coeff := by
  rw [Dec.padded, digitsToNat_zeros_append, digitsToNat_natDigits]

/-- the digits before / after the decimal point when the exponent is negative -/
def Dec.intPart (d : Dec) : Str := d.padded.take (d.padded.length - (-d.exp).toNat)
def Dec.fracPart (d : Dec) : Str := d.padded.drop (d.padded.length - (-d.exp).toNat)

theorem Dec.render_of_neg_exp {d : Dec} (hn : d.neg = false) (he : d.exp < 0) :
    d.render = d.intPart ++ '.' :: d.fracPart := by
  unfold Dec.render
  have : ¬ (d.exp ≥ 0) := by omega
  simp only [hn, this, if_false, Dec.intPart, Dec.fracPart, Dec.padded, List.append_assoc,
    List.singleton_append]
  rfl

theorem Dec.intPart_append_fracPart (d : Dec) : d.intPart ++ d.fracPart = d.padded :=
  List.take_append_drop _ _

theorem Dec.fracPart_length (d : Dec) : d.fracPart.length = (-d.exp).toNat := by
  have hl := Dec.padded_length d
  rw [Dec.fracPart, List.length_drop]; omega

theorem Dec.intPart_length_pos (d : Dec) : 0 < d.intPart.length := by
  have hl := Dec.padded_length d
  rw [Dec.intPart, List.length_take]; omega

theorem Dec.intPart_digit (d : Dec) : ∀ c ∈ d.intPart, isDigitC c = true :=
  fun c hc => Dec.padded_digit d c (List.mem_of_mem_take hc)

theorem Dec.fracPart_digit (d : Dec) : ∀ c ∈ d.fracPart, isDigitC c = true :=
  fun c hc => Dec.padded_digit d c (List.mem_of_mem_drop hc)

/-! ### reading the printed numeral back -/

/-- `Decimal(format(d, 'f'))` for an unsigned `d`: the same coefficient and exponent when the
exponent is negative, the expanded integer otherwise -/
theorem Dec.ofLiteral_render {d : Dec} (hn : d.neg = false) :
    Dec.ofLiteral d.render =
      some (if 0 ≤ d.exp then { neg := false, coeff := d.coeff * 10 ^ d.exp.toNat, exp := 0 }
            else d) := by
  by_cases he : 0 ≤ d.exp
  · rw [if_pos he, Dec.render_of_nonneg_exp hn he]
    by_cases hc : d.coeff = 0
    · rw [if_pos hc, hc]; simp; rfl
    · rw [if_neg hc, ofLiteral_digits]
      · rw [digitsToNat_append_zeros, digitsToNat_natDigits]
      · intro c hc'
        simp only [List.mem_append, List.mem_replicate] at hc'
        rcases hc' with hc' | ⟨_, rfl⟩
        · exact isDigitC_ne_dot (natDigits_digit _ c hc')
        · decide
      · intro h
        exact natDigits_ne_nil _ (List.append_eq_nil_iff.mp h).1
  · rw [if_neg he]
    have he' : d.exp < 0 := by omega
    rw [Dec.render_of_neg_exp hn he', ofLiteral_dotted d.intPart d.fracPart
      (fun c hc => isDigitC_ne_dot (Dec.intPart_digit d c hc))
      (fun c hc => isDigitC_ne_dot (Dec.fracPart_digit d c hc))
      (Or.inl (List.length_pos_iff.mp (Dec.intPart_length_pos d)))]
    rw [Dec.intPart_append_fracPart, Dec.digitsToNat_padded, Dec.fracPart_length]
    cases d with
    | mk n c e =>
      simp only at hn he' ⊢
      subst hn
      congr 2
      omega

/-- the printed numeral always denotes the same number as the decimal it was printed from -/
theorem Dec.ofLiteral_render_sameValue {d : Dec} (hn : d.neg = false) :
    ∃ d', Dec.ofLiteral d.render = some d' ∧ d'.SameValue d := by
  refine ⟨_, Dec.ofLiteral_render hn, ?_⟩
  by_cases he : 0 ≤ d.exp
  · rw [if_pos he]
    unfold Dec.SameValue Dec.scaled
    simp only [hn]
    have : min (0 : Int) d.exp = 0 := by omega
    rw [this]
    simp
  · rw [if_neg he]; exact Dec.SameValue.refl d

/-- parsing the printed normal form and normalising gives the normal form back -/
theorem Dec.normalize_ofLiteral_render {d : Dec} (hn : d.neg = false) (hN : d.Normal) :
    ∃ d', Dec.ofLiteral d.render = some d' ∧ d'.normalize = d := by
  refine ⟨_, Dec.ofLiteral_render hn, ?_⟩
  by_cases he : 0 ≤ d.exp
  · rw [if_pos he]
    rcases hN with ⟨hc, hz⟩ | ⟨hc, hlt⟩
    · rw [hc]
      simp only [Nat.zero_mul]
      rw [Dec.normalize_of_normal (Or.inl ⟨rfl, rfl⟩)]
      cases d; simp_all
    · rw [Dec.normalize_mul_pow false d.coeff d.exp.toNat 0 hc hlt]
      cases d with
      | mk n c e =>
        simp only at hn he ⊢
        subst hn
        congr 1
        omega
  · rw [if_neg he]; exact Dec.normalize_of_normal hN

/-! ### no superfluous zeros in the printed normal form -/

theorem digitChar_ne_zero {x : Nat} (h0 : x ≠ 0) (h : x < 10) : Nat.digitChar x ≠ '0' := by
  have : x = 1 ∨ x = 2 ∨ x = 3 ∨ x = 4 ∨ x = 5 ∨ x = 6 ∨ x = 7 ∨ x = 8 ∨ x = 9 := by omega
  rcases this with h | h | h | h | h | h | h | h | h <;> subst h <;> decide

/-- the printed normal form with decimals has no trailing zero after the point -/
theorem Dec.fracPart_getLast? {d : Dec} (he : d.exp < 0) (hc : d.coeff % 10 ≠ 0) :
    d.fracPart.getLast? ≠ some '0' := by
  have hl := Dec.padded_length d
  have hlast : d.padded.getLast? = some (Nat.digitChar (d.coeff % 10)) := by
    rw [Dec.padded, List.getLast?_append, natDigits_getLast?]; simp
  rw [Dec.fracPart, List.getLast?_drop, if_neg (by omega), hlast]
  intro h
  exact digitChar_ne_zero hc (Nat.mod_lt _ (by decide)) (Option.some.inj h)

/-- … and its integer part is `0` or does not start with `0` -/
theorem Dec.intPart_head? {d : Dec} (h0 : d.coeff ≠ 0) :
    d.intPart = ['0'] ∨ d.intPart.head? ≠ some '0' := by
  have hl := Dec.padded_length d
  unfold Dec.intPart
  by_cases hlen : (natDigits d.coeff).length ≤ (-d.exp).toNat
  · left
    have e1 : d.padded.length - (-d.exp).toNat = 1 := by omega
    rw [e1, Dec.padded]
    have : (-d.exp).toNat + 1 - (natDigits d.coeff).length =
        ((-d.exp).toNat - (natDigits d.coeff).length) + 1 := by omega
    rw [this, List.replicate_succ]
    rfl
  · right
    have e0 : (-d.exp).toNat + 1 - (natDigits d.coeff).length = 0 := by omega
    have hp : d.padded = natDigits d.coeff := by rw [Dec.padded, e0]; rfl
    rw [hp]
    have hh := natDigits_head? d.coeff h0
    cases hd : natDigits d.coeff with
    | nil => exact absurd hd (natDigits_ne_nil _)
    | cons a as =>
      rw [hd] at hh hlen
      simp only [List.length_cons] at hlen ⊢
      have : as.length + 1 - (-d.exp).toNat = (as.length - (-d.exp).toNat) + 1 := by omega
      rw [this, List.take_succ_cons]
      simpa using hh

end Luqum
