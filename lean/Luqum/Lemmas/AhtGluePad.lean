/-
  Luqum.Lemmas.AhtGluePad — every `expressible` tree is equal (`==`) to the parse result of some text:
  the tree printed with a blank before and after every node (`padAll`).  Used to justify the name of
  the hypothesis `expressible` of C13 (iv): the `expressible` trees are, up to `==`, the trees the
  parser can return.
-/
import Luqum.Lemmas.AhtGlueChain
import Luqum.Lemmas.AhtGlueStrip

namespace Luqum.Lemmas.AhtGlue
open Luqum Luqum.Lemmas.Aht

/-- a blank head and a blank tail -/
def padLay : Lay := { head := [' '], tail := [' '] }

mutual
/-- the tree with one blank as the head and as the tail of every node -/
def padAll : Tree → Tree
  | .term k v _ => .term k v padLay
  | .field n e _ => .field n (padAll e) padLay
  | .group k e _ => .group k (padAll e) padLay
  | .range a b il ih _ => .range (padAll a) (padAll b) il ih padLay
  | .approx k t n _ => .approx k (padAll t) n padLay
  | .boost e n _ => .boost (padAll e) n padLay
  | .op k xs _ => .op k (padAlls xs) padLay
  | .unary k a _ => .unary k (padAll a) padLay
  | .orange k a i _ => .orange k (padAll a) i padLay
  | .none _ => .none padLay
def padAlls : List Tree → List Tree
  | [] => []
  | x :: r => padAll x :: padAlls r
end

theorem padAll_lay (t : Tree) : (padAll t).lay = padLay := by cases t <;> rfl

mutual
theorem strip_padAll : ∀ t : Tree, strip (padAll t) = strip t
  | .term .. => rfl
  | .none _ => rfl
  | .field _ e _ => by simp [padAll, strip, strip_padAll e]
  | .group _ e _ => by simp [padAll, strip, strip_padAll e]
  | .approx _ e _ _ => by simp [padAll, strip, strip_padAll e]
  | .boost e _ _ => by simp [padAll, strip, strip_padAll e]
  | .unary _ e _ => by simp [padAll, strip, strip_padAll e]
  | .orange _ e _ _ => by simp [padAll, strip, strip_padAll e]
  | .range a b _ _ _ => by simp [padAll, strip, strip_padAll a, strip_padAll b]
  | .op _ xs _ => by simp [padAll, strip, strips_padAlls xs]
theorem strips_padAlls : ∀ xs : List Tree, strips (padAlls xs) = strips xs
  | [] => rfl
  | x :: r => by simp [padAlls, strips, strip_padAll x, strips_padAlls r]
end

open Luqum.Props.C09 in
mutual
theorem content_padAll : ∀ t : Tree, content (padAll t) = content t
  | .term .. => rfl
  | .none _ => rfl
  | .field _ e _ => by simp [padAll, content, content_padAll e]
  | .group _ e _ => by simp [padAll, content, content_padAll e]
  | .approx _ e _ _ => by simp [padAll, content, content_padAll e]
  | .boost e _ _ => by simp [padAll, content, content_padAll e]
  | .unary _ e _ => by simp [padAll, content, content_padAll e]
  | .orange _ e _ _ => by simp [padAll, content, content_padAll e]
  | .range a b _ _ _ => by simp [padAll, content, content_padAll a, content_padAll b]
  | .op _ xs _ => by simp [padAll, content, contents_padAlls xs]
theorem contents_padAlls : ∀ xs : List Tree, contents (padAlls xs) = contents xs
  | [] => rfl
  | x :: r => by simp [padAlls, contents, content_padAll x, contents_padAlls r]
end

theorem eqv_padAll (t : Tree) : (padAll t).eqv t = true :=
  (Luqum.Props.C09.eqv_iff_content _ _).2 (content_padAll t)

theorem isBlank_pad : isBlank padLay.head = true ∧ isBlank padLay.tail = true := by decide +kernel

mutual
theorem blank_padAll : ∀ t : Tree, (padAll t).blankLayout = true
  | .term .. => by simp [padAll, Tree.blankLayout, isBlank_pad]
  | .none _ => rfl
  | .field _ e _ => by simp [padAll, Tree.blankLayout, isBlank_pad, blank_padAll e]
  | .group _ e _ => by simp [padAll, Tree.blankLayout, isBlank_pad, blank_padAll e]
  | .approx _ e _ _ => by simp [padAll, Tree.blankLayout, isBlank_pad, blank_padAll e]
  | .boost e _ _ => by simp [padAll, Tree.blankLayout, isBlank_pad, blank_padAll e]
  | .unary _ e _ => by simp [padAll, Tree.blankLayout, isBlank_pad, blank_padAll e]
  | .orange _ e _ _ => by simp [padAll, Tree.blankLayout, isBlank_pad, blank_padAll e]
  | .range a b _ _ _ => by
    simp [padAll, Tree.blankLayout, isBlank_pad, blank_padAll a, blank_padAll b]
  | .op _ xs _ => by simp [padAll, Tree.blankLayout, isBlank_pad, blanks_padAlls xs]
theorem blanks_padAlls : ∀ xs : List Tree, Tree.blankLayouts (padAlls xs) = true
  | [] => rfl
  | x :: r => by simp [padAlls, Tree.blankLayouts, blank_padAll x, blanks_padAlls r]
end

theorem restOK_padAlls (nh : Bool) : ∀ xs : List Tree, restOK nh (padAlls xs) = true
  | [] => rfl
  | x :: r => by simp [padAlls, restOK, padAll_lay, padLay, restOK_padAlls nh r]

theorem operandsOK_padAlls (nh : Bool) : ∀ xs : List Tree, operandsOK nh (padAlls xs) = true
  | [] => rfl
  | x :: r => by simp [padAlls, operandsOK, padAll_lay, padLay, restOK_padAlls nh r]

mutual
theorem spaced_padAll : ∀ t : Tree, spaced (padAll t) = true
  | .term .. => rfl
  | .none _ => rfl
  | .field _ e _ => by simp [padAll, spaced, spaced_padAll e]
  | .group _ e _ => by simp [padAll, spaced, spaced_padAll e]
  | .approx _ e _ _ => by simp [padAll, spaced, spaced_padAll e]
  | .boost e _ _ => by simp [padAll, spaced, spaced_padAll e]
  | .unary _ e _ => by simp [padAll, spaced, spaced_padAll e, padAll_lay, padLay]
  | .orange _ e _ _ => by simp [padAll, spaced, spaced_padAll e]
  | .range a b _ _ _ => by
    simp [padAll, spaced, spaced_padAll a, spaced_padAll b, padAll_lay, padLay]
  | .op _ xs _ => by simp [padAll, spaced, spaceds_padAlls xs, operandsOK_padAlls]
theorem spaceds_padAlls : ∀ xs : List Tree, spaceds (padAlls xs) = true
  | [] => rfl
  | x :: r => by simp [padAlls, spaceds, spaced_padAll x, spaceds_padAlls r]
end

/-- the padded tree is printed with a blank first (or not at all) -/
theorem full_padAll (t : Tree) (s : NumStyle) :
    (padAll t).full s = [] ∨ ∃ r, (padAll t).full s = ' ' :: r := by
  cases t with
  | none l => left; rfl
  | _ => right; exact ⟨_, by simp [padAll, Tree.full, padLay]; rfl⟩

mutual
theorem safeAdj_padAll : ∀ t : Tree, safeAdj (padAll t) = true
  | .term .. => rfl
  | .none _ => rfl
  | .field n e _ => by
    have : startsDD ((padAll e).full .norm) = false := by
      rcases full_padAll e .norm with h | ⟨r, h⟩ <;> rw [h]
      · rfl
      · have : isDigitU ' ' = false := by decide +kernel
        cases r <;> simp [startsDD, this]
    simp [padAll, safeAdj, safeAdj_padAll e, this]
  | .group _ e _ => by simp [padAll, safeAdj, safeAdj_padAll e]
  | .approx _ e _ _ => by simp [padAll, safeAdj, safeAdj_padAll e]
  | .boost e _ _ => by simp [padAll, safeAdj, safeAdj_padAll e]
  | .unary _ e _ => by simp [padAll, safeAdj, safeAdj_padAll e]
  | .orange _ e inc _ => by
    have : ((padAll e).full .norm).head? ≠ some '=' := by
      rcases full_padAll e .norm with h | ⟨r, h⟩ <;> rw [h] <;> simp
    simp [padAll, safeAdj, safeAdj_padAll e, this]
  | .range a b _ _ _ => by simp [padAll, safeAdj, safeAdj_padAll a, safeAdj_padAll b]
  | .op _ xs _ => by simp [padAll, safeAdj, safeAdjs_padAlls xs]
theorem safeAdjs_padAlls : ∀ xs : List Tree, safeAdjs (padAlls xs) = true
  | [] => rfl
  | x :: r => by simp [padAlls, safeAdjs, safeAdj_padAll x, safeAdjs_padAlls r]
end

open Luqum.Props.Reparse in
/-- **the padded form of an `expressible` tree satisfies the hypotheses of the print-and-reparse
theorem** -/
theorem printable_padAll (t : Tree) (he : expressible t = true) : printable (padAll t) = true := by
  simp only [expressible, Bool.and_eq_true] at he
  obtain ⟨⟨⟨hc, hw⟩, hn⟩, ht⟩ := he
  obtain ⟨e1, e2, e3, e4⟩ := expressible_of_strip (strip_padAll t)
  rw [← e1] at hc; rw [← e2] at hw; rw [← e3] at hn; rw [← e4] at ht
  have hbl := blank_padAll t
  have hbp := Tree.pcs_blank .norm (padAll t) [] rfl hbl
  have hchain := chain_spaced (padAll t) [] [] (canon_noNone false _ hc) (spaced_padAll t) hbl
    (safeAdj_padAll t) rfl (by rw [List.append_nil]; exact contOK_blank hbp.2)
  rw [List.append_nil] at hchain
  have hvalid := pieces_valid .norm (padAll t) ht (validNums_of_numsOK _ hn)
  have hglue : Luqum.Props.LX.treeGluesOK .norm (padAll t) = true := by
    refine gluesOK_of_chainOK _ _ (fun p hp => ?_) hchain
    obtain ⟨c, xs, hx, _⟩ := validTok_cons (hvalid p hp)
    rw [hx]; simp
  simp only [printable, Bool.and_eq_true]
  exact ⟨⟨⟨⟨⟨hbl, hc⟩, hw⟩, hn⟩, ht⟩, hglue⟩

end Luqum.Lemmas.AhtGlue
