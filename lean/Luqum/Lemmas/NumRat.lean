/-
  Luqum.Lemmas.NumRat — the rational number denoted by a `Dec`, and: "same value" (`Dec.SameValue`,
  the integer-scaled comparison used in NumCanon) is equality of these rationals.
  Uses single Mathlib modules (ℚ, `zpow`); not imported by the model or the driver.
-/
import Mathlib.Data.Rat.Defs
import Mathlib.Algebra.Order.Field.Rat
import Mathlib.Tactic.Ring
import Mathlib.Tactic.NormNum
import Luqum.Lemmas.NumCanon

namespace Luqum

/-- the rational number `±coeff·10^exp` -/
def Dec.toRat (d : Dec) : ℚ := (if d.neg then -1 else 1) * (d.coeff : ℚ) * (10 : ℚ) ^ d.exp

theorem Dec.scaled_cast (d : Dec) (m : Int) (hm : m ≤ d.exp) :
    ((d.scaled m : Int) : ℚ) = d.toRat * (10 : ℚ) ^ (-m) := by
  unfold Dec.scaled Dec.toRat
  have h10 : (10 : ℚ) ≠ 0 := by norm_num
  have e : (10 : ℚ) ^ (d.exp - m).toNat = (10 : ℚ) ^ d.exp * (10 : ℚ) ^ (-m) := by
    rw [← zpow_add₀ h10, ← zpow_natCast]
    congr 1
    omega
  cases hn : d.neg <;> simp only [if_true, if_false, Bool.false_eq_true] <;> push_cast <;>
    rw [e] <;> ring

/-- **"same value" is equality of the denoted rational numbers** -/
theorem Dec.sameValue_iff_toRat (a b : Dec) : a.SameValue b ↔ a.toRat = b.toRat := by
  unfold Dec.SameValue
  have h10 : (10 : ℚ) ^ (-(min a.exp b.exp)) ≠ 0 := zpow_ne_zero _ (by norm_num)
  rw [← Int.cast_inj (α := ℚ), Dec.scaled_cast a _ (min_le_left _ _),
    Dec.scaled_cast b _ (min_le_right _ _)]
  exact mul_left_inj' h10

/-- `canon` (hence `numEq`, Python's `==`) identifies exactly the decimals denoting the same
rational number -/
theorem Dec.canon_eq_iff_toRat (a b : Dec) : a.canon = b.canon ↔ a.toRat = b.toRat := by
  rw [Dec.canon_eq_iff, Dec.sameValue_iff_toRat]

end Luqum
