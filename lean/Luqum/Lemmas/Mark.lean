/-
  Luqum.Lemmas.Mark — model-level lemmas about `HTMLMarker` (`cssClass`, `parentClass`, `markLay`,
  `markTree`, `markList`) used by the property file Luqum/Props/C17.lean.
-/
import Luqum.Model.Naming

namespace Luqum.Lemmas.Mark
open Luqum

/-! ### `cssClass` / `parentClass` -/

/-- the class of a node does not depend on the parsimonious flag -/
theorem cssClass_parcimonious (m : MarkCfg) (b : Bool) (ok ko : List (List Nat)) (path : List Nat) :
    cssClass { m with parcimonious := b } ok ko path = cssClass m ok ko path := rfl

/-- nor does the class of the nearest marked strict ancestor -/
theorem parentClass_parcimonious (m : MarkCfg) (b : Bool) (ok ko : List (List Nat)) :
    ∀ (fuel : Nat) (path : List Nat),
      parentClass { m with parcimonious := b } ok ko fuel path = parentClass m ok ko fuel path
  | 0, _ => by simp [parentClass]
  | fuel + 1, path => by
      simp only [parentClass, cssClass_parcimonious, parentClass_parcimonious m b ok ko fuel]

/-- one step of the search for the nearest marked ancestor, from a child of `path`: it is the class
of `path` itself when it has one, else the nearest marked strict ancestor of `path` -/
theorem parentClass_snoc (m : MarkCfg) (ok ko : List (List Nat)) (path : List Nat) (i : Nat) :
    parentClass m ok ko ((path ++ [i]).length + 1) (path ++ [i]) =
      match cssClass m ok ko path with
      | some c => some c
      | none => parentClass m ok ko (path.length + 1) path := by
  have h : (path ++ [i]).length + 1 = (path.length + 1) + 1 := by simp
  rw [h, parentClass]
  cases hc : cssClass m ok ko path <;> simp [hc]

/-- at the root there is no ancestor -/
theorem parentClass_nil (m : MarkCfg) (ok ko : List (List Nat)) (fuel : Nat) :
    parentClass m ok ko fuel [] = none := by
  cases fuel <;> simp [parentClass]

private theorem findSome?_congr' {α β : Type} {f g : α → Option β} :
    ∀ (l : List α), (∀ a ∈ l, f a = g a) → l.findSome? f = l.findSome? g
  | [], _ => rfl
  | a :: r, h => by
      simp only [List.findSome?_cons, h a (by simp)]
      rw [findSome?_congr' r (fun b hb => h b (by simp [hb]))]

/-- fuel-free reading of `parentClass` (the fuel `path.length + 1` used by the model is enough):
the class of the longest strict prefix of `path` that has one -/
theorem parentClass_eq_findSome (m : MarkCfg) (ok ko : List (List Nat)) :
    ∀ (fuel : Nat) (path : List Nat), path.length ≤ fuel →
      parentClass m ok ko fuel path =
        (List.range path.length).reverse.findSome? (fun n => cssClass m ok ko (path.take n))
  | 0, path, h => by
      have : path = [] := by cases path <;> simp_all
      subst this; simp [parentClass]
  | fuel + 1, path, h => by
      rcases List.eq_nil_or_concat path with rfl | ⟨p, i, rfl⟩
      · simp [parentClass]
      · have ih := parentClass_eq_findSome m ok ko fuel p (by simp at h; omega)
        have hfs : (List.range p.length).reverse.findSome?
              (fun n => cssClass m ok ko ((p ++ [i]).take n)) =
            (List.range p.length).reverse.findSome? (fun n => cssClass m ok ko (p.take n)) := by
          apply findSome?_congr'
          intro n hn
          have : n < p.length := by simpa using hn
          rw [List.take_append_of_le_length (by omega)]
        rw [parentClass]
        cases hc : cssClass m ok ko p <;>
          simp [List.range_succ, hc, hfs, ih]

/-! ### `markLay` -/

/-- `mark_node` either leaves the layout alone or adds BOTH the opening tag in front of the head and
the closing tag after the tail (never one without the other); the class is the node's own -/
theorem markLay_cases (m : MarkCfg) (ok ko : List (List Nat)) (path : List Nat) (l : Lay) :
    markLay m ok ko path l = l ∨
    ∃ cls, cssClass m ok ko path = some cls ∧
      markLay m ok ko path l =
        { l with head := "<".toList ++ m.element ++ " class=\"".toList ++ cls ++ "\">".toList ++ l.head,
                 tail := l.tail ++ "</".toList ++ m.element ++ ">".toList } := by
  unfold markLay
  cases h : cssClass m ok ko path with
  | none => exact Or.inl rfl
  | some cls =>
    dsimp only
    by_cases hadd : (if m.parcimonious then
        parentClass m ok ko (path.length + 1) path != some cls else true) = true
    · exact Or.inr ⟨cls, rfl, by rw [if_pos hadd]⟩
    · exact Or.inl (by rw [if_neg hadd])

/-- without parsimony, every node that has a class gets its element -/
theorem markLay_full (m : MarkCfg) (ok ko : List (List Nat)) (path : List Nat) (l : Lay) (cls : Str)
    (hp : m.parcimonious = false) (h : cssClass m ok ko path = some cls) :
    markLay m ok ko path l =
      { l with head := "<".toList ++ m.element ++ " class=\"".toList ++ cls ++ "\">".toList ++ l.head,
               tail := l.tail ++ "</".toList ++ m.element ++ ">".toList } := by
  simp [markLay, h, hp]

/-- `mark_node` touches neither positions nor the name -/
theorem markLay_rest (m : MarkCfg) (ok ko : List (List Nat)) (path : List Nat) (l : Lay) :
    (markLay m ok ko path l).pos = l.pos ∧ (markLay m ok ko path l).size = l.size ∧
    (markLay m ok ko path l).name = l.name := by
  rcases markLay_cases m ok ko path l with h | ⟨cls, _, h⟩ <;> rw [h] <;> simp

/-! ### `markTree`: only heads / tails change (and names are dropped) -/

/-- same class at the root … -/
theorem markTree_className (m : MarkCfg) (ok ko : List (List Nat)) (path : List Nat) (t : Tree) :
    (markTree m ok ko path t).className = t.className := by
  match t with
  | .term k _ _ | .group k _ _ | .approx k _ _ _ | .op k _ _ | .unary k _ _ | .orange k _ _ _ =>
    simp only [markTree] <;> cases k <;> rfl
  | .field .. | .range .. | .boost .. | .none _ => simp only [markTree] <;> rfl

/-- … whose layout is the marked layout of the copy … -/
theorem markTree_lay (m : MarkCfg) (ok ko : List (List Nat)) (path : List Nat) (t : Tree) :
    (markTree m ok ko path t).lay = markLay m ok ko path t.lay.noName := by
  cases t <;> simp [markTree, Tree.lay]

/-- … whose children are the marked children (child `i` at `path ++ [i]`) … -/
theorem markTree_children (m : MarkCfg) (ok ko : List (List Nat)) (path : List Nat) (t : Tree) :
    (markTree m ok ko path t).children = markList m ok ko path 0 t.children := by
  cases t <;> simp [markTree, markList, Tree.children]

/-- … and all own attributes are kept: the marked tree is the original with its children replaced by
the marked children and its layout by the marked layout -/
theorem markTree_eq (m : MarkCfg) (ok ko : List (List Nat)) (path : List Nat) (t : Tree) :
    (t.setChildren (markList m ok ko path 0 t.children)).map
        (fun u => u.setLay (markLay m ok ko path t.lay.noName)) =
      some (markTree m ok ko path t) := by
  cases t <;> simp [markTree, markList, Tree.children, Tree.setChildren, Tree.setLay, Tree.lay]

theorem markList_getElem? (m : MarkCfg) (ok ko : List (List Nat)) (path : List Nat) :
    ∀ (xs : List Tree) (j i : Nat),
      (markList m ok ko path j xs)[i]? = xs[i]?.map (markTree m ok ko (path ++ [j + i]))
  | [], j, i => by simp [markList]
  | x :: r, j, 0 => by simp [markList]
  | x :: r, j, i + 1 => by
      simp only [markList, List.getElem?_cons_succ, markList_getElem? m ok ko path r (j + 1) i]
      have : j + 1 + i = j + (i + 1) := by omega
      rw [this]

theorem markList_length (m : MarkCfg) (ok ko : List (List Nat)) (path : List Nat) :
    ∀ (xs : List Tree) (j : Nat), (markList m ok ko path j xs).length = xs.length
  | [], j => by simp [markList]
  | x :: r, j => by simp [markList, markList_length m ok ko path r (j + 1)]

/-- the same holds at every depth: the sub-tree of the marked tree at `q` is the marked sub-tree
of the original at `q` (so the marked tree has exactly the same shape) -/
theorem markTree_at (m : MarkCfg) (ok ko : List (List Nat)) :
    ∀ (q path : List Nat) (t : Tree),
      (markTree m ok ko path t).at? q = (t.at? q).map (markTree m ok ko (path ++ q))
  | [], path, t => by simp [Tree.at?]
  | i :: r, path, t => by
      simp only [Tree.at?, markTree_children, markList_getElem?, Nat.zero_add]
      cases h : t.children[i]? with
      | none => simp
      | some c =>
        simp only [Option.map_some]
        rw [markTree_at m ok ko r (path ++ [i]) c]
        simp [List.append_assoc]

end Luqum.Lemmas.Mark
