/-
  Luqum.Lemmas.ComplLeaf — completeness, the productions one by one (for ARBITRARY tables): if the
  clause of the checker for a production holds, and the sub-trees have their eventualities, the tree
  built by the production has its eventuality.
-/
import Luqum.Lemmas.ComplRun

namespace Luqum.Compl
open Luqum
open Luqum.Props.C09 (content contents)

/-! ### lists of tokens with given keys -/

theorem keys_cons {toks : List Tok} {x : TokK × Str} {r : List (TokK × Str)}
    (h : toks.map tokKey = x :: r) :
    ∃ t ts, toks = t :: ts ∧ t.kind = x.1 ∧ t.text = x.2 ∧ ts.map tokKey = r := by
  cases toks with
  | nil => simp at h
  | cons t ts =>
    simp only [List.map_cons, List.cons.injEq] at h
    obtain ⟨h1, h2⟩ := h
    exact ⟨t, ts, rfl, by rw [← h1]; rfl, by rw [← h1]; rfl, h2⟩

theorem keys_nil {toks : List Tok} (h : toks.map tokKey = []) : toks = [] := by
  simpa using h

theorem keys_append {toks : List Tok} {a b : List (TokK × Str)} (h : toks.map tokKey = a ++ b) :
    ∃ ta tb, toks = ta ++ tb ∧ ta.map tokKey = a ∧ tb.map tokKey = b := by
  obtain ⟨ta, tb, h1, h2, h3⟩ := List.map_eq_append_iff.1 h
  exact ⟨ta, tb, h1, h2, h3⟩

/-! ### numerals -/

theorem numContent_of_numEq {n n' : Num} (h : n'.val.numEq n.val = true) :
    Props.C09.Num.content n' = Props.C09.Num.content n := by
  simpa [Dec.numEq, Props.C09.Num.content] using h

theorem decNum_of_numOK {d : Dec} {n : Num} (h : numOK (decNum · d) n = true) (lay : Lay) :
    ∃ n', decNum { value := srcValue n.source, lay := lay } d = .ok n' ∧
      Props.C09.Num.content n' = Props.C09.Num.content n := by
  unfold numOK at h
  split at h
  · rename_i n' hn'
    rcases decNum_sim d (a := { value := srcValue n.source, lay := {} })
      (a' := { value := srcValue n.source, lay := lay }) rfl with ⟨m, h1, h2⟩ | ⟨_, _, _, h1, _⟩
    · simp only at hn'
      rw [hn'] at h1
      cases h1
      exact ⟨n', h2, numContent_of_numEq h⟩
    · simp only at hn'
      rw [hn'] at h1; cases h1
  · cases h

theorem intNum_of_numOK {n : Num} (h : numOK intNum n = true) (lay : Lay) :
    ∃ n', intNum { value := srcValue n.source, lay := lay } = .ok n' ∧
      Props.C09.Num.content n' = Props.C09.Num.content n := by
  unfold numOK at h
  split at h
  · rename_i n' hn'
    rcases intNum_sim (a := { value := srcValue n.source, lay := {} })
      (a' := { value := srcValue n.source, lay := lay }) rfl with ⟨m, h1, h2⟩ | ⟨_, _, _, h1, _⟩
    · rw [hn'] at h1
      cases h1
      exact ⟨n', h2, numContent_of_numEq h⟩
    · rw [hn'] at h1; cases h1
  · cases h

/-! ### `phrase_or_term` -/

theorem ev_pt {T : Tables} {s : Nat} {a : String} (h : chkPT T s a = true) (e : Tree)
    (hwp : isWP e = true) (hw : wordTerm e = true) (toks : List Tok)
    (hk : toks.map tokKey = yield e) : Ev T s nPT a toks (content e) := by
  simp only [chkPT, Bool.and_eq_true] at h
  obtain ⟨h1, h2⟩ := h
  intro ss vs rest hl
  cases e with
  | term k v l =>
    cases k with
    | word =>
      simp only [wordTerm, beq_iff_eq] at hw
      simp only [yield, hw] at hk
      obtain ⟨t, ts, rfl, hkind, htext, hts⟩ := keys_cons hk
      cases keys_nil hts
      simp only at hkind htext
      obtain ⟨g, hg, hrun⟩ := run_leaf h1 t (by rw [hkind]; rfl) hl ss vs
      rw [toVal_term hkind] at hrun
      exact ⟨g, _, hg, by simp [content, htext], hrun⟩
    | phrase =>
      simp only [yield] at hk
      obtain ⟨t, ts, rfl, hkind, htext, hts⟩ := keys_cons hk
      cases keys_nil hts
      simp only at hkind htext
      obtain ⟨g, hg, hrun⟩ := run_leaf h2 t (by rw [hkind]; rfl) hl ss vs
      rw [toVal_phrase hkind] at hrun
      exact ⟨g, _, hg, by simp [content, htext], hrun⟩
    | regex => simp [isWP] at hwp
  | _ => simp [isWP] at hwp

/-! ### range bounds -/

theorem act_negterm (o : TokV) (e : Tree) :
    act "p_possibly_negative_term" [.tok .minus o, .item e] =
      .ok (.item (mgrUnary o.lay e (.unary .prohibit))) := rfl

theorem ev_bound {T : Tables} {s : Nat} {a : String} (h : chkBound T s a = true) (e : Tree)
    (hb : isBound e = true) (hw : boundText e = true) (toks : List Tok)
    (hk : toks.map tokKey = yield e) : Ev T s nPPNT a toks (content e) := by
  simp only [chkBound, Bool.and_eq_true] at h
  obtain ⟨⟨h1, h2⟩, h3⟩ := h
  intro ss vs rest hl
  cases e with
  | term k v l =>
    cases k with
    | word =>
      simp only [boundText, wordTerm, beq_iff_eq] at hw
      simp only [yield, hw] at hk
      obtain ⟨t, ts, rfl, hkind, htext, hts⟩ := keys_cons hk
      cases keys_nil hts
      simp only at hkind htext
      obtain ⟨g, hg, hrun⟩ := run_leaf h1 t (by rw [hkind]; rfl) hl ss vs
      rw [toVal_term hkind] at hrun
      exact ⟨g, _, hg, by simp [content, htext], hrun⟩
    | phrase =>
      simp only [yield] at hk
      obtain ⟨t, ts, rfl, hkind, htext, hts⟩ := keys_cons hk
      cases keys_nil hts
      simp only at hkind htext
      obtain ⟨g, hg, hrun⟩ := run_leaf h2 t (by rw [hkind]; rfl) hl ss vs
      rw [toVal_phrase hkind] at hrun
      exact ⟨g, _, hg, by simp [content, htext], hrun⟩
    | regex => simp [isBound] at hb
  | unary k e l =>
    cases k with
    | prohibit =>
      simp only [isBound] at hb
      simp only [boundText] at hw
      simp only [yield] at hk
      obtain ⟨t, ts, rfl, hkind, htext, hts⟩ := keys_cons hk
      simp only at hkind htext
      simp only [chkNeg, Option.any_eq_true, Bool.and_eq_true] at h3
      obtain ⟨s3, hs3, hpt, p, hp, g, hg, hchain⟩ := h3
      obtain ⟨p', e', hp', hc, hrun⟩ := ev_pt hpt e hb hw ts hts (s :: ss) (t.toVal :: vs) rest hl
      rw [hp] at hp'; cases hp'
      obtain ⟨g', hg', hrun'⟩ := run_chain hl
        (.item (mgrUnary (tokLay t) e' (.unary .prohibit))) ss vs _ _ hchain
      refine ⟨g', _, hg', ?_, (run_shift hs3 t (by rw [hkind]; rfl) ss vs _).trans (hrun.trans
        ((run_reduce hg hl [s3] rfl [.item e', t.toVal] rfl ?_ ss vs).trans hrun'))⟩
      · simp [mgrUnary, content, hc]
      · rw [toVal_plain hkind rfl]
        exact act_negterm _ _
    | _ => simp [isBound] at hb
  | _ => simp [isBound] at hb

end Luqum.Compl
