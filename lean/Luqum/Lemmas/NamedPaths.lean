/-
  Luqum.Lemmas.NamedPaths — the index paths of the elements that `auto_name` names: the direct
  operands of operations (shared by the C15 and C16 property files).
-/
import Luqum.Model.Visitor

namespace Luqum.Lemmas.NamedPaths
open Luqum

/-- the node is an operation (`BaseOperation`) -/
def isOp : Tree → Bool
  | .op .. => true
  | _ => false

/-- `p` leads, in `t`, to a direct operand of an operation (decidable, by recursion on the path) -/
def isOperand : Tree → List Nat → Bool
  | _, [] => false
  | t, i :: r =>
    match t.children[i]? with
    | none => false
    | some c => (isOp t && r.isEmpty) || isOperand c r

theorem at?_nil (t : Tree) : t.at? [] = some t := by simp [Tree.at?]

theorem at?_cons (t : Tree) (i : Nat) (r : List Nat) :
    t.at? (i :: r) = (t.children[i]?).bind (fun c => c.at? r) := by
  simp only [Tree.at?]; cases t.children[i]? <;> rfl

theorem at?_append (t : Tree) (p q : List Nat) :
    t.at? (p ++ q) = (t.at? p).bind (fun c => c.at? q) := by
  induction p generalizing t with
  | nil => simp [at?_nil]
  | cons i r ih =>
    simp only [List.cons_append, at?_cons]
    cases t.children[i]? with
    | none => rfl
    | some c => simp [ih]

theorem isOp_iff (t : Tree) : isOp t = true ↔ ∃ k xs l, t = .op k xs l := by
  cases t <;> simp [isOp]

/-- **Meaning of `isOperand`** in terms of `element_from_path`: `p = q ++ [i]` where the element at
`q` is an operation with more than `i` operands. -/
theorem isOperand_iff (t : Tree) (p : List Nat) :
    isOperand t p = true ↔
      ∃ q i k xs l, p = q ++ [i] ∧ t.at? q = some (.op k xs l) ∧ i < xs.length := by
  induction p generalizing t with
  | nil => simp [isOperand]
  | cons j r ih =>
    simp only [isOperand]
    cases hc : t.children[j]? with
    | none =>
      simp only [Bool.false_eq_true, false_iff]
      rintro ⟨q, i, k, xs, l, hp, hq, hi⟩
      cases q with
      | nil =>
        simp at hp; obtain ⟨rfl, rfl⟩ := hp
        simp [at?_nil] at hq; subst hq
        simp [Tree.children] at hc; omega
      | cons j' q' =>
        simp at hp; obtain ⟨rfl, rfl⟩ := hp
        simp [at?_cons, hc] at hq
    | some c =>
      simp only [Bool.or_eq_true, Bool.and_eq_true, ih c]
      constructor
      · rintro (⟨ho, hr⟩ | ⟨q, i, k, xs, l, hp, hq, hi⟩)
        · obtain ⟨k, xs, l, rfl⟩ := (isOp_iff t).1 ho
          simp at hr; subst hr
          refine ⟨[], j, k, xs, l, rfl, at?_nil _, ?_⟩
          simp only [Tree.children] at hc
          obtain ⟨h, _⟩ := List.getElem?_eq_some_iff.1 hc; exact h
        · exact ⟨j :: q, i, k, xs, l, by simp [hp], by simp [at?_cons, hc, hq], hi⟩
      · rintro ⟨q, i, k, xs, l, hp, hq, hi⟩
        cases q with
        | nil =>
          simp at hp; obtain ⟨rfl, rfl⟩ := hp
          simp [at?_nil] at hq; subst hq
          left; simp [isOp]
        | cons j' q' =>
          simp at hp; obtain ⟨rfl, rfl⟩ := hp
          simp [at?_cons, hc] at hq
          exact Or.inr ⟨q', i, k, xs, l, rfl, hq, hi⟩

/-- an operand path is a valid path -/
theorem isOperand_valid (t : Tree) (p : List Nat) (h : isOperand t p = true) :
    ∃ n, t.at? p = some n := by
  induction p generalizing t with
  | nil => simp [isOperand] at h
  | cons j r ih =>
    simp only [isOperand] at h
    cases hc : t.children[j]? with
    | none => simp [hc] at h
    | some c =>
      simp only [hc, Bool.or_eq_true, Bool.and_eq_true] at h
      rcases h with ⟨_, hr⟩ | h
      · simp at hr; subst hr; exact ⟨c, by simp [at?_cons, hc, at?_nil]⟩
      · obtain ⟨n, hn⟩ := ih c h; exact ⟨n, by simp [at?_cons, hc, hn]⟩

mutual
/-- the paths of the direct operands of the operations of `t` (in the order `auto_name` meets
them: the operands of an operation first, then what is below each operand), prefixed by `path` -/
def operandPaths (path : List Nat) : Tree → List (List Nat)
  | .term .. => []
  | .none _ => []
  | .field _ e _ => operandPaths (path ++ [0]) e
  | .group _ e _ => operandPaths (path ++ [0]) e
  | .approx _ e _ _ => operandPaths (path ++ [0]) e
  | .boost e _ _ => operandPaths (path ++ [0]) e
  | .unary _ e _ => operandPaths (path ++ [0]) e
  | .orange _ e _ _ => operandPaths (path ++ [0]) e
  | .range a b _ _ _ => operandPaths (path ++ [0]) a ++ operandPaths (path ++ [1]) b
  | .op _ xs _ => (List.range xs.length).map (fun i => path ++ [i]) ++ operandPathsList path 0 xs
def operandPathsList (path : List Nat) (i : Nat) : List Tree → List (List Nat)
  | [] => []
  | x :: r => operandPaths (path ++ [i]) x ++ operandPathsList path (i + 1) r
end

theorem isOperand_single (t e : Tree) (hc : t.children = [e]) (ho : isOp t = false) (q : List Nat) :
    isOperand t q = true ↔ ∃ r, q = 0 :: r ∧ isOperand e r = true := by
  match q with
  | [] => simp [isOperand]
  | 0 :: r => simp [isOperand, hc, ho]
  | (_ + 1) :: r => simp [isOperand, hc]

private theorem single_child (t e : Tree) (hc : t.children = [e]) (ho : isOp t = false)
    (path p : List Nat) :
    (∃ q, p = path ++ [0] ++ q ∧ isOperand e q = true) ↔ ∃ q, p = path ++ q ∧ isOperand t q = true := by
  constructor
  · rintro ⟨q, rfl, h⟩
    exact ⟨0 :: q, by simp, (isOperand_single t e hc ho _).2 ⟨q, rfl, h⟩⟩
  · rintro ⟨q, rfl, h⟩
    obtain ⟨r, rfl, h'⟩ := (isOperand_single t e hc ho _).1 h
    exact ⟨r, by simp, h'⟩

mutual
theorem mem_operandPaths :∀ (t : Tree) (path p : List Nat),
    p ∈ operandPaths path t ↔ ∃ q, p = path ++ q ∧ isOperand t q = true
  | .term .., path, p => by
      simp only [operandPaths, List.not_mem_nil, false_iff]
      rintro ⟨q, -, h⟩; cases q <;> simp [isOperand, Tree.children] at h
  | .none _, path, p => by
      simp only [operandPaths, List.not_mem_nil, false_iff]
      rintro ⟨q, -, h⟩; cases q <;> simp [isOperand, Tree.children] at h
  | .field _ e _, path, p => by
      simp only [operandPaths, mem_operandPaths e]; exact single_child _ e rfl rfl path p
  | .group _ e _, path, p => by
      simp only [operandPaths, mem_operandPaths e]; exact single_child _ e rfl rfl path p
  | .approx _ e _ _, path, p => by
      simp only [operandPaths, mem_operandPaths e]; exact single_child _ e rfl rfl path p
  | .boost e _ _, path, p => by
      simp only [operandPaths, mem_operandPaths e]; exact single_child _ e rfl rfl path p
  | .unary _ e _, path, p => by
      simp only [operandPaths, mem_operandPaths e]; exact single_child _ e rfl rfl path p
  | .orange _ e _ _, path, p => by
      simp only [operandPaths, mem_operandPaths e]; exact single_child _ e rfl rfl path p
  | .range a b _ _ _, path, p => by
      simp only [operandPaths, List.mem_append, mem_operandPaths a, mem_operandPaths b]
      constructor
      · rintro (⟨q, rfl, h⟩ | ⟨q, rfl, h⟩)
        · exact ⟨0 :: q, by simp, by simp [isOperand, Tree.children, isOp, h]⟩
        · exact ⟨1 :: q, by simp, by simp [isOperand, Tree.children, isOp, h]⟩
      · rintro ⟨q, rfl, h⟩
        match q, h with
        | [], h => simp [isOperand] at h
        | 0 :: r, h =>
          simp [isOperand, Tree.children, isOp] at h
          exact Or.inl ⟨r, by simp, h⟩
        | 1 :: r, h =>
          simp [isOperand, Tree.children, isOp] at h
          exact Or.inr ⟨r, by simp, h⟩
        | (_ + 2) :: r, h => simp [isOperand, Tree.children] at h
  | .op k xs l, path, p => by
      simp only [operandPaths, List.mem_append, List.mem_map, List.mem_range,
        mem_operandPathsList xs path 0 p]
      constructor
      · rintro (⟨i, hi, rfl⟩ | ⟨j, r, c, hc, rfl, h⟩)
        · refine ⟨[i], rfl, ?_⟩
          have : xs[i]? = some xs[i] := by simp [hi]
          simp [isOperand, Tree.children, isOp, this]
        · exact ⟨j :: r, by simp, by simp [isOperand, Tree.children, hc, h]⟩
      · rintro ⟨q, rfl, h⟩
        match q, h with
        | [], h => simp [isOperand] at h
        | j :: r, h =>
          simp only [isOperand, Tree.children] at h
          cases hc : xs[j]? with
          | none => simp [hc] at h
          | some c =>
            simp only [hc, isOp, Bool.true_and, Bool.or_eq_true] at h
            rcases h with h | h
            · simp at h; subst h
              left; refine ⟨j, ?_, rfl⟩
              have := List.getElem?_eq_some_iff.1 hc; exact this.1
            · exact Or.inr ⟨j, r, c, hc, by simp, h⟩
theorem mem_operandPathsList : ∀ (xs : List Tree) (path : List Nat) (i : Nat) (p : List Nat),
    p ∈ operandPathsList path i xs ↔
      ∃ j r c, xs[j]? = some c ∧ p = path ++ [i + j] ++ r ∧ isOperand c r = true
  | [], path, i, p => by simp [operandPathsList]
  | x :: rest, path, i, p => by
      simp only [operandPathsList, List.mem_append, mem_operandPaths x,
        mem_operandPathsList rest path (i + 1) p]
      constructor
      · rintro (⟨q, rfl, h⟩ | ⟨j, r, c, hc, rfl, h⟩)
        · exact ⟨0, q, x, by simp, by simp, h⟩
        · exact ⟨j + 1, r, c, by simp [hc], by simp; omega, h⟩
      · rintro ⟨j, r, c, hc, rfl, h⟩
        cases j with
        | zero => simp at hc; subst hc; exact Or.inl ⟨r, by simp, h⟩
        | succ j => simp at hc; exact Or.inr ⟨j, r, c, hc, by simp; omega, h⟩
end

/-- **The named elements** of `auto_name`: the direct operands of the operations, or the root alone
when there is none -/
def named (t : Tree) : List (List Nat) :=
  if (operandPaths [] t).isEmpty then [[]] else operandPaths [] t

/-- `t` has an operation with at least one operand -/
def hasOperand (t : Tree) : Bool := !(operandPaths [] t).isEmpty

theorem hasOperand_iff (t : Tree) : hasOperand t = true ↔ ∃ p, isOperand t p = true := by
  simp only [hasOperand, Bool.not_eq_true', List.isEmpty_eq_false_iff_exists_mem, mem_operandPaths]
  constructor
  · rintro ⟨_, q, _, h⟩; exact ⟨q, h⟩
  · rintro ⟨q, h⟩; exact ⟨_, q, rfl, h⟩

theorem mem_named (t : Tree) (p : List Nat) :
    p ∈ named t ↔ isOperand t p = true ∨ (p = [] ∧ hasOperand t = false) := by
  unfold named
  cases h : hasOperand t
  · have h' : (operandPaths [] t).isEmpty = true := by simpa [hasOperand] using h
    have hno : isOperand t p = false := by
      cases hp : isOperand t p
      · rfl
      · have := (hasOperand_iff t).2 ⟨p, hp⟩; simp [h] at this
    simp [h', hno]
  · have h' : (operandPaths [] t).isEmpty = false := by simpa [hasOperand] using h
    simp [h', mem_operandPaths]

end Luqum.Lemmas.NamedPaths
