/-
  Luqum.Lemmas.ReparseBare — `str(item)` prints the tree without the head and the tail of its root:
  `bare u`.  The head of the root only adds to the separator before the first token and the tail to
  the separator after the last one, so the adjacency condition `gluesOK` of `bare u` is that of `u`
  (`Tree.gluesOK_bare`); the other conditions do not look at the layout of the root.
-/
import Luqum.Lemmas.ReparseValid
import Luqum.Lemmas.ReparseRun
import Luqum.Lemmas.CertAct

namespace Luqum

/-- the tree without the head and the tail of its root -/
def bare (u : Tree) : Tree := u.setLay { u.lay with head := [], tail := [] }

/-- `item.__str__(head_tail=False)` is `__str__(head_tail=True)` of the bare tree -/
theorem Tree.body_eq_bare (s : NumStyle) (u : Tree) : u.body s = (bare u).full s := by
  cases u <;> simp [bare, Tree.setLay, Tree.lay, Tree.body, Tree.full]

theorem blankLayout_bare (u : Tree) (h : u.blankLayout = true) : (bare u).blankLayout = true := by
  cases u <;>
    simp only [bare, Tree.setLay, Tree.lay, Tree.blankLayout, Bool.and_eq_true] at h ⊢ <;>
    simp [h, isBlank]

theorem canonAt_bare (uf : Bool) (u : Tree) : CanonAt uf (bare u) = CanonAt uf u := by
  unfold bare; exact canonAt_setLay _ _ uf

theorem wordsOK_setLay (t : Tree) (l : Lay) : WordsOK (t.setLay l) = WordsOK t := by
  cases t with
  | term k v l' => cases k <;> simp [Tree.setLay, WordsOK]
  | approx k e n l' => cases k <;> simp [Tree.setLay, WordsOK]
  | _ => simp [Tree.setLay, WordsOK]

theorem wordsOK_bare (u : Tree) : WordsOK (bare u) = WordsOK u := wordsOK_setLay ..

theorem numsOK_bare (u : Tree) : numsOK (bare u) = numsOK u := numsOK_setLay ..

theorem validTexts_setLay (t : Tree) (l : Lay) : validTexts (t.setLay l) = validTexts t := by
  cases t with
  | term k v l' => cases k <;> simp [Tree.setLay, validTexts]
  | _ => simp [Tree.setLay, validTexts]

theorem validTexts_bare (u : Tree) : validTexts (bare u) = validTexts u := validTexts_setLay ..

/-! ### a pending separator goes before the first token -/

/-- add `P` before the first piece (to the trailing separator if there is no piece) -/
def addPre (P : Str) : List Piece × Str → List Piece × Str
  | ([], tr) => ([], P ++ tr)
  | (p :: ps, tr) => ({ p with sep := P ++ p.sep } :: ps, tr)

/-- add `w` to the trailing separator -/
def addTrail (w : Str) (R : List Piece × Str) : List Piece × Str := (R.1, R.2 ++ w)

theorem addPre_seq (P : Str) (R : List Piece × Str) (F : Str → List Piece × Str)
    (hF : ∀ x, F (P ++ x) = addPre P (F x)) :
    ((addPre P R).1 ++ (F (addPre P R).2).1, (F (addPre P R).2).2) =
      addPre P (R.1 ++ (F R.2).1, (F R.2).2) := by
  obtain ⟨ps, tr⟩ := R
  cases ps with
  | nil =>
    simp only [addPre, List.nil_append]
    exact hF tr
  | cons p ps => rfl

theorem addPre_addTrail (P w : Str) (R : List Piece × Str) :
    addTrail w (addPre P R) = addPre P (addTrail w R) := by
  obtain ⟨ps, tr⟩ := R
  cases ps <;> simp [addPre, addTrail]

mutual
/-- a pending separator is written before the first token of the tree -/
theorem Tree.pcs_pre (s : NumStyle) : ∀ (t : Tree) (P pre : Str),
    t.pcs s (P ++ pre) = addPre P (t.pcs s pre)
  | .term k v l, P, pre => by cases k <;> simp [Tree.pcs, addPre]
  | .field n e l, P, pre => by simp [Tree.pcs, addPre]
  | .group k e l, P, pre => by simp [Tree.pcs, addPre]
  | .range a b il ih l, P, pre => by simp [Tree.pcs, addPre]
  | .approx k t n l, P, pre => by
    simp only [Tree.pcs, List.append_assoc]
    rw [Tree.pcs_pre s t P (pre ++ l.head)]
    exact addPre_seq P _ (fun x => ([⟨x, .approx, '~' :: n.text s⟩], l.tail)) (fun x => rfl)
  | .boost e n l, P, pre => by
    simp only [Tree.pcs, List.append_assoc]
    rw [Tree.pcs_pre s e P (pre ++ l.head)]
    exact addPre_seq P _ (fun x => ([⟨x, .boost, '^' :: n.text s⟩], l.tail)) (fun x => rfl)
  | .op k [] l, P, pre => by simp [Tree.pcs, addPre]
  | .op k (x :: xs) l, P, pre => by
    simp only [Tree.pcs, List.append_assoc]
    rw [Tree.pcs_pre s x P (pre ++ l.head)]
    exact addPre_seq P _ (fun y => addTrail l.tail (Tree.pcsTail s k xs y))
      (fun y => by rw [Tree.pcsTail_pre s k xs P y, addPre_addTrail])
  | .unary k a l, P, pre => by cases k <;> simp [Tree.pcs, addPre]
  | .orange k a inc l, P, pre => by cases k <;> simp [Tree.pcs, addPre]
  | .none l, P, pre => by simp [Tree.pcs, addPre]
theorem Tree.pcsTail_pre (s : NumStyle) (k : OpK) : ∀ (ys : List Tree) (P pre : Str),
    Tree.pcsTail s k ys (P ++ pre) = addPre P (Tree.pcsTail s k ys pre)
  | [], P, pre => by simp [Tree.pcsTail, addPre]
  | y :: r, P, pre => by
    rcases opTok_word k with ⟨h1, _, _⟩ | ⟨kk, w, h1, _, _⟩
    · simp only [Tree.pcsTail, h1]
      rw [Tree.pcs_pre s y P pre]
      exact addPre_seq P _ (fun x => Tree.pcsTail s k r x) (fun x => Tree.pcsTail_pre s k r P x)
    · simp [Tree.pcsTail, h1, addPre]
end

/-- **the head of the root goes before the first token, its tail after the last one** -/
theorem Tree.pcs_lay (s : NumStyle) (t : Tree) (hn : t.isNone = false) (pre : Str) :
    t.pcs s pre = addTrail t.lay.tail (addPre (pre ++ t.lay.head) ((bare t).pcs s [])) := by
  cases t with
  | none l => simp [Tree.isNone] at hn
  | term k v l => cases k <;> simp [bare, Tree.setLay, Tree.lay, Tree.pcs, addPre, addTrail]
  | field n e l => simp [bare, Tree.setLay, Tree.lay, Tree.pcs, addPre, addTrail]
  | group k e l => simp [bare, Tree.setLay, Tree.lay, Tree.pcs, addPre, addTrail]
  | range a b il ih l => simp [bare, Tree.setLay, Tree.lay, Tree.pcs, addPre, addTrail]
  | approx k t n l =>
    simp only [bare, Tree.setLay, Tree.lay, Tree.pcs, List.append_nil]
    have := Tree.pcs_pre s t (pre ++ l.head) []
    rw [List.append_nil] at this
    rw [this]
    have h2 := addPre_seq (pre ++ l.head) (t.pcs s [])
      (fun x => ([⟨x, .approx, '~' :: n.text s⟩], [])) (fun x => rfl)
    simp only at h2
    rw [← h2]
    simp [addTrail]
  | boost e n l =>
    simp only [bare, Tree.setLay, Tree.lay, Tree.pcs, List.append_nil]
    have := Tree.pcs_pre s e (pre ++ l.head) []
    rw [List.append_nil] at this
    rw [this]
    have h2 := addPre_seq (pre ++ l.head) (e.pcs s [])
      (fun x => ([⟨x, .boost, '^' :: n.text s⟩], [])) (fun x => rfl)
    simp only at h2
    rw [← h2]
    simp [addTrail]
  | op k xs l =>
    cases xs with
    | nil => simp [bare, Tree.setLay, Tree.lay, Tree.pcs, addPre, addTrail]
    | cons x xs =>
      simp only [bare, Tree.setLay, Tree.lay, Tree.pcs, List.append_nil]
      have := Tree.pcs_pre s x (pre ++ l.head) []
      rw [List.append_nil] at this
      rw [this]
      have h2 := addPre_seq (pre ++ l.head) (x.pcs s [])
        (fun y => Tree.pcsTail s k xs y) (fun y => Tree.pcsTail_pre s k xs _ y)
      rw [← h2]
      simp [addTrail]
  | unary k a l => cases k <;> simp [bare, Tree.setLay, Tree.lay, Tree.pcs, addPre, addTrail]
  | orange k a inc l => cases k <;> simp [bare, Tree.setLay, Tree.lay, Tree.pcs, addPre, addTrail]

/-! ### the adjacency condition -/

theorem gluesOK_addPre (P : Str) (R : List Piece × Str) :
    gluesOK (addPre P R).1 (addPre P R).2 = gluesOK R.1 R.2 := by
  obtain ⟨ps, tr⟩ := R
  match ps with
  | [] => rfl
  | [p] => rfl
  | p :: q :: rest => rfl

theorem secOK_blank_tail (X tr : Str) (h : isBlank tr = true) : secOK (X ++ tr) = secOK X := by
  cases tr with
  | nil => simp
  | cons c w =>
    rw [isBlank_cons, Bool.and_eq_true] at h
    have hc : c ≠ ':' := space_ne h.1 (by decide)
    have hd := space_not_digit h.1
    match X with
    | [] =>
      rw [secOK_eq]
      simp only [List.nil_append]
      split
      · rename_i r' heq
        simp only [List.cons.injEq] at heq
        exact absurd heq.1 hc
      · rfl
    | [x] =>
      cases w with
      | nil => simp [secOK]
      | cons m w' =>
        by_cases hx : x = ':'
        · subst hx; simp [secOK, hd]
        · rw [secOK_eq, secOK_eq]
          simp only [List.cons_append, List.nil_append]
          split
          · rename_i r' heq
            simp only [List.cons.injEq] at heq
            exact absurd heq.1 hx
          · split
            · rename_i r' heq
              simp only [List.cons.injEq] at heq
              exact absurd heq.1 hx
            · rfl
    | [x, y] =>
      by_cases hx : x = ':'
      · subst hx; simp [secOK, hd]
      · rw [secOK_eq, secOK_eq]
        simp only [List.cons_append, List.nil_append]
        split
        · rename_i r' heq
          simp only [List.cons.injEq] at heq
          exact absurd heq.1 hx
        · split
          · rename_i r' heq
            simp only [List.cons.injEq] at heq
            exact absurd heq.1 hx
          · rfl
    | x :: y :: z :: X' =>
      by_cases hx : x = ':'
      · subst hx; simp [secOK]
      · rw [secOK_eq, secOK_eq]
        simp only [List.cons_append]
        split
        · rename_i r' heq
          simp only [List.cons.injEq] at heq
          exact absurd heq.1 hx
        · split
          · rename_i r' heq
            simp only [List.cons.injEq] at heq
            exact absurd heq.1 hx
          · rfl

theorem secOK_trail {tr tr' : Str} (h : isBlank tr = true) (h' : isBlank tr' = true) :
    ∀ (ps : List Piece) (X : Str), secOK (X ++ spell ps tr) = secOK (X ++ spell ps tr')
  | [], X => by simp only [spell]; rw [secOK_blank_tail X tr h, secOK_blank_tail X tr' h']
  | p :: ps, X => by
    have := secOK_trail h h' ps (X ++ (p.sep ++ p.text))
    simpa only [spell, List.append_assoc] using this

/-- the adjacency condition does not depend on the (blank) trailing separator -/
theorem gluesOK_trail {tr tr' : Str} (h : isBlank tr = true) (h' : isBlank tr' = true) :
    ∀ ps : List Piece, gluesOK ps tr = gluesOK ps tr'
  | [] => rfl
  | [_] => rfl
  | p :: q :: rest => by
    simp only [gluesOK, timeClash]
    rw [gluesOK_trail h h' (q :: rest), secOK_trail h h' rest q.text]

/-- **the adjacency condition of a tree with a blank layout does not depend on the head and the tail
of its root** -/
theorem Tree.gluesOK_bare (s : NumStyle) (u : Tree) (h : u.blankLayout = true) :
    gluesOK ((bare u).pcs s []).1 ((bare u).pcs s []).2 = gluesOK (u.pcs s []).1 (u.pcs s []).2 := by
  cases hn : u.isNone with
  | true =>
    cases u <;> simp [Tree.isNone] at hn
    simp [bare, Tree.setLay, Tree.pcs]
  | false =>
    have hb := (Tree.pcs_blank s u [] rfl h).2
    rw [Tree.pcs_lay s u hn []] at hb ⊢
    simp only [addTrail] at hb ⊢
    rw [isBlank_append, Bool.and_eq_true] at hb
    rw [← gluesOK_addPre ([] ++ u.lay.head) ((bare u).pcs s [])]
    exact gluesOK_trail hb.1 (by rw [isBlank_append, hb.1, hb.2]; rfl) _

end Luqum
