/-
  Luqum.Lemmas.ComplConvRun — the converse of completeness, the run: the invariant of
  Luqum.Lemmas.ComplConv is kept by every shift and every reduction of the generated tables, hence
  every tree returned by `parse` satisfies `TextOK`.
-/
import Luqum.Lemmas.ComplConv

namespace Luqum.Compl
open Luqum

/-- every reduce action of the generated tables uses a production of the grammar -/
theorem red_mem {s : Nat} {name : String} {a : Int} (ha : tables.act? s name = some a) (hneg : a < 0) :
    tables.prods.getD (-a).toNat ("", [], "") ∈ Generated.productions.tail := by
  obtain ⟨hs, hm, _⟩ := getD_getD_some ha
  have h4 := reduces_ok
  simp only [reducesOK, List.all_eq_true, List.mem_range, List.mem_eraseDups, Array.mem_toList_iff] at h4
  have := h4 s hs _ hm
  simp only [Bool.or_eq_true, Bool.and_eq_true, decide_eq_true_eq, beq_iff_eq,
    List.contains_iff_mem] at this
  rcases this with h | ⟨⟨hg, _⟩, _⟩
  · omega
  · exact hg

/-- a shifted token satisfies the invariant for its terminal -/
theorem symP_shift {t : Tok} (hok : tokOK t.kind t.text) (hcl : t.termClean) :
    SymP t.kind.name t.toVal := by
  refine ⟨valOf_tok t, ?_, ?_⟩
  · obtain ⟨kind, text, pos, head, tail⟩ := t
    cases kind <;> simp only [tokOK] at hok <;>
      simp [Tok.toVal, VText, TextOK, tokValOK, hok]
    · exact Or.inl (hcl rfl)
    all_goals simpa using hok
  · obtain ⟨kind, text, pos, head, tail⟩ := t
    cases kind <;> simp [Tok.toVal, SymX, TokK.name]
    exact ⟨text, _, rfl, hcl rfl⟩

/-- the invariant of the driver loop -/
structure TInv (c : Cfg) (toks : List Tok) : Prop where
  inv : InvP tables c.states c.vals
  tks : ∀ t ∈ toks, tokOK t.kind t.text ∧ t.termClean

theorem tinv_shift (c : Cfg) (t : Tok) (toks : List Tok) (c' : Cfg)
    (hP : TInv c (t :: toks)) (hs : step tables c (some t) = .shift c') : TInv c' toks := by
  obtain ⟨t', a, hl, ha, hpos, rfl⟩ := step_shift hs
  cases hl
  obtain ⟨hI, hT⟩ := hP
  obtain ⟨hok, hcl⟩ := hT t (by simp)
  refine ⟨?_, fun x hx => hT x (by simp [hx])⟩
  obtain ⟨s, ss, hss⟩ := invP_states_ne hI
  simp only
  rw [hss] at hI ha ⊢
  exact .push hI (Or.inl ⟨a, by simpa using ha, hpos, rfl⟩) (symP_shift hok hcl)

theorem tinv_reduce (c : Cfg) (toks : List Tok) (c' : Cfg)
    (hP : TInv c toks) (hs : step tables c toks.head? = .reduce c') : TInv c' toks := by
  obtain ⟨a, ha, hneg, hr⟩ := step_reduce' hs
  obtain ⟨v, g, hlen, hact, hg, rfl⟩ := reduceBy_reduce' hr
  obtain ⟨_, _, hback⟩ := cons_ok.red _ _ _ ha hneg
  have hprod := prod_text_ok _ (red_mem ha hneg)
  generalize tables.prods.getD (-a).toNat ("", [], "") = p at hlen hact hg hback hprod
  obtain ⟨hI, hT⟩ := hP
  obtain ⟨s, ss, hss⟩ := invP_states_ne hI
  rw [hss] at hI
  rw [hss, List.headD_cons] at hback
  obtain ⟨_, hvals, s', ss', hdrop, hI'⟩ := invP_back _ _ _ _ hI hback
  simp only [List.length_reverse] at hvals hdrop hI'
  have hargs := argsP_of_symsP _ _ hvals
  rw [List.reverse_reverse] at hargs
  have hv := hprod _ v hargs hact
  refine ⟨?_, hT⟩
  simp only
  rw [hss, hdrop]
  rw [hss, hdrop, List.headD_cons] at hg
  exact .push hI' (Or.inr ⟨g, hg, rfl⟩) hv

/-- a successful run of the generated tables over well-formed tokens returns a value with good
texts -/
theorem runLoop_vtext (fuel : Nat) (toks : List Tok) (lerr : Option LexErr) (v : Val)
    (hT : ∀ t ∈ toks, tokOK t.kind t.text ∧ t.termClean)
    (h : runLoop tables fuel { states := [0], vals := [] } toks lerr = .ok v) : VText v := by
  have := runLoop_ok (T := tables) (P := TInv) tinv_shift tinv_reduce
    fuel { states := [0], vals := [] } toks lerr v ⟨.base, hT⟩ h
  obtain ⟨c', toks', ⟨hI, _⟩, hacc, _⟩ := this
  obtain ⟨_, r, hv⟩ := step_accept hacc
  obtain ⟨states, vals⟩ := c'
  simp only at hI hv
  subst hv
  cases hI with
  | push _ _ hV => exact hV.2.1

/-- **every tree returned by the parser has the texts and numerals of `Parseable`** -/
theorem parse_textOK (s : Str) (t : Tree) (h : parse s = .ok t) : TextOK t = true := by
  have hnolex := Props.C01.parse_ok_no_lexErr s t h
  have hclean := lex_termClean s
  unfold parse parseWith at h
  rcases hlex : lex s with ⟨toks, lerr⟩
  rw [hlex] at h hnolex hclean
  simp only at h hnolex hclean
  subst hnolex
  obtain ⟨hwf, _⟩ := lex_spec hlex
  split at h
  · rename_i t' hrun
    cases h
    exact runLoop_vtext _ toks none _ (fun x hx => ⟨hwf.ok x hx, hclean x hx⟩) hrun
  · cases h
  · cases h

end Luqum.Compl
