/-
  Luqum.Lemmas.EsSchemaPrefixes — from the tree of keys of `nested_fields()` to the builder's
  `nestedFlat` / `nestedPrefixes`, for the schema of a well-formed mapping:

  * `nestedFlat_toJson`: the flat nested fields are the dotted paths of the *leaves of the tree of
    keys* (`leavesB [] m`, defined by structural recursion on the mapping);
  * `mem_leavesB`: such a leaf is a child `c` of a nested node such that nothing is registered
    at or below `c` (`c.hasReg = false`);
  * `mem_nestedPrefixes`: the nested prefixes are the dotted paths of the nested nodes having such a
    child.
-/
import Luqum.Lemmas.EsSchemaTree
import Luqum.Lemmas.EsSpecNorm

namespace Luqum.Lemmas.EsSchema
open Luqum Luqum.Lemmas.EsSpecNorm

/-! ### the tree of keys as a `Spec` -/

mutual
def KTree.toSpec : KTree → Spec
  | .mk kids => .dict (kidsSpec kids)
def kidsSpec : Kids → List (Str × Spec)
  | [] => []
  | (seg, t) :: r => (joinDot seg, t.toSpec) :: kidsSpec r
end

mutual
def KTree.height : KTree → Nat
  | .mk kids => kidsHeight kids
def kidsHeight : Kids → Nat
  | [] => 0
  | (_, t) :: r => max (t.height + 1) (kidsHeight r)
end

theorem kidsHeight_append (a b : Kids) : kidsHeight (a ++ b) = max (kidsHeight a) (kidsHeight b) := by
  induction a with
  | nil => simp [kidsHeight]
  | cons x r ih => obtain ⟨seg, t⟩ := x; simp only [List.cons_append, kidsHeight, ih]; omega

mutual
/-- `jvalToSpec` with enough fuel -/
theorem jvalToSpec_toJson : ∀ (t : KTree) (fuel : Nat), t.height ≤ fuel →
    jvalToSpec fuel t.toJson = t.toSpec
  | .mk kids, 0, h => by
    cases kids with
    | nil => simp [jvalToSpec, KTree.toSpec, kidsSpec]
    | cons x r => obtain ⟨seg, t⟩ := x; simp [KTree.height, kidsHeight] at h
  | .mk kids, fuel + 1, h => by
    simp only [KTree.toJson, jvalToSpec, KTree.toSpec]
    rw [jvalToSpec_kids kids fuel (by simpa [KTree.height] using h)]
theorem jvalToSpec_kids : ∀ (kids : Kids) (fuel : Nat), kidsHeight kids ≤ fuel + 1 →
    (kidsJson kids).map (fun kv => (kv.1, jvalToSpec fuel kv.2)) = kidsSpec kids
  | [], _, _ => by simp [kidsJson, kidsSpec]
  | (seg, t) :: r, fuel, h => by
    have h1 : t.height ≤ fuel := by simp [kidsHeight] at h; omega
    have h2 : kidsHeight r ≤ fuel + 1 := by simp [kidsHeight] at h; omega
    simp [kidsJson, kidsSpec, jvalToSpec_toJson t fuel h1, jvalToSpec_kids r fuel h2]
end

mutual
theorem normalizeNested_toSpec : ∀ t : KTree, normalizeNested t.toSpec = t.toSpec
  | .mk kids => by simp [KTree.toSpec, normalizeNested, normalizeNestedKvs_kidsSpec kids]
theorem normalizeNestedKvs_kidsSpec : ∀ kids : Kids, normalizeNestedKvs (kidsSpec kids) = kidsSpec kids
  | [] => by simp [kidsSpec, normalizeNestedKvs]
  | (seg, t) :: r => by
    simp [kidsSpec, normalizeNestedKvs, normalizeNested_toSpec t, normalizeNestedKvs_kidsSpec r]
end

/-! ### the leaves of the tree of keys -/

mutual
/-- the paths of keys (as segments) from the root to the leaves: mirrors `flattenSpecs` -/
def KTree.leafSegs : KTree → List (List (List Str))
  | .mk kids => if kids.isEmpty then [[]] else kidsLeafSegs kids
def kidsLeafSegs : Kids → List (List (List Str))
  | [] => []
  | (seg, t) :: r => t.leafSegs.map (seg :: ·) ++ kidsLeafSegs r
end

theorem kidsLeafSegs_append (a b : Kids) : kidsLeafSegs (a ++ b) = kidsLeafSegs a ++ kidsLeafSegs b := by
  induction a with
  | nil => simp [kidsLeafSegs]
  | cons x r ih => obtain ⟨seg, t⟩ := x; simp [kidsLeafSegs, ih]

theorem kidsSpec_isEmpty (kids : Kids) : (kidsSpec kids).isEmpty = kids.isEmpty := by
  cases kids with
  | nil => simp [kidsSpec]
  | cons x r => obtain ⟨seg, t⟩ := x; simp [kidsSpec]

mutual
theorem flattenSpecs_toSpec : ∀ t : KTree,
    flattenSpecs t.toSpec = t.leafSegs.map (fun sp => sp.map joinDot)
  | .mk kids => by
    simp only [KTree.toSpec, flattenSpecs, KTree.leafSegs, kidsSpec_isEmpty]
    by_cases h : kids.isEmpty = true
    · simp [h]
    · simp [h, flattenKvs_kidsSpec kids]
theorem flattenKvs_kidsSpec : ∀ kids : Kids,
    flattenKvs (kidsSpec kids) = (kidsLeafSegs kids).map (fun sp => sp.map joinDot)
  | [] => by simp [kidsSpec, flattenKvs, kidsLeafSegs]
  | (seg, t) :: r => by
    simp [kidsSpec, flattenKvs, kidsLeafSegs, flattenSpecs_toSpec t, flattenKvs_kidsSpec r]
end

mutual
/-- every key is a non-empty segment -/
def KTree.ok : KTree → Prop
  | .mk kids => kidsOk kids
def kidsOk : Kids → Prop
  | [] => True
  | (seg, t) :: r => seg ≠ [] ∧ t.ok ∧ kidsOk r
end

theorem kidsOk_append {a b : Kids} (ha : kidsOk a) (hb : kidsOk b) : kidsOk (a ++ b) := by
  induction a with
  | nil => simpa using hb
  | cons x r ih =>
    obtain ⟨seg, t⟩ := x
    simp only [kidsOk, List.cons_append] at ha ⊢
    exact ⟨ha.1, ha.2.1, ih ha.2.2⟩

mutual
theorem leafSegs_ok : ∀ t : KTree, t.ok → ∀ sp ∈ t.leafSegs, ∀ s ∈ sp, s ≠ []
  | .mk kids, h => by
    simp only [KTree.leafSegs]
    by_cases he : kids.isEmpty = true
    · simp [he]
    · simp only [he, Bool.false_eq_true, if_false]
      exact kidsLeafSegs_ok kids (by simpa [KTree.ok] using h)
theorem kidsLeafSegs_ok : ∀ kids : Kids, kidsOk kids → ∀ sp ∈ kidsLeafSegs kids, ∀ s ∈ sp, s ≠ []
  | [], _ => by simp [kidsLeafSegs]
  | (seg, t) :: r, h => by
    simp only [kidsOk] at h
    intro sp hsp s hs
    simp only [kidsLeafSegs, List.mem_append, List.mem_map] at hsp
    rcases hsp with ⟨sp', hsp', rfl⟩ | hsp
    · rcases List.mem_cons.mp hs with rfl | hs
      · exact h.1
      · exact leafSegs_ok t h.2.1 sp' hsp' s hs
    · exact kidsLeafSegs_ok r h.2.2 sp hsp s hs
end

/-! ### the tree of keys of a mapping -/

mutual
/-- something is registered at or below the node: it is a nested node with a child, or an object
containing such a node -/
def Node.hasReg : Node → Bool
  | .leaf _ => false
  | .multi _ _ => false
  | .object _ ps => Props.hasReg ps
  | .nested ps => !ps.isEmpty
def Props.hasReg : Props → Bool
  | [] => false
  | (_, n) :: r => n.hasReg || Props.hasReg r
end

theorem isEmpty_append' {α : Type} (a b : List α) : (a ++ b).isEmpty = (a.isEmpty && b.isEmpty) := by
  cases a <;> simp

theorem treeA_isEmpty (ps : Props) : (treeA ps).isEmpty = ps.isEmpty := by
  cases ps with
  | nil => simp [treeA]
  | cons x r => obtain ⟨k, n⟩ := x; simp [treeA]

mutual
theorem treeBNode_isEmpty (cum : List Str) (k : Str) : ∀ n : Node,
    (treeBNode cum k n).isEmpty = !n.hasReg
  | .leaf _ => by simp [treeBNode, Node.hasReg]
  | .multi _ _ => by simp [treeBNode, Node.hasReg]
  | .object _ ps => by simp [treeBNode, Node.hasReg, treeB_isEmpty (cum ++ [k]) ps]
  | .nested ps => by
    cases ps with
    | nil => simp [treeBNode, Node.hasReg]
    | cons x r => simp [treeBNode, Node.hasReg]
theorem treeB_isEmpty (cum : List Str) : ∀ ps : Props, (treeB cum ps).isEmpty = !Props.hasReg ps
  | [] => by simp [treeB, Props.hasReg]
  | (k, n) :: r => by
    simp [treeB, Props.hasReg, isEmpty_append', treeBNode_isEmpty cum k n, treeB_isEmpty cum r]
end

theorem treeSub_isEmpty (n : Node) : (treeSub n).isEmpty = !n.hasReg := by
  cases n with
  | leaf d => simp [treeSub, Node.hasReg]
  | multi d s => simp [treeSub, Node.hasReg]
  | object e ps => simp [treeSub, Node.hasReg, treeB_isEmpty]
  | nested ps => simp [treeSub, Node.hasReg, treeA_isEmpty]

mutual
theorem treeBNode_ok (cum : List Str) (k : Str) : ∀ n : Node, kidsOk (treeBNode cum k n)
  | .leaf _ => by simp [treeBNode, kidsOk]
  | .multi _ _ => by simp [treeBNode, kidsOk]
  | .object _ ps => by simp only [treeBNode]; exact treeB_ok (cum ++ [k]) ps
  | .nested ps => by
    simp only [treeBNode]
    by_cases h : ps.isEmpty = true
    · simp [h, kidsOk]
    · simp only [h, Bool.false_eq_true, if_false, kidsOk, KTree.ok, and_true]
      exact ⟨by simp, treeA_ok ps⟩
theorem treeB_ok (cum : List Str) : ∀ ps : Props, kidsOk (treeB cum ps)
  | [] => by simp [treeB, kidsOk]
  | (k, n) :: r => by
    simp only [treeB]
    exact kidsOk_append (treeBNode_ok cum k n) (treeB_ok cum r)
theorem treeSub_ok : ∀ n : Node, kidsOk (treeSub n)
  | .leaf _ => by simp [treeSub, kidsOk]
  | .multi _ _ => by simp [treeSub, kidsOk]
  | .object _ ps => by simp only [treeSub]; exact treeB_ok [] ps
  | .nested ps => by simp only [treeSub]; exact treeA_ok ps
theorem treeA_ok : ∀ ps : Props, kidsOk (treeA ps)
  | [] => by simp [treeA, kidsOk]
  | (k, n) :: r => by
    simp only [treeA, kidsOk, KTree.ok]
    exact ⟨by simp, treeSub_ok n, treeA_ok r⟩
end

mutual
theorem treeBNode_height (cum : List Str) (k : Str) : ∀ n : Node,
    kidsHeight (treeBNode cum k n) ≤ n.depth + 1
  | .leaf _ => by simp [treeBNode, kidsHeight]
  | .multi _ _ => by simp [treeBNode, kidsHeight]
  | .object _ ps => by
    have := treeB_height (cum ++ [k]) ps
    simp only [treeBNode, Node.depth]; omega
  | .nested ps => by
    have := treeA_height ps
    simp only [treeBNode, Node.depth]
    by_cases h : ps.isEmpty = true
    · simp [h, kidsHeight]
    · simp [h, kidsHeight, KTree.height]; omega
theorem treeB_height (cum : List Str) : ∀ ps : Props, kidsHeight (treeB cum ps) ≤ Props.depth ps
  | [] => by simp [treeB, kidsHeight]
  | (k, n) :: r => by
    have h1 := treeBNode_height cum k n
    have h2 := treeB_height cum r
    simp only [treeB, kidsHeight_append, Props.depth]; omega
theorem treeSub_height : ∀ n : Node, kidsHeight (treeSub n) ≤ n.depth
  | .leaf _ => by simp [treeSub, kidsHeight]
  | .multi _ _ => by simp [treeSub, kidsHeight]
  | .object _ ps => by simp only [treeSub, Node.depth]; exact treeB_height [] ps
  | .nested ps => by simp only [treeSub, Node.depth]; exact treeA_height ps
theorem treeA_height : ∀ ps : Props, kidsHeight (treeA ps) ≤ Props.depth ps
  | [] => by simp [treeA, kidsHeight]
  | (k, n) :: r => by
    have h1 := treeSub_height n
    have h2 := treeA_height r
    simp only [treeA, kidsHeight, KTree.height, Props.depth]; omega
end

/-! ### the leaves, by recursion on the mapping -/

mutual
/-- the paths of the leaves of the tree of keys contributed by the node `n` named `k` below the
path `pfx`, its direct parent not being a nested node -/
def leavesBNode (pfx : List Str) (k : Str) : Node → List (List Str)
  | .leaf _ => []
  | .multi _ _ => []
  | .object _ ps => leavesB (pfx ++ [k]) ps
  | .nested ps => leavesA (pfx ++ [k]) ps
def leavesB (pfx : List Str) : Props → List (List Str)
  | [] => []
  | (k, n) :: r => leavesBNode pfx k n ++ leavesB pfx r
/-- … by a registered node at `path`: itself when nothing is registered below it -/
def leavesSub (path : List Str) : Node → List (List Str)
  | .leaf _ => [path]
  | .multi _ _ => [path]
  | .object _ ps => if Props.hasReg ps then leavesB path ps else [path]
  | .nested ps => if ps.isEmpty then [path] else leavesA path ps
/-- … by the children of the nested node at `pfx` -/
def leavesA (pfx : List Str) : Props → List (List Str)
  | [] => []
  | (k, n) :: r => leavesSub (pfx ++ [k]) n ++ leavesA pfx r
end

mutual
theorem leafSegs_treeBNode (cum : List Str) (k : Str) : ∀ (n : Node) (base : List Str),
    (kidsLeafSegs (treeBNode cum k n)).map (fun sp => base ++ sp.flatten) =
      leavesBNode (base ++ cum) k n
  | .leaf _, base => by simp [treeBNode, kidsLeafSegs, leavesBNode]
  | .multi _ _, base => by simp [treeBNode, kidsLeafSegs, leavesBNode]
  | .object _ ps, base => by
    have := leafSegs_treeB (cum ++ [k]) ps base
    simp only [treeBNode, leavesBNode, this, List.append_assoc]
  | .nested ps, base => by
    simp only [treeBNode, leavesBNode]
    by_cases h : ps.isEmpty = true
    · have : ps = [] := by simpa using h
      subst this
      simp [kidsLeafSegs, leavesA]
    · have ha : (treeA ps).isEmpty = false := by rw [treeA_isEmpty]; simpa using h
      have := leafSegs_treeA ps (base ++ cum ++ [k])
      simp only [h, Bool.false_eq_true, if_false, kidsLeafSegs, KTree.leafSegs, ha, List.append_nil,
        List.map_map]
      rw [← this]
      apply List.map_congr_left
      intro sp _
      simp
theorem leafSegs_treeB (cum : List Str) : ∀ (ps : Props) (base : List Str),
    (kidsLeafSegs (treeB cum ps)).map (fun sp => base ++ sp.flatten) = leavesB (base ++ cum) ps
  | [], base => by simp [treeB, kidsLeafSegs, leavesB]
  | (k, n) :: r, base => by
    simp only [treeB, leavesB, kidsLeafSegs_append, List.map_append, leafSegs_treeBNode cum k n base,
      leafSegs_treeB cum r base]
theorem leafSegs_treeSub : ∀ (n : Node) (path : List Str),
    (KTree.mk (treeSub n)).leafSegs.map (fun sp => path ++ sp.flatten) = leavesSub path n
  | .leaf _, path => by simp [treeSub, KTree.leafSegs, leavesSub]
  | .multi _ _, path => by simp [treeSub, KTree.leafSegs, leavesSub]
  | .object _ ps, path => by
    have := leafSegs_treeB [] ps path
    simp only [treeSub, KTree.leafSegs, leavesSub, treeB_isEmpty]
    by_cases h : Props.hasReg ps = true
    · simpa [h] using this
    · simp [h]
  | .nested ps, path => by
    have := leafSegs_treeA ps path
    simp only [treeSub, KTree.leafSegs, leavesSub, treeA_isEmpty]
    by_cases h : ps.isEmpty = true
    · simp [h]
    · simpa [h] using this
theorem leafSegs_treeA : ∀ (ps : Props) (path : List Str),
    (kidsLeafSegs (treeA ps)).map (fun sp => path ++ sp.flatten) = leavesA path ps
  | [], path => by simp [treeA, kidsLeafSegs, leavesA]
  | (k, n) :: r, path => by
    have h1 := leafSegs_treeSub n (path ++ [k])
    have h2 := leafSegs_treeA r path
    simp only [treeA, kidsLeafSegs, leavesA, List.map_append, List.map_map, h2]
    rw [← h1]
    congr 1
    apply List.map_congr_left
    intro sp _
    simp
end

/-! ### the configuration derived from the schema -/

theorem schemaCfg_nested {m : Props} (h : Props.wf m = true) :
    (schemaCfg (toJson m)).nested = (KTree.mk (treeB [] m)).toSpec := by
  have hh : (KTree.mk (treeB [] m)).height ≤ (toJson m).size + 1 := by
    have h1 := treeB_height [] m
    have h2 := depth_le_toJson_size m
    simp only [KTree.height]; omega
  show jvalToSpec ((toJson m).size + 1) (.obj (schemaNestedFields (toJson m))) = _
  rw [schemaNestedFields_tree h, ← jvalToSpec_toJson _ _ hh]
  rfl

theorem schemaCfg_nestedNorm {m : Props} (h : Props.wf m = true) :
    (schemaCfg (toJson m)).nestedNorm = (KTree.mk (treeB [] m)).toSpec := by
  unfold EsCfg.nestedNorm
  rw [schemaCfg_nested h, normalizeNested_toSpec]

/-- **the flat nested fields of the schema of a well-formed mapping**: the dotted paths of the
leaves of the tree of keys; `[""]` when nothing is registered -/
theorem nestedFlat_toJson {m : Props} (h : Props.wf m = true) :
    (schemaCfg (toJson m)).nestedFlat =
      if Props.hasReg m then dedup ((leavesB [] m).map joinDot) else [[]] := by
  unfold EsCfg.nestedFlat
  rw [schemaCfg_nestedNorm h]
  have hflat : flattenNested (KTree.mk (treeB [] m)).toSpec =
      dedup ((flattenSpecs (KTree.mk (treeB [] m)).toSpec).map joinDot) := by
    simp [KTree.toSpec, flattenNested]
  rw [hflat, flattenSpecs_toSpec, List.map_map]
  have hok : ∀ sp ∈ (KTree.mk (treeB [] m)).leafSegs,
      (joinDot ∘ fun sp => sp.map joinDot) sp = joinDot sp.flatten := by
    intro sp hsp
    exact joinDot_map_joinDot sp (leafSegs_ok _ (by simpa [KTree.ok] using treeB_ok [] m) sp hsp)
  rw [List.map_congr_left hok]
  simp only [KTree.leafSegs, treeB_isEmpty]
  by_cases hr : Props.hasReg m = true
  · have := leafSegs_treeB [] m []
    simp only [List.nil_append] at this
    simp only [hr, Bool.not_true, Bool.false_eq_true, if_false, if_true, ← this, List.map_map]
    rfl
  · simp only [hr, Bool.not_false, if_true, Bool.false_eq_true, if_false]
    rfl

/-! ### which paths are leaves of the tree of keys -/

/-- `p` is the path of a child `c` of a nested node listed in `L`, nothing being registered at or
below `c` -/
def Hit (L : List (List Str × Field)) (p : List Str) : Prop :=
  ∃ q c ps' cn, p = q ++ [c] ∧ (q, Field.node (.nested ps')) ∈ L ∧ (c, cn) ∈ ps' ∧
    cn.hasReg = false

theorem Hit.nil (p : List Str) : ¬ Hit [] p := by
  rintro ⟨q, c, ps', cn, _, h, _⟩; cases h

theorem hit_append (L1 L2 : List (List Str × Field)) (p : List Str) :
    Hit (L1 ++ L2) p ↔ Hit L1 p ∨ Hit L2 p := by
  constructor
  · rintro ⟨q, c, ps', cn, h1, h2, h3, h4⟩
    rcases List.mem_append.mp h2 with h2 | h2
    · exact .inl ⟨q, c, ps', cn, h1, h2, h3, h4⟩
    · exact .inr ⟨q, c, ps', cn, h1, h2, h3, h4⟩
  · rintro (⟨q, c, ps', cn, h1, h2, h3, h4⟩ | ⟨q, c, ps', cn, h1, h2, h3, h4⟩)
    · exact ⟨q, c, ps', cn, h1, List.mem_append.mpr (.inl h2), h3, h4⟩
    · exact ⟨q, c, ps', cn, h1, List.mem_append.mpr (.inr h2), h3, h4⟩

theorem hit_cons (x : List Str × Field) (L : List (List Str × Field)) (p : List Str) :
    Hit (x :: L) p ↔ Hit [x] p ∨ Hit L p := hit_append [x] L p

theorem hit_single_nested (q : List Str) (ps : Props) (p : List Str) :
    Hit [(q, Field.node (.nested ps))] p ↔ ∃ c cn, (c, cn) ∈ ps ∧ cn.hasReg = false ∧ p = q ++ [c] := by
  constructor
  · rintro ⟨q', c, ps', cn, h1, h2, h3, h4⟩
    simp only [List.mem_singleton, Prod.mk.injEq, Field.node.injEq, Node.nested.injEq] at h2
    obtain ⟨rfl, rfl⟩ := h2
    exact ⟨c, cn, h3, h4, h1⟩
  · rintro ⟨c, cn, h3, h4, h1⟩
    exact ⟨q, c, ps, cn, h1, by simp, h3, h4⟩

theorem hit_single_other (q : List Str) (f : Field) (p : List Str)
    (h : ∀ ps, f ≠ Field.node (.nested ps)) : ¬ Hit [(q, f)] p := by
  rintro ⟨q', c, ps', cn, _, h2, _, _⟩
  simp only [List.mem_singleton, Prod.mk.injEq] at h2
  exact h ps' h2.2.symm

theorem hit_subs (pfx : List Str) (d : LeafDef) (subs : List (Str × LeafDef)) (p : List Str) :
    ¬ Hit (subs.map fun s => (pfx ++ [s.1], Field.sub d s.2)) p := by
  rintro ⟨q', c, ps', cn, _, h2, _, _⟩
  rw [List.mem_map] at h2
  obtain ⟨s, _, hs⟩ := h2
  simp at hs

mutual
/-- nothing registered at or below: every nested node there is without child -/
theorem hasReg_false_node (pfx : List Str) (k : Str) : ∀ n : Node, n.hasReg = false →
    ∀ q ps', (q, Field.node (.nested ps')) ∈ fieldsNode pfx k n → ps' = []
  | .leaf d, _, q, ps', hm => by simp [fieldsNode] at hm
  | .multi d subs, _, q, ps', hm => by simp [fieldsNode] at hm
  | .object e ps, h, q, ps', hm => by
    simp only [fieldsNode, List.mem_cons, Prod.mk.injEq, Field.node.injEq, reduceCtorEq, and_false,
      false_or] at hm
    exact hasReg_false_props (pfx ++ [k]) ps (by simpa [Node.hasReg] using h) q ps' hm
  | .nested ps, h, q, ps', hm => by
    have hps : ps = [] := by simpa [Node.hasReg] using h
    subst hps
    simp only [fieldsNode, fieldsProps, List.mem_singleton, Prod.mk.injEq, Field.node.injEq,
      Node.nested.injEq] at hm
    exact hm.2
theorem hasReg_false_props (pfx : List Str) : ∀ ps : Props, Props.hasReg ps = false →
    ∀ q ps', (q, Field.node (.nested ps')) ∈ fieldsProps pfx ps → ps' = []
  | [], _, q, ps', hm => by simp [fieldsProps] at hm
  | (k, n) :: r, h, q, ps', hm => by
    have h' : n.hasReg = false ∧ Props.hasReg r = false := by simpa [Props.hasReg] using h
    simp only [fieldsProps, List.mem_append] at hm
    rcases hm with hm | hm
    · exact hasReg_false_node pfx k n h'.1 q ps' hm
    · exact hasReg_false_props pfx r h'.2 q ps' hm
end

theorem not_hit_of_hasReg_false (pfx : List Str) (ps : Props) (h : Props.hasReg ps = false)
    (p : List Str) : ¬ Hit (fieldsProps pfx ps) p := by
  rintro ⟨q, c, ps', cn, _, h2, h3, _⟩
  have := hasReg_false_props pfx ps h q ps' h2
  subst this
  cases h3

mutual
theorem mem_leavesBNode (pfx : List Str) (k : Str) (p : List Str) : ∀ n : Node,
    p ∈ leavesBNode pfx k n ↔ Hit (fieldsNode pfx k n) p
  | .leaf d => by
    simp only [leavesBNode, fieldsNode, List.not_mem_nil, false_iff]
    exact hit_single_other _ _ _ (by simp)
  | .multi d subs => by
    simp only [leavesBNode, fieldsNode, List.not_mem_nil, false_iff]
    rw [hit_cons, not_or]
    exact ⟨hit_single_other _ _ _ (by simp), by
      have := hit_subs (pfx ++ [k]) d subs p
      simpa using this⟩
  | .object e ps => by
    simp only [leavesBNode, fieldsNode]
    rw [hit_cons, mem_leavesB (pfx ++ [k]) p ps]
    constructor
    · exact .inr
    · rintro (h | h)
      · exact absurd h (hit_single_other _ _ _ (by simp))
      · exact h
  | .nested ps => by
    simp only [leavesBNode, fieldsNode]
    rw [hit_cons, mem_leavesA (pfx ++ [k]) p ps, hit_single_nested]
theorem mem_leavesB (pfx : List Str) (p : List Str) : ∀ ps : Props,
    p ∈ leavesB pfx ps ↔ Hit (fieldsProps pfx ps) p
  | [] => by simp [leavesB, fieldsProps, Hit.nil]
  | (k, n) :: r => by
    simp only [leavesB, fieldsProps, List.mem_append, hit_append, mem_leavesBNode pfx k p n,
      mem_leavesB pfx p r]
theorem mem_leavesSub (pfx : List Str) (k : Str) (p : List Str) : ∀ n : Node,
    p ∈ leavesSub (pfx ++ [k]) n ↔ (n.hasReg = false ∧ p = pfx ++ [k]) ∨ Hit (fieldsNode pfx k n) p
  | .leaf d => by
    simp only [leavesSub, fieldsNode, List.mem_singleton, Node.hasReg, true_and]
    constructor
    · exact .inl
    · rintro (h | h)
      · exact h
      · exact absurd h (hit_single_other _ _ _ (by simp))
  | .multi d subs => by
    simp only [leavesSub, fieldsNode, List.mem_singleton, Node.hasReg, true_and]
    rw [hit_cons]
    constructor
    · exact .inl
    · rintro (h | h | h)
      · exact h
      · exact absurd h (hit_single_other _ _ _ (by simp))
      · exact absurd h (by
          have := hit_subs (pfx ++ [k]) d subs p
          simpa using this)
  | .object e ps => by
    simp only [leavesSub, fieldsNode, Node.hasReg]
    rw [hit_cons]
    by_cases h : Props.hasReg ps = true
    · simp only [h, if_true, mem_leavesB (pfx ++ [k]) p ps, Bool.true_eq_false, false_and, false_or]
      constructor
      · exact .inr
      · rintro (h' | h')
        · exact absurd h' (hit_single_other _ _ _ (by simp))
        · exact h'
    · have h0 : Props.hasReg ps = false := by simpa using h
      simp only [h0, Bool.false_eq_true, if_false, List.mem_singleton, true_and]
      constructor
      · exact .inl
      · rintro (h' | h' | h')
        · exact h'
        · exact absurd h' (hit_single_other _ _ _ (by simp))
        · exact absurd h' (not_hit_of_hasReg_false _ _ h0 _)
  | .nested ps => by
    simp only [leavesSub, fieldsNode, Node.hasReg]
    rw [hit_cons, hit_single_nested]
    by_cases h : ps.isEmpty = true
    · have : ps = [] := by simpa using h
      subst this
      simp [fieldsProps, Hit.nil]
    · have h0 : ps.isEmpty = false := by simpa using h
      simp only [h0, Bool.false_eq_true, if_false, mem_leavesA (pfx ++ [k]) p ps, Bool.not_false,
        Bool.true_eq_false, false_and, false_or]
theorem mem_leavesA (pfx : List Str) (p : List Str) : ∀ ps : Props,
    p ∈ leavesA pfx ps ↔
      (∃ c cn, (c, cn) ∈ ps ∧ cn.hasReg = false ∧ p = pfx ++ [c]) ∨ Hit (fieldsProps pfx ps) p
  | [] => by simp [leavesA, fieldsProps, Hit.nil]
  | (k, n) :: r => by
    simp only [leavesA, fieldsProps, List.mem_append, hit_append, mem_leavesSub pfx k p n,
      mem_leavesA pfx p r, List.mem_cons, Prod.mk.injEq]
    constructor
    · rintro ((⟨h1, h2⟩ | h) | (⟨c, cn, h1, h2, h3⟩ | h))
      · exact .inl ⟨k, n, .inl ⟨rfl, rfl⟩, h1, h2⟩
      · exact .inr (.inl h)
      · exact .inl ⟨c, cn, .inr h1, h2, h3⟩
      · exact .inr (.inr h)
    · rintro (⟨c, cn, (⟨rfl, rfl⟩ | h1), h2, h3⟩ | (h | h))
      · exact .inl (.inl ⟨h2, h3⟩)
      · exact .inr (.inl ⟨c, cn, h1, h2, h3⟩)
      · exact .inl (.inr h)
      · exact .inr (.inr h)
end

/-- **the leaves of the tree of keys of a mapping**: the children `c` of the nested nodes such
that nothing is registered at or below `c` -/
theorem mem_leavesB_allFields (m : Props) (p : List Str) :
    p ∈ leavesB [] m ↔ ∃ q c ps' cn, p = q ++ [c] ∧ (q, Field.node (.nested ps')) ∈ allFields m ∧
      (c, cn) ∈ ps' ∧ cn.hasReg = false := mem_leavesB [] p m

/-! ### sub-nodes of a well-formed mapping are well-formed -/

mutual
theorem fieldsNode_wf (pfx : List Str) (k : Str) : ∀ n : Node, n.wf = true →
    ∀ q n', (q, Field.node n') ∈ fieldsNode pfx k n → n'.wf = true
  | .leaf d, h, q, n', hm => by
    simp only [fieldsNode, List.mem_singleton, Prod.mk.injEq, Field.node.injEq] at hm
    rw [hm.2]; exact h
  | .multi d subs, h, q, n', hm => by
    simp only [fieldsNode, List.mem_cons, Prod.mk.injEq, Field.node.injEq, List.mem_map,
      reduceCtorEq, and_false, exists_false, or_false] at hm
    rw [hm.2]; exact h
  | .object e ps, h, q, n', hm => by
    simp only [fieldsNode, List.mem_cons, Prod.mk.injEq, Field.node.injEq] at hm
    rcases hm with hm | hm
    · rw [hm.2]; exact h
    · exact fieldsProps_wf (pfx ++ [k]) ps (by simpa [Node.wf] using h) q n' hm
  | .nested ps, h, q, n', hm => by
    simp only [fieldsNode, List.mem_cons, Prod.mk.injEq, Field.node.injEq] at hm
    rcases hm with hm | hm
    · rw [hm.2]; exact h
    · exact fieldsProps_wf (pfx ++ [k]) ps (by simpa [Node.wf] using h) q n' hm
theorem fieldsProps_wf (pfx : List Str) : ∀ ps : Props, Props.wf ps = true →
    ∀ q n', (q, Field.node n') ∈ fieldsProps pfx ps → n'.wf = true
  | [], _, q, n', hm => by simp [fieldsProps] at hm
  | (k, n) :: r, h, q, n', hm => by
    obtain ⟨_, _, h3, h4⟩ := Props.wf_cons.mp h
    simp only [fieldsProps, List.mem_append] at hm
    rcases hm with hm | hm
    · exact fieldsNode_wf pfx k n h3 q n' hm
    · exact fieldsProps_wf pfx r h4 q n' hm
end

theorem Props.wf_mem : ∀ {ps : Props}, Props.wf ps = true → ∀ {c : Str} {cn : Node}, (c, cn) ∈ ps →
    '.' ∉ c
  | [], _, c, cn, hm => by cases hm
  | (k, n) :: r, h, c, cn, hm => by
    obtain ⟨h1, _, _, h4⟩ := Props.wf_cons.mp h
    rcases List.mem_cons.mp hm with e | hm
    · cases e; exact h1
    · exact Props.wf_mem h4 hm

/-- **the nested prefixes of the schema of a well-formed mapping**: the dotted paths of the
nested nodes having a child at or below which nothing is registered -/
theorem mem_nestedPrefixes {m : Props} (h : Props.wf m = true) {q : List Str} (hq : q ≠ [])
    (dq : DotFree q) (hne : joinDot q ≠ []) :
    joinDot q ∈ (schemaCfg (toJson m)).nestedPrefixes ↔
      ∃ ps', (q, Field.node (.nested ps')) ∈ allFields m ∧ ∃ c ∈ ps', c.2.hasReg = false := by
  unfold EsCfg.nestedPrefixes
  rw [mem_dedup, List.mem_map, nestedFlat_toJson h]
  by_cases hr : Props.hasReg m = true
  · simp only [hr, if_true, mem_dedup, List.mem_map]
    constructor
    · rintro ⟨x, ⟨p, hp, rfl⟩, hx⟩
      obtain ⟨q', c, ps', cn, rfl, h2, h3, h4⟩ := (mem_leavesB_allFields m _).mp hp
      obtain ⟨hq', dq'⟩ := allFields_path h h2
      have hc : '.' ∉ c := Props.wf_mem (by
        have := fieldsProps_wf [] m h q' _ h2
        simpa [Node.wf] using this) h3
      rw [rsplitHead_joinDot hq' (dq'.append (DotFree.single hc))] at hx
      have := joinDot_inj hq' hq dq' dq hx
      subst this
      exact ⟨ps', h2, (c, cn), h3, h4⟩
    · rintro ⟨ps', h2, ⟨c, cn⟩, h3, h4⟩
      have hc : '.' ∉ c := Props.wf_mem (by
        have := fieldsProps_wf [] m h q _ h2
        simpa [Node.wf] using this) h3
      refine ⟨joinDot (q ++ [c]), ⟨q ++ [c], ?_, rfl⟩, rsplitHead_joinDot hq (dq.append (DotFree.single hc))⟩
      exact (mem_leavesB_allFields m _).mpr ⟨q, c, ps', cn, rfl, h2, h3, h4⟩
  · have hr0 : Props.hasReg m = false := by simpa using hr
    simp only [hr0, Bool.false_eq_true, if_false, List.mem_singleton]
    constructor
    · rintro ⟨x, rfl, hx⟩
      exact absurd hx.symm hne
    · rintro ⟨ps', h2, c, h3, _⟩
      have := hasReg_false_props [] m hr0 q ps' h2
      subst this
      cases h3

end Luqum.Lemmas.EsSchema
