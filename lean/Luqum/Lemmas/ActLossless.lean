/-
  Luqum.Lemmas.ActLossless — every semantic action keeps the text: if `act f args = .ok v` and the
  side conditions hold for `args`, then `v.flat = flats args`, and `v` can take the place of `args`
  in a well-formed sequence.
-/
import Luqum.Lemmas.Flat

namespace Luqum

/-! ### numbers -/

theorem intNum_source {a : TokV} {n : Num} (h : intNum a = .ok n) : n.source = a.value.getD [] := by
  unfold intNum at h
  split at h
  · cases h; simp [Num.source, *]
  · split at h
    · cases h; simp [Num.source, *]
    · cases h

theorem decNum_source {a : TokV} {d : Dec} {n : Num} (h : decNum a d = .ok n) :
    n.source = a.value.getD [] := by
  unfold decNum at h
  split at h
  · cases h; simp [Num.source, *]
  · split at h
    · cases h; simp [Num.source, *]
    · cases h

/-! ### the shapes of the semantic actions -/

/-- neither an operation nor `NoneItem` -/
def Tree.plain : Tree → Bool
  | .op .. => false
  | .none _ => false
  | _ => true

theorem Tree.plain_good {t : Tree} (h : t.plain = true) : t.good := by
  cases t <;> simp [Tree.plain, Tree.good] at h ⊢

theorem Tree.plain_nonFirst {t : Tree} (h : t.plain = true) (hh : t.lay.head = []) : t.nonFirst := by
  cases t <;> simp [Tree.plain, Tree.nonFirst] at h hh ⊢ <;> exact hh

/-- a node constructor for `OP expr` -/
def PreOK (kk : TokK) (val : Option Str) (mk : Tree → Lay → Tree) : Prop :=
  (∀ a l, (mk a l).lay = l ∧ (mk a l).plain = true) ∧
  (tokValOK kk val → ∀ a l, (mk a l).full .raw = l.head ++ (val.getD [] ++ a.full .raw) ++ l.tail) ∧
  tokText kk val = val.getD []

/-- a node constructor for `expr OP` -/
def PostOK (kk : TokK) (val : Option Str) (mk : Tree → Lay → Tree) : Prop :=
  (∀ a l, (mk a l).lay = l ∧ (mk a l).plain = true) ∧
  (∀ a l, (mk a l).full .raw = l.head ++ (a.full .raw ++ tokText kk val) ++ l.tail)

/-- `FieldGroup` instead of `Group` directly under a `SearchField` -/
def toFieldGroup : Tree → Tree
  | .group .group x l => .group .fieldGroup x { l with name := none }
  | t => t

inductive ActShape : List Val → Val → Prop
  | unit (v : Val) : ActShape [v] v
  | bin (k : OpK) (kk : TokK) (a : Tree) (o : TokV) (b : Tree)
      (hk : kk = .orOp ∧ k = .or ∨ kk = .andOp ∧ k = .and) :
      ActShape [.item a, .tok kk o, .item b] (.item (binaryOp k a (some o.lay) b))
  | impl (a b : Tree) : ActShape [.item a, .item b] (.item (binaryOp .unk a none b))
  | pre (kk : TokK) (o : TokV) (e : Tree) (mk : Tree → Lay → Tree) (hmk : PreOK kk o.value mk) :
      ActShape [.tok kk o, .item e] (.item (mgrUnary o.lay e mk))
  | post (kk : TokK) (e : Tree) (a : TokV) (mk : Tree → Lay → Tree) (hmk : PostOK kk a.value mk) :
      ActShape [.item e, .tok kk a] (.item (mgrPostUnary e a.lay mk))
  | group (lp : TokV) (e : Tree) (rp : TokV) (pos size : Option Int) :
      ActShape [.tok .lparen lp, .item e, .tok .rparen rp]
        (.item (.group .group
          ((e.setHead (lp.lay.tail ++ e.head)).setTail
            ((e.setHead (lp.lay.tail ++ e.head)).tail ++ rp.lay.head))
          { head := lp.lay.head, tail := rp.lay.tail, pos := pos, size := size }))
  | range (lb : TokV) (lo : Tree) (to : TokV) (hi : Tree) (rb : TokV) (pos size : Option Int) :
      ActShape [.tok .lbracket lb, .item lo, .tok .to to, .item hi, .tok .rbracket rb]
        (.item (.range
          ((lo.setHead (lb.lay.tail ++ lo.head)).setTail
            ((lo.setHead (lb.lay.tail ++ lo.head)).tail ++ to.lay.head))
          ((hi.setHead (to.lay.tail ++ hi.head)).setTail
            ((hi.setHead (to.lay.tail ++ hi.head)).tail ++ rb.lay.head))
          (lb.value == some ['[']) (rb.value == some [']'])
          { head := lb.lay.head, tail := rb.lay.tail, pos := pos, size := size }))
  | field (name : Str) (nl : Lay) (c : TokV) (e : Tree) (pos size : Option Int) :
      ActShape [.item (.term .word name nl), .tok .column c, .item e]
        (.item (.field name ((toFieldGroup e).setHead (c.lay.tail ++ (toFieldGroup e).head))
          { head := nl.head, tail := [], pos := pos, size := size }))
  | toTerm (t : TokV) (pos size : Option Int) :
      ActShape [.tok .to t]
        (.item (.term .word (t.value.getD [])
          { head := t.lay.head, tail := t.lay.tail, pos := pos, size := size }))

theorem tokText_plain {kk : TokK} (h1 : kk ≠ .approx) (h2 : kk ≠ .boost) (val : Option Str) :
    tokText kk val = val.getD [] := by
  cases kk <;> simp [tokText] at h1 h2 ⊢

theorem preOK_unary (kk : TokK) (val : Option Str) (k : UnK)
    (h : tokValOK kk val → val = some k.word) (hk : kk ≠ .approx ∧ kk ≠ .boost) :
    PreOK kk val (.unary k) := by
  refine ⟨fun a l => ⟨rfl, rfl⟩, fun hv a l => ?_, tokText_plain hk.1 hk.2 val⟩
  simp [Tree.full, h hv]

theorem preOK_orange (kk : TokK) (val : Option Str) (k : ORK)
    (h : tokValOK kk val → val = some k.word ∨ val = some (k.word ++ ['=']))
    (hk : kk ≠ .approx ∧ kk ≠ .boost) :
    PreOK kk val (fun a l => .orange k a ((val.getD []).contains '=') l) := by
  refine ⟨fun a l => ⟨rfl, rfl⟩, fun hv a l => ?_, tokText_plain hk.1 hk.2 val⟩
  rcases h hv with h | h <;> cases k <;> simp [Tree.full, h, ORK.word]

theorem postOK_approx (val : Option Str) (k : ApxK) (n : Num) (h : n.source = val.getD []) :
    PostOK .approx val (fun x l => .approx k x n l) := by
  refine ⟨fun a l => ⟨rfl, rfl⟩, fun a l => ?_⟩
  simp [Tree.full, tokText, Num.text, h]

theorem postOK_boost (val : Option Str) (n : Num) (h : n.source = val.getD []) :
    PostOK .boost val (fun x l => .boost x n l) := by
  refine ⟨fun a l => ⟨rfl, rfl⟩, fun a l => ?_⟩
  simp [Tree.full, tokText, Num.text, h]

/-- inversion of `act`: a successful action has one of nine shapes -/
theorem act_shape {f : String} {args : List Val} {v : Val} (h : act f args = .ok v) :
    ActShape args v := by
  unfold act at h
  split at h
  all_goals try (simp at h; done)
  all_goals try (cases h; exact .unit _)
  case h_1 => cases h; exact .bin .or .orOp _ _ _ (Or.inl ⟨rfl, rfl⟩)
  case h_2 => cases h; exact .bin .and .andOp _ _ _ (Or.inr ⟨rfl, rfl⟩)
  case h_3 => cases h; exact .impl _ _
  case h_4 => cases h; exact .pre _ _ _ _ (preOK_unary _ _ _ (fun h => h) (by decide))
  case h_5 => cases h; exact .pre _ _ _ _ (preOK_unary _ _ _ (fun h => h) (by decide))
  case h_6 => cases h; exact .pre _ _ _ _ (preOK_unary _ _ _ (fun h => h) (by decide))
  case h_8 => split at h; cases h; exact .group _ _ _ _ _
  case h_9 => split at h; cases h; exact .range _ _ _ _ _ _ _
  case h_10 => cases h; exact .pre _ _ _ _ (preOK_unary _ _ _ (fun h => h) (by decide))
  case h_13 => cases h; exact .pre _ _ _ _ (preOK_orange _ _ .to (fun h => h) (by decide))
  case h_14 => cases h; exact .pre _ _ _ _ (preOK_orange _ _ .from (fun h => h) (by decide))
  case h_15 =>
    rename_i name nl c e
    have h' : Val.item (.field name ((toFieldGroup e).setHead (c.lay.tail ++ (toFieldGroup e).head))
        { head := nl.head, tail := [],
          pos := (mgrPos [nl, c.lay, (toFieldGroup e).lay] true false).1,
          size := (mgrPos [nl, c.lay, (toFieldGroup e).lay] true false).2 }) = v := Except.ok.inj h
    subst h'; exact .field _ _ _ _ _ _
  case h_17 =>
    split at h
    · rename_i n hn; cases h
      exact .post _ _ _ _ (postOK_approx _ _ _ (intNum_source hn))
    · cases h
  case h_18 =>
    split at h
    · rename_i n hn; cases h
      exact .post _ _ _ _ (postOK_boost _ _ (decNum_source hn))
    · cases h
  case h_20 =>
    split at h
    · rename_i n hn; cases h
      exact .post _ _ _ _ (postOK_approx _ _ _ (decNum_source hn))
    · cases h
  case h_22 => split at h; cases h; exact .toTerm _ _ _

/-! ### `create_operation` -/

/-- the operands an item contributes to an operation of class `k` -/
def side (k : OpK) : Tree → List Tree
  | .op k' xs lay => if k' = k then xs else [.op k' xs lay]
  | t => [t]

/-- the operator's tail goes in front of the first right operand -/
def pushHead (opTail : Str) : List Tree → List Tree
  | [] => []
  | x :: rest => x.setHead (x.head ++ opTail) :: rest

def opTailOf : Option Lay → Str
  | some l => l.tail
  | none => []

theorem binaryOp_eq (k : OpK) (a b : Tree) (ol : Option Lay) :
    ∃ pos size, binaryOp k a ol b =
      .op k (side k a ++ pushHead (opTailOf ol) (side k b))
        { head := [], tail := [], pos := pos, size := size } := by
  cases ol <;> exact ⟨_, _, rfl⟩

theorem side_cases (k : OpK) (t : Tree) :
    (∃ xs l, t = .op k xs l ∧ side k t = xs) ∨ side k t = [t] := by
  cases t <;> simp [side]
  rename_i k' xs l
  by_cases hk : k' = k
  · subst hk; simp
  · simp [hk]

theorem side_spec (k : OpK) (t : Tree) (h : t.good) :
    ∃ x r, side k t = x :: r ∧ x.isNone = false ∧
      joinWith k.word (Tree.fulls .raw (x :: r)) = t.full .raw ∧ (t.nonFirst → x.head = []) := by
  rcases side_cases k t with ⟨xs, l, rfl, hs⟩ | hs
  · cases xs with
    | nil => exact absurd h (by simp [Tree.good])
    | cons x r =>
      obtain ⟨h1, h2, h3⟩ := h
      refine ⟨x, r, hs, h3, ?_, fun hn => hn.2⟩
      simp [Tree.full, h1, h2]
  · refine ⟨t, [], hs, Tree.good_not_none h, by simp [Tree.fulls, joinWith], fun hn => Tree.nonFirst_head hn⟩

theorem binaryOp_spec (k : OpK) (a b : Tree) (ol : Option Lay) (ha : a.good) (hb : b.good)
    (hbn : b.nonFirst) :
    (binaryOp k a ol b).full .raw = a.full .raw ++ k.word ++ opTailOf ol ++ b.full .raw ∧
    (binaryOp k a ol b).good ∧ (a.nonFirst → (binaryOp k a ol b).nonFirst) ∧
    (binaryOp k a ol b).lay.tail = [] := by
  obtain ⟨pos, size, he⟩ := binaryOp_eq k a b ol
  obtain ⟨x, r, hsa, hxn, hja, hxa⟩ := side_spec k a ha
  obtain ⟨y, s, hsb, hyn, hjb, hyb⟩ := side_spec k b hb
  rw [he, hsa, hsb]
  refine ⟨?_, ⟨rfl, rfl, hxn⟩, fun hn => ⟨rfl, hxa hn⟩, rfl⟩
  have hy := hyb hbn
  have hpush : joinWith k.word (Tree.fulls .raw (pushHead (opTailOf ol) (y :: s)))
      = opTailOf ol ++ joinWith k.word (Tree.fulls .raw (y :: s)) := by
    simp only [pushHead, Tree.fulls]
    rw [Tree.setHead_full _ _ _ hyn, Tree.full_eq _ _ hyn, hy]
    simp only [List.nil_append, List.append_assoc]
    exact joinWith_cons_push _ _ _ _
  simp only [Tree.full, List.nil_append, List.append_nil]
  rw [Tree.fulls_append, joinWith_append _ _ _ (Tree.fulls_ne _ (by simp)) (Tree.fulls_ne _ (by simp [pushHead])),
    hja, hpush, hjb]
  simp



/-! ### the per-action lemma -/

/-- what a reduction `args ↦ v` guarantees -/
structure ActOK (args : List Val) (v : Val) : Prop where
  flat : v.flat = flats args
  good : v.good
  nf : ∀ x, args.head? = some x → x.nonFirst → v.nonFirst
  colon : ∀ x, args.head? = some x → v.isColon = true → x.isColon = true
  tail : ∀ y, args.getLast? = some y → y.lay.tail = [] → v.lay.tail = []
  ne : args ≠ []

theorem toFieldGroup_spec (e : Tree) :
    (toFieldGroup e).full .raw = e.full .raw ∧ (toFieldGroup e).body .raw = e.body .raw ∧
    (toFieldGroup e).head = e.head ∧ (toFieldGroup e).tail = e.tail ∧
    (toFieldGroup e).isNone = e.isNone := by
  unfold toFieldGroup
  split
  · simp [Tree.full, Tree.body, Tree.head, Tree.tail, Tree.lay, Tree.isNone]
  · simp

theorem shape_ok {args : List Val} {v : Val} (h : ActShape args v) (hok : SeqOK args) :
    ActOK args v := by
  obtain ⟨hg, hn, ha⟩ := hok
  cases h with
  | unit v =>
    exact ⟨by simp, hg v (by simp), by simp, by simp, by simp, by simp⟩
  | bin k kk a o b hk =>
    have hga : a.good := hg (.item a) (by simp)
    have hgb : b.good := hg (.item b) (by simp)
    have hgo : tokValOK kk o.value := hg (.tok kk o) (by simp)
    have hnb : b.nonFirst := hn (.item b) (by simp)
    have hno : o.lay.head = [] := hn (.tok kk o) (by simp)
    obtain ⟨h1, h2, h3, h4⟩ := binaryOp_spec k a b (some o.lay) hga hgb hnb
    have hw : tokText kk o.value = k.word := by
      rcases hk with ⟨rfl, rfl⟩ | ⟨rfl, rfl⟩ <;> simp [tokValOK] at hgo <;> simp [tokText, hgo, OpK.word]
    refine ⟨?_, h2, ?_, by simp [Val.isColon], ?_, by simp⟩
    · simp [Val.flat, h1, hno, hw, opTailOf]
    · simpa [Val.nonFirst] using h3
    · intro _ _ _; exact h4
  | impl a b =>
    have hga : a.good := hg (.item a) (by simp)
    have hgb : b.good := hg (.item b) (by simp)
    have hnb : b.nonFirst := hn (.item b) (by simp)
    obtain ⟨h1, h2, h3, h4⟩ := binaryOp_spec .unk a b none hga hgb hnb
    refine ⟨?_, h2, ?_, by simp [Val.isColon], ?_, by simp⟩
    · simp [Val.flat, h1, opTailOf, OpK.word]
    · simpa [Val.nonFirst] using h3
    · intro _ _ _; exact h4
  | pre kk o e mk hmk =>
    have hge : e.good := hg (.item e) (by simp)
    have hgo : tokValOK kk o.value := hg (.tok kk o) (by simp)
    have hne : e.head = [] := Tree.nonFirst_head (hn (.item e) (by simp))
    have hen := Tree.good_not_none hge
    obtain ⟨hm1, hm2, hm3⟩ := hmk
    refine ⟨?_, ?_, ?_, by simp [Val.isColon], ?_, by simp⟩
    · simp [Val.flat, mgrUnary, hm2 hgo, hm3, Tree.setHead_full _ _ _ hen, Tree.full_eq _ _ hen, hne]
    · exact Tree.plain_good (hm1 _ _).2
    · intro x hx hxn
      simp at hx; subst hx
      have hxn' : o.lay.head = [] := hxn
      exact Tree.plain_nonFirst (hm1 _ _).2 (by simpa [mgrUnary, (hm1 _ _).1] using hxn')
    · intro _ _ _; simp [Val.lay, mgrUnary, (hm1 _ _).1]
  | post kk e a mk hmk =>
    have hge : e.good := hg (.item e) (by simp)
    have hna : a.lay.head = [] := hn (.tok kk a) (by simp)
    have hen := Tree.good_not_none hge
    obtain ⟨hm1, hm2⟩ := hmk
    refine ⟨?_, ?_, ?_, by simp [Val.isColon], ?_, by simp⟩
    · simp [Val.flat, mgrPostUnary, hm2, Tree.setTail_full _ _ _ hen, Tree.full_eq _ _ hen, hna]
    · exact Tree.plain_good (hm1 _ _).2
    · intro x hx hxn
      exact Tree.plain_nonFirst (hm1 _ _).2 (by simp [mgrPostUnary, (hm1 _ _).1])
    · intro y hy hyt
      simp at hy; subst hy
      have hyt' : a.lay.tail = [] := hyt
      simp [Val.lay, mgrPostUnary, (hm1 _ _).1, hyt']
  | group lp e rp pos size =>
    have hge : e.good := hg (.item e) (by simp)
    have hglp : lp.value = some ['('] := hg (.tok .lparen lp) (by simp)
    have hgrp : rp.value = some [')'] := hg (.tok .rparen rp) (by simp)
    have hne : e.head = [] := Tree.nonFirst_head (hn (.item e) (by simp))
    have hnrp : rp.lay.head = [] := hn (.tok .rparen rp) (by simp)
    have hen := Tree.good_not_none hge
    refine ⟨?_, trivial, ?_, by simp [Val.isColon], ?_, by simp⟩
    · simp [Val.flat, Tree.full, tokText, hglp, hgrp, hne, hnrp,
        Tree.setTail_full _ _ _ (show (e.setHead _).isNone = false by simpa using hen),
        Tree.full_eq _ _ hen]
    · intro x hx hxn
      simp at hx; subst hx
      exact hxn
    · intro y hy hyt
      simp at hy; subst hy
      exact hyt
  | range lb lo to hi rb pos size =>
    have hglo : lo.good := hg (.item lo) (by simp)
    have hghi : hi.good := hg (.item hi) (by simp)
    have hglb : lb.value = some ['['] ∨ lb.value = some ['{'] := hg (.tok .lbracket lb) (by simp)
    have hgrb : rb.value = some [']'] ∨ rb.value = some ['}'] := hg (.tok .rbracket rb) (by simp)
    have hgto : to.value = some "TO".toList := hg (.tok .to to) (by simp)
    have hnlo : lo.head = [] := Tree.nonFirst_head (hn (.item lo) (by simp))
    have hnhi : hi.head = [] := Tree.nonFirst_head (hn (.item hi) (by simp))
    have hnto : to.lay.head = [] := hn (.tok .to to) (by simp)
    have hnrb : rb.lay.head = [] := hn (.tok .rbracket rb) (by simp)
    have hlon := Tree.good_not_none hglo
    have hhin := Tree.good_not_none hghi
    refine ⟨?_, trivial, ?_, by simp [Val.isColon], ?_, by simp⟩
    · rcases hglb with hglb | hglb <;> rcases hgrb with hgrb | hgrb <;>
      simp [Val.flat, Tree.full, tokText, hglb, hgrb, hgto, hnlo, hnhi, hnto, hnrb,
        Tree.setTail_full _ _ _ (show (lo.setHead _).isNone = false by simpa using hlon),
        Tree.setTail_full _ _ _ (show (hi.setHead _).isNone = false by simpa using hhin),
        Tree.full_eq _ _ hlon, Tree.full_eq _ _ hhin]
    · intro x hx hxn
      simp at hx; subst hx
      exact hxn
    · intro y hy hyt
      simp at hy; subst hy
      exact hyt
  | field name nl c e pos size =>
    have hge : e.good := hg (.item e) (by simp)
    have hgc : c.value = some [':'] := hg (.tok .column c) (by simp)
    have hne : e.head = [] := Tree.nonFirst_head (hn (.item e) (by simp))
    have hnc : c.lay.head = [] := hn (.tok .column c) (by simp)
    have hnt : nl.tail = [] := (ha.1) rfl
    have hen := Tree.good_not_none hge
    obtain ⟨f1, f2, f3, f4, f5⟩ := toFieldGroup_spec e
    refine ⟨?_, trivial, ?_, by simp [Val.isColon], ?_, by simp⟩
    · simp [Val.flat, Tree.full, tokText, hgc, hnc, hnt, f2, f3, f4, hne,
        Tree.setHead_full _ _ _ (show (toFieldGroup e).isNone = false by rw [f5]; exact hen),
        Tree.full_eq _ _ hen]
    · intro x hx hxn
      simp at hx; subst hx
      exact hxn
    · intro _ _ _; rfl
  | toTerm t pos size =>
    refine ⟨?_, trivial, ?_, by simp [Val.isColon], ?_, by simp⟩
    · simp [Val.flat, Tree.full, tokText]
    · intro x hx hxn
      simp at hx; subst hx
      exact hxn
    · intro y hy hyt
      simp at hy; subst hy
      exact hyt

theorem act_ok {f : String} {args : List Val} {v : Val} (h : act f args = .ok v)
    (hok : SeqOK args) : ActOK args v := shape_ok (act_shape h) hok

end Luqum
