/-
  Luqum.Lemmas.RelexLoop — the lexer loop over a spelling.
-/
import Luqum.Lemmas.RelexSpell
import Luqum.Lemmas.RelexValid

namespace Luqum

/-- hypotheses of the spelling theorem on the pieces -/
structure PiecesOK (ps : List Piece) (trail : Str) : Prop where
  blankTrail : isBlank trail = true
  blank : ∀ p ∈ ps, isBlank p.sep = true
  valid : ∀ p ∈ ps, validTok p.kind p.text = true
  chain : chainOK ps trail = true

theorem PiecesOK.tail {p : Piece} {ps : List Piece} {trail : Str} (h : PiecesOK (p :: ps) trail) :
    PiecesOK ps trail :=
  ⟨h.blankTrail, fun q hq => h.blank q (by simp [hq]), fun q hq => h.valid q (by simp [hq]), by
    have := h.chain; simp only [chainOK, Bool.and_eq_true] at this; exact this.2⟩

theorem PiecesOK.follow {p : Piece} {ps : List Piece} {trail : Str} (h : PiecesOK (p :: ps) trail) :
    followOK p.kind p.text (spell ps trail) = true := by
  have := h.chain; simp only [chainOK, Bool.and_eq_true] at this; exact this.1

/-- a spelling starts with the first character of its first token, or is all blank -/
theorem startOK_text {p : Piece} {r : Str} (hv : validTok p.kind p.text = true) :
    StartOK (p.text ++ r) := by
  obtain ⟨c, xs, hx, hc⟩ := validTok_cons hv
  intro d r' h
  rw [hx] at h
  simp only [List.cons_append, List.cons.injEq] at h
  rw [← h.1]; exact hc

theorem startOK_nil : StartOK [] := by intro c r h; cases h

theorem spell_length_pos {p : Piece}
    (hv : validTok p.kind p.text = true) : 1 ≤ p.text.length := by
  obtain ⟨c, xs, hx, _⟩ := validTok_cons hv
  simp [hx]

/-- the loop over a spelling, when a token has already been produced -/
theorem lexLoop_spell : ∀ (ps : List Piece) (trail : Str) (fuel pos : Nat) (prev : Str) (t : Tok)
    (racc : List Tok),
    PiecesOK ps trail → (spell ps trail).length < fuel → pos ≠ 0 →
    (∀ q qs, ps = q :: qs → q.sep = [] → isTermKind q.kind = true → boundOK prev = true) →
    lexLoop fuel pos prev (spell ps trail) (t :: racc) none =
      (racc.reverse ++ { t with tail := t.tail ++ nextSep ps trail } :: toksOf pos false ps trail,
        none) := by
  intro ps
  induction ps with
  | nil =>
    intro trail fuel pos prev t racc hok hfuel hpos _
    simp only [spell, nextSep, toksOf]
    cases htr : trail with
    | nil => simp [lexLoop_nil]
    | cons c w =>
      obtain ⟨f, rfl⟩ : ∃ f, fuel = f + 1 := ⟨fuel - 1, by omega⟩
      have hb : isBlank (c :: w) = true := htr ▸ hok.blankTrail
      have := lexLoop_sep (f := f) (pos := pos) (prev := prev) (acc := t :: racc) (pending := none)
        hb (by simp) startOK_nil
      simp only [List.append_nil] at this
      rw [this, if_neg hpos, lexLoop_nil]
      simp [addTail]
  | cons p ps ih =>
    intro trail fuel pos prev t racc hok hfuel hpos hbound
    have hv := hok.valid p (by simp)
    have hbl := hok.blank p (by simp)
    have hfo := hok.follow
    have hlen := spell_length_pos hv
    have hne : p.text ≠ [] := by intro h; rw [h] at hlen; simp at hlen
    -- the token step followed by the induction hypothesis
    have key : ∀ (f pos1 : Nat) (prev1 : Str) (t1 : Tok), pos1 ≠ 0 →
        (spell ps trail).length + p.text.length < f + 1 →
        (isTermKind p.kind = true → boundOK prev1 = true) →
        lexLoop (f + 1) pos1 prev1 (p.text ++ spell ps trail) (t1 :: racc) none =
          (racc.reverse ++ t1 ::
            ({ kind := p.kind, text := p.text, pos := pos1, head := [], tail := nextSep ps trail } : Tok)
              :: toksOf (pos1 + p.text.length) false ps trail, none) := by
      intro f pos1 prev1 t1 hp' hf' hb'
      rw [lexLoop_tok hne (lexOne_ctx hv hfo hb')]
      rw [ih trail f (pos1 + p.text.length) (p.text.reverse ++ prev1) _ (t1 :: racc) hok.tail
        (by omega) (by omega)]
      · simp
      · intro q qs hq hsep hk
        subst hq
        have hvq := hok.valid q (by simp)
        have hfo' := hfo
        simp only [spell, hsep, List.nil_append] at hfo'
        exact boundOK_after hv hfo' hvq hk
    simp only [spell, List.append_assoc] at hfuel ⊢
    simp only [List.length_append] at hfuel
    obtain ⟨f, rfl⟩ : ∃ f, fuel = f + 1 := ⟨fuel - 1, by omega⟩
    by_cases hsep : p.sep = []
    · have hns : nextSep (p :: ps) trail = [] := hsep
      simp only [hsep, hns, List.nil_append, toksOf, List.length_nil, Nat.add_zero,
        List.append_nil] at hfuel ⊢
      rw [key f pos prev t hpos (by omega) (fun hk => hbound p ps rfl hsep hk)]
      simp
    · have hsl : 1 ≤ p.sep.length := by
        cases hs : p.sep with | nil => exact absurd hs hsep | cons _ _ => simp
      obtain ⟨f', rfl⟩ : ∃ f', f = f' + 1 := ⟨f - 1, by omega⟩
      rw [lexLoop_sep hbl hsep (startOK_text hv), if_neg hpos]
      simp only [addTail]
      obtain ⟨c, w, hcw⟩ : ∃ c w, p.sep = c :: w := by
        cases hs : p.sep with | nil => exact absurd hs hsep | cons c w => exact ⟨c, w, rfl⟩
      have hc : isSpace c = true := by
        rw [hcw, isBlank_cons] at hbl; simp only [Bool.and_eq_true] at hbl; exact hbl.1
      rw [key f' (pos + p.sep.length) (p.sep.reverse ++ prev) _ (by omega) (by omega)]
      · simp [nextSep, toksOf, Nat.add_assoc]
      · intro _
        rw [hcw]
        simp only [List.reverse_cons, List.append_assoc, List.singleton_append]
        cases hr : w.reverse with
        | nil => exact boundOK_blank _ hc
        | cons d rest =>
          have hd : isSpace d = true := by
            have hw : isBlank w = true := by
              rw [hcw, isBlank_cons] at hbl; simp only [Bool.and_eq_true] at hbl; exact hbl.2
            exact List.all_eq_true.1 hw d (by rw [← List.mem_reverse, hr]; simp)
          exact boundOK_blank _ hd

theorem boundOK_blank_rev {w prev : Str} (hw : isBlank w = true) (hne : w ≠ []) :
    boundOK (w.reverse ++ prev) = true := by
  cases hr : w.reverse with
  | nil => simp at hr; exact absurd hr hne
  | cons d rest =>
    have hd : isSpace d = true :=
      List.all_eq_true.1 hw d (by rw [← List.mem_reverse, hr]; simp)
    exact boundOK_blank _ hd

/-- **spelling theorem, full form**: the lexer output on a spelling, heads, tails and positions
included -/
theorem lex_spell (ps : List Piece) (trail : Str) (hok : PiecesOK ps trail) :
    lex (spell ps trail) = (toksOf 0 true ps trail, none) := by
  unfold lex
  cases ps with
  | nil =>
    simp only [spell, toksOf]
    cases htr : trail with
    | nil => rfl
    | cons c w =>
      have hb : isBlank (c :: w) = true := htr ▸ hok.blankTrail
      have := lexLoop_sep (f := (c :: w).length) (pos := 0) (prev := []) (acc := []) (pending := none)
        hb (by simp) startOK_nil
      rw [List.append_nil] at this
      rw [this, if_pos rfl, lexLoop_nil]
      rfl
  | cons p ps =>
    have hv := hok.valid p (by simp)
    have hbl := hok.blank p (by simp)
    have hfo := hok.follow
    have hlen := spell_length_pos hv
    have hne : p.text ≠ [] := by intro h; rw [h] at hlen; simp at hlen
    have hnext : ∀ prev1, ∀ q qs, ps = q :: qs → q.sep = [] → isTermKind q.kind = true →
        boundOK (p.text.reverse ++ prev1) = true := by
      intro prev1 q qs hq hsep hk
      subst hq
      have hvq := hok.valid q (by simp)
      have hfo' := hfo
      simp only [spell, hsep, List.nil_append] at hfo'
      exact boundOK_after hv hfo' hvq hk
    simp only [spell, List.append_assoc, List.length_append]
    by_cases hsep : p.sep = []
    · simp only [hsep, List.nil_append, List.length_nil, Nat.zero_add, toksOf, Nat.add_zero]
      rw [lexLoop_tok hne (lexOne_ctx hv hfo (fun _ => rfl))]
      rw [lexLoop_spell ps trail _ _ _ _ [] hok.tail (by omega) (by omega) (hnext [])]
      simp
    · have hsl : 1 ≤ p.sep.length := by
        cases hs : p.sep with | nil => exact absurd hs hsep | cons _ _ => simp
      rw [lexLoop_sep hbl hsep (startOK_text hv), if_pos rfl]
      obtain ⟨f, hf⟩ : ∃ f, p.text.length + (spell ps trail).length = f + 1 :=
        ⟨p.text.length + (spell ps trail).length - 1, by omega⟩
      have hfuel : p.sep.length + (p.text.length + (spell ps trail).length) =
          (p.text.length + (spell ps trail).length) + (p.sep.length - 1) + 1 := by omega
      rw [hfuel]
      rw [lexLoop_tok hne (lexOne_ctx hv hfo (fun _ => boundOK_blank_rev hbl hsep))]
      rw [lexLoop_spell ps trail _ _ _ _ [] hok.tail (by omega) (by omega) (hnext _)]
      simp [toksOf]

end Luqum
