/-
  Luqum.Lemmas.RelexOne — one step of the master regex in context: a text that, alone, lexes as
  exactly one token (`validTok`) lexes as the same token in front of any text `r` that satisfies
  `followOK`, whatever was consumed before (up to the boundary condition `boundOK` for terms).
-/
import Luqum.Lemmas.RelexTerm

namespace Luqum

/-! ### definitions -/

/-- kinds produced by the `TERM_RE` rule (a term or a reserved word) -/
def isTermKind : TokK → Bool
  | .term | .andOp | .orOp | .not | .to => true
  | _ => false

/-- `x`, alone, lexes as exactly one token of kind `k` -/
def validTok (k : TokK) (x : Str) : Bool := decide (lexOne [] x = some (.tok k x.length))

/-- the token `x` of kind `k`, immediately followed by the text `r`, still lexes as `x`:
* a term (or reserved word): `r` is empty or starts with a character that stops the `TERM_RE` loop
  (a blank or one of `: ^ ~ ( ) { } [ ]`), and not with `:\d\d` if the term ends with `T\d\d` or
  `T\d\d:\d\d` (time expressions, finding KF8);
* `<`, `>`: `r` does not start with `=`;
* `~…`, `^…`: `r` does not start with a digit `0-9` or a dot;
* everything else (punctuation, `<=`, `>=`, phrases, regexes): any `r`. -/
def followOK (k : TokK) (x r : Str) : Bool :=
  match k with
  | .term | .andOp | .orOp | .not | .to => termStops x.reverse r
  | .lessthan | .greaterthan =>
    (match r with | c :: _ => !(x.length == 1 && c == '=') | [] => true)
  | .approx | .boost => (match r with | c :: _ => !isNumChar c | [] => true)
  | _ => true

/-- the characters consumed before a term do not end with `T` or `T\d`: the look-behind
`(?<=T\d{2})` at the end of the term cannot reach before the term -/
def boundOK (prev : Str) : Bool :=
  match prev with
  | [] => true
  | c :: rest => c != 'T' && !(isDigitU c && rest.head? == some 'T')

theorem tddR_bound {y prev : Str} (hy : y ≠ []) (hb : boundOK prev = true) :
    tddR (y ++ prev) = tddR y := by
  match y, hy with
  | [a], _ =>
    cases prev with
    | nil => rfl
    | cons c rest =>
      simp only [boundOK, Bool.and_eq_true, bne_iff_ne, ne_eq, Bool.not_eq_true'] at hb
      cases rest with
      | nil => rfl
      | cons e rest =>
        by_cases he : e = 'T'
        · subst he
          have : isDigitU c = false := by simpa using hb.2
          simp [tddR, this]
        · simp only [List.cons_append, List.nil_append, tddR]
          split
          · rename_i heq; simp at heq; exact absurd heq.2.2.1 he
          · rfl
  | [b, a], _ =>
    cases prev with
    | nil => rfl
    | cons c rest =>
      simp only [boundOK, Bool.and_eq_true, bne_iff_ne, ne_eq, Bool.not_eq_true'] at hb
      simp only [List.cons_append, List.nil_append, tddR]
      split
      · rename_i heq; simp at heq; exact absurd heq.2.2.1 hb.1
      · rfl
  | b :: a :: c :: rest, _ =>
    by_cases hc : c = 'T'
    · subst hc; simp [tddR]
    · simp only [List.cons_append, tddR]
      split
      · rename_i heq; simp at heq; exact absurd heq.2.2.1 hc
      · split
        · rename_i heq; simp at heq; exact absurd heq.2.2.1 hc
        · rfl

/-! ### phrases, regexes, `~`, `^` -/

theorem delimScan_ext {q : Char} : ∀ (f f' : Nat) (xs r : Str) (n : Nat),
    delimScan q f xs = some n → f ≤ f' → delimScan q f' (xs ++ r) = some n := by
  intro f
  induction f with
  | zero => intro f' xs r n h; simp [delimScan] at h
  | succ f ih =>
    intro f' xs r n h hf
    obtain ⟨f', rfl⟩ : ∃ g, f' = g + 1 := ⟨f' - 1, by omega⟩
    cases xs with
    | nil => simp [delimScan] at h
    | cons c xs =>
      simp only [delimScan, List.cons_append] at h ⊢
      by_cases hc : c = q
      · simpa [hc] using h
      · simp only [hc, if_false] at h ⊢
        by_cases hb : c = '\\'
        · simp only [hb, if_true] at h ⊢
          cases xs with
          | nil => simp at h
          | cons d xs =>
            simp only [List.cons_append] at h ⊢
            by_cases hd : d = '\n'
            · simp [hd] at h
            · simp only [hd, ne_eq, not_false_eq_true, if_true, Option.map_eq_some_iff] at h ⊢
              obtain ⟨m, hm, rfl⟩ := h
              exact ⟨m, ih f' xs r m hm (by omega), rfl⟩
        · simp only [hb, if_false, Option.map_eq_some_iff] at h ⊢
          obtain ⟨m, hm, rfl⟩ := h
          exact ⟨m, ih f' xs r m hm (by omega), rfl⟩

theorem delimLen_ext {q : Char} {x r : Str} {n : Nat} (h : delimLen q x = some n) :
    delimLen q (x ++ r) = some n := by
  cases x with
  | nil => simp [delimLen] at h
  | cons c xs =>
    simp only [delimLen, List.cons_append] at h ⊢
    by_cases hc : c = q
    · simp only [hc, if_true, Option.map_eq_some_iff] at h ⊢
      obtain ⟨m, hm, rfl⟩ := h
      exact ⟨m, delimScan_ext _ _ xs r m hm (by simp), rfl⟩
    · simp [hc] at h

theorem takeWhile_length_eq {p : Char → Bool} {xs : Str} (h : (xs.takeWhile p).length = xs.length) :
    ∀ c ∈ xs, p c = true := by
  induction xs with
  | nil => simp
  | cons a xs ih =>
    by_cases ha : p a = true
    · simp only [List.takeWhile_cons, ha, if_true, List.length_cons, Nat.add_right_cancel_iff] at h
      intro c hc
      simp only [List.mem_cons] at hc
      rcases hc with rfl | hc
      · exact ha
      · exact ih h c hc
    · simp [ha] at h

theorem takeWhile_append_stop {p : Char → Bool} {xs r : Str} (h : ∀ c ∈ xs, p c = true)
    (hr : ∀ c r', r = c :: r' → p c = false) : (xs ++ r).takeWhile p = xs := by
  induction xs with
  | nil =>
    cases r with
    | nil => rfl
    | cons c r' => simp [hr c r' rfl]
  | cons a xs ih =>
    simp only [List.cons_append, List.takeWhile_cons, h a (by simp), if_true]
    rw [ih (fun c hc => h c (by simp [hc]))]

theorem suffixLen_ext {m : Char} {x r : Str} (h : suffixLen m x = some x.length)
    (hr : ∀ c r', r = c :: r' → isNumChar c = false) : suffixLen m (x ++ r) = some x.length := by
  cases x with
  | nil => simp [suffixLen] at h
  | cons c xs =>
    simp only [suffixLen, List.cons_append] at h ⊢
    by_cases hc : c = m
    · simp only [hc, if_true, Option.some.injEq, List.length_cons] at h ⊢
      have hl : (xs.takeWhile isNumChar).length = xs.length := by omega
      rw [takeWhile_append_stop (takeWhile_length_eq hl) hr]
      omega
    · simp [hc] at h

/-! ### terms -/

theorem termLen_ctx {prev x r : Str} (h : termLen [] x = some x.length)
    (hs : termStops x.reverse r = true) (hb : boundOK prev = true) :
    termLen prev (x ++ r) = some x.length := by
  cases x with
  | nil => simp [termLen] at h
  | cons c xs =>
    simp only [termLen, List.cons_append] at h ⊢
    by_cases hc : isTermFirst c = true
    · simp only [hc, if_true, Option.some.injEq, List.length_cons] at h ⊢
      have h' : termRest xs.length [c] xs = xs.length := by omega
      have := termRest_ctx xs.length (xs ++ r).length [c] prev xs r h' (by simp)
        (by simpa using hs)
        (by
          have := tddR_bound (y := xs.reverse ++ [c]) (prev := prev) (by simp) hb
          simpa using this)
      simp only [List.singleton_append] at this
      omega
    · simp only [hc] at h ⊢
      by_cases hc' : c = '\\'
      · subst hc'
        simp only [if_true] at h ⊢
        cases xs with
        | nil => simp at h
        | cons d xs =>
          simp only [List.cons_append] at h ⊢
          by_cases hd : d = '\n'
          · simp [hd] at h
          · simp only [hd, ne_eq, not_false_eq_true, if_true, Option.some.injEq, List.length_cons,
              Bool.false_eq_true, if_false] at h ⊢
            have h' : termRest xs.length [d, '\\'] xs = xs.length := by omega
            have := termRest_ctx xs.length (xs ++ r).length [d, '\\'] prev xs r h' (by simp)
              (by simpa using hs)
              (by
                have := tddR_bound (y := xs.reverse ++ [d, '\\']) (prev := prev) (by simp) hb
                simpa using this)
            simp only [List.cons_append, List.nil_append] at this
            omega
      · simp [hc'] at h

/-! ### one step of the master regex in context -/

theorem reservedKind_isTermKind (x : Str) : isTermKind (reservedKind x) = true := by
  unfold reservedKind
  repeat' split
  all_goals rfl

theorem followOK_termKind {k : TokK} {x r : Str} (h : isTermKind k = true) :
    followOK k x r = termStops x.reverse r := by
  cases k <;> first | rfl | cases h

/-- a valid token is not empty and does not start with a blank -/
theorem validTok_cons {k : TokK} {x : Str} (h : validTok k x = true) :
    ∃ c xs, x = c :: xs ∧ isSpace c = false := by
  simp only [validTok, decide_eq_true_eq] at h
  cases x with
  | nil => simp [lexOne] at h
  | cons c xs =>
    refine ⟨c, xs, rfl, ?_⟩
    unfold lexOne at h
    simp only at h
    rcases ite_elim h with ⟨_, h⟩ | ⟨hc, _⟩
    · cases h
    · simpa using hc

/-- **context lemma for one token**: a text that alone lexes as one token of kind `k` lexes as the
same token when `prev` was consumed before and `r` follows, if `followOK k x r` and, for a term,
`boundOK prev` -/
theorem lexOne_ctx {k : TokK} {x r prev : Str} (hv : validTok k x = true)
    (hf : followOK k x r = true) (hb : isTermKind k = true → boundOK prev = true) :
    lexOne prev (x ++ r) = some (.tok k x.length) := by
  simp only [validTok, decide_eq_true_eq] at hv
  cases x with
  | nil => simp [lexOne] at hv
  | cons c xs =>
    unfold lexOne at hv ⊢
    simp only [List.cons_append] at hv ⊢
    rcases ite_elim hv with ⟨_, h⟩ | ⟨hc, h⟩
    · cases h
    rw [if_neg hc]; clear hv hc
    -- `+ - : ( )`
    iterate 5
      (rcases ite_elim h with ⟨hc, h⟩ | ⟨hc, h⟩
       · rw [if_pos hc]; simpa using h
       rw [if_neg hc]; clear hc)
    -- `[ {`, `] }`
    iterate 2
      (rcases ite_elim h with ⟨hc, h⟩ | ⟨hc, h⟩
       · rw [if_pos hc]; simpa using h
       rw [if_neg hc]; clear hc)
    -- `>` and `<`
    iterate 2
      (rcases ite_elim h with ⟨hc, h⟩ | ⟨hc, h⟩
       · rw [if_pos hc]
         simp only [Option.some.injEq, Lexeme.tok.injEq, List.length_cons] at h ⊢
         obtain ⟨rfl, hn⟩ := h
         refine ⟨rfl, ?_⟩
         cases xs with
         | nil =>
           simp only [List.nil_append, List.length_nil]
           cases r with
           | nil => rfl
           | cons d r' =>
             simp only [followOK, List.length_cons, List.length_nil] at hf
             have : d ≠ '=' := by simpa using hf
             split
             · rename_i heq; cases heq; exact absurd rfl this
             · rfl
         | cons d xs' =>
           by_cases hd : d = '='
           · subst hd
             simp only [List.length_cons] at hn
             have : xs' = [] := by
               cases xs' with
               | nil => rfl
               | cons _ _ => simp at hn
             subst this
             rfl
           · exfalso
             revert hn
             split
             · rename_i heq; cases heq; exact absurd rfl hd
             · simp
       rw [if_neg hc]; clear hc)
    -- phrase, regex
    iterate 2
      (rcases ite_elim h with ⟨hc, h⟩ | ⟨hc, h⟩
       · rw [if_pos hc]
         simp only [Option.map_eq_some_iff] at h ⊢
         obtain ⟨n, hn, he⟩ := h
         exact ⟨n, by simpa using delimLen_ext (r := r) hn, he⟩
       rw [if_neg hc]; clear hc)
    -- `~`, `^`
    iterate 2
      (rcases ite_elim h with ⟨hc, h⟩ | ⟨hc, h⟩
       · rw [if_pos hc]
         simp only [Option.map_eq_some_iff] at h ⊢
         obtain ⟨n, hn, he⟩ := h
         simp only [Lexeme.tok.injEq] at he
         obtain ⟨rfl, rfl⟩ := he
         refine ⟨_, ?_, rfl⟩
         have := suffixLen_ext (r := r) hn (by
           intro d r' hr; subst hr
           simpa [followOK] using hf)
         simpa using this
       rw [if_neg hc]; clear hc)
    -- the `TERM_RE` rule
    simp only [Option.map_eq_some_iff] at h ⊢
    obtain ⟨n, hn, he⟩ := h
    simp only [Lexeme.tok.injEq] at he
    obtain ⟨hk, rfl⟩ := he
    have htake : (c :: xs).take (c :: xs).length = c :: xs := List.take_length
    rw [htake] at hk
    have hkind : isTermKind k = true := hk ▸ reservedKind_isTermKind _
    have hstop : termStops (c :: xs).reverse r = true := by
      rw [followOK_termKind hkind] at hf; exact hf
    have := termLen_ctx (prev := prev) hn hstop (hb hkind)
    simp only [List.cons_append] at this
    refine ⟨_, this, ?_⟩
    have ht : (c :: (xs ++ r)).take (c :: xs).length = c :: xs := by
      rw [← List.cons_append, List.take_left']
      rfl
    rw [ht, hk]

end Luqum
