/-
  Luqum.Lemmas.EsBuild — the builder refuses exactly the AND/OR mixes and container-field misuse
  (lemmas of C07): `nestingCheck` is `misuse`; on supported queries the visitor either returns
  exactly one E-node (and there is no mix) or raises the AND/OR error (and there is a mix).
-/
import Luqum.Lemmas.EsStruct
import Luqum.Lemmas.EsDefs

namespace Luqum.Lemmas.Es
open Luqum

/-! ### `nestingCheck` is `misuse` -/

def toExcept : Option EsErr → Except EsErr Unit
  | none => .ok ()
  | some e => .error e

theorem checkFinal_eq (c : EsCfg) (pfx : List Str) (node : Tree) :
    checkFinal c pfx node = toExcept (termMisuse c pfx node) := by
  unfold checkFinal termMisuse
  split
  · rfl
  · dsimp only
    split
    · rfl
    · split
      · rfl
      · generalize c.subNorm = s
        generalize c.objectNorm = o
        have h2 : (2 ≤ pfx.length) ↔ pfx.length > 1 := Iff.rfl
        by_cases h : pfx.length > 1 <;> cases s <;> cases o <;> simp only [h, h2, if_true, if_false,
          decide_true, decide_false, Bool.true_and, Bool.false_and, toExcept, Bool.false_eq_true] <;>
          (try split) <;> rfl

theorem toExcept_findSome_append {α} (f : α → Option EsErr) (xs ys : List α) :
    toExcept ((xs ++ ys).findSome? f) =
      match toExcept (xs.findSome? f) with
      | .ok _ => toExcept (ys.findSome? f)
      | .error e => .error e := by
  rw [List.findSome?_append]
  cases h : xs.findSome? f <;> simp [toExcept, Option.or]

mutual
theorem nestingCheck_eq (c : EsCfg) : ∀ (t : Tree) (pfx : List Str),
    nestingCheck c pfx t = toExcept (misuseAt c pfx t)
  | .term k v l, pfx => by
      simp only [nestingCheck, misuseAt, fieldedTerms, List.findSome?_cons, List.findSome?_nil, checkFinal_eq]
      cases termMisuse c pfx (.term k v l) <;> rfl
  | .none _, pfx => by simp [nestingCheck, misuseAt, fieldedTerms, toExcept]
  | .field n e _, pfx => by
      simpa only [nestingCheck, misuseAt, fieldedTerms] using nestingCheck_eq c e _
  | .group _ e _, pfx => by
      simpa only [nestingCheck, misuseAt, fieldedTerms] using nestingCheck_eq c e _
  | .approx _ e _ _, pfx => by
      simpa only [nestingCheck, misuseAt, fieldedTerms] using nestingCheck_eq c e _
  | .boost e _ _, pfx => by
      simpa only [nestingCheck, misuseAt, fieldedTerms] using nestingCheck_eq c e _
  | .unary _ e _, pfx => by
      simpa only [nestingCheck, misuseAt, fieldedTerms] using nestingCheck_eq c e _
  | .orange _ e _ _, pfx => by
      simpa only [nestingCheck, misuseAt, fieldedTerms] using nestingCheck_eq c e _
  | .range a b _ _ _, pfx => by
      simp only [nestingCheck, misuseAt, fieldedTerms, toExcept_findSome_append]
      have ha := nestingCheck_eq c a pfx
      have hb := nestingCheck_eq c b pfx
      simp only [misuseAt] at ha hb
      rw [ha, hb]; rfl
  | .op _ xs _, pfx => by
      simpa only [nestingCheck, misuseAt, fieldedTerms] using nestingCheckList_eq c xs pfx
theorem nestingCheckList_eq (c : EsCfg) : ∀ (xs : List Tree) (pfx : List Str),
    nestingCheckList c pfx xs = toExcept ((fieldedTermsL pfx xs).findSome? fun p => termMisuse c p.1 p.2)
  | [], pfx => by simp [nestingCheckList, fieldedTermsL, toExcept]
  | x :: r, pfx => by
      simp only [nestingCheckList, fieldedTermsL, toExcept_findSome_append]
      have ha := nestingCheck_eq c x pfx
      have hb := nestingCheckList_eq c r pfx
      simp only [misuseAt] at ha
      rw [ha, hb]; rfl
end

/-- the checker never raises the AND/OR error -/
theorem termMisuse_ne_orAnd (c : EsCfg) (p : List Str) (n : Tree) (m : Str) :
    termMisuse c p n ≠ some (.orAnd m) := by
  unfold termMisuse
  intro hp
  dsimp only at hp
  split at hp
  · cases hp
  · split at hp
    · cases hp
    · split at hp
      · cases hp
      · split at hp
        · split at hp <;> cases hp
        · cases hp

theorem misuse_ne_orAnd (c : EsCfg) (t : Tree) (m : Str) : misuse c t ≠ some (.orAnd m) := by
  intro h
  simp only [misuse, misuseAt] at h
  obtain ⟨p, -, hp⟩ := List.exists_of_findSome?_eq_some h
  exact termMisuse_ne_orAnd c _ _ m hp

theorem nestingCheck_ok_iff (c : EsCfg) (t : Tree) :
    nestingCheck c [] t = .ok () ↔ misuse c t = none := by
  rw [nestingCheck_eq, misuse]; cases misuseAt c [] t <;> simp [toExcept]

theorem nestingCheck_error_iff (c : EsCfg) (t : Tree) (e : EsErr) :
    nestingCheck c [] t = .error e ↔ misuse c t = some e := by
  rw [nestingCheck_eq, misuse]; cases misuseAt c [] t <;> simp [toExcept]


/-! ### class tests -/

theorem sameType_op_op (k k' : OpK) (xs ys : List Tree) (l l' : Lay) :
    sameType (.op k xs l) (.op k' ys l') = decide (k = k') := by
  cases k <;> cases k' <;> rfl

theorem sameType_op_unary (k : OpK) (k' : UnK) (xs : List Tree) (e : Tree) (l l' : Lay) :
    sameType (.op k xs l) (.unary k' e l') = false := by
  cases k <;> cases k' <;> rfl

theorem sameType_unary_op (k : UnK) (k' : OpK) (xs : List Tree) (e : Tree) (l l' : Lay) :
    sameType (.unary k e l) (.op k' xs l') = false := by
  cases k <;> cases k' <;> rfl

theorem sameType_unary_unary (k k' : UnK) (e e' : Tree) (l l' : Lay) :
    sameType (.unary k e l) (.unary k' e' l') = decide (k = k') := by
  cases k <;> cases k' <;> rfl

theorem isMust_op (c : EsCfg) (k : OpK) (xs : List Tree) (l : Lay) :
    c.isMust (.op k xs l) = kindAnd c k := by cases k <;> rfl
theorem isShould_op (c : EsCfg) (k : OpK) (xs : List Tree) (l : Lay) :
    c.isShould (.op k xs l) = kindOr c k := by cases k <;> rfl
theorem isMust_eq_andLike (c : EsCfg) (t : Tree) : c.isMust t = andLike c t := by
  cases t <;> first | rfl | exact isMust_op ..
theorem isShould_eq_orLike (c : EsCfg) (t : Tree) : c.isShould t = orLike c t := by
  cases t <;> first | rfl | exact isShould_op ..

theorem mixTest_op_op (c : EsCfg) (k k' : OpK) (xs ys : List Tree) (l l' : Lay) :
    mixTest c (.op k xs l) (.op k' ys l') = opposite c k k' := by
  simp only [mixTest, isMust_op, isShould_op, opposite]

theorem mixTest_unary (c : EsCfg) (k : UnK) (e t : Tree) (l : Lay) :
    mixTest c (.unary k e l) t = false := by
  simp [mixTest, EsCfg.isMust, EsCfg.isShould]

/-- the parents with which the visitor is ever entered -/
inductive ParOK : Option Tree → Prop
  | none : ParOK none
  | op (k ys l) : ParOK (some (.op k ys l))
  | plus (e l) : ParOK (some (.unary .plus e l))

/-- the mix seen by the parent operation on its operand `t` -/
def parMix (c : EsCfg) : Option Tree → Tree → Bool
  | some (.op k _ _), t => mixOp c k t
  | _, _ => false

theorem exactlyOne_orAnd {r : Except EsErr (List ETree)} {m : Str}
    (h : exactlyOne r = .error (.orAnd m)) : r = .error (.orAnd m) := by
  unfold exactlyOne at h
  split at h <;> simp_all

theorem map_orAnd {α β} {f : α → β} {r : Except EsErr α} {m : Str}
    (h : r.map f = .error (.orAnd m)) : r = .error (.orAnd m) := by
  cases r <;> simp_all [Except.map]

theorem parMix_of_mixOp_false {c : EsCfg} {t : Tree} (h : ∀ k, mixOp c k t = false) (par : Option Tree) :
    parMix c par t = false := by
  unfold parMix; split
  · exact h _
  · rfl

theorem parMix_none (c : EsCfg) (t : Tree) : parMix c none t = false := rfl
theorem parMix_term (c : EsCfg) (par : Option Tree) (k v l) : parMix c par (.term k v l) = false :=
  parMix_of_mixOp_false (fun _ => by simp [mixOp]) par
theorem parMix_range (c : EsCfg) (par : Option Tree) (a b il ih l) :
    parMix c par (.range a b il ih l) = false :=
  parMix_of_mixOp_false (fun _ => by simp [mixOp]) par
theorem parMix_field (c : EsCfg) (par : Option Tree) (n e l) : parMix c par (.field n e l) = false :=
  parMix_of_mixOp_false (fun _ => by simp [mixOp]) par
theorem parMix_group (c : EsCfg) (par : Option Tree) (k e l) : parMix c par (.group k e l) = false :=
  parMix_of_mixOp_false (fun _ => by simp [mixOp]) par
theorem parMix_boost (c : EsCfg) (par : Option Tree) (e n l) : parMix c par (.boost e n l) = false :=
  parMix_of_mixOp_false (fun _ => by simp [mixOp]) par
theorem parMix_approx (c : EsCfg) (par : Option Tree) (k e n l) :
    parMix c par (.approx k e n l) = false :=
  parMix_of_mixOp_false (fun _ => by simp [mixOp]) par

theorem parMix_unary (c : EsCfg) (par : Option Tree) (k : UnK) (e : Tree) (l : Lay) :
    parMix c par (.unary k e l) = false := by
  unfold parMix; split <;> simp [mixOp]

theorem parMix_unaryPar (c : EsCfg) (k : UnK) (e t : Tree) (l : Lay) :
    parMix c (unaryPar k (.unary k e l)) t = false := by
  cases k <;> rfl

theorem parOK_unaryPar (k : UnK) (e : Tree) (l : Lay) : ParOK (unaryPar k (.unary k e l)) := by
  cases k <;> constructor

/-- when `simplify_if_same` applies to a unary node, its parent is no operation -/
theorem parMix_of_parSame {c : EsCfg} {par : Option Tree} {k : UnK} {e : Tree} {l : Lay}
    (h : parSame par (.unary k e l) = true) (t : Tree) : parMix c par t = false := by
  unfold parMix
  split
  · simp [parSame, sameType_unary_op] at h
  · rfl

/-! ### (a) the AND/OR error is raised only on a mix -/

section A
variable (c : EsCfg)

mutual
theorem mix_of_orAnd : ∀ (t : Tree) (x : EsCtx) (par : Option Tree) (m : Str), ParOK par →
    visitS c x par t = .error (.orAnd m) → (parMix c par t || Mix c t) = true
  | .term .word v l, x, par, m, _, h => by simp only [visitS] at h; cases h
  | .term .phrase v l, x, par, m, _, h => by simp only [visitS] at h; split at h <;> cases h
  | .term .regex v l, x, par, m, _, h => by simp only [visitS] at h; cases h
  | .none _, x, par, m, _, h => by simp only [visitS] at h; cases h
  | .range lo hi il ih l, x, par, m, _, h => by simp only [visitS] at h; split at h <;> cases h
  | .field n e l, x, par, m, _, h => by
      simp only [visitS] at h
      have := mix_of_orAnd e _ none m .none (exactlyOne_orAnd (map_orAnd h))
      have : Mix c e = true := by simpa [parMix] using this
      simp only [Mix, this, Bool.or_true]
  | .group k e l, x, par, m, _, h => by
      simp only [visitS] at h
      have := mix_of_orAnd e _ none m .none h
      have : Mix c e = true := by simpa [parMix] using this
      simp only [Mix, this, Bool.or_true]
  | .orange k e i l, x, par, m, _, h => by
      simp only [visitS] at h
      have := mix_of_orAnd e _ none m .none h
      have : Mix c e = true := by simpa [parMix] using this
      simp only [Mix, this, Bool.or_true]
  | .boost e n l, x, par, m, _, h => by
      simp only [visitS] at h
      have := mix_of_orAnd e _ none m .none (exactlyOne_orAnd (map_orAnd h))
      have : Mix c e = true := by simpa [parMix] using this
      simp only [Mix, this, Bool.or_true]
  | .approx .fuzzy e n l, x, par, m, _, h => by
      simp only [visitS] at h
      have := mix_of_orAnd e _ none m .none (exactlyOne_orAnd (map_orAnd h))
      have : Mix c e = true := by simpa [parMix] using this
      simp only [Mix, this, Bool.or_true]
  | .approx .proximity e n l, x, par, m, _, h => by
      simp only [visitS] at h
      have := mix_of_orAnd e _ none m .none (exactlyOne_orAnd (map_orAnd h))
      have : Mix c e = true := by simpa [parMix] using this
      simp only [Mix, this, Bool.or_true]
  | .unary k e l, x, par, m, hp, h => by
      simp only [visitS] at h
      split at h
      · have := mix_of_orAnd e x par m hp h
        rw [parMix_of_parSame (by assumption)] at this
        simpa [Mix, parMix_unary] using this
      · have h1 := map_orAnd h
        have := mix_of_orAnd e _ _ m (parOK_unaryPar k e l) h1
        simpa [Mix, parMix_unary, parMix_unaryPar] using this
  | .op k xs l, x, par, m, hp, h => by
      simp only [visitS] at h
      cases hp with
      | none =>
        have := mix_of_orAnds xs _ k xs l m (map_orAnd h)
        simpa [parMix, Mix] using this
      | op k' ys l' =>
        simp only [sameType_op_op, mixTest_op_op] at h
        by_cases hk : k = k'
        · subst hk
          simp only [decide_true, if_true] at h
          have := mix_of_orAnds xs x k ys l' m h
          simp only [parMix, mixOp, Mix, if_true]
          simp only [Bool.or_eq_true] at this ⊢
          rcases this with h' | h' <;> simp [h']
        · simp only [hk, decide_false, Bool.false_eq_true, if_false] at h
          by_cases ho : opposite c k' k = true
          · simp [parMix, mixOp, hk, ho]
          · simp only [ho] at h
            have := mix_of_orAnds xs _ k xs l m (map_orAnd h)
            simp only [parMix, Mix, Bool.or_eq_true] at this ⊢
            rcases this with h' | h' <;> simp [h']
      | plus e' l' =>
        simp only [sameType_op_unary, mixTest_unary, Bool.false_eq_true, if_false] at h
        have := mix_of_orAnds xs _ k xs l m (map_orAnd h)
        simpa [parMix, Mix] using this
theorem mix_of_orAnds : ∀ (xs : List Tree) (x : EsCtx) (k : OpK) (ys : List Tree) (l : Lay) (m : Str),
    visitsS c x (.op k ys l) xs = .error (.orAnd m) → (mixOps c k xs || MixL c xs) = true
  | [], x, k, ys, l, m, h => by simp only [visitsS] at h; cases h
  | t :: r, x, k, ys, l, m, h => by
      simp only [visitsS] at h
      split at h
      · rename_i e he
        cases h
        have := mix_of_orAnd t x _ m (.op k ys l) he
        simp only [parMix, mixOps, MixL, Bool.or_eq_true] at this ⊢
        rcases this with h' | h' <;> simp [h']
      · split at h
        · rename_i e he
          cases h
          have := mix_of_orAnds r x k ys l m he
          simp only [mixOps, MixL, Bool.or_eq_true] at this ⊢
          rcases this with h' | h' <;> simp [h']
        · cases h
end

end A


/-! ### (b), (d) on supported queries: exactly one E-node and no mix, or the AND/OR error and a mix -/

/-- outcome of a visit on a supported query: a result (then `mix` is false; exactly one node when
`single`), or the AND/OR error (then `mix` is true), never another error -/
def Spec1 (single : Bool) (mix : Bool) : Except EsErr (List ETree) → Prop
  | .ok es => mix = false ∧ (single = true → es.length = 1)
  | .error (.orAnd _) => mix = true
  | .error _ => False

theorem Spec1.map_one {mix : Bool} {r : Except EsErr (List ETree)} (s : Bool) (f : ETree → List ETree)
    (hf : ∀ en, (f en).length = 1) (h : Spec1 true mix r) : Spec1 s mix ((exactlyOne r).map f) := by
  match r, h with
  | .ok es, ⟨h1, h2⟩ =>
    have := h2 rfl
    match es, this with
    | [en], _ => exact ⟨h1, fun _ => hf en⟩
  | .error (.orAnd _), h => exact h

theorem Spec1.map_list {mix : Bool} {s' : Bool} {r : Except EsErr (List ETree)} (s : Bool)
    (g : List ETree → ETree) (h : Spec1 s' mix r) : Spec1 s mix (r.map fun items => [g items]) := by
  match r, h with
  | .ok es, ⟨h1, _⟩ => exact ⟨h1, fun _ => rfl⟩
  | .error (.orAnd _), h => exact h

theorem Spec1.weaken {mix : Bool} {s : Bool} {r : Except EsErr (List ETree)} (h : Spec1 s mix r) :
    Spec1 false mix r := by
  match r, h with
  | .ok es, ⟨h1, _⟩ => exact ⟨h1, fun h => by cases h⟩
  | .error (.orAnd _), h => exact h

theorem Spec1.congr {mix mix' : Bool} {s : Bool} {r : Except EsErr (List ETree)} (h : Spec1 s mix r)
    (e : mix = mix') : Spec1 s mix' r := e ▸ h

theorem fieldWrap_length (c : EsCfg) (x : EsCtx) (n : Str) (e : Tree) (l : Lay) (en : ETree) :
    (fieldWrap c x n e l en).length = 1 := by
  unfold fieldWrap; dsimp only; split <;> rfl

theorem operatorExtract_isSome (k : OpK) (xs : List Tree) (l : Lay) (h : 2 ≤ xs.length) :
    ∃ m, operatorExtract (.op k xs l) = some m := by
  match xs, h with
  | a :: b :: r, _ => exact ⟨_, rfl⟩

section B
variable (c : EsCfg)

mutual
theorem visit_spec : ∀ (t : Tree) (x : EsCtx) (par : Option Tree), ParOK par → Supported t = true →
    Spec1 par.isNone (parMix c par t || Mix c t) (visitS c x par t)
  | .term .word v l, x, par, _, _ => by
      simp only [visitS]
      exact ⟨by simp [Mix, parMix_term],
        fun _ => rfl⟩
  | .term .phrase v l, x, par, _, _ => by
      simp only [visitS]
      split <;>
      exact ⟨by simp [Mix, parMix_term],
        fun _ => rfl⟩
  | .term .regex v l, x, par, _, h => by simp [Supported] at h
  | .none _, x, par, _, h => by simp [Supported] at h
  | .orange .., x, par, _, h => by simp [Supported] at h
  | .range lo hi il ih l, x, par, _, h => by
      simp only [Supported, Bool.and_eq_true, Option.isSome_iff_exists] at h
      obtain ⟨⟨lv, h1⟩, ⟨hv, h2⟩⟩ := h
      simp only [visitS, h1, h2]
      exact ⟨by simp [Mix, parMix_range],
        fun _ => rfl⟩
  | .field n e l, x, par, _, h => by
      simp only [visitS]
      have := visit_spec e (fieldCtx c x n e l) none .none (by simpa [Supported] using h)
      exact (this.map_one _ _ (fieldWrap_length c x n e l)).congr
        (by simp [Mix, parMix_none, parMix_field])
  | .group k e l, x, par, _, h => by
      simp only [visitS]
      have := visit_spec e (propagateName (.group k e l) x) none .none (by simpa [Supported] using h)
      refine Spec1.congr ?_
        (by simp [Mix, parMix_none, parMix_group] :
          (parMix c none e || Mix c e) = _)
      cases par
      · exact this
      · exact this.weaken
  | .boost e n l, x, par, _, h => by
      simp only [visitS]
      have := visit_spec e (propagateName (.boost e n l) x) none .none (by simpa [Supported] using h)
      exact (this.map_one _ _ (fun _ => rfl)).congr
        (by simp [Mix, parMix_none, parMix_boost])
  | .approx .fuzzy e n l, x, par, _, h => by
      simp only [visitS]
      have := visit_spec e (propagateName (.approx .fuzzy e n l) x) none .none (by simpa [Supported] using h)
      exact (this.map_one _ _ (fun _ => rfl)).congr
        (by simp [Mix, parMix_none, parMix_approx])
  | .approx .proximity e n l, x, par, _, h => by
      simp only [visitS]
      have := visit_spec e (propagateName (.approx .proximity e n l) x) none .none
        (by simpa [Supported] using h)
      exact (this.map_one _ _ (fun _ => rfl)).congr
        (by simp [Mix, parMix_none, parMix_approx])
  | .unary k e l, x, par, hp, h => by
      simp only [visitS]
      have hs : Supported e = true := by simpa [Supported] using h
      split
      · rename_i hsame
        have := visit_spec e x par hp hs
        rw [parMix_of_parSame hsame] at this
        have hn : par.isNone = false := by cases par <;> simp_all [parSame]
        rw [hn]
        exact this.weaken.congr (by simp [Mix, parMix_unary])
      · have := visit_spec e (propagateName (.unary k e l) x) _ (parOK_unaryPar k e l) hs
        exact (this.map_list _ _).congr (by simp [Mix, parMix_unary, parMix_unaryPar])
  | .op k xs l, x, par, hp, h => by
      simp only [Supported, Bool.and_eq_true, decide_eq_true_eq] at h
      obtain ⟨h2, hs⟩ := h
      simp only [visitS]
      have hvis : ∀ x', Spec1 par.isNone (Mix c (.op k xs l))
          ((visitsS c x' (.op k xs l) xs).map fun items => [buildOp (opEK c k) items]) := fun x' =>
        ((visits_spec xs x' k xs l hs).map_list _ _).congr (by simp [Mix])
      cases hp with
      | none => exact (hvis _).congr (by simp [parMix])
      | op k' ys l' =>
        simp only [sameType_op_op, mixTest_op_op]
        by_cases hk : k = k'
        · subst hk
          simp only [decide_true, if_true]
          exact (visits_spec xs x k ys l' hs).congr (by simp [parMix, mixOp, Mix])
        · simp only [hk, decide_false, Bool.false_eq_true, if_false]
          by_cases ho : opposite c k' k = true
          · simp only [ho, if_true]
            obtain ⟨m, hm⟩ := operatorExtract_isSome k xs l h2
            simp [mixError, hm, Spec1, parMix, mixOp, hk, ho]
          · simp only [ho]
            exact (hvis _).congr (by simp [parMix, mixOp, hk, ho])
      | plus e' l' =>
        simp only [sameType_op_unary, mixTest_unary, Bool.false_eq_true, if_false]
        exact (hvis _).weaken.congr (by simp [parMix])
theorem visits_spec : ∀ (xs : List Tree) (x : EsCtx) (k : OpK) (ys : List Tree) (l : Lay),
    SupportedL xs = true →
    Spec1 false (mixOps c k xs || MixL c xs) (visitsS c x (.op k ys l) xs)
  | [], x, k, ys, l, _ => by simp [visitsS, Spec1, mixOps, MixL]
  | t :: r, x, k, ys, l, h => by
      simp only [SupportedL, Bool.and_eq_true] at h
      have h1 := visit_spec t x (some (.op k ys l)) (.op k ys l) h.1
      have h2 := visits_spec r x k ys l h.2
      simp only [visitsS]
      generalize visitS c x (some (.op k ys l)) t = r1 at h1
      generalize visitsS c x (.op k ys l) r = r2 at h2
      match r1, h1 with
      | .error (.orAnd m), h1 =>
        simp only [Spec1, parMix, Bool.or_eq_true] at h1 ⊢
        simp only [mixOps, MixL, Bool.or_eq_true]
        rcases h1 with h' | h' <;> simp [h']
      | .ok es, ⟨h1, _⟩ =>
        simp only [parMix, Bool.or_eq_false_iff] at h1
        match r2, h2 with
        | .error (.orAnd m), h2 =>
          simp only [Spec1, Bool.or_eq_true] at h2 ⊢
          simp only [mixOps, MixL, Bool.or_eq_true]
          rcases h2 with h' | h' <;> simp [h']
        | .ok es2, ⟨h2, _⟩ =>
          simp only [Bool.or_eq_false_iff] at h2
          exact ⟨by simp [mixOps, MixL, h1, h2], fun h => by cases h⟩
end

end B

end Luqum.Lemmas.Es
