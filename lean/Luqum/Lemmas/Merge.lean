/-
  Luqum.Lemmas.Merge — the loop of `OpenRangeTransformer.visit_and_operation` (`mergeStep` folded
  over the operands): loop invariant on `MergeSt`, and the generic consequences used by
  `Luqum.Props.C12` (conjunction of a join-compatible predicate, lengths, sublist, identity).
-/
import Luqum.Model.Transform

namespace Luqum

/-! ### `List.modify` -/

/-- if replacing `a` by `f a` turns `Q a` into `Q a ∧ R`, then modifying the list at the position of
`a` turns "all satisfy `Q`" into "all satisfy `Q`, and `R`" -/
theorem forall_mem_modify_iff {α : Type} (Q : α → Prop) (R : Prop) (f : α → α) :
    ∀ (l : List α) (j : Nat) (a : α), l[j]? = some a → (Q (f a) ↔ Q a ∧ R) →
      ((∀ t ∈ l.modify j f, Q t) ↔ (∀ t ∈ l, Q t) ∧ R)
  | [], j, a, h, _ => by simp at h
  | b :: l, 0, a, h, hq => by
      simp at h; subst h
      simp only [List.modify_zero_cons, List.forall_mem_cons, hq]
      constructor
      · rintro ⟨⟨h1, h2⟩, h3⟩; exact ⟨⟨h1, h3⟩, h2⟩
      · rintro ⟨⟨h1, h3⟩, h2⟩; exact ⟨⟨h1, h2⟩, h3⟩
  | b :: l, j + 1, a, h, hq => by
      simp at h
      have ih := forall_mem_modify_iff Q R f l j a h hq
      simp only [List.modify_succ_cons, List.forall_mem_cons, ih, and_assoc]

/-- modifying an element that fails `p` can only add to the `p`-filtered list -/
theorem filter_sublist_filter_modify {α : Type} (p : α → Bool) (f : α → α) :
    ∀ (l : List α) (j : Nat) (a : α), l[j]? = some a → p a = false →
      (l.filter p).Sublist ((l.modify j f).filter p)
  | [], j, a, h, _ => by simp at h
  | b :: l, 0, a, h, hp => by
      simp at h; subst h
      simp only [List.modify_zero_cons, List.filter_cons, hp, Bool.false_eq_true, if_false]
      split
      · exact List.Sublist.cons _ (List.Sublist.refl _)
      · exact List.Sublist.refl _
  | b :: l, j + 1, a, h, hp => by
      simp at h
      have ih := filter_sublist_filter_modify p f l j a h hp
      simp only [List.modify_succ_cons, List.filter_cons]
      split
      · exact List.Sublist.cons_cons _ ih
      · exact ih

/-! ### loop invariant -/

/-- Loop invariant of `visit_and_operation`: `possible_ranges` (as indices into the new operand
list) has no duplicates, and every entry points to an operand that is bound on exactly the side
recorded in `possible_ranges_bound_side`. -/
structure MergeSt.Inv (st : MergeSt) : Prop where
  nodup : st.pending.Nodup
  pend : ∀ j ∈ st.pending, ∃ t s, st.out[j]? = some t ∧ boundSide t = some s ∧ st.side = some s

theorem MergeSt.inv_init : ({} : MergeSt).Inv := ⟨List.nodup_nil, by simp⟩

theorem MergeSt.Inv.lt {st : MergeSt} (hi : st.Inv) {j : Nat} (hj : j ∈ st.pending) :
    j < st.out.length := by
  obtain ⟨t, s, h, _⟩ := hi.pend j hj
  exact (List.getElem?_eq_some_iff.1 h).1

/-- what happens in one iteration -/
inductive MergeCase (st : MergeSt) (c : Tree) : Prop
  /-- the operand is appended, `possible_ranges` untouched -/
  | plain (h : boundSide c = none)
      (e : mergeStep st c = { st with out := st.out ++ [c] })
  /-- the operand is appended and remembered -/
  | push (cs : Side) (h : boundSide c = some cs)
      (hs : st.pending = [] ∨ st.side = some cs)
      (e : mergeStep st c =
        { out := st.out ++ [c], pending := st.pending ++ [st.out.length], side := some cs })
  /-- the operand is joined into the oldest remembered range -/
  | join (cs : Side) (j : Nat) (rest : List Nat) (h : boundSide c = some cs)
      (hp : st.pending = j :: rest) (hs : st.side ≠ some cs)
      (e : mergeStep st c =
        { out := st.out.modify j (fun x => joinRange x c cs), pending := rest, side := st.side })

theorem mergeStep_cases (st : MergeSt) (c : Tree) : MergeCase st c := by
  cases hb : boundSide c with
  | none => exact .plain hb (by simp [mergeStep, hb])
  | some cs =>
    by_cases hc : (st.pending.isEmpty || st.side == some cs) = true
    · refine .push cs hb ?_ (by simp only [mergeStep, hb, hc, if_true])
      simpa [List.isEmpty_iff] using hc
    · have hc' := hc
      simp only [Bool.or_eq_true, List.isEmpty_iff, beq_iff_eq, not_or] at hc'
      cases hp : st.pending with
      | nil => exact absurd hp hc'.1
      | cons j rest =>
        refine .join cs j rest hb hp hc'.2 ?_
        simp only [mergeStep, hb]
        rw [if_neg hc]
        simp only [hp]

theorem mergeStep_inv (st : MergeSt) (c : Tree) (hi : st.Inv) : (mergeStep st c).Inv := by
  cases mergeStep_cases st c with
  | plain h e =>
    rw [e]
    refine ⟨hi.nodup, fun j hj => ?_⟩
    obtain ⟨t, s, h1, h2, h3⟩ := hi.pend j hj
    refine ⟨t, s, ?_, h2, h3⟩
    show (st.out ++ [c])[j]? = some t
    rw [List.getElem?_append_left (hi.lt hj)]; exact h1
  | push cs h hs e =>
    rw [e]
    refine ⟨?_, fun j hj => ?_⟩
    · show (st.pending ++ [st.out.length]).Nodup
      rw [List.nodup_append]
      refine ⟨hi.nodup, by simp, ?_⟩
      intro a ha b hb
      simp at hb; subst hb
      exact Nat.ne_of_lt (hi.lt ha)
    · have hj' : j ∈ st.pending ∨ j = st.out.length := by simpa using hj
      show ∃ t s, (st.out ++ [c])[j]? = some t ∧ boundSide t = some s ∧ some cs = some s
      cases hj' with
      | inl hj' =>
        obtain ⟨t, s, h1, h2, h3⟩ := hi.pend j hj'
        refine ⟨t, s, ?_, h2, ?_⟩
        · rw [List.getElem?_append_left (hi.lt hj')]; exact h1
        · cases hs with
          | inl hs => rw [hs] at hj'; cases hj'
          | inr hs => rw [← hs, h3]
      | inr hj' =>
        subst hj'
        exact ⟨c, cs, by simp, h, rfl⟩
  | join cs j rest h hp hs e =>
    rw [e]
    have hnd := hi.nodup
    rw [hp] at hnd
    refine ⟨(List.nodup_cons.1 hnd).2, fun i hir => ?_⟩
    have hij : j ≠ i := fun hji => (List.nodup_cons.1 hnd).1 (hji ▸ hir)
    obtain ⟨t, s, h1, h2, h3⟩ := hi.pend i (by rw [hp]; exact List.mem_cons_of_mem _ hir)
    refine ⟨t, s, ?_, h2, h3⟩
    show (st.out.modify j _)[i]? = some t
    simp [hij, h1]

theorem foldl_mergeStep_inv : ∀ (xs : List Tree) (st : MergeSt), st.Inv →
    (xs.foldl mergeStep st).Inv
  | [], _, hi => hi
  | c :: r, st, hi => foldl_mergeStep_inv r _ (mergeStep_inv st c hi)

/-! ### conjunction of a join-compatible predicate -/

/-- `Q` of a joined range is `Q` of the two one-sided ranges it was made of -/
def JoinConj (Q : Tree → Prop) : Prop :=
  ∀ a c s cs, boundSide a = some s → boundSide c = some cs → s ≠ cs →
    (Q (joinRange a c cs) ↔ Q a ∧ Q c)

/-! ### one-sided ranges -/

theorem boundSide_range_high (lo hi : Tree) (il ih : Bool) (l : Lay) :
    boundSide (.range lo hi il ih l) = some .high ↔ isWildcard lo = true ∧ isWildcard hi = false := by
  cases h1 : isWildcard lo <;> cases h2 : isWildcard hi <;> simp [boundSide, h1, h2]

theorem boundSide_range_low (lo hi : Tree) (il ih : Bool) (l : Lay) :
    boundSide (.range lo hi il ih l) = some .low ↔ isWildcard lo = false ∧ isWildcard hi = true := by
  cases h1 : isWildcard lo <;> cases h2 : isWildcard hi <;> simp [boundSide, h1, h2]

theorem boundSide_some_range {t : Tree} {s : Side} (h : boundSide t = some s) :
    ∃ lo hi il ih l, t = .range lo hi il ih l := by
  cases t <;> simp [boundSide] at h
  exact ⟨_, _, _, _, _, rfl⟩

/-- To show that `Q` is join-compatible it is enough to look at the two shapes of a join:
`[* TO b]` then `[a TO *]`, and `[a TO *]` then `[* TO b]` (the result keeps the layout of the
first and takes bound and inclusiveness from the second). -/
theorem joinConj_of_ranges (Q : Tree → Prop)
    (hHL : ∀ lo hi il ih l clo chi cil cih cl,
      isWildcard lo = true → isWildcard hi = false → isWildcard clo = false → isWildcard chi = true →
      (Q (.range clo hi cil ih l) ↔ Q (.range lo hi il ih l) ∧ Q (.range clo chi cil cih cl)))
    (hLH : ∀ lo hi il ih l clo chi cil cih cl,
      isWildcard lo = false → isWildcard hi = true → isWildcard clo = true → isWildcard chi = false →
      (Q (.range lo chi il cih l) ↔ Q (.range lo hi il ih l) ∧ Q (.range clo chi cil cih cl))) :
    JoinConj Q := by
  intro a c s cs ha hc hne
  obtain ⟨lo, hi, il, ih, l, rfl⟩ := boundSide_some_range ha
  obtain ⟨clo, chi, cil, cih, cl, rfl⟩ := boundSide_some_range hc
  cases s <;> cases cs
  · exact absurd rfl hne
  · rw [boundSide_range_low] at ha; rw [boundSide_range_high] at hc
    exact hLH lo hi il ih l clo chi cil cih cl ha.1 ha.2 hc.1 hc.2
  · rw [boundSide_range_high] at ha; rw [boundSide_range_low] at hc
    exact hHL lo hi il ih l clo chi cil cih cl ha.1 ha.2 hc.1 hc.2
  · exact absurd rfl hne

theorem mergeStep_conj (Q : Tree → Prop) (hQ : JoinConj Q) (st : MergeSt) (c : Tree)
    (hi : st.Inv) :
    (∀ t ∈ (mergeStep st c).out, Q t) ↔ (∀ t ∈ st.out, Q t) ∧ Q c := by
  cases mergeStep_cases st c with
  | plain h e => rw [e]; simp [or_imp, forall_and]
  | push cs h hs e => rw [e]; simp [or_imp, forall_and]
  | join cs j rest h hp hs e =>
    rw [e]
    obtain ⟨t, s, h1, h2, h3⟩ := hi.pend j (by rw [hp]; exact List.mem_cons_self)
    have hne : s ≠ cs := fun hsc => hs (by rw [h3, hsc])
    exact forall_mem_modify_iff Q (Q c) _ st.out j t h1 (hQ t c s cs h2 h hne)

theorem foldl_mergeStep_conj (Q : Tree → Prop) (hQ : JoinConj Q) :
    ∀ (xs : List Tree) (st : MergeSt), st.Inv →
      ((∀ t ∈ (xs.foldl mergeStep st).out, Q t) ↔ (∀ t ∈ st.out, Q t) ∧ ∀ t ∈ xs, Q t)
  | [], st, _ => by simp
  | c :: r, st, hi => by
      rw [List.foldl_cons, foldl_mergeStep_conj Q hQ r _ (mergeStep_inv st c hi),
        mergeStep_conj Q hQ st c hi, List.forall_mem_cons, and_assoc]

/-- the merged operand list satisfies `Q` throughout iff the original one does -/
theorem mergeOps_conj_of_joinConj (Q : Tree → Prop) (hQ : JoinConj Q) (xs : List Tree) :
    (∀ t ∈ mergeOps xs, Q t) ↔ ∀ t ∈ xs, Q t := by
  unfold mergeOps
  rw [foldl_mergeStep_conj Q hQ xs {} MergeSt.inv_init]
  simp

/-! ### predicates closed under joining -/

theorem forall_mem_modify {α : Type} (Q : α → Prop) (f : α → α) (hf : ∀ a, Q a → Q (f a)) :
    ∀ (l : List α) (j : Nat), (∀ t ∈ l, Q t) → ∀ t ∈ l.modify j f, Q t
  | [], _, _ => by simp
  | b :: l, 0, h => by
      simp only [List.modify_zero_cons, List.forall_mem_cons] at h ⊢
      exact ⟨hf _ h.1, h.2⟩
  | b :: l, j + 1, h => by
      simp only [List.modify_succ_cons, List.forall_mem_cons] at h ⊢
      exact ⟨h.1, forall_mem_modify Q f hf l j h.2⟩

theorem foldl_mergeStep_all (Q : Tree → Prop)
    (hQ : ∀ a c cs, Q a → Q c → Q (joinRange a c cs)) :
    ∀ (xs : List Tree) (st : MergeSt), (∀ t ∈ st.out, Q t) → (∀ t ∈ xs, Q t) →
      ∀ t ∈ (xs.foldl mergeStep st).out, Q t
  | [], _, h, _ => h
  | c :: r, st, h, hx => by
      have hc : Q c := hx c List.mem_cons_self
      refine foldl_mergeStep_all Q hQ r _ ?_ (fun t ht => hx t (List.mem_cons_of_mem _ ht))
      cases mergeStep_cases st c with
      | plain _ e => rw [e]; simpa [or_imp, forall_and] using ⟨h, hc⟩
      | push cs _ _ e => rw [e]; simpa [or_imp, forall_and] using ⟨h, hc⟩
      | join cs j rest _ _ _ e =>
        rw [e]; exact forall_mem_modify Q _ (fun a ha => hQ a c cs ha hc) st.out j h

/-- a property that survives joining holds of all merged operands if it holds of all operands -/
theorem mergeOps_all (Q : Tree → Prop) (hQ : ∀ a c cs, Q a → Q c → Q (joinRange a c cs))
    (xs : List Tree) (h : ∀ t ∈ xs, Q t) : ∀ t ∈ mergeOps xs, Q t :=
  foldl_mergeStep_all Q hQ xs {} (by simp) h

/-- the bounds of a range operand -/
def boundsOf : Tree → List Tree
  | .range lo hi _ _ _ => [lo, hi]
  | _ => []

theorem boundsOf_joinRange (B : Tree → Prop) (a c : Tree) (cs : Side)
    (ha : ∀ b ∈ boundsOf a, B b) (hc : ∀ b ∈ boundsOf c, B b) :
    ∀ b ∈ boundsOf (joinRange a c cs), B b := by
  cases a <;> try exact ha
  cases c <;> try exact ha
  cases cs <;> simp [joinRange, boundsOf] at ha hc ⊢
  · exact ⟨hc.1, ha.2⟩
  · exact ⟨ha.1, hc.2⟩

/-! ### identity, lengths -/

theorem foldl_mergeStep_noSide : ∀ (xs : List Tree) (st : MergeSt),
    (∀ t ∈ xs, boundSide t = none) → (xs.foldl mergeStep st).out = st.out ++ xs
  | [], st, _ => by simp
  | c :: r, st, h => by
      have hc : boundSide c = none := h c List.mem_cons_self
      have e : mergeStep st c = { st with out := st.out ++ [c] } := by simp [mergeStep, hc]
      rw [List.foldl_cons, foldl_mergeStep_noSide r _ (fun t ht => h t (List.mem_cons_of_mem _ ht)), e]
      simp

/-- does this iteration join the operand into an earlier one? -/
def isJoin (st : MergeSt) (c : Tree) : Bool :=
  match boundSide c with
  | some cs => !(st.pending.isEmpty || st.side == some cs)
  | none => false

/-- number of joins performed by the loop from state `st` on -/
def joinCountFrom : MergeSt → List Tree → Nat
  | _, [] => 0
  | st, c :: r => (if isJoin st c then 1 else 0) + joinCountFrom (mergeStep st c) r

theorem mergeStep_length (st : MergeSt) (c : Tree) :
    (mergeStep st c).out.length + (if isJoin st c then 1 else 0) = st.out.length + 1 := by
  cases mergeStep_cases st c with
  | plain h e => rw [e]; simp [isJoin, h]
  | push cs h hs e =>
    rw [e]
    have : isJoin st c = false := by
      cases hs with
      | inl hs => simp [isJoin, h, hs]
      | inr hs => simp [isJoin, h, hs]
    simp [this]
  | join cs j rest h hp hs e =>
    rw [e]
    have : isJoin st c = true := by simp [isJoin, h, hp, hs]
    simp [this]

theorem foldl_mergeStep_length : ∀ (xs : List Tree) (st : MergeSt),
    (xs.foldl mergeStep st).out.length + joinCountFrom st xs = st.out.length + xs.length
  | [], st => by simp [joinCountFrom]
  | c :: r, st => by
      have h1 := foldl_mergeStep_length r (mergeStep st c)
      have h2 := mergeStep_length st c
      simp only [List.foldl_cons, joinCountFrom, List.length_cons]
      omega

/-! ### how many joins: as many as there are pairs of opposite one-sided ranges -/

/-- number of operands bound exactly on side `s` -/
def sideCount (s : Side) (xs : List Tree) : Nat := xs.countP (fun t => boundSide t == some s)

theorem sideCount_cons (s : Side) (c : Tree) (r : List Tree) :
    sideCount s (c :: r) = sideCount s [c] + sideCount s r := by
  simp [sideCount, List.countP_cons]; omega

/-- `possible_ranges` holds the surplus of the side seen more often so far -/
structure MergeSt.Bal (st : MergeSt) (nL nH : Nat) : Prop where
  zero : st.pending.length = 0 → nL = nH
  low : 0 < st.pending.length → st.side = some .low → nL = nH + st.pending.length
  high : 0 < st.pending.length → st.side = some .high → nH = nL + st.pending.length

theorem mergeStep_bal (st : MergeSt) (c : Tree) (hi : st.Inv) (nL nH : Nat) (hb : st.Bal nL nH) :
    (mergeStep st c).Bal (nL + sideCount .low [c]) (nH + sideCount .high [c]) ∧
    (if isJoin st c then 1 else 0) + min nL nH
      = min (nL + sideCount .low [c]) (nH + sideCount .high [c]) := by
  have hz := hb.zero; have hl := hb.low; have hh := hb.high
  cases mergeStep_cases st c with
  | plain h e =>
    have c1 : sideCount .low [c] = 0 := by simp [sideCount, h]
    have c2 : sideCount .high [c] = 0 := by simp [sideCount, h]
    have ij : isJoin st c = false := by simp [isJoin, h]
    rw [e, c1, c2, ij]
    exact ⟨⟨hz, hl, hh⟩, by simp⟩
  | push cs h hs e =>
    have ij : isJoin st c = false := by
      cases hs with
      | inl hs => simp [isJoin, h, hs]
      | inr hs => simp [isJoin, h, hs]
    rw [e, ij]
    cases cs with
    | low =>
      have c1 : sideCount .low [c] = 1 := by simp [sideCount, h]
      have c2 : sideCount .high [c] = 0 := by simp [sideCount, h]
      rw [c1, c2]
      have key : nL = nH + st.pending.length := by
        by_cases hp : st.pending.length = 0
        · have := hz hp; omega
        · cases hs with
          | inl hs => simp [hs] at hp
          | inr hs => exact hl (by omega) hs
      refine ⟨⟨?_, ?_, ?_⟩, ?_⟩
      · intro h0; simp at h0
      · intro _ _; simp only [List.length_append, List.length_singleton]; omega
      · intro _ h2; simp at h2
      · simp only [Bool.false_eq_true, if_false]; omega
    | high =>
      have c1 : sideCount .low [c] = 0 := by simp [sideCount, h]
      have c2 : sideCount .high [c] = 1 := by simp [sideCount, h]
      rw [c1, c2]
      have key : nH = nL + st.pending.length := by
        by_cases hp : st.pending.length = 0
        · have := hz hp; omega
        · cases hs with
          | inl hs => simp [hs] at hp
          | inr hs => exact hh (by omega) hs
      refine ⟨⟨?_, ?_, ?_⟩, ?_⟩
      · intro h0; simp at h0
      · intro _ h2; simp at h2
      · intro _ _; simp only [List.length_append, List.length_singleton]; omega
      · simp only [Bool.false_eq_true, if_false]; omega
  | join cs j rest h hp hs e =>
    have ij : isJoin st c = true := by simp [isJoin, h, hp, hs]
    obtain ⟨t, s, _, _, h3⟩ := hi.pend j (by rw [hp]; exact List.mem_cons_self)
    have hlen : st.pending.length = rest.length + 1 := by rw [hp]; rfl
    rw [e, ij]
    cases cs with
    | low =>
      have c1 : sideCount .low [c] = 1 := by simp [sideCount, h]
      have c2 : sideCount .high [c] = 0 := by simp [sideCount, h]
      have hside : st.side = some .high := by
        cases s with
        | low => exact absurd h3 hs
        | high => exact h3
      have key := hh (by omega) hside
      rw [c1, c2]
      refine ⟨⟨?_, ?_, ?_⟩, ?_⟩
      · intro h0; simp only [] at h0; omega
      · intro _ h2; simp only [hside] at h2; cases h2
      · intro _ _; simp only []; omega
      · simp only [if_true]; omega
    | high =>
      have c1 : sideCount .low [c] = 0 := by simp [sideCount, h]
      have c2 : sideCount .high [c] = 1 := by simp [sideCount, h]
      have hside : st.side = some .low := by
        cases s with
        | low => exact h3
        | high => exact absurd h3 hs
      have key := hl (by omega) hside
      rw [c1, c2]
      refine ⟨⟨?_, ?_, ?_⟩, ?_⟩
      · intro h0; simp only [] at h0; omega
      · intro _ _; simp only []; omega
      · intro _ h2; simp only [hside] at h2; cases h2
      · simp only [if_true]; omega

theorem foldl_mergeStep_joinCount : ∀ (xs : List Tree) (st : MergeSt) (nL nH : Nat),
    st.Inv → st.Bal nL nH →
    joinCountFrom st xs + min nL nH = min (nL + sideCount .low xs) (nH + sideCount .high xs)
  | [], st, nL, nH, _, _ => by simp [joinCountFrom, sideCount]
  | c :: r, st, nL, nH, hi, hb => by
      obtain ⟨hb', hm⟩ := mergeStep_bal st c hi nL nH hb
      have ih := foldl_mergeStep_joinCount r _ _ _ (mergeStep_inv st c hi) hb'
      rw [sideCount_cons .low, sideCount_cons .high]
      simp only [joinCountFrom]
      omega

theorem MergeSt.bal_init : ({} : MergeSt).Bal 0 0 := ⟨fun _ => rfl, by simp, by simp⟩

/-! ### operands that are not one-sided ranges are kept, in order -/

def noSide (t : Tree) : Bool := (boundSide t).isNone

theorem mergeStep_sublist (st : MergeSt) (c : Tree) (hi : st.Inv) (S : List Tree)
    (hS : S.Sublist (st.out.filter noSide)) :
    (S ++ [c].filter noSide).Sublist ((mergeStep st c).out.filter noSide) := by
  cases mergeStep_cases st c with
  | plain h e =>
    rw [e]; show (S ++ [c].filter noSide).Sublist ((st.out ++ [c]).filter noSide)
    rw [List.filter_append]; exact List.Sublist.append hS (List.Sublist.refl _)
  | push cs h hs e =>
    rw [e]; show (S ++ [c].filter noSide).Sublist ((st.out ++ [c]).filter noSide)
    rw [List.filter_append]; exact List.Sublist.append hS (List.Sublist.refl _)
  | join cs j rest h hp hs e =>
    rw [e]
    obtain ⟨t, s, h1, h2, h3⟩ := hi.pend j (by rw [hp]; exact List.mem_cons_self)
    have hc : [c].filter noSide = [] := by simp [noSide, h]
    rw [hc, List.append_nil]
    exact hS.trans (filter_sublist_filter_modify noSide _ st.out j t h1 (by simp [noSide, h2]))

theorem foldl_mergeStep_sublist : ∀ (xs : List Tree) (st : MergeSt), st.Inv → ∀ S : List Tree,
    S.Sublist (st.out.filter noSide) →
    (S ++ xs.filter noSide).Sublist ((xs.foldl mergeStep st).out.filter noSide)
  | [], st, _, S, hS => by simpa using hS
  | c :: r, st, hi, S, hS => by
      have h := foldl_mergeStep_sublist r _ (mergeStep_inv st c hi) _ (mergeStep_sublist st c hi S hS)
      have e : (c :: r).filter noSide = [c].filter noSide ++ r.filter noSide := by
        rw [← List.filter_append]; rfl
      rw [e, ← List.append_assoc]; exact h

end Luqum
