/-
  Luqum.Lemmas.EsStruct — a structurally recursive presentation of the query builder.

  `esVisit` / `esOperands` / `esOperand` (Luqum.Model.Es) are compiled by well-founded recursion
  (`esOperand` falls back to `esVisit` on the *same* node), so they neither reduce by `decide` / `rfl`
  nor admit structural mutual induction. `visitS c x par t` is the same function with the two entry
  points merged: `par = none` is `esVisit`, `par = some parent` is `esOperand … parent`.
  `visitS_eq` proves the three equalities once; every other proof is done on `visitS` / `visitsS`.
-/
import Luqum.Model.Es

namespace Luqum.Lemmas.Es
open Luqum

/-- the E-operation built for an operation of kind `k` -/
def opEK (c : EsCfg) : OpK → EOpK
  | .and => .must | .or => .should | .bool => .boolOp
  | .unk => if c.defaultMust then .must else .should

/-- the AND/OR mix test of `_yield_nested_children` -/
def mixTest (c : EsCfg) (parent child : Tree) : Bool :=
  (c.isShould parent && c.isMust child) || (c.isMust parent && c.isShould child)

def mixError (child : Tree) : Except EsErr (List ETree) :=
  match operatorExtract child with
  | some m => .error (.orAnd m)
  | none => .error (.other "IndexError")

/-- the `nested` wrapping of `visit_search_field` -/
def fieldWrap (c : EsCfg) (x : EsCtx) (n : Str) (e : Tree) (l : Lay) (enode : ETree) : List ETree :=
  let names := splitOnChar '.' n
  let base := x.fieldPrefix.getD []
  let cands := (List.range names.length).map fun i => joinDot (base ++ names.take (names.length - i))
  match cands.find? (fun p => c.nestedPrefixes.contains p), enode with
  | some _, .nested p i nm => [.nested p i nm]
  | some path, en => [.nested path (excludeNested path en) (ctxName (.field n e l) x)]
  | none, en => [en]

/-- the context in which the expression of a `SearchField` is visited -/
def fieldCtx (c : EsCfg) (x : EsCtx) (n : Str) (e : Tree) (l : Lay) : EsCtx :=
  let pfx := x.fieldPrefix.getD [] ++ splitOnChar '.' n
  propagateName (.field n e l)
    { x with analyzed := some (!c.notAnalyzed.contains (joinDot pfx)), fieldPrefix := some pfx }

/-- the E-operation built for a unary operator -/
def unEK : UnK → EOpK
  | .plus => .must
  | _ => .mustNot

/-- `simplify_if_same` applies: the node has exactly the class of the parent whose operand it is -/
def parSame : Option Tree → Tree → Bool
  | some parent, node => sameType node parent
  | none, _ => false

/-- `Plus` visits its operand as an operand of itself (`_must_operation` → `_binary_operation`),
`Not` / `Prohibit` visit it plainly -/
def unaryPar (k : UnK) (node : Tree) : Option Tree :=
  match k with
  | .plus => some node
  | _ => none

mutual
/-- `esVisit` (`par = none`) and `esOperand` (`par = some parent`) in one structural recursion -/
def visitS (c : EsCfg) (x : EsCtx) (par : Option Tree) : Tree → Except EsErr (List ETree)
  | .term .word v l =>
    let method : Str := if c.isAnalyzed x then (if c.matchWordAsPhrase then "match_phrase".toList else "match".toList)
                        else "term".toList
    .ok [.item { kind := .word, q := some v, method0 := method, fields := c.fields x,
                 name := ctxName (.term .word v l) x }]
  | .term .phrase v l =>
    if c.isAnalyzed x then
      .ok [.item { kind := .phrase, q := some (((collapseSpaces v).drop 1).dropLast),
                   method0 := "match_phrase".toList, fields := c.fields x, name := ctxName (.term .phrase v l) x }]
    else
      .ok [.item { kind := .word, q := some ((v.drop 1).dropLast), method0 := "term".toList,
                   fields := c.fields x, name := ctxName (.term .phrase v l) x }]
  | .term .regex _ _ => .ok []
  | .none _ => .ok []
  | .range lo hi il ih l =>
    match termValue? lo, termValue? hi with
    | some lv, some hv =>
      .ok [.item { kind := .range, method0 := "range".toList, fields := c.fields x,
                   name := ctxName (.range lo hi il ih l) x,
                   rangeKeys := rangeKeysOf (if il then "gte".toList else "gt".toList)
                                            (if ih then "lte".toList else "lt".toList) lv hv }]
    | _, _ => .error (.other "AttributeError")
  | .field n e l =>
    (exactlyOne (visitS c (fieldCtx c x n e l) none e)).map fun enode => fieldWrap c x n e l enode
  | .group k e l => visitS c (propagateName (.group k e l) x) none e
  | .orange k e i l => visitS c (propagateName (.orange k e i l) x) none e
  | .boost e n l =>
    (exactlyOne (visitS c (propagateName (.boost e n l) x) none e)).map fun en => [setBoost n.val en]
  | .approx .fuzzy e n l =>
    (exactlyOne (visitS c (propagateName (.approx .fuzzy e n l) x) none e)).map fun en => [setFuzzy n.val en]
  | .approx .proximity e n l =>
    (exactlyOne (visitS c (propagateName (.approx .proximity e n l) x) none e)).map fun en =>
      [if c.isAnalyzed x then setSlop n.val en else setFuzzy n.val en]
  | .unary k e l =>
    let node := Tree.unary k e l
    if parSame par node then visitS c x par e
    else (visitS c (propagateName node x) (unaryPar k node) e).map fun items => [buildOp (unEK k) items]
  | .op k xs l =>
    let node := Tree.op k xs l
    match par with
    | some parent =>
      if sameType node parent then visitsS c x parent xs
      else if mixTest c parent node then mixError node
      else (visitsS c (propagateName node x) node xs).map fun items => [buildOp (opEK c k) items]
    | none => (visitsS c (propagateName node x) node xs).map fun items => [buildOp (opEK c k) items]
/-- `esOperands` -/
def visitsS (c : EsCfg) (x : EsCtx) (parent : Tree) : List Tree → Except EsErr (List ETree)
  | [] => .ok []
  | ch :: r =>
    match visitS c x (some parent) ch with
    | .error e => .error e
    | .ok items =>
      match visitsS c x parent r with
      | .error e => .error e
      | .ok rest => .ok (items ++ rest)
end

/-- `esBuild` through the structural visitor -/
def buildS (c : EsCfg) (t : Tree) : Except EsErr JVal :=
  match nestingCheck c [] t with
  | .error e => .error e
  | .ok _ =>
    match visitS c {} none t with
    | .error e => .error e
    | .ok [] => .error (.other "IndexError")
    | .ok (e :: _) => .ok (e.json c)


section Eq
variable (c : EsCfg)

mutual
private theorem eqV : ∀ (t : Tree) (x : EsCtx), esVisit c x t = visitS c x none t
  | .term .word v l, x => by simp only [esVisit, visitS]
  | .term .phrase v l, x => by simp only [esVisit, visitS]
  | .term .regex v l, x => by simp only [esVisit, visitS]
  | .none _, x => by simp only [esVisit, visitS]
  | .range .., x => by simp only [esVisit, visitS]; rfl
  | .field n e l, x => by
      simp only [esVisit, visitS, fieldCtx, fieldWrap, eqV e]
      generalize exactlyOne _ = r
      cases r with
      | error _ => rfl
      | ok en =>
        dsimp only
        generalize List.find? _ _ = f
        cases f with
        | none => rfl
        | some p => cases en <;> rfl
  | .group k e l, x => by simp only [esVisit, visitS, eqV e]
  | .orange k e i l, x => by simp only [esVisit, visitS, eqV e]
  | .boost e n l, x => by simp only [esVisit, visitS, eqV e]; cases exactlyOne _ <;> rfl
  | .approx .fuzzy e n l, x => by simp only [esVisit, visitS, eqV e]; cases exactlyOne _ <;> rfl
  | .approx .proximity e n l, x => by simp only [esVisit, visitS, eqV e]; cases exactlyOne _ <;> rfl
  | .unary .plus e l, x => by simp only [esVisit, visitS, eqO e, parSame, unaryPar, unEK]; rfl
  | .unary .not e l, x => by
      simp only [esVisit, visitS, eqV e, parSame, unaryPar, unEK]
      cases visitS c (propagateName (.unary .not e l) x) none e <;> rfl
  | .unary .prohibit e l, x => by
      simp only [esVisit, visitS, eqV e, parSame, unaryPar, unEK]
      cases visitS c (propagateName (.unary .prohibit e l) x) none e <;> rfl
  | .op k xs l, x => by cases k <;> simp only [esVisit, visitS, eqL xs, opEK]
private theorem eqO : ∀ (t : Tree) (x : EsCtx) (p : Tree), esOperand c x p t = visitS c x (some p) t
  | .term .word v l, x, p => by simp only [esOperand, esVisit, visitS]
  | .term .phrase v l, x, p => by simp only [esOperand, esVisit, visitS]
  | .term .regex v l, x, p => by simp only [esOperand, esVisit, visitS]
  | .none _, x, p => by simp only [esOperand, esVisit, visitS]
  | .range .., x, p => by simp only [esOperand, esVisit, visitS]; rfl
  | .field n e l, x, p => by
      simp only [esOperand, esVisit, visitS, fieldCtx, fieldWrap, eqV e]
      generalize exactlyOne _ = r
      cases r with
      | error _ => rfl
      | ok en =>
        dsimp only
        generalize List.find? _ _ = f
        cases f with
        | none => rfl
        | some p => cases en <;> rfl
  | .group k e l, x, p => by simp only [esOperand, esVisit, visitS, eqV e]
  | .orange k e i l, x, p => by simp only [esOperand, esVisit, visitS, eqV e]
  | .boost e n l, x, p => by simp only [esOperand, esVisit, visitS, eqV e]; cases exactlyOne _ <;> rfl
  | .approx .fuzzy e n l, x, p => by
      simp only [esOperand, esVisit, visitS, eqV e]; cases exactlyOne _ <;> rfl
  | .approx .proximity e n l, x, p => by
      simp only [esOperand, esVisit, visitS, eqV e]; cases exactlyOne _ <;> rfl
  | .unary .plus e l, x, p => by
      simp only [esOperand, esVisit, visitS, eqO e, parSame, unaryPar, unEK]; rfl
  | .unary .not e l, x, p => by
      simp only [esOperand, esVisit, visitS, eqV e, eqO e, parSame, unaryPar, unEK]
      cases visitS c (propagateName (.unary .not e l) x) none e <;> rfl
  | .unary .prohibit e l, x, p => by
      simp only [esOperand, esVisit, visitS, eqV e, eqO e, parSame, unaryPar, unEK]
      cases visitS c (propagateName (.unary .prohibit e l) x) none e <;> rfl
  | .op k xs l, x, p => by
      cases k <;> simp only [esOperand, esVisit, visitS, eqL xs, opEK, mixTest, mixError] <;> rfl
private theorem eqL : ∀ (xs : List Tree) (x : EsCtx) (p : Tree), esOperands c x p xs = visitsS c x p xs
  | [], x, p => by simp only [esOperands, visitsS]
  | t :: r, x, p => by simp only [esOperands, visitsS, eqO t, eqL r]; rfl
end

/-- `esVisit` is `visitS` without a parent -/
theorem esVisit_eq (x : EsCtx) (t : Tree) : esVisit c x t = visitS c x none t := eqV c t x
/-- `esOperand` is `visitS` with the parent operation -/
theorem esOperand_eq (x : EsCtx) (p t : Tree) : esOperand c x p t = visitS c x (some p) t := eqO c t x p
theorem esOperands_eq (x : EsCtx) (p : Tree) (xs : List Tree) :
    esOperands c x p xs = visitsS c x p xs := eqL c xs x p

/-- `esBuild` computed through the structural visitor (this one reduces by `decide`) -/
theorem esBuild_eq (t : Tree) : esBuild c t = buildS c t := by
  simp only [esBuild, buildS, esVisit_eq]; rfl

end Eq

end Luqum.Lemmas.Es
