/-
  Luqum.Lemmas.ReparseValid — the validity of the token texts of a printed tree, checked on the tree:
  `validTexts` (words, phrases, regexes, field names) and `validNums` (the `~…` / `^…` tokens in
  either style of numerals) give `validTok` for every piece; conversely they follow from the
  validity of the yield (hence hold for every parsed tree); `numsOK` gives `validNums .norm`.
-/
import Luqum.Lemmas.ReparseNums
import Luqum.Props.LX

namespace Luqum
open Luqum.Props.C01 (respell respells)

mutual
/-- every word is a valid token text of its kind (`TERM`, or the reserved kind when it is `AND`,
`OR`, `NOT`, `TO`), every phrase a valid `PHRASE` token, every regex a valid `REGEX` token, every
field name a valid `TERM` token -/
def validTexts : Tree → Bool
  | .term .word v _ => validTok (reservedKind v) v
  | .term .phrase v _ => validTok .phrase v
  | .term .regex v _ => validTok .regex v
  | .field n e _ => validTok .term n && validTexts e
  | .group _ e _ => validTexts e
  | .range lo hi _ _ _ => validTexts lo && validTexts hi
  | .approx _ e _ _ => validTexts e
  | .boost e _ _ => validTexts e
  | .op _ xs _ => validTextss xs
  | .unary _ e _ => validTexts e
  | .orange _ e _ _ => validTexts e
  | .none _ => true
def validTextss : List Tree → Bool
  | [] => true
  | x :: r => validTexts x && validTextss r
end

mutual
/-- every `~…` / `^…` token, the numeral in the given style, is a valid token text -/
def validNums (s : NumStyle) : Tree → Bool
  | .term .. => true
  | .field _ e _ => validNums s e
  | .group _ e _ => validNums s e
  | .range lo hi _ _ _ => validNums s lo && validNums s hi
  | .approx _ e n _ => validTok .approx ('~' :: n.text s) && validNums s e
  | .boost e n _ => validTok .boost ('^' :: n.text s) && validNums s e
  | .op _ xs _ => validNumss s xs
  | .unary _ e _ => validNums s e
  | .orange _ e _ _ => validNums s e
  | .none _ => true
def validNumss (s : NumStyle) : List Tree → Bool
  | [] => true
  | x :: r => validNums s x && validNumss s r
end

/-! ### from the tree to the pieces -/

/-- all the pieces are valid token texts -/
def AllValid (ps : List Piece) : Prop := ∀ p ∈ ps, validTok p.kind p.text = true

theorem allValid_nil : AllValid [] := fun _ h => by cases h

theorem allValid_cons {p : Piece} {ps : List Piece} (hp : validTok p.kind p.text = true)
    (h : AllValid ps) : AllValid (p :: ps) := fun q hq => by
  simp only [List.mem_cons] at hq
  rcases hq with rfl | hq
  · exact hp
  · exact h q hq

theorem allValid_append {ps qs : List Piece} (h1 : AllValid ps) (h2 : AllValid qs) :
    AllValid (ps ++ qs) := fun q hq => by
  simp only [List.mem_append] at hq
  rcases hq with hq | hq
  · exact h1 q hq
  · exact h2 q hq

theorem validTok_fixed :
    validTok .column [':'] = true ∧ validTok .lparen ['('] = true ∧ validTok .rparen [')'] = true ∧
    validTok .lbracket ['['] = true ∧ validTok .lbracket ['{'] = true ∧
    validTok .rbracket [']'] = true ∧ validTok .rbracket ['}'] = true ∧
    validTok .to "TO".toList = true ∧ validTok .plus ['+'] = true ∧ validTok .minus ['-'] = true ∧
    validTok .not "NOT".toList = true ∧ validTok .lessthan ['<'] = true ∧
    validTok .lessthan ['<', '='] = true ∧ validTok .greaterthan ['>'] = true ∧
    validTok .greaterthan ['>', '='] = true ∧ validTok .andOp "AND".toList = true ∧
    validTok .orOp "OR".toList = true := by decide +kernel

theorem opTok_valid {k : OpK} {kk : TokK} {w : Str} (h : opTok k = some (kk, w)) :
    validTok kk w = true := by
  cases k <;> simp only [opTok, Option.some.injEq, Prod.mk.injEq] at h
  · obtain ⟨rfl, rfl⟩ := h; exact validTok_fixed.2.2.2.2.2.2.2.2.2.2.2.2.2.2.2.1
  · obtain ⟨rfl, rfl⟩ := h; exact validTok_fixed.2.2.2.2.2.2.2.2.2.2.2.2.2.2.2.2
  all_goals cases h

mutual
/-- **the pieces of a tree with valid texts and valid numeral tokens are valid token texts** -/
theorem Tree.pcs_valid (s : NumStyle) : ∀ (t : Tree) (pre : Str), validTexts t = true →
    validNums s t = true → AllValid (t.pcs s pre).1
  | .term .word v l, pre, h, _ => by
    simp only [validTexts] at h
    exact allValid_cons h allValid_nil
  | .term .phrase v l, pre, h, _ => by
    simp only [validTexts] at h
    exact allValid_cons h allValid_nil
  | .term .regex v l, pre, h, _ => by
    simp only [validTexts] at h
    exact allValid_cons h allValid_nil
  | .field n e l, pre, h, hn => by
    simp only [validTexts, Bool.and_eq_true] at h
    simp only [validNums] at hn
    exact allValid_cons h.1 (allValid_cons validTok_fixed.1 (Tree.pcs_valid s e [] h.2 hn))
  | .group k e l, pre, h, hn => by
    simp only [validTexts] at h
    simp only [validNums] at hn
    simp only [Tree.pcs]
    exact allValid_cons validTok_fixed.2.1 (allValid_append (Tree.pcs_valid s e [] h hn)
      (allValid_cons validTok_fixed.2.2.1 allValid_nil))
  | .range a b il ih l, pre, h, hn => by
    simp only [validTexts, Bool.and_eq_true] at h
    simp only [validNums, Bool.and_eq_true] at hn
    simp only [Tree.pcs, List.append_assoc]
    have h1 : validTok .lbracket [if il then '[' else '{'] = true := by
      cases il
      · exact validTok_fixed.2.2.2.2.1
      · exact validTok_fixed.2.2.2.1
    have h2 : validTok .rbracket [if ih then ']' else '}'] = true := by
      cases ih
      · exact validTok_fixed.2.2.2.2.2.2.1
      · exact validTok_fixed.2.2.2.2.2.1
    exact allValid_cons h1 (allValid_append (Tree.pcs_valid s a [] h.1 hn.1)
      (allValid_cons validTok_fixed.2.2.2.2.2.2.2.1 (allValid_append (Tree.pcs_valid s b [] h.2 hn.2)
        (allValid_cons h2 allValid_nil))))
  | .approx k t n l, pre, h, hn => by
    simp only [validTexts] at h
    simp only [validNums, Bool.and_eq_true] at hn
    simp only [Tree.pcs]
    exact allValid_append (Tree.pcs_valid s t _ h hn.2) (allValid_cons hn.1 allValid_nil)
  | .boost e n l, pre, h, hn => by
    simp only [validTexts] at h
    simp only [validNums, Bool.and_eq_true] at hn
    simp only [Tree.pcs]
    exact allValid_append (Tree.pcs_valid s e _ h hn.2) (allValid_cons hn.1 allValid_nil)
  | .op k [] l, pre, _, _ => by simp only [Tree.pcs]; exact allValid_nil
  | .op k (x :: xs) l, pre, h, hn => by
    simp only [validTexts, validTextss, Bool.and_eq_true] at h
    simp only [validNums, validNumss, Bool.and_eq_true] at hn
    simp only [Tree.pcs]
    exact allValid_append (Tree.pcs_valid s x _ h.1 hn.1) (Tree.pcsTail_valid s k xs _ h.2 hn.2)
  | .unary k a l, pre, h, hn => by
    simp only [validTexts] at h
    simp only [validNums] at hn
    have ha := Tree.pcs_valid s a [] h hn
    cases k <;> simp only [Tree.pcs]
    · exact allValid_cons validTok_fixed.2.2.2.2.2.2.2.2.1 ha
    · exact allValid_cons validTok_fixed.2.2.2.2.2.2.2.2.2.2.1 ha
    · exact allValid_cons validTok_fixed.2.2.2.2.2.2.2.2.2.1 ha
  | .orange k a inc l, pre, h, hn => by
    simp only [validTexts] at h
    simp only [validNums] at hn
    have ha := Tree.pcs_valid s a [] h hn
    cases k <;> cases inc <;> simp only [Tree.pcs]
    · exact allValid_cons validTok_fixed.2.2.2.2.2.2.2.2.2.2.2.2.2.1 ha
    · exact allValid_cons validTok_fixed.2.2.2.2.2.2.2.2.2.2.2.2.2.2.1 ha
    · exact allValid_cons validTok_fixed.2.2.2.2.2.2.2.2.2.2.2.1 ha
    · exact allValid_cons validTok_fixed.2.2.2.2.2.2.2.2.2.2.2.2.1 ha
  | .none l, pre, _, _ => by simp only [Tree.pcs]; exact allValid_nil
theorem Tree.pcsTail_valid (s : NumStyle) (k : OpK) : ∀ (ys : List Tree) (pre : Str),
    validTextss ys = true → validNumss s ys = true → AllValid (Tree.pcsTail s k ys pre).1
  | [], pre, _, _ => by simp only [Tree.pcsTail]; exact allValid_nil
  | y :: r, pre, h, hn => by
    simp only [validTextss, Bool.and_eq_true] at h
    simp only [validNumss, Bool.and_eq_true] at hn
    rcases opTok_word k with ⟨h1, _, _⟩ | ⟨kk, w, h1, _, _⟩
    · simp only [Tree.pcsTail, h1]
      exact allValid_append (Tree.pcs_valid s y _ h.1 hn.1) (Tree.pcsTail_valid s k r _ h.2 hn.2)
    · simp only [Tree.pcsTail, h1]
      exact allValid_cons (opTok_valid h1)
        (allValid_append (Tree.pcs_valid s y _ h.1 hn.1) (Tree.pcsTail_valid s k r _ h.2 hn.2))
end

/-! ### from the yield to the tree -/

/-- all the keys are valid token texts -/
def KeysValid (ks : List (TokK × Str)) : Prop := ∀ kx ∈ ks, validTok kx.1 kx.2 = true

theorem keysValid_tail {k : TokK × Str} {ks : List (TokK × Str)} (h : KeysValid (k :: ks)) :
    KeysValid ks := fun x hx => h x (List.mem_cons_of_mem _ hx)

theorem keysValid_left {ks ls : List (TokK × Str)} (h : KeysValid (ks ++ ls)) : KeysValid ks :=
  fun x hx => h x (List.mem_append_left _ hx)

theorem keysValid_right {ks ls : List (TokK × Str)} (h : KeysValid (ks ++ ls)) : KeysValid ls :=
  fun x hx => h x (List.mem_append_right _ hx)

theorem joinL_cons_eq {α : Type} (w : List α) (x : List α) (ys : List (List α)) :
    joinL w (x :: ys) = x ++ tailJoin w ys := joinL_cons w x ys

theorem keysValid_tailJoin {w : List (TokK × Str)} : ∀ {ys : List (List (TokK × Str))},
    KeysValid (tailJoin w ys) → ∀ y ∈ ys, KeysValid y
  | [], _, y, hy => by cases hy
  | z :: r, h, y, hy => by
    simp only [tailJoin, List.append_assoc] at h
    simp only [List.mem_cons] at hy
    rcases hy with rfl | hy
    · exact keysValid_left (keysValid_right h)
    · exact keysValid_tailJoin (keysValid_right (keysValid_right h)) y hy

mutual
/-- **a tree whose yield consists of valid token texts has valid texts and valid numeral tokens**
(source style) -/
theorem validTexts_of_yield : ∀ t : Tree, KeysValid (yield t) →
    validTexts t = true ∧ validNums .raw t = true
  | .term .word v l, h => ⟨by simpa [validTexts] using h (reservedKind v, v) (by simp [yield]), rfl⟩
  | .term .phrase v l, h => ⟨by simpa [validTexts] using h (.phrase, v) (by simp [yield]), rfl⟩
  | .term .regex v l, h => ⟨by simpa [validTexts] using h (.regex, v) (by simp [yield]), rfl⟩
  | .field n e l, h => by
    simp only [yield] at h
    have he := validTexts_of_yield e (keysValid_tail (keysValid_tail h))
    have hn := h (.term, n) (by simp)
    simp only [validTexts, validNums, Bool.and_eq_true]
    exact ⟨⟨hn, he.1⟩, he.2⟩
  | .group k e l, h => by
    simp only [yield] at h
    have he := validTexts_of_yield e (keysValid_left (keysValid_tail h))
    simpa only [validTexts, validNums] using he
  | .range a b il ih l, h => by
    simp only [yield, List.append_assoc] at h
    have h1 := keysValid_tail h
    have ha := validTexts_of_yield a (keysValid_left h1)
    have hb := validTexts_of_yield b (keysValid_left (keysValid_tail (keysValid_right h1)))
    simp only [validTexts, validNums, Bool.and_eq_true]
    exact ⟨⟨ha.1, hb.1⟩, ha.2, hb.2⟩
  | .approx k t n l, h => by
    simp only [yield] at h
    have ht := validTexts_of_yield t (keysValid_left h)
    have hn := h (.approx, '~' :: n.source) (by simp)
    simp only [validTexts, validNums, Bool.and_eq_true]
    exact ⟨ht.1, hn, ht.2⟩
  | .boost e n l, h => by
    simp only [yield] at h
    have ht := validTexts_of_yield e (keysValid_left h)
    have hn := h (.boost, '^' :: n.source) (by simp)
    simp only [validTexts, validNums, Bool.and_eq_true]
    exact ⟨ht.1, hn, ht.2⟩
  | .op k xs l, h => by
    simp only [yield] at h
    simp only [validTexts, validNums]
    cases xs with
    | nil => exact ⟨rfl, rfl⟩
    | cons x r =>
      rw [yields, joinL_cons_eq] at h
      have hx := validTexts_of_yield x (keysValid_left h)
      have hr := validTextss_of_yields r (keysValid_tailJoin (keysValid_right h))
      simp only [validTextss, validNumss, Bool.and_eq_true]
      exact ⟨⟨hx.1, hr.1⟩, hx.2, hr.2⟩
  | .unary k a l, h => by
    have ha : KeysValid (yield a) := by cases k <;> exact keysValid_tail (by simpa only [yield] using h)
    simpa only [validTexts, validNums] using validTexts_of_yield a ha
  | .orange k a inc l, h => by
    have ha : KeysValid (yield a) := by cases k <;> exact keysValid_tail (by simpa only [yield] using h)
    simpa only [validTexts, validNums] using validTexts_of_yield a ha
  | .none l, _ => ⟨rfl, rfl⟩
theorem validTextss_of_yields : ∀ xs : List Tree, (∀ y ∈ yields xs, KeysValid y) →
    validTextss xs = true ∧ validNumss .raw xs = true
  | [], _ => ⟨rfl, rfl⟩
  | x :: r, h => by
    simp only [yields, List.mem_cons] at h
    have hx := validTexts_of_yield x (h _ (Or.inl rfl))
    have hr := validTextss_of_yields r (fun y hy => h y (Or.inr hy))
    simp only [validTextss, validNumss, Bool.and_eq_true]
    exact ⟨⟨hx.1, hr.1⟩, hx.2, hr.2⟩
end

/-! ### the numerals the implementation prints -/

theorem validTok_approx_norm {n : Num} (h : n.implicit = true ∨ n.val.neg = false) :
    validTok .approx ('~' :: n.text .norm) = true := by
  rcases h with h | h
  · simp only [Num.text, Num.shown, h, if_true]; decide +kernel
  · exact Props.LX.validTok_approx_shown n h

theorem validTok_boost_norm {n : Num} (h : n.implicit = true ∨ n.val.neg = false) :
    validTok .boost ('^' :: n.text .norm) = true := by
  rcases h with h | h
  · simp only [Num.text, Num.shown, h, if_true]; decide +kernel
  · exact Props.LX.validTok_boost_shown n h

theorem decOK_unsigned {dflt : Dec} {n : Num} (h : decOK dflt n = true) :
    n.implicit = true ∨ n.val.neg = false := by
  unfold decOK at h
  by_cases hi : n.implicit = true
  · exact Or.inl hi
  · right
    simp only [hi, Bool.false_eq_true, if_false, Bool.and_eq_true, Bool.not_eq_true'] at h
    exact h.1

theorem intOK_unsigned {n : Num} (h : intOK n = true) : n.implicit = true ∨ n.val.neg = false := by
  unfold intOK at h
  by_cases hi : n.implicit = true
  · exact Or.inl hi
  · right
    simp only [hi, Bool.false_eq_true, if_false, Bool.and_eq_true, Bool.not_eq_true'] at h
    exact h.1.1

mutual
/-- **the `~…` / `^…` tokens the implementation prints for `numsOK` numerals are valid** -/
theorem validNums_norm : ∀ t : Tree, numsOK t = true → validNums .norm t = true
  | .term .., _ => rfl
  | .field _ e _, h => by simpa only [validNums] using validNums_norm e (by simpa only [numsOK] using h)
  | .group _ e _, h => by simpa only [validNums] using validNums_norm e (by simpa only [numsOK] using h)
  | .range a b _ _ _, h => by
    simp only [numsOK, Bool.and_eq_true] at h
    simp only [validNums, Bool.and_eq_true]
    exact ⟨validNums_norm a h.1, validNums_norm b h.2⟩
  | .approx .fuzzy e n _, h => by
    simp only [numsOK, Bool.and_eq_true] at h
    simp only [validNums, Bool.and_eq_true]
    exact ⟨validTok_approx_norm (decOK_unsigned h.1), validNums_norm e h.2⟩
  | .approx .proximity e n _, h => by
    simp only [numsOK, Bool.and_eq_true] at h
    simp only [validNums, Bool.and_eq_true]
    exact ⟨validTok_approx_norm (intOK_unsigned h.1), validNums_norm e h.2⟩
  | .boost e n _, h => by
    simp only [numsOK, Bool.and_eq_true] at h
    simp only [validNums, Bool.and_eq_true]
    exact ⟨validTok_boost_norm (decOK_unsigned h.1), validNums_norm e h.2⟩
  | .op _ xs _, h => by simpa only [validNums] using validNumss_norm xs (by simpa only [numsOK] using h)
  | .unary _ e _, h => by simpa only [validNums] using validNums_norm e (by simpa only [numsOK] using h)
  | .orange _ e _ _, h => by
    simpa only [validNums] using validNums_norm e (by simpa only [numsOK] using h)
  | .none _, _ => rfl
theorem validNumss_norm : ∀ xs : List Tree, numssOK xs = true → validNumss .norm xs = true
  | [], _ => rfl
  | x :: r, h => by
    simp only [numssOK, Bool.and_eq_true] at h
    simp only [validNumss, Bool.and_eq_true]
    exact ⟨validNums_norm x h.1, validNumss_norm r h.2⟩
end

end Luqum
