/-
  Luqum.Lemmas.LaidActMain — property C02 (positions): the per-action lemma `act_pos`. If the
  arguments of a semantic action form a well-formed sequence, are laid out consecutively from `off`,
  and their shapes are admissible for the action (table fact), the value built is laid out at `off`.
-/
import Luqum.Lemmas.LaidBin

namespace Luqum

/-- closes the offset equalities -/
macro "pos_arith" : tactic =>
  `(tactic| ((try simp only [Tree.head, Tree.tail, List.length_cons, List.length_nil,
      List.length_append, opTailOf, OpK.word]) <;> (try omega)))

theorem lay_term (k : TermK) (v : Str) (l : Lay) : (Tree.term k v l).lay = l := rfl

theorem binaryOp_lay_head (k : OpK) (a b : Tree) (ol : Option Lay) :
    (binaryOp k a ol b).lay.head = [] := by
  obtain ⟨pos, size, he⟩ := binaryOp_eq k a b ol
  rw [he]; rfl

/-- `expr OP expr` -/
theorem bin_pos {k : OpK} {kk : TokK} {a b : Tree} {o : TokV} {off : Int}
    (hw : tokText kk o.value = k.word)
    (hok : SeqOK [.item a, .tok kk o, .item b])
    (hp : SeqPos [.item a, .tok kk o, .item b] off) (hkb : isOpK k b = false) :
    Val.PosAt (.item (binaryOp k a (some o.lay) b))
      (off + (Val.lay (.item (binaryOp k a (some o.lay) b))).head.length) := by
  obtain ⟨hg, hn, _⟩ := hok
  have hga : a.good := hg (.item a) (by simp)
  have hgb : b.good := hg (.item b) (by simp)
  have hnb : b.nonFirst := hn (.item b) (by simp)
  have hno : o.lay.head = [] := hn (.tok kk o) (by simp)
  simp only [SeqPos, Val.PosAt, Val.lay, Val.flat, hw, hno, List.length_append, List.length_nil,
    and_true] at hp
  obtain ⟨hpa, hpo, hpb⟩ := hp
  refine (binaryOp_pos k a b (some o.lay) off hga hgb hnb hkb hpa ?_ (by simp) ?_).cast ?_
  · intro l hl; cases hl; exact ⟨hno, hpo.2⟩
  · exact hpb.cast (by pos_arith)
  · simp [Val.lay, binaryOp_lay_head]

/-- `expr expr` -/
theorem impl_pos {a b : Tree} {off : Int}
    (hok : SeqOK [.item a, .item b]) (hp : SeqPos [.item a, .item b] off)
    (hkb : isOpK .unk b = false) :
    Val.PosAt (.item (binaryOp .unk a none b))
      (off + (Val.lay (.item (binaryOp .unk a none b))).head.length) := by
  obtain ⟨hg, hn, _⟩ := hok
  have hga : a.good := hg (.item a) (by simp)
  have hgb : b.good := hg (.item b) (by simp)
  have hnb : b.nonFirst := hn (.item b) (by simp)
  simp only [SeqPos, Val.PosAt, Val.lay, Val.flat, and_true] at hp
  obtain ⟨hpa, hpb⟩ := hp
  refine (binaryOp_pos .unk a b none off hga hgb hnb hkb hpa (by simp) (fun _ => rfl) ?_).cast ?_
  · exact hpb.cast (by pos_arith)
  · simp [Val.lay, binaryOp_lay_head]

/-- `OP expr` -/
theorem pre_pos {kk : TokK} {o : TokV} {e : Tree} {mk : Tree → Lay → Tree} {w : Str} {off : Int}
    (hmk : PreMk w mk) (hw : tokText kk o.value = w) (hlay : ∀ a l, (mk a l).lay = l)
    (hp : SeqPos [.tok kk o, .item e] off) :
    Val.PosAt (.item (mgrUnary o.lay e mk))
      (off + (Val.lay (.item (mgrUnary o.lay e mk))).head.length) := by
  simp only [SeqPos, Val.PosAt, Val.lay, Val.flat, hw, List.length_append, and_true] at hp
  obtain ⟨hpo, hpe⟩ := hp
  refine (mgrUnary_pos hmk hpo (hpe.cast ?_)).cast ?_
  · pos_arith
  · simp [Val.lay, mgrUnary, hlay]

/-- `expr OP` -/
theorem post_pos {kk : TokK} {a : TokV} {e : Tree} {mk : Tree → Lay → Tree} {w : Str} {off : Int}
    (hmk : PostMk w mk) (hw : tokText kk a.value = w) (hlay : ∀ a l, (mk a l).lay = l)
    (hp : SeqPos [.item e, .tok kk a] off) :
    Val.PosAt (.item (mgrPostUnary e a.lay mk))
      (off + (Val.lay (.item (mgrPostUnary e a.lay mk))).head.length) := by
  simp only [SeqPos, Val.PosAt, Val.lay, Val.flat, hw, and_true] at hp
  obtain ⟨hpe, hpa⟩ := hp
  refine (mgrPostUnary_pos hmk hpe hpa.2).cast ?_
  simp [Val.lay, mgrPostUnary, hlay]

theorem tokText_lessthan {v : Option Str} (h : tokValOK .lessthan v) :
    tokText .lessthan v = orangePre .to ((v.getD []).contains '=') := by
  rcases h with h | h <;> subst h <;> decide

theorem tokText_greaterthan {v : Option Str} (h : tokValOK .greaterthan v) :
    tokText .greaterthan v = orangePre .from ((v.getD []).contains '=') := by
  rcases h with h | h <;> subst h <;> decide

/-- **the per-action lemma** -/
theorem act_pos {f : String} {args : List Val} {v : Val} {As : List Nat} {off : Int}
    (h : act f args = .ok v) (hok : SeqOK args) (hp : SeqPos args off)
    (hs : HasShapes args As) (hadm : admSet f As = true) :
    v.PosAt (off + v.lay.head.length) := by
  have hg := hok.good
  have hn := hok.nf
  unfold act at h
  split at h
  case h_1 a o b =>
    simp only [hasShapes_cons, hasShapes_nil] at hs
    obtain ⟨A, _, rfl, ⟨ha, hA⟩, O, _, rfl, _, B, _, rfl, ⟨hb, hB⟩, rfl⟩ := hs
    cases h
    rw [admSet_or] at hadm
    simp only [Bool.and_eq_true, Bool.not_eq_true'] at hadm
    have h2 : (bit shUnk ||| bit shOr).testBit (shapeOfTree b) = false := testBit_of_not_meets hadm.2 hB
    simp only [Nat.testBit_or, Bool.or_eq_false_iff] at h2
    rw [← isOpK_unk_eq, ← isOpK_or_eq] at h2
    have hgo : o.value = some "OR".toList := hg (.tok .orOp o) (by simp)
    exact bin_pos (k := .or) (by simp [tokText, hgo, OpK.word]) hok hp h2.2
  case h_2 a o b =>
    simp only [hasShapes_cons, hasShapes_nil] at hs
    obtain ⟨A, _, rfl, ⟨ha, hA⟩, O, _, rfl, _, B, _, rfl, ⟨hb, hB⟩, rfl⟩ := hs
    cases h
    rw [admSet_and] at hadm
    simp only [Bool.and_eq_true, Bool.not_eq_true'] at hadm
    have h2 : isOp' b = false := notOp_of_not_meets hb hB hadm.2
    have hb' : isOpK .and b = false := by cases b <;> simp_all [isOp', isOpK]
    have hgo : o.value = some "AND".toList := hg (.tok .andOp o) (by simp)
    exact bin_pos (k := .and) (by simp [tokText, hgo, OpK.word]) hok hp hb'
  case h_3 a b =>
    simp only [hasShapes_cons, hasShapes_nil] at hs
    obtain ⟨A, _, rfl, ⟨ha, hA⟩, B, _, rfl, ⟨hb, hB⟩, rfl⟩ := hs
    cases h
    rw [admSet_implicit] at hadm
    simp only [Bool.not_eq_true'] at hadm
    have h2 : (bit shUnk).testBit (shapeOfTree b) = false := testBit_of_not_meets hadm hB
    rw [← isOpK_unk_eq] at h2
    exact impl_pos hok hp h2
  case h_4 o e =>
    cases h
    have hgo : o.value = some ['+'] := hg (.tok .plus o) (by simp)
    exact pre_pos (preMk_unary .plus) (by simp [tokText, hgo, UnK.word]) (fun _ _ => rfl) hp
  case h_5 o e =>
    cases h
    have hgo : o.value = some ['-'] := hg (.tok .minus o) (by simp)
    exact pre_pos (preMk_unary .prohibit) (by simp [tokText, hgo, UnK.word]) (fun _ _ => rfl) hp
  case h_6 o e =>
    cases h
    have hgo : o.value = some "NOT".toList := hg (.tok .not o) (by simp)
    exact pre_pos (preMk_unary .not) (by simp [tokText, hgo, UnK.word]) (fun _ _ => rfl) hp
  case h_7 v' =>
    cases h
    simp only [SeqPos] at hp; exact hp.1
  case h_8 lp e rp =>
    split at h
    rename_i pos size hm
    cases h
    have hglp : lp.value = some ['('] := hg (.tok .lparen lp) (by simp)
    have hgrp : rp.value = some [')'] := hg (.tok .rparen rp) (by simp)
    simp only [SeqPos, Val.PosAt, Val.lay, Val.flat, tokText, hglp, hgrp, Option.getD_some,
      List.length_append, and_true] at hp
    obtain ⟨hplp, hpe, hprp⟩ := hp
    exact group_pos hm hplp (hpe.cast (by pos_arith)) hprp.2
  case h_9 lb lo to hi rb =>
    split at h
    rename_i pos size hm
    cases h
    have hglb : lb.value = some ['['] ∨ lb.value = some ['{'] := hg (.tok .lbracket lb) (by simp)
    have hgrb : rb.value = some [']'] ∨ rb.value = some ['}'] := hg (.tok .rbracket rb) (by simp)
    have hgto : to.value = some "TO".toList := hg (.tok .to to) (by simp)
    have hnto : to.lay.head = [] := hn (.tok .to to) (by simp)
    have hlb1 : (tokText .lbracket lb.value).length = 1 := by
      rcases hglb with h | h <;> simp [tokText, h]
    have hrb1 : (tokText .rbracket rb.value).length = 1 := by
      rcases hgrb with h | h <;> simp [tokText, h]
    have hto2 : (tokText .to to.value).length = 2 := by simp [tokText, hgto]
    simp only [SeqPos, Val.PosAt, Val.lay, Val.flat, LayAt, List.length_append, hlb1, hrb1, hto2,
      hnto, List.length_nil, and_true] at hp
    obtain ⟨⟨hplb, hslb⟩, hplo, ⟨_, hsto⟩, hphi, ⟨_, hsrb⟩⟩ := hp
    exact range_pos hm hplb hslb (hplo.cast (by pos_arith)) hsto hnto
      (hphi.cast (by pos_arith)) hsrb
  case h_10 o e =>
    cases h
    have hgo : o.value = some ['-'] := hg (.tok .minus o) (by simp)
    exact pre_pos (preMk_unary .prohibit) (by simp [tokText, hgo, UnK.word]) (fun _ _ => rfl) hp
  case h_11 v' =>
    cases h
    simp only [SeqPos] at hp; exact hp.1
  case h_12 v' =>
    cases h
    simp only [SeqPos] at hp; exact hp.1
  case h_13 o e =>
    cases h
    have hgo : tokValOK .lessthan o.value := hg (.tok .lessthan o) (by simp)
    exact pre_pos (preMk_orange .to _) (tokText_lessthan hgo) (fun _ _ => rfl) hp
  case h_14 o e =>
    cases h
    have hgo : tokValOK .greaterthan o.value := hg (.tok .greaterthan o) (by simp)
    exact pre_pos (preMk_orange .from _) (tokText_greaterthan hgo) (fun _ _ => rfl) hp
  case h_15 name nl c e =>
    have hm : mgrPos [nl, c.lay, (toFieldGroup e).lay] true false =
        ((mgrPos [nl, c.lay, (toFieldGroup e).lay] true false).1,
         (mgrPos [nl, c.lay, (toFieldGroup e).lay] true false).2) := rfl
    have h' : Val.item (.field name ((toFieldGroup e).setHead (c.lay.tail ++ (toFieldGroup e).head))
        { head := nl.head, tail := [],
          pos := (mgrPos [nl, c.lay, (toFieldGroup e).lay] true false).1,
          size := (mgrPos [nl, c.lay, (toFieldGroup e).lay] true false).2 }) = v := Except.ok.inj h
    subst h'
    have hgc : c.value = some [':'] := hg (.tok .column c) (by simp)
    have hnc : c.lay.head = [] := hn (.tok .column c) (by simp)
    have hnt : nl.tail = [] := (hok.adj.1) rfl
    simp only [SeqPos, Val.PosAt, Val.lay, Val.flat, lay_term, Pos, body_term, Tree.full, tokText,
      hgc, hnc, hnt, Option.getD_some, List.length_append, List.length_nil, and_true] at hp
    obtain ⟨hpn, hpc, hpe⟩ := hp
    exact field_pos hm hpn hnt hpc.2 hnc
      (hpe.cast (by pos_arith))
  case h_16 v' =>
    cases h
    simp only [SeqPos] at hp; exact hp.1
  case h_17 e a =>
    split at h
    · rename_i n hnum
      cases h
      exact post_pos (postMk_approx .proximity n) (by simp [tokText, intNum_source hnum])
        (fun _ _ => rfl) hp
    · cases h
  case h_18 e a =>
    split at h
    · rename_i n hnum
      cases h
      exact post_pos (postMk_boost n) (by simp [tokText, decNum_source hnum]) (fun _ _ => rfl) hp
    · cases h
  case h_19 v' =>
    cases h
    simp only [SeqPos] at hp; exact hp.1
  case h_20 e a =>
    split at h
    · rename_i n hnum
      cases h
      exact post_pos (postMk_approx .fuzzy n) (by simp [tokText, decNum_source hnum])
        (fun _ _ => rfl) hp
    · cases h
  case h_21 v' =>
    cases h
    simp only [SeqPos] at hp; exact hp.1
  case h_22 t =>
    split at h
    rename_i pos size hm
    cases h
    simp only [SeqPos, Val.PosAt, Val.lay, tokText, and_true] at hp
    exact toTerm_pos hm hp
  case h_23 v' =>
    cases h
    simp only [SeqPos] at hp; exact hp.1
  case h_24 => cases h

end Luqum
