/-
  Luqum.Lemmas.ComplMain — completeness: generic soundness of the checker `complOK` (for ARBITRARY
  tables `T` and certificates `R`), by induction on the size of the tree.
-/
import Luqum.Lemmas.ComplLevel

namespace Luqum.Compl
open Luqum
open Luqum.Props.C09 (content contents)

/-! ### facts about canonical trees -/

theorem canonsAt_mem {xs : List Tree} (h : CanonsAt xs = true) {x : Tree} (hx : x ∈ xs) :
    CanonAt false x = true := by
  induction xs with
  | nil => cases hx
  | cons y r ih =>
    simp only [CanonsAt, Bool.and_eq_true] at h
    rcases List.mem_cons.1 hx with rfl | hx
    · exact h.1
    · exact ih h.2 hx

theorem textsOK_mem {xs : List Tree} (h : TextsOK xs = true) {x : Tree} (hx : x ∈ xs) :
    TextOK x = true := by
  induction xs with
  | nil => cases hx
  | cons y r ih =>
    simp only [TextsOK, Bool.and_eq_true] at h
    rcases List.mem_cons.1 hx with rfl | hx
    · exact h.1
    · exact ih h.2 hx

theorem ungroup_canon {t : Tree} (h : CanonAt false t = true) : ungroup t = t := by
  cases t with
  | group k e l =>
    cases k with
    | group => rfl
    | fieldGroup => simp [CanonAt] at h
  | _ => rfl

theorem side_content {k : OpK} {t : Tree} (h : isOpK k t = false) :
    side k (content t) = [content t] := by
  cases t with
  | op k' xs l =>
    simp only [isOpK, beq_eq_false_iff_ne, ne_eq] at h
    simp [content, side, h]
  | _ => simp [content, side]

theorem size_mem_op {x : Tree} {xs : List Tree} (hx : x ∈ xs) (k : OpK) (l : Lay) :
    sizeOf x < sizeOf (Tree.op k xs l) := by
  have := List.sizeOf_lt_of_mem hx
  simp only [Tree.op.sizeOf_spec]
  omega

/-- a canonical tree with good texts starts with a token that can start an expression -/
theorem first_kind_aux : ∀ (n : Nat) (t : Tree), sizeOf t ≤ n → ∀ uf, CanonAt uf t = true →
    TextOK t = true → ∃ ky r, yield t = ky :: r ∧ ky.1 ∈ firstKinds := by
  intro n
  induction n with
  | zero =>
    intro t h
    cases t <;> simp at h <;> omega
  | succ n ih =>
    intro t hsz uf hc hw
    cases t with
    | term k v l =>
      cases k with
      | word =>
        simp only [TextOK, Bool.or_eq_true, beq_iff_eq] at hw
        rcases hw with hw | hw <;> exact ⟨_, _, rfl, by simp [hw, firstKinds]⟩
      | phrase => exact ⟨_, _, rfl, by simp [firstKinds]⟩
      | regex => exact ⟨_, _, rfl, by simp [firstKinds]⟩
    | field nm e l => exact ⟨_, _, rfl, by simp [firstKinds]⟩
    | group k e l => exact ⟨_, _, rfl, by simp [firstKinds]⟩
    | range lo hi il ih' l => exact ⟨_, _, rfl, by simp [firstKinds]⟩
    | approx k e nn l =>
      cases k with
      | fuzzy =>
        simp only [CanonAt] at hc
        simp only [TextOK, Bool.and_eq_true] at hw
        cases e with
        | term k' w l0 =>
          cases k' with
          | word =>
            simp only [wordTerm, beq_iff_eq] at hw
            exact ⟨(reservedKind w, w), [(.approx, '~' :: nn.source)], by simp [yield],
              by simp [hw.1, firstKinds]⟩
          | _ => simp [isWord] at hc
        | _ => simp [isWord] at hc
      | proximity =>
        simp only [CanonAt] at hc
        cases e with
        | term k' w l0 =>
          cases k' with
          | phrase => exact ⟨(.phrase, w), [(.approx, '~' :: nn.source)], by simp [yield],
            by simp [firstKinds]⟩
          | _ => simp [isPhrase] at hc
        | _ => simp [isPhrase] at hc
    | boost e nn l =>
      simp only [CanonAt, Bool.and_eq_true] at hc
      simp only [TextOK, Bool.and_eq_true] at hw
      obtain ⟨ky, r, hy, hk⟩ := ih e (by simp only [Tree.boost.sizeOf_spec] at hsz; omega) false
        hc.1.1.1 hw.1
      exact ⟨ky, r ++ [(.boost, '^' :: nn.source)], by simp [yield, hy], hk⟩
    | op k xs l =>
      simp only [CanonAt, Bool.and_eq_true, decide_eq_true_eq] at hc
      simp only [TextOK] at hw
      match xs, hc, hw, hsz with
      | x :: y :: r, hc, hw, hsz =>
        obtain ⟨ky, r', hy, hk⟩ := ih x
          (by have := size_mem_op (x := x) (xs := x :: y :: r) (by simp) k l; omega) false
          (canonsAt_mem hc.1.2 (by simp)) (textsOK_mem hw (by simp))
        exact ⟨ky, r' ++ (opKey k ++ joinL (opKey k) (yield y :: yields r)),
          by simp [yield, yields, joinL, hy], hk⟩
    | unary k e l => cases k <;> exact ⟨_, _, rfl, by simp [firstKinds]⟩
    | orange k e i l => cases k <;> exact ⟨_, _, rfl, by simp [firstKinds]⟩
    | none l => simp [CanonAt] at hc

theorem first_kind {t : Tree} {uf : Bool} (hc : CanonAt uf t = true) (hw : TextOK t = true) :
    ∃ ky r, yield t = ky :: r ∧ ky.1 ∈ firstKinds :=
  first_kind_aux _ t (Nat.le_refl _) uf hc hw

/-! ### what membership in the certificate gives -/

theorem mem_of_contains {R : List (Nat × String)} {p : Nat × String} (h : R.contains p = true) :
    p ∈ R := by
  simpa using h

/-! ### the goals -/

/-- the eventuality of a non-operation tree -/
def GoalU (T : Tables) (R : List (Nat × String)) (t : Tree) : Prop :=
  ∀ uf, CanonAt uf t = true → isOp' t = false → ∀ s a, R.contains (s, a) = true →
    (a = "BOOST" → boostable t = true) → ∀ toks : List Tok, toks.map tokKey = yield t →
    Ev T s nU a toks (content (ungroup t))

structure Goals (T : Tables) (R : List (Nat × String)) (t : Tree) : Prop where
  u : GoalU T R t
  and : CanonAt false t = true → isOpK .or t = false → isOpK .unk t = false → OpEv T (chkAnd T R) t
  or : CanonAt false t = true → isOpK .unk t = false → OpEv T (chkOr T R) t
  expr : CanonAt false t = true → OpEv T (chkExpr T R) t

/-- a non-operation tree as an expression -/
theorem ue_of_u {T : Tables} {R : List (Nat × String)} {t : Tree} (hu : GoalU T R t)
    (hc : CanonAt false t = true) (hop : isOp' t = false) : OpEv T (chkUE T R) t := by
  intro s b hsub toks hk ss vs rest hl
  simp only [chkUE, Bool.and_eq_true, bne_iff_ne, ne_eq, Option.any_eq_true] at hsub
  obtain ⟨⟨hb, hR⟩, u, hgu, hchain⟩ := hsub
  obtain ⟨u', t', hgu', hct, hrun⟩ := hu false hc hop s b hR (fun h => absurd h hb) toks hk ss vs rest hl
  rw [hgu] at hgu'; cases hgu'
  rw [ungroup_canon hc] at hct
  obtain ⟨g, hg, hrun'⟩ := run_chain hl (.item t') ss vs _ _ hchain
  exact ⟨g, t', hg, hct, hrun.trans hrun'⟩

theorem act_and (x : Tree) (o : TokV) (y : Tree) :
    act "p_expression_and" [.item x, .tok .andOp o, .item y] =
      .ok (.item (binaryOp .and x (some o.lay) y)) := rfl

theorem act_or (x : Tree) (o : TokV) (y : Tree) :
    act "p_expression_or" [.item x, .tok .orOp o, .item y] =
      .ok (.item (binaryOp .or x (some o.lay) y)) := rfl

/-- content and yield of a tree in terms of its operands for the class `k` -/
theorem side_tree (k : OpK) (t : Tree) (hlen : ∀ xs l, t = .op k xs l → 2 ≤ xs.length) :
    ∃ x xs, side k t = x :: xs ∧ content t = mkOp k ((x :: xs).map content) ∧
      yield t = joinL (opKey k) (yields (x :: xs)) := by
  rcases side_cases k t with ⟨xs, l, rfl, hs⟩ | hs
  · have h2 := hlen xs l rfl
    match xs, h2, hs with
    | x :: y :: r, h2, hs =>
      refine ⟨x, y :: r, hs, ?_, by simp [yield]⟩
      rw [mkOp_two (by simp)]
      simp [content, contents_map]
  · exact ⟨t, [], hs, by simp [mkOp], by simp [yields, joinL]⟩

/-- AND / OR over operands that have their eventualities -/
theorem level_tree {T : Tables} {sub : Nat → String → Bool} {op f : String}
    (k : OpK) (kk : TokK) (w : Str) (hkk : kk.name = op)
    (hplain : plainKind kk = true) (hkey : opKey k = [(kk, w)])
    (hact : ∀ x o y, act f [.item x, .tok kk o, .item y] = .ok (.item (binaryOp k x (some o.lay) y)))
    (t : Tree) (hlen : ∀ xs l, t = .op k xs l → 2 ≤ xs.length)
    (hev : ∀ y ∈ side k t, OpEv T sub y) (hside : ∀ y ∈ side k t, isOpK k y = false) :
    OpEv T (chkLevel T sub op f) t := by
  intro s b hsub toks hk
  obtain ⟨x, xs, hs, hc, hy⟩ := side_tree k t hlen
  rw [hs] at hev hside
  rw [hc]
  rw [hy] at hk
  exact ev_level hsub k kk w hkk hplain hkey hact x xs hev (fun y hy => side_content (hside y hy)) toks hk

/-! ### the induction -/

theorem goal_u {T : Tables} {R : List (Nat × String)} {G : List Nat}
    (hR : ∀ p ∈ R, chkU T R G p.1 p.2 = true) (hG : ∀ s ∈ G, chkExpr T R s "RPAREN" = true)
    (t : Tree) (hw : TextOK t = true)
    (ih : ∀ y, sizeOf y < sizeOf t → TextOK y = true → Goals T R y) : GoalU T R t := by
  intro uf hc hop s a hmem hboost toks hk
  have hchk := hR _ (mem_of_contains hmem)
  simp only [chkU, Option.any_eq_true, Bool.and_eq_true, Bool.or_eq_true, beq_iff_eq] at hchk
  obtain ⟨u, hu, ⟨⟨⟨⟨⟨⟨⟨⟨⟨⟨⟨c1, c2⟩, c3⟩, c4⟩, c5⟩, c6⟩, c7⟩, c8⟩, c9⟩, c10⟩, c11⟩, c12⟩⟩ := hchk
  cases t with
  | term k v l => exact ev_term c1 c2 c3 c4 hu k v l hw toks hk
  | field n e l =>
    simp only [CanonAt, Bool.and_eq_true, Bool.not_eq_true'] at hc
    simp only [TextOK, Bool.and_eq_true] at hw
    have hne : a ≠ "BOOST" := fun h => by simpa [boostable, isUnary, isField] using hboost h
    have hpre : chkPre T R s a u = true := by
      rcases c12 with h | h
      · exact absurd h hne
      · exact h
    simp only [chkPre, Bool.and_eq_true] at hpre
    exact ev_field hpre.2 hu n e l hc.1 toks hk fun s1 te hR1 hte =>
      (ih e (by simp only [Tree.field.sizeOf_spec]; omega) hw.2).u true hc.1 hc.2 s1 a hR1
        (fun h => absurd h hne) te hte
  | group k e l =>
    simp only [CanonAt, Bool.and_eq_true] at hc
    simp only [TextOK] at hw
    exact ev_group c7 hu k e l toks hk fun s1 te hex hte =>
      (ih e (by simp only [Tree.group.sizeOf_spec]; omega) hw).expr hc.2 s1 "RPAREN"
        (hG s1 (by simpa using hex)) te hte
  | range lo hi il ih' l =>
    exact ev_range c8 hu lo hi il ih' l (by simpa [CanonAt] using hc) hw toks hk
  | approx k e n l =>
    cases k with
    | fuzzy => exact ev_fuzzy c5 hu e n l (by simpa [CanonAt] using hc) hw toks hk
    | proximity => exact ev_proximity c6 hu e n l (by simpa [CanonAt] using hc) hw toks hk
  | boost e n l =>
    simp only [CanonAt, Bool.and_eq_true, Bool.not_eq_true'] at hc
    simp only [TextOK, Bool.and_eq_true] at hw
    have := ev_boost c11 hu e n l hw.2 toks hk (content (ungroup e)) fun te hR1 hte =>
      (ih e (by simp only [Tree.boost.sizeOf_spec]; omega) hw.1).u false hc.1.1.1 hc.1.1.2 s "BOOST" hR1
        (fun _ => by simp [boostable, hc.1.2, hc.2]) te hte
    rw [ungroup_canon hc.1.1.1] at this
    exact this
  | unary k e l =>
    simp only [CanonAt, Bool.and_eq_true, Bool.not_eq_true'] at hc
    simp only [TextOK] at hw
    have hne : a ≠ "BOOST" := fun h => by simpa [boostable, isUnary, isField] using hboost h
    have hpre : chkPre T R s a u = true := by
      rcases c12 with h | h
      · exact absurd h hne
      · exact h
    simp only [chkPre, Bool.and_eq_true] at hpre
    have hchild : ∀ s1, R.contains (s1, a) = true → ∀ te : List Tok, te.map tokKey = yield e →
        Ev T s1 nU a te (content e) := by
      intro s1 hR1 te hte
      have := (ih e (by simp only [Tree.unary.sizeOf_spec]; omega) hw).u false hc.1 hc.2 s1 a hR1
        (fun h => absurd h hne) te hte
      rw [ungroup_canon hc.1] at this
      exact this
    cases k with
    | plus =>
      simp only [yield] at hk
      obtain ⟨t0, te, rfl, hk0, _, hte⟩ := keys_cons hk
      exact ev_prefix hpre.1.1.1 hu .plus rfl rfl .plus (fun _ _ => rfl) t0 hk0 te (content e)
        fun s1 hR1 => hchild s1 hR1 te hte
    | prohibit =>
      simp only [yield] at hk
      obtain ⟨t0, te, rfl, hk0, _, hte⟩ := keys_cons hk
      exact ev_prefix hpre.1.1.2 hu .minus rfl rfl .prohibit (fun _ _ => rfl) t0 hk0 te (content e)
        fun s1 hR1 => hchild s1 hR1 te hte
    | not =>
      simp only [yield] at hk
      obtain ⟨t0, te, rfl, hk0, _, hte⟩ := keys_cons hk
      exact ev_prefix hpre.1.2 hu .not rfl rfl .not (fun _ _ => rfl) t0 hk0 te (content e)
        fun s1 hR1 => hchild s1 hR1 te hte
  | orange k e inc l =>
    exact ev_orange c9 c10 hu k e inc l (by simpa [CanonAt] using hc) hw toks hk
  | op k xs l => simp [isOp'] at hop
  | none l => simp [CanonAt] at hc

theorem goals_aux {T : Tables} {R : List (Nat × String)} {G : List Nat}
    (hR : ∀ p ∈ R, chkU T R G p.1 p.2 = true) (hG : ∀ s ∈ G, chkExpr T R s "RPAREN" = true) :
    ∀ (n : Nat) (t : Tree), sizeOf t ≤ n → TextOK t = true → Goals T R t := by
  intro n
  induction n with
  | zero =>
    intro t h
    cases t <;> simp at h <;> omega
  | succ n ih =>
    intro t hsz hw
    have ih' : ∀ y, sizeOf y < sizeOf t → TextOK y = true → Goals T R y :=
      fun y hy hwy => ih y (by omega) hwy
    -- operands: the tree itself, or smaller trees with good texts
    have hopnd : ∀ k y, y ∈ side k t → y = t ∨ (sizeOf y < sizeOf t ∧ TextOK y = true ∧
        ∃ xs l, t = .op k xs l ∧ y ∈ xs) := by
      intro k y hy
      rcases side_cases k t with ⟨xs, l, rfl, hs⟩ | hs
      · rw [hs] at hy
        simp only [TextOK] at hw
        exact Or.inr ⟨size_mem_op hy k l, textsOK_mem hw hy, xs, l, rfl, hy⟩
      · rw [hs] at hy
        exact Or.inl (by simpa using hy)
    have hu : GoalU T R t := goal_u hR hG t hw ih'
    have hand : CanonAt false t = true → isOpK .or t = false → isOpK .unk t = false →
        OpEv T (chkAnd T R) t := by
      intro hc hnor hnunk
      refine level_tree .and .andOp "AND".toList rfl rfl rfl act_and t ?_ ?_ ?_
      · intro xs l ht
        subst ht
        simp only [CanonAt, Bool.and_eq_true, decide_eq_true_eq] at hc
        exact hc.1.1.2
      · intro y hy
        rcases hopnd _ y hy with rfl | ⟨hsz', hwy, xs, l, rfl, hmem⟩
        · have hop : isOp' y = false := by
            cases y with
            | op k xs l =>
              cases k
              · simp [side] at hy
                exact absurd hy (fun h => by
                  have := List.sizeOf_lt_of_mem h
                  simp only [Tree.op.sizeOf_spec] at this
                  omega)
              · simp [isOpK] at hnor
              · simp [isOpK] at hnunk
              · simp [CanonAt] at hc
            | _ => rfl
          exact ue_of_u hu hc hop
        · simp only [CanonAt, Bool.and_eq_true, decide_eq_true_eq, List.all_eq_true] at hc
          have hcy := canonsAt_mem hc.1.2 hmem
          have hopy : isOp' y = false := by simpa [operandOK] using hc.2 y hmem
          exact ue_of_u (ih' y hsz' hwy).u hcy hopy
      · intro y hy
        rcases hopnd _ y hy with rfl | ⟨_, _, xs, l, rfl, hmem⟩
        · cases y with
          | op k xs l =>
            cases k
            · simp [side] at hy
              exact absurd hy (fun h => by
                have := List.sizeOf_lt_of_mem h
                simp only [Tree.op.sizeOf_spec] at this
                omega)
            all_goals simp [isOpK]
          | _ => rfl
        · simp only [CanonAt, Bool.and_eq_true, decide_eq_true_eq, List.all_eq_true] at hc
          have : isOp' y = false := by simpa [operandOK] using hc.2 y hmem
          cases y <;> simp_all [isOp', isOpK]
    have hor : CanonAt false t = true → isOpK .unk t = false → OpEv T (chkOr T R) t := by
      intro hc hnunk
      refine level_tree .or .orOp "OR".toList rfl rfl rfl act_or t ?_ ?_ ?_
      · intro xs l ht
        subst ht
        simp only [CanonAt, Bool.and_eq_true, decide_eq_true_eq] at hc
        exact hc.1.1.2
      · intro y hy
        rcases hopnd _ y hy with rfl | ⟨hsz', hwy, xs, l, rfl, hmem⟩
        · refine hand hc ?_ hnunk
          cases y with
          | op k xs l =>
            cases k
            case or =>
              simp [side] at hy
              exact absurd hy (fun h => by
                have := List.sizeOf_lt_of_mem h
                simp only [Tree.op.sizeOf_spec] at this
                omega)
            all_goals simp [isOpK]
          | _ => rfl
        · simp only [CanonAt, Bool.and_eq_true, decide_eq_true_eq, List.all_eq_true] at hc
          have hcy := canonsAt_mem hc.1.2 hmem
          have hopy := hc.2 y hmem
          simp only [operandOK, Bool.and_eq_true, Bool.not_eq_true'] at hopy
          exact (ih' y hsz' hwy).and hcy hopy.2 hopy.1
      · intro y hy
        rcases hopnd _ y hy with rfl | ⟨_, _, xs, l, rfl, hmem⟩
        · cases y with
          | op k xs l =>
            cases k
            case or =>
              simp [side] at hy
              exact absurd hy (fun h => by
                have := List.sizeOf_lt_of_mem h
                simp only [Tree.op.sizeOf_spec] at this
                omega)
            all_goals simp [isOpK]
          | _ => rfl
        · simp only [CanonAt, Bool.and_eq_true, decide_eq_true_eq, List.all_eq_true] at hc
          have hopy := hc.2 y hmem
          simp only [operandOK, Bool.and_eq_true, Bool.not_eq_true'] at hopy
          exact hopy.2
    refine ⟨hu, hand, hor, ?_⟩
    -- the implicit operation
    intro hc s b hsub toks hk
    obtain ⟨x, xs, hs, hct, hy⟩ := side_tree .unk t (by
      intro xs l ht
      subst ht
      simp only [CanonAt, Bool.and_eq_true, decide_eq_true_eq] at hc
      exact hc.1.1.2)
    rw [hct]
    rw [hy] at hk
    have hall : ∀ y ∈ x :: xs, CanonAt false y = true ∧ TextOK y = true ∧ isOpK .unk y = false ∧
        OpEv T (chkOr T R) y := by
      intro y hy
      rw [← hs] at hy
      rcases hopnd _ y hy with rfl | ⟨hsz', hwy, xs', l, rfl, hmem⟩
      · have hnunk : isOpK .unk y = false := by
          cases y with
          | op k xs l =>
            cases k
            case unk =>
              simp [side] at hy
              exact absurd hy (fun h => by
                have := List.sizeOf_lt_of_mem h
                simp only [Tree.op.sizeOf_spec] at this
                omega)
            all_goals simp [isOpK]
          | _ => rfl
        exact ⟨hc, hw, hnunk, hor hc hnunk⟩
      · simp only [CanonAt, Bool.and_eq_true, decide_eq_true_eq, List.all_eq_true] at hc
        have hcy := canonsAt_mem hc.1.2 hmem
        have hopy := hc.2 y hmem
        simp only [operandOK, Bool.not_eq_true'] at hopy
        exact ⟨hcy, hwy, hopy, (ih' y hsz' hwy).or hcy hopy⟩
    exact ev_implicit hsub x xs (fun y hy => (hall y hy).2.2.2)
      (fun y hy => side_content (hall y hy).2.2.1)
      (fun y hy => first_kind (hall y (by simp [hy])).1 (hall y (by simp [hy])).2.1) toks hk

/-- **generic soundness of the closure part of the checker** -/
theorem goals {T : Tables} {R : List (Nat × String)} {G : List Nat}
    (hR : ∀ p ∈ R, chkU T R G p.1 p.2 = true) (hG : ∀ s ∈ G, chkExpr T R s "RPAREN" = true)
    (t : Tree) (hw : TextOK t = true) : Goals T R t :=
  goals_aux hR hG _ t (Nat.le_refl _) hw

end Luqum.Compl
