/-
  Luqum.Lemmas.EsSchemaObjects — `SchemaAnalyzer.object_fields()` on the JSON of a mapping, and the
  builder's `objectPrefixes`: the dotted paths of the explicit objects (`"type": "object"`) having a
  direct child whose type is neither `object` nor `nested`.
-/
import Luqum.Lemmas.EsSchemaPrefixes

namespace Luqum.Lemmas.EsSchema
open Luqum Luqum.Lemmas.EsSpecNorm

/-- the `type` of the node is `object` or `nested` -/
def Node.isContainerTy : Node → Bool
  | .leaf d => d.ty == "object".toList || d.ty == "nested".toList
  | .multi d _ => d.ty == "object".toList || d.ty == "nested".toList
  | .object e _ => e
  | .nested _ => true

mutual
/-- the paths of the object fields of the node `n` named `k` below `pfx`; `po`: the direct parent is
an explicit object -/
def objNode (pfx : List Str) (po : Bool) (k : Str) : Node → List (List Str)
  | .leaf d => if po && !(Node.leaf d).isContainerTy then [pfx ++ [k]] else []
  | .multi d subs => if po && !(Node.multi d subs).isContainerTy then [pfx ++ [k]] else []
  | .object e ps => (if po && !e then [pfx ++ [k]] else []) ++ objProps (pfx ++ [k]) e ps
  | .nested ps => objProps (pfx ++ [k]) false ps
def objProps (pfx : List Str) (po : Bool) : Props → List (List Str)
  | [] => []
  | (k, n) :: r => objNode pfx po k n ++ objProps pfx po r
end

/-- the test of `object_fields()` on a yielded entry -/
def objTest (e : Entry) : Option Str :=
  match e.2.2.getLast? with
  | some (_, pdef) =>
    if JVal.strEq (pdef.getKey "type") "object" && !typeIn e.2.1 ["object", "nested"]
    then some (dotName e.1 e.2.2) else none
  | none => none

theorem schemaObjectFields_eq (schema : JVal) :
    schemaObjectFields schema = (schemaFields schema false).filterMap objTest := rfl

/-- is the direct parent an explicit object? -/
def poOf (parents : Parents) : Bool :=
  match parents.getLast? with
  | some (_, pdef) => JVal.strEq (pdef.getKey "type") "object"
  | none => false

theorem poOf_snoc (parents : Parents) (k : Str) (j : JVal) :
    poOf (parents ++ [(k, j)]) = JVal.strEq (j.getKey "type") "object" := by
  simp [poOf]

theorem typeIn_container_str (j : JVal) (ty : Str) (h : j.getKey "type" = some (.str ty)) :
    typeIn j ["object", "nested"] = (ty == "object".toList || ty == "nested".toList) := by
  simp only [typeIn, h, List.any_cons, List.any_nil, Bool.or_false]
  rw [BEq.comm (a := "object".toList), BEq.comm (a := "nested".toList)]

theorem typeIn_container (n : Node) : typeIn n.toJson ["object", "nested"] = n.isContainerTy := by
  cases n with
  | leaf d => exact typeIn_container_str _ _ (leafJson_type d)
  | multi d subs => exact typeIn_container_str _ _ (by rw [Node.toJson]; exact multiJson_type d _)
  | object e ps => cases e <;> rfl
  | nested ps => rfl

theorem objTest_node (k : Str) (n : Node) (parents : Parents) :
    objTest (k, n.toJson, parents) =
      if poOf parents && !n.isContainerTy then some (joinDot (parents.map (·.1) ++ [k])) else none := by
  unfold objTest poOf
  cases h : parents.getLast? with
  | none => simp
  | some x => simp only [typeIn_container, dotName]

mutual
theorem filterMap_obj_enumNode (parents : Parents) (k : Str) : ∀ n : Node,
    (enumNode false parents k n).filterMap objTest =
      (objNode (parents.map (·.1)) (poOf parents) k n).map joinDot
  | .leaf d => by
    simp only [enumNode, objNode, List.filterMap_cons, List.filterMap_nil, objTest_node]
    cases poOf parents <;> cases (Node.leaf d).isContainerTy <;> simp
  | .multi d subs => by
    simp only [enumNode, objNode, List.filterMap_cons, List.filterMap_nil, objTest_node,
      Bool.false_eq_true, if_false]
    cases poOf parents <;> cases (Node.multi d subs).isContainerTy <;> simp
  | .object e ps => by
    simp only [enumNode, objNode, List.filterMap_cons, objTest_node, Node.isContainerTy]
    have := filterMap_obj_enumProps (parents ++ [(k, (Node.object e ps).toJson)]) ps
    rw [poOf_snoc] at this
    have he : JVal.strEq ((Node.object e ps).toJson.getKey "type") "object" = e := by cases e <;> rfl
    rw [he] at this
    simp only [List.map_append, List.map_cons, List.map_nil] at this
    rw [this]
    cases poOf parents <;> cases e <;> simp
  | .nested ps => by
    simp only [enumNode, objNode, List.filterMap_cons, objTest_node, Node.isContainerTy]
    have := filterMap_obj_enumProps (parents ++ [(k, (Node.nested ps).toJson)]) ps
    rw [poOf_snoc] at this
    have he : JVal.strEq ((Node.nested ps).toJson.getKey "type") "object" = false := rfl
    rw [he] at this
    simp only [List.map_append, List.map_cons, List.map_nil] at this
    rw [this]
    simp
theorem filterMap_obj_enumProps (parents : Parents) : ∀ ps : Props,
    (enumProps false parents ps).filterMap objTest =
      (objProps (parents.map (·.1)) (poOf parents) ps).map joinDot
  | [] => by simp [enumProps, objProps]
  | (k, n) :: r => by
    simp only [enumProps, objProps, List.filterMap_append, List.map_append,
      filterMap_obj_enumNode parents k n, filterMap_obj_enumProps parents r]
end

/-- **`object_fields()` on the schema of a mapping** -/
theorem schemaObjectFields_toJson (m : Props) :
    schemaObjectFields (toJson m) = (objProps [] false m).map joinDot := by
  rw [schemaObjectFields_eq, schemaFields_toJson, filterMap_obj_enumProps]
  rfl

/-! ### which paths are object fields -/

/-- `p` is the path of a child `c` of an explicit object listed in `L`, the type of `c` being
neither `object` nor `nested` -/
def ObjHit (L : List (List Str × Field)) (p : List Str) : Prop :=
  ∃ q c ps' cn, p = q ++ [c] ∧ (q, Field.node (.object true ps')) ∈ L ∧ (c, cn) ∈ ps' ∧
    cn.isContainerTy = false

theorem ObjHit.nil (p : List Str) : ¬ ObjHit [] p := by
  rintro ⟨q, c, ps', cn, _, h, _⟩; cases h

theorem objHit_append (L1 L2 : List (List Str × Field)) (p : List Str) :
    ObjHit (L1 ++ L2) p ↔ ObjHit L1 p ∨ ObjHit L2 p := by
  constructor
  · rintro ⟨q, c, ps', cn, h1, h2, h3, h4⟩
    rcases List.mem_append.mp h2 with h2 | h2
    · exact .inl ⟨q, c, ps', cn, h1, h2, h3, h4⟩
    · exact .inr ⟨q, c, ps', cn, h1, h2, h3, h4⟩
  · rintro (⟨q, c, ps', cn, h1, h2, h3, h4⟩ | ⟨q, c, ps', cn, h1, h2, h3, h4⟩)
    · exact ⟨q, c, ps', cn, h1, List.mem_append.mpr (.inl h2), h3, h4⟩
    · exact ⟨q, c, ps', cn, h1, List.mem_append.mpr (.inr h2), h3, h4⟩

theorem objHit_cons (x : List Str × Field) (L : List (List Str × Field)) (p : List Str) :
    ObjHit (x :: L) p ↔ ObjHit [x] p ∨ ObjHit L p := objHit_append [x] L p

theorem objHit_single_object (q : List Str) (e : Bool) (ps : Props) (p : List Str) :
    ObjHit [(q, Field.node (.object e ps))] p ↔
      e = true ∧ ∃ c cn, (c, cn) ∈ ps ∧ cn.isContainerTy = false ∧ p = q ++ [c] := by
  constructor
  · rintro ⟨q', c, ps', cn, h1, h2, h3, h4⟩
    simp only [List.mem_singleton, Prod.mk.injEq, Field.node.injEq, Node.object.injEq] at h2
    obtain ⟨rfl, rfl, rfl⟩ := h2
    exact ⟨rfl, c, cn, h3, h4, h1⟩
  · rintro ⟨rfl, c, cn, h3, h4, h1⟩
    exact ⟨q, c, ps, cn, h1, by simp, h3, h4⟩

theorem objHit_single_other (q : List Str) (f : Field) (p : List Str)
    (h : ∀ ps, f ≠ Field.node (.object true ps)) : ¬ ObjHit [(q, f)] p := by
  rintro ⟨q', c, ps', cn, _, h2, _, _⟩
  simp only [List.mem_singleton, Prod.mk.injEq] at h2
  exact h ps' h2.2.symm

theorem objHit_subs (pfx : List Str) (d : LeafDef) (subs : List (Str × LeafDef)) (p : List Str) :
    ¬ ObjHit (subs.map fun s => (pfx ++ [s.1], Field.sub d s.2)) p := by
  rintro ⟨q', c, ps', cn, _, h2, _, _⟩
  rw [List.mem_map] at h2
  obtain ⟨s, _, hs⟩ := h2
  simp at hs

mutual
theorem mem_objNode (pfx : List Str) (po : Bool) (k : Str) (p : List Str) : ∀ n : Node,
    p ∈ objNode pfx po k n ↔
      (po = true ∧ n.isContainerTy = false ∧ p = pfx ++ [k]) ∨ ObjHit (fieldsNode pfx k n) p
  | .leaf d => by
    simp only [objNode, fieldsNode]
    have hh := objHit_single_other (pfx ++ [k]) (Field.node (.leaf d)) p (by simp)
    cases po <;> cases h : (Node.leaf d).isContainerTy <;> simp [hh]
  | .multi d subs => by
    simp only [objNode, fieldsNode]
    rw [objHit_cons]
    have hh := objHit_single_other (pfx ++ [k]) (Field.node (.multi d subs)) p (by simp)
    have hs : ¬ ObjHit (subs.map fun s => (pfx ++ [k, s.1], Field.sub d s.2)) p := by
      have := objHit_subs (pfx ++ [k]) d subs p
      simpa using this
    cases po <;> cases h : (Node.multi d subs).isContainerTy <;> simp [hh, hs]
  | .object e ps => by
    simp only [objNode, fieldsNode, List.mem_append]
    rw [objHit_cons, objHit_single_object, mem_objProps (pfx ++ [k]) e p ps]
    cases po <;> cases e <;> simp [Node.isContainerTy]
  | .nested ps => by
    simp only [objNode, fieldsNode]
    rw [objHit_cons, mem_objProps (pfx ++ [k]) false p ps]
    have hh := objHit_single_other (pfx ++ [k]) (Field.node (.nested ps)) p (by simp)
    simp [Node.isContainerTy, hh]
theorem mem_objProps (pfx : List Str) (po : Bool) (p : List Str) : ∀ ps : Props,
    p ∈ objProps pfx po ps ↔
      (po = true ∧ ∃ c cn, (c, cn) ∈ ps ∧ cn.isContainerTy = false ∧ p = pfx ++ [c]) ∨
        ObjHit (fieldsProps pfx ps) p
  | [] => by simp [objProps, fieldsProps, ObjHit.nil]
  | (k, n) :: r => by
    simp only [objProps, fieldsProps, List.mem_append, objHit_append, mem_objNode pfx po k p n,
      mem_objProps pfx po p r, List.mem_cons, Prod.mk.injEq]
    constructor
    · rintro ((⟨h0, h1, h2⟩ | h) | (⟨h0, c, cn, h1, h2, h3⟩ | h))
      · exact .inl ⟨h0, k, n, .inl ⟨rfl, rfl⟩, h1, h2⟩
      · exact .inr (.inl h)
      · exact .inl ⟨h0, c, cn, .inr h1, h2, h3⟩
      · exact .inr (.inr h)
    · rintro (⟨h0, c, cn, (⟨rfl, rfl⟩ | h1), h2, h3⟩ | (h | h))
      · exact .inl (.inl ⟨h0, h2, h3⟩)
      · exact .inr (.inl ⟨h0, c, cn, h1, h2, h3⟩)
      · exact .inl (.inr h)
      · exact .inr (.inr h)
end

/-- **the object prefixes of the schema of a well-formed mapping**: the dotted paths of the
explicit objects having a direct child whose type is neither `object` nor `nested` -/
theorem mem_objectPrefixes {m : Props} (h : Props.wf m = true) {q : List Str} (hq : q ≠ [])
    (dq : DotFree q) :
    joinDot q ∈ (schemaCfg (toJson m)).objectPrefixes ↔
      ∃ ps', (q, Field.node (.object true ps')) ∈ allFields m ∧
        ∃ c ∈ ps', c.2.isContainerTy = false := by
  have hnorm : (schemaCfg (toJson m)).objectNorm = some (dedup ((objProps [] false m).map joinDot)) := by
    show normalizeObject (.list (schemaObjectFields (toJson m))) = _
    rw [schemaObjectFields_toJson]; rfl
  unfold EsCfg.objectPrefixes
  rw [hnorm, Option.getD_some, mem_dedup, List.mem_map]
  have key : ∀ p, p ∈ objProps [] false m ↔ ObjHit (allFields m) p := by
    intro p
    rw [mem_objProps [] false p m]
    simp [allFields]
  constructor
  · rintro ⟨x, hx, hx'⟩
    rw [mem_dedup, List.mem_map] at hx
    obtain ⟨p, hp, rfl⟩ := hx
    obtain ⟨q', c, ps', cn, rfl, h2, h3, h4⟩ := (key p).mp hp
    obtain ⟨hq', dq'⟩ := allFields_path h h2
    have hc : '.' ∉ c := Props.wf_mem (by
      have := fieldsProps_wf [] m h q' _ h2
      simpa [Node.wf] using this) h3
    rw [rsplitHead_joinDot hq' (dq'.append (DotFree.single hc))] at hx'
    have := joinDot_inj hq' hq dq' dq hx'
    subst this
    exact ⟨ps', h2, (c, cn), h3, h4⟩
  · rintro ⟨ps', h2, ⟨c, cn⟩, h3, h4⟩
    have hc : '.' ∉ c := Props.wf_mem (by
      have := fieldsProps_wf [] m h q _ h2
      simpa [Node.wf] using this) h3
    refine ⟨joinDot (q ++ [c]), ?_, rsplitHead_joinDot hq (dq.append (DotFree.single hc))⟩
    rw [mem_dedup, List.mem_map]
    exact ⟨q ++ [c], (key _).mpr ⟨q, c, ps', cn, rfl, h2, h3, h4⟩, rfl⟩

end Luqum.Lemmas.EsSchema
