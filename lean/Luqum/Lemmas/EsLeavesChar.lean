/-
  Luqum.Lemmas.EsLeavesChar — what the expected items are, read off the query alone (lemmas of C06):
  their number (`countTerms`), their field paths (`expFields`), their names (`expNames`); the E-tree
  of a query without Lucene-boolean operation contains no `EBoolOperation`; a visit without parent
  returns at most one E-node.
-/
import Luqum.Lemmas.EsLeavesSpec

namespace Luqum.Lemmas.Es
open Luqum

/-! ### the modifiers change neither the field path nor the name nor the kind -/

theorem act_fields (m : Mod) (i : EItem) : (m.act i).fields = i.fields := by
  cases m <;> simp only [Mod.act]
  split <;> rfl

theorem act_name (m : Mod) (i : EItem) : (m.act i).name = i.name := by
  cases m <;> simp only [Mod.act]
  split <;> rfl

theorem actAll_fields : ∀ (ms : List Mod) (i : EItem), (actAll ms i).fields = i.fields
  | [], _ => rfl
  | m :: ms, i => by simp only [actAll, actAll_fields ms, act_fields]

theorem actAll_name : ∀ (ms : List Mod) (i : EItem), (actAll ms i).name = i.name
  | [], _ => rfl
  | m :: ms, i => by simp only [actAll, actAll_name ms, act_name]

theorem phraseItem_fields (c : EsCfg) (x : EsCtx) (v : Str) (nm : Option Str) :
    (phraseItem c x v nm).fields = c.fields x := by
  unfold phraseItem; split <;> rfl

theorem phraseItem_name (c : EsCfg) (x : EsCtx) (v : Str) (nm : Option Str) :
    (phraseItem c x v nm).name = nm := by
  unfold phraseItem; split <;> rfl

/-! ### the number of clauses -/

mutual
/-- the number of words and phrases outside ranges, plus the number of ranges -/
def countTerms : Tree → Nat
  | .term .word _ _ => 1
  | .term .phrase _ _ => 1
  | .term .regex _ _ => 0
  | .none _ => 0
  | .range .. => 1
  | .field _ e _ => countTerms e
  | .group _ e _ => countTerms e
  | .orange _ e _ _ => countTerms e
  | .boost e _ _ => countTerms e
  | .approx _ e _ _ => countTerms e
  | .unary _ e _ => countTerms e
  | .op _ xs _ => countTermsL xs
def countTermsL : List Tree → Nat
  | [] => 0
  | t :: r => countTerms t + countTermsL r
end

mutual
theorem expItems_length (c : EsCfg) : ∀ (t : Tree) (x : EsCtx) (u : Up) (ms : List Mod),
    (expItems c x u ms t).length = countTerms t
  | .term .word v l, x, u, ms => by simp only [expItems, countTerms, List.length_singleton]
  | .term .phrase v l, x, u, ms => by simp only [expItems, countTerms, List.length_singleton]
  | .term .regex v l, x, u, ms => by simp only [expItems, countTerms, List.length_nil]
  | .none _, x, u, ms => by simp only [expItems, countTerms, List.length_nil]
  | .range lo hi il ih l, x, u, ms => by simp only [expItems, countTerms, List.length_singleton]
  | .field n e l, x, u, ms => by simp only [expItems, countTerms, expItems_length c e]
  | .group k e l, x, u, ms => by simp only [expItems, countTerms, expItems_length c e]
  | .orange k e i l, x, u, ms => by simp only [expItems, countTerms, expItems_length c e]
  | .boost e n l, x, u, ms => by simp only [expItems, countTerms, expItems_length c e]
  | .approx .fuzzy e n l, x, u, ms => by simp only [expItems, countTerms, expItems_length c e]
  | .approx .proximity e n l, x, u, ms => by simp only [expItems, countTerms, expItems_length c e]
  | .unary k e l, x, u, ms => by
      simp only [expItems, countTerms]; split <;> exact expItems_length c e _ _ _
  | .op k xs l, x, u, ms => by
      simp only [expItems, countTerms]; split <;> exact expItemsL_length c xs _ _ _
theorem expItemsL_length (c : EsCfg) : ∀ (xs : List Tree) (x : EsCtx) (u : Up) (ms : List Mod),
    (expItemsL c x u ms xs).length = countTermsL xs
  | [], x, u, ms => by simp only [expItemsL, countTermsL, List.length_nil]
  | t :: r, x, u, ms => by
      simp only [expItemsL, countTermsL, List.length_append, expItems_length c t, expItemsL_length c r]
end

/-! ### the field paths -/

/-- the field path of a term: the accumulated one, or the default field -/
def pathOr (c : EsCfg) (pfx : Option (List Str)) : List Str := pfx.getD [c.defaultField]

mutual
/-- for each word / phrase / range in document order, the path made of the '.'-separated components
of the names of the enclosing `SearchField`s, outermost first; the default field if there is none -/
def expFields (c : EsCfg) (pfx : Option (List Str)) : Tree → List (List Str)
  | .term .word _ _ => [pathOr c pfx]
  | .term .phrase _ _ => [pathOr c pfx]
  | .term .regex _ _ => []
  | .none _ => []
  | .range .. => [pathOr c pfx]
  | .field n e _ => expFields c (some (pfx.getD [] ++ splitOnChar '.' n)) e
  | .group _ e _ => expFields c pfx e
  | .orange _ e _ _ => expFields c pfx e
  | .boost e _ _ => expFields c pfx e
  | .approx _ e _ _ => expFields c pfx e
  | .unary _ e _ => expFields c pfx e
  | .op _ xs _ => expFieldsL c pfx xs
def expFieldsL (c : EsCfg) (pfx : Option (List Str)) : List Tree → List (List Str)
  | [] => []
  | t :: r => expFields c pfx t ++ expFieldsL c pfx r
end

theorem pushName_fieldPrefix (l : Lay) (x : EsCtx) : (pushName l x).fieldPrefix = x.fieldPrefix := by
  unfold pushName; split
  · split <;> rfl
  · rfl

theorem fieldCtxL_fieldPrefix (c : EsCfg) (x : EsCtx) (n : Str) (l : Lay) :
    (fieldCtxL c x n l).fieldPrefix = some (x.fieldPrefix.getD [] ++ splitOnChar '.' n) := by
  unfold fieldCtxL; simp only [pushName_fieldPrefix]

mutual
theorem expItems_fields (c : EsCfg) : ∀ (t : Tree) (x : EsCtx) (u : Up) (ms : List Mod),
    (expItems c x u ms t).map (·.fields) = expFields c x.fieldPrefix t
  | .term .word v l, x, u, ms => by
      simp only [expItems, expFields, List.map_cons, List.map_nil, actAll_fields]; rfl
  | .term .phrase v l, x, u, ms => by
      simp only [expItems, expFields, List.map_cons, List.map_nil, actAll_fields, phraseItem_fields]; rfl
  | .term .regex v l, x, u, ms => by simp only [expItems, expFields, List.map_nil]
  | .none _, x, u, ms => by simp only [expItems, expFields, List.map_nil]
  | .range lo hi il ih l, x, u, ms => by
      simp only [expItems, expFields, List.map_cons, List.map_nil, actAll_fields]; rfl
  | .field n e l, x, u, ms => by
      simp only [expItems, expFields, expItems_fields c e, fieldCtxL_fieldPrefix]
  | .group k e l, x, u, ms => by
      simp only [expItems, expFields, expItems_fields c e, pushName_fieldPrefix]
  | .orange k e i l, x, u, ms => by
      simp only [expItems, expFields, expItems_fields c e, pushName_fieldPrefix]
  | .boost e n l, x, u, ms => by
      simp only [expItems, expFields, expItems_fields c e, pushName_fieldPrefix]
  | .approx .fuzzy e n l, x, u, ms => by
      simp only [expItems, expFields, expItems_fields c e, pushName_fieldPrefix]
  | .approx .proximity e n l, x, u, ms => by
      simp only [expItems, expFields, expItems_fields c e, pushName_fieldPrefix]
  | .unary k e l, x, u, ms => by
      simp only [expItems, expFields]
      split <;> simp only [expItems_fields c e, pushName_fieldPrefix]
  | .op k xs l, x, u, ms => by
      simp only [expItems, expFields]
      split <;> simp only [expItemsL_fields c xs, pushName_fieldPrefix]
theorem expItemsL_fields (c : EsCfg) : ∀ (xs : List Tree) (x : EsCtx) (u : Up) (ms : List Mod),
    (expItemsL c x u ms xs).map (·.fields) = expFieldsL c x.fieldPrefix xs
  | [], x, u, ms => by simp only [expItemsL, expFieldsL, List.map_nil]
  | t :: r, x, u, ms => by
      simp only [expItemsL, expFieldsL, List.map_append, expItems_fields c t, expItemsL_fields c r]
end

/-! ### the names -/

/-- the nearest name below a node with layout `l`: its own name if it has a non-empty one -/
def pushNm (l : Lay) (nm : Option Str) : Option Str :=
  match l.name with
  | some n => if n.isEmpty then nm else some n
  | none => nm

/-- the name of a term with layout `l`: its own (even an empty one), else the nearest one -/
def ownNm (l : Lay) (nm : Option Str) : Option Str :=
  match l.name with
  | some n => some n
  | none => nm

mutual
/-- for each word / phrase / range in document order its `_name`: its own name, else the non-empty
name of the nearest enclosing node — where an operation that is flattened into the operation of the
same kind it is an operand of (and a `+` directly below a `+`) does not count: its name is lost -/
def expNames (nm : Option Str) (u : Up) : Tree → List (Option Str)
  | .term .word _ l => [ownNm l nm]
  | .term .phrase _ l => [ownNm l nm]
  | .term .regex _ _ => []
  | .none _ => []
  | .range _ _ _ _ l => [ownNm l nm]
  | .field _ e l => expNames (pushNm l nm) .top e
  | .group _ e l => expNames (pushNm l nm) .top e
  | .orange _ e _ l => expNames (pushNm l nm) .top e
  | .boost e _ l => expNames (pushNm l nm) .top e
  | .approx _ e _ l => expNames (pushNm l nm) .top e
  | .unary k e l => if flatUn u k then expNames nm u e else expNames (pushNm l nm) (unUp k) e
  | .op k xs l => if flatOp u k then expNamesL nm u xs else expNamesL (pushNm l nm) (.op k) xs
def expNamesL (nm : Option Str) (u : Up) : List Tree → List (Option Str)
  | [] => []
  | t :: r => expNames nm u t ++ expNamesL nm u r
end

theorem pushName_name (l : Lay) (x : EsCtx) : (pushName l x).name = pushNm l x.name := by
  unfold pushName pushNm
  cases l.name with
  | none => rfl
  | some n => dsimp only; split <;> rfl

theorem fieldCtxL_name (c : EsCfg) (x : EsCtx) (n : Str) (l : Lay) :
    (fieldCtxL c x n l).name = pushNm l x.name := by
  unfold fieldCtxL; simp only [pushName_name]

theorem ownName_eq (l : Lay) (x : EsCtx) : ownName l x = ownNm l x.name := rfl

mutual
theorem expItems_names (c : EsCfg) : ∀ (t : Tree) (x : EsCtx) (u : Up) (ms : List Mod),
    (expItems c x u ms t).map (·.name) = expNames x.name u t
  | .term .word v l, x, u, ms => by
      simp only [expItems, expNames, List.map_cons, List.map_nil, actAll_name]; rfl
  | .term .phrase v l, x, u, ms => by
      simp only [expItems, expNames, List.map_cons, List.map_nil, actAll_name, phraseItem_name]; rfl
  | .term .regex v l, x, u, ms => by simp only [expItems, expNames, List.map_nil]
  | .none _, x, u, ms => by simp only [expItems, expNames, List.map_nil]
  | .range lo hi il ih l, x, u, ms => by
      simp only [expItems, expNames, List.map_cons, List.map_nil, actAll_name]; rfl
  | .field n e l, x, u, ms => by
      simp only [expItems, expNames, expItems_names c e, fieldCtxL_name]
  | .group k e l, x, u, ms => by
      simp only [expItems, expNames, expItems_names c e, pushName_name]
  | .orange k e i l, x, u, ms => by
      simp only [expItems, expNames, expItems_names c e, pushName_name]
  | .boost e n l, x, u, ms => by
      simp only [expItems, expNames, expItems_names c e, pushName_name]
  | .approx .fuzzy e n l, x, u, ms => by
      simp only [expItems, expNames, expItems_names c e, pushName_name]
  | .approx .proximity e n l, x, u, ms => by
      simp only [expItems, expNames, expItems_names c e, pushName_name]
  | .unary k e l, x, u, ms => by
      simp only [expItems, expNames]
      split <;> simp only [expItems_names c e, pushName_name]
  | .op k xs l, x, u, ms => by
      simp only [expItems, expNames]
      split <;> simp only [expItemsL_names c xs, pushName_name]
theorem expItemsL_names (c : EsCfg) : ∀ (xs : List Tree) (x : EsCtx) (u : Up) (ms : List Mod),
    (expItemsL c x u ms xs).map (·.name) = expNamesL x.name u xs
  | [], x, u, ms => by simp only [expItemsL, expNamesL, List.map_nil]
  | t :: r, x, u, ms => by
      simp only [expItemsL, expNamesL, List.map_append, expItems_names c t, expItemsL_names c r]
end

/-! ### a visit without parent returns at most one E-node -/

theorem map_one_length {f : ETree → List ETree} (hf : ∀ en, (f en).length ≤ 1)
    {r : Except EsErr ETree} {es : List ETree} (h : r.map f = .ok es) : es.length ≤ 1 := by
  obtain ⟨en, _, rfl⟩ := map_ok h; exact hf en

theorem visitS_none_length (c : EsCfg) : ∀ (t : Tree) (x : EsCtx) (es : List ETree),
    visitS c x none t = .ok es → es.length ≤ 1
  | .term .word v l, x, es, h => by simp only [visitS] at h; cases h; exact Nat.le_refl _
  | .term .phrase v l, x, es, h => by
      simp only [visitS] at h; split at h <;> cases h <;> exact Nat.le_refl _
  | .term .regex v l, x, es, h => by simp only [visitS] at h; cases h; exact Nat.zero_le _
  | .none _, x, es, h => by simp only [visitS] at h; cases h; exact Nat.zero_le _
  | .range lo hi il ih l, x, es, h => by
      simp only [visitS] at h
      split at h
      · cases h; exact Nat.le_refl _
      · cases h
  | .field n e l, x, es, h => by
      simp only [visitS] at h
      exact map_one_length (fun en => Nat.le_of_eq (fieldWrap_length c x n e l en)) h
  | .group k e l, x, es, h => by simp only [visitS] at h; exact visitS_none_length c e _ es h
  | .orange k e i l, x, es, h => by simp only [visitS] at h; exact visitS_none_length c e _ es h
  | .boost e n l, x, es, h => by
      simp only [visitS] at h; exact map_one_length (fun _ => Nat.le_refl _) h
  | .approx .fuzzy e n l, x, es, h => by
      simp only [visitS] at h; exact map_one_length (fun _ => Nat.le_refl _) h
  | .approx .proximity e n l, x, es, h => by
      simp only [visitS] at h; exact map_one_length (fun _ => Nat.le_refl _) h
  | .unary k e l, x, es, h => by
      simp only [visitS, parSame, Bool.false_eq_true, if_false] at h
      obtain ⟨items, _, rfl⟩ := map_ok h; exact Nat.le_refl _
  | .op k xs l, x, es, h => by
      simp only [visitS] at h
      obtain ⟨items, _, rfl⟩ := map_ok h; exact Nat.le_refl _

/-! ### no Lucene-boolean operation, no `EBoolOperation` -/

mutual
/-- the query contains no Lucene-boolean operation (`a +b -c` parsed as a `BoolOperation`); the
bounds of ranges are not inspected -/
def noBool : Tree → Bool
  | .term .. => true
  | .none _ => true
  | .range .. => true
  | .field _ e _ => noBool e
  | .group _ e _ => noBool e
  | .orange _ e _ _ => noBool e
  | .boost e _ _ => noBool e
  | .approx _ e _ _ => noBool e
  | .unary _ e _ => noBool e
  | .op k xs _ => k != .bool && noBoolL xs
def noBoolL : List Tree → Bool
  | [] => true
  | t :: r => noBool t && noBoolL r
end

theorem noBoolOp_actE (ms : List Mod) (e : ETree) (h : noBoolOp e = true) : noBoolOp (actE ms e) = true := by
  cases e with
  | item i => rfl
  | _ => exact h

theorem noBoolOpL_actL (ms : List Mod) : ∀ (es : List ETree), noBoolOpL es = true →
    noBoolOpL (actL ms es) = true
  | [], _ => rfl
  | e :: r, h => by
      simp only [noBoolOpL, Bool.and_eq_true] at h
      simp only [actL, noBoolOpL, Bool.and_eq_true]
      exact ⟨noBoolOp_actE ms e h.1, noBoolOpL_actL ms r h.2⟩

theorem noBoolOp_buildOp (k : EOpK) (items : List ETree) (hk : k ≠ .boolOp) (h : noBoolOpL items = true) :
    noBoolOp (buildOp k items) = true := by
  cases k with
  | boolOp => exact absurd rfl hk
  | must => simp only [buildOp, noBoolOp, setZeroTerms_eq, Bool.and_eq_true]; exact ⟨rfl, noBoolOpL_actL _ _ h⟩
  | mustNot => simp only [buildOp, noBoolOp, setZeroTerms_eq, Bool.and_eq_true]; exact ⟨rfl, noBoolOpL_actL _ _ h⟩
  | should => simp only [buildOp, noBoolOp, Bool.and_eq_true]; exact ⟨rfl, h⟩

mutual
theorem noBoolOp_excludeNested (path : Str) : ∀ (e : ETree), noBoolOp e = true →
    noBoolOp (excludeNested path e) = true
  | .item i, h => h
  | .op k items, h => by
      simp only [noBoolOp, Bool.and_eq_true] at h
      simp only [excludeNested, noBoolOp, Bool.and_eq_true]
      exact ⟨h.1, noBoolOpL_excludeNested path items h.2⟩
  | .nested p inner nm, h => by
      simp only [excludeNested]; split
      · exact noBoolOp_excludeNested path inner h
      · exact h
theorem noBoolOpL_excludeNested (path : Str) : ∀ (es : List ETree), noBoolOpL es = true →
    noBoolOpL (excludeNestedList path es) = true
  | [], _ => rfl
  | x :: r, h => by
      simp only [noBoolOpL, Bool.and_eq_true] at h
      simp only [excludeNestedList, noBoolOpL, Bool.and_eq_true]
      exact ⟨noBoolOp_excludeNested path x h.1, noBoolOpL_excludeNested path r h.2⟩
end

theorem noBoolOpL_fieldWrap (c : EsCfg) (x : EsCtx) (n : Str) (e : Tree) (l : Lay) (en : ETree)
    (h : noBoolOp en = true) : noBoolOpL (fieldWrap c x n e l en) = true := by
  unfold fieldWrap; dsimp only
  split
  · simpa [noBoolOpL] using h
  · simp only [noBoolOpL, noBoolOp, Bool.and_true]; exact noBoolOp_excludeNested _ _ h
  · simpa [noBoolOpL] using h

theorem unEK_ne (k : UnK) : unEK k ≠ .boolOp := by cases k <;> simp [unEK]
theorem opEK_ne (c : EsCfg) (k : OpK) (h : (k != .bool) = true) : opEK c k ≠ .boolOp := by
  cases k <;> simp [opEK] at h ⊢
  split <;> simp

section NoBool
variable (c : EsCfg)

theorem noBoolOp_one {en : ETree} (h : noBoolOpL [en] = true) : noBoolOp en = true := by
  simpa [noBoolOpL] using h

mutual
theorem visitS_noBoolOp : ∀ (t : Tree) (x : EsCtx) (par : Option Tree) (es : List ETree),
    noBool t = true → visitS c x par t = .ok es → noBoolOpL es = true
  | .term .word v l, x, par, es, _, h => by simp only [visitS] at h; cases h; rfl
  | .term .phrase v l, x, par, es, _, h => by simp only [visitS] at h; split at h <;> cases h <;> rfl
  | .term .regex v l, x, par, es, _, h => by simp only [visitS] at h; cases h; rfl
  | .none _, x, par, es, _, h => by simp only [visitS] at h; cases h; rfl
  | .range lo hi il ih l, x, par, es, _, h => by
      simp only [visitS] at h
      split at h
      · cases h; rfl
      · cases h
  | .field n e l, x, par, es, hb, h => by
      simp only [visitS] at h
      simp only [noBool] at hb
      obtain ⟨en, h1, rfl⟩ := map_ok h
      exact noBoolOpL_fieldWrap c x n e l en (noBoolOp_one (visitS_noBoolOp e _ none _ hb (exactlyOne_ok h1)))
  | .group k e l, x, par, es, hb, h => by
      simp only [visitS] at h; simp only [noBool] at hb; exact visitS_noBoolOp e _ none es hb h
  | .orange k e i l, x, par, es, hb, h => by
      simp only [visitS] at h; simp only [noBool] at hb; exact visitS_noBoolOp e _ none es hb h
  | .boost e n l, x, par, es, hb, h => by
      simp only [visitS] at h
      simp only [noBool] at hb
      obtain ⟨en, h1, rfl⟩ := map_ok h
      have := noBoolOp_one (visitS_noBoolOp e _ none _ hb (exactlyOne_ok h1))
      simp only [noBoolOpL, Bool.and_true, setBoost_eq]
      exact noBoolOp_actE _ _ this
  | .approx .fuzzy e n l, x, par, es, hb, h => by
      simp only [visitS] at h
      simp only [noBool] at hb
      obtain ⟨en, h1, rfl⟩ := map_ok h
      have := noBoolOp_one (visitS_noBoolOp e _ none _ hb (exactlyOne_ok h1))
      simp only [noBoolOpL, Bool.and_true, setFuzzy_eq]
      exact noBoolOp_actE _ _ this
  | .approx .proximity e n l, x, par, es, hb, h => by
      simp only [visitS] at h
      simp only [noBool] at hb
      obtain ⟨en, h1, rfl⟩ := map_ok h
      have := noBoolOp_one (visitS_noBoolOp e _ none _ hb (exactlyOne_ok h1))
      simp only [noBoolOpL, Bool.and_true]
      split <;> simp only [setSlop_eq, setFuzzy_eq] <;> exact noBoolOp_actE _ _ this
  | .unary k e l, x, par, es, hb, h => by
      simp only [visitS] at h
      simp only [noBool] at hb
      split at h
      · exact visitS_noBoolOp e x par es hb h
      · obtain ⟨items, h1, rfl⟩ := map_ok h
        simp only [noBoolOpL, Bool.and_true]
        exact noBoolOp_buildOp _ _ (unEK_ne k) (visitS_noBoolOp e _ _ _ hb h1)
  | .op k xs l, x, par, es, hb, h => by
      simp only [visitS] at h
      simp only [noBool, Bool.and_eq_true] at hb
      have hfin : ∀ x', (visitsS c x' (.op k xs l) xs).map (fun items => [buildOp (opEK c k) items]) = .ok es →
          noBoolOpL es = true := by
        intro x' h
        obtain ⟨items, h1, rfl⟩ := map_ok h
        simp only [noBoolOpL, Bool.and_true]
        exact noBoolOp_buildOp _ _ (opEK_ne c k hb.1) (visitsS_noBoolOp xs _ _ _ hb.2 h1)
      split at h
      · split at h
        · exact visitsS_noBoolOp xs _ _ _ hb.2 h
        · split at h
          · unfold mixError at h; split at h <;> cases h
          · exact hfin _ h
      · exact hfin _ h
theorem visitsS_noBoolOp : ∀ (xs : List Tree) (x : EsCtx) (parent : Tree) (es : List ETree),
    noBoolL xs = true → visitsS c x parent xs = .ok es → noBoolOpL es = true
  | [], x, parent, es, _, h => by simp only [visitsS] at h; cases h; rfl
  | t :: r, x, parent, es, hb, h => by
      simp only [visitsS] at h
      simp only [noBoolL, Bool.and_eq_true] at hb
      split at h
      · cases h
      · rename_i items h1
        split at h
        · cases h
        · rename_i rest h2
          cases h
          rw [noBoolOpL_append, visitS_noBoolOp t _ _ _ hb.1 h1, visitsS_noBoolOp r _ _ _ hb.2 h2]; rfl
end

end NoBool

/-! ### the `default_field` of a `query_string` clause -/

theorem jget_cons (e : Str × JVal) (r : JObj) (k : Str) :
    jget (e :: r) k = if e.1 = k then some e.2 else jget r k := by
  simp only [jget, List.find?_cons]
  by_cases h : e.1 = k
  · simp [h]
  · have hb : (e.1 == k) = false := beq_eq_false_iff_ne.2 h
    simp [h, hb]

theorem jget_map_set (k k' : Str) (v : JVal) : ∀ (o : JObj),
    jget (o.map (fun e => if e.1 == k then (k, v) else e)) k' =
      if k = k' then (if o.any (fun e => e.1 == k) then some v else none) else jget o k'
  | [] => by simp [jget]
  | e :: r => by
      rw [List.map_cons, jget_cons, jget_cons, jget_map_set k k' v r, List.any_cons]
      by_cases h1 : e.1 = k <;> by_cases h2 : k = k'
      · subst h1; subst h2; simp
      · subst h1; simp [h2]
      · subst h2
        have hb : (e.1 == k) = false := beq_eq_false_iff_ne.2 h1
        simp only [hb, Bool.false_or, Bool.false_eq_true, if_false, h1, if_true]
      · simp [h1, h2]

theorem jget_none_of_any (k : Str) : ∀ (o : JObj), o.any (fun e => e.1 == k) = false → jget o k = none
  | [], _ => rfl
  | e :: r, h => by
      simp only [List.any_cons, Bool.or_eq_false_iff, beq_eq_false_iff_ne, ne_eq] at h
      rw [jget_cons, if_neg h.1, jget_none_of_any k r h.2]

theorem jget_append (o o' : JObj) (k : Str) : jget (o ++ o') k = (jget o k).or (jget o' k) := by
  simp only [jget, List.find?_append]
  cases List.find? (fun e => e.1 == k) o <;> rfl

theorem jget_jset (o : JObj) (k k' : Str) (v : JVal) :
    jget (jset o k v) k' = if k = k' then some v else jget o k' := by
  unfold jset
  split
  · rename_i hany
    rw [jget_map_set, hany]; rfl
  · rename_i hany
    rw [jget_append, jget_cons]
    by_cases h : k = k'
    · subst h
      rw [jget_none_of_any k o (Bool.eq_false_iff.2 hany)]; simp
    · simp only [h, if_false]
      cases jget o k' <;> rfl

/-- a `query_string` clause (a word with a wildcard on an analysed field) names its field as `default_field` -/
theorem json_default_field (c : EsCfg) (i : EItem) (q : Str)
    (hm : i.method c = "query_string".toList) (hk : i.kind ≠ .range) (hq : i.q = some q)
    (hne : ¬ (i.kind == .word && i.q == some ['*']) = true) :
    ∃ inner, i.json c = .obj [("query_string".toList, .obj inner)] ∧
      jget inner "default_field".toList = some (.str (joinDot i.fields)) := by
  unfold EItem.json
  extract_lets field nameKv opts mt inner0 inner1 method inner2 inner3 inner4 inner5 inner6
  have hmeth : method = "query_string".toList := hm
  rw [if_neg hne, hmeth, if_pos (by decide)]
  refine ⟨inner6, rfl, ?_⟩
  have h5 : jget inner5 "default_field".toList = some (.str (joinDot i.fields)) := by
    show jget (match i.kind, i.q with
      | .range, _ => _
      | _, none => inner4
      | _, some q => _) _ = _
    rw [hq, hmeth]
    split
    · rename_i h; exact absurd h hk
    · rename_i h _; cases h
    · rw [if_neg (by decide), if_pos (by decide)]
      simp only [jget_jset]
      rfl
  show jget (match i.kind, i.slop with
    | .phrase, some s => jset inner5 "slop".toList (.num s)
    | _, _ => inner5) _ = _
  split
  · rw [jget_jset, if_neg (by decide)]; exact h5
  · exact h5

end Luqum.Lemmas.Es
