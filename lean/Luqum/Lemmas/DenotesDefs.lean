/-
  Luqum.Lemmas.DenotesDefs — the grammar of C03 as a READABLE declarative relation.

  `Denotes lv toks t` : "the token sequence `toks` (kinds and texts, as `tokKey` gives them), read as
  a phrase of precedence level `lv`, denotes the tree `t`".

  It is meant to be compared, rule by rule, with the prose of property C03 and with the docstrings of
  the `p_*` functions of `luqum/parser.py`:

    "juxtaposition (implicit operation) binds loosest, then OR, then AND, then the prefixes +, - and
     NOT, then field:, with the suffixes ^ and ~ binding tightest; chains of one operator flatten
     into a single n-ary node, parentheses give a group (a field group when they directly follow
     field:), and bracket/brace kind and <, <=, >, >= set range inclusiveness.  Reserved words are
     operators only as whole unescaped tokens [...]"

  Nothing here mentions LALR tables, conflicts or `%prec`: precedence is the stratification into
  levels.  That the parser (generated tables + semantic actions) computes exactly this relation is
  `Luqum.Props.C03d` (`denotes_iff`, `parse_denotes`, `denotes_parse`, `denotes_unique`).

  Conventions.
  * A token is a pair (kind, text) (`Token`).  The kind of a bare word is decided by the lexer from
    the WHOLE text of the token: `reservedKind w` is `AND_OP` / `OR_OP` / `NOT` / `TO` when `w` is
    exactly `AND` / `OR` / `NOT` / `TO`, and `TERM` otherwise — so `ANDx`, `and`, `\AND` are `TERM`s.
  * The layout `l : Lay` of every node (head, tail, pos, size, name) is arbitrary in every rule: trees
    are compared up to layout (`Tree.eqv`, the model of `Item.__eq__`, ignores it).
  * A number `n : Num` after `~` / `^` carries the ghost field `raw`, the spelling of the numeral in
    the source (`Num.source`; empty when there is no numeral); `==` ignores it.
-/
import Luqum.Lemmas.ComplDefs

namespace Luqum.Grammar
open Luqum Luqum.Compl

/-- a token as the grammar sees it: its kind and its text (`tokKey`) -/
abbrev Token := TokK × Str

/-! ### precedence levels -/

/-- the precedence levels of the documented grammar, from the tightest to the loosest:

* `atom`: a word, a phrase, a regex, a parenthesis, a range, `<x` / `>x` …
* `suffix`: … possibly followed by `~n` (words and phrases only) and by any number of `^n`
* `prefix`: … possibly preceded by any number of `+`, `-`, `NOT`, `name:` (right to left; these are
  all prefix operators on the same operand class, PLY's `unary_expression`, so they nest freely:
  `-f:a` is `Prohibit(SearchField)`, `f:-a` is `SearchField(Prohibit)`)
* `and`: a chain `x AND y AND …` of prefix-level phrases
* `or`: a chain `x OR y OR …` of and-level phrases
* `implicit`: a juxtaposition `x y …` of or-level phrases (PLY's `expression`) -/
inductive Level
  | atom | suffix | prefix | and | or | implicit
deriving DecidableEq, Repr

def Level.rank : Level → Nat
  | .atom => 0 | .suffix => 1 | .prefix => 2 | .and => 3 | .or => 4 | .implicit => 5

/-- `a ≤ b`: `a` binds at least as tightly as `b` -/
instance : LE Level := ⟨fun a b => a.rank ≤ b.rank⟩

instance (a b : Level) : Decidable (a ≤ b) := inferInstanceAs (Decidable (a.rank ≤ b.rank))

/-! ### numerals after `~` and `^` -/

/-- `DecNumeral dflt src n`: the numeral spelled `src` after a `~` (fuzzy) or a `^` denotes the
number `n`, the default being `dflt` (`Fuzzy(term, degree=None)` ↦ 0.5, `Boost(expr, force=None)`
↦ 1).  `src` is what the lexer rule `~[0-9.]*` / `\^[0-9.]*` matched after the mark. -/
inductive DecNumeral (dflt : Dec) : Str → Num → Prop
  /-- no numeral: the number is the default -/
  | absent {n : Num} :
      n.source = [] → dflt.numEq n.val = true →
      DecNumeral dflt [] n
  /-- a numeral: `Decimal(src)` must succeed (at most one dot, at least one digit), and the number is
  its value after `.normalize()` (rounded to 28 significant digits), up to numeric equality -/
  | given {src : Str} {d : Dec} {n : Num} :
      src ≠ [] → n.source = src → Dec.ofLiteral src = some d → d.normalize.numEq n.val = true →
      DecNumeral dflt src n

/-- `IntNumeral src n`: the numeral spelled `src` after the `~` of a phrase (proximity) denotes the
number `n`; the default is 1 (`Proximity(term, degree=None)`) -/
inductive IntNumeral : Str → Num → Prop
  /-- no numeral: the number is 1 -/
  | absent {n : Num} :
      n.source = [] → ({ coeff := 1 } : Dec).numEq n.val = true →
      IntNumeral [] n
  /-- a numeral: `int(src)` must succeed (digits only) -/
  | given {src : Str} {k : Nat} {n : Num} :
      src ≠ [] → n.source = src → intOfLiteral src = some k → ({ coeff := k } : Dec).numEq n.val = true →
      IntNumeral src n

/-! ### words and phrases where the grammar wants exactly one token -/

/-- PLY: `phrase_or_term : TERM | PHRASE` — one token that is a word (not a reserved one: the
terminal is `TERM`, so `TO` is excluded here) or a phrase -/
inductive WordOrPhrase : Token → Tree → Prop
  | word {w : Str} {l : Lay} :
      reservedKind w = .term →
      WordOrPhrase (.term, w) (.term .word w l)
  | phrase {p : Str} {l : Lay} :
      WordOrPhrase (.phrase, p) (.term .phrase p l)

/-- PLY: `phrase_or_possibly_negative_term : possibly_negative_term | PHRASE`,
`possibly_negative_term : MINUS phrase_or_term | phrase_or_term` — a bound of a range: a word or a
phrase, possibly preceded by one `-` -/
inductive Bound : List Token → Tree → Prop
  | plain {tk : Token} {e : Tree} :
      WordOrPhrase tk e →
      Bound [tk] e
  | negative {tk : Token} {e : Tree} {l : Lay} :
      WordOrPhrase tk e →
      Bound [(.minus, ['-']), tk] (.unary .prohibit e l)

/-- a parenthesis (`Group` or `FieldGroup`) -/
def isParen : Tree → Bool
  | .group .. => true
  | _ => false

/-! ### the grammar -/

/-- **the documented grammar of luqum**: `Denotes lv toks t` — the tokens `toks`, read as a phrase of
precedence level `lv`, denote the tree `t`.

In the n-ary rules the operands are given as a list `ops` of pairs (tokens of the operand, tree of
the operand); `joinL sep` writes the token lists one after the other with `sep` in between. -/
inductive Denotes : Level → List Token → Tree → Prop

  /-- a phrase of a tighter level is also a phrase of every looser level
  (PLY: `expression : unary_expression`) -/
  | looser {a b : Level} {toks : List Token} {t : Tree} :
      a ≤ b → Denotes a toks t →
      Denotes b toks t

  /- #### "juxtaposition (implicit operation) binds loosest" -/

  /-- `x₁ x₂ … xₙ` (n ≥ 2) ↦ `UnknownOperation(x₁, …, xₙ)`: ONE n-ary node ("chains of one operator
  flatten"), whose operands are or-level phrases — so an operand is never itself a bare
  juxtaposition, but it can be an OR chain, an AND chain or anything tighter
  (PLY: `expression : expression expression %prec IMPLICIT_OP`) -/
  | implicit (ops : List (List Token × Tree)) (l : Lay) :
      2 ≤ ops.length → (∀ p ∈ ops, Denotes .or p.1 p.2) →
      Denotes .implicit (joinL [] (ops.map (·.1))) (.op .unk (ops.map (·.2)) l)

  /- #### "then OR" -/

  /-- `x₁ OR x₂ OR … xₙ` (n ≥ 2) ↦ `OrOperation(x₁, …, xₙ)`: one n-ary node whose operands are
  and-level phrases — AND chains or tighter, never a bare OR chain or juxtaposition
  (PLY: `expression : expression OR_OP expression`) -/
  | or (ops : List (List Token × Tree)) (l : Lay) :
      2 ≤ ops.length → (∀ p ∈ ops, Denotes .and p.1 p.2) →
      Denotes .or (joinL [(.orOp, "OR".toList)] (ops.map (·.1))) (.op .or (ops.map (·.2)) l)

  /- #### "then AND" -/

  /-- `x₁ AND x₂ AND … xₙ` (n ≥ 2) ↦ `AndOperation(x₁, …, xₙ)`: one n-ary node whose operands are
  prefix-level phrases — never a bare operation of any kind
  (PLY: `expression : expression AND_OP expression`) -/
  | and (ops : List (List Token × Tree)) (l : Lay) :
      2 ≤ ops.length → (∀ p ∈ ops, Denotes .prefix p.1 p.2) →
      Denotes .and (joinL [(.andOp, "AND".toList)] (ops.map (·.1))) (.op .and (ops.map (·.2)) l)

  /- #### "then the prefixes +, - and NOT, then field:" — all of them apply to a prefix-level
  phrase, i.e. to everything on their right up to the next blank-separated operand or binary
  operator; they bind looser than the suffix `^`: `-a^2` is `Prohibit(Boost(a, 2))` -/

  /-- `+x` ↦ `Plus(x)` (PLY: `unary_expression : PLUS unary_expression`) -/
  | plus {toks : List Token} {e : Tree} {l : Lay} :
      Denotes .prefix toks e →
      Denotes .prefix ((.plus, ['+']) :: toks) (.unary .plus e l)

  /-- `-x` ↦ `Prohibit(x)` (PLY: `unary_expression : MINUS unary_expression`) -/
  | minus {toks : List Token} {e : Tree} {l : Lay} :
      Denotes .prefix toks e →
      Denotes .prefix ((.minus, ['-']) :: toks) (.unary .prohibit e l)

  /-- `NOT x` ↦ `Not(x)` (PLY: `unary_expression : NOT unary_expression`) -/
  | not {toks : List Token} {e : Tree} {l : Lay} :
      Denotes .prefix toks e →
      Denotes .prefix ((.not, "NOT".toList) :: toks) (.unary .not e l)

  /-- `name:x` ↦ `SearchField(name, x)`, when `x` is not a parenthesis; the name is a `TERM` token:
  a word that is not reserved (PLY: `unary_expression : TERM COLUMN unary_expression`) -/
  | field {name : Str} {toks : List Token} {e : Tree} {l : Lay} :
      reservedKind name = .term → Denotes .prefix toks e → isParen e = false →
      Denotes .prefix ((.term, name) :: (.column, [':']) :: toks) (.field name e l)

  /-- `name:(x)` ↦ `SearchField(name, FieldGroup(x))`: "parentheses give […] a field group when they
  directly follow field:" (`p_field_search`: `if isinstance(p[3], Group): group_to_fieldgroup`) -/
  | fieldGroup {name : Str} {toks : List Token} {e : Tree} {lg l : Lay} :
      reservedKind name = .term → Denotes .implicit toks e →
      Denotes .prefix
        ((.term, name) :: (.column, [':']) :: (.lparen, ['(']) :: toks ++ [(.rparen, [')'])])
        (.field name (.group .fieldGroup e lg) l)

  /- #### "with the suffixes ^ and ~ binding tightest" -/

  /-- `x^n` ↦ `Boost(x, n)`: applies to a suffix-level phrase (an atom, possibly with `~`, possibly
  already boosted), never to a prefix operation, a field or an operation without parentheses
  (PLY: `unary_expression : unary_expression BOOST`, with `('nonassoc', 'BOOST')` above the
  operators) -/
  | boost {toks : List Token} {e : Tree} {src : Str} {n : Num} {l : Lay} :
      Denotes .suffix toks e → DecNumeral boostDflt src n →
      Denotes .suffix (toks ++ [(.boost, '^' :: src)]) (.boost e n l)

  /-- `word~n` ↦ `Fuzzy(Word, n)`: `~` after a word (one `TERM` token, so not `TO`); default 0.5
  (PLY: `unary_expression : TERM APPROX`) -/
  | fuzzy {w src : Str} {n : Num} {lw l : Lay} :
      reservedKind w = .term → DecNumeral fuzzyDflt src n →
      Denotes .suffix [(.term, w), (.approx, '~' :: src)] (.approx .fuzzy (.term .word w lw) n l)

  /-- `"phrase"~n` ↦ `Proximity(Phrase, n)`: `~` after a phrase; default 1
  (PLY: `unary_expression : PHRASE APPROX`) -/
  | proximity {p src : Str} {n : Num} {lp l : Lay} :
      IntNumeral src n →
      Denotes .suffix [(.phrase, p), (.approx, '~' :: src)] (.approx .proximity (.term .phrase p lp) n l)

  /- #### atoms -/

  /-- a bare word: a token of kind `TERM`, i.e. whose whole text is not `AND`, `OR`, `NOT`, `TO`
  ("reserved words are operators only as whole unescaped tokens": `ANDx`, `and`, `\AND` are words)
  (PLY: `unary_expression : TERM`) -/
  | word {w : Str} {l : Lay} :
      reservedKind w = .term →
      Denotes .atom [(.term, w)] (.term .word w l)

  /-- `TO` outside a range is the word `TO` (PLY: `p_to_as_term`, `unary_expression : TO`) -/
  | toWord {l : Lay} :
      Denotes .atom [(.to, "TO".toList)] (.term .word "TO".toList l)

  /-- a quoted phrase, quotes included (PLY: `unary_expression : PHRASE`) -/
  | phrase {p : Str} {l : Lay} :
      Denotes .atom [(.phrase, p)] (.term .phrase p l)

  /-- a regular expression, slashes included (PLY: `unary_expression : REGEX`) -/
  | regex {r : Str} {l : Lay} :
      Denotes .atom [(.regex, r)] (.term .regex r l)

  /-- `(x)` ↦ `Group(x)`: "parentheses give a group"; inside, any phrase
  (PLY: `unary_expression : LPAREN expression RPAREN`) -/
  | group {toks : List Token} {e : Tree} {l : Lay} :
      Denotes .implicit toks e →
      Denotes .atom ((.lparen, ['(']) :: toks ++ [(.rparen, [')'])]) (.group .group e l)

  /-- `[lo TO hi]`, `{lo TO hi}`, `[lo TO hi}`, `{lo TO hi]` ↦ `Range(lo, hi, include_low,
  include_high)`: "bracket/brace kind […] set range inclusiveness" — `[` / `]` inclusive,
  `{` / `}` exclusive, each side on its own
  (PLY: `unary_expression : LBRACKET phrase_or_possibly_negative_term TO
  phrase_or_possibly_negative_term RBRACKET`) -/
  | range {tlo thi : List Token} {lo hi : Tree} {includeLow includeHigh : Bool} {l : Lay} :
      Bound tlo lo → Bound thi hi →
      Denotes .atom
        ((.lbracket, [if includeLow then '[' else '{']) :: tlo ++ (.to, "TO".toList) :: thi
          ++ [(.rbracket, [if includeHigh then ']' else '}'])])
        (.range lo hi includeLow includeHigh l)

  /-- `<x` ↦ `To(x, include=False)`, `<=x` ↦ `To(x, include=True)`: "<, <=, >, >= set range
  inclusiveness" (PLY: `unary_expression : LESSTHAN phrase_or_term`) -/
  | lessThan {tk : Token} {e : Tree} {inclusive : Bool} {l : Lay} :
      WordOrPhrase tk e →
      Denotes .atom [(.lessthan, if inclusive then ['<', '='] else ['<']), tk] (.orange .to e inclusive l)

  /-- `>x` ↦ `From(x, include=False)`, `>=x` ↦ `From(x, include=True)`
  (PLY: `unary_expression : GREATERTHAN phrase_or_term`) -/
  | greaterThan {tk : Token} {e : Tree} {inclusive : Bool} {l : Lay} :
      WordOrPhrase tk e →
      Denotes .atom [(.greaterthan, if inclusive then ['>', '='] else ['>']), tk] (.orange .from e inclusive l)

/-- a query: a phrase of the loosest level -/
abbrev DenotesQuery (toks : List Token) (t : Tree) : Prop := Denotes .implicit toks t

end Luqum.Grammar
