/-
  Luqum.Lemmas.EsSchemaTree — the closed form of `SchemaAnalyzer.nested_fields()` on the JSON of a
  well-formed mapping: a tree of keys (`treeB [] m`) defined by structural recursion on the mapping
  (`schemaNestedFields_tree`).

  A node of the mapping is *registered* (is a key of the result) when its direct parent is a nested
  node, or when it is a nested node with at least one child. A registered node hangs below its
  closest registered ancestor, under the dotted names of the nodes in between.
-/
import Luqum.Lemmas.EsSchemaNested

namespace Luqum.Lemmas.EsSchema
open Luqum

/-- a tree of keys, each key being a non-empty segment of a path -/
inductive KTree
  | mk (kids : List (List Str × KTree))
deriving Repr

abbrev Kids := List (List Str × KTree)

mutual
def KTree.toJson : KTree → JVal
  | .mk kids => .obj (kidsJson kids)
def kidsJson : Kids → JObj
  | [] => []
  | (seg, t) :: r => (joinDot seg, t.toJson) :: kidsJson r
end

theorem kidsJson_append (a b : Kids) : kidsJson (a ++ b) = kidsJson a ++ kidsJson b := by
  induction a with
  | nil => simp [kidsJson]
  | cons x r ih => obtain ⟨seg, t⟩ := x; simp [kidsJson, ih]

theorem mem_kidsJson {e : Str × JVal} {kids : Kids} (h : e ∈ kidsJson kids) :
    ∃ x ∈ kids, e.1 = joinDot x.1 := by
  induction kids with
  | nil => simp [kidsJson] at h
  | cons x r ih =>
    obtain ⟨seg, t⟩ := x
    simp only [kidsJson, List.mem_cons] at h
    rcases h with rfl | h
    · exact ⟨(seg, t), by simp, rfl⟩
    · obtain ⟨y, hy, e⟩ := ih h
      exact ⟨y, by simp [hy], e⟩

mutual
/-- the keys contributed to the closest registered ancestor (or to the root) by the node `n` named
`k`, whose direct parent is not a nested node; `cum`: the names from that ancestor to the parent -/
def treeBNode (cum : List Str) (k : Str) : Node → Kids
  | .leaf _ => []
  | .multi _ _ => []
  | .object _ ps => treeB (cum ++ [k]) ps
  | .nested ps => if ps.isEmpty then [] else [(cum ++ [k], .mk (treeA ps))]
def treeB (cum : List Str) : Props → Kids
  | [] => []
  | (k, n) :: r => treeBNode cum k n ++ treeB cum r
/-- the keys below a registered node -/
def treeSub : Node → Kids
  | .leaf _ => []
  | .multi _ _ => []
  | .object _ ps => treeB [] ps
  | .nested ps => treeA ps
/-- the keys of the children of a nested node: all of them are registered -/
def treeA : Props → Kids
  | [] => []
  | (k, n) :: r => ([k], .mk (treeSub n)) :: treeA r
end

/-! ### freshness of the keys -/

/-- every key of `t` is the dotted name of a path which is not an ancestor-or-self of `cum` and
does not go through a child `k ∈ ks` of `cum` -/
def Fresh (t : JObj) (cum : List Str) (ks : List Str) : Prop :=
  ∀ e ∈ t, ∃ kp, e.1 = joinDot kp ∧ kp ≠ [] ∧ DotFree kp ∧ ¬ kp <+: cum ∧
    ∀ k ∈ ks, ¬ (cum ++ [k]) <+: kp

theorem Fresh.nil (cum ks : List Str) : Fresh [] cum ks := by intro e he; cases he

theorem Fresh.jget_none {t : JObj} {cum ks q : List Str} (h : Fresh t cum ks) (hq : q ≠ [])
    (dq : DotFree q) (hc : q <+: cum ∨ ∃ k ∈ ks, (cum ++ [k]) <+: q) : jget t (joinDot q) = none := by
  rw [jget_eq_none]
  intro e he heq
  obtain ⟨kp, hk, hne, hd, h1, h2⟩ := h e he
  rw [hk] at heq
  have := joinDot_inj hne hq hd dq heq
  subst this
  rcases hc with hc | ⟨k, hk', hc⟩
  · exact h1 hc
  · exact h2 k hk' hc

theorem prefix_same_length {α : Type} {a b l : List α} (ha : a <+: l) (hb : b <+: l)
    (h : a.length = b.length) : a = b := by
  have := List.prefix_of_prefix_length_le ha hb (by omega)
  exact this.eq_of_length h

theorem snoc_prefix_inj {cum kp : List Str} {k k' : Str} (h : (cum ++ [k]) <+: kp)
    (h' : (cum ++ [k']) <+: kp) : k = k' := by
  have := prefix_same_length h h' (by simp)
  simpa using this

mutual
theorem treeBNode_keys : ∀ (n : Node), n.wf = true → ∀ (cum : List Str) (k : Str), DotFree cum →
    '.' ∉ k → ∀ e ∈ treeBNode cum k n, (cum ++ [k]) <+: e.1 ∧ DotFree e.1
  | .leaf _, _, cum, k, _, _ => by simp [treeBNode]
  | .multi _ _, _, cum, k, _, _ => by simp [treeBNode]
  | .object _ ps, h, cum, k, dc, hk => by
    intro e he
    simp only [treeBNode] at he
    obtain ⟨k', _, hp, hd⟩ := treeB_keys ps (by simpa [Node.wf] using h) (cum ++ [k])
      (dc.append (DotFree.single hk)) e he
    refine ⟨?_, hd⟩
    exact List.IsPrefix.trans (List.prefix_append _ _) hp
  | .nested ps, _, cum, k, dc, hk => by
    intro e he
    simp only [treeBNode] at he
    by_cases hps : ps.isEmpty = true
    · simp [hps] at he
    · simp only [hps, Bool.false_eq_true, if_false, List.mem_cons, List.not_mem_nil, or_false] at he
      subst he
      exact ⟨List.prefix_refl _, dc.append (DotFree.single hk)⟩
theorem treeB_keys : ∀ (ps : Props), Props.wf ps = true → ∀ (cum : List Str), DotFree cum →
    ∀ e ∈ treeB cum ps, ∃ k ∈ ps.map (·.1), (cum ++ [k]) <+: e.1 ∧ DotFree e.1
  | [], _, cum, _ => by simp [treeB]
  | (k, n) :: r, h, cum, dc => by
    obtain ⟨h1, _, h3, h4⟩ := Props.wf_cons.mp h
    intro e he
    simp only [treeB, List.mem_append] at he
    rcases he with he | he
    · exact ⟨k, by simp, treeBNode_keys n h3 cum k dc h1 e he⟩
    · obtain ⟨k', hk', hp⟩ := treeB_keys r h4 cum dc e he
      exact ⟨k', by simp [hk'], hp⟩
end

/-- adding the keys of the node `k` keeps the target fresh for the later siblings -/
theorem Fresh.append_node {t : JObj} {cum ks : List Str} {k : Str} {kids : Kids}
    (h : Fresh t cum (k :: ks)) (hk : k ∉ ks)
    (hkids : ∀ e ∈ kids, (cum ++ [k]) <+: e.1 ∧ DotFree e.1) :
    Fresh (t ++ kidsJson kids) cum ks := by
  intro e he
  rcases List.mem_append.mp he with he | he
  · obtain ⟨kp, h1, h2, h3, h4, h5⟩ := h e he
    exact ⟨kp, h1, h2, h3, h4, fun k' hk' => h5 k' (List.mem_cons_of_mem _ hk')⟩
  · obtain ⟨x, hx, hj⟩ := mem_kidsJson he
    obtain ⟨hp, hd⟩ := hkids x hx
    refine ⟨x.1, hj, ?_, hd, ?_, ?_⟩
    · intro e0
      rw [e0] at hp
      have := hp.length_le
      simp at this
    · intro hc
      have := (hp.trans hc).length_le
      simp at this
      omega
    · intro k' hk' hp'
      have := snoc_prefix_inj hp hp'
      exact hk (this ▸ hk')

/-! ### the fold of the insertions over a mapping -/

/-- the events of the fields below a node, relative to it -/
def evKids : Node → List Ev
  | .leaf _ => []
  | .multi _ _ => []
  | .object _ ps => evProps [] false ps
  | .nested ps => evProps [] true ps

theorem evProps_rel (p : List Str) (pn : Bool) (ps : Props) :
    evProps p pn ps = (evProps [] pn ps).map (Ev.pre p) := by
  have := evProps_pre p [] pn ps
  simpa using this

theorem evNode_eq (names : List Str) (pn : Bool) (k : Str) (n : Node) :
    evNode names pn k n = ⟨names, pn, k⟩ :: (evKids n).map (Ev.pre (names ++ [k])) := by
  cases n with
  | leaf d => simp [evNode, evKids]
  | multi d subs => simp [evNode, evKids]
  | object e ps => simp [evNode, evKids, ← evProps_rel]
  | nested ps => simp [evNode, evKids, ← evProps_rel]

theorem evStep_skip (t : JObj) (names : List Str) (k : Str) : evStep t ⟨names, false, k⟩ = t := by
  simp [evStep]

mutual
theorem foldBNode : ∀ (n : Node), n.wf = true → ∀ (cum : List Str) (k : Str) (t : JObj), DotFree cum →
    '.' ∉ k → Fresh t cum [k] →
    (evNode cum false k n).foldl evStep t = t ++ kidsJson (treeBNode cum k n)
  | .leaf _, _, cum, k, t, _, _, _ => by simp [evNode, evStep_skip, treeBNode, kidsJson]
  | .multi _ _, _, cum, k, t, _, _, _ => by simp [evNode, evStep_skip, treeBNode, kidsJson]
  | .object _ ps, h, cum, k, t, dc, hk, hf => by
    simp only [evNode, List.foldl_cons, evStep_skip, treeBNode]
    apply foldB ps (by simpa [Node.wf] using h) (cum ++ [k]) t (dc.append (DotFree.single hk))
    intro e he
    obtain ⟨kp, h1, h2, h3, h4, h5⟩ := hf e he
    refine ⟨kp, h1, h2, h3, ?_, ?_⟩
    · intro hc
      rcases List.prefix_concat_iff.mp hc with hc | hc
      · exact h5 k (by simp) (hc ▸ List.prefix_refl _)
      · exact h4 hc
    · intro k' _ hc
      exact h5 k (by simp) (List.IsPrefix.trans (List.prefix_append _ _) hc)
  | .nested ps, h, cum, k, t, dc, hk, hf => by
    have hwf : Props.wf ps = true := by simpa [Node.wf] using h
    simp only [evNode, List.foldl_cons, evStep_skip, treeBNode]
    cases ps with
    | nil => simp [evProps, kidsJson]
    | cons c r =>
      obtain ⟨c1, n1⟩ := c
      rw [evProps_rel]
      have hhead : evProps [] true ((c1, n1) :: r) =
          ⟨[], true, c1⟩ :: ((evKids n1).map (Ev.pre ([] ++ [c1])) ++ evProps [] true r) := by
        rw [evProps, evNode_eq]; rfl
      have hcreate := fold_create (cum ++ [k]) t (by simp) (by
        intro a b hab ha
        have hpa : a <+: cum ++ [k] := ⟨b, hab.symm⟩
        apply hf.jget_none ha
        · exact DotFree.left (hab ▸ dc.append (DotFree.single hk))
        · rcases List.prefix_concat_iff.mp hpa with hc | hc
          · exact .inr ⟨k, by simp, hc ▸ List.prefix_refl _⟩
          · exact .inl hc) c1 ((evKids n1).map (Ev.pre ([] ++ [c1])) ++ evProps [] true r)
      rw [hhead, hcreate, ← hhead, foldA ((c1, n1) :: r) hwf [] (Fresh.nil _ _)]
      simp [kidsJson, KTree.toJson]
theorem foldB : ∀ (ps : Props), Props.wf ps = true → ∀ (cum : List Str) (t : JObj), DotFree cum →
    Fresh t cum (ps.map (·.1)) →
    (evProps cum false ps).foldl evStep t = t ++ kidsJson (treeB cum ps)
  | [], _, cum, t, _, _ => by simp [evProps, treeB, kidsJson]
  | (k, n) :: r, h, cum, t, dc, hf => by
    obtain ⟨h1, h2, h3, h4⟩ := Props.wf_cons.mp h
    have hfk : Fresh t cum [k] := by
      intro e he
      obtain ⟨kp, a1, a2, a3, a4, a5⟩ := hf e he
      exact ⟨kp, a1, a2, a3, a4, fun k' hk' => a5 k' (by
        have : k' = k := by simpa using hk'
        simp [this])⟩
    simp only [evProps, List.foldl_append, treeB, kidsJson_append]
    rw [foldBNode n h3 cum k t dc h1 hfk, foldB r h4 cum _ dc, List.append_assoc]
    exact Fresh.append_node (by simpa using hf) h2 (treeBNode_keys n h3 cum k dc h1)
theorem foldSub : ∀ (n : Node), n.wf = true →
    (evKids n).foldl evStep [] = kidsJson (treeSub n)
  | .leaf _, _ => by simp [evKids, treeSub, kidsJson]
  | .multi _ _, _ => by simp [evKids, treeSub, kidsJson]
  | .object _ ps, h => by
    simp only [evKids, treeSub]
    have := foldB ps (by simpa [Node.wf] using h) [] [] DotFree.nil (Fresh.nil _ _)
    simpa using this
  | .nested ps, h => by
    simp only [evKids, treeSub]
    have := foldA ps (by simpa [Node.wf] using h) [] (Fresh.nil _ _)
    simpa using this
theorem foldA : ∀ (ps : Props), Props.wf ps = true → ∀ (t : JObj), Fresh t [] (ps.map (·.1)) →
    (evProps [] true ps).foldl evStep t = t ++ kidsJson (treeA ps)
  | [], _, t, _ => by simp [evProps, treeA, kidsJson]
  | (k, n) :: r, h, t, hf => by
    obtain ⟨h1, h2, h3, h4⟩ := Props.wf_cons.mp h
    have hk : jget t k = none := by
      have := hf.jget_none (q := [k]) (by simp) (DotFree.single h1)
        (.inr ⟨k, by simp, by simp⟩)
      simpa [joinDot_single] using this
    have hstep : evStep t ⟨[], true, k⟩ = jset t (joinDot [k]) (.obj []) := by
      simp [evStep, nins, joinDot_single]
    have hfocus := fold_focus [k] t (by simp) (by
      intro a b hab ha hb
      have : (a ++ b).length = 1 := by rw [← hab]; rfl
      cases a with
      | nil => exact absurd rfl ha
      | cons x a' =>
        cases b with
        | nil => exact absurd rfl hb
        | cons y b' => simp at this) (evKids n) []
    simp only [evProps, List.foldl_append, treeA, kidsJson]
    rw [evNode_eq, List.foldl_cons, hstep, List.nil_append, hfocus, foldSub n h3, joinDot_single,
      jset_of_none _ hk, foldA r h4]
    · simp [KTree.toJson]
    · have : Fresh (t ++ kidsJson [([k], KTree.mk (treeSub n))]) [] (r.map (·.1)) :=
        Fresh.append_node (k := k) (by simpa using hf) h2 (by
          intro e he
          have : e = ([k], KTree.mk (treeSub n)) := by simpa using he
          subst this
          exact ⟨by simp, DotFree.single h1⟩)
      simpa [kidsJson, KTree.toJson, joinDot_single] using this
end

/-- **`nested_fields()` of the schema of a well-formed mapping** -/
theorem schemaNestedFields_tree {m : Props} (h : Props.wf m = true) :
    schemaNestedFields (toJson m) = kidsJson (treeB [] m) := by
  rw [schemaNestedFields_toJson, foldB m h [] [] DotFree.nil (Fresh.nil _ _)]
  simp

end Luqum.Lemmas.EsSchema
