/-
  Luqum.Lemmas.TransNormCanon — the normal form of a tree that is canonical up to nestings of
  operations of the same class and operations with one operand (`PreCanonAt`) is canonical
  (`canon_norm`); a canonical tree is its own normal form (`norm_of_canon`).
-/
import Luqum.Lemmas.TransNorm

namespace Luqum

/-! ### canonical up to same-class nesting -/

/-- what a `k`-operation accepts as a direct operand, nesting of the same class allowed -/
def preOperandOK (k : OpK) (x : Tree) : Bool := operandOK k x || isOpK k x

mutual
/-- canonical form up to normalisation: as `CanonAt`, but an operation may have operands of its own
class, and an operation (not directly under a field) may have one operand only, if this operand is
not an operation -/
def PreCanonAt : Bool → Tree → Bool
  | _, .term .. => true
  | _, .none _ => false
  | uf, .op k xs _ => k != .bool && PreCanonsAt xs &&
      ((decide (2 ≤ xs.length) && xs.all (preOperandOK k)) ||
       (decide (xs.length = 1) && !uf && xs.all (fun x => !isOp' x)))
  | _, .unary _ e _ => PreCanonAt false e && !isOp' e
  | _, .field _ e _ => PreCanonAt true e && !isOp' e
  | uf, .group k e _ => ((k == .fieldGroup) == uf) && PreCanonAt false e
  | _, .boost e _ _ => PreCanonAt false e && !isOp' e && !isUnary e && !isField e
  | _, .approx .fuzzy e _ _ => isWord e
  | _, .approx .proximity e _ _ => isPhrase e
  | _, .range lo hi _ _ _ => isBound lo && isBound hi
  | _, .orange _ e _ _ => isWP e
def PreCanonsAt : List Tree → Bool
  | [] => true
  | x :: r => PreCanonAt false x && PreCanonsAt r
end

theorem canonsAt_eq_all : ∀ xs : List Tree, CanonsAt xs = xs.all (CanonAt false)
  | [] => rfl
  | x :: r => by simp [CanonsAt, canonsAt_eq_all r]

theorem preCanonsAt_eq_all : ∀ xs : List Tree, PreCanonsAt xs = xs.all (PreCanonAt false)
  | [] => rfl
  | x :: r => by simp [PreCanonsAt, preCanonsAt_eq_all r]

theorem operandOK_nonop (k : OpK) (hk : k ≠ .bool) {x : Tree} (h : isOp' x = false) :
    operandOK k x = true := by
  cases x <;> cases k <;> simp_all [operandOK, isOpK, isOp']

theorem operandOK_not_same (k : OpK) {x : Tree} (h : operandOK k x = true) : isOpK k x = false := by
  cases x <;> cases k <;> simp_all [operandOK, isOpK, isOp']

mutual
/-- **a canonical tree is canonical up to normalisation** -/
theorem preCanon_of_canon : ∀ (u : Tree) (uf : Bool), CanonAt uf u = true → PreCanonAt uf u = true
  | .term .., _, _ => rfl
  | .none _, _, h => by simp [CanonAt] at h
  | .op k xs l, uf, h => by
    simp only [CanonAt, Bool.and_eq_true] at h
    simp only [PreCanonAt, Bool.and_eq_true, Bool.or_eq_true]
    refine ⟨⟨h.1.1.1, preCanons_of_canons xs h.1.2⟩, Or.inl ⟨h.1.1.2, ?_⟩⟩
    rw [List.all_eq_true] at h ⊢
    intro x hx
    simp [preOperandOK, h.2 x hx]
  | .unary k e l, uf, h => by
    simp only [CanonAt, Bool.and_eq_true] at h
    simp [PreCanonAt, preCanon_of_canon e false h.1, h.2]
  | .field n e l, uf, h => by
    simp only [CanonAt, Bool.and_eq_true] at h
    simp [PreCanonAt, preCanon_of_canon e true h.1, h.2]
  | .group k e l, uf, h => by
    simp only [CanonAt, Bool.and_eq_true] at h
    simp only [PreCanonAt, Bool.and_eq_true]
    exact ⟨h.1, preCanon_of_canon e false h.2⟩
  | .boost e n l, uf, h => by
    simp only [CanonAt, Bool.and_eq_true] at h
    simp only [PreCanonAt, Bool.and_eq_true]
    exact ⟨⟨⟨preCanon_of_canon e false h.1.1.1, h.1.1.2⟩, h.1.2⟩, h.2⟩
  | .approx .fuzzy e n l, uf, h => h
  | .approx .proximity e n l, uf, h => h
  | .range a b il ih l, uf, h => h
  | .orange k e i l, uf, h => h
theorem preCanons_of_canons : ∀ xs : List Tree, CanonsAt xs = true → PreCanonsAt xs = true
  | [], _ => rfl
  | x :: r, h => by
    simp only [CanonsAt, Bool.and_eq_true] at h
    simp [PreCanonsAt, preCanon_of_canon x false h.1, preCanons_of_canons r h.2]
end

/-! ### the root of the normal form -/

/-- the normal form of a tree that is not an operation has the same root -/
theorem norm_nonop (u : Tree) (h : isOp' u = false) :
    isOp' (norm u) = false ∧ isUnary (norm u) = isUnary u ∧ isField (norm u) = isField u ∧
      (norm u).isNone = u.isNone ∧ ∀ k, isOpK k (norm u) = false := by
  cases u <;> simp_all [norm, isOp', isUnary, isField, Tree.isNone, isOpK]

theorem splice_nonop (k : OpK) {z : Tree} (h : isOp' z = false) : splice k z = [z] := by
  cases z <;> simp_all [splice, isOp']

theorem splice_other (k : OpK) {z : Tree} (h : isOpK k z = false) : splice k z = [z] := by
  cases z <;> simp_all [splice, isOpK]

theorem wrapOp_two (k : OpK) (xs : List Tree) (l : Lay) (h : 2 ≤ xs.length) :
    wrapOp k xs l = .op k xs l := by
  match xs, h with
  | _ :: _ :: _, _ => rfl

theorem norm_op (k : OpK) (xs : List Tree) (l : Lay) (hk : k ≠ .bool) :
    norm (.op k xs l) = wrapOp k (normOps k xs) l := by
  cases k <;> simp_all [norm]

/-! ### `canon_norm` -/

theorem operandOK_of_root (k : OpK) (hk : k ≠ .bool) (z x : Tree) (hz : isOpK k z = false)
    (hzx : ∀ k', isOpK k' z = true → isOpK k' x = true) (hx : preOperandOK k x = true) :
    operandOK k z = true := by
  cases z with
  | op k' ys l =>
    have h1 := hzx k' (by simp [isOpK])
    cases x with
    | op k'' ys' l' =>
      have : k'' = k' := by simpa [isOpK] using h1
      subst this
      cases k <;> cases k'' <;> simp_all [preOperandOK, operandOK, isOpK, isOp']
    | _ => simp [isOpK] at h1
  | _ => exact operandOK_nonop k hk rfl

/-- the operands an operand (already in normal form) stands for are canonical operands -/
theorem splice_ok (k : OpK) (hk : k ≠ .bool) (z x : Tree) (hz : CanonAt false z = true)
    (hzx : ∀ k', isOpK k' z = true → isOpK k' x = true) (hx : preOperandOK k x = true) :
    (splice k z).all (CanonAt false) = true ∧ (splice k z).all (operandOK k) = true ∧
      1 ≤ (splice k z).length := by
  by_cases hsame : isOpK k z = true
  · cases z with
    | op k' ys l =>
      have hk' : k' = k := by simpa [isOpK] using hsame
      subst hk'
      simp only [CanonAt, Bool.and_eq_true, decide_eq_true_eq, canonsAt_eq_all] at hz
      have hne : ys.isEmpty = false := by
        cases ys with
        | nil => simp at hz
        | cons _ _ => rfl
      simp only [splice, beq_self_eq_true, hne, Bool.not_false, Bool.and_self, if_true]
      refine ⟨?_, ?_, ?_⟩
      · rw [all_pushBack _ (fun t l => canonAt_setLay t l false), all_pushFront _ (fun t l => canonAt_setLay t l false)]
        exact hz.1.2
      · rw [all_pushBack _ (fun t l => operandOK_setLay t l k'), all_pushFront _ (fun t l => operandOK_setLay t l k')]
        exact hz.2
      · rw [pushBack_length, pushFront_length]; omega
    | _ => simp [isOpK] at hsame
  · have hsame' : isOpK k z = false := by simpa using hsame
    rw [splice_other k hsame']
    simp [hz, operandOK_of_root k hk z x hsame' hzx hx]

mutual
/-- **the normal form of a tree that is canonical up to normalisation is canonical**; if its root is
an operation, the root of the tree was an operation of the same class -/
theorem canon_norm : ∀ (u : Tree) (uf : Bool), PreCanonAt uf u = true →
    CanonAt uf (norm u) = true ∧ ∀ k', isOpK k' (norm u) = true → isOpK k' u = true
  | .term .., _, _ => ⟨rfl, fun _ h => h⟩
  | .none _, _, h => by simp [PreCanonAt] at h
  | .unary k e l, uf, h => by
    simp only [PreCanonAt, Bool.and_eq_true, Bool.not_eq_true'] at h
    have ih := canon_norm e false h.1
    simp [norm, CanonAt, ih.1, (norm_nonop e h.2).1, isOpK]
  | .field n e l, uf, h => by
    simp only [PreCanonAt, Bool.and_eq_true, Bool.not_eq_true'] at h
    have ih := canon_norm e true h.1
    simp [norm, CanonAt, ih.1, (norm_nonop e h.2).1, isOpK]
  | .group k e l, uf, h => by
    simp only [PreCanonAt, Bool.and_eq_true] at h
    have ih := canon_norm e false h.2
    simp only [norm, CanonAt, Bool.and_eq_true]
    exact ⟨⟨h.1, ih.1⟩, fun _ h => h⟩
  | .boost e n l, uf, h => by
    simp only [PreCanonAt, Bool.and_eq_true, Bool.not_eq_true'] at h
    have ih := canon_norm e false h.1.1.1
    have hn := norm_nonop e h.1.1.2
    simp [norm, CanonAt, ih.1, hn.1, hn.2.1, hn.2.2.1, h.1.2, h.2, isOpK]
  | .approx .fuzzy e n l, uf, h => ⟨h, fun _ h => h⟩
  | .approx .proximity e n l, uf, h => ⟨h, fun _ h => h⟩
  | .range a b il ih l, uf, h => ⟨h, fun _ h => h⟩
  | .orange k e i l, uf, h => ⟨h, fun _ h => h⟩
  | .op k xs l, uf, h => by
    simp only [PreCanonAt, Bool.and_eq_true, Bool.or_eq_true, decide_eq_true_eq, bne_iff_ne, ne_eq,
      Bool.not_eq_true'] at h
    obtain ⟨⟨hk, hxs⟩, hcase⟩ := h
    rw [norm_op k xs l hk]
    rcases hcase with ⟨hlen, hall⟩ | ⟨⟨hlen, huf⟩, hall⟩
    · obtain ⟨h1, h2, h3⟩ := canon_normOps xs k hk hxs hall
      rw [wrapOp_two k _ l (by omega)]
      refine ⟨?_, fun k' hk' => by simpa [isOpK] using hk'⟩
      simp only [CanonAt, Bool.and_eq_true, decide_eq_true_eq, bne_iff_ne, ne_eq, canonsAt_eq_all]
      exact ⟨⟨⟨hk, by omega⟩, h1⟩, h2⟩
    · match xs, hlen with
      | [x], _ =>
        simp only [List.all_cons, List.all_nil, Bool.and_true, Bool.not_eq_true'] at hall
        simp only [PreCanonsAt, Bool.and_true] at hxs
        have ih := canon_norm x false hxs
        have hn := norm_nonop x hall
        subst huf
        simp only [normOps, List.append_nil, splice_nonop k hn.1, wrapOp, canonAt_setTail,
          canonAt_setHead, ih.1, true_and]
        intro k' hk'
        have : isOpK k' (norm x) = true := by
          simpa [Tree.setHead, Tree.setTail, isOpK_setLay] using hk'
        rw [hn.2.2.2.2 k'] at this; cases this
theorem canon_normOps : ∀ (xs : List Tree) (k : OpK), k ≠ .bool → PreCanonsAt xs = true →
    xs.all (preOperandOK k) = true →
    (normOps k xs).all (CanonAt false) = true ∧ (normOps k xs).all (operandOK k) = true ∧
      xs.length ≤ (normOps k xs).length
  | [], _, _, _, _ => ⟨rfl, rfl, Nat.le_refl _⟩
  | x :: r, k, hk, hxs, hall => by
    simp only [PreCanonsAt, Bool.and_eq_true] at hxs
    simp only [List.all_cons, Bool.and_eq_true] at hall
    have ih1 := canon_norm x false hxs.1
    obtain ⟨s1, s2, s3⟩ := splice_ok k hk (norm x) x ih1.1 ih1.2 hall.1
    obtain ⟨r1, r2, r3⟩ := canon_normOps r k hk hxs.2 hall.2
    simp only [normOps, List.all_append, Bool.and_eq_true, List.length_append, List.length_cons]
    exact ⟨⟨s1, r1⟩, ⟨s2, r2⟩, by omega⟩
end

/-! ### a canonical tree is its own normal form -/

mutual
theorem norm_of_canon : ∀ (u : Tree) (uf : Bool), CanonAt uf u = true → norm u = u
  | .term .., _, _ => rfl
  | .none _, _, _ => rfl
  | .unary k e l, uf, h => by
    simp only [CanonAt, Bool.and_eq_true] at h
    simp [norm, norm_of_canon e false h.1]
  | .field n e l, uf, h => by
    simp only [CanonAt, Bool.and_eq_true] at h
    simp [norm, norm_of_canon e true h.1]
  | .group k e l, uf, h => by
    simp only [CanonAt, Bool.and_eq_true] at h
    simp [norm, norm_of_canon e false h.2]
  | .boost e n l, uf, h => by
    simp only [CanonAt, Bool.and_eq_true] at h
    simp [norm, norm_of_canon e false h.1.1.1]
  | .approx .., _, _ => rfl
  | .range .., _, _ => rfl
  | .orange .., _, _ => rfl
  | .op k xs l, uf, h => by
    simp only [CanonAt, Bool.and_eq_true, decide_eq_true_eq, bne_iff_ne, ne_eq] at h
    rw [norm_op k xs l h.1.1.1, normOps_of_canon xs k h.1.2 h.2, wrapOp_two k xs l h.1.1.2]
theorem normOps_of_canon : ∀ (xs : List Tree) (k : OpK), CanonsAt xs = true →
    xs.all (operandOK k) = true → normOps k xs = xs
  | [], _, _, _ => rfl
  | x :: r, k, h, hall => by
    simp only [CanonsAt, Bool.and_eq_true] at h
    simp only [List.all_cons, Bool.and_eq_true] at hall
    simp [normOps, norm_of_canon x false h.1, splice_other k (operandOK_not_same k hall.1),
      normOps_of_canon r k h.2 hall.2]
end

end Luqum
