/-
  Luqum.Lemmas.Kf1RegapRun — known finding KF1: the run keeps the WHOLE source text, if the
  separators lost before the `:` tokens are read back from the source at the places the layout
  records designate (`regap`).  Along `runLoop`, the sequence `stack ++ remaining input`, re-gapped,
  always spells the input; hence the accepted tree, re-gapped, prints the input.
-/
import Luqum.Lemmas.Kf1RegapPos
import Luqum.Lemmas.Kf1PosRun

namespace Luqum

/-- reading a gap back from a source in which it stands at the right place -/
theorem gapText_spec {src A w B : Str} (h : src = A ++ w ++ B) :
    gapText src (A.length : Int) (w.length : Int) = w := by
  subst h
  simp [gapText]

/-- the text of `p_field_search`, when the gap read from the source is the tail of the name -/
theorem field_flatR (src : Str) {name : Str} {nl : Lay} {c : TokV} {e : Tree} {pos size : Option Int}
    (h0 : SeqOK0 [.item (.term .word name nl), .tok .column c, .item e])
    (hgap : gapOf src name ((toFieldGroup e).setHead (c.lay.tail ++ (toFieldGroup e).head))
      { head := nl.head, tail := [], pos := pos, size := size } = nl.tail) :
    (regapV src (.item (.field name ((toFieldGroup e).setHead (c.lay.tail ++ (toFieldGroup e).head))
      { head := nl.head, tail := [], pos := pos, size := size }))).flat
    = flats ([Val.item (.term .word name nl), .tok .column c, .item e].map (regapV src)) := by
  have h0' := seqOK0_regap src h0
  simp only [List.map, regapV] at h0'
  have hre : regap src (.term .word name nl) = .term .word name nl := by simp only [regap]
  rw [hre] at h0'
  have hname : SeqOK0 [.item (.term .word (name ++ nl.tail) nl), .tok .column c, .item (regap src e)] :=
    ⟨fun v hv => by
      simp only [List.mem_cons, List.not_mem_nil, or_false] at hv
      rcases hv with rfl | rfl | rfl
      · trivial
      · exact h0'.good _ (by simp)
      · exact h0'.good _ (by simp), h0'.nf⟩
  have := (shape_ok (ActShape.field (name ++ nl.tail) { nl with tail := [] } c (regap src e) pos size)
    (field_trim_ok hname)).flat
  have hh : (toFieldGroup (regap src e)).head = (toFieldGroup e).head := by
    rw [(toFieldGroup_spec _).2.2.1, (toFieldGroup_spec _).2.2.1, regap_head]
  rw [hh] at this
  simp only [List.map, regapV, regap, hgap, regap_setHead, regap_toFieldGroup]
  exact this.trans (by simp [Val.flat, Tree.full])

/-- **the text of a reduction, re-gapped** -/
theorem act_flatR (src : Str) {f : String} {args : List Val} {v : Val} {As : List Nat} {off : Int}
    (h : act f args = .ok v) (h0 : SeqOK0 args) (hp : SeqPosS args off)
    (hs : HasShapes args As) (hadm : admSet f As = true)
    {pre post : Str} (hsrc : src = pre ++ flats (args.map (regapV src)) ++ post)
    (hoff : (pre.length : Int) = off) :
    (regapV src v).flat = flats (args.map (regapV src)) := by
  have hk := act_kind h
  by_cases hnf : ∀ name nl c e, args ≠ [.item (.term .word name nl), .tok .column c, .item e]
  · have h' := act_regap f src h hnf
    have h0' := seqOK0_regap src h0
    cases hk with
    | unit v => simp
    | toTerm t pos size =>
      exact (shape_ok (act_shape h') ⟨h0'.good, h0'.nf, adj_noColon (by simp)⟩).flat
    | field name nl c e pos size => exact absurd rfl (hnf name nl c e)
    | other args v hc hn hv hne =>
      refine (shape_ok (act_shape h') ⟨h0'.good, h0'.nf, adj_noColon (fun x hx => ?_)⟩).flat
      obtain ⟨w, hw, rfl⟩ := List.mem_map.1 (List.mem_of_mem_tail hx)
      rw [regapV_isColon]; exact hc w hw
  · cases hk with
    | field name nl c e pos size =>
      apply field_flatR src h0
      -- the layout of the new node, and the extent of its parts
      obtain ⟨hpv, hev⟩ := act_posS h h0 hp hs hadm
      simp only [Val.PosAtS, Val.lay, Tree.lay, PosS, LayS] at hpv
      obtain ⟨g, ⟨hpos, hsize⟩, _⟩ := hpv
      have hnc : c.lay.head = [] := h0.nf (.tok .column c) (by simp)
      have hne : e.head = [] := Tree.nonFirst_head (h0.nf (.item e) (by simp))
      have hgc : c.value = some [':'] := h0.good (.tok .column c) (by simp)
      simp only [SeqPosS, Val.PosAtS, Val.lay, Val.ext_tok, Val.ext_item, lay_term, PosS, tokText,
        hgc, hnc, Option.getD_some, List.length_nil, and_true, LayS, LayAt] at hp
      obtain ⟨⟨_, hns⟩, ⟨_, hcs⟩, _⟩ := hp
      have h1 : layLen nl = name.length + nl.head.length + nl.tail.length := by simp [layLen, hns]
      have h2 : layLen c.lay = 1 + c.lay.tail.length := by simp [layLen, hcs, hnc]
      obtain ⟨_, _, f3, _, _⟩ := toFieldGroup_spec e
      have h3 : ((toFieldGroup e).setHead (c.lay.tail ++ (toFieldGroup e).head)).ext
          = e.ext + c.lay.tail.length := by
        rw [ext_setHead, ext_toFieldGroup, f3, hne]; simp
      have hev2 : layLen { head := nl.head, tail := [], pos := pos, size := size : Lay }
          = layLen nl + layLen c.lay + e.ext := by
        rw [extsV_three] at hev; exact hev
      have hg : (g : Int) = nl.tail.length := by
        simp only [layLen, hsize, Option.getD_some, List.length_nil] at hev2
        simp only [layLen] at h1 h2
        omega
      -- read the gap back
      simp only [gapOf, hpos, hsize, Option.getD_some]
      simp only [List.map, regapV, regap, flats_cons, flats_nil, Val.flat, Tree.full] at hsrc
      have hsrc' : src = (pre ++ nl.head ++ name) ++ nl.tail ++
          ((c.lay.head ++ tokText .column c.value ++ c.lay.tail) ++ (regap src e).full .raw ++ post) := by
        exact hsrc.trans (by simp)
      have := gapText_spec hsrc'
      simp only [List.length_append] at this
      rw [← this]
      congr 1
      · omega
      · omega
    | unit v => exact absurd (fun name nl c e hc => by simp at hc) hnf
    | toTerm t pos size => exact absurd (fun name nl c e hc => by simp at hc) hnf
    | other args v hc hn hv hne =>
      refine absurd (fun name nl c e he => ?_) hnf
      subst he
      have := hc (.tok .column c) (by simp)
      simp [Val.isColon] at this

/-! ### the run -/

/-- the invariant: source layout (with total extent the length of the source), and the re-gapped
sequence spells the source -/
def SrcInv (T : Tables) (C : Cert) (src : Str) (c : Cfg) (toks : List Tok) : Prop :=
  LaidInvS T C (src.length : Int) c toks ∧ flats ((seqOf c toks).map (regapV src)) = src

theorem srcInv_shift {T : Tables} {C : Cert} (hT : TablesOK T) (hC : certOK T C = true) {src : Str}
    (c : Cfg) (t : Tok) (toks : List Tok) (c' : Cfg)
    (hP : SrcInv T C src c (t :: toks)) (hs : step T c (some t) = .shift c') :
    SrcInv T C src c' toks := by
  refine ⟨laidInvS_shift hT hC c t toks c' hP.1 hs, ?_⟩
  obtain ⟨t', a, hl, _, _, rfl⟩ := step_shift hs
  cases hl
  have : seqOf { states := a.toNat :: c.states, vals := t.toVal :: c.vals } toks
      = seqOf c (t :: toks) := by simp [seqOf]
  rw [this]; exact hP.2

theorem srcInv_reduce {T : Tables} {C : Cert} (hT : TablesOK T) (hC : certOK T C = true) {src : Str}
    (c : Cfg) (toks : List Tok) (c' : Cfg)
    (hP : SrcInv T C src c toks) (hs : step T c toks.head? = .reduce c') :
    SrcInv T C src c' toks := by
  refine ⟨laidInvS_reduce hT hC c toks c' hP.1 hs, ?_⟩
  obtain ⟨⟨h1, _, h3, _, h5⟩, htxt⟩ := hP
  obtain ⟨n, f, v, g, As, hn, hact, rfl, hshp, hadm⟩ := reduce_adm hC h5 hs
  have e1 : seqOf c toks
      = (c.vals.drop n).reverse ++ (c.vals.take n).reverse ++ toks.map Tok.toVal := by
    simp only [seqOf, ← List.reverse_append, List.take_append_drop]
  have e2 : seqOf { states := g.toNat :: c.states.drop n, vals := v :: c.vals.drop n } toks
      = (c.vals.drop n).reverse ++ [v] ++ toks.map Tok.toVal := by
    simp [seqOf]
  rw [e1] at h1 h3 htxt
  rw [e2]
  rw [seqPosS_append, seqPosS_append] at h3
  obtain ⟨⟨hb, ha⟩, _⟩ := h3
  simp only [List.map_append, flats_append] at htxt ⊢
  have hlen := regap_flats_length src hb
  have := act_flatR src hact h1.mid ha hshp hadm htxt.symm (by rw [hlen]; omega)
  simp only [List.map_cons, List.map_nil, flats_cons, flats_nil, List.append_nil]
  rw [this]; exact htxt

theorem regapV_toVal (src : Str) (t : Tok) : regapV src t.toVal = t.toVal := by
  obtain ⟨kind, text, pos, head, tail⟩ := t
  cases kind <;> simp [Tok.toVal, regapV, regap]

/-- **the source text of a run**: with tables satisfying `TablesOK` and a certificate accepted by
the checker, a successful run over well-formed tokens laid out from offset 0 returns a value that,
with the lost separators read back from the text of the tokens, spells that text; it is laid out
in the source at offset 0 -/
theorem runLoop_srcR {T : Tables} {C : Cert} (hT : TablesOK T) (hC : certOK T C = true) (fuel : Nat)
    (toks : List Tok) (lerr : Option LexErr) (v : Val) (hwf : ToksWF toks) (hp : TokPos toks 0)
    (h : runLoop T fuel { states := [0], vals := [] } toks lerr = .ok v) :
    (regapV (tflats toks) v).flat = tflats toks ∧ v.PosAtS (v.lay.head.length) := by
  have hok := seqOK0_toVal hwf
  have hpos : SeqPosS (toks.map Tok.toVal) 0 := by simpa using seqPosS_toVal hwf.ok hp
  have hmap : (toks.map Tok.toVal).map (regapV (tflats toks)) = toks.map Tok.toVal := by
    simp [regapV_toVal]
  have := runLoop_ok (T := T) (P := SrcInv T C (tflats toks))
    (fun c t tk c' hP hs => srcInv_shift hT hC c t tk c' hP hs)
    (fun c tk c' hP hs => srcInv_reduce hT hC c tk c' hP hs)
    fuel { states := [0], vals := [] } toks lerr v
    ⟨⟨by simpa [seqOf] using hok, shape_init T, by simpa [seqOf] using hpos,
        by simp [seqOf, extsV_toVal], .init 0 _⟩,
      by simp only [seqOf, List.reverse_nil, List.nil_append, hmap]; exact flats_toVal hwf.ok⟩ h
  obtain ⟨c', toks', ⟨⟨_, hsh, hps, _, _⟩, htxt⟩, hacc, _⟩ := this
  obtain ⟨hlook, hv⟩ := shape_accept hT hsh hacc
  have ht : toks' = [] := by cases toks' <;> simp at hlook ⊢
  subst ht
  simp only [seqOf, hv, List.reverse_cons, List.reverse_nil, List.nil_append, List.map_nil,
    List.append_nil, List.map_cons, flats_cons, flats_nil, SeqPosS, and_true] at htxt hps
  exact ⟨htxt, by simpa using hps⟩

end Luqum
