/-
  Luqum.Lemmas.RelexValid — what a valid token text looks like: either the `TERM_RE` rule matched it
  (a term or a reserved word, starting with a term character or an escape), or it is a token of
  another kind, and then its last characters are not `T` or `T\d` (they cannot feed the look-behind
  of a term glued after it).
-/
import Luqum.Lemmas.RelexOne

namespace Luqum

theorem isTermFirst_next {c : Char} (h : isTermFirst c = true) : isTermNext c = true := by
  simp only [isTermFirst, isTermNext, termFirstExcl, termNextExcl, Bool.and_eq_true,
    Bool.not_eq_true', List.contains_eq_mem, List.mem_cons, List.not_mem_nil, or_false,
    decide_eq_false_iff_not, not_or] at h ⊢
  refine ⟨h.1, ?_⟩
  obtain ⟨_, h⟩ := h
  simp only [h, not_false_eq_true, and_self]

theorem delimScan_last {q : Char} : ∀ (f : Nat) (xs : Str) (n : Nat), delimScan q f xs = some n →
    ∃ a b, xs = a ++ q :: b ∧ n = a.length + 1 := by
  intro f
  induction f with
  | zero => intro xs n h; simp [delimScan] at h
  | succ f ih =>
    intro xs n h
    cases xs with
    | nil => simp [delimScan] at h
    | cons c xs =>
      simp only [delimScan] at h
      by_cases hc : c = q
      · simp only [hc, if_true, Option.some.injEq] at h
        exact ⟨[], xs, by simp [hc], by simp [← h]⟩
      · simp only [hc, if_false] at h
        by_cases hb : c = '\\'
        · simp only [hb, if_true] at h
          cases xs with
          | nil => simp at h
          | cons d xs =>
            simp only at h
            by_cases hd : d = '\n'
            · simp [hd] at h
            · simp only [hd, ne_eq, not_false_eq_true, if_true, Option.map_eq_some_iff] at h
              obtain ⟨m, hm, rfl⟩ := h
              obtain ⟨a, b, rfl, rfl⟩ := ih xs m hm
              exact ⟨c :: d :: a, b, by simp, by simp⟩
        · simp only [hb, if_false, Option.map_eq_some_iff] at h
          obtain ⟨m, hm, rfl⟩ := h
          obtain ⟨a, b, rfl, rfl⟩ := ih xs m hm
          exact ⟨c :: a, b, by simp, by simp⟩

/-- a phrase / regex that is matched entirely ends with its delimiter -/
theorem delimLen_last {q : Char} {x : Str} (h : delimLen q x = some x.length) :
    ∃ a, x = q :: a ++ [q] := by
  cases x with
  | nil => simp [delimLen] at h
  | cons c xs =>
    simp only [delimLen] at h
    by_cases hc : c = q
    · simp only [hc, if_true, Option.map_eq_some_iff] at h
      obtain ⟨m, hm, he⟩ := h
      obtain ⟨a, b, rfl, rfl⟩ := delimScan_last _ _ _ hm
      simp only [List.length_cons, List.length_append] at he
      have : b = [] := by
        cases b with
        | nil => rfl
        | cons _ _ => simp at he
      subst this
      exact ⟨a, by simp [hc]⟩
    · simp [hc] at h

theorem boundOK_of_head {c : Char} {rest : Str} (h1 : c ≠ 'T') (h2 : isDigitU c = false) :
    boundOK (c :: rest) = true := by
  simp [boundOK, h1, h2]

theorem isNumChar_ne_T {c : Char} (h : isNumChar c = true) : c ≠ 'T' := by
  rintro rfl; revert h; decide

/-- after `~[0-9.]*` / `\^[0-9.]*` the look-behind of a term cannot match -/
theorem boundOK_suffix {m : Char} (hm : m ≠ 'T') (hmd : isDigitU m = false) {cs : Str}
    (hcs : ∀ c ∈ cs, isNumChar c = true) (prev : Str) :
    boundOK ((m :: cs).reverse ++ prev) = true := by
  simp only [List.reverse_cons, List.append_assoc, List.singleton_append]
  cases hr : cs.reverse with
  | nil => exact boundOK_of_head hm hmd
  | cons d rest =>
    have hd : isNumChar d = true := hcs d (by rw [← List.mem_reverse, hr]; simp)
    simp only [List.cons_append, boundOK, Bool.and_eq_true, bne_iff_ne, ne_eq, Bool.not_eq_true',
      Bool.and_eq_false_iff]
    refine ⟨isNumChar_ne_T hd, Or.inr ?_⟩
    cases rest with
    | nil => simpa using hm
    | cons e rest' =>
      have he : isNumChar e = true := hcs e (by rw [← List.mem_reverse, hr]; simp)
      simpa using isNumChar_ne_T he

/-- **shape of a valid token**: either it is matched by the `TERM_RE` rule, or it is a token of
another kind and then no look-behind of a term glued after it can reach a `T` -/
theorem validTok_cases {k : TokK} {x : Str} (hv : validTok k x = true) :
    (isTermKind k = true ∧ termLen [] x = some x.length ∧ reservedKind x = k ∧
      ∃ c xs, x = c :: xs ∧ (isTermFirst c = true ∨ c = '\\')) ∨
    (isTermKind k = false ∧ ∀ prev, boundOK (x.reverse ++ prev) = true) := by
  simp only [validTok, decide_eq_true_eq] at hv
  cases x with
  | nil => simp [lexOne] at hv
  | cons c xs =>
    unfold lexOne at hv
    simp only at hv
    rcases ite_elim hv with ⟨_, h⟩ | ⟨hc, h⟩
    · cases h
    clear hv hc
    -- `+ - : ( )`
    iterate 5
      (rcases ite_elim h with ⟨hc, h⟩ | ⟨hc, h⟩
       · right
         simp only [Option.some.injEq, Lexeme.tok.injEq, List.length_cons] at h
         obtain ⟨rfl, hn⟩ := h
         have : xs = [] := by cases xs with | nil => rfl | cons _ _ => simp at hn
         subst this; subst hc
         exact ⟨rfl, fun prev => boundOK_of_head (by decide) (by decide)⟩
       clear hc)
    -- `[ {`, `] }`
    iterate 2
      (rcases ite_elim h with ⟨hc, h⟩ | ⟨hc, h⟩
       · right
         simp only [Option.some.injEq, Lexeme.tok.injEq, List.length_cons] at h
         obtain ⟨rfl, hn⟩ := h
         have : xs = [] := by cases xs with | nil => rfl | cons _ _ => simp at hn
         subst this
         simp only [Bool.or_eq_true, decide_eq_true_eq] at hc
         refine ⟨rfl, fun prev => ?_⟩
         rcases hc with rfl | rfl <;> exact boundOK_of_head (by decide) (by decide)
       clear hc)
    -- `>` and `<`
    iterate 2
      (rcases ite_elim h with ⟨hc, h⟩ | ⟨hc, h⟩
       · right
         simp only [Option.some.injEq, Lexeme.tok.injEq, List.length_cons] at h
         obtain ⟨rfl, hn⟩ := h
         refine ⟨rfl, fun prev => ?_⟩
         subst hc
         cases xs with
         | nil => exact boundOK_of_head (by decide) (by decide)
         | cons d xs' =>
           by_cases hd : d = '='
           · subst hd
             simp only [List.length_cons] at hn
             have : xs' = [] := by
               cases xs' with
               | nil => rfl
               | cons _ _ => simp at hn
             subst this
             exact boundOK_of_head (by decide) (by decide)
           · exfalso
             revert hn
             split
             · rename_i heq; cases heq; exact absurd rfl hd
             · simp
       clear hc)
    -- phrase, regex
    iterate 2
      (rcases ite_elim h with ⟨hc, h⟩ | ⟨hc, h⟩
       · right
         simp only [Option.map_eq_some_iff] at h
         obtain ⟨n, hn, he⟩ := h
         simp only [Lexeme.tok.injEq] at he
         obtain ⟨rfl, rfl⟩ := he
         refine ⟨rfl, fun prev => ?_⟩
         obtain ⟨a, ha⟩ := delimLen_last hn
         rw [ha]
         simp only [List.reverse_append, List.reverse_cons, List.reverse_nil, List.nil_append,
           List.cons_append]
         exact boundOK_of_head (by decide) (by decide)
       clear hc)
    -- `~`, `^`
    iterate 2
      (rcases ite_elim h with ⟨hc, h⟩ | ⟨hc, h⟩
       · right
         simp only [Option.map_eq_some_iff] at h
         obtain ⟨n, hn, he⟩ := h
         simp only [Lexeme.tok.injEq] at he
         obtain ⟨rfl, rfl⟩ := he
         refine ⟨rfl, fun prev => ?_⟩
         subst hc
         simp only [suffixLen, if_true, Option.some.injEq, List.length_cons] at hn
         have hl : (xs.takeWhile isNumChar).length = xs.length := by omega
         exact boundOK_suffix (by decide) (by decide) (takeWhile_length_eq hl) prev
       clear hc)
    -- the `TERM_RE` rule
    left
    simp only [Option.map_eq_some_iff] at h
    obtain ⟨n, hn, he⟩ := h
    simp only [Lexeme.tok.injEq] at he
    obtain ⟨hk, rfl⟩ := he
    have htake : (c :: xs).take (c :: xs).length = c :: xs := List.take_length
    rw [htake] at hk
    refine ⟨hk ▸ reservedKind_isTermKind _, hn, hk, c, xs, rfl, ?_⟩
    simp only [termLen] at hn
    by_cases h1 : isTermFirst c = true
    · exact Or.inl h1
    · right
      simp only [h1] at hn
      by_cases h2 : c = '\\'
      · exact h2
      · simp [h2] at hn

/-- a valid term (or reserved word) glued after a term continues it -/
theorem termStops_validTerm {k : TokK} {x r pv : Str} (hv : validTok k x = true)
    (hk : isTermKind k = true) : termStops pv (x ++ r) = false := by
  rcases validTok_cases hv with ⟨_, _, _, c, xs, rfl, hc⟩ | ⟨hk', _⟩
  · rcases hc with hc | rfl
    · simp [termStops, isTermFirst_next hc]
    · simp [termStops]
  · rw [hk] at hk'; cases hk'

/-- the boundary condition for a term glued after a valid token that it does not continue -/
theorem boundOK_after {k k' : TokK} {x x' r prev : Str} (hv : validTok k x = true)
    (hf : followOK k x (x' ++ r) = true) (hv' : validTok k' x' = true)
    (hk' : isTermKind k' = true) : boundOK (x.reverse ++ prev) = true := by
  rcases validTok_cases hv with ⟨hk, _⟩ | ⟨_, hb⟩
  · rw [followOK_termKind hk, termStops_validTerm hv' hk'] at hf; cases hf
  · exact hb prev

end Luqum
