/-
  Luqum.Lemmas.AhtGlueAht — what `auto_head_tail` (`aht`) guarantees, for C13 (iv):
  * `aht_spaced`: its result has a separator wherever one is needed (`spaced`);
  * `aht_startsDD`: it does not change whether the printed form of a canonical tree that is not an
    operation starts with two digits (no blank is inserted before the second character);
  * `safeAdj_aht`: the two bad adjacencies (KF8, KF9) are neither created nor removed;
  * `aht_some_of_canon`: it does not fail on a canonical tree.
-/
import Luqum.Lemmas.AhtGlueStrip

namespace Luqum.Lemmas.AhtGlue
open Luqum Luqum.Lemmas.Aht

/-! ### the separators -/

@[simp] theorem addHead_head_isEmpty (t : Tree) : (addHeadIfEmpty t).lay.head.isEmpty = false := by
  simp
@[simp] theorem addTail_tail_isEmpty (t : Tree) : (addTailIfEmpty t).lay.tail.isEmpty = false := by
  simp

theorem restOK_ahtRest (nh : Bool) : ∀ ys : List Tree, restOK nh (ahtRest ys) = true
  | [] => rfl
  | [y] => by simp [ahtRest, restOK]
  | y :: z :: r => by
    have ih := restOK_ahtRest nh (z :: r)
    obtain ⟨a, b, hab⟩ := ahtRest_cons z r
    simp only [ahtRest]
    rw [hab] at ih ⊢
    simp [restOK] at ih ⊢
    exact ih

theorem operandsOK_ahtOperands (nh : Bool) : ∀ xs : List Tree, operandsOK nh (ahtOperands xs) = true
  | [] => rfl
  | [x] => by simp [operandsOK, restOK]
  | x :: y :: r => by
    have ih := restOK_ahtRest nh (y :: r)
    obtain ⟨a, b, hab⟩ := ahtRest_cons y r
    rw [ahtOperands_cons_cons]
    rw [hab] at ih ⊢
    simp [operandsOK, ih]

theorem restOK_ahtUnk : ∀ ys : List Tree, restOK false (ahtUnknownOperands ys) = true
  | [] => rfl
  | [y] => by simp [restOK]
  | y :: z :: r => by
    have ih := restOK_ahtUnk (z :: r)
    obtain ⟨a, b, hab⟩ := ahtUnk_cons z r
    rw [ahtUnk_cons_cons]
    rw [hab] at ih ⊢
    simp [restOK] at ih ⊢
    exact ih

theorem operandsOK_ahtUnk : ∀ xs : List Tree, operandsOK false (ahtUnknownOperands xs) = true
  | [] => rfl
  | [x] => by simp [operandsOK, restOK]
  | x :: y :: r => by
    rw [ahtUnk_cons_cons]
    simp [operandsOK, restOK_ahtUnk (y :: r)]

theorem spaceds_ahtRest : ∀ ys : List Tree, spaceds (ahtRest ys) = spaceds ys
  | [] => rfl
  | [y] => by simp [ahtRest, spaceds]
  | y :: z :: r => by
    have ih := spaceds_ahtRest (z :: r)
    simp only [ahtRest] at ih ⊢
    simp only [spaceds] at ih ⊢
    rw [ih]; simp

theorem spaceds_ahtOperands : ∀ xs : List Tree, spaceds (ahtOperands xs) = spaceds xs
  | [] => rfl
  | [x] => by simp [spaceds]
  | x :: y :: r => by
    rw [ahtOperands_cons_cons]
    simp only [spaceds, spaceds_ahtRest (y :: r), spaced_addTail]

theorem spaceds_ahtUnk : ∀ xs : List Tree, spaceds (ahtUnknownOperands xs) = spaceds xs
  | [] => rfl
  | [x] => rfl
  | x :: y :: r => by
    rw [ahtUnk_cons_cons]
    simp only [spaceds, spaceds_ahtUnk (y :: r), spaced_addTail]

theorem safeAdjs_ahtRest : ∀ ys : List Tree, safeAdjs (ahtRest ys) = safeAdjs ys
  | [] => rfl
  | [y] => by simp [ahtRest, safeAdjs]
  | y :: z :: r => by
    have ih := safeAdjs_ahtRest (z :: r)
    simp only [ahtRest] at ih ⊢
    simp only [safeAdjs] at ih ⊢
    rw [ih]; simp

theorem safeAdjs_ahtOperands : ∀ xs : List Tree, safeAdjs (ahtOperands xs) = safeAdjs xs
  | [] => rfl
  | [x] => by simp [safeAdjs]
  | x :: y :: r => by
    rw [ahtOperands_cons_cons]
    simp only [safeAdjs, safeAdjs_ahtRest (y :: r), safeAdj_addTail]

theorem safeAdjs_ahtUnk : ∀ xs : List Tree, safeAdjs (ahtUnknownOperands xs) = safeAdjs xs
  | [] => rfl
  | [x] => rfl
  | x :: y :: r => by
    rw [ahtUnk_cons_cons]
    simp only [safeAdjs, safeAdjs_ahtUnk (y :: r), safeAdj_addTail]

mutual
/-- **the result of `auto_head_tail` has a separator wherever one is needed** (any input tree) -/
theorem aht_spaced : ∀ (t : Tree) {t' : Tree}, aht t = some t' → spaced t' = true
  | .term k v l, t', h => by simp [aht] at h; subst h; rfl
  | .none l, t', h => by simp [aht] at h; subst h; rfl
  | .field n e l, t', h => by
    simp [aht] at h; obtain ⟨e', he, rfl⟩ := h; simp [spaced, aht_spaced e he]
  | .group k e l, t', h => by
    simp [aht] at h; obtain ⟨e', he, rfl⟩ := h; simp [spaced, aht_spaced e he]
  | .approx k e n l, t', h => by
    simp [aht] at h; obtain ⟨e', he, rfl⟩ := h; simp [spaced, aht_spaced e he]
  | .boost e n l, t', h => by
    simp [aht] at h; obtain ⟨e', he, rfl⟩ := h; simp [spaced, aht_spaced e he]
  | .orange k e i l, t', h => by
    simp [aht] at h; obtain ⟨e', he, rfl⟩ := h; simp [spaced, aht_spaced e he]
  | .unary k e l, t', h => by
    cases k <;> simp [aht] at h <;> obtain ⟨e', he, rfl⟩ := h
    · simp [spaced, aht_spaced e he]
    · simp [spaced, aht_spaced e he]
    · simp [spaced, aht_spaced e he]
  | .range a b il ih l, t', h => by
    simp only [aht] at h
    split at h
    · next a' b' ha hb =>
      simp at h; subst h
      simp [spaced, aht_spaced a ha, aht_spaced b hb]
    · simp at h
  | .op k xs l, t', h => by
    simp only [aht] at h
    split at h
    · simp at h
    · next xs' hx =>
      have ih := ahtList_spaceds xs hx
      split at h
      · next hk =>
        simp at h; subst h
        have hk' : k = .unk := by simpa using hk
        subst hk'
        simp [spaced, operandsOK_ahtUnk, spaceds_ahtUnk, ih]
      · split at h
        · simp at h
        · simp at h; subst h
          simp [spaced, operandsOK_ahtOperands, spaceds_ahtOperands, ih]
theorem ahtList_spaceds : ∀ (xs : List Tree) {xs' : List Tree}, ahtList xs = some xs' →
    spaceds xs' = true
  | [], xs', h => by simp [ahtList] at h; subst h; rfl
  | x :: r, xs', h => by
    simp only [ahtList] at h
    split at h
    · next x' r' hx hr =>
      simp at h; subst h
      simp [spaceds, aht_spaced x hx, ahtList_spaceds r hr]
    · simp at h
end

/-! ### the first two characters -/

theorem unK_word (k : UnK) : ∃ c w, k.word = c :: w ∧ isDigitU c = false := by
  cases k
  · exact ⟨'+', [], rfl, by decide +kernel⟩
  · exact ⟨'N', ['O', 'T'], rfl, by decide +kernel⟩
  · exact ⟨'-', [], rfl, by decide +kernel⟩

theorem orK_word (k : ORK) : ∃ c, k.word = [c] ∧ isDigitU c = false := by
  cases k
  · exact ⟨'>', rfl, by decide +kernel⟩
  · exact ⟨'<', rfl, by decide +kernel⟩

/-- **`auto_head_tail` does not change whether the printed form starts with two digits**, for a
canonical tree that is not an operation: the first token is printed as it was, and what follows it
(a `:`, `~`, `^`, the end) is not a digit.  `A` is printed before, `R` / `R'` after. -/
theorem aht_startsDD : ∀ (e : Tree) {e' : Tree} (uf : Bool), aht e = some e' →
    CanonAt uf e = true → isOp' e = false → ∀ (A R R' : Str), contOK R = true → contOK R' = true →
    startsDD (A ++ (e'.full .norm ++ R)) = startsDD (A ++ (e.full .norm ++ R'))
  | .term k v l, e', _, h, _, _, A, R, R', hR, hR' => by
    simp [aht] at h; subst h
    simp only [Tree.full, noName_head, noName_tail]
    have := startsDD_cont2 hR hR' (A ++ (l.head ++ v ++ l.tail))
    simpa [List.append_assoc] using this
  | .none l, e', _, _, hc, _, _, _, _, _, _ => by simp [CanonAt] at hc
  | .op k xs l, e', _, _, _, ho, _, _, _, _, _ => by simp [isOp'] at ho
  | .field n e l, e', _, h, _, _, A, R, R', _, _ => by
    simp [aht] at h; obtain ⟨e2, _, rfl⟩ := h
    have := startsDD_cut (c := ':') (by decide +kernel) (A ++ (l.head ++ n))
      (e2.full .norm ++ (l.tail ++ R)) (e.full .norm ++ (l.tail ++ R'))
    simpa [Tree.full, List.append_assoc] using this
  | .group k e l, e', _, h, _, _, A, R, R', _, _ => by
    simp [aht] at h; obtain ⟨e2, _, rfl⟩ := h
    have := startsDD_cut (c := '(') (by decide +kernel) (A ++ l.head)
      (e2.full .norm ++ (')' :: (l.tail ++ R))) (e.full .norm ++ (')' :: (l.tail ++ R')))
    simpa [Tree.full, List.append_assoc] using this
  | .range a b il ih l, e', _, h, _, _, A, R, R', _, _ => by
    simp only [aht] at h
    split at h
    · next a' b' ha hb =>
      simp at h; subst h
      have hd : isDigitU (if il then '[' else '{') = false := by cases il <;> decide +kernel
      have := startsDD_cut hd (A ++ l.head)
        ((addTailIfEmpty a').full .norm ++ ("TO".toList ++ ((addHeadIfEmpty b').full .norm ++
          ((if ih then ']' else '}') :: (l.tail ++ R)))))
        (a.full .norm ++ ("TO".toList ++ (b.full .norm ++ ((if ih then ']' else '}') :: (l.tail ++ R')))))
      simpa [Tree.full, List.append_assoc] using this
    · simp at h
  | .unary k e l, e', _, h, _, _, A, R, R', _, _ => by
    obtain ⟨c, w, hw, hd⟩ := unK_word k
    have key : ∀ e2 : Tree, startsDD (A ++ ((Tree.unary k e2 l.noName).full .norm ++ R)) =
        startsDD (A ++ ((Tree.unary k e l).full .norm ++ R')) := by
      intro e2
      have := startsDD_cut hd (A ++ l.head) (w ++ (e2.full .norm ++ (l.tail ++ R)))
        (w ++ (e.full .norm ++ (l.tail ++ R')))
      simpa [Tree.full, hw, List.append_assoc] using this
    cases k <;> simp [aht] at h <;> obtain ⟨e2, _, rfl⟩ := h <;> exact key _
  | .orange k e inc l, e', _, h, _, _, A, R, R', _, _ => by
    simp [aht] at h; obtain ⟨e2, _, rfl⟩ := h
    obtain ⟨c, hw, hd⟩ := orK_word k
    have := startsDD_cut hd (A ++ l.head)
      ((if inc then ['='] else []) ++ (e2.full .norm ++ (l.tail ++ R)))
      ((if inc then ['='] else []) ++ (e.full .norm ++ (l.tail ++ R')))
    simpa [Tree.full, hw, List.append_assoc] using this
  | .approx k e n l, e', _, h, hc, _, A, R, R', _, _ => by
    simp [aht] at h; obtain ⟨e2, he, rfl⟩ := h
    have hfull : e2.full .norm = e.full .norm := by
      cases e with
      | term kk v lt => simp [aht] at he; subst he; simp [Tree.full]
      | _ => cases k <;> simp [CanonAt, isWord, isPhrase] at hc
    have := startsDD_cut (c := '~') (by decide +kernel) (A ++ (l.head ++ e.full .norm))
      (n.text .norm ++ (l.tail ++ R)) (n.text .norm ++ (l.tail ++ R'))
    simpa [Tree.full, hfull, List.append_assoc] using this
  | .boost e n l, e', _, h, hc, _, A, R, R', hR, hR' => by
    simp [aht] at h; obtain ⟨e2, he, rfl⟩ := h
    simp only [CanonAt, Bool.and_eq_true, Bool.not_eq_true'] at hc
    have := aht_startsDD e false he hc.1.1.1 hc.1.1.2 (A ++ l.head)
      ('^' :: (n.text .norm ++ (l.tail ++ R))) ('^' :: (n.text .norm ++ (l.tail ++ R')))
      (contOK_cons stopC_fixed.2.2.2.2 _) (contOK_cons stopC_fixed.2.2.2.2 _)
    simpa [Tree.full, List.append_assoc] using this

/-! ### the bad adjacencies are neither created nor removed -/

/-- a term is returned as it is (up to the attached name) -/
theorem aht_term_full {e e' : Tree} (hw : isWP e = true) (h : aht e = some e') (s : NumStyle) :
    e'.full s = e.full s ∧ safeAdj e' = true := by
  cases e with
  | term k v l => simp [aht] at h; subst h; simp [Tree.full, safeAdj]
  | _ => simp [isWP] at hw

theorem safeAdj_of_bound {a a' : Tree} (hb : isBound a = true) (h : aht a = some a') :
    safeAdj a' = true := by
  cases a with
  | term k v l => simp [aht] at h; subst h; rfl
  | unary k e l =>
    cases k <;> simp [isBound] at hb
    simp [aht] at h; obtain ⟨e', he, rfl⟩ := h
    simp [safeAdj, (aht_term_full hb he .norm).2]
  | _ => simp [isBound] at hb

mutual
/-- **`auto_head_tail` keeps `safeAdj`** on canonical trees: it inserts no separator between a field
name, its `:` and the value, nor after `<` / `>`, and does not change how the value starts -/
theorem safeAdj_aht : ∀ (t : Tree) {t' : Tree} (uf : Bool), aht t = some t' → CanonAt uf t = true →
    safeAdj t = true → safeAdj t' = true
  | .term k v l, t', _, h, _, _ => by simp [aht] at h; subst h; rfl
  | .none l, t', _, h, _, _ => by simp [aht] at h; subst h; rfl
  | .field n e l, t', _, h, hc, hs => by
    simp [aht] at h; obtain ⟨e', he, rfl⟩ := h
    simp only [CanonAt, Bool.and_eq_true, Bool.not_eq_true'] at hc
    simp only [safeAdj, Bool.and_eq_true] at hs ⊢
    have hdd := aht_startsDD e true he hc.1 hc.2 [] [] [] rfl rfl
    simp only [List.nil_append, List.append_nil] at hdd
    rw [hdd]
    exact ⟨hs.1, safeAdj_aht e true he hc.1 hs.2⟩
  | .group k e l, t', _, h, hc, hs => by
    simp [aht] at h; obtain ⟨e', he, rfl⟩ := h
    simp only [CanonAt, Bool.and_eq_true] at hc
    simp only [safeAdj] at hs ⊢
    exact safeAdj_aht e false he hc.2 hs
  | .approx k e n l, t', _, h, hc, hs => by
    simp [aht] at h; obtain ⟨e', he, rfl⟩ := h
    simp only [safeAdj]
    have hw : isWP e = true := by
      cases e with
      | term kk v lt => cases kk <;> cases k <;> simp_all [CanonAt, isWord, isPhrase, isWP]
      | _ => cases k <;> simp [CanonAt, isWord, isPhrase] at hc
    exact (aht_term_full hw he .norm).2
  | .boost e n l, t', _, h, hc, hs => by
    simp [aht] at h; obtain ⟨e', he, rfl⟩ := h
    simp only [CanonAt, Bool.and_eq_true] at hc
    simp only [safeAdj] at hs ⊢
    exact safeAdj_aht e false he hc.1.1.1 hs
  | .orange k e i l, t', _, h, hc, hs => by
    simp [aht] at h; obtain ⟨e', he, rfl⟩ := h
    simp only [CanonAt] at hc
    simp only [safeAdj, Bool.and_eq_true] at hs ⊢
    obtain ⟨h1, h2⟩ := aht_term_full hc he .norm
    rw [h1]
    exact ⟨hs.1, h2⟩
  | .unary k e l, t', _, h, hc, hs => by
    simp only [CanonAt, Bool.and_eq_true] at hc
    simp only [safeAdj] at hs
    cases k <;> simp [aht] at h <;> obtain ⟨e', he, rfl⟩ := h <;>
      simp only [safeAdj, safeAdj_addHead] <;> exact safeAdj_aht e false he hc.1 hs
  | .range a b il ih l, t', _, h, hc, hs => by
    simp only [aht] at h
    split at h
    · next a' b' ha hb =>
      simp at h; subst h
      simp only [CanonAt, Bool.and_eq_true] at hc
      simp [safeAdj, safeAdj_of_bound hc.1 ha, safeAdj_of_bound hc.2 hb]
    · simp at h
  | .op k xs l, t', _, h, hc, hs => by
    simp only [CanonAt, Bool.and_eq_true] at hc
    simp only [safeAdj] at hs
    simp only [aht] at h
    split at h
    · simp at h
    · next xs' hx =>
      have ih := ahtList_safeAdjs xs hx hc.1.2 hs
      split at h
      · simp at h; subst h; simp [safeAdj, safeAdjs_ahtUnk, ih]
      · split at h
        · simp at h
        · simp at h; subst h; simp [safeAdj, safeAdjs_ahtOperands, ih]
theorem ahtList_safeAdjs : ∀ (xs : List Tree) {xs' : List Tree}, ahtList xs = some xs' →
    CanonsAt xs = true → safeAdjs xs = true → safeAdjs xs' = true
  | [], xs', h, _, _ => by simp [ahtList] at h; subst h; rfl
  | x :: r, xs', h, hc, hs => by
    simp only [CanonsAt, Bool.and_eq_true] at hc
    simp only [safeAdjs, Bool.and_eq_true] at hs
    simp only [ahtList] at h
    split at h
    · next x' r' hx hr =>
      simp at h; subst h
      simp [safeAdjs, safeAdj_aht x false hx hc.1 hs.1, ahtList_safeAdjs r hr hc.2 hs.2]
    · simp at h
end

/-! ### no failure on canonical trees -/

theorem aht_some_of_bound {a : Tree} (hb : isBound a = true) : (aht a).isSome = true := by
  cases a with
  | term k v l => rfl
  | unary k e l =>
    cases k <;> simp [isBound] at hb
    cases e with
    | term kk v lt => simp [aht]
    | _ => simp [isWP] at hb
  | _ => simp [isBound] at hb

mutual
/-- `auto_head_tail` does not fail on a canonical tree (its operations have two operands at least) -/
theorem aht_some_of_canon : ∀ (uf : Bool) (t : Tree), CanonAt uf t = true → (aht t).isSome = true
  | _, .term .., _ => rfl
  | _, .none _, h => by simp [CanonAt] at h
  | _, .field _ e _, h => by
    simp only [CanonAt, Bool.and_eq_true] at h
    have := aht_some_of_canon true e h.1
    simp [aht, this]
  | uf, .group k e _, h => by
    simp only [CanonAt, Bool.and_eq_true] at h
    have := aht_some_of_canon false e h.2
    simp [aht, this]
  | _, .boost e _ _, h => by
    simp only [CanonAt, Bool.and_eq_true] at h
    have := aht_some_of_canon false e h.1.1.1
    simp [aht, this]
  | _, .unary k e _, h => by
    simp only [CanonAt, Bool.and_eq_true] at h
    have := aht_some_of_canon false e h.1
    cases k <;> simp [aht, this]
  | _, .approx k e _ _, h => by
    cases k <;> simp only [CanonAt] at h <;> cases e <;> simp_all [isWord, isPhrase, aht]
  | _, .orange _ e _ _, h => by
    simp only [CanonAt] at h
    cases e <;> simp_all [isWP, aht]
  | _, .range lo hi _ _ _, h => by
    simp only [CanonAt, Bool.and_eq_true] at h
    have h1 := aht_some_of_bound h.1
    have h2 := aht_some_of_bound h.2
    simp only [aht]
    cases ha : aht lo <;> cases hb : aht hi <;> simp_all
  | _, .op k xs _, h => by
    simp only [CanonAt, Bool.and_eq_true, decide_eq_true_eq] at h
    have hl := ahtList_some_of_canon xs h.1.2
    simp only [aht]
    cases hx : ahtList xs with
    | none => rw [hx] at hl; cases hl
    | some xs' =>
      have he := ahtList_isEmpty hx
      have hne : xs.isEmpty = false := by cases xs <;> simp_all
      by_cases hk : (k == OpK.unk) = true
      · simp [hk]
      · simp [hk, he, hne]
theorem ahtList_some_of_canon : ∀ xs : List Tree, CanonsAt xs = true → (ahtList xs).isSome = true
  | [], _ => rfl
  | x :: r, h => by
    simp only [CanonsAt, Bool.and_eq_true] at h
    have h1 := aht_some_of_canon false x h.1
    have h2 := ahtList_some_of_canon r h.2
    simp only [ahtList]
    cases ha : aht x <;> cases hb : ahtList r <;> simp_all
end

/-! ### the root -/

/-- `auto_head_tail` does not touch the head and the tail of the root -/
theorem aht_root_lay {t t' : Tree} (h : aht t = some t') : t'.lay = t.lay.noName := by
  cases t with
  | term k v l => simp [aht] at h; subst h; rfl
  | none l => simp [aht] at h; subst h; rfl
  | field n e l => simp [aht] at h; obtain ⟨e', _, rfl⟩ := h; rfl
  | group k e l => simp [aht] at h; obtain ⟨e', _, rfl⟩ := h; rfl
  | approx k e n l => simp [aht] at h; obtain ⟨e', _, rfl⟩ := h; rfl
  | boost e n l => simp [aht] at h; obtain ⟨e', _, rfl⟩ := h; rfl
  | orange k e i l => simp [aht] at h; obtain ⟨e', _, rfl⟩ := h; rfl
  | unary k e l => cases k <;> simp [aht] at h <;> obtain ⟨e', _, rfl⟩ := h <;> rfl
  | range a b il ih l =>
    simp only [aht] at h
    split at h
    · simp at h; subst h; rfl
    · simp at h
  | op k xs l =>
    simp only [aht] at h
    split at h
    · simp at h
    · split at h
      · simp at h; subst h; rfl
      · split at h
        · simp at h
        · simp at h; subst h; rfl

end Luqum.Lemmas.AhtGlue
