/-
  Luqum.Lemmas.PrettySpellTree — the chunks of a tree (`_get_chains`) are the texts of segments whose
  product, with the dropped heads and tails in between, is the piece list of the tree (`Factors`); hence
  any joined form of the chunks (`Joined`) is a loosened spelling of the pieces of the tree.
-/
import Luqum.Lemmas.PrettySpellJoin

namespace Luqum.PSpell
open Luqum Luqum.Pretty

/-! ### a piece list as a product of chunk segments -/

/-- `R` is the product of the segments `Ss`, with arbitrary separators before, between and after -/
inductive Factors : List Seg → Seg → Prop
  | nil (X : Str) : Factors [] (bl X)
  | cons (X : Str) {S : Seg} {r : List Seg} {R : Seg} : Factors r R → Factors (S :: r) (bl X ⋅ S ⋅ R)

theorem Factors.pre {Ss : List Seg} {R : Seg} (h : Factors Ss R) (X : Str) : Factors Ss (bl X ⋅ R) := by
  cases h with
  | nil Y => rw [bl_mul_bl]; exact .nil _
  | cons Y hr =>
    rw [← mul_assoc, ← mul_assoc, bl_mul_bl]
    exact .cons _ hr

theorem Factors.append {a b : List Seg} {A B : Seg} (ha : Factors a A) (hb : Factors b B) :
    Factors (a ++ b) (A ⋅ B) := by
  induction ha with
  | nil X => exact hb.pre X
  | cons X _ ih =>
    rw [mul_assoc]
    exact .cons X ih

theorem Factors.post {Ss : List Seg} {R : Seg} (h : Factors Ss R) (X : Str) : Factors Ss (R ⋅ bl X) := by
  have := Factors.append h (Factors.nil X)
  rwa [List.append_nil] at this

theorem Factors.single (S : Seg) : Factors [S] S := by
  have := Factors.cons [] (S := S) (Factors.nil [])
  rwa [one_mul, mul_one] at this

theorem Factors.unit : Factors [] (bl []) := .nil []

/-! ### the pieces of a tree as products -/

/-- the operator token of an operation, as a segment -/
def opS (k : OpK) : Seg :=
  match opTok k with
  | some (kk, w) => tk kk w
  | none => bl []

/-- the operands of an operation -/
def opsSeg (s : NumStyle) (k : OpK) : List Tree → Seg
  | [] => bl []
  | x :: r => x.pcs s [] ⋅ Tree.pcsTail s k r []

theorem seq_eq (A : Seg) (F : Str → Seg) (hF : ∀ pre, F pre = bl pre ⋅ F []) :
    (A.1 ++ (F A.2).1, (F A.2).2) = A ⋅ F [] := by
  rw [hF A.2, bl_mul]; rfl

theorem tk_mul (k : TokK) (x : Str) (Z : Seg) : tk k x ⋅ Z = (⟨[], k, x⟩ :: Z.1, Z.2) := by
  simp [tk, mul, addPre_nil]

theorem mul_tk (A : Seg) (k : TokK) (x : Str) : A ⋅ tk k x = (A.1 ++ [⟨A.2, k, x⟩], []) := by
  simp [tk, mul, addPre]

theorem mul_of_trail_nil (A B : Seg) (h : A.2 = []) : A ⋅ B = (A.1 ++ B.1, B.2) := by
  simp [mul, h, addPre_nil]

theorem tk_tk_mul (k1 : TokK) (x1 : Str) (k2 : TokK) (x2 : Str) (Z : Seg) :
    (tk k1 x1 ⋅ tk k2 x2) ⋅ Z = (⟨[], k1, x1⟩ :: ⟨[], k2, x2⟩ :: Z.1, Z.2) := by
  rw [mul_assoc, tk_mul k2, tk_mul k1]

theorem pcsTail_cons (s : NumStyle) (k : OpK) (y : Tree) (r : List Tree) :
    Tree.pcsTail s k (y :: r) [] = opS k ⋅ (y.pcs s [] ⋅ Tree.pcsTail s k r []) := by
  have h := seq_eq (y.pcs s []) (fun pre => Tree.pcsTail s k r pre) (pcsTail_pre_eq s k r)
  rcases opTok_word k with ⟨h1, _, _⟩ | ⟨kk, w, h1, _, _⟩
  · simp only [Tree.pcsTail, opS, h1, one_mul]
    exact h
  · simp only [Tree.pcsTail, opS, h1, tk_mul]
    rw [← h]
    rfl

theorem opsSeg_cons_cons (s : NumStyle) (k : OpK) (x y : Tree) (r : List Tree) :
    opsSeg s k (x :: y :: r) = x.pcs s [] ⋅ (opS k ⋅ opsSeg s k (y :: r)) := by
  simp only [opsSeg, pcsTail_cons]

theorem opsSeg_single (s : NumStyle) (k : OpK) (x : Tree) : opsSeg s k [x] = x.pcs s [] := by
  simp only [opsSeg, Tree.pcsTail]
  exact mul_one _

theorem pcs_op_cons (s : NumStyle) (k : OpK) (x : Tree) (xs : List Tree) (l : Luqum.Lay) :
    (Tree.op k (x :: xs) l).pcs s [] = bl l.head ⋅ opsSeg s k (x :: xs) ⋅ bl l.tail := by
  have h := seq_eq (x.pcs s ([] ++ l.head)) (fun pre => Tree.pcsTail s k xs pre) (pcsTail_pre_eq s k xs)
  have e : (Tree.op k (x :: xs) l).pcs s [] =
      (x.pcs s ([] ++ l.head) ⋅ Tree.pcsTail s k xs []) ⋅ bl l.tail := by
    rw [← h, mul_bl]; rfl
  rw [e, List.nil_append, pcs_pre_eq s x l.head]
  simp only [opsSeg, mul_assoc]

theorem pcs_group (s : NumStyle) (g : GrpK) (e : Tree) (l : Luqum.Lay) :
    (Tree.group g e l).pcs s [] =
      bl l.head ⋅ (tk .lparen ['('] ⋅ (e.pcs s [] ⋅ tk .rparen [')'])) ⋅ bl l.tail := by
  rw [mul_tk, tk_mul, bl_mul, mul_bl]
  simp [Tree.pcs, addPre]

theorem pcs_field (s : NumStyle) (n : Str) (e : Tree) (l : Luqum.Lay) :
    (Tree.field n e l).pcs s [] =
      bl l.head ⋅ ((tk .term n ⋅ tk .column [':']) ⋅ e.pcs s []) ⋅ bl l.tail := by
  rw [tk_tk_mul, bl_mul, mul_bl]
  simp [Tree.pcs, addPre]

/-- a node printed by `str`: its pieces are those of the tree without the head and the tail of its
root, between two separators -/
theorem pcs_leaf (s : NumStyle) (t : Tree) :
    ∃ H T, t.pcs s [] = bl H ⋅ (bare t).pcs s [] ⋅ bl T := by
  cases hn : t.isNone with
  | true =>
    cases t <;> simp [Tree.isNone] at hn
    exact ⟨[], [], by simp [bare, Tree.setLay, Tree.pcs, bl, mul, addPre]⟩
  | false =>
    refine ⟨t.lay.head, t.lay.tail, ?_⟩
    rw [Tree.pcs_lay s t hn [], bl_mul, mul_bl]
    rfl

theorem str_leaf (t : Tree) : t.str = Seg.str ((bare t).pcs .norm []) := by
  unfold Tree.str Seg.str
  rw [Tree.body_eq_bare, Tree.full_eq_spell]

theorem chunks_opSeparators (inline : Bool) (k : OpK) :
    ∃ Ss : List Seg, chunks (opSeparators inline k.word) = Ss.map Seg.str ∧ Factors Ss (opS k) := by
  rcases opTok_word k with ⟨h1, h2, _⟩ | ⟨kk, w, h1, h2, _⟩
  · refine ⟨[], ?_, by simp only [opS, h1]; exact Factors.unit⟩
    unfold opSeparators
    cases inline <;> simp [h2]
  · have hw : w ≠ [] := by
      cases k <;> simp [opTok] at h1 <;> (rw [← h1.2]; decide)
    refine ⟨[tk kk w], ?_, by simp only [opS, h1]; exact Factors.single _⟩
    unfold opSeparators
    rw [h2]
    cases inline <;> simp [hw, str_tk]

mutual
/-- **the chunks of a tree** are the texts of segments whose product is the piece list of the tree -/
theorem getChains_lay (inline : Bool) : ∀ (t : Tree) (p : Option Str),
    ∃ Ss : List Seg, chunks (getChains inline p t) = Ss.map Seg.str ∧ Factors Ss (t.pcs .norm [])
  | .op k xs l, p => by
    have hc : chunks (getChains inline p (.op k xs l)) = chunks (getChainsOperands inline k.word xs) := by
      simp only [getChains]
      cases p with
      | none => rfl
      | some p =>
        simp only
        split
        · rfl
        · simp
    cases xs with
    | nil =>
      refine ⟨[], by rw [hc]; simp [getChainsOperands], ?_⟩
      simp only [Tree.pcs, List.nil_append]
      exact Factors.nil _
    | cons x r =>
      obtain ⟨Ss, h1, h2⟩ := getChainsOperands_lay inline k (x :: r)
      refine ⟨Ss, hc.trans h1, ?_⟩
      rw [pcs_op_cons]
      exact (h2.pre _).post _
  | .group g e l, p => by
    obtain ⟨Ss, h1, h2⟩ := getChains_lay inline e none
    refine ⟨tk .lparen ['('] :: Ss ++ [tk .rparen [')']], ?_, ?_⟩
    · simp only [getChains]
      cases inline <;> simp [h1, str_tk]
    · rw [pcs_group]
      have := Factors.append (Factors.single (tk .lparen ['('])) (Factors.append h2 (Factors.single (tk .rparen [')'])))
      exact (this.pre _).post _
  | .field n e l, p => by
    obtain ⟨Ss, h1, h2⟩ := getChains_lay inline e none
    refine ⟨(tk .term n ⋅ tk .column [':']) :: Ss, ?_, ?_⟩
    · simp [getChains, h1, str_mul, str_tk]
    · rw [pcs_field]
      have := Factors.append (Factors.single (tk .term n ⋅ tk .column [':'])) h2
      exact (this.pre _).post _
  | .term k v l, p => leaf_lay inline _ p rfl
  | .range a b il ih l, p => leaf_lay inline _ p rfl
  | .approx k e n l, p => leaf_lay inline _ p rfl
  | .boost e n l, p => leaf_lay inline _ p rfl
  | .unary k a l, p => leaf_lay inline _ p rfl
  | .orange k a inc l, p => leaf_lay inline _ p rfl
  | .none l, p => leaf_lay inline _ p rfl
theorem getChainsOperands_lay (inline : Bool) (k : OpK) : ∀ xs : List Tree,
    ∃ Ss : List Seg, chunks (getChainsOperands inline k.word xs) = Ss.map Seg.str ∧
      Factors Ss (opsSeg .norm k xs)
  | [] => ⟨[], by simp [getChainsOperands], Factors.unit⟩
  | [x] => by
    obtain ⟨Ss, h1, h2⟩ := getChains_lay inline x (some k.word)
    exact ⟨Ss, by simpa [getChainsOperands] using h1, by rw [opsSeg_single]; exact h2⟩
  | x :: y :: r => by
    obtain ⟨S1, h1, h2⟩ := getChains_lay inline x (some k.word)
    obtain ⟨S2, h3, h4⟩ := chunks_opSeparators inline k
    obtain ⟨S3, h5, h6⟩ := getChainsOperands_lay inline k (y :: r)
    refine ⟨S1 ++ (S2 ++ S3), ?_, ?_⟩
    · simp only [getChainsOperands, chunks_append, h1, h3, h5, List.map_append, List.append_assoc]
    · rw [opsSeg_cons_cons]
      exact Factors.append h2 (Factors.append h4 h6)
/-- a node that `_get_chains` yields as `str(node)` -/
theorem leaf_lay (inline : Bool) (t : Tree) (p : Option Str)
    (h : getChains inline p t = [Chain.str t.str]) :
    ∃ Ss : List Seg, chunks (getChains inline p t) = Ss.map Seg.str ∧ Factors Ss (t.pcs .norm []) := by
  obtain ⟨H, T, e⟩ := pcs_leaf .norm t
  refine ⟨[(bare t).pcs .norm []], ?_, ?_⟩
  · rw [h]; simp [str_leaf]
  · rw [e]
    exact Factors.cons H (Factors.nil T)
end

/-! ### blank separators and newline-free texts pass to the factors -/

/-- blank separators and a blank trailing separator -/
def BlankSeg (A : Seg) : Prop := (∀ p ∈ A.1, isBlank p.sep = true) ∧ isBlank A.2 = true

/-- no newline in a token text -/
def NoNlSeg (A : Seg) : Prop := ∀ p ∈ A.1, '\n' ∉ p.text

theorem blankSeg_mul_inv {A B : Seg} (h : BlankSeg (A ⋅ B)) : BlankSeg A ∧ BlankSeg B := by
  obtain ⟨a, x⟩ := A
  obtain ⟨b, y⟩ := B
  obtain ⟨h1, h2⟩ := h
  cases b with
  | nil =>
    simp only [mul, addPre, List.append_nil, isBlank_append, Bool.and_eq_true] at h1 h2
    exact ⟨⟨h1, h2.1⟩, ⟨by simp, h2.2⟩⟩
  | cons p bs =>
    simp only [mul, addPre, List.mem_append, List.mem_cons] at h1 h2
    have hp := h1 _ (Or.inr (Or.inl rfl))
    simp only [isBlank_append, Bool.and_eq_true] at hp
    refine ⟨⟨fun q hq => h1 q (Or.inl hq), hp.1⟩, ⟨fun q hq => ?_, h2⟩⟩
    simp only [List.mem_cons] at hq
    rcases hq with rfl | hq
    · exact hp.2
    · exact h1 q (Or.inr (Or.inr hq))

theorem noNlSeg_mul_inv {A B : Seg} (h : NoNlSeg (A ⋅ B)) : NoNlSeg A ∧ NoNlSeg B := by
  obtain ⟨a, x⟩ := A
  obtain ⟨b, y⟩ := B
  cases b with
  | nil =>
    simp only [NoNlSeg, mul, addPre, List.append_nil] at h
    exact ⟨h, by simp [NoNlSeg]⟩
  | cons p bs =>
    simp only [NoNlSeg, mul, addPre, List.mem_append, List.mem_cons] at h
    refine ⟨fun q hq => h q (Or.inl hq), fun q hq => ?_⟩
    simp only [List.mem_cons] at hq
    rcases hq with rfl | hq
    · exact h ⟨x ++ q.sep, q.kind, q.text⟩ (Or.inr (Or.inl rfl))
    · exact h q (Or.inr (Or.inr hq))

/-! ### joined chunks are a loosened spelling -/

theorem Joined.one_inv {s o : Str} (h : Joined [s] o) :
    ∃ P s', isBlank P = true ∧ Blur s s' ∧ o = P ++ s' := by
  cases h with
  | one h1 h2 => exact ⟨_, _, h1, h2, rfl⟩

theorem Joined.cons_inv {s y o : Str} {r : List Str} (h : Joined (s :: y :: r) o) :
    ∃ P s' J o', isBlank P = true ∧ Blur s s' ∧ J ≠ [] ∧ isBlank J = true ∧ Joined (y :: r) o' ∧
      o = P ++ s' ++ J ++ o' := by
  cases h with
  | cons h1 h2 h3 h4 h5 => exact ⟨_, _, _, _, h1, h2, h3, h4, h5, rfl⟩

theorem blur_seg {S : Seg} {s' : Str} (h : Blur S.str s') (hb : BlankSeg S) (hn : NoNlSeg S) :
    ∃ S' : Seg, s' = S'.str ∧ SLoose S S' := by
  obtain ⟨qs, tr', e, h1, h2⟩ := Blur.spell h hb.1 hb.2 hn
  exact ⟨(qs, tr'), e, h1.toLoose1, h2⟩

/-- **any joined form of the chunks is a loosened spelling of the product** -/
theorem lay_joined : ∀ (Ss : List Seg) (R : Seg) (out : Str), Factors Ss R → BlankSeg R → NoNlSeg R →
    Joined (Ss.map Seg.str) out → ∃ Q : Seg, out = Q.str ∧ SLoose R Q
  | [], R, out, _, _, _, hj => absurd rfl hj.ne_nil
  | [S], R, out, hL, hb, hn, hj => by
    cases hL with
    | cons X hr =>
      cases hr with
      | nil Y =>
        obtain ⟨P, s', hP, hB, rfl⟩ := Joined.one_inv (by simpa using hj)
        have hbS := (blankSeg_mul_inv (blankSeg_mul_inv hb).1).2
        have hnS := (noNlSeg_mul_inv (noNlSeg_mul_inv hn).1).2
        obtain ⟨S', rfl, hS⟩ := blur_seg hB hbS hnS
        refine ⟨bl P ⋅ S' ⋅ bl [], by rw [str_mul, str_mul, str_bl, str_bl, List.append_nil], ?_⟩
        exact (hS.pre X hP).post Y rfl
  | S :: S2 :: r, R, out, hL, hb, hn, hj => by
    cases hL with
    | @cons X _ _ R' hr =>
      obtain ⟨P, s', J, o', hP, hB, hJ, hJb, hj', rfl⟩ := Joined.cons_inv (by simpa using hj)
      have hb1 := blankSeg_mul_inv hb
      have hn1 := noNlSeg_mul_inv hn
      obtain ⟨Q', rfl, hQ⟩ := lay_joined (S2 :: r) R' o' hr hb1.2 hn1.2 (by simpa using hj')
      obtain ⟨S', rfl, hS⟩ := blur_seg hB (blankSeg_mul_inv hb1.1).2 (noNlSeg_mul_inv hn1.1).2
      refine ⟨bl P ⋅ S' ⋅ bl J ⋅ Q', by simp only [str_mul, str_bl], ?_⟩
      have := SLoose.comp (hS.pre X hP) hQ [] hJ hJb
      rwa [mul_one] at this

end Luqum.PSpell
