/-
  Luqum.Lemmas.Aht — helper definitions and lemmas for C13 (`auto_head_tail`).

  * `addHeadIfEmpty` / `addTailIfEmpty` algebra, recursive forms of `ahtOperands`
  * `LayOk`, `layRel` / `layRels`: "same tree, layout only changed by inserting single blanks into
    empty heads / tails, names dropped" and its consequences (equality, paths, printing)
  * `aht_layRel` : the central invariant of `aht`
-/
import Luqum.Model.Transform
import Luqum.Props.C09

namespace Luqum.Lemmas.Aht
open Luqum

/-! ### layout setters -/

@[simp] theorem lay_setLay (t : Tree) (l : Lay) : (t.setLay l).lay = l := by cases t <;> rfl
@[simp] theorem setLay_setLay (t : Tree) (l l2 : Lay) : (t.setLay l).setLay l2 = t.setLay l2 := by
  cases t <;> rfl
@[simp] theorem setLay_lay (t : Tree) : t.setLay t.lay = t := by cases t <;> rfl
@[simp] theorem noName_noName (l : Lay) : l.noName.noName = l.noName := rfl
@[simp] theorem noName_head (l : Lay) : l.noName.head = l.head := rfl
@[simp] theorem noName_tail (l : Lay) : l.noName.tail = l.tail := rfl
@[simp] theorem noName_pos (l : Lay) : l.noName.pos = l.pos := rfl
@[simp] theorem noName_size (l : Lay) : l.noName.size = l.size := rfl
@[simp] theorem noName_name (l : Lay) : l.noName.name = none := rfl

theorem className_setLay (t : Tree) (l : Lay) : (t.setLay l).className = t.className := by
  cases t with
  | term k _ _ => cases k <;> rfl
  | group k _ _ => cases k <;> rfl
  | approx k _ _ _ => cases k <;> rfl
  | op k _ _ => cases k <;> rfl
  | unary k _ _ => cases k <;> rfl
  | orange k _ _ _ => cases k <;> rfl
  | _ => rfl

theorem children_setLay (t : Tree) (l : Lay) : (t.setLay l).children = t.children := by
  cases t <;> rfl

/-- `add_head` / `add_tail` only touch the layout -/
theorem addHead_eq_setLay (t : Tree) :
    addHeadIfEmpty t = t.setLay { t.lay with head := if t.lay.head = [] then spacer else t.lay.head } := by
  unfold addHeadIfEmpty Tree.setHead Tree.head
  by_cases h : t.lay.head = [] <;> simp [h] <;> cases t <;> rfl

theorem addTail_eq_setLay (t : Tree) :
    addTailIfEmpty t = t.setLay { t.lay with tail := if t.lay.tail = [] then spacer else t.lay.tail } := by
  unfold addTailIfEmpty Tree.setTail Tree.tail
  by_cases h : t.lay.tail = [] <;> simp [h] <;> cases t <;> rfl

theorem addHead_of_ne (t : Tree) (h : t.lay.head ≠ []) : addHeadIfEmpty t = t := by
  simp [addHead_eq_setLay, h]; cases t <;> rfl
theorem addTail_of_ne (t : Tree) (h : t.lay.tail ≠ []) : addTailIfEmpty t = t := by
  simp [addTail_eq_setLay, h]; cases t <;> rfl

@[simp] theorem addHead_head_ne (t : Tree) : (addHeadIfEmpty t).lay.head ≠ [] := by
  rw [addHead_eq_setLay]; simp; split <;> simp_all [spacer]
@[simp] theorem addTail_tail_ne (t : Tree) : (addTailIfEmpty t).lay.tail ≠ [] := by
  rw [addTail_eq_setLay]; simp; split <;> simp_all [spacer]
@[simp] theorem addHead_tail (t : Tree) : (addHeadIfEmpty t).lay.tail = t.lay.tail := by
  rw [addHead_eq_setLay]; simp
@[simp] theorem addTail_head (t : Tree) : (addTailIfEmpty t).lay.head = t.lay.head := by
  rw [addTail_eq_setLay]; simp
@[simp] theorem addHead_name (t : Tree) : (addHeadIfEmpty t).lay.name = t.lay.name := by
  rw [addHead_eq_setLay]; simp
@[simp] theorem addTail_name (t : Tree) : (addTailIfEmpty t).lay.name = t.lay.name := by
  rw [addTail_eq_setLay]; simp

@[simp] theorem addHead_addHead (t : Tree) : addHeadIfEmpty (addHeadIfEmpty t) = addHeadIfEmpty t :=
  addHead_of_ne _ (by simp)
@[simp] theorem addTail_addTail (t : Tree) : addTailIfEmpty (addTailIfEmpty t) = addTailIfEmpty t :=
  addTail_of_ne _ (by simp)
@[simp] theorem addTail_addHead_addTail (t : Tree) :
    addTailIfEmpty (addHeadIfEmpty (addTailIfEmpty t)) = addHeadIfEmpty (addTailIfEmpty t) :=
  addTail_of_ne _ (by simp)
@[simp] theorem addHead_addTail_addHead (t : Tree) :
    addHeadIfEmpty (addTailIfEmpty (addHeadIfEmpty t)) = addTailIfEmpty (addHeadIfEmpty t) :=
  addHead_of_ne _ (by simp)

/-! ### recursive form of `ahtOperands` -/

/-- what `visit_base_operation` does to the operands after the first one -/
def ahtRest : List Tree → List Tree
  | [] => []
  | [y] => [addHeadIfEmpty y]
  | y :: z :: r => addTailIfEmpty (addHeadIfEmpty y) :: ahtRest (z :: r)

theorem take_drop_eq_ahtRest : ∀ r : List Tree,
    (r.take (r.length - 1)).map (fun c => addTailIfEmpty (addHeadIfEmpty c))
      ++ (r.drop (r.length - 1)).map addHeadIfEmpty = ahtRest r
  | [] => rfl
  | [y] => rfl
  | y :: z :: r => by
    have ih := take_drop_eq_ahtRest (z :: r)
    simp only [List.length_cons, Nat.add_sub_cancel] at ih ⊢
    simp only [List.take_succ_cons, List.drop_succ_cons, List.map_cons, List.cons_append]
    rw [ahtRest, ← ih]

@[simp] theorem ahtOperands_nil : ahtOperands [] = [] := rfl
@[simp] theorem ahtOperands_single (x : Tree) :
    ahtOperands [x] = [addHeadIfEmpty (addTailIfEmpty x)] := rfl
@[simp] theorem ahtOperands_cons_cons (x y : Tree) (r : List Tree) :
    ahtOperands (x :: y :: r) = addTailIfEmpty x :: ahtRest (y :: r) := by
  rw [← take_drop_eq_ahtRest]; rfl

@[simp] theorem ahtUnk_nil : ahtUnknownOperands [] = [] := rfl
@[simp] theorem ahtUnk_single (x : Tree) : ahtUnknownOperands [x] = [x] := rfl
@[simp] theorem ahtUnk_cons_cons (x y : Tree) (r : List Tree) :
    ahtUnknownOperands (x :: y :: r) = addTailIfEmpty x :: ahtUnknownOperands (y :: r) := rfl

/-! ### the layout relation -/

/-- how `aht` may change a blank-able string: not at all, or from empty to one blank -/
def StrOk (new old : Str) : Prop := new = old ∨ (old = [] ∧ new = [' '])

/-- how `aht` may change the layout of a node: head and tail as in `StrOk`, position and size kept,
attached name dropped -/
structure LayOk (new old : Lay) : Prop where
  head : StrOk new.head old.head
  tail : StrOk new.tail old.tail
  pos : new.pos = old.pos
  size : new.size = old.size
  name : new.name = none

mutual
/-- `layRel t' t`: `t'` is `t` (same constructors, same attributes, same children in the same order)
except that layouts are related by `LayOk` at every node -/
def layRel : Tree → Tree → Prop
  | .term k' v' l', .term k v l => k' = k ∧ v' = v ∧ LayOk l' l
  | .field n' e' l', .field n e l => n' = n ∧ layRel e' e ∧ LayOk l' l
  | .group k' e' l', .group k e l => k' = k ∧ layRel e' e ∧ LayOk l' l
  | .range a' b' il' ih' l', .range a b il ih l =>
      il' = il ∧ ih' = ih ∧ layRel a' a ∧ layRel b' b ∧ LayOk l' l
  | .approx k' e' n' l', .approx k e n l => k' = k ∧ n' = n ∧ layRel e' e ∧ LayOk l' l
  | .boost e' n' l', .boost e n l => n' = n ∧ layRel e' e ∧ LayOk l' l
  | .op k' xs' l', .op k xs l => k' = k ∧ layRels xs' xs ∧ LayOk l' l
  | .unary k' e' l', .unary k e l => k' = k ∧ layRel e' e ∧ LayOk l' l
  | .orange k' e' i' l', .orange k e i l => k' = k ∧ i' = i ∧ layRel e' e ∧ LayOk l' l
  | .none l', .none l => LayOk l' l
  | _, _ => False
def layRels : List Tree → List Tree → Prop
  | [], [] => True
  | x' :: r', x :: r => layRel x' x ∧ layRels r' r
  | _, _ => False
end

theorem StrOk.refl (s : Str) : StrOk s s := .inl rfl
theorem LayOk.noName (l : Lay) : LayOk l.noName l := ⟨.refl _, .refl _, rfl, rfl, rfl⟩

/-- the relation only looks at the layout of the root of the new tree through `LayOk` -/
theorem layRel_setLay {t' t : Tree} (h : layRel t' t) {l2 : Lay} (h2 : LayOk l2 t.lay) :
    layRel (t'.setLay l2) t := by
  cases t' <;> cases t <;> simp_all [layRel, Tree.setLay, Tree.lay]

theorem layRel_lay {t' t : Tree} (h : layRel t' t) : LayOk t'.lay t.lay := by
  cases t' <;> cases t <;> simp_all [layRel, Tree.lay]

theorem layRel_addHead {t' t : Tree} (h : layRel t' t) : layRel (addHeadIfEmpty t') t := by
  rw [addHead_eq_setLay]
  have o := layRel_lay h
  refine layRel_setLay h ⟨?_, o.tail, o.pos, o.size, o.name⟩
  show StrOk (if t'.lay.head = [] then spacer else t'.lay.head) t.lay.head
  split
  · next h0 => rcases o.head with h1 | ⟨h1, h2⟩
               · right; exact ⟨h1 ▸ h0, rfl⟩
               · simp [h0] at h2
  · exact o.head

theorem layRel_addTail {t' t : Tree} (h : layRel t' t) : layRel (addTailIfEmpty t') t := by
  rw [addTail_eq_setLay]
  have o := layRel_lay h
  refine layRel_setLay h ⟨o.head, ?_, o.pos, o.size, o.name⟩
  show StrOk (if t'.lay.tail = [] then spacer else t'.lay.tail) t.lay.tail
  split
  · next h0 => rcases o.tail with h1 | ⟨h1, h2⟩
               · right; exact ⟨h1 ▸ h0, rfl⟩
               · simp [h0] at h2
  · exact o.tail

theorem layRels_ahtRest : ∀ {xs' xs : List Tree}, layRels xs' xs → layRels (ahtRest xs') xs
  | [], [], _ => by simp [ahtRest, layRels]
  | [], _ :: _, h => by simp [layRels] at h
  | _ :: _, [], h => by simp [layRels] at h
  | [y'], y :: r, h => by
    cases r <;> simp [layRels] at h
    simp [ahtRest, layRels, layRel_addHead h]
  | y' :: z' :: r', y :: r, h => by
    simp only [layRels] at h
    simp only [ahtRest, layRels]
    exact ⟨layRel_addTail (layRel_addHead h.1), layRels_ahtRest h.2⟩

theorem layRels_ahtOperands : ∀ {xs' xs : List Tree}, layRels xs' xs → layRels (ahtOperands xs') xs
  | [], _, h => h
  | [x'], x :: r, h => by
    cases r <;> simp [layRels] at h
    simp [layRels, layRel_addHead (layRel_addTail h)]
  | [_], [], h => by simp [layRels] at h
  | _ :: _ :: _, [], h => by simp [layRels] at h
  | x' :: y' :: r', x :: r, h => by
    simp only [layRels] at h
    simp only [ahtOperands_cons_cons, layRels]
    exact ⟨layRel_addTail h.1, layRels_ahtRest h.2⟩

theorem layRels_ahtUnk : ∀ {xs' xs : List Tree}, layRels xs' xs → layRels (ahtUnknownOperands xs') xs
  | [], _, h => h
  | [x'], _, h => h
  | _ :: _ :: _, [], h => by simp [layRels] at h
  | x' :: y' :: r', x :: r, h => by
    simp only [layRels] at h
    simp only [ahtUnk_cons_cons, layRels]
    exact ⟨layRel_addTail h.1, layRels_ahtUnk h.2⟩

mutual
/-- **the central invariant**: the result of `aht` is the input with blanks inserted into some
empty heads / tails and names dropped -/
theorem aht_layRel : ∀ (t : Tree) {t' : Tree}, aht t = some t' → layRel t' t
  | .term k v l, t', h => by
    simp [aht] at h; subst h; simp [layRel, LayOk.noName]
  | .none l, t', h => by
    simp [aht] at h; subst h; simp [layRel, LayOk.noName]
  | .field n e l, t', h => by
    simp [aht] at h; obtain ⟨e', he, rfl⟩ := h
    simp [layRel, LayOk.noName, aht_layRel e he]
  | .group k e l, t', h => by
    simp [aht] at h; obtain ⟨e', he, rfl⟩ := h
    simp [layRel, LayOk.noName, aht_layRel e he]
  | .approx k e n l, t', h => by
    simp [aht] at h; obtain ⟨e', he, rfl⟩ := h
    simp [layRel, LayOk.noName, aht_layRel e he]
  | .boost e n l, t', h => by
    simp [aht] at h; obtain ⟨e', he, rfl⟩ := h
    simp [layRel, LayOk.noName, aht_layRel e he]
  | .orange k e i l, t', h => by
    simp [aht] at h; obtain ⟨e', he, rfl⟩ := h
    simp [layRel, LayOk.noName, aht_layRel e he]
  | .unary k e l, t', h => by
    cases k <;> simp [aht] at h <;> obtain ⟨e', he, rfl⟩ := h
    · simp [layRel, LayOk.noName, aht_layRel e he]
    · simp [layRel, LayOk.noName, layRel_addHead (aht_layRel e he)]
    · simp [layRel, LayOk.noName, aht_layRel e he]
  | .range a b il ih l, t', h => by
    simp only [aht] at h
    split at h
    · next a' b' ha hb =>
      simp at h; subst h
      simp [layRel, LayOk.noName, layRel_addTail (aht_layRel a ha), layRel_addHead (aht_layRel b hb)]
    · simp at h
  | .op k xs l, t', h => by
    simp only [aht] at h
    split at h
    · simp at h
    · next xs' hx =>
      have ih := ahtList_layRels xs hx
      split at h
      · simp at h; subst h; simp_all [layRel, LayOk.noName, layRels_ahtUnk ih]
      · split at h
        · simp at h
        · simp at h; subst h; simp [layRel, LayOk.noName, layRels_ahtOperands ih]
theorem ahtList_layRels : ∀ (xs : List Tree) {xs' : List Tree}, ahtList xs = some xs' → layRels xs' xs
  | [], xs', h => by simp [ahtList] at h; subst h; simp [layRels]
  | x :: r, xs', h => by
    simp only [ahtList] at h
    split at h
    · next x' r' hx hr =>
      simp at h; subst h
      exact ⟨aht_layRel x hx, ahtList_layRels r hr⟩
    · simp at h
end

/-! ### consequences of the layout relation: equality -/

open Luqum.Props.C09 in
mutual
theorem layRel_content : ∀ (t' t : Tree), layRel t' t → content t' = content t
  | .term .., t, h => by cases t <;> simp_all [layRel, content]
  | .none .., t, h => by cases t <;> simp_all [layRel, content]
  | .field _ e' _, t, h => by
    cases t <;> simp [layRel] at h
    simp [content, h, layRel_content e' _ h.2.1]
  | .group _ e' _, t, h => by
    cases t <;> simp [layRel] at h
    simp [content, h, layRel_content e' _ h.2.1]
  | .approx _ e' _ _, t, h => by
    cases t <;> simp [layRel] at h
    simp [content, h, layRel_content e' _ h.2.2.1]
  | .boost e' _ _, t, h => by
    cases t <;> simp [layRel] at h
    simp [content, h, layRel_content e' _ h.2.1]
  | .unary _ e' _, t, h => by
    cases t <;> simp [layRel] at h
    simp [content, h, layRel_content e' _ h.2.1]
  | .orange _ e' _ _, t, h => by
    cases t <;> simp [layRel] at h
    simp [content, h, layRel_content e' _ h.2.2.1]
  | .range a' b' _ _ _, t, h => by
    cases t <;> simp [layRel] at h
    simp [content, h, layRel_content a' _ h.2.2.1, layRel_content b' _ h.2.2.2.1]
  | .op _ xs' _, t, h => by
    cases t <;> simp [layRel] at h
    simp [content, h, layRels_contents xs' _ h.2.1]
theorem layRels_contents : ∀ (xs' xs : List Tree), layRels xs' xs → contents xs' = contents xs
  | [], xs, h => by cases xs <;> simp_all [layRels, contents]
  | x' :: r', xs, h => by
    cases xs <;> simp [layRels] at h
    simp [contents, layRel_content x' _ h.1, layRels_contents r' _ h.2]
end

theorem layRel_eqv {t' t : Tree} (h : layRel t' t) : t'.eqv t = true :=
  (Luqum.Props.C09.eqv_iff_content t' t).2 (layRel_content t' t h)

/-! ### consequences of the layout relation: paths -/

theorem layRel_className {t' t : Tree} (h : layRel t' t) : t'.className = t.className := by
  cases t' with
  | term k' _ _ => cases t <;> simp [layRel] at h; obtain ⟨rfl, _⟩ := h; cases k' <;> rfl
  | group k' _ _ => cases t <;> simp [layRel] at h; obtain ⟨rfl, _⟩ := h; cases k' <;> rfl
  | approx k' _ _ _ => cases t <;> simp [layRel] at h; obtain ⟨rfl, _⟩ := h; cases k' <;> rfl
  | op k' _ _ => cases t <;> simp [layRel] at h; obtain ⟨rfl, _⟩ := h; cases k' <;> rfl
  | unary k' _ _ => cases t <;> simp [layRel] at h; obtain ⟨rfl, _⟩ := h; cases k' <;> rfl
  | orange k' _ _ _ => cases t <;> simp [layRel] at h; obtain ⟨rfl, _⟩ := h; cases k' <;> rfl
  | field _ _ _ => cases t <;> simp [layRel] at h; rfl
  | range _ _ _ _ _ => cases t <;> simp [layRel] at h; rfl
  | boost _ _ _ => cases t <;> simp [layRel] at h; rfl
  | none _ => cases t <;> simp [layRel] at h; rfl

/-- same class and same own attributes (value, field name, inclusiveness, degree / force with its
implicit flag and spelling): the childless, layout-less clones coincide -/
theorem layRel_own {t' t : Tree} (h : layRel t' t) :
    t'.cloneItem.setLay {} = t.cloneItem.setLay {} := by
  cases t' <;> cases t <;> simp [layRel] at h <;> simp [Tree.cloneItem, Tree.setLay, h]

theorem layRel_children {t' t : Tree} (h : layRel t' t) : layRels t'.children t.children := by
  cases t' <;> cases t <;> simp [layRel] at h <;> simp [Tree.children, layRels, h]

/-- related lists have related elements at every index, and the same length -/
theorem layRels_getElem? : ∀ {xs' xs : List Tree}, layRels xs' xs → ∀ i : Nat,
    match xs'[i]?, xs[i]? with
    | some a', some a => layRel a' a
    | none, none => True
    | _, _ => False
  | [], [], _, i => by simp
  | [], _ :: _, h, _ => by simp [layRels] at h
  | _ :: _, [], h, _ => by simp [layRels] at h
  | x' :: r', x :: r, h, 0 => by simp only [layRels] at h; simpa using h.1
  | x' :: r', x :: r, h, i + 1 => by
    simp only [layRels] at h; simpa using layRels_getElem? h.2 i

/-- related trees have the same set of paths, with related nodes at each of them -/
theorem layRel_at : ∀ (p : List Nat) {t' t : Tree}, layRel t' t →
    match t'.at? p, t.at? p with
    | some n', some n => layRel n' n
    | none, none => True
    | _, _ => False
  | [], t', t, h => by simpa [Tree.at?] using h
  | i :: p, t', t, h => by
    have hc := layRels_getElem? (layRel_children h) i
    simp only [Tree.at?]
    split at hc
    · next a' a h1 h2 => rw [h1, h2]; exact layRel_at p hc
    · next h1 h2 => rw [h1, h2]; trivial
    · exact hc.elim

/-! ### consequences of the layout relation: printing -/

theorem filter_joinWith (p : Char → Bool) (w : Str) : ∀ L : List Str,
    (joinWith w L).filter p = joinWith (w.filter p) (L.map (·.filter p))
  | [] => rfl
  | [x] => rfl
  | x :: y :: r => by
    have ih := filter_joinWith p w (y :: r)
    simp only [joinWith, List.filter_append, List.map_cons] at ih ⊢
    rw [ih]

theorem StrOk.filter {new old : Str} (h : StrOk new old) (p : Char → Bool) (hp : p ' ' = false) :
    new.filter p = old.filter p := by
  rcases h with h | ⟨h1, h2⟩
  · rw [h]
  · subst h1 h2; simp [hp]

mutual
/-- related trees print the same up to characters rejected by `p`, when `p` rejects the blank -/
theorem layRel_full (s : NumStyle) (p : Char → Bool) (hp : p ' ' = false) :
    ∀ (t' t : Tree), layRel t' t → (t'.full s).filter p = (t.full s).filter p
  | .term .., t, h => by
    cases t <;> simp [layRel] at h
    obtain ⟨_, rfl, o⟩ := h
    simp only [Tree.full, List.filter_append, o.head.filter p hp, o.tail.filter p hp]
  | .none .., t, h => by cases t <;> simp [layRel] at h; simp [Tree.full]
  | .field _ e' _, t, h => by
    cases t <;> simp [layRel] at h
    obtain ⟨rfl, he, o⟩ := h
    simp only [Tree.full, List.filter_append, o.head.filter p hp, o.tail.filter p hp,
      layRel_full s p hp e' _ he]
  | .group _ e' _, t, h => by
    cases t <;> simp [layRel] at h
    obtain ⟨rfl, he, o⟩ := h
    simp only [Tree.full, List.filter_append, o.head.filter p hp, o.tail.filter p hp,
      layRel_full s p hp e' _ he]
  | .approx _ e' _ _, t, h => by
    cases t <;> simp [layRel] at h
    obtain ⟨rfl, rfl, he, o⟩ := h
    simp only [Tree.full, List.filter_append, o.head.filter p hp, o.tail.filter p hp,
      layRel_full s p hp e' _ he]
  | .boost e' _ _, t, h => by
    cases t <;> simp [layRel] at h
    obtain ⟨rfl, he, o⟩ := h
    simp only [Tree.full, List.filter_append, o.head.filter p hp, o.tail.filter p hp,
      layRel_full s p hp e' _ he]
  | .unary _ e' _, t, h => by
    cases t <;> simp [layRel] at h
    obtain ⟨rfl, he, o⟩ := h
    simp only [Tree.full, List.filter_append, o.head.filter p hp, o.tail.filter p hp,
      layRel_full s p hp e' _ he]
  | .orange _ e' _ _, t, h => by
    cases t <;> simp [layRel] at h
    obtain ⟨rfl, rfl, he, o⟩ := h
    simp only [Tree.full, List.filter_append, o.head.filter p hp, o.tail.filter p hp,
      layRel_full s p hp e' _ he]
  | .range a' b' _ _ _, t, h => by
    cases t <;> simp [layRel] at h
    obtain ⟨rfl, rfl, ha, hb, o⟩ := h
    simp only [Tree.full, List.filter_append, o.head.filter p hp, o.tail.filter p hp,
      layRel_full s p hp a' _ ha, layRel_full s p hp b' _ hb]
  | .op _ xs' _, t, h => by
    cases t <;> simp [layRel] at h
    obtain ⟨rfl, hx, o⟩ := h
    simp only [Tree.full, List.filter_append, o.head.filter p hp, o.tail.filter p hp,
      filter_joinWith, layRels_fulls s p hp xs' _ hx]
theorem layRels_fulls (s : NumStyle) (p : Char → Bool) (hp : p ' ' = false) :
    ∀ (xs' xs : List Tree), layRels xs' xs →
      (Tree.fulls s xs').map (·.filter p) = (Tree.fulls s xs).map (·.filter p)
  | [], xs, h => by cases xs <;> simp_all [layRels, Tree.fulls]
  | x' :: r', xs, h => by
    cases xs <;> simp [layRels] at h
    simp only [Tree.fulls, List.map_cons, layRel_full s p hp x' _ h.1, layRels_fulls s p hp r' _ h.2]
end

/-- the same without head and tail of the root -/
theorem layRel_body (s : NumStyle) (p : Char → Bool) (hp : p ' ' = false) {t' t : Tree}
    (h : layRel t' t) : (t'.body s).filter p = (t.body s).filter p := by
  cases t' <;> cases t <;> simp [layRel] at h
  case term => simp only [Tree.body, h]
  case none => simp only [Tree.body]
  case field => simp only [Tree.body, List.filter_append, h, layRel_full s p hp _ _ h.2.1]
  case group => simp only [Tree.body, List.filter_append, layRel_full s p hp _ _ h.2.1]
  case approx => simp only [Tree.body, List.filter_append, h, layRel_full s p hp _ _ h.2.2.1]
  case boost => simp only [Tree.body, List.filter_append, h, layRel_full s p hp _ _ h.2.1]
  case unary => simp only [Tree.body, List.filter_append, h, layRel_full s p hp _ _ h.2.1]
  case orange => simp only [Tree.body, List.filter_append, h, layRel_full s p hp _ _ h.2.2.1]
  case range =>
    simp only [Tree.body, List.filter_append, h, layRel_full s p hp _ _ h.2.2.1,
      layRel_full s p hp _ _ h.2.2.2.1]
  case op => simp only [Tree.body, filter_joinWith, h, layRels_fulls s p hp _ _ h.2.1]

/-! ### fixed points of `aht` -/

theorem aht_setLay (t : Tree) (l2 : Lay) :
    aht (t.setLay l2) = (aht t).map (·.setLay l2.noName) := by
  cases t with
  | unary k e l => cases k <;> simp [aht, Tree.setLay] <;> cases aht e <;> simp
  | range a b il ih l => simp only [aht, Tree.setLay]; cases aht a <;> cases aht b <;> simp
  | op k xs l =>
    simp only [aht, Tree.setLay]
    cases ahtList xs with
    | none => simp
    | some xs' =>
      by_cases hk : (k == OpK.unk) = true
      · simp [hk]
      · by_cases he : xs'.isEmpty = true <;> simp [hk, he]
  | term k v l => simp [aht, Tree.setLay]
  | none l => simp [aht, Tree.setLay]
  | field n e l => simp [aht, Tree.setLay]; cases aht e <;> simp
  | group k e l => simp [aht, Tree.setLay]; cases aht e <;> simp
  | approx k e n l => simp [aht, Tree.setLay]; cases aht e <;> simp
  | boost e n l => simp [aht, Tree.setLay]; cases aht e <;> simp
  | orange k e i l => simp [aht, Tree.setLay]; cases aht e <;> simp

/-- the result of `aht` carries no attached name at its root -/
theorem aht_name {t t' : Tree} (h : aht t = some t') : t'.lay.name = none :=
  (layRel_lay (aht_layRel t h)).name

theorem aht_fix_setLay {x : Tree} (h : aht x = some x) (l2 : Lay) (hn : l2.name = none) :
    aht (x.setLay l2) = some (x.setLay l2) := by
  rw [aht_setLay, h]
  have : l2.noName = l2 := by cases l2; simp_all [Lay.noName]
  simp [this]

theorem aht_fix_addHead {x : Tree} (h : aht x = some x) :
    aht (addHeadIfEmpty x) = some (addHeadIfEmpty x) := by
  rw [addHead_eq_setLay]; exact aht_fix_setLay h _ (aht_name h)

theorem aht_fix_addTail {x : Tree} (h : aht x = some x) :
    aht (addTailIfEmpty x) = some (addTailIfEmpty x) := by
  rw [addTail_eq_setLay]; exact aht_fix_setLay h _ (aht_name h)

theorem ahtList_cons_fix (x : Tree) (r : List Tree) :
    ahtList (x :: r) = some (x :: r) ↔ aht x = some x ∧ ahtList r = some r := by
  simp only [ahtList]
  split
  · next x' r' hx hr => simp [hx, hr]
  · next hn =>
    constructor
    · intro h; simp at h
    · intro ⟨h1, h2⟩; exact (hn _ _ h1 h2).elim

theorem ahtList_fix_ahtRest : ∀ {xs : List Tree}, ahtList xs = some xs →
    ahtList (ahtRest xs) = some (ahtRest xs)
  | [], _ => rfl
  | [y], h => by
    rw [ahtList_cons_fix] at h
    simp only [ahtRest]; rw [ahtList_cons_fix]; exact ⟨aht_fix_addHead h.1, rfl⟩
  | y :: z :: r, h => by
    rw [ahtList_cons_fix] at h
    simp only [ahtRest]; rw [ahtList_cons_fix]
    exact ⟨aht_fix_addTail (aht_fix_addHead h.1), ahtList_fix_ahtRest h.2⟩

theorem ahtList_fix_ahtOperands : ∀ {xs : List Tree}, ahtList xs = some xs →
    ahtList (ahtOperands xs) = some (ahtOperands xs)
  | [], _ => rfl
  | [y], h => by
    rw [ahtList_cons_fix] at h
    simp only [ahtOperands_single]; rw [ahtList_cons_fix]
    exact ⟨aht_fix_addHead (aht_fix_addTail h.1), rfl⟩
  | y :: z :: r, h => by
    rw [ahtList_cons_fix] at h
    simp only [ahtOperands_cons_cons]; rw [ahtList_cons_fix]
    exact ⟨aht_fix_addTail h.1, ahtList_fix_ahtRest h.2⟩

theorem ahtList_fix_ahtUnk : ∀ {xs : List Tree}, ahtList xs = some xs →
    ahtList (ahtUnknownOperands xs) = some (ahtUnknownOperands xs)
  | [], _ => rfl
  | [y], h => h
  | y :: z :: r, h => by
    rw [ahtList_cons_fix] at h
    simp only [ahtUnk_cons_cons]; rw [ahtList_cons_fix]
    exact ⟨aht_fix_addTail h.1, ahtList_fix_ahtUnk h.2⟩

/-! ### the operand decorations are idempotent and keep the number of operands -/

theorem ahtRest_cons (z : Tree) (r : List Tree) : ∃ a b, ahtRest (z :: r) = a :: b := by
  cases r <;> simp [ahtRest]
theorem ahtUnk_cons (z : Tree) (r : List Tree) : ∃ a b, ahtUnknownOperands (z :: r) = a :: b := by
  cases r <;> simp

theorem ahtRest_idem : ∀ xs : List Tree, ahtRest (ahtRest xs) = ahtRest xs
  | [] => rfl
  | [y] => by simp [ahtRest]
  | y :: z :: r => by
    have ih := ahtRest_idem (z :: r)
    obtain ⟨a, b, hab⟩ := ahtRest_cons z r
    simp only [ahtRest] at ih ⊢
    rw [hab] at ih ⊢
    simp [ahtRest, ih]

theorem ahtOperands_idem : ∀ xs : List Tree, ahtOperands (ahtOperands xs) = ahtOperands xs
  | [] => rfl
  | [y] => by simp
  | y :: z :: r => by
    have ih := ahtRest_idem (z :: r)
    obtain ⟨a, b, hab⟩ := ahtRest_cons z r
    simp only [ahtOperands_cons_cons]
    rw [hab] at ih ⊢
    simp [ih]

theorem ahtUnk_idem : ∀ xs : List Tree,
    ahtUnknownOperands (ahtUnknownOperands xs) = ahtUnknownOperands xs
  | [] => rfl
  | [y] => rfl
  | y :: z :: r => by
    have ih := ahtUnk_idem (z :: r)
    obtain ⟨a, b, hab⟩ := ahtUnk_cons z r
    simp only [ahtUnk_cons_cons]
    rw [hab] at ih ⊢
    simp [ih]

theorem ahtOperands_isEmpty (xs : List Tree) : (ahtOperands xs).isEmpty = xs.isEmpty := by
  match xs with
  | [] => rfl
  | [_] => rfl
  | _ :: _ :: _ => simp

theorem ahtList_isEmpty {xs xs' : List Tree} (h : ahtList xs = some xs') :
    xs'.isEmpty = xs.isEmpty := by
  cases xs with
  | nil => simp [ahtList] at h; subst h; rfl
  | cons x r =>
    simp only [ahtList] at h
    split at h
    · simp at h; subst h; rfl
    · simp at h

end Luqum.Lemmas.Aht
