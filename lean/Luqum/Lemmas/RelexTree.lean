/-
  Luqum.Lemmas.RelexTree — a tree as a spelling: the pieces (token texts with the separators made
  of the heads and tails of the nodes) whose spelling is the printed tree and whose keys are the
  yield of the tree.
-/
import Luqum.Lemmas.RelexPieces

namespace Luqum

/-- the operator token written between two operands -/
def opTok : OpK → Option (TokK × Str)
  | .and => some (.andOp, "AND".toList)
  | .or => some (.orOp, "OR".toList)
  | .unk => none
  | .bool => none

mutual
/-- the pieces of a printed tree and the separator left after its last token. `pre` is a pending
separator, written before the first token (or handed on if the tree prints no token). The
separators are made of the heads and tails of the nodes: a head goes before the first token of the
node, a tail after its last token. -/
def Tree.pcs (s : NumStyle) : Tree → Str → List Piece × Str
  | .term .word v l, pre => ([⟨pre ++ l.head, reservedKind v, v⟩], l.tail)
  | .term .phrase v l, pre => ([⟨pre ++ l.head, .phrase, v⟩], l.tail)
  | .term .regex v l, pre => ([⟨pre ++ l.head, .regex, v⟩], l.tail)
  | .field n e l, pre =>
      (⟨pre ++ l.head, .term, n⟩ :: ⟨[], .column, [':']⟩ :: (e.pcs s []).1, (e.pcs s []).2 ++ l.tail)
  | .group _ e l, pre =>
      (⟨pre ++ l.head, .lparen, ['(']⟩ :: (e.pcs s []).1 ++ [⟨(e.pcs s []).2, .rparen, [')']⟩], l.tail)
  | .range a b il ih l, pre =>
      (⟨pre ++ l.head, .lbracket, [if il then '[' else '{']⟩ :: (a.pcs s []).1
        ++ ⟨(a.pcs s []).2, .to, "TO".toList⟩ :: (b.pcs s []).1
        ++ [⟨(b.pcs s []).2, .rbracket, [if ih then ']' else '}']⟩], l.tail)
  | .approx _ t n l, pre =>
      ((t.pcs s (pre ++ l.head)).1 ++ [⟨(t.pcs s (pre ++ l.head)).2, .approx, '~' :: n.text s⟩], l.tail)
  | .boost e n l, pre =>
      ((e.pcs s (pre ++ l.head)).1 ++ [⟨(e.pcs s (pre ++ l.head)).2, .boost, '^' :: n.text s⟩], l.tail)
  | .op _ [] l, pre => ([], pre ++ l.head ++ l.tail)
  | .op k (x :: xs) l, pre =>
      ((x.pcs s (pre ++ l.head)).1 ++ (Tree.pcsTail s k xs (x.pcs s (pre ++ l.head)).2).1,
        (Tree.pcsTail s k xs (x.pcs s (pre ++ l.head)).2).2 ++ l.tail)
  | .unary .plus a l, pre => (⟨pre ++ l.head, .plus, ['+']⟩ :: (a.pcs s []).1, (a.pcs s []).2 ++ l.tail)
  | .unary .prohibit a l, pre =>
      (⟨pre ++ l.head, .minus, ['-']⟩ :: (a.pcs s []).1, (a.pcs s []).2 ++ l.tail)
  | .unary .not a l, pre =>
      (⟨pre ++ l.head, .not, "NOT".toList⟩ :: (a.pcs s []).1, (a.pcs s []).2 ++ l.tail)
  | .orange .to a inc l, pre =>
      (⟨pre ++ l.head, .lessthan, if inc then ['<', '='] else ['<']⟩ :: (a.pcs s []).1,
        (a.pcs s []).2 ++ l.tail)
  | .orange .from a inc l, pre =>
      (⟨pre ++ l.head, .greaterthan, if inc then ['>', '='] else ['>']⟩ :: (a.pcs s []).1,
        (a.pcs s []).2 ++ l.tail)
  | .none _, pre => ([], pre)
/-- the operands of an operation after the first one, each preceded by the operator token (if the
operation has one) -/
def Tree.pcsTail (s : NumStyle) (k : OpK) : List Tree → Str → List Piece × Str
  | [], pre => ([], pre)
  | y :: r, pre =>
    match opTok k with
    | Option.some (kk, w) =>
      (⟨pre, kk, w⟩ :: (y.pcs s []).1 ++ (Tree.pcsTail s k r (y.pcs s []).2).1,
        (Tree.pcsTail s k r (y.pcs s []).2).2)
    | Option.none =>
      ((y.pcs s pre).1 ++ (Tree.pcsTail s k r (y.pcs s pre).2).1,
        (Tree.pcsTail s k r (y.pcs s pre).2).2)
end

/-! ### spellings -/

theorem spell_trail (ps : List Piece) (tr : Str) : spell ps tr = spell ps [] ++ tr := by
  induction ps with
  | nil => simp [spell]
  | cons p ps ih => simp only [spell, List.append_assoc]; rw [ih]

theorem spell_append (ps qs : List Piece) (tr : Str) :
    spell (ps ++ qs) tr = spell ps [] ++ spell qs tr := by
  induction ps with
  | nil => simp [spell]
  | cons p ps ih => simp only [List.cons_append, spell, List.append_assoc]; rw [ih]

/-- `w ++ y` for every `y` -/
def tailJoin {α : Type} (w : List α) : List (List α) → List α
  | [] => []
  | y :: r => w ++ y ++ tailJoin w r

theorem joinWith_cons (w : Str) : ∀ (x : Str) (ys : List Str), joinWith w (x :: ys) = x ++ tailJoin w ys
  | x, [] => by simp [joinWith, tailJoin]
  | x, y :: r => by simp [joinWith, tailJoin, joinWith_cons w y r]

theorem joinL_cons {α : Type} (w : List α) : ∀ (x : List α) (ys : List (List α)),
    joinL w (x :: ys) = x ++ tailJoin w ys
  | x, [] => by simp [joinL, tailJoin]
  | x, y :: r => by simp [joinL, tailJoin, joinL_cons w y r]

theorem opTok_word (k : OpK) :
    (opTok k = none ∧ k.word = [] ∧ opKey k = []) ∨
    (∃ kk w, opTok k = some (kk, w) ∧ k.word = w ∧ opKey k = [(kk, w)]) := by
  cases k
  · exact Or.inr ⟨_, _, rfl, rfl, rfl⟩
  · exact Or.inr ⟨_, _, rfl, rfl, rfl⟩
  · exact Or.inl ⟨rfl, rfl, rfl⟩
  · exact Or.inl ⟨rfl, rfl, rfl⟩

mutual
/-- **the spelling of the pieces is the printed tree** -/
theorem Tree.pcs_spell (s : NumStyle) : ∀ (t : Tree) (pre : Str),
    spell (t.pcs s pre).1 [] ++ (t.pcs s pre).2 = pre ++ t.full s
  | .term k v l, pre => by cases k <;> simp [Tree.pcs, Tree.full, spell]
  | .field n e l, pre => by
    have := Tree.pcs_spell s e []
    simp only [List.nil_append] at this
    simp [Tree.pcs, Tree.full, spell, ← this]
  | .group k e l, pre => by
    have := Tree.pcs_spell s e []
    simp only [List.nil_append] at this
    simp [Tree.pcs, Tree.full, spell, spell_append, ← this]
  | .range a b il ih l, pre => by
    have h1 := Tree.pcs_spell s a []
    have h2 := Tree.pcs_spell s b []
    simp only [List.nil_append] at h1 h2
    simp [Tree.pcs, Tree.full, spell, spell_append, ← h1, ← h2]
  | .approx k t n l, pre => by
    have := Tree.pcs_spell s t (pre ++ l.head)
    simp only [Tree.pcs, Tree.full, spell_append, spell, List.append_nil, List.append_assoc]
    rw [← List.append_assoc (spell _ _), this]
    simp
  | .boost e n l, pre => by
    have := Tree.pcs_spell s e (pre ++ l.head)
    simp only [Tree.pcs, Tree.full, spell_append, spell, List.append_nil, List.append_assoc]
    rw [← List.append_assoc (spell _ _), this]
    simp
  | .op k [] l, pre => by simp [Tree.pcs, Tree.full, Tree.fulls, joinWith, spell]
  | .op k (x :: xs) l, pre => by
    have h1 := Tree.pcs_spell s x (pre ++ l.head)
    have h2 := Tree.pcsTail_spell s k xs (x.pcs s (pre ++ l.head)).2
    simp only [Tree.pcs, Tree.full, Tree.fulls, joinWith_cons, spell_append]
    rw [List.append_assoc, ← List.append_assoc (spell (Tree.pcsTail _ _ _ _).1 _), h2,
      ← List.append_assoc, ← List.append_assoc, h1]
    simp
  | .unary k a l, pre => by
    have := Tree.pcs_spell s a []
    simp only [List.nil_append] at this
    cases k <;> simp [Tree.pcs, Tree.full, spell, UnK.word, ← this]
  | .orange k a inc l, pre => by
    have := Tree.pcs_spell s a []
    simp only [List.nil_append] at this
    cases k <;> cases inc <;> simp [Tree.pcs, Tree.full, spell, ORK.word, ← this]
  | .none l, pre => by simp [Tree.pcs, Tree.full, spell]
theorem Tree.pcsTail_spell (s : NumStyle) (k : OpK) : ∀ (ys : List Tree) (pre : Str),
    spell (Tree.pcsTail s k ys pre).1 [] ++ (Tree.pcsTail s k ys pre).2 =
      pre ++ tailJoin k.word (Tree.fulls s ys)
  | [], pre => by simp [Tree.pcsTail, Tree.fulls, tailJoin, spell]
  | y :: r, pre => by
    rcases opTok_word k with ⟨h1, h2, _⟩ | ⟨kk, w, h1, h2, _⟩
    · have e1 := Tree.pcs_spell s y pre
      have e2 := Tree.pcsTail_spell s k r (y.pcs s pre).2
      simp only [Tree.pcsTail, h1, Tree.fulls, tailJoin, h2, List.nil_append, spell_append]
      rw [h2] at e2
      rw [List.append_assoc, e2, ← List.append_assoc, e1]
      simp
    · have e1 := Tree.pcs_spell s y []
      have e2 := Tree.pcsTail_spell s k r (y.pcs s []).2
      simp only [List.nil_append] at e1
      simp only [Tree.pcsTail, h1, Tree.fulls, tailJoin, h2, spell, spell_append, List.cons_append]
      rw [h2] at e2
      simp only [List.append_assoc]
      rw [e2, ← List.append_assoc (spell _ _), e1]
end

/-- the printed tree is the spelling of its pieces -/
theorem Tree.full_eq_spell (s : NumStyle) (t : Tree) :
    t.full s = spell (t.pcs s []).1 (t.pcs s []).2 := by
  rw [spell_trail, Tree.pcs_spell s t []]; rfl

/-! ### keys -/

mutual
/-- **the keys of the pieces (numerals in their source spelling) are the yield of the tree** -/
theorem Tree.pcs_keys : ∀ (t : Tree) (pre : Str), (t.pcs .raw pre).1.map Piece.key = yield t
  | .term k v l, pre => by cases k <;> simp [Tree.pcs, yield, Piece.key]
  | .field n e l, pre => by simp [Tree.pcs, yield, Piece.key, Tree.pcs_keys e []]
  | .group k e l, pre => by simp [Tree.pcs, yield, Piece.key, Tree.pcs_keys e []]
  | .range a b il ih l, pre => by
    simp [Tree.pcs, yield, Piece.key, Tree.pcs_keys a [], Tree.pcs_keys b []]
  | .approx k t n l, pre => by
    simp [Tree.pcs, yield, Piece.key, Tree.pcs_keys t (pre ++ l.head), Num.text]
  | .boost e n l, pre => by
    simp [Tree.pcs, yield, Piece.key, Tree.pcs_keys e (pre ++ l.head), Num.text]
  | .op k [] l, pre => by simp [Tree.pcs, yield, yields, joinL]
  | .op k (x :: xs) l, pre => by
    simp [Tree.pcs, yield, yields, joinL_cons, Tree.pcs_keys x (pre ++ l.head),
      Tree.pcsTail_keys k xs (x.pcs .raw (pre ++ l.head)).2]
  | .unary k a l, pre => by cases k <;> simp [Tree.pcs, yield, Piece.key, Tree.pcs_keys a []]
  | .orange k a inc l, pre => by cases k <;> simp [Tree.pcs, yield, Piece.key, Tree.pcs_keys a []]
  | .none l, pre => by simp [Tree.pcs, yield]
theorem Tree.pcsTail_keys (k : OpK) : ∀ (ys : List Tree) (pre : Str),
    (Tree.pcsTail .raw k ys pre).1.map Piece.key = tailJoin (opKey k) (yields ys)
  | [], pre => by simp [Tree.pcsTail, yields, tailJoin]
  | y :: r, pre => by
    rcases opTok_word k with ⟨h1, _, h3⟩ | ⟨kk, w, h1, _, h3⟩
    · simp [Tree.pcsTail, h1, yields, tailJoin, h3, Tree.pcs_keys y pre,
        Tree.pcsTail_keys k r (y.pcs .raw pre).2]
    · simp [Tree.pcsTail, h1, yields, tailJoin, h3, Piece.key, Tree.pcs_keys y [],
        Tree.pcsTail_keys k r (y.pcs .raw []).2]
end

/-! ### blank layout -/

mutual
/-- every head and tail that is printed is blank (`NoneItem` prints neither its head nor its tail) -/
def Tree.blankLayout : Tree → Bool
  | .term _ _ l => isBlank l.head && isBlank l.tail
  | .field _ e l => isBlank l.head && isBlank l.tail && e.blankLayout
  | .group _ e l => isBlank l.head && isBlank l.tail && e.blankLayout
  | .range a b _ _ l => isBlank l.head && isBlank l.tail && a.blankLayout && b.blankLayout
  | .approx _ t _ l => isBlank l.head && isBlank l.tail && t.blankLayout
  | .boost e _ l => isBlank l.head && isBlank l.tail && e.blankLayout
  | .op _ xs l => isBlank l.head && isBlank l.tail && Tree.blankLayouts xs
  | .unary _ a l => isBlank l.head && isBlank l.tail && a.blankLayout
  | .orange _ a _ l => isBlank l.head && isBlank l.tail && a.blankLayout
  | .none _ => true
def Tree.blankLayouts : List Tree → Bool
  | [] => true
  | x :: r => x.blankLayout && Tree.blankLayouts r
end

theorem isBlank_nil : isBlank [] = true := rfl
theorem isBlank_append {a b : Str} : isBlank (a ++ b) = (isBlank a && isBlank b) := by
  simp [isBlank, List.all_append]

/-- all separators of the pieces and the trailing separator are blank -/
def BlankPcs (r : List Piece × Str) : Prop := (∀ p ∈ r.1, isBlank p.sep = true) ∧ isBlank r.2 = true

theorem blankPcs_cons {p : Piece} {ps : List Piece} {tr : Str} (hp : isBlank p.sep = true)
    (h : BlankPcs (ps, tr)) : BlankPcs (p :: ps, tr) :=
  ⟨fun q hq => by
    simp only [List.mem_cons] at hq
    rcases hq with rfl | hq
    · exact hp
    · exact h.1 q hq, h.2⟩

theorem blankPcs_append {ps qs : List Piece} {t1 tr : Str} (h1 : BlankPcs (ps, t1))
    (h2 : BlankPcs (qs, tr)) : BlankPcs (ps ++ qs, tr) :=
  ⟨fun q hq => by
    simp only [List.mem_append] at hq
    rcases hq with hq | hq
    · exact h1.1 q hq
    · exact h2.1 q hq, h2.2⟩

theorem blankPcs_trail {ps : List Piece} {tr w : Str} (h : BlankPcs (ps, tr)) (hw : isBlank w = true) :
    BlankPcs (ps, tr ++ w) := ⟨h.1, by simp only [isBlank_append, h.2, hw, Bool.and_self]⟩

mutual
theorem Tree.pcs_blank (s : NumStyle) : ∀ (t : Tree) (pre : Str), isBlank pre = true →
    t.blankLayout = true → BlankPcs (t.pcs s pre)
  | .term k v l, pre, hp, h => by
    simp only [Tree.blankLayout, Bool.and_eq_true] at h
    cases k <;> exact ⟨by simp [Tree.pcs, isBlank_append, hp, h.1], h.2⟩
  | .field n e l, pre, hp, h => by
    simp only [Tree.blankLayout, Bool.and_eq_true] at h
    have he := Tree.pcs_blank s e [] rfl h.2
    simp only [Tree.pcs]
    exact blankPcs_cons (by simp [isBlank_append, hp, h.1.1])
      (blankPcs_cons rfl (blankPcs_trail he h.1.2))
  | .group k e l, pre, hp, h => by
    simp only [Tree.blankLayout, Bool.and_eq_true] at h
    have he := Tree.pcs_blank s e [] rfl h.2
    simp only [Tree.pcs]
    exact blankPcs_cons (by simp [isBlank_append, hp, h.1.1])
      (blankPcs_append he ⟨by simpa using he.2, h.1.2⟩)
  | .range a b il ih l, pre, hp, h => by
    simp only [Tree.blankLayout, Bool.and_eq_true] at h
    have ha := Tree.pcs_blank s a [] rfl h.1.2
    have hb := Tree.pcs_blank s b [] rfl h.2
    simp only [Tree.pcs, List.append_assoc]
    exact blankPcs_cons (by simp [isBlank_append, hp, h.1.1.1])
      (blankPcs_append ha (blankPcs_cons ha.2 (blankPcs_append hb ⟨by simpa using hb.2, h.1.1.2⟩)))
  | .approx k t n l, pre, hp, h => by
    simp only [Tree.blankLayout, Bool.and_eq_true] at h
    have ht := Tree.pcs_blank s t (pre ++ l.head) (by simp [isBlank_append, hp, h.1.1]) h.2
    simp only [Tree.pcs]
    exact blankPcs_append ht ⟨by simpa using ht.2, h.1.2⟩
  | .boost e n l, pre, hp, h => by
    simp only [Tree.blankLayout, Bool.and_eq_true] at h
    have ht := Tree.pcs_blank s e (pre ++ l.head) (by simp [isBlank_append, hp, h.1.1]) h.2
    simp only [Tree.pcs]
    exact blankPcs_append ht ⟨by simpa using ht.2, h.1.2⟩
  | .op k [] l, pre, hp, h => by
    simp only [Tree.blankLayout, Bool.and_eq_true] at h
    exact ⟨by simp [Tree.pcs], by simp [Tree.pcs, isBlank_append, hp, h.1.1, h.1.2]⟩
  | .op k (x :: xs) l, pre, hp, h => by
    simp only [Tree.blankLayout, Tree.blankLayouts, Bool.and_eq_true] at h
    have hx := Tree.pcs_blank s x (pre ++ l.head) (by simp [isBlank_append, hp, h.1.1]) h.2.1
    have hr := Tree.pcsTail_blank s k xs _ hx.2 h.2.2
    simp only [Tree.pcs]
    exact blankPcs_trail (blankPcs_append hx hr) h.1.2
  | .unary k a l, pre, hp, h => by
    simp only [Tree.blankLayout, Bool.and_eq_true] at h
    have ha := Tree.pcs_blank s a [] rfl h.2
    cases k <;> simp only [Tree.pcs] <;>
      exact blankPcs_cons (by simp [isBlank_append, hp, h.1.1]) (blankPcs_trail ha h.1.2)
  | .orange k a inc l, pre, hp, h => by
    simp only [Tree.blankLayout, Bool.and_eq_true] at h
    have ha := Tree.pcs_blank s a [] rfl h.2
    cases k <;> simp only [Tree.pcs] <;>
      exact blankPcs_cons (by simp [isBlank_append, hp, h.1.1]) (blankPcs_trail ha h.1.2)
  | .none l, pre, hp, h => ⟨by simp [Tree.pcs], by simpa [Tree.pcs] using hp⟩
theorem Tree.pcsTail_blank (s : NumStyle) (k : OpK) : ∀ (ys : List Tree) (pre : Str),
    isBlank pre = true → Tree.blankLayouts ys = true → BlankPcs (Tree.pcsTail s k ys pre)
  | [], pre, hp, _ => ⟨by simp [Tree.pcsTail], by simpa [Tree.pcsTail] using hp⟩
  | y :: r, pre, hp, h => by
    simp only [Tree.blankLayouts, Bool.and_eq_true] at h
    rcases opTok_word k with ⟨h1, _, _⟩ | ⟨kk, w, h1, _, _⟩
    · have hy := Tree.pcs_blank s y pre hp h.1
      have hr := Tree.pcsTail_blank s k r _ hy.2 h.2
      simp only [Tree.pcsTail, h1]
      exact blankPcs_append hy hr
    · have hy := Tree.pcs_blank s y [] rfl h.1
      have hr := Tree.pcsTail_blank s k r _ hy.2 h.2
      simp only [Tree.pcsTail, h1]
      exact blankPcs_cons hp (blankPcs_append hy hr)
end

end Luqum
