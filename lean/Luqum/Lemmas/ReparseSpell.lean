/-
  Luqum.Lemmas.ReparseSpell — the tree whose numerals are re-spelled as the implementation prints
  them (`respell`, Luqum.Props.C01) against the notions of the re-lexing theory and of parser
  completeness: its pieces in the source style are the pieces of the original tree in the
  implementation's style; its layout, canonical form and word texts are those of the original
  tree; it is equal (`==`) to the original tree.
-/
import Luqum.Props.C01
import Luqum.Props.C09
import Luqum.Lemmas.RelexGlue
import Luqum.Lemmas.ComplDefs

namespace Luqum
open Luqum.Props.C01 (respell respells)

theorem Num.respell_text (n : Num) : (Props.C01.Num.respell n).text .raw = n.text .norm := by
  obtain ⟨v, i, r⟩ := n
  cases i <;> rfl

/-! ### pieces -/

mutual
/-- **the pieces of a tree in the implementation's spelling of numerals are the pieces, in the
source spelling, of the re-spelled tree** -/
theorem Tree.pcs_respell : ∀ (t : Tree) (pre : Str), t.pcs .norm pre = (respell t).pcs .raw pre
  | .term k v l, pre => by cases k <;> simp [respell, Tree.pcs]
  | .field n e l, pre => by simp [respell, Tree.pcs, Tree.pcs_respell e []]
  | .group k e l, pre => by simp [respell, Tree.pcs, Tree.pcs_respell e []]
  | .range a b il ih l, pre => by
    simp [respell, Tree.pcs, Tree.pcs_respell a [], Tree.pcs_respell b []]
  | .approx k t n l, pre => by
    simp [respell, Tree.pcs, Tree.pcs_respell t (pre ++ l.head), Num.respell_text]
  | .boost e n l, pre => by
    simp [respell, Tree.pcs, Tree.pcs_respell e (pre ++ l.head), Num.respell_text]
  | .op k [] l, pre => by simp [respell, respells, Tree.pcs]
  | .op k (x :: xs) l, pre => by
    simp [respell, respells, Tree.pcs, Tree.pcs_respell x (pre ++ l.head),
      Tree.pcsTail_respell k xs]
  | .unary k a l, pre => by cases k <;> simp [respell, Tree.pcs, Tree.pcs_respell a []]
  | .orange k a inc l, pre => by cases k <;> simp [respell, Tree.pcs, Tree.pcs_respell a []]
  | .none l, pre => by simp [respell, Tree.pcs]
theorem Tree.pcsTail_respell (k : OpK) : ∀ (ys : List Tree) (pre : Str),
    Tree.pcsTail .norm k ys pre = Tree.pcsTail .raw k (respells ys) pre
  | [], pre => by simp [respells, Tree.pcsTail]
  | y :: r, pre => by
    rcases opTok_word k with ⟨h1, _, _⟩ | ⟨kk, w, h1, _, _⟩
    · simp [respells, Tree.pcsTail, h1, Tree.pcs_respell y pre, Tree.pcsTail_respell k r]
    · simp [respells, Tree.pcsTail, h1, Tree.pcs_respell y [], Tree.pcsTail_respell k r]
end

/-! ### layout -/

mutual
theorem Tree.blankLayout_respell : ∀ t : Tree, (respell t).blankLayout = t.blankLayout
  | .term .. => by simp [respell]
  | .field n e l => by simp [respell, Tree.blankLayout, Tree.blankLayout_respell e]
  | .group k e l => by simp [respell, Tree.blankLayout, Tree.blankLayout_respell e]
  | .range a b il ih l => by
    simp [respell, Tree.blankLayout, Tree.blankLayout_respell a, Tree.blankLayout_respell b]
  | .approx k t n l => by simp [respell, Tree.blankLayout, Tree.blankLayout_respell t]
  | .boost e n l => by simp [respell, Tree.blankLayout, Tree.blankLayout_respell e]
  | .op k xs l => by simp [respell, Tree.blankLayout, Tree.blankLayouts_respells xs]
  | .unary k a l => by simp [respell, Tree.blankLayout, Tree.blankLayout_respell a]
  | .orange k a i l => by simp [respell, Tree.blankLayout, Tree.blankLayout_respell a]
  | .none l => by simp [respell]
theorem Tree.blankLayouts_respells : ∀ xs : List Tree,
    Tree.blankLayouts (respells xs) = Tree.blankLayouts xs
  | [] => by simp [respells]
  | x :: r => by
    simp [respells, Tree.blankLayouts, Tree.blankLayout_respell x, Tree.blankLayouts_respells r]
end

/-! ### equality -/

theorem Num.content_respell (n : Num) :
    Props.C09.Num.content (Props.C01.Num.respell n) = Props.C09.Num.content n := rfl

mutual
theorem content_respell : ∀ t : Tree, Props.C09.content (respell t) = Props.C09.content t
  | .term .. => by simp [respell]
  | .field n e l => by simp [respell, Props.C09.content, content_respell e]
  | .group k e l => by simp [respell, Props.C09.content, content_respell e]
  | .range a b il ih l => by simp [respell, Props.C09.content, content_respell a, content_respell b]
  | .approx k t n l => by simp [respell, Props.C09.content, content_respell t, Num.content_respell]
  | .boost e n l => by simp [respell, Props.C09.content, content_respell e, Num.content_respell]
  | .op k xs l => by simp [respell, Props.C09.content, contents_respells xs]
  | .unary k a l => by simp [respell, Props.C09.content, content_respell a]
  | .orange k a i l => by simp [respell, Props.C09.content, content_respell a]
  | .none l => by simp [respell]
theorem contents_respells : ∀ xs : List Tree,
    Props.C09.contents (respells xs) = Props.C09.contents xs
  | [] => by simp [respells]
  | x :: r => by simp [respells, Props.C09.contents, content_respell x, contents_respells r]
end

/-- **re-spelling the numerals does not change the tree for `==`** (the values are untouched) -/
theorem eqv_respell (t : Tree) : (respell t).eqv t = true :=
  (Props.C09.eqv_iff_content _ _).2 (content_respell t)

/-! ### shape predicates and canonical form -/

@[simp] theorem isOp'_respell (t : Tree) : isOp' (respell t) = isOp' t := by
  cases t <;> simp [respell, isOp']
@[simp] theorem isOpK_respell (k : OpK) (t : Tree) : isOpK k (respell t) = isOpK k t := by
  cases t <;> simp [respell, isOpK]
@[simp] theorem isUnary_respell (t : Tree) : isUnary (respell t) = isUnary t := by
  cases t <;> simp [respell, isUnary]
@[simp] theorem isField_respell (t : Tree) : isField (respell t) = isField t := by
  cases t <;> simp [respell, isField]
@[simp] theorem isWord_respell (t : Tree) : isWord (respell t) = isWord t := by
  cases t with
  | term k v l => cases k <;> simp [respell, isWord]
  | _ => simp [respell, isWord]
@[simp] theorem isPhrase_respell (t : Tree) : isPhrase (respell t) = isPhrase t := by
  cases t with
  | term k v l => cases k <;> simp [respell, isPhrase]
  | _ => simp [respell, isPhrase]
@[simp] theorem isWP_respell (t : Tree) : isWP (respell t) = isWP t := by
  cases t with
  | term k v l => cases k <;> simp [respell, isWP]
  | _ => simp [respell, isWP]
@[simp] theorem isBound_respell (t : Tree) : isBound (respell t) = isBound t := by
  cases t with
  | term k v l => cases k <;> simp [respell, isBound]
  | unary k e l => cases k <;> simp [respell, isBound]
  | _ => simp [respell, isBound]
@[simp] theorem operandOK_respell (k : OpK) (t : Tree) : operandOK k (respell t) = operandOK k t := by
  cases k <;> simp [operandOK]

theorem respells_length : ∀ xs : List Tree, (respells xs).length = xs.length
  | [] => rfl
  | x :: r => by simp [respells, respells_length r]

theorem respells_all_operandOK (k : OpK) : ∀ xs : List Tree,
    (respells xs).all (operandOK k) = xs.all (operandOK k)
  | [] => rfl
  | x :: r => by simp [respells, respells_all_operandOK k r]

mutual
/-- the canonical form does not look at the numerals -/
theorem canonAt_respell : ∀ (uf : Bool) (t : Tree), CanonAt uf (respell t) = CanonAt uf t
  | _, .term .. => by simp [respell]
  | _, .none _ => by simp [respell]
  | _, .op k xs _ => by
    simp only [respell, CanonAt, respells_length, canonsAt_respells xs, respells_all_operandOK]
  | _, .unary _ e _ => by simp [respell, CanonAt, canonAt_respell false e]
  | _, .field _ e _ => by simp [respell, CanonAt, canonAt_respell true e]
  | uf, .group k e _ => by simp [respell, CanonAt, canonAt_respell false e]
  | _, .boost e _ _ => by simp [respell, CanonAt, canonAt_respell false e]
  | _, .approx k e _ _ => by cases k <;> simp [respell, CanonAt]
  | _, .range lo hi _ _ _ => by simp [respell, CanonAt]
  | _, .orange _ e _ _ => by simp [respell, CanonAt]
theorem canonsAt_respells : ∀ xs : List Tree, CanonsAt (respells xs) = CanonsAt xs
  | [] => by simp [respells]
  | x :: r => by simp [respells, CanonsAt, canonAt_respell false x, canonsAt_respells r]
end

end Luqum
