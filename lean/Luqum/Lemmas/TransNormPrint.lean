/-
  Luqum.Lemmas.TransNormPrint — the normal form of a tree that is canonical up to normalisation is
  printed as the tree (`full_norm`), has the same chain condition (`chainAt_norm`), a blank layout
  if the tree has one, and the same words, numerals and token texts (`norm_keeps`).
-/
import Luqum.Lemmas.TransNormCanon

namespace Luqum

theorem canon_not_none {uf : Bool} {z : Tree} (h : CanonAt uf z = true) : z.isNone = false := by
  cases z <;> simp_all [CanonAt, Tree.isNone]

theorem endsSolid_of_canons : ∀ ys : List Tree, ys.all (CanonAt false) = true → endsSolid ys = true
  | [], _ => rfl
  | [x], h => by
    simp only [List.all_cons, List.all_nil, Bool.and_true] at h
    simp [endsSolid, canon_not_none h]
  | x :: y :: r, h => by
    have hx : CanonAt false x = true := by simp only [List.all_cons, Bool.and_eq_true] at h; exact h.1
    simp only [endsSolid, Bool.and_eq_true, Bool.not_eq_true', canon_not_none hx, true_and]
    cases hl : (y :: r).getLast? with
    | none => rfl
    | some z =>
      have hz : z ∈ x :: y :: r := List.mem_cons_of_mem _ (List.mem_of_getLast? hl)
      simp [canon_not_none (List.all_eq_true.1 h z hz)]

/-- the spliced operands of an operand `z` (in normal form) print as `z` after the operator word -/
theorem restStr_splice_canon (s : NumStyle) (k : OpK) (z : Tree) (R : Str) (hz : CanonAt false z = true) :
    restStr s k (splice k z) R = k.word ++ (z.full s ++ R) := by
  by_cases hsame : isOpK k z = true
  · cases z with
    | op k' ys l =>
      have hk' : k' = k := by simpa [isOpK] using hsame
      subst hk'
      simp only [CanonAt, Bool.and_eq_true, decide_eq_true_eq, canonsAt_eq_all] at hz
      have hne : ys ≠ [] := by rintro rfl; simp at hz
      have hne' : ys.isEmpty = false := by cases ys <;> simp_all
      simp only [splice, beq_self_eq_true, hne', Bool.not_false, Bool.and_self, if_true]
      exact restStr_splice s k' ys l R hne (endsSolid_of_canons ys hz.1.2)
    | _ => simp [isOpK] at hsame
  · rw [splice_other k (by simpa using hsame), restStr_cons, restStr_nil]

theorem splice_ne_nil (k : OpK) (z : Tree) (hz : CanonAt false z = true) : splice k z ≠ [] := by
  by_cases hsame : isOpK k z = true
  · cases z with
    | op k' ys l =>
      have hk' : k' = k := by simpa [isOpK] using hsame
      subst hk'
      simp only [CanonAt, Bool.and_eq_true, decide_eq_true_eq] at hz
      have hne : ys ≠ [] := by rintro rfl; simp at hz
      have hne' : ys.isEmpty = false := by cases ys <;> simp_all
      simp only [splice, beq_self_eq_true, hne', Bool.not_false, Bool.and_self, if_true]
      exact pushBack_ne_nil _ (pushFront_ne_nil _ hne)
    | _ => simp [isOpK] at hsame
  · rw [splice_other k (by simpa using hsame)]; simp

theorem listChain_splice_canon (s : NumStyle) (k : OpK) (z : Tree) (R : Str)
    (hz : CanonAt false z = true) : listChain s k (splice k z) R = z.chainAt s R := by
  by_cases hsame : isOpK k z = true
  · cases z with
    | op k' ys l =>
      have hk' : k' = k := by simpa [isOpK] using hsame
      subst hk'
      simp only [CanonAt, Bool.and_eq_true, decide_eq_true_eq, canonsAt_eq_all] at hz
      have hne : ys ≠ [] := by rintro rfl; simp at hz
      have hne' : ys.isEmpty = false := by cases ys <;> simp_all
      simp only [splice, beq_self_eq_true, hne', Bool.not_false, Bool.and_self, if_true]
      exact listChain_splice s k' ys l R hne (endsSolid_of_canons ys hz.1.2)
    | _ => simp [isOpK] at hsame
  · rw [splice_other k (by simpa using hsame)]
    simp [listChain, restStr_nil, Tree.chainsTail]

/-- `chainsTail` of a list that is not empty: the operator word, then the operands -/
theorem chainsTail_eq_listChain (s : NumStyle) (k : OpK) (A : List Tree) (R : Str) (hA : A ≠ []) :
    Tree.chainsTail s k A R =
      (opFollow k ((restStr s k A R).drop k.word.length) && listChain s k A R) := by
  cases A with
  | nil => exact absurd rfl hA
  | cons y r =>
    rw [chainsTail_cons_eq, restStr_cons, List.drop_left]

theorem chainsTail_splice_canon (s : NumStyle) (k : OpK) (z : Tree) (R : Str)
    (hz : CanonAt false z = true) :
    Tree.chainsTail s k (splice k z) R = (opFollow k (z.full s ++ R) && z.chainAt s R) := by
  rw [chainsTail_eq_listChain s k _ R (splice_ne_nil k z hz), restStr_splice_canon s k z R hz,
    List.drop_left, listChain_splice_canon s k z R hz]

/-! ### printing -/

theorem joinWith_restStr (s : NumStyle) (k : OpK) (xs : List Tree) (hne : xs ≠ []) :
    k.word ++ joinWith k.word (Tree.fulls s xs) = restStr s k xs [] := by
  cases xs with
  | nil => exact absurd rfl hne
  | cons x r => simp [Tree.fulls, joinWith_cons, restStr, tailJoin]

mutual
/-- **the normal form is printed as the tree** -/
theorem full_norm (s : NumStyle) : ∀ (u : Tree) (uf : Bool), PreCanonAt uf u = true →
    (norm u).full s = u.full s
  | .term .., _, _ => rfl
  | .none _, _, _ => rfl
  | .unary k e l, uf, h => by
    simp only [PreCanonAt, Bool.and_eq_true] at h
    simp [norm, Tree.full, full_norm s e false h.1]
  | .field n e l, uf, h => by
    simp only [PreCanonAt, Bool.and_eq_true] at h
    simp [norm, Tree.full, full_norm s e true h.1]
  | .group k e l, uf, h => by
    simp only [PreCanonAt, Bool.and_eq_true] at h
    simp [norm, Tree.full, full_norm s e false h.2]
  | .boost e n l, uf, h => by
    simp only [PreCanonAt, Bool.and_eq_true] at h
    simp [norm, Tree.full, full_norm s e false h.1.1.1]
  | .approx .., _, _ => rfl
  | .range .., _, _ => rfl
  | .orange .., _, _ => rfl
  | .op k xs l, uf, h => by
    simp only [PreCanonAt, Bool.and_eq_true, Bool.or_eq_true, decide_eq_true_eq, bne_iff_ne, ne_eq,
      Bool.not_eq_true'] at h
    obtain ⟨⟨hk, hxs⟩, hcase⟩ := h
    rw [norm_op k xs l hk]
    rcases hcase with ⟨hlen, hall⟩ | ⟨⟨hlen, huf⟩, hall⟩
    · obtain ⟨_, _, h3⟩ := canon_normOps xs k hk hxs hall
      rw [wrapOp_two k _ l (by omega)]
      have hr := restStr_normOps s xs k hk hxs hall []
      have hne : xs ≠ [] := by rintro rfl; simp at hlen
      have hne' : normOps k xs ≠ [] := by
        intro h0; rw [h0] at h3; simp only [List.length_nil] at h3; omega
      rw [← joinWith_restStr s k _ hne', ← joinWith_restStr s k _ hne] at hr
      simp only [Tree.full, List.append_cancel_left hr]
    · match xs, hlen with
      | [x], _ =>
        simp only [List.all_cons, List.all_nil, Bool.and_true, Bool.not_eq_true'] at hall
        simp only [PreCanonsAt, Bool.and_true] at hxs
        have hn := norm_nonop x hall
        have hc := (canon_norm x false hxs).1
        simp only [normOps, List.append_nil, splice_nonop k hn.1, wrapOp]
        rw [full_wrap s _ _ _ (canon_not_none hc), full_norm s x false hxs]
        simp [Tree.full, Tree.fulls, joinWith]
theorem restStr_normOps (s : NumStyle) : ∀ (xs : List Tree) (k : OpK), k ≠ .bool →
    PreCanonsAt xs = true → xs.all (preOperandOK k) = true → ∀ R : Str,
    restStr s k (normOps k xs) R = restStr s k xs R
  | [], _, _, _, _, _ => rfl
  | x :: r, k, hk, hxs, hall, R => by
    simp only [PreCanonsAt, Bool.and_eq_true] at hxs
    simp only [List.all_cons, Bool.and_eq_true] at hall
    have hc := (canon_norm x false hxs.1).1
    rw [normOps, restStr_append, restStr_splice_canon s k _ _ hc, restStr_normOps s r k hk hxs.2 hall.2,
      full_norm s x false hxs.1, restStr_cons]
end

/-! ### the chain condition -/

mutual
/-- **the normal form has the chain condition of the tree** -/
theorem chainAt_norm (s : NumStyle) : ∀ (u : Tree) (uf : Bool) (R : Str), PreCanonAt uf u = true →
    (norm u).chainAt s R = u.chainAt s R
  | .term .., _, _, _ => rfl
  | .none _, _, _, _ => rfl
  | .unary k e l, uf, R, h => by
    simp only [PreCanonAt, Bool.and_eq_true] at h
    simp [norm, Tree.chainAt, full_norm s e false h.1, chainAt_norm s e false _ h.1]
  | .field n e l, uf, R, h => by
    simp only [PreCanonAt, Bool.and_eq_true] at h
    simp [norm, Tree.chainAt, full_norm s e true h.1, chainAt_norm s e true _ h.1]
  | .group k e l, uf, R, h => by
    simp only [PreCanonAt, Bool.and_eq_true] at h
    simp [norm, Tree.chainAt, chainAt_norm s e false _ h.2]
  | .boost e n l, uf, R, h => by
    simp only [PreCanonAt, Bool.and_eq_true] at h
    simp [norm, Tree.chainAt, chainAt_norm s e false _ h.1.1.1]
  | .approx .., _, _, _ => rfl
  | .range .., _, _, _ => rfl
  | .orange .., _, _, _ => rfl
  | .op k xs l, uf, R, h => by
    have h0 := h
    simp only [PreCanonAt, Bool.and_eq_true, Bool.or_eq_true, decide_eq_true_eq, bne_iff_ne, ne_eq,
      Bool.not_eq_true'] at h
    obtain ⟨⟨hk, hxs⟩, hcase⟩ := h
    rw [norm_op k xs l hk]
    rcases hcase with ⟨hlen, hall⟩ | ⟨⟨hlen, huf⟩, hall⟩
    · obtain ⟨_, _, h3⟩ := canon_normOps xs k hk hxs hall
      rw [wrapOp_two k _ l (by omega), chainAt_op, chainAt_op]
      have hne : xs ≠ [] := by rintro rfl; simp at hlen
      exact listChain_normOps s xs k hk hxs hall _ hne
    · match xs, hlen with
      | [x], _ =>
        simp only [List.all_cons, List.all_nil, Bool.and_true, Bool.not_eq_true'] at hall
        simp only [PreCanonsAt, Bool.and_true] at hxs
        have hn := norm_nonop x hall
        simp only [normOps, List.append_nil, splice_nonop k hn.1, wrapOp]
        have e : ((norm x).setHead (l.head ++ (norm x).head)).setTail ((norm x).tail ++ l.tail) =
            ((norm x).setHead (l.head ++ (norm x).head)).setTail
              (((norm x).setHead (l.head ++ (norm x).head)).tail ++ l.tail) := by simp
        rw [e, chainAt_setTail, chainAt_setHead, chainAt_norm s x false _ hxs, chainAt_op]
        simp [listChain, restStr_nil, Tree.chainsTail]
theorem chainsTail_normOps (s : NumStyle) : ∀ (xs : List Tree) (k : OpK), k ≠ .bool →
    PreCanonsAt xs = true → xs.all (preOperandOK k) = true → ∀ R : Str,
    Tree.chainsTail s k (normOps k xs) R = Tree.chainsTail s k xs R
  | [], _, _, _, _, _ => rfl
  | x :: r, k, hk, hxs, hall, R => by
    simp only [PreCanonsAt, Bool.and_eq_true] at hxs
    simp only [List.all_cons, Bool.and_eq_true] at hall
    have hc := (canon_norm x false hxs.1).1
    rw [normOps, chainsTail_append, chainsTail_splice_canon s k _ _ hc,
      restStr_normOps s r k hk hxs.2 hall.2, chainsTail_normOps s r k hk hxs.2 hall.2,
      full_norm s x false hxs.1, chainAt_norm s x false _ hxs.1, Tree.chainsTail]
theorem listChain_normOps (s : NumStyle) : ∀ (xs : List Tree) (k : OpK), k ≠ .bool →
    PreCanonsAt xs = true → xs.all (preOperandOK k) = true → ∀ R : Str, xs ≠ [] →
    listChain s k (normOps k xs) R = listChain s k xs R
  | [], _, _, _, _, _, hne => absurd rfl hne
  | x :: r, k, hk, hxs, hall, R, _ => by
    simp only [PreCanonsAt, Bool.and_eq_true] at hxs
    simp only [List.all_cons, Bool.and_eq_true] at hall
    have hc := (canon_norm x false hxs.1).1
    rw [normOps, listChain_append s k _ _ R (splice_ne_nil k _ hc), listChain_splice_canon s k _ _ hc,
      restStr_normOps s r k hk hxs.2 hall.2, chainsTail_normOps s r k hk hxs.2 hall.2,
      chainAt_norm s x false _ hxs.1, listChain]
end

end Luqum
