/-
  Luqum.Lemmas.PrettySpellJoin — what `_concatenates` does to the chunks, exactly enough for
  re-lexing: the output is the chunks, in order, each one with its newlines replaced by non-empty
  blank strings (`Blur`), a blank prefix before each, and a NON-EMPTY blank string between two
  consecutive chunks (`Joined`).
-/
import Luqum.Lemmas.PrettyLemmas
import Luqum.Lemmas.PrettySpellSeg

namespace Luqum.PSpell
open Luqum Luqum.Pretty

/-! ### `sep.join(s.split("\n"))` -/

/-- replace every newline by `J` -/
def reNl (J : Str) : Str → Str
  | [] => []
  | c :: r => if c = '\n' then J ++ reNl J r else c :: reNl J r

theorem reNl_append (J a b : Str) : reNl J (a ++ b) = reNl J a ++ reNl J b := by
  induction a with
  | nil => rfl
  | cons c r ih =>
    simp only [List.cons_append, reNl]
    split <;> simp [ih]

theorem joinStr_cons_ne (J x : Str) {r : List Str} (h : r ≠ []) :
    joinStr J (x :: r) = x ++ J ++ joinStr J r := by
  cases r with
  | nil => exact absurd rfl h
  | cons y r => rfl

theorem joinStr_append (J : Str) : ∀ {a b : List Str}, a ≠ [] → b ≠ [] →
    joinStr J (a ++ b) = joinStr J a ++ J ++ joinStr J b
  | [], _, h, _ => absurd rfl h
  | [x], b, _, hb => by
    rw [List.singleton_append, joinStr_cons_ne J x hb]; rfl
  | x :: y :: r, b, _, hb => by
    have ih := joinStr_append J (a := y :: r) (b := b) (by simp) hb
    rw [List.cons_append, joinStr_cons_ne J x (by simp), ih, joinStr_cons_ne J x (by simp)]
    simp only [List.append_assoc]

theorem splitLines_go_ne (cur s : Str) : splitLines.go cur s ≠ [] := by
  induction s generalizing cur with
  | nil => simp [splitLines.go]
  | cons c r ih =>
    unfold splitLines.go
    split
    · simp
    · exact ih _

theorem splitLines_ne (s : Str) : splitLines s ≠ [] := splitLines_go_ne [] s

theorem joinStr_splitLines_go (J : Str) : ∀ (s cur : Str),
    joinStr J (splitLines.go cur s) = cur.reverse ++ reNl J s
  | [], cur => by simp [splitLines.go, joinStr, reNl]
  | c :: r, cur => by
    unfold splitLines.go
    split
    · next h =>
      subst h
      rw [joinStr_cons_ne J _ (splitLines_go_ne [] r), joinStr_splitLines_go J r []]
      simp [reNl]
    · next h =>
      rw [joinStr_splitLines_go J r (c :: cur)]
      simp [reNl, h]

/-- `J.join(s.split("\n"))` replaces the newlines of `s` by `J` -/
theorem joinStr_splitLines (J s : Str) : joinStr J (splitLines s) = reNl J s := by
  simp [splitLines, joinStr_splitLines_go]

theorem flatMap_splitLines_ne {strs : List Str} (h : strs ≠ []) : strs.flatMap splitLines ≠ [] := by
  cases strs with
  | nil => exact absurd rfl h
  | cons x r =>
    simp only [List.flatMap_cons, ne_eq, List.append_eq_nil_iff, not_and]
    intro h1; exact absurd h1 (splitLines_ne x)

theorem joinStr_flatMap_splitLines (J : Str) : ∀ strs : List Str,
    joinStr J (strs.flatMap splitLines) = joinStr J (strs.map (reNl J))
  | [] => rfl
  | [x] => by simp [joinStr, joinStr_splitLines]
  | x :: y :: r => by
    have ih := joinStr_flatMap_splitLines J (y :: r)
    rw [List.flatMap_cons, joinStr_append J (splitLines_ne x) (flatMap_splitLines_ne (by simp)), ih,
      joinStr_splitLines]
    show _ = joinStr J (reNl J x :: List.map (reNl J) (y :: r))
    rw [joinStr_cons_ne J _ (by simp)]

/-! ### blurring: newlines become non-empty blank strings -/

/-- `s'` is `s` with every newline replaced by some non-empty blank string -/
inductive Blur : Str → Str → Prop
  | nil : Blur [] []
  | keep {c : Char} {s s' : Str} : c ≠ '\n' → Blur s s' → Blur (c :: s) (c :: s')
  | nl {w s s' : Str} : w ≠ [] → isBlank w = true → Blur s s' → Blur ('\n' :: s) (w ++ s')

theorem isSpace_nl : isSpace '\n' = true := by decide +kernel

theorem Blur.refl : ∀ s : Str, Blur s s
  | [] => .nil
  | c :: r => by
    by_cases h : c = '\n'
    · subst h
      exact Blur.nl (w := ['\n']) (by simp) (by simp [isBlank, isSpace_nl]) (Blur.refl r)
    · exact .keep h (Blur.refl r)

theorem isBlank_reNl {J w : Str} (hJ : isBlank J = true) (hw : isBlank w = true) :
    isBlank (reNl J w) = true := by
  induction w with
  | nil => rfl
  | cons c r ih =>
    rw [isBlank_cons, Bool.and_eq_true] at hw
    simp only [reNl]
    split
    · simp only [isBlank_append, hJ, ih hw.2, Bool.and_self]
    · rw [isBlank_cons, hw.1, ih hw.2]; rfl

theorem reNl_ne_nil {J w : Str} (hJ : J ≠ []) (hw : w ≠ []) : reNl J w ≠ [] := by
  cases w with
  | nil => exact absurd rfl hw
  | cons c r =>
    simp only [reNl]
    split
    · simp [hJ]
    · simp

/-- splitting and re-joining with a non-empty blank string keeps a blurred text blurred -/
theorem Blur.reNl {J s s' : Str} (hJ : J ≠ []) (hJb : isBlank J = true) (h : Blur s s') :
    Blur s (reNl J s') := by
  induction h with
  | nil => exact .nil
  | @keep c s s' hc _ ih =>
    simp only [PSpell.reNl, hc, if_false]
    exact .keep hc ih
  | @nl w s s' hw hwb _ ih =>
    rw [reNl_append]
    exact .nl (reNl_ne_nil hJ hw) (isBlank_reNl hJb hwb) ih

theorem Blur.append_inv : ∀ {a b s' : Str}, Blur (a ++ b) s' →
    ∃ a' b', s' = a' ++ b' ∧ Blur a a' ∧ Blur b b'
  | [], b, s', h => ⟨[], s', rfl, .nil, h⟩
  | c :: a, b, s', h => by
    rw [List.cons_append] at h
    cases h with
    | keep hc h' =>
      obtain ⟨a', b', e, h1, h2⟩ := Blur.append_inv h'
      exact ⟨c :: a', b', by rw [e]; rfl, .keep hc h1, h2⟩
    | nl hw hwb h' =>
      obtain ⟨a', b', e, h1, h2⟩ := Blur.append_inv h'
      exact ⟨_ ++ a', b', by rw [e, List.append_assoc], .nl hw hwb h1, h2⟩

/-- a blank string stays blank, and stays empty or non-empty -/
theorem Blur.blank {w w' : Str} (h : Blur w w') (hw : isBlank w = true) :
    isBlank w' = true ∧ (w' = [] → w = []) := by
  induction h with
  | nil => exact ⟨rfl, fun _ => rfl⟩
  | keep _ _ ih =>
    rw [isBlank_cons, Bool.and_eq_true] at hw
    exact ⟨by rw [isBlank_cons, hw.1, (ih hw.2).1]; rfl, fun h => by cases h⟩
  | nl hw' hwb _ ih =>
    rw [isBlank_cons, Bool.and_eq_true] at hw
    refine ⟨by simp only [isBlank_append, hwb, (ih hw.2).1, Bool.and_self], fun h => ?_⟩
    simp only [List.append_eq_nil_iff] at h
    exact absurd h.1 hw'

/-- a text without newline is not changed -/
theorem Blur.noNl {x x' : Str} (h : Blur x x') (hx : '\n' ∉ x) : x' = x := by
  induction h with
  | nil => rfl
  | keep _ _ ih => rw [ih (fun hm => hx (List.mem_cons_of_mem _ hm))]
  | nl _ _ _ _ => exact absurd (List.mem_cons_self) hx

/-- **a blurred spelling is a loosened spelling** (blank separators, no newline in a token text) -/
theorem Blur.spell : ∀ {ps : List Piece} {tr s' : Str}, Blur (spell ps tr) s' →
    (∀ p ∈ ps, isBlank p.sep = true) → isBlank tr = true → (∀ p ∈ ps, '\n' ∉ p.text) →
    ∃ qs tr', s' = Luqum.spell qs tr' ∧ LooseL ps qs ∧ isBlank tr' = true
  | [], tr, s', h, _, htr, _ => ⟨[], s', rfl, .nil, (h.blank htr).1⟩
  | p :: ps, tr, s', h, hb, htr, hn => by
    simp only [Luqum.spell, List.append_assoc] at h
    obtain ⟨w', r', e1, h1, h2⟩ := Blur.append_inv h
    obtain ⟨x', r'', e2, h3, h4⟩ := Blur.append_inv h2
    obtain ⟨qs, tr', e3, h5, h6⟩ := Blur.spell h4 (fun q hq => hb q (List.mem_cons_of_mem _ hq)) htr
      (fun q hq => hn q (List.mem_cons_of_mem _ hq))
    have hw := h1.blank (hb p (by simp))
    have hx := h3.noNl (hn p (by simp))
    refine ⟨⟨w', p.kind, p.text⟩ :: qs, tr', ?_, .cons rfl hw.1 hw.2 h5, h6⟩
    rw [e1, e2, e3, hx]
    simp [Luqum.spell]

/-! ### joined chunks -/

/-- `out` is the chunks, in order, each blurred and preceded by a blank string, with a non-empty
blank string between two consecutive chunks -/
inductive Joined : List Str → Str → Prop
  | one {P s s' : Str} : isBlank P = true → Blur s s' → Joined [s] (P ++ s')
  | cons {P s s' J o y : Str} {r : List Str} : isBlank P = true → Blur s s' → J ≠ [] →
      isBlank J = true → Joined (y :: r) o → Joined (s :: y :: r) (P ++ s' ++ J ++ o)

theorem Joined.ne_nil {xs : List Str} {o : Str} (h : Joined xs o) : xs ≠ [] := by
  cases h <;> simp

theorem Joined.single (s : Str) : Joined [s] s := by
  have := Joined.one (P := []) (s := s) (s' := s) rfl (Blur.refl s)
  simpa using this

theorem Joined.pre {xs : List Str} {o P : Str} (hP : isBlank P = true) (h : Joined xs o) :
    Joined xs (P ++ o) := by
  cases h with
  | @one P' s s' h1 h2 =>
    rw [← List.append_assoc]
    exact .one (by simp only [isBlank_append, hP, h1, Bool.and_self]) h2
  | @cons P' s s' J o y r h1 h2 h3 h4 h5 =>
    have := Joined.cons (P := P ++ P') (by simp only [isBlank_append, hP, h1, Bool.and_self]) h2 h3 h4 h5
    simpa only [List.append_assoc] using this

theorem Joined.append {a b : List Str} {oa ob J : Str} (ha : Joined a oa) (hb : Joined b ob)
    (hJ : J ≠ []) (hJb : isBlank J = true) : Joined (a ++ b) (oa ++ J ++ ob) := by
  induction ha with
  | one h1 h2 =>
    cases b with
    | nil => exact absurd rfl hb.ne_nil
    | cons y r => exact .cons h1 h2 hJ hJb hb
  | cons h1 h2 h3 h4 _ ih =>
    have := Joined.cons h1 h2 h3 h4 ih
    simpa only [List.append_assoc, List.cons_append, List.append_eq] using this

theorem Joined.reNl {xs : List Str} {o K : Str} (hK : K ≠ []) (hKb : isBlank K = true)
    (h : Joined xs o) : Joined xs (reNl K o) := by
  induction h with
  | one h1 h2 =>
    rw [reNl_append]
    exact .one (isBlank_reNl hKb h1) (h2.reNl hK hKb)
  | cons h1 h2 h3 h4 _ ih =>
    simp only [reNl_append]
    exact .cons (isBlank_reNl hKb h1) (h2.reNl hK hKb) (reNl_ne_nil hK h3) (isBlank_reNl hKb h4) ih

/-! ### `_apply_stick` and `_concatenates` -/

/-- rendered elements: every string element is the joined form of a group of chunks -/
inductive EltsJ : List Str → List Elt → Prop
  | nil : EltsJ [] []
  | stick {c : List Str} {e : List Elt} : EltsJ c e → EltsJ c (.stick :: e)
  | str {g c : List Str} {s : Str} {e : List Elt} : Joined g s → EltsJ c e →
      EltsJ (g ++ c) (.str s :: e)

inductive StrsJ : List Str → List Str → Prop
  | nil : StrsJ [] []
  | cons {g c : List Str} {s : Str} {r : List Str} : Joined g s → StrsJ c r → StrsJ (g ++ c) (s :: r)

/-- what is known about the pending string of `_apply_stick` -/
def LastJ (cl : List Str) : Option Str → Prop
  | none => cl = []
  | some l => Joined cl l

theorem blank_space : isBlank [' '] = true := by decide +kernel

theorem applyStick_joined : ∀ (elts : List Elt) (last : Option Str) (st : Bool) (strs cl ce : List Str),
    LastJ cl last → EltsJ ce elts → applyStick elts last st = some strs →
      StrsJ (cl ++ ce) strs ∧ strs ≠ []
  | [], last, st, strs, cl, ce, hl, he, h => by
    cases he
    cases last with
    | none => simp [applyStick] at h
    | some l =>
      simp only [applyStick, Option.map_some, Option.some.injEq] at h
      subst h
      exact ⟨.cons hl .nil, by simp⟩
  | .stick :: r, last, st, strs, cl, ce, hl, he, h => by
    cases he with
    | stick he' =>
      cases last with
      | none => simp [applyStick] at h
      | some l =>
        simp only [applyStick] at h
        exact applyStick_joined r (some l) true strs cl ce hl he' h
  | .str c :: r, last, st, strs, cl, ce, hl, he, h => by
    cases he with
    | @str g c' _ _ hg he' =>
      cases st <;> cases last <;> simp only [applyStick] at h
      · -- not sticking, nothing pending
        simp only [LastJ] at hl
        subst hl
        have := applyStick_joined r (some c) false strs g c' hg he' (by simpa using h)
        simpa using this
      · -- not sticking, a pending string
        rename_i l
        simp only [Bool.false_eq_true, if_false, Option.map_eq_some_iff] at h
        obtain ⟨rest, h1, rfl⟩ := h
        have := (applyStick_joined r (some c) false rest g c' hg he' h1).1
        exact ⟨.cons hl this, by simp⟩
      · simp at h
      · -- sticking
        rename_i l
        simp only [if_true] at h
        have hj : Joined (cl ++ g) (l ++ [' '] ++ c) := Joined.append hl hg (by simp) blank_space
        have := applyStick_joined r (some (l ++ [' '] ++ c)) false strs (cl ++ g) c' hj he' h
        simpa only [List.append_assoc] using this

/-- the strings of `_apply_stick`, each split at newlines and re-joined, all joined with `J` -/
theorem strsJ_joined {J : Str} (hJ : J ≠ []) (hJb : isBlank J = true) :
    ∀ (strs c : List Str), StrsJ c strs → strs ≠ [] → Joined c (joinStr J (strs.map (reNl J)))
  | [], _, _, h => absurd rfl h
  | [s], c, h, _ => by
    cases h with
    | cons hg hr =>
      cases hr
      simpa [joinStr] using hg.reNl hJ hJb
  | s :: s' :: r, c, h, _ => by
    cases h with
    | cons hg hr =>
      have ih := strsJ_joined hJ hJb (s' :: r) _ hr (by simp)
      rw [List.map_cons, joinStr_cons_ne J _ (by simp)]
      exact Joined.append (hg.reNl hJ hJb) ih hJ hJb

theorem isBlank_replicate (n : Nat) : isBlank (List.replicate n ' ') = true := by
  induction n with
  | zero => rfl
  | succ n ih =>
    rw [List.replicate_succ, isBlank_cons, ih]
    decide +kernel

mutual
/-- **what `_concatenates` returns**: the chunks of the chain list, joined -/
theorem concatenates_joined (cfg : PrettyCfg) : ∀ (xs : List Chain) (n : Int) (level : Nat)
    (inOne : Bool) (out : Str), concatenates cfg xs n level inOne = some out →
      Joined (chunks xs) out
  | xs, n, level, inOne, out, h => by
    unfold concatenates at h
    simp only at h
    split at h
    · cases h
    · next elts he =>
      split at h
      · cases h
      · next strs hs =>
        have hE := concatElts_joined cfg xs _ _ elts he
        obtain ⟨hS, hne⟩ := applyStick_joined elts none false strs [] (chunks xs) rfl hE hs
        simp only [Option.some.injEq] at h
        subst h
        rw [joinStr_flatMap_splitLines]
        have hpre : isBlank (if (level ≠ 0 && !inOne) = true then List.replicate cfg.indent ' ' else [])
            = true := by
          split
          · exact isBlank_replicate _
          · rfl
        refine Joined.pre hpre (strsJ_joined ?_ ?_ _ _ (by simpa using hS) hne)
        · split <;> simp
        · split
          · exact blank_space
          · rw [isBlank_cons, isSpace_nl, hpre]; rfl
theorem concatElts_joined (cfg : PrettyCfg) : ∀ (xs : List Chain) (lvl : Nat) (one : Bool)
    (elts : List Elt), concatElts cfg xs lvl one = some elts → EltsJ (chunks xs) elts
  | [], lvl, one, elts, h => by
    simp [concatElts] at h; subst h; simpa using EltsJ.nil
  | .str s :: r, lvl, one, elts, h => by
    simp only [concatElts, Option.map_eq_some_iff] at h
    obtain ⟨rest, h1, rfl⟩ := h
    have := EltsJ.str (Joined.single s) (concatElts_joined cfg r lvl one rest h1)
    simpa using this
  | .stick :: r, lvl, one, elts, h => by
    simp only [concatElts, Option.map_eq_some_iff] at h
    obtain ⟨rest, h1, rfl⟩ := h
    simpa using EltsJ.stick (concatElts_joined cfg r lvl one rest h1)
  | .sub ys :: r, lvl, one, elts, h => by
    simp only [concatElts] at h
    split at h
    · next s rest hs hr =>
      simp only [Option.some.injEq] at h
      subst h
      have := EltsJ.str (concatenates_joined cfg ys _ _ _ s hs) (concatElts_joined cfg r lvl one rest hr)
      simpa using this
    · cases h
end

end Luqum.PSpell
