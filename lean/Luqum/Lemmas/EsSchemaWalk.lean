/-
  Luqum.Lemmas.EsSchemaWalk — Elasticsearch mappings as an inductive type (`Node`, `Props`), their
  JSON (`toJson`), and the walk of `SchemaAnalyzer._walk_properties` over such a JSON:

  * `walkProps_eq_enum`: with enough fuel `walkProps` enumerates the fields of the mapping exactly as
    the structural enumeration `enumProps` does (each field once, in document order, with its true
    parents); `schemaFields_toJson`: `schemaFields` provides enough fuel.
  * `allFields`: the (path, field) pairs of a mapping; `schemaNotAnalyzed_toJson`: the not-analysed
    fields are the dotted paths of the fields whose effective definition is not analysed text.

  A `Node` is a leaf (a type, optionally an `index` attribute), a multi-field (a leaf with sub
  `fields`), an object (explicit `"type": "object"` or implicit: only `properties`) or a nested node.
  No node has both `fields` and `properties`: the loop-variable re-binding of `_walk_properties`
  (modelled literally in `walkProps`) is therefore not observable on the JSON of a `Node`.
-/
import Luqum.Model.Schema

namespace Luqum.Lemmas.EsSchema
open Luqum

/-! ### mappings -/

/-- the definition of a leaf field: its `type` and, optionally, its `index` attribute -/
structure LeafDef where
  ty : Str
  idx : Option Str := none
deriving Repr, DecidableEq

inductive Node
  | leaf (d : LeafDef)
  | multi (d : LeafDef) (subs : List (Str × LeafDef))
  | object (explicit : Bool) (props : List (Str × Node))
  | nested (props : List (Str × Node))
deriving Repr

/-- the `properties` of a mapping or of a container: (name, node) in document order -/
abbrev Props := List (Str × Node)

def leafJson (d : LeafDef) : JObj :=
  ("type".toList, JVal.str d.ty) ::
    (match d.idx with | some i => [("index".toList, JVal.str i)] | none => [])

def subsJson (subs : List (Str × LeafDef)) : JObj := subs.map fun s => (s.1, JVal.obj (leafJson s.2))

mutual
def Node.toJson : Node → JVal
  | .leaf d => .obj (leafJson d)
  | .multi d subs => .obj (leafJson d ++ [("fields".toList, .obj (subsJson subs))])
  | .object true ps =>
    .obj [("type".toList, .str "object".toList), ("properties".toList, .obj (propsJson ps))]
  | .object false ps => .obj [("properties".toList, .obj (propsJson ps))]
  | .nested ps =>
    .obj [("type".toList, .str "nested".toList), ("properties".toList, .obj (propsJson ps))]
def propsJson : Props → JObj
  | [] => []
  | (k, n) :: r => (k, n.toJson) :: propsJson r
end

/-- `{"mappings": {"properties": {…}}}` (ES ≥ 6: one document type) -/
def toJson (m : Props) : JVal :=
  .obj [("mappings".toList, .obj [("properties".toList, .obj (propsJson m))])]

/-- `dict(subdef, **fdef)` on leaf definitions: the sub field overloads its parent's definition -/
def mergeLeaf (d s : LeafDef) : LeafDef :=
  ⟨s.ty, match s.idx with | some i => some i | none => d.idx⟩

mutual
/-- the nesting of containers (the fuel `walkProps` needs) -/
def Node.depth : Node → Nat
  | .leaf _ => 0
  | .multi _ _ => 0
  | .object _ ps => Props.depth ps
  | .nested ps => Props.depth ps
def Props.depth : Props → Nat
  | [] => 0
  | (_, n) :: r => max (n.depth + 1) (Props.depth r)
end

/-! ### the structural enumeration -/

abbrev Entry := Str × JVal × Parents

mutual
/-- the fields `_walk_properties` yields for the node `n` named `k`: itself, its sub fields (when
asked), then the fields below it -/
def enumNode (sf : Bool) (parents : Parents) (k : Str) : Node → List Entry
  | .leaf d => [(k, (Node.leaf d).toJson, parents)]
  | .multi d subs =>
    (k, (Node.multi d subs).toJson, parents) ::
      (if sf then subs.map fun s =>
          (s.1, JVal.obj (leafJson (mergeLeaf d s.2)), parents ++ [(k, (Node.multi d subs).toJson)])
       else [])
  | .object e ps =>
    (k, (Node.object e ps).toJson, parents) :: enumProps sf (parents ++ [(k, (Node.object e ps).toJson)]) ps
  | .nested ps =>
    (k, (Node.nested ps).toJson, parents) :: enumProps sf (parents ++ [(k, (Node.nested ps).toJson)]) ps
def enumProps (sf : Bool) (parents : Parents) : Props → List Entry
  | [] => []
  | (k, n) :: r => enumNode sf parents k n ++ enumProps sf parents r
end

/-! ### JSON computations -/

theorem leafJson_fields (d : LeafDef) : (JVal.obj (leafJson d)).getKey "fields" = none := by
  cases d with | mk ty idx => cases idx <;> rfl

theorem leafJson_properties (d : LeafDef) : (JVal.obj (leafJson d)).getKey "properties" = none := by
  cases d with | mk ty idx => cases idx <;> rfl

theorem multiJson_fields (d : LeafDef) (x : JVal) :
    (JVal.obj (leafJson d ++ [("fields".toList, x)])).getKey "fields" = some x := by
  cases d with | mk ty idx => cases idx <;> rfl

theorem multiJson_properties (d : LeafDef) (x : JVal) :
    (JVal.obj (leafJson d ++ [("fields".toList, x)])).getKey "properties" = none := by
  cases d with | mk ty idx => cases idx <;> rfl

theorem multiJson_erase (d : LeafDef) (x : JVal) :
    jerase (leafJson d ++ [("fields".toList, x)]) "fields".toList = leafJson d := by
  cases d with | mk ty idx => cases idx <;> rfl

theorem mergeObj_leafJson (d s : LeafDef) :
    mergeObj (leafJson d) (leafJson s) = leafJson (mergeLeaf d s) := by
  cases d with | mk ty idx =>
  cases s with | mk ty' idx' =>
  cases idx <;> cases idx' <;> rfl

theorem propsJson_isEmpty (ps : Props) : (propsJson ps).isEmpty = ps.isEmpty := by
  cases ps with
  | nil => simp [propsJson]
  | cons kn r => obtain ⟨k, n⟩ := kn; simp [propsJson]

/-! ### `walkProps` on the JSON of a mapping -/

/-- the merged definitions of the sub fields of a property -/
def walkSubs (subfields : Bool) (fdef : JVal) : List (Str × JVal) :=
  if subfields then
    match fdef.getKey "fields" with
    | some fs =>
      let subdef := jerase fdef.objD "fields".toList
      fs.objD.map fun (sn, sd) => (sn, JVal.obj (mergeObj subdef sd.objD))
    | none => []
  else []

/-- the (re-bound) loop variables after the loop over the sub fields -/
def walkLast (subs : List (Str × JVal)) (e : Str × JVal) : Str × JVal :=
  match subs.getLast? with
  | some (sn, sd) => (sn, sd)
  | none => (e.1, e.2)

/-- the body of the loop of `walkProps` for one property -/
def walkBody (subfields : Bool) (fuel : Nat) (parents : Parents) (e : Str × JVal) :
    List (Str × JVal × Parents) :=
  let subs := walkSubs subfields e.2
  let inner := ((walkLast subs e).2.getKey "properties").getD (.obj [])
  (e.1, e.2, parents) :: (subs.map fun (sn, sd) => (sn, sd, parents ++ [(e.1, e.2)])) ++
    (if inner.truthy then walkProps subfields fuel inner.objD (parents ++ [walkLast subs e]) else [])

theorem walkProps_succ (sf : Bool) (fuel : Nat) (props : List (Str × JVal)) (parents : Parents) :
    walkProps sf (fuel + 1) props parents = props.flatMap (walkBody sf fuel parents) := by
  rfl

theorem walkProps_nil (sf : Bool) (fuel : Nat) (parents : Parents) :
    walkProps sf fuel [] parents = [] := by
  cases fuel <;> rfl

theorem walkProps_cons (sf : Bool) (fuel : Nat) (e : Str × JVal) (props : List (Str × JVal))
    (parents : Parents) :
    walkProps sf (fuel + 1) (e :: props) parents =
      walkBody sf fuel parents e ++ walkProps sf (fuel + 1) props parents := by
  rw [walkProps_succ, walkProps_succ, List.flatMap_cons]

theorem walkSubs_of_no_fields (sf : Bool) (j : JVal) (h : j.getKey "fields" = none) :
    walkSubs sf j = [] := by
  unfold walkSubs
  rw [h]
  cases sf <;> rfl

theorem walkLast_nil (e : Str × JVal) : walkLast [] e = e := rfl

/-- a property without `fields` and without `properties`: a single entry -/
theorem walkBody_plain (sf : Bool) (fuel : Nat) (parents : Parents) (k : Str) (j : JVal)
    (hf : j.getKey "fields" = none) (hp : j.getKey "properties" = none) :
    walkBody sf fuel parents (k, j) = [(k, j, parents)] := by
  unfold walkBody
  simp only [walkSubs_of_no_fields sf j hf, walkLast_nil, hp, Option.getD_none, JVal.truthy,
    List.isEmpty_nil, Bool.not_true, List.map_nil]
  rfl

theorem walkBody_leaf (sf : Bool) (fuel : Nat) (parents : Parents) (k : Str) (d : LeafDef) :
    walkBody sf fuel parents (k, .obj (leafJson d)) = [(k, .obj (leafJson d), parents)] :=
  walkBody_plain sf fuel parents k _ (leafJson_fields d) (leafJson_properties d)

theorem walkSubs_multi (d : LeafDef) (subs : List (Str × LeafDef)) :
    walkSubs true (Node.multi d subs).toJson =
      subs.map fun s => (s.1, JVal.obj (leafJson (mergeLeaf d s.2))) := by
  unfold walkSubs
  rw [if_pos rfl, Node.toJson, multiJson_fields]
  simp only [JVal.objD, multiJson_erase, subsJson, List.map_map]
  congr 1
  funext s
  simp only [Function.comp, mergeObj_leafJson]

theorem walkLast_properties (d : LeafDef) (e : Str × JVal)
    (hf : e.2.getKey "properties" = none) (subs : List (Str × LeafDef)) :
    (walkLast (subs.map fun s => (s.1, JVal.obj (leafJson (mergeLeaf d s.2)))) e).2.getKey
      "properties" = none := by
  unfold walkLast
  cases h : (subs.map fun s => (s.1, JVal.obj (leafJson (mergeLeaf d s.2)))).getLast? with
  | none => exact hf
  | some x =>
    have hx := List.mem_of_getLast? h
    rw [List.mem_map] at hx
    obtain ⟨s, _, rfl⟩ := hx
    exact leafJson_properties _

theorem walkBody_multi (sf : Bool) (fuel : Nat) (parents : Parents) (k : Str) (d : LeafDef)
    (subs : List (Str × LeafDef)) :
    walkBody sf fuel parents (k, (Node.multi d subs).toJson) =
      enumNode sf parents k (.multi d subs) := by
  have hprop : (Node.multi d subs).toJson.getKey "properties" = none := by
    rw [Node.toJson]; exact multiJson_properties _ _
  cases sf with
  | false =>
    unfold walkBody
    have : walkSubs false (Node.multi d subs).toJson = [] := rfl
    simp only [this, walkLast_nil, hprop, Option.getD_none, JVal.truthy,
      List.isEmpty_nil, Bool.not_true, List.map_nil, enumNode]
    rfl
  | true =>
    unfold walkBody
    simp only [walkSubs_multi, walkLast_properties d (k, (Node.multi d subs).toJson) hprop subs,
      Option.getD_none, JVal.truthy, List.isEmpty_nil, Bool.not_true, enumNode, List.map_map]
    simp only [Bool.false_eq_true, if_false, List.append_nil, if_true]
    rfl

theorem objectJson_fields (e : Bool) (ps : Props) : (Node.object e ps).toJson.getKey "fields" = none := by
  cases e <;> rfl
theorem objectJson_properties (e : Bool) (ps : Props) :
    (Node.object e ps).toJson.getKey "properties" = some (.obj (propsJson ps)) := by
  cases e <;> rfl
theorem nestedJson_fields (ps : Props) : (Node.nested ps).toJson.getKey "fields" = none := rfl
theorem nestedJson_properties (ps : Props) :
    (Node.nested ps).toJson.getKey "properties" = some (.obj (propsJson ps)) := rfl

/-- the body of the loop on a container: the container, then the walk of its properties -/
theorem walkBody_container (sf : Bool) (fuel : Nat) (parents : Parents) (k : Str) (j : JVal)
    (ps : Props) (hf : j.getKey "fields" = none)
    (hp : j.getKey "properties" = some (.obj (propsJson ps))) :
    walkBody sf fuel parents (k, j) =
      (k, j, parents) :: walkProps sf fuel (propsJson ps) (parents ++ [(k, j)]) := by
  unfold walkBody
  simp only [walkSubs_of_no_fields sf j hf, walkLast_nil, hp, Option.getD_some, JVal.truthy,
    List.map_nil, JVal.objD]
  cases ps with
  | nil => simp [propsJson, walkProps_nil]
  | cons kn r => obtain ⟨k', n'⟩ := kn; simp [propsJson]

mutual
/-- **`walkProps` enumerates the fields of the mapping** (each once, in document order, with its
true parents), whenever the fuel is at least the nesting of the mapping -/
theorem walkProps_eq_enum (sf : Bool) : ∀ (ps : Props) (fuel : Nat) (parents : Parents),
    Props.depth ps ≤ fuel → walkProps sf fuel (propsJson ps) parents = enumProps sf parents ps
  | [], fuel, parents, _ => by simp [propsJson, walkProps_nil, enumProps]
  | (k, n) :: r, fuel, parents, h => by
    cases fuel with
    | zero => simp [Props.depth] at h
    | succ fuel =>
      have h1 : n.depth ≤ fuel := by simp [Props.depth] at h; omega
      have h2 : Props.depth r ≤ fuel + 1 := by simp [Props.depth] at h; omega
      rw [propsJson, walkProps_cons, enumProps, walkProps_eq_enum sf r (fuel + 1) parents h2,
        walkBody_eq_enumNode sf n fuel parents k h1]
theorem walkBody_eq_enumNode (sf : Bool) : ∀ (n : Node) (fuel : Nat) (parents : Parents) (k : Str),
    n.depth ≤ fuel → walkBody sf fuel parents (k, n.toJson) = enumNode sf parents k n
  | .leaf d, fuel, parents, k, _ => by simp [Node.toJson, walkBody_leaf, enumNode]
  | .multi d subs, fuel, parents, k, _ => walkBody_multi sf fuel parents k d subs
  | .object e ps, fuel, parents, k, h => by
    rw [walkBody_container sf fuel parents k _ ps (objectJson_fields e ps) (objectJson_properties e ps),
      walkProps_eq_enum sf ps fuel _ (by simpa [Node.depth] using h), enumNode]
  | .nested ps, fuel, parents, k, h => by
    rw [walkBody_container sf fuel parents k _ ps (nestedJson_fields ps) (nestedJson_properties ps),
      walkProps_eq_enum sf ps fuel _ (by simpa [Node.depth] using h), enumNode]
end

/-- fuel independence -/
theorem walkProps_fuel_indep (sf : Bool) (ps : Props) (f1 f2 : Nat) (parents : Parents)
    (h1 : Props.depth ps ≤ f1) (h2 : Props.depth ps ≤ f2) :
    walkProps sf f1 (propsJson ps) parents = walkProps sf f2 (propsJson ps) parents := by
  rw [walkProps_eq_enum sf ps f1 parents h1, walkProps_eq_enum sf ps f2 parents h2]

mutual
theorem Node.depth_lt_size : ∀ n : Node, n.depth < n.toJson.size
  | .leaf d => by simp [Node.depth, Node.toJson, JVal.size]; omega
  | .multi d subs => by simp [Node.depth, Node.toJson, JVal.size]; omega
  | .object true ps => by
    have := Props.depth_le_size ps
    simp [Node.depth, Node.toJson, JVal.size, JVal.sizeKvs]; omega
  | .object false ps => by
    have := Props.depth_le_size ps
    simp [Node.depth, Node.toJson, JVal.size, JVal.sizeKvs]; omega
  | .nested ps => by
    have := Props.depth_le_size ps
    simp [Node.depth, Node.toJson, JVal.size, JVal.sizeKvs]; omega
theorem Props.depth_le_size : ∀ ps : Props, Props.depth ps ≤ JVal.sizeKvs (propsJson ps)
  | [] => by simp [Props.depth]
  | (k, n) :: r => by
    have h1 := Node.depth_lt_size n
    have h2 := Props.depth_le_size r
    simp only [Props.depth, propsJson, JVal.sizeKvs]
    omega
end

theorem toJson_size (m : Props) : (toJson m).size = 3 + JVal.sizeKvs (propsJson m) := by
  simp [toJson, JVal.size, JVal.sizeKvs]; omega

theorem depth_le_toJson_size (m : Props) : Props.depth m ≤ (toJson m).size := by
  have := Props.depth_le_size m
  rw [toJson_size]; omega

/-- **`schemaFields` provides enough fuel**: the fields of the schema of a mapping are the
structural enumeration -/
theorem schemaFields_toJson (m : Props) (sf : Bool) :
    schemaFields (toJson m) sf = enumProps sf [] m := by
  have hfuel : Props.depth m ≤ (toJson m).size + 1 := by
    have := depth_le_toJson_size m; omega
  cases m with
  | nil =>
    simp [schemaFields, schemaMappings, toJson, JVal.getKey, jget, JVal.objD, propsJson, JVal.truthy,
      walkProps_nil, enumProps]
  | cons kn r =>
    have hm : schemaMappings (toJson (kn :: r)) = [.obj [("properties".toList, .obj (propsJson (kn :: r)))]] := by
      obtain ⟨k, n⟩ := kn
      simp [schemaMappings, toJson, JVal.getKey, jget, JVal.objD, propsJson, JVal.truthy]
    unfold schemaFields
    rw [hm]
    simp only [List.flatMap_cons, List.flatMap_nil, List.append_nil]
    have : ((JVal.obj [("properties".toList, .obj (propsJson (kn :: r)))]).getKey "properties").getD (.obj [])
        = .obj (propsJson (kn :: r)) := rfl
    rw [this]
    exact walkProps_eq_enum sf _ _ [] hfuel

/-! ### the fields of a mapping -/

/-- what is found at a path of a mapping: a node, or a sub field of a multi-field (with the
definition `d` of the multi-field and its own definition `s`) -/
inductive Field
  | node (n : Node)
  | sub (d s : LeafDef)
deriving Repr

/-- the effective `type` of a field (`none`: no `type` key — an implicit object) -/
def Field.ty : Field → Option Str
  | .node (.leaf d) => some d.ty
  | .node (.multi d _) => some d.ty
  | .node (.object true _) => some "object".toList
  | .node (.object false _) => none
  | .node (.nested _) => some "nested".toList
  | .sub d s => some (mergeLeaf d s).ty

/-- the effective `index` attribute of a field (a sub field inherits the one of its parent) -/
def Field.idx : Field → Option Str
  | .node (.leaf d) => d.idx
  | .node (.multi d _) => d.idx
  | .node (.object _ _) => none
  | .node (.nested _) => none
  | .sub d s => (mergeLeaf d s).idx

/-- the JSON definition `_walk_properties` yields for the field -/
def Field.json : Field → JVal
  | .node n => n.toJson
  | .sub d s => .obj (leafJson (mergeLeaf d s))

/-- `not_analyzed_fields`' test: legacy `string` with `index: not_analyzed`, or a type which is
none of text / string / nested / object (in particular: no type at all) -/
def notAnalysedDef (ty idx : Option Str) : Bool :=
  (ty == some "string".toList && idx == some "not_analyzed".toList) ||
    !(ty == some "text".toList || ty == some "string".toList || ty == some "nested".toList ||
      ty == some "object".toList)

def Field.notAnalysed (f : Field) : Bool := notAnalysedDef f.ty f.idx

mutual
/-- the fields of the node `n` named `k` below the path `pfx`, with their paths -/
def fieldsNode (pfx : List Str) (k : Str) : Node → List (List Str × Field)
  | .leaf d => [(pfx ++ [k], .node (.leaf d))]
  | .multi d subs =>
    (pfx ++ [k], .node (.multi d subs)) :: subs.map fun s => (pfx ++ [k] ++ [s.1], Field.sub d s.2)
  | .object e ps => (pfx ++ [k], .node (.object e ps)) :: fieldsProps (pfx ++ [k]) ps
  | .nested ps => (pfx ++ [k], .node (.nested ps)) :: fieldsProps (pfx ++ [k]) ps
def fieldsProps (pfx : List Str) : Props → List (List Str × Field)
  | [] => []
  | (k, n) :: r => fieldsNode pfx k n ++ fieldsProps pfx r
end

/-- all the fields (leaves, sub fields and containers) of a mapping, in document order -/
def allFields (m : Props) : List (List Str × Field) := fieldsProps [] m

/-- the test of `not_analyzed_fields` on a yielded entry -/
def naTest (e : Entry) : Option Str :=
  let na := (JVal.strEq (e.2.1.getKey "type") "string" &&
             JVal.strEq (some ((e.2.1.getKey "index").getD (.str []))) "not_analyzed") ||
            !typeIn e.2.1 ["text", "string", "nested", "object"]
  if na then some (dotName e.1 e.2.2) else none

theorem schemaNotAnalyzed_eq (schema : JVal) :
    schemaNotAnalyzed schema = (schemaFields schema true).filterMap naTest := rfl

/-- the same test on a field with its path -/
def naPath (pf : List Str × Field) : Option Str :=
  if pf.2.notAnalysed then some (joinDot pf.1) else none

theorem strEq_str (x : Str) (s : String) : JVal.strEq (some (.str x)) s = (x == s.toList) := rfl

theorem leafJson_type (d : LeafDef) : (JVal.obj (leafJson d)).getKey "type" = some (.str d.ty) := by
  cases d with | mk ty idx => cases idx <;> rfl

theorem leafJson_index (d : LeafDef) :
    (JVal.obj (leafJson d)).getKey "index" = d.idx.map JVal.str := by
  cases d with | mk ty idx => cases idx <;> rfl

theorem multiJson_type (d : LeafDef) (x : JVal) :
    (JVal.obj (leafJson d ++ [("fields".toList, x)])).getKey "type" = some (.str d.ty) := by
  cases d with | mk ty idx => cases idx <;> rfl

theorem multiJson_index (d : LeafDef) (x : JVal) :
    (JVal.obj (leafJson d ++ [("fields".toList, x)])).getKey "index" = d.idx.map JVal.str := by
  cases d with | mk ty idx => cases idx <;> rfl

theorem typeIn_str (j : JVal) (ty : Str) (h : j.getKey "type" = some (.str ty)) :
    typeIn j ["text", "string", "nested", "object"] =
      (ty == "text".toList || ty == "string".toList || ty == "nested".toList || ty == "object".toList) := by
  simp only [typeIn, h, List.any_cons, List.any_nil, Bool.or_false]
  rw [BEq.comm (a := "text".toList), BEq.comm (a := "string".toList), BEq.comm (a := "nested".toList),
    BEq.comm (a := "object".toList)]
  simp only [Bool.or_assoc]

/-- the JSON test agrees with the test on (type, index) -/
theorem naTest_leafLike (j : JVal) (ty : Str) (idx : Option Str)
    (ht : j.getKey "type" = some (.str ty)) (hi : j.getKey "index" = idx.map JVal.str)
    (fname : Str) (parents : Parents) :
    naTest (fname, j, parents) =
      if notAnalysedDef (some ty) idx then some (dotName fname parents) else none := by
  unfold naTest notAnalysedDef
  simp only [typeIn_str j ty ht, ht, hi, strEq_str]
  cases idx with
  | none => simp [strEq_str]
  | some i => simp [strEq_str]

theorem naTest_field (f : Field) (fname : Str) (parents : Parents) :
    naTest (fname, f.json, parents) =
      if f.notAnalysed then some (dotName fname parents) else none := by
  cases f with
  | sub d s =>
    exact naTest_leafLike _ _ _ (leafJson_type _) (leafJson_index _) _ _
  | node n =>
    cases n with
    | leaf d => exact naTest_leafLike _ _ _ (leafJson_type _) (leafJson_index _) _ _
    | multi d subs => exact naTest_leafLike _ _ _ (multiJson_type _ _) (multiJson_index _ _) _ _
    | object e ps =>
      cases e with
      | true => exact naTest_leafLike _ "object".toList none rfl rfl _ _
      | false => rfl
    | nested ps => exact naTest_leafLike _ "nested".toList none rfl rfl _ _

mutual
theorem filterMap_enumNode (parents : Parents) (k : Str) : ∀ n : Node,
    (enumNode true parents k n).filterMap naTest =
      (fieldsNode (parents.map (·.1)) k n).filterMap naPath
  | .leaf d => by
    simp only [enumNode, fieldsNode, List.filterMap_cons, List.filterMap_nil]
    rw [show (Node.leaf d).toJson = (Field.node (.leaf d)).json from rfl, naTest_field]
    simp [naPath, dotName]
  | .multi d subs => by
    simp only [enumNode, fieldsNode, List.filterMap_cons, if_true]
    rw [show (Node.multi d subs).toJson = (Field.node (.multi d subs)).json from rfl, naTest_field]
    have : (subs.map fun s => ((s.1, JVal.obj (leafJson (mergeLeaf d s.2)),
          parents ++ [(k, (Field.node (.multi d subs)).json)]) : Entry)).filterMap naTest =
        (subs.map fun s => (parents.map (·.1) ++ [k] ++ [s.1], Field.sub d s.2)).filterMap naPath := by
      rw [List.filterMap_map, List.filterMap_map]
      congr 1
      funext s
      simp only [Function.comp]
      rw [show JVal.obj (leafJson (mergeLeaf d s.2)) = (Field.sub d s.2).json from rfl, naTest_field]
      simp [naPath, dotName]
    rw [this]
    simp [naPath, dotName]
  | .object e ps => by
    simp only [enumNode, fieldsNode, List.filterMap_cons]
    rw [show (Node.object e ps).toJson = (Field.node (.object e ps)).json from rfl, naTest_field,
      filterMap_enumProps _ ps]
    simp [naPath, dotName]
  | .nested ps => by
    simp only [enumNode, fieldsNode, List.filterMap_cons]
    rw [show (Node.nested ps).toJson = (Field.node (.nested ps)).json from rfl, naTest_field,
      filterMap_enumProps _ ps]
    simp [naPath, dotName]
theorem filterMap_enumProps (parents : Parents) : ∀ ps : Props,
    (enumProps true parents ps).filterMap naTest =
      (fieldsProps (parents.map (·.1)) ps).filterMap naPath
  | [] => by simp [enumProps, fieldsProps]
  | (k, n) :: r => by
    simp only [enumProps, fieldsProps, List.filterMap_append, filterMap_enumNode parents k n,
      filterMap_enumProps parents r]
end

/-- **the not-analysed fields of the schema of a mapping**: the dotted paths of the fields
(leaves, sub fields, containers) whose effective definition passes the test, in document order -/
theorem schemaNotAnalyzed_toJson (m : Props) :
    schemaNotAnalyzed (toJson m) = (allFields m).filterMap naPath := by
  rw [schemaNotAnalyzed_eq, schemaFields_toJson, filterMap_enumProps]
  rfl

end Luqum.Lemmas.EsSchema
