/-
  Luqum.Lemmas.RelexConv — the `TERM_RE` loop, converse direction: what the loop consumed is
  consumed entirely when it stands alone (`termRest_take`), the loop stops for a reason
  (`termRest_exact`), and a term that was consumed never ends with a time expression whose seconds
  are still to come (`termRest_no_tmm`).
-/
import Luqum.Lemmas.RelexTerm

namespace Luqum

theorem secOK_shape {r : Str} (h : secOK r = true) :
    ∃ s1 s2 r', r = ':' :: s1 :: s2 :: r' ∧ (isDigitU s1 && isDigitU s2) = true := by
  unfold secOK at h
  split at h
  · exact ⟨_, _, _, rfl, h⟩
  · cases h

theorem secOK_take {r : Str} {n : Nat} (h : secOK r = false) : secOK (r.take n) = false := by
  cases hs : secOK (r.take n) with
  | false => rfl
  | true =>
    obtain ⟨s1, s2, r', hr, hd⟩ := secOK_shape hs
    match r, n, hr with
    | c1 :: c2 :: c3 :: r0, n + 3, hr =>
      simp only [List.take_succ_cons, List.cons.injEq] at hr
      obtain ⟨rfl, rfl, rfl, _⟩ := hr
      simp [secOK, hd] at h
    | [], n, hr => simp at hr
    | [c1], n, hr => cases n <;> simp at hr
    | [c1, c2], n, hr =>
      match n, hr with
      | 0, hr => simp at hr
      | 1, hr => simp at hr
      | n + 2, hr => simp at hr
    | c1 :: c2 :: c3 :: r0, 0, hr => simp at hr
    | c1 :: c2 :: c3 :: r0, 1, hr => simp at hr
    | c1 :: c2 :: c3 :: r0, 2, hr => simp at hr

/-! ### what was consumed is consumed when alone -/

/-- if the look-behind never reaches into `more`, the text consumed by the loop after
`known ++ more` is consumed entirely after `known` alone -/
theorem termRest_take : ∀ (fuel fuel' : Nat) (known more xs : Str) (n : Nat),
    (∀ y, tddR (y ++ known ++ more) = tddR (y ++ known)) → n ≤ fuel' →
    termRest fuel (known ++ more) xs = n → termRest fuel' known (xs.take n) = n := by
  intro fuel
  induction fuel with
  | zero => intro fuel' known more xs n _ _ h; simp [termRest] at h; subst h; simp [termRest_nil]
  | succ f ih =>
    intro fuel' known more xs n hb hf h
    cases xs with
    | nil => rw [termRest_nil] at h; subst h; simp [termRest_nil]
    | cons c xs =>
      have hb' : ∀ (z : Str) (y : Str), tddR (y ++ (z ++ known) ++ more) = tddR (y ++ (z ++ known)) := by
        intro z y
        have := hb (y ++ z)
        simpa [List.append_assoc] using this
      by_cases hn : isTermNext c = true
      · rw [termRest_next hn] at h
        subst h
        obtain ⟨g, rfl⟩ : ∃ g, fuel' = g + 1 := ⟨fuel' - 1, by omega⟩
        rw [Nat.add_comm 1, List.take_succ_cons, termRest_next hn, Nat.add_comm 1]
        congr 1
        exact ih g (c :: known) more xs _ (hb' [c]) (by omega) rfl
      · have hn : isTermNext c = false := by simpa using hn
        by_cases hc : c = '\\'
        · subst hc
          cases xs with
          | nil => rw [termRest_esc_end] at h; subst h; simp [termRest_nil]
          | cons d xs =>
            by_cases hd : d = '\n'
            · subst hd; rw [termRest_esc_nl] at h; subst h; simp [termRest_nil]
            · rw [termRest_esc hd] at h
              subst h
              obtain ⟨g, rfl⟩ : ∃ g, fuel' = g + 1 := ⟨fuel' - 1, by omega⟩
              rw [Nat.add_comm 2, List.take_succ_cons, List.take_succ_cons, termRest_esc hd,
                Nat.add_comm 2]
              congr 1
              exact ih g (d :: '\\' :: known) more xs _ (hb' [d, '\\']) (by omega) rfl
        · by_cases hc' : c = ':'
          · subst hc'
            cases ht : tddR (known ++ more) && startsDD xs with
            | false => rw [termRest_colon_stop ht] at h; subst h; simp [termRest_nil]
            | true =>
              simp only [Bool.and_eq_true] at ht
              have hk : tddR known = true := by
                have := hb []; simp only [List.nil_append] at this; rw [← this]; exact ht.1
              obtain ⟨d2, d1, k, rfl, hd⟩ := tddR_shape hk
              obtain ⟨m1, m2, r', rfl, hm⟩ := startsDD_shape ht.2
              have h4 : (isDigitU d1 && isDigitU d2 && isDigitU m1 && isDigitU m2) = true := by
                simp only [Bool.and_eq_true] at hd hm ⊢; exact ⟨⟨hd, hm.1⟩, hm.2⟩
              simp only [List.cons_append] at h
              cases hsec : secOK r' with
              | true =>
                obtain ⟨s1, s2, r'', rfl, hs⟩ := secOK_shape hsec
                rw [termRest_time_sec h4 hs] at h
                subst h
                obtain ⟨g, rfl⟩ : ∃ g, fuel' = g + 1 := ⟨fuel' - 1, by omega⟩
                rw [Nat.add_comm 6]
                simp only [List.take_succ_cons]
                rw [termRest_time_sec h4 hs, Nat.add_comm 6]
                congr 1
                exact ih g _ more r'' _ (hb' [s2, s1, ':', m2, m1, ':']) (by omega) rfl
              | false =>
                rw [termRest_time_nosec h4 hsec] at h
                subst h
                obtain ⟨g, rfl⟩ : ∃ g, fuel' = g + 1 := ⟨fuel' - 1, by omega⟩
                rw [Nat.add_comm 3]
                simp only [List.take_succ_cons]
                rw [termRest_time_nosec h4 (secOK_take hsec), Nat.add_comm 3]
                congr 1
                exact ih g _ more r' _ (hb' [m2, m1, ':']) (by omega) rfl
          · rw [termRest_other hn hc hc'] at h; subst h; simp [termRest_nil]

/-! ### the loop stops for a reason -/

/-- why the loop stops in front of `r` when `pv` was consumed -/
def exactStop (pv r : Str) : Prop :=
  match r with
  | [] => True
  | c :: r' => isTermNext c = false ∧ (c = '\\' → r' = [] ∨ ∃ r'', r' = '\n' :: r'') ∧
      (c = ':' → (tddR pv && startsDD r') = false)

theorem termRest_exact : ∀ (fuel : Nat) (pv xs : Str) (n : Nat), termRest fuel pv xs = n →
    xs.length ≤ fuel → n ≤ xs.length ∧ exactStop ((xs.take n).reverse ++ pv) (xs.drop n) := by
  intro fuel
  induction fuel with
  | zero =>
    intro pv xs n h hf
    have : xs = [] := by cases xs with | nil => rfl | cons _ _ => simp at hf
    subst this; simp [termRest] at h; subst h; simp [exactStop]
  | succ f ih =>
    intro pv xs n h hf
    cases xs with
    | nil => rw [termRest_nil] at h; subst h; simp [exactStop]
    | cons c xs =>
      simp only [List.length_cons] at hf
      by_cases hn : isTermNext c = true
      · rw [termRest_next hn] at h
        subst h
        obtain ⟨h1, h2⟩ := ih (c :: pv) xs _ rfl (by omega)
        refine ⟨by simp; omega, ?_⟩
        rw [Nat.add_comm 1]
        simpa using h2
      · have hn : isTermNext c = false := by simpa using hn
        by_cases hc : c = '\\'
        · subst hc
          cases xs with
          | nil =>
            rw [termRest_esc_end] at h; subst h
            simp [exactStop, hn]
          | cons d xs =>
            by_cases hd : d = '\n'
            · subst hd; rw [termRest_esc_nl] at h; subst h
              simp [exactStop, hn]
            · rw [termRest_esc hd] at h
              subst h
              simp only [List.length_cons] at hf
              obtain ⟨h1, h2⟩ := ih (d :: '\\' :: pv) xs _ rfl (by omega)
              refine ⟨by simp; omega, ?_⟩
              rw [Nat.add_comm 2]
              simpa using h2
        · by_cases hc' : c = ':'
          · subst hc'
            cases ht : tddR pv && startsDD xs with
            | false =>
              rw [termRest_colon_stop ht] at h; subst h
              simp [exactStop, hn, ht]
            | true =>
              simp only [Bool.and_eq_true] at ht
              obtain ⟨d2, d1, k, rfl, hd⟩ := tddR_shape ht.1
              obtain ⟨m1, m2, r', rfl, hm⟩ := startsDD_shape ht.2
              have h4 : (isDigitU d1 && isDigitU d2 && isDigitU m1 && isDigitU m2) = true := by
                simp only [Bool.and_eq_true] at hd hm ⊢; exact ⟨⟨hd, hm.1⟩, hm.2⟩
              simp only [List.length_cons] at hf
              cases hsec : secOK r' with
              | true =>
                obtain ⟨s1, s2, r'', rfl, hs⟩ := secOK_shape hsec
                rw [termRest_time_sec h4 hs] at h
                subst h
                simp only [List.length_cons] at hf
                obtain ⟨h1, h2⟩ := ih (s2 :: s1 :: ':' :: m2 :: m1 :: ':' :: d2 :: d1 :: 'T' :: k) r'' _ rfl (by omega)
                refine ⟨by simp; omega, ?_⟩
                rw [Nat.add_comm 6]
                simpa using h2
              | false =>
                rw [termRest_time_nosec h4 hsec] at h
                subst h
                obtain ⟨h1, h2⟩ := ih (m2 :: m1 :: ':' :: d2 :: d1 :: 'T' :: k) r' _ rfl (by omega)
                refine ⟨by simp; omega, ?_⟩
                rw [Nat.add_comm 3]
                simpa using h2
          · rw [termRest_other hn hc hc'] at h; subst h
            simp [exactStop, hn, hc, hc']

/-! ### no pending seconds -/

theorem isDigitU_colon : isDigitU ':' = false := by decide
theorem isDigitU_bslash : isDigitU '\\' = false := by decide

/-- the loop never stops between the minutes and the seconds of a time expression: if the
characters before a `:` are `T\d\d` and `\d\d:\d\d` follows, the loop does not stop after the
minutes -/
theorem termRest_no_tmm : ∀ (fuel : Nat) (pv a : Str) (m1 m2 s1 s2 : Char) (b : Str),
    tddR (a.reverse ++ pv) = true → (isDigitU m1 && isDigitU m2) = true →
    (isDigitU s1 && isDigitU s2) = true →
    termRest fuel pv (a ++ ':' :: m1 :: m2 :: ':' :: s1 :: s2 :: b) ≠ a.length + 3 := by
  intro fuel
  induction fuel with
  | zero => intro pv a m1 m2 s1 s2 b _ _ _; simp [termRest]
  | succ f ih =>
    intro pv a m1 m2 s1 s2 b ht hm hs
    cases a with
    | nil =>
      simp only [List.reverse_nil, List.nil_append] at ht ⊢
      obtain ⟨d2, d1, k, rfl, hd⟩ := tddR_shape ht
      have h4 : (isDigitU d1 && isDigitU d2 && isDigitU m1 && isDigitU m2) = true := by
        simp only [Bool.and_eq_true] at hd hm ⊢; exact ⟨⟨hd, hm.1⟩, hm.2⟩
      rw [termRest_time_sec h4 hs]
      simp; omega
    | cons c a' =>
      simp only [List.reverse_cons, List.append_assoc, List.cons_append,
        List.length_cons] at ht ⊢
      by_cases hn : isTermNext c = true
      · rw [termRest_next hn]
        have := ih (c :: pv) a' m1 m2 s1 s2 b ht hm hs
        omega
      · have hn : isTermNext c = false := by simpa using hn
        by_cases hc : c = '\\'
        · subst hc
          cases a' with
          | nil =>
            obtain ⟨d2, d1, k, hsh, hd⟩ := tddR_shape ht
            simp only [List.reverse_nil, List.nil_append, List.cons.injEq] at hsh
            rw [← hsh.1, isDigitU_bslash] at hd
            simp at hd
          | cons d a'' =>
            by_cases hd : d = '\n'
            · subst hd; simp only [List.cons_append]; rw [termRest_esc_nl]; omega
            · simp only [List.cons_append, List.length_cons]
              rw [termRest_esc hd]
              simp only [List.reverse_cons, List.append_assoc, List.singleton_append] at ht
              have := ih (d :: '\\' :: pv) a'' m1 m2 s1 s2 b ht hm hs
              omega
        · by_cases hc' : c = ':'
          · subst hc'
            cases htd : tddR pv && startsDD (a' ++ ':' :: m1 :: m2 :: ':' :: s1 :: s2 :: b) with
            | false => rw [termRest_colon_stop htd]; omega
            | true =>
              simp only [Bool.and_eq_true] at htd
              obtain ⟨d2, d1, k, rfl, hd⟩ := tddR_shape htd.1
              obtain ⟨y1, y2, r0, hr0, hy⟩ := startsDD_shape htd.2
              simp only [Bool.and_eq_true] at hy
              match a', hr0, ht with
              | [], hr0, _ =>
                simp only [List.nil_append, List.cons.injEq] at hr0
                rw [← hr0.1, isDigitU_colon] at hy; cases hy.1
              | [x1], hr0, _ =>
                simp only [List.cons_append, List.nil_append, List.cons.injEq] at hr0
                rw [← hr0.2.1, isDigitU_colon] at hy; cases hy.2
              | x1 :: x2 :: a'', hr0, ht =>
                simp only [List.cons_append, List.cons.injEq] at hr0
                obtain ⟨rfl, rfl, hr0⟩ := hr0
                have h4 : (isDigitU d1 && isDigitU d2 && isDigitU x1 && isDigitU x2) = true := by
                  simp only [Bool.and_eq_true] at hd ⊢; exact ⟨⟨hd, hy.1⟩, hy.2⟩
                simp only [List.reverse_cons, List.append_assoc,
                  List.cons_append, List.nil_append] at ht
                simp only [List.cons_append, List.length_cons]
                cases hsec : secOK (a'' ++ ':' :: m1 :: m2 :: ':' :: s1 :: s2 :: b) with
                | false =>
                  rw [termRest_time_nosec h4 hsec]
                  have := ih (x2 :: x1 :: ':' :: d2 :: d1 :: 'T' :: k) a'' m1 m2 s1 s2 b ht hm hs
                  omega
                | true =>
                  obtain ⟨z1, z2, r00, hr00, hz⟩ := secOK_shape hsec
                  simp only [Bool.and_eq_true] at hz
                  match a'', hr00, ht with
                  | [], _, ht => simp [tddR] at ht
                  | [w1], hr00, _ =>
                    simp only [List.cons_append, List.nil_append, List.cons.injEq] at hr00
                    rw [← hr00.2.1, isDigitU_colon] at hz; cases hz.1
                  | [w1, w2], hr00, _ =>
                    simp only [List.cons_append, List.nil_append, List.cons.injEq] at hr00
                    rw [← hr00.2.2.1, isDigitU_colon] at hz; cases hz.2
                  | w1 :: w2 :: w3 :: a3, hr00, ht =>
                    simp only [List.cons_append, List.cons.injEq] at hr00
                    obtain ⟨rfl, rfl, rfl, hr00⟩ := hr00
                    simp only [List.cons_append, List.length_cons]
                    rw [termRest_time_sec h4 (by simp [hz.1, hz.2])]
                    simp only [List.reverse_cons, List.append_assoc,
                      List.cons_append, List.nil_append] at ht
                    have := ih (w3 :: w2 :: ':' :: x2 :: x1 :: ':' :: d2 :: d1 :: 'T' :: k) a3
                      m1 m2 s1 s2 b ht hm hs
                    omega
          · rw [termRest_other hn hc hc']; omega

end Luqum
