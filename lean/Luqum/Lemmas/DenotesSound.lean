/-
  Luqum.Lemmas.DenotesSound — direction grammar ⇒ characterisation: a tree denoted by a token
  sequence at some level (`Denotes`, Luqum.Lemmas.DenotesDefs) is canonical (`CanonAt false`), has the
  shape its level allows (`fits`), its texts are fine (`TextOK`) and its yield is the token sequence.
-/
import Luqum.Lemmas.DenotesDefs

namespace Luqum.Grammar
open Luqum Luqum.Compl

/-! ### levels -/

theorem Level.le_def (a b : Level) : a ≤ b ↔ a.rank ≤ b.rank := Iff.rfl

theorem Level.le_refl (a : Level) : a ≤ a := Nat.le_refl _

theorem Level.le_trans {a b c : Level} (h₁ : a ≤ b) (h₂ : b ≤ c) : a ≤ c := Nat.le_trans h₁ h₂

/-- what a phrase of a level can be: a level excludes the bare (unparenthesised) forms of all the
looser levels -/
def fits : Level → Tree → Bool
  | .implicit, _ => true
  | .or, t => !isOpK .unk t
  | .and, t => !isOpK .unk t && !isOpK .or t
  | .prefix, t => !isOp' t
  | .suffix, t => !isOp' t && !isUnary t && !isField t
  | .atom, t =>
    match t with
    | .term .. | .group .. | .range .. | .orange .. => true
    | _ => false

theorem fits_mono {a b : Level} (h : a ≤ b) {t : Tree} (hf : fits a t = true) : fits b t = true := by
  cases t with
  | op k xs l =>
    cases k <;> cases a <;> cases b <;>
      first
        | (exact absurd h (by decide))
        | (simp [fits, isOpK, isOp', isUnary, isField] at hf ⊢)
  | _ =>
    cases a <;> cases b <;>
      first
        | (exact absurd h (by decide))
        | (simp [fits, isOpK, isOp', isUnary, isField] at hf ⊢)

/-! ### shape tests on constructors -/

@[simp] theorem isOp'_op (k : OpK) (xs : List Tree) (l : Lay) : isOp' (.op k xs l) = true := rfl
@[simp] theorem isOp'_unary (k : UnK) (e : Tree) (l : Lay) : isOp' (.unary k e l) = false := rfl
@[simp] theorem isOp'_field (n : Str) (e : Tree) (l : Lay) : isOp' (.field n e l) = false := rfl
@[simp] theorem isOp'_boost (e : Tree) (n : Num) (l : Lay) : isOp' (.boost e n l) = false := rfl
@[simp] theorem isOp'_approx (k : ApxK) (e : Tree) (n : Num) (l : Lay) :
    isOp' (.approx k e n l) = false := rfl
@[simp] theorem isOp'_group (k : GrpK) (e : Tree) (l : Lay) : isOp' (.group k e l) = false := rfl
@[simp] theorem isUnary_boost (e : Tree) (n : Num) (l : Lay) : isUnary (.boost e n l) = false := rfl
@[simp] theorem isUnary_approx (k : ApxK) (e : Tree) (n : Num) (l : Lay) :
    isUnary (.approx k e n l) = false := rfl
@[simp] theorem isField_boost (e : Tree) (n : Num) (l : Lay) : isField (.boost e n l) = false := rfl
@[simp] theorem isField_approx (k : ApxK) (e : Tree) (n : Num) (l : Lay) :
    isField (.approx k e n l) = false := rfl

/-! ### numerals -/

theorem decNumeral_iff (dflt : Dec) (src : Str) (n : Num) :
    DecNumeral dflt src n ↔ n.source = src ∧ numOK (decNum · dflt) n = true := by
  constructor
  · intro h
    cases h with
    | absent hs hv => exact ⟨hs, by simp [numOK, decNum, srcValue, hs, hv]⟩
    | given hne hs hd hv =>
      subst hs
      exact ⟨rfl, by simp [numOK, decNum, srcValue, hne, hd, hv]⟩
  · rintro ⟨rfl, h⟩
    by_cases hs : n.source = []
    · rw [hs]
      refine .absent hs ?_
      simpa [numOK, decNum, srcValue, hs] using h
    · simp only [numOK, decNum, srcValue, hs, if_false] at h
      cases hd : Dec.ofLiteral n.source with
      | none => simp [hd] at h
      | some d =>
        simp only [hd] at h
        exact .given hs rfl hd h

theorem intNumeral_iff (src : Str) (n : Num) :
    IntNumeral src n ↔ n.source = src ∧ numOK intNum n = true := by
  constructor
  · intro h
    cases h with
    | absent hs hv => exact ⟨hs, by simp [numOK, intNum, srcValue, hs, hv]⟩
    | given hne hs hd hv =>
      subst hs
      exact ⟨rfl, by simp [numOK, intNum, srcValue, hne, hd, hv]⟩
  · rintro ⟨rfl, h⟩
    by_cases hs : n.source = []
    · rw [hs]
      refine .absent hs ?_
      simpa [numOK, intNum, srcValue, hs] using h
    · simp only [numOK, intNum, srcValue, hs, if_false] at h
      cases hd : intOfLiteral n.source with
      | none => simp [hd] at h
      | some d =>
        simp only [hd] at h
        exact .given hs rfl hd h

/-! ### one-token operands -/

theorem wordOrPhrase_iff (tk : Token) (e : Tree) :
    WordOrPhrase tk e ↔ isWP e = true ∧ wordTerm e = true ∧ yield e = [tk] := by
  constructor
  · intro h
    cases h with
    | word hw => simp [isWP, wordTerm, yield, hw]
    | phrase => simp [isWP, wordTerm, yield]
  · rintro ⟨h1, h2, h3⟩
    cases e with
    | term k v l =>
      cases k with
      | word =>
        simp only [wordTerm, beq_iff_eq] at h2
        simp only [yield, h2, List.cons.injEq, and_true] at h3
        subst h3
        exact .word h2
      | phrase =>
        simp only [yield, List.cons.injEq, and_true] at h3
        subst h3
        exact .phrase
      | regex => simp [isWP] at h1
    | _ => simp [isWP] at h1

theorem bound_iff (ts : List Token) (e : Tree) :
    Bound ts e ↔ isBound e = true ∧ boundText e = true ∧ yield e = ts := by
  constructor
  · intro h
    cases h with
    | plain hw =>
      cases hw with
      | word hw' => simp [isBound, boundText, wordTerm, yield, hw']
      | phrase => simp [isBound, boundText, wordTerm, yield]
    | negative hw =>
      obtain ⟨h1, h2, h3⟩ := (wordOrPhrase_iff _ _).1 hw
      simp [isBound, boundText, yield, h1, h2, h3]
  · rintro ⟨h1, h2, h3⟩
    cases e with
    | term k v l =>
      cases k with
      | word =>
        simp only [boundText, wordTerm, beq_iff_eq] at h2
        simp only [yield, h2] at h3
        subst h3
        exact .plain (.word h2)
      | phrase =>
        simp only [yield] at h3
        subst h3
        exact .plain .phrase
      | regex => simp [isBound] at h1
    | unary k a l =>
      cases k with
      | prohibit =>
        simp only [isBound] at h1
        simp only [boundText] at h2
        cases a with
        | term k v la =>
          cases k with
          | word =>
            simp only [wordTerm, beq_iff_eq] at h2
            simp only [yield, h2] at h3
            subst h3
            exact .negative (.word h2)
          | phrase =>
            simp only [yield] at h3
            subst h3
            exact .negative .phrase
          | regex => simp [isWP] at h1
        | _ => simp [isWP] at h1
      | _ => simp [isBound] at h1
    | _ => simp [isBound] at h1

/-! ### operands of an n-ary rule -/

theorem yields_eq_map (xs : List Tree) : yields xs = xs.map yield := by
  induction xs with
  | nil => rfl
  | cons x r ih => simp [yields, ih]

theorem canonsAt_iff (xs : List Tree) : CanonsAt xs = true ↔ ∀ x ∈ xs, CanonAt false x = true := by
  induction xs with
  | nil => simp [CanonsAt]
  | cons x r ih => simp [CanonsAt, ih]

theorem textsOK_iff (xs : List Tree) : TextsOK xs = true ↔ ∀ x ∈ xs, TextOK x = true := by
  induction xs with
  | nil => simp [TextsOK]
  | cons x r ih => simp [TextsOK, ih]

/-- the facts about the operands of an n-ary rule, from the facts about each of them -/
theorem ops_sound (lv : Level) (ops : List (List Token × Tree))
    (h : ∀ p ∈ ops, CanonAt false p.2 = true ∧ fits lv p.2 = true ∧ TextOK p.2 = true ∧ yield p.2 = p.1) :
    CanonsAt (ops.map (·.2)) = true ∧ (∀ x ∈ ops.map (·.2), fits lv x = true) ∧
    TextsOK (ops.map (·.2)) = true ∧ yields (ops.map (·.2)) = ops.map (·.1) := by
  refine ⟨(canonsAt_iff _).2 ?_, ?_, (textsOK_iff _).2 ?_, ?_⟩
  · intro x hx
    obtain ⟨p, hp, rfl⟩ := List.mem_map.1 hx
    exact (h p hp).1
  · intro x hx
    obtain ⟨p, hp, rfl⟩ := List.mem_map.1 hx
    exact (h p hp).2.1
  · intro x hx
    obtain ⟨p, hp, rfl⟩ := List.mem_map.1 hx
    exact (h p hp).2.2.1
  · rw [yields_eq_map, List.map_map]
    exact List.map_congr_left fun p hp => (h p hp).2.2.2

theorem canonAt_true_of_not_paren {e : Tree} (hp : isParen e = false) (hc : CanonAt false e = true) :
    CanonAt true e = true := by
  cases e with
  | group k x l => simp [isParen] at hp
  | approx k _ _ _ => cases k <;> simpa [CanonAt] using hc
  | term => rfl
  | none => simp [CanonAt] at hc
  | _ => simpa [CanonAt] using hc

/-! ### the theorem -/

/-- **grammar ⇒ characterisation**: a tree denoted at level `lv` by `toks` is canonical, fits the
level, has fine texts, and `toks` is its yield -/
theorem denotes_sound {lv : Level} {toks : List Token} {t : Tree} (h : Denotes lv toks t) :
    CanonAt false t = true ∧ fits lv t = true ∧ TextOK t = true ∧ yield t = toks := by
  induction h with
  | looser hle _ ih => exact ⟨ih.1, fits_mono hle ih.2.1, ih.2.2⟩
  | implicit ops l hlen _ ih =>
    obtain ⟨h1, h2, h3, h4⟩ := ops_sound .or ops ih
    refine ⟨?_, rfl, by simpa [TextOK] using h3, by simp [yield, opKey, h4]⟩
    simp only [CanonAt, Bool.and_eq_true, List.all_eq_true, decide_eq_true_eq]
    exact ⟨⟨⟨by decide, by simpa using hlen⟩, h1⟩, fun x hx => by simpa [operandOK, fits] using h2 x hx⟩
  | or ops l hlen _ ih =>
    obtain ⟨h1, h2, h3, h4⟩ := ops_sound .and ops ih
    refine ⟨?_, by simp [fits, isOpK], by simpa [TextOK] using h3, by simp [yield, opKey, h4]⟩
    simp only [CanonAt, Bool.and_eq_true, List.all_eq_true, decide_eq_true_eq]
    exact ⟨⟨⟨by decide, by simpa using hlen⟩, h1⟩, fun x hx => by simpa [operandOK, fits] using h2 x hx⟩
  | and ops l hlen _ ih =>
    obtain ⟨h1, h2, h3, h4⟩ := ops_sound .prefix ops ih
    refine ⟨?_, by simp [fits, isOpK], by simpa [TextOK] using h3, by simp [yield, opKey, h4]⟩
    simp only [CanonAt, Bool.and_eq_true, List.all_eq_true, decide_eq_true_eq]
    exact ⟨⟨⟨by decide, by simpa using hlen⟩, h1⟩, fun x hx => by simpa [operandOK, fits] using h2 x hx⟩
  | plus _ ih =>
    obtain ⟨h1, h2, h3, h4⟩ := ih
    simp only [fits] at h2
    simp [CanonAt, fits, TextOK, yield, h1, h2, h3, h4]
  | minus _ ih =>
    obtain ⟨h1, h2, h3, h4⟩ := ih
    simp only [fits] at h2
    simp [CanonAt, fits, TextOK, yield, h1, h2, h3, h4]
  | not _ ih =>
    obtain ⟨h1, h2, h3, h4⟩ := ih
    simp only [fits] at h2
    simp [CanonAt, fits, TextOK, yield, h1, h2, h3, h4]
  | field hn _ hp ih =>
    obtain ⟨h1, h2, h3, h4⟩ := ih
    simp only [fits] at h2
    simp [CanonAt, fits, TextOK, yield, canonAt_true_of_not_paren hp h1, h2, h3, h4, hn]
  | fieldGroup hn _ ih =>
    obtain ⟨h1, _, h3, h4⟩ := ih
    simp [CanonAt, fits, TextOK, yield, h1, h3, h4, hn]
  | boost _ hnum ih =>
    obtain ⟨h1, h2, h3, h4⟩ := ih
    obtain ⟨hs, hok⟩ := (decNumeral_iff _ _ _).1 hnum
    simp only [fits, Bool.and_eq_true] at h2
    simp [CanonAt, fits, TextOK, yield, h1, h2, h3, h4, hs, hok]
  | fuzzy hw hnum =>
    obtain ⟨hs, hok⟩ := (decNumeral_iff _ _ _).1 hnum
    simp [CanonAt, fits, isWord, TextOK, wordTerm, yield, hw, hs, hok]
  | proximity hnum =>
    obtain ⟨hs, hok⟩ := (intNumeral_iff _ _).1 hnum
    simp [CanonAt, fits, isPhrase, TextOK, yield, hs, hok]
  | word hw => simp [CanonAt, fits, TextOK, yield, hw]
  | toWord =>
    have hr : reservedKind ['T', 'O'] = .to := by decide
    simp [CanonAt, fits, TextOK, yield, hr]
  | phrase => simp [CanonAt, fits, TextOK, yield]
  | regex => simp [CanonAt, fits, TextOK, yield]
  | group _ ih =>
    obtain ⟨h1, _, h3, h4⟩ := ih
    simp [CanonAt, fits, TextOK, yield, h1, h3, h4]
  | range hlo hhi =>
    obtain ⟨a1, a2, a3⟩ := (bound_iff _ _).1 hlo
    obtain ⟨b1, b2, b3⟩ := (bound_iff _ _).1 hhi
    simp [CanonAt, fits, TextOK, yield, a1, a2, a3, b1, b2, b3]
  | lessThan hw =>
    obtain ⟨a1, a2, a3⟩ := (wordOrPhrase_iff _ _).1 hw
    simp [CanonAt, fits, TextOK, yield, a1, a2, a3]
  | greaterThan hw =>
    obtain ⟨a1, a2, a3⟩ := (wordOrPhrase_iff _ _).1 hw
    simp [CanonAt, fits, TextOK, yield, a1, a2, a3]

end Luqum.Grammar
