/-
  Luqum.Lemmas.AhtGlueDefs — definitions and elementary facts for C13 (iv), the round trip of
  `auto_head_tail`:
  * `stopC` / `contOK`: the texts that may follow a complete sub-expression in the printed result of
    `auto_head_tail` (nothing, a blank, `)`, `]`, `}`, `~`, `^`); after such a text every token keeps
    its reading (`followOK_cont`);
  * `startsDD` (the `\d\d` test of the time-expression rule, finding KF8) does not see such a text;
  * `noNone`, `noLayout`, `spaced` (the separators `auto_head_tail` guarantees), `safeAdj` (the glued
    adjacencies that do not survive re-lexing: findings KF8 and KF9), `expressible`;
  * `strip` (the tree without any layout) and the predicates that do not look at the layout.
-/
import Luqum.Lemmas.Aht
import Luqum.Props.Reparse

namespace Luqum.Lemmas.AhtGlue
open Luqum Luqum.Lemmas.Aht

/-! ### what may follow a complete sub-expression -/

/-- a character that ends a term and is neither `\` nor `:` : a blank or one of `^ ~ ( ) { } [ ]` -/
def stopC (c : Char) : Bool := !isTermNext c && c != '\\' && c != ':'

/-- the text is empty or starts with a `stopC` character -/
def contOK : Str → Bool
  | [] => true
  | c :: _ => stopC c

theorem stopC_blank {c : Char} (h : isSpace c = true) : stopC c = true := by
  have h1 : isTermNext c = false := by simp [isTermNext, h]
  have h2 : c ≠ '\\' := space_ne h (by decide)
  have h3 : c ≠ ':' := space_ne h (by decide)
  simp [stopC, h1, h2, h3]

theorem stopC_fixed : stopC ')' = true ∧ stopC ']' = true ∧ stopC '}' = true ∧ stopC '~' = true ∧
    stopC '^' = true := by decide

theorem stopC_termNext {c : Char} (h : stopC c = true) : isTermNext c = false := by
  simp only [stopC, Bool.and_eq_true, Bool.not_eq_true'] at h; exact h.1.1

/-- a character that is not a blank and can go on a term (so: every digit, the dot, `=`) is not a
`stopC` character -/
theorem not_stopC_of {c : Char} (hs : isSpace c = false) (hx : termNextExcl.contains c = false) :
    stopC c = false := by
  simp only [stopC, isTermNext, hs, hx, Bool.not_false, Bool.and_self, Bool.not_true,
    Bool.false_and]

theorem stopC_not_digit {c : Char} (h : stopC c = true) : isDigitU c = false := by
  cases hd : isDigitU c with
  | false => rfl
  | true =>
    have hs : isSpace c = false := by
      cases hs : isSpace c with
      | false => rfl
      | true => rw [space_not_digit hs] at hd; cases hd
    have hall : (termNextExcl.all fun d => !isDigitU d) = true := by decide +kernel
    have hx : termNextExcl.contains c = false := by
      cases hx : termNextExcl.contains c with
      | false => rfl
      | true =>
        have := List.all_eq_true.1 hall c (by simpa using hx)
        simp [hd] at this
    rw [not_stopC_of hs hx] at h; cases h

theorem stopC_not_num {c : Char} (h : stopC c = true) : isNumChar c = false := by
  cases hd : isNumChar c with
  | false => rfl
  | true =>
    have hs : isSpace c = false := by
      cases hs : isSpace c with
      | false => rfl
      | true => rw [space_not_num hs] at hd; cases hd
    have hall : (termNextExcl.all fun d => !isNumChar d) = true := by decide
    have hx : termNextExcl.contains c = false := by
      cases hx : termNextExcl.contains c with
      | false => rfl
      | true =>
        have := List.all_eq_true.1 hall c (by simpa using hx)
        simp [hd] at this
    rw [not_stopC_of hs hx] at h; cases h

theorem stopC_ne_eq {c : Char} (h : stopC c = true) : c ≠ '=' := by
  rintro rfl; revert h; decide

/-- **after a `contOK` text every token keeps its reading** -/
theorem followOK_cont (k : TokK) (x : Str) {R : Str} (h : contOK R = true) : followOK k x R = true := by
  cases R with
  | nil => exact followOK_nil k x
  | cons c r =>
    have hc : stopC c = true := h
    have h1 := stopC_termNext hc
    have h5 := stopC_not_num hc
    have h4 := stopC_ne_eq hc
    simp only [stopC, Bool.and_eq_true, Bool.not_eq_true', bne_iff_ne, ne_eq] at hc
    have h2 := hc.1.2
    have h3 := hc.2
    cases k <;> simp [followOK, termStops, h1, h2, h3, h4, h5]

theorem contOK_blank_append {w R : Str} (hw : isBlank w = true) (h : contOK R = true) :
    contOK (w ++ R) = true := by
  cases w with
  | nil => exact h
  | cons c w' =>
    rw [isBlank_cons, Bool.and_eq_true] at hw
    exact stopC_blank hw.1

theorem contOK_of_ne {w : Str} (hw : isBlank w = true) (hne : w ≠ []) (X : Str) :
    contOK (w ++ X) = true := by
  cases w with
  | nil => exact absurd rfl hne
  | cons c w' =>
    rw [isBlank_cons, Bool.and_eq_true] at hw
    exact stopC_blank hw.1

theorem contOK_blank {w : Str} (hw : isBlank w = true) : contOK w = true := by
  have := contOK_blank_append (R := []) hw rfl
  simpa using this

theorem contOK_cons {c : Char} (h : stopC c = true) (r : Str) : contOK (c :: r) = true := h

/-- a blank in front: any token keeps its reading -/
theorem followOK_blank_append (k : TokK) (x : Str) {w : Str} (hw : isBlank w = true) (hne : w ≠ [])
    (X : Str) : followOK k x (w ++ X) = true :=
  followOK_cont k x (contOK_of_ne hw hne X)

/-! ### the `\d\d` test -/

/-- nothing behind a character that is not a digit is seen -/
theorem startsDD_cut {c : Char} (hc : isDigitU c = false) : ∀ (A X Y : Str),
    startsDD (A ++ c :: X) = startsDD (A ++ c :: Y)
  | [], X, Y => by cases X <;> cases Y <;> simp [startsDD, hc]
  | [a], X, Y => by simp [startsDD, hc]
  | a :: b :: A, X, Y => by simp [startsDD]

/-- a `contOK` text behind is not seen -/
theorem startsDD_cont {R : Str} (h : contOK R = true) : ∀ B : Str, startsDD (B ++ R) = startsDD B := by
  cases R with
  | nil => intro B; simp
  | cons c r =>
    have hc := stopC_not_digit (c := c) h
    intro B
    match B with
    | [] => cases r <;> simp [startsDD, hc]
    | [a] => simp [startsDD, hc]
    | a :: b :: B' => simp [startsDD]

theorem startsDD_cont2 {R R' : Str} (h : contOK R = true) (h' : contOK R' = true) (B : Str) :
    startsDD (B ++ R) = startsDD (B ++ R') := by
  rw [startsDD_cont h, startsDD_cont h']

/-- the reading of `<` / `>` only depends on whether a `=` follows -/
theorem followOK_lt (x : Str) {R : Str} (h : R.head? ≠ some '=') :
    followOK .lessthan x R = true ∧ followOK .greaterthan x R = true := by
  cases R with
  | nil => exact ⟨rfl, rfl⟩
  | cons c r =>
    have hc : c ≠ '=' := by simpa using h
    simp [followOK, hc]

theorem followOK_le (R : Str) :
    followOK .lessthan ['<', '='] R = true ∧ followOK .greaterthan ['>', '='] R = true := by
  cases R <;> simp [followOK]

/-! ### predicates on trees -/

/-- the field name ends with `T\d\d` or `T\d\d:\d\d` (what the time-expression alternative of
`TERM_RE` looks behind for) -/
def timeName (n : Str) : Bool := tddR n.reverse || tmmR n.reverse

mutual
/-- no `NoneItem` anywhere -/
def noNone : Tree → Bool
  | .term .. => true
  | .none _ => false
  | .field _ e _ => noNone e
  | .group _ e _ => noNone e
  | .range a b _ _ _ => noNone a && noNone b
  | .approx _ e _ _ => noNone e
  | .boost e _ _ => noNone e
  | .op _ xs _ => noNones xs
  | .unary _ e _ => noNone e
  | .orange _ e _ _ => noNone e
def noNones : List Tree → Bool
  | [] => true
  | x :: r => noNone x && noNones r
end

mutual
/-- the tree was built without layout: every head and every tail is empty -/
def noLayout : Tree → Bool
  | .term _ _ l => l.head.isEmpty && l.tail.isEmpty
  | .none l => l.head.isEmpty && l.tail.isEmpty
  | .field _ e l => l.head.isEmpty && l.tail.isEmpty && noLayout e
  | .group _ e l => l.head.isEmpty && l.tail.isEmpty && noLayout e
  | .range a b _ _ l => l.head.isEmpty && l.tail.isEmpty && noLayout a && noLayout b
  | .approx _ e _ l => l.head.isEmpty && l.tail.isEmpty && noLayout e
  | .boost e _ l => l.head.isEmpty && l.tail.isEmpty && noLayout e
  | .op _ xs l => l.head.isEmpty && l.tail.isEmpty && noLayouts xs
  | .unary _ e l => l.head.isEmpty && l.tail.isEmpty && noLayout e
  | .orange _ e _ l => l.head.isEmpty && l.tail.isEmpty && noLayout e
def noLayouts : List Tree → Bool
  | [] => true
  | x :: r => noLayout x && noLayouts r
end

/-- the operands after the first one: each has a head (when the operation prints an operator word,
`nh`), each but the last has a tail -/
def restOK (nh : Bool) : List Tree → Bool
  | [] => true
  | y :: r => (!nh || !y.lay.head.isEmpty) && (r.isEmpty || !y.lay.tail.isEmpty) && restOK nh r

/-- the operands of an operation are separated -/
def operandsOK (nh : Bool) : List Tree → Bool
  | [] => true
  | x :: r => (r.isEmpty || !x.lay.tail.isEmpty) && restOK nh r

mutual
/-- **the separators `auto_head_tail` guarantees**: a separator on both sides of `AND` / `OR`,
between the operands of an implicit operation, after `NOT`, on both sides of `TO` -/
def spaced : Tree → Bool
  | .term .. => true
  | .none _ => true
  | .field _ e _ => spaced e
  | .group _ e _ => spaced e
  | .range a b _ _ _ => !a.lay.tail.isEmpty && !b.lay.head.isEmpty && spaced a && spaced b
  | .approx _ e _ _ => spaced e
  | .boost e _ _ => spaced e
  | .op k xs _ => operandsOK (k != .unk) xs && spaceds xs
  | .unary k e _ => (k != .not || !e.lay.head.isEmpty) && spaced e
  | .orange _ e _ _ => spaced e
def spaceds : List Tree → Bool
  | [] => true
  | x :: r => spaced x && spaceds r
end

mutual
/-- **the glued adjacencies that survive re-lexing.**  `auto_head_tail` leaves a field name, its
`:` and the value glued, and `<` / `>` glued to the operand; two such adjacencies are not read back
as they were written:
* (KF8) a field whose name ends with `T\d\d` (or `T\d\d:\d\d`) and whose value is printed with two
  digits first: `T12:30` is one word for the lexer (time expressions);
* (KF9) a `From` / `To` that is not inclusive and whose operand is printed with `=` first: `<` `=b`
  is read `<=` `b`.
Nothing else is excluded. The test reads the printed operand, with its own head: it is exact also
for trees that have some layout. -/
def safeAdj : Tree → Bool
  | .term .. => true
  | .none _ => true
  | .field n e _ => !(timeName n && startsDD (e.full .norm)) && safeAdj e
  | .group _ e _ => safeAdj e
  | .range a b _ _ _ => safeAdj a && safeAdj b
  | .approx _ e _ _ => safeAdj e
  | .boost e _ _ => safeAdj e
  | .op _ xs _ => safeAdjs xs
  | .unary _ e _ => safeAdj e
  | .orange _ e inc _ => (inc || (e.full .norm).head? != some '=') && safeAdj e
def safeAdjs : List Tree → Bool
  | [] => true
  | x :: r => safeAdj x && safeAdjs r
end

/-- **a shape the grammar can express**: canonical with respect to the precedences (`CanonAt`), words
and field names that are not reserved words (`WordsOK`), numerals that are printed and read back as
the same number (`numsOK`), texts that lex as one token each (`validTexts`) -/
def expressible (t : Tree) : Bool := CanonAt false t && WordsOK t && numsOK t && validTexts t

/-! ### the predicates that ignore the layout of the root -/

theorem spaced_setLay (t : Tree) (l : Lay) : spaced (t.setLay l) = spaced t := by cases t <;> rfl
theorem safeAdj_setLay (t : Tree) (l : Lay) : safeAdj (t.setLay l) = safeAdj t := by cases t <;> rfl
theorem noNone_setLay (t : Tree) (l : Lay) : noNone (t.setLay l) = noNone t := by cases t <;> rfl

@[simp] theorem spaced_addHead (t : Tree) : spaced (addHeadIfEmpty t) = spaced t := by
  rw [addHead_eq_setLay, spaced_setLay]
@[simp] theorem spaced_addTail (t : Tree) : spaced (addTailIfEmpty t) = spaced t := by
  rw [addTail_eq_setLay, spaced_setLay]
@[simp] theorem safeAdj_addHead (t : Tree) : safeAdj (addHeadIfEmpty t) = safeAdj t := by
  rw [addHead_eq_setLay, safeAdj_setLay]
@[simp] theorem safeAdj_addTail (t : Tree) : safeAdj (addTailIfEmpty t) = safeAdj t := by
  rw [addTail_eq_setLay, safeAdj_setLay]

theorem noNone_isNone {t : Tree} (h : noNone t = true) : t.isNone = false := by
  cases t <;> simp_all [noNone, Tree.isNone]

/-- a tree that is not a `NoneItem` prints its head, its body and its tail -/
theorem full_eq {t : Tree} (h : t.isNone = false) (s : NumStyle) :
    t.full s = t.lay.head ++ (t.body s ++ t.lay.tail) := by
  cases t <;> simp_all [Tree.isNone, Tree.full, Tree.body, Tree.lay]

/-- the separator after the last token of a tree ends with the tail of the tree -/
theorem trail_eq {t : Tree} (h : t.isNone = false) (s : NumStyle) (pre : Str) :
    ∃ w, (t.pcs s pre).2 = w ++ t.lay.tail := by
  rw [Tree.pcs_lay s t h pre]; exact ⟨_, rfl⟩

theorem trail_ne {t : Tree} (h : t.isNone = false) (s : NumStyle) (pre : Str)
    (ht : t.lay.tail.isEmpty = false) : (t.pcs s pre).2 ≠ [] := by
  obtain ⟨w, hw⟩ := trail_eq h s pre
  rw [hw]
  intro h0
  have := (List.append_eq_nil_iff.1 h0).2
  rw [this] at ht; cases ht

mutual
theorem noLayout_blank : ∀ t : Tree, noLayout t = true → t.blankLayout = true
  | .term _ _ l, h => by
    simp only [noLayout, Bool.and_eq_true, List.isEmpty_iff] at h
    simp [Tree.blankLayout, h.1, h.2, isBlank]
  | .none _, _ => rfl
  | .field _ e l, h => by
    simp only [noLayout, Bool.and_eq_true, List.isEmpty_iff] at h
    simp [Tree.blankLayout, h.1.1, h.1.2, isBlank, noLayout_blank e h.2]
  | .group _ e l, h => by
    simp only [noLayout, Bool.and_eq_true, List.isEmpty_iff] at h
    simp [Tree.blankLayout, h.1.1, h.1.2, isBlank, noLayout_blank e h.2]
  | .approx _ e _ l, h => by
    simp only [noLayout, Bool.and_eq_true, List.isEmpty_iff] at h
    simp [Tree.blankLayout, h.1.1, h.1.2, isBlank, noLayout_blank e h.2]
  | .boost e _ l, h => by
    simp only [noLayout, Bool.and_eq_true, List.isEmpty_iff] at h
    simp [Tree.blankLayout, h.1.1, h.1.2, isBlank, noLayout_blank e h.2]
  | .unary _ e l, h => by
    simp only [noLayout, Bool.and_eq_true, List.isEmpty_iff] at h
    simp [Tree.blankLayout, h.1.1, h.1.2, isBlank, noLayout_blank e h.2]
  | .orange _ e _ l, h => by
    simp only [noLayout, Bool.and_eq_true, List.isEmpty_iff] at h
    simp [Tree.blankLayout, h.1.1, h.1.2, isBlank, noLayout_blank e h.2]
  | .range a b _ _ l, h => by
    simp only [noLayout, Bool.and_eq_true, List.isEmpty_iff] at h
    simp [Tree.blankLayout, h.1.1.1, h.1.1.2, isBlank, noLayout_blank a h.1.2, noLayout_blank b h.2]
  | .op _ xs l, h => by
    simp only [noLayout, Bool.and_eq_true, List.isEmpty_iff] at h
    simp [Tree.blankLayout, h.1.1, h.1.2, isBlank, noLayouts_blank xs h.2]
theorem noLayouts_blank : ∀ xs : List Tree, noLayouts xs = true → Tree.blankLayouts xs = true
  | [], _ => rfl
  | x :: r, h => by
    simp only [noLayouts, Bool.and_eq_true] at h
    simp [Tree.blankLayouts, noLayout_blank x h.1, noLayouts_blank r h.2]
end

end Luqum.Lemmas.AhtGlue
