/-
  Luqum.Lemmas.LaidBin — property C02 (positions): `HeadTailManager.binary_operation` after
  `create_operation`. The size arithmetic is exact when the right operand is not an operation of the
  class being built (otherwise the operator's tail is pushed into the right operand's first operand
  without changing the right operand's own size, and the result is short by that tail).
-/
import Luqum.Lemmas.LaidAct

namespace Luqum

/-- the layouts `binary_operation` sums over -/
def binParts (a : Tree) (ol : Option Lay) (b' : Tree) : List Lay :=
  match ol with
  | some l => [a.lay, l, b'.lay]
  | none => [a.lay, b'.lay]

theorem binaryOp_eq' (k : OpK) (a b : Tree) (ol : Option Lay) :
    binaryOp k a ol b =
      .op k (side k a ++ pushHead (opTailOf ol) (side k b))
        { head := [], tail := [],
          pos := (mgrPos (binParts a ol (afterCreate k b (opTailOf ol))) false false).1,
          size := (mgrPos (binParts a ol (afterCreate k b (opTailOf ol))) false false).2.map
            (· - ((opTailOf ol).length : Int)) } := by
  cases ol <;> rfl

theorem afterCreate_other {k : OpK} {b : Tree} (h : isOpK k b = false) (t : Str) :
    afterCreate k b t = b.setHead (b.head ++ t) := by
  cases b <;> try rfl
  rename_i k' xs l
  have hk : ¬ k' = k := by simpa [isOpK] using h
  simp [afterCreate, hk, Tree.head, Tree.lay]

theorem side_other {k : OpK} {b : Tree} (h : isOpK k b = false) : side k b = [b] := by
  rcases side_cases' k b with ⟨h', _⟩ | ⟨xs, l, rfl, _⟩
  · exact h'
  · simp [isOpK] at h

/-- the operands a (well-formed, laid-out) item contributes are laid out from the item's offset -/
theorem side_posList (k : OpK) {a : Tree} {off : Int} (ha : a.good)
    (hp : Pos .raw a (off + a.head.length)) : PosList .raw k.word.length (side k a) off := by
  rcases side_cases k a with ⟨xs, l, rfl, hs⟩ | hs
  · rw [hs]
    cases xs with
    | nil => exact absurd ha (by simp [Tree.good])
    | cons x r =>
      obtain ⟨h1, _, _⟩ := ha
      simp only [Pos, Tree.head, Tree.lay, h1, List.length_nil] at hp
      simpa [PosList] using hp.2
  · rw [hs]
    exact ⟨hp, trivial⟩

theorem mgrPos_two (x y : Lay) : mgrPos [x, y] false false =
    (x.pos.map (· - (x.head.length : Int)), some (layLen x + layLen y)) := by
  simp [mgrPos]

theorem mgrPos_three (x y z : Lay) : mgrPos [x, y, z] false false =
    (x.pos.map (· - (x.head.length : Int)), some (layLen x + layLen y + layLen z)) := by
  simp [mgrPos]

theorem layLen_setHead (t : Tree) (h : Str) :
    layLen (t.setHead h).lay = layLen t.lay - t.head.length + h.length := by
  simp only [Tree.setHead, Tree.setLay_lay, layLen, Tree.head]
  omega

theorem binaryOp_pos (k : OpK) (a b : Tree) (ol : Option Lay) (off : Int)
    (ha : a.good) (hb : b.good) (hbn : b.nonFirst) (hkb : isOpK k b = false)
    (hpa : Pos .raw a (off + a.head.length))
    (hol : ∀ l, ol = some l → l.head = [] ∧ l.size = some (k.word.length : Int))
    (hnone : ol = none → k.word = [])
    (hpb : Pos .raw b (off + (a.full .raw).length + (k.word.length + (opTailOf ol).length : Nat)
      + b.head.length)) :
    Pos .raw (binaryOp k a ol b) off := by
  obtain ⟨hfull, _, _, _⟩ := binaryOp_spec k a b ol ha hb hbn
  obtain ⟨x, r, hsa, _, hja, _⟩ := side_spec k a ha
  rw [binaryOp_eq'] at hfull ⊢
  rw [afterCreate_other hkb]
  rw [side_other hkb] at hfull ⊢
  simp only [Tree.full, List.nil_append, List.append_nil] at hfull
  simp only [pushHead] at hfull
  simp only [Pos, LayAt, body_op, hfull, pushHead]
  have hla := layLen_of_pos hpa
  have hlb := layLen_of_pos hpb
  refine ⟨⟨?_, ?_⟩, ?_⟩
  · cases ol <;> simp [binParts, mgrPos_two, mgrPos_three, hpa.pos_eq, Tree.head]
  · cases ol with
    | none =>
      simp only [binParts, mgrPos_two, layLen_setHead, hla, hlb, opTailOf, hnone rfl,
        Option.map_some, List.length_append, List.length_nil]
      congr 1; omega
    | some l =>
      obtain ⟨h1, h2⟩ := hol l rfl
      have hl : layLen l = (k.word.length : Int) + l.tail.length := by
        simp [layLen, h1, h2]
      simp only [binParts, mgrPos_three, layLen_setHead, hla, hlb, hl, opTailOf,
        Option.map_some, List.length_append]
      congr 1; omega
  · rw [posList_append]
    refine ⟨side_posList k ha hpa, ?_⟩
    rw [spanLen_joinWith _ _ _ (by rw [hsa]; simp), hsa, hja]
    simp only [PosList, pos_setHead, Tree.setHead_head, List.length_append, and_true]
    exact hpb.cast (by omega)

end Luqum
