/-
  Primitive of the code translator used by the translation of `CheckNestedFields` (luqum/check.py): `s.split(c)`.
-/
import Luqum.Lemmas.PyPrim
import Luqum.Model.Es

namespace Luqum.PyPrim

/-- `s.split(c)` for a one-character separator -/
def splitOn (c : Char) (s : Str) : List Str := splitOnChar c s

end Luqum.PyPrim
