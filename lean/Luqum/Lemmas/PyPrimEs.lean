/-
  Primitive of the code translator used by the translation of `CheckNestedFields` (luqum/check.py): `s.split(c)`.
-/
import Luqum.Lemmas.PyPrim
import Luqum.Model.Es

namespace Luqum.PyPrim

/-- `s.split(c)` for a one-character separator -/
def splitOn (c : Char) (s : Str) : List Str := splitOnChar c s

/-- the keyword arguments `visit_word` / `visit_phrase` hand to `es_item_factory.build`: the E-class, the text (`q=` or
`phrase=`), `method=` when given, `fields=`, `_name=` -/
structure LeafArgs where
  cls : String
  q : Str
  method : Option Str
  fields : List Str
  name : Option Str
deriving Repr

/-- what `visit_search_field` hands down to the expression of a field: the analysed marker, the field prefix, and
whether foreign keys of the context were kept -/
abbrev FieldCtx := Bool × List Str × Bool

end Luqum.PyPrim
