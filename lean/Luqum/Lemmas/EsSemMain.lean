/-
  Luqum.Lemmas.EsSemMain — the main induction of C05: on the supported constructs, the meaning of
  the E-tree the visitor builds is the meaning of the luqum tree.
-/
import Luqum.Lemmas.EsSemAux

namespace Luqum.Lemmas.Es
open Luqum

/-- the operands of the parent are combined disjunctively -/
def parAny (c : EsCfg) : Option Tree → Bool
  | some (.op k _ _) => kindOr c k
  | _ => false

/-- how the parent combines the E-nodes of one operand (several when the operand is flattened) -/
def comb (c : EsCfg) (atom : Obj → EItem → Bool) (par : Option Tree) (es : List ETree) (o : Obj) : Bool :=
  if parAny c par then evalAny atom es o else evalAll atom es o

theorem comb_single (c : EsCfg) (atom : Obj → EItem → Bool) (par : Option Tree) (e : ETree) (o : Obj) :
    comb c atom par [e] o = evalE atom e o := by
  unfold comb; split <;> simp [evalAny, evalAll]

theorem comb_none (c : EsCfg) (atom : Obj → EItem → Bool) (es : List ETree) (o : Obj) :
    comb c atom none es o = evalAll atom es o := rfl

/-- the parents under which the meaning of an operand is stated: none, an AND / OR / implicit
operation, a `Plus` (the operands of a Lucene-boolean operation are visited as without parent) -/
inductive ParSem : Option Tree → Prop
  | none : ParSem none
  | op (k ys l) (h : k ≠ .bool) : ParSem (some (.op k ys l))
  | plus (e l) : ParSem (some (.unary .plus e l))

theorem ParSem.parOK {par : Option Tree} (h : ParSem par) : ParOK par := by
  cases h <;> constructor

/-- the object at which a sub-query is evaluated instantiates a prefix of the field prefix -/
def Compat (x : EsCtx) (o : Obj) : Prop := o.path.isPrefixOf (x.fieldPrefix.getD []) = true

theorem Compat.propagateName {t : Tree} {x : EsCtx} {o : Obj} (h : Compat x o) :
    Compat (propagateName t x) o := by
  unfold Compat; rw [propagateName_fieldPrefix]; exact h

theorem Compat.fieldCtx {c : EsCfg} {x : EsCtx} {n : Str} {e : Tree} {l : Lay} {o : Obj}
    (h : Compat x o) : Compat (fieldCtx c x n e l) o := by
  unfold Compat at h ⊢
  rw [fieldCtx_fieldPrefix, fieldFp, Option.getD_some]
  rw [List.isPrefixOf_iff_prefix] at h ⊢
  exact h.trans (List.prefix_append _ _)

/-- the operands of a Lucene-boolean operation that is not itself such an operation is visited as
without parent -/
theorem visitS_boolPar (c : EsCfg) (x : EsCtx) (xs0 : List Tree) (l0 : Lay) : ∀ (t : Tree),
    (∀ ys l, t ≠ .op .bool ys l) → visitS c x (some (.op .bool xs0 l0)) t = visitS c x none t
  | .term .word _ _, _ => by simp only [visitS]
  | .term .phrase _ _, _ => by simp only [visitS]
  | .term .regex _ _, _ => by simp only [visitS]
  | .none _, _ => by simp only [visitS]
  | .range .., _ => by simp only [visitS]
  | .field .., _ => by simp only [visitS]
  | .group .., _ => by simp only [visitS]
  | .orange .., _ => by simp only [visitS]
  | .boost .., _ => by simp only [visitS]
  | .approx .fuzzy _ _ _, _ => by simp only [visitS]
  | .approx .proximity _ _ _, _ => by simp only [visitS]
  | .unary k e l, _ => by simp only [visitS, parSame, sameType_unary_op, Bool.false_eq_true, if_false]
  | .op k ys l, h => by
      have hk : k ≠ .bool := fun hk => h ys l (by rw [hk])
      simp only [visitS, sameType_op_op, mixTest_op_op, hk, decide_false, Bool.false_eq_true, if_false]
      have : opposite c .bool k = false := by simp [opposite, kindAnd, kindOr]
      simp only [this, Bool.false_eq_true, if_false]


/-! ### classification of the E-nodes of the operands of a Lucene-boolean operation -/

section Parts
variable (atom : Obj → EItem → Bool)

theorem mustPart_append (xs ys : List ETree) (o : Obj) :
    mustPart atom (xs ++ ys) o = (mustPart atom xs o && mustPart atom ys o) := by
  induction xs with
  | nil => simp [mustPart]
  | cons x r ih =>
    cases x with
    | op k items => cases k <;> simp [mustPart, ih, Bool.and_assoc]
    | _ => simp [mustPart, ih]

theorem mustNotPart_append (xs ys : List ETree) (o : Obj) :
    mustNotPart atom (xs ++ ys) o = (mustNotPart atom xs o || mustNotPart atom ys o) := by
  induction xs with
  | nil => simp [mustNotPart]
  | cons x r ih =>
    cases x with
    | op k items => cases k <;> simp [mustNotPart, ih, Bool.or_assoc]
    | _ => simp [mustNotPart, ih]

theorem shouldPart_append (xs ys : List ETree) (o : Obj) :
    shouldPart atom (xs ++ ys) o = (shouldPart atom xs o || shouldPart atom ys o) := by
  induction xs with
  | nil => simp [shouldPart]
  | cons x r ih =>
    cases x with
    | op k items => cases k <;> simp [shouldPart, ih, Bool.or_assoc]
    | _ => simp [shouldPart, ih, Bool.or_assoc]

theorem hasMust_append (xs ys : List ETree) : hasMust (xs ++ ys) = (hasMust xs || hasMust ys) := by
  induction xs with
  | nil => simp [hasMust]
  | cons x r ih =>
    cases x with
    | op k items => cases k <;> simp [hasMust, ih, Bool.or_assoc]
    | _ => simp [hasMust, ih]

theorem hasShould_append (xs ys : List ETree) : hasShould (xs ++ ys) = (hasShould xs || hasShould ys) := by
  induction xs with
  | nil => simp [hasShould]
  | cons x r ih =>
    cases x with
    | op k items => cases k <;> simp [hasShould, ih]
    | _ => simp [hasShould]

/-- the five components of the meaning of an `EBoolOperation` -/
structure Parts (es : List ETree) (o : Obj) (must mustNot should : Bool) (hm hs : Bool) : Prop where
  must : mustPart atom es o = must
  mustNot : mustNotPart atom es o = mustNot
  should : shouldPart atom es o = should
  hasMust : hasMust es = hm
  hasShould : hasShould es = hs

theorem Parts.append {es es' : List ETree} {o : Obj} {a b d a' b' d' : Bool} {m s m' s' : Bool}
    (h : Parts atom es o a b d m s) (h' : Parts atom es' o a' b' d' m' s') :
    Parts atom (es ++ es') o (a && a') (b || b') (d || d') (m || m') (s || s') :=
  ⟨by rw [mustPart_append, h.must, h'.must], by rw [mustNotPart_append, h.mustNot, h'.mustNot],
   by rw [shouldPart_append, h.should, h'.should], by rw [hasMust_append, h.hasMust, h'.hasMust],
   by rw [hasShould_append, h.hasShould, h'.hasShould]⟩

theorem Parts.of_other {e : ETree} {o : Obj} (h : isMerged e = false) :
    Parts atom [e] o true false (evalE atom e o) false true := by
  cases e with
  | op k items =>
    cases k <;> first | (simp [isMerged] at h; done) | exact ⟨rfl, rfl, by simp [shouldPart], rfl, rfl⟩
  | item i => exact ⟨rfl, rfl, by simp [shouldPart], rfl, rfl⟩
  | nested p i nm => exact ⟨rfl, rfl, by simp [shouldPart], rfl, rfl⟩

end Parts


/-! ### helper equations -/

section Helpers
variable (c : EsCfg) (atom : Obj → EItem → Bool)

theorem comb_append_op (k : OpK) (ys : List Tree) (l : Lay) (a b : List ETree) (o : Obj) :
    comb c atom (some (.op k ys l)) (a ++ b) o =
      if kindOr c k then (comb c atom (some (.op k ys l)) a o || comb c atom (some (.op k ys l)) b o)
      else (comb c atom (some (.op k ys l)) a o && comb c atom (some (.op k ys l)) b o) := by
  unfold comb
  simp only [parAny]
  by_cases h : kindOr c k = true <;> simp [h, evalAll_append, evalAny_append]

theorem evalE_buildOp_op (k : OpK) (ys : List Tree) (l : Lay) (items : List ETree) (o : Obj)
    (hk : k ≠ .bool) (hne : items ≠ []) :
    evalE atom (buildOp (opEK c k) items) o = comb c atom (some (.op k ys l)) items o := by
  have hemp : items.isEmpty = false := by cases items <;> simp_all
  unfold comb
  simp only [parAny]
  cases k with
  | and => simp [opEK, buildOp, evalE, kindOr, evalAll_setZeroTerms]
  | or => simp [opEK, buildOp, evalE, kindOr, hemp]
  | unk =>
    cases hd : c.defaultMust <;> simp [opEK, buildOp, evalE, kindOr, hd, hemp, evalAll_setZeroTerms]
  | bool => exact absurd rfl hk

theorem denote_op (an : Option Bool) (fp : Option (List Str)) (k : OpK) (xs : List Tree) (l : Lay) (o : Obj)
    (hk : k ≠ .bool) :
    denote c atom an fp (.op k xs l) o =
      if kindOr c k then denoteAny c atom an fp xs o else denoteAll c atom an fp xs o := by
  cases k with
  | and => simp [denote, kindOr]
  | or => simp [denote, kindOr]
  | unk => cases hd : c.defaultMust <;> simp [denote, kindOr, hd]
  | bool => exact absurd rfl hk

theorem reqAll_cons_other (an fp) (t : Tree) (r : List Tree) (o : Obj) (h : ∀ k e l, t ≠ .unary k e l) :
    reqAll c atom an fp (t :: r) o = reqAll c atom an fp r o ∧
    prohAny c atom an fp (t :: r) o = prohAny c atom an fp r o ∧
    optAny c atom an fp (t :: r) o = (denote c atom an fp t o || optAny c atom an fp r o) ∧
    hasReq (t :: r) = hasReq r ∧ hasOpt (t :: r) = true := by
  cases t with
  | unary k e l => exact absurd rfl (h k e l)
  | _ => simp [reqAll, prohAny, optAny, hasReq, hasOpt]

end Helpers

/-! ### the main induction -/

section Main
variable (c : EsCfg) (atom : Obj → EItem → Bool)

/-- the Lucene-boolean case: the five components, operand by operand -/
theorem parts_step (an fp) (ch : Tree) (r : List Tree) (e' : ETree) (rest : List ETree) (o : Obj)
    (x : EsCtx) (hs : Supported ch = true) (hok : boolOperandOK c ch = true)
    (hv : visitS c x none ch = .ok [e']) (hsem : evalE atom e' o = denote c atom an fp ch o)
    (ih : Parts atom rest o (reqAll c atom an fp r o) (prohAny c atom an fp r o) (optAny c atom an fp r o)
      (hasReq r) (hasOpt r)) :
    Parts atom ([e'] ++ rest) o (reqAll c atom an fp (ch :: r) o) (prohAny c atom an fp (ch :: r) o)
      (optAny c atom an fp (ch :: r) o) (hasReq (ch :: r)) (hasOpt (ch :: r)) := by
  by_cases hun : ∃ k e l, ch = .unary k e l
  · obtain ⟨k, e, l, rfl⟩ := hun
    simp only [visitS, parSame, Bool.false_eq_true, if_false] at hv
    obtain ⟨items, h1, h2⟩ := map_ok hv
    have hne : items ≠ [] := visitS_ne_nil c e _ _ _ (by simpa [Supported] using hs) h1
    have hemp : items.isEmpty = false := by cases items <;> simp_all
    cases h2
    cases k with
    | plus =>
      have hp : Parts atom [buildOp (unEK .plus) items] o (denote c atom an fp e o) false false true false := by
        refine ⟨?_, rfl, rfl, ?_, rfl⟩
        · simpa [unEK, buildOp, evalE, mustPart, denote] using hsem
        · simp [unEK, buildOp, hasMust, setZeroTerms_isEmpty, hemp]
      have := hp.append atom ih
      simpa [reqAll, prohAny, optAny, hasReq, hasOpt] using this
    | not =>
      have hp : Parts atom [buildOp (unEK .not) items] o true (denote c atom an fp e o) false false false := by
        refine ⟨rfl, ?_, rfl, rfl, rfl⟩
        have : (!evalAny atom (setZeroTerms "none".toList items) o) = !denote c atom an fp e o := by
          simpa [unEK, buildOp, evalE, denote] using hsem
        simpa [unEK, buildOp, mustNotPart] using this
      have := hp.append atom ih
      simpa [reqAll, prohAny, optAny, hasReq, hasOpt] using this
    | prohibit =>
      have hp : Parts atom [buildOp (unEK .prohibit) items] o true (denote c atom an fp e o) false false false := by
        refine ⟨rfl, ?_, rfl, rfl, rfl⟩
        have : (!evalAny atom (setZeroTerms "none".toList items) o) = !denote c atom an fp e o := by
          simpa [unEK, buildOp, evalE, denote] using hsem
        simpa [unEK, buildOp, mustNotPart] using this
      have := hp.append atom ih
      simpa [reqAll, prohAny, optAny, hasReq, hasOpt] using this
  · have hun' : ∀ k e l, ch ≠ .unary k e l := fun k e l h => hun ⟨k, e, l, h⟩
    obtain ⟨h1, h2, h3, h4, h5⟩ := reqAll_cons_other c atom an fp ch r o hun'
    have hmc : mergedCore c ch = false := by
      cases ch with
      | unary k e l => exact absurd rfl (hun' k e l)
      | op k xs l => cases k <;> simp [boolOperandOK] at hok <;> exact hok
      | _ => simpa [boolOperandOK] using hok
    have hnm := visitS_not_merged c ch x e' hs hmc hv
    have := (Parts.of_other atom (o := o) hnm).append atom ih
    rw [h1, h2, h3, h4, h5, ← hsem]
    simpa using this


theorem isPrefixOf_properPrefix {a b q : List Str} (h : a.isPrefixOf b = true) (hq : q ≠ []) :
    properPrefix a (b ++ q) = true := by
  obtain ⟨r, rfl⟩ := List.isPrefixOf_iff_prefix.1 h
  exact (properPrefix_iff _ _).2 ⟨r ++ q, by simp [hq], by simp⟩

/-- the `SearchField` case -/
theorem sem_field (x : EsCtx) (par : Option Tree) (n : Str) (e : Tree) (l : Lay) (en : ETree) (o : Obj)
    (hx : CtxOK x)
    (hext : Ext (x.fieldPrefix.getD [] ++ splitOnChar '.' n) [en])
    (hw : o.wf (EsCfg.containers c) = true) (hc : Compat x o)
    (ih : ∀ o', o'.wf (EsCfg.containers c) = true → Compat (fieldCtx c x n e l) o' →
      evalE atom en o' = denote c atom (fieldAn c x.fieldPrefix n) (fieldFp x.fieldPrefix n) e o') :
    comb c atom par (fieldWrap c x n e l en) o = denote c atom x.analyzed x.fieldPrefix (.field n e l) o := by
  rw [fieldWrap_eq]
  simp only [denote]
  cases hcand : nestedCand c x.fieldPrefix n with
  | none =>
    simp only [comb_single]
    exact ih o hw hc.fieldCtx
  | some p =>
    obtain ⟨hpmem, q, hq, hqpre, hsp⟩ := nestedCand_split hx hcand
    obtain ⟨r', hr'⟩ := List.isPrefixOf_iff_prefix.1 hqpre
    -- at the objects that instantiate `p`, the E-node of the expression means the expression
    have hA : ∀ o', (o' = o ∨ o' ∈ o.desc) → o'.path = splitOnChar '.' p →
        (fun o' => denote c atom (fieldAn c x.fieldPrefix n) (fieldFp x.fieldPrefix n) e o') o' =
        (fun o' => evalE atom en o') o' := by
      intro o' ho' hp'
      refine (ih o' ?_ ?_).symm
      · rcases ho' with rfl | ho'
        · exact hw
        · exact Obj.wf_of_mem_desc hw ho'
      · unfold Compat
        rw [fieldCtx_fieldPrefix, fieldFp, Option.getD_some, hp', hsp, ← hr', List.isPrefixOf_iff_prefix]
        exact (List.prefix_append_right_inj _).2 (List.prefix_append _ _)
    have hnot : p ∉ nestedPaths en := by
      intro hmem
      have := (Ext.single.1 hext) p hmem
      rw [hsp, ← hr'] at this
      obtain ⟨q', hq', heq⟩ := (properPrefix_iff _ _).1 this
      have := congrArg List.length heq
      simp only [List.length_append] at this
      have : q'.length = 0 := by omega
      exact hq' (List.length_eq_zero_iff.1 this)
    have hwrap : comb c atom par [.nested p (excludeNested p en) (ctxName (.field n e l) x)] o =
        atPath p o (fun o' => denote c atom (fieldAn c x.fieldPrefix n) (fieldFp x.fieldPrefix n) e o') := by
      rw [comb_single, excludeNested_eq_self p en hnot]
      simp only [evalE]
      exact (atPath_congr p o _ _ hA).symm
    cases en with
    | item i => exact hwrap
    | op k items => exact hwrap
    | nested p' i nm =>
      simp only [comb_single]
      rw [atPath_congr p o _ _ hA]
      simp only [evalE]
      refine (atPath_skip (decl := EsCfg.containers c) o p p' _ hw ?_ ?_ ?_).symm
      · rw [hsp]; exact isPrefixOf_properPrefix hc hq
      · have := (Ext.single.1 hext) p' (by simp [nestedPaths])
        obtain ⟨q', hq', heq⟩ := (properPrefix_iff _ _).1 this
        rw [heq, hsp, ← hr']
        exact (properPrefix_iff _ _).2 ⟨r' ++ q', by simp [hq'], by simp⟩
      · exact List.mem_map.2 ⟨p, hpmem, rfl⟩


/-- boost / fuzzy / proximity: the modifier becomes part of the atom of a leaf-like operand, and
is ignored on any other operand -/
theorem sem_modifier (par : Option Tree) (oi : Option EItem) (en : ETree) (o : Obj)
    (f : EItem → EItem) (g : ETree → ETree) (d : Bool)
    (hitem : ∀ i, g (.item i) = .item (f i)) (hnorm : ∀ i, norm (f i) = f (norm i))
    (hnon : ∀ e, (∀ i, e ≠ .item i) → g e = e)
    (hleaf : LeafRel oi en) (ih : evalE atom en o = d) :
    comb c atom par [g en] o =
      match oi.map f with
      | some i => atom o (norm i)
      | none => d := by
  rw [comb_single]
  cases oi with
  | some i =>
    obtain ⟨i', rfl, hn⟩ := hleaf
    simp only [Option.map_some, hitem, evalE]
    rw [hnorm, hnorm, hn]
  | none =>
    simp only [Option.map_none]
    rw [hnon en hleaf]; exact ih

mutual
theorem sem_visit : ∀ (t : Tree) (x : EsCtx) (par : Option Tree) (es : List ETree) (o : Obj),
    CtxOK x → ParSem par → SupportedSem c t = true → visitS c x par t = .ok es →
    o.wf (EsCfg.containers c) = true → Compat x o →
    comb c atom par es o = denote c atom x.analyzed x.fieldPrefix t o
  | .term .word v l, x, par, es, o, _, _, _, h, _, _ => by
      simp only [visitS, isAnalyzed_eq] at h; cases h
      rw [comb_single]; rfl
  | .term .phrase v l, x, par, es, o, _, _, _, h, _, _ => by
      simp only [visitS, isAnalyzed_eq] at h
      simp only [denote, leafItem]
      split at h <;> rename_i ha <;> cases h <;> rw [comb_single]
      · rw [if_pos ha]; rfl
      · rw [if_neg ha]; rfl
  | .term .regex v l, x, par, es, o, _, _, hs, _, _, _ => by simp [SupportedSem] at hs
  | .none _, x, par, es, o, _, _, hs, _, _, _ => by simp [SupportedSem] at hs
  | .orange .., x, par, es, o, _, _, hs, _, _, _ => by simp [SupportedSem] at hs
  | .range a b il ih l, x, par, es, o, _, _, _, h, _, _ => by
      simp only [visitS] at h
      simp only [denote, leafItem]
      split at h
      · rename_i lv hv h1 h2
        cases h
        rw [comb_single, h1, h2]; rfl
      · cases h
  | .field n e l, x, par, es, o, hx, _, hs, h, hw, hc => by
      simp only [visitS] at h
      obtain ⟨en, h1, rfl⟩ := map_ok h
      have h1 := exactlyOne_ok h1
      have hext := visitS_ext c e _ none _ (ctxOK_fieldCtx hx) h1
      rw [fieldCtx_fieldPrefix, fieldFp, Option.getD_some] at hext
      refine sem_field c atom x par n e l en o hx hext hw hc ?_
      intro o' hw' hc'
      have := sem_visit e _ none [en] o' (ctxOK_fieldCtx hx) .none (by simpa [SupportedSem] using hs) h1 hw' hc'
      rwa [comb_single, fieldCtx_analyzed, fieldCtx_fieldPrefix] at this
  | .group k e l, x, par, es, o, hx, _, hs, h, hw, hc => by
      simp only [visitS] at h
      have hs' : SupportedSem c e = true := by simpa [SupportedSem] using hs
      obtain ⟨e', rfl⟩ := visitS_single c e _ es (supported_of_sem c e hs') h
      have := sem_visit e _ none [e'] o (ctxOK_propagateName hx) .none hs' h hw hc.propagateName
      rw [comb_single] at this ⊢
      simpa [denote] using this
  | .boost e n l, x, par, es, o, hx, _, hs, h, hw, hc => by
      simp only [visitS] at h
      obtain ⟨en, h1, rfl⟩ := map_ok h
      have h1 := exactlyOne_ok h1
      have hs' : SupportedSem c e = true := by simpa [SupportedSem] using hs
      have ih := sem_visit e _ none [en] o (ctxOK_propagateName hx) .none hs' h1 hw hc.propagateName
      have hl := visitS_leaf c e _ en h1
      rw [comb_single] at ih
      rw [propagateName_analyzed, propagateName_fieldPrefix] at ih hl
      simp only [denote, leafItem]
      exact sem_modifier c atom par _ en o _ _ _ (setBoost_item _) (norm_boostI _) (setBoost_nonitem _) hl ih
  | .approx .fuzzy e n l, x, par, es, o, hx, _, hs, h, hw, hc => by
      simp only [visitS] at h
      obtain ⟨en, h1, rfl⟩ := map_ok h
      have h1 := exactlyOne_ok h1
      have hs' : SupportedSem c e = true := by simpa [SupportedSem] using hs
      have ih := sem_visit e _ none [en] o (ctxOK_propagateName hx) .none hs' h1 hw hc.propagateName
      have hl := visitS_leaf c e _ en h1
      rw [comb_single] at ih
      rw [propagateName_analyzed, propagateName_fieldPrefix] at ih hl
      simp only [denote, leafItem]
      exact sem_modifier c atom par _ en o _ _ _ (setFuzzy_item _) (norm_fuzzyI _) (setFuzzy_nonitem _) hl ih
  | .approx .proximity e n l, x, par, es, o, hx, _, hs, h, hw, hc => by
      simp only [visitS, isAnalyzed_eq] at h
      obtain ⟨en, h1, rfl⟩ := map_ok h
      have h1 := exactlyOne_ok h1
      have hs' : SupportedSem c e = true := by simpa [SupportedSem] using hs
      have ih := sem_visit e _ none [en] o (ctxOK_propagateName hx) .none hs' h1 hw hc.propagateName
      have hl := visitS_leaf c e _ en h1
      rw [comb_single] at ih
      rw [propagateName_analyzed, propagateName_fieldPrefix] at ih hl
      simp only [denote, leafItem]
      split
      · exact sem_modifier c atom par _ en o _ _ _ (setSlop_item _) (norm_slopI _) (setSlop_nonitem _) hl ih
      · exact sem_modifier c atom par _ en o _ _ _ (setFuzzy_item _) (norm_fuzzyI _) (setFuzzy_nonitem _) hl ih
  | .unary k e l, x, par, es, o, hx, hp, hs, h, hw, hc => by
      simp only [visitS] at h
      have hs' : SupportedSem c e = true := by simpa [SupportedSem] using hs
      split at h
      · rename_i hsame
        have hk : k = .plus := by
          cases hp with
          | none => simp [parSame] at hsame
          | op k' ys l' => simp [parSame, sameType_unary_op] at hsame
          | plus e' l' => simpa [parSame, sameType_unary_unary] using hsame
        subst hk
        have := sem_visit e x par es o hx hp hs' h hw hc
        simpa [denote] using this
      · obtain ⟨items, h1, rfl⟩ := map_ok h
        rw [comb_single]
        cases k with
        | plus =>
          have := sem_visit e _ _ items o (ctxOK_propagateName hx) (.plus e l) hs' h1 hw hc.propagateName
          simp only [comb, parAny, Bool.false_eq_true, if_false, propagateName_analyzed,
            propagateName_fieldPrefix] at this
          simp only [unEK, buildOp, evalE, evalAll_setZeroTerms, denote]
          exact this
        | not =>
          obtain ⟨e', rfl⟩ := visitS_single c e _ items (supported_of_sem c e hs') h1
          have := sem_visit e _ none [e'] o (ctxOK_propagateName hx) .none hs' h1 hw hc.propagateName
          rw [comb_single, propagateName_analyzed, propagateName_fieldPrefix] at this
          simp only [unEK, buildOp, evalE, evalAny_setZeroTerms, denote, evalAny, Bool.or_false, this]
        | prohibit =>
          obtain ⟨e', rfl⟩ := visitS_single c e _ items (supported_of_sem c e hs') h1
          have := sem_visit e _ none [e'] o (ctxOK_propagateName hx) .none hs' h1 hw hc.propagateName
          rw [comb_single, propagateName_analyzed, propagateName_fieldPrefix] at this
          simp only [unEK, buildOp, evalE, evalAny_setZeroTerms, denote, evalAny, Bool.or_false, this]
  | .op k xs l, x, par, es, o, hx, hp, hs, h, hw, hc => by
      simp only [SupportedSem, Bool.and_eq_true, decide_eq_true_eq] at hs
      obtain ⟨⟨hlen, hsl⟩, hbool⟩ := hs
      have hxs : xs ≠ [] := by intro h0; rw [h0] at hlen; simp at hlen
      simp only [visitS] at h
      by_cases hk : k = .bool
      · -- a Lucene-boolean operation is never flattened under the parents considered, nor mixed
        subst hk
        have hall : xs.all (boolOperandOK c) = true := by simpa using hbool
        have hred : (visitsS c (propagateName (.op .bool xs l) x) (.op .bool xs l) xs).map
            (fun items => [buildOp (opEK c .bool) items]) = .ok es := by
          cases hp with
          | none => exact h
          | op k' ys l' hk' =>
            have h1 : (decide (OpK.bool = k')) = false := by
              simp only [decide_eq_false_iff_not]; exact fun h' => hk' h'.symm
            have h2 : opposite c k' .bool = false := by simp [opposite, kindAnd, kindOr]
            simpa only [sameType_op_op, mixTest_op_op, h1, h2, Bool.false_eq_true, if_false] using h
          | plus e' l' =>
            simpa only [sameType_op_unary, mixTest_unary, Bool.false_eq_true, if_false] using h
        obtain ⟨items, h1, rfl⟩ := map_ok hred
        have hparts := sem_visitsB xs _ xs l items o (ctxOK_propagateName hx) hsl hall h1 hw hc.propagateName
        rw [propagateName_analyzed, propagateName_fieldPrefix] at hparts
        rw [comb_single]
        simp only [opEK, buildOp, evalE, denote, hparts.must, hparts.mustNot, hparts.should,
          hparts.hasMust, hparts.hasShould]
      · have hfin : ∀ es, (visitsS c (propagateName (.op k xs l) x) (.op k xs l) xs).map
            (fun items => [buildOp (opEK c k) items]) = .ok es →
            comb c atom par es o = denote c atom x.analyzed x.fieldPrefix (.op k xs l) o := by
          intro es h
          obtain ⟨items, h1, rfl⟩ := map_ok h
          have hne := visitsS_ne_nil c xs _ _ _ (supportedL_of_sem c xs hsl) hxs h1
          have := sem_visits xs _ k xs l items o (ctxOK_propagateName hx) hk hsl h1 hw hc.propagateName
          rw [propagateName_analyzed, propagateName_fieldPrefix] at this
          rw [comb_single, evalE_buildOp_op c atom k xs l items o hk hne, this, denote_op c atom _ _ k xs l o hk]
        cases hp with
        | none => exact hfin es h
        | op k' ys l' hk' =>
          simp only [sameType_op_op, mixTest_op_op] at h
          by_cases hkk : k = k'
          · subst hkk
            simp only [decide_true, if_true] at h
            rw [sem_visits xs x k ys l' es o hx hk hsl h hw hc, denote_op c atom _ _ k xs l o hk]
          · simp only [hkk, decide_false, Bool.false_eq_true, if_false] at h
            split at h
            · unfold mixError at h; split at h <;> cases h
            · exact hfin es h
        | plus e' l' =>
          simp only [sameType_op_unary, mixTest_unary, Bool.false_eq_true, if_false] at h
          exact hfin es h
theorem sem_visits : ∀ (xs : List Tree) (x : EsCtx) (k : OpK) (ys : List Tree) (l : Lay)
    (es : List ETree) (o : Obj),
    CtxOK x → k ≠ .bool → SupportedSemL c xs = true → visitsS c x (.op k ys l) xs = .ok es →
    o.wf (EsCfg.containers c) = true → Compat x o →
    comb c atom (some (.op k ys l)) es o =
      if kindOr c k then denoteAny c atom x.analyzed x.fieldPrefix xs o
      else denoteAll c atom x.analyzed x.fieldPrefix xs o
  | [], x, k, ys, l, es, o, _, _, _, h, _, _ => by
      simp only [visitsS] at h; cases h
      by_cases hor : kindOr c k = true <;>
        simp [comb, parAny, hor, evalAny, evalAll, denoteAny, denoteAll]
  | t :: r, x, k, ys, l, es, o, hx, hk, hs, h, hw, hc => by
      simp only [SupportedSemL, Bool.and_eq_true] at hs
      simp only [visitsS] at h
      split at h
      · cases h
      · rename_i items h1
        split at h
        · cases h
        · rename_i rest h2
          cases h
          have i1 := sem_visit t x _ items o hx (.op k ys l hk) hs.1 h1 hw hc
          have i2 := sem_visits r x k ys l rest o hx hk hs.2 h2 hw hc
          rw [comb_append_op, i1, i2]
          by_cases hor : kindOr c k = true <;> simp [hor, denoteAny, denoteAll]
theorem sem_visitsB : ∀ (xs : List Tree) (x : EsCtx) (ys : List Tree) (l : Lay) (es : List ETree) (o : Obj),
    CtxOK x → SupportedSemL c xs = true → xs.all (boolOperandOK c) = true →
    visitsS c x (.op .bool ys l) xs = .ok es →
    o.wf (EsCfg.containers c) = true → Compat x o →
    Parts atom es o (reqAll c atom x.analyzed x.fieldPrefix xs o) (prohAny c atom x.analyzed x.fieldPrefix xs o)
      (optAny c atom x.analyzed x.fieldPrefix xs o) (hasReq xs) (hasOpt xs)
  | [], x, ys, l, es, o, _, _, _, h, _, _ => by
      simp only [visitsS] at h; cases h
      exact ⟨rfl, rfl, rfl, rfl, rfl⟩
  | t :: r, x, ys, l, es, o, hx, hs, hall, h, hw, hc => by
      simp only [SupportedSemL, Bool.and_eq_true] at hs
      simp only [List.all_cons, Bool.and_eq_true] at hall
      have hnb : ∀ ys' l', t ≠ .op .bool ys' l' := by
        intro ys' l' h0; rw [h0] at hall; simp [boolOperandOK] at hall
      simp only [visitsS, visitS_boolPar c x ys l t hnb] at h
      split at h
      · cases h
      · rename_i items h1
        split at h
        · cases h
        · rename_i rest h2
          cases h
          obtain ⟨e', rfl⟩ := visitS_single c t _ items (supported_of_sem c t hs.1) h1
          have i1 := sem_visit t x none [e'] o hx .none hs.1 h1 hw hc
          rw [comb_single] at i1
          have i2 := sem_visitsB r x ys l rest o hx hs.2 hall.2 h2 hw hc
          exact parts_step c atom _ _ t r e' rest o x (supported_of_sem c t hs.1) hall.1 h1 i1 i2
end


/-- `ENested._exclude_nested_children` finds nothing to exclude in what the builder wraps: the nested
paths inside the E-node of the expression of a field all properly extend the field's own names,
while the container the field reaches is a prefix of them -/
theorem excludeNested_noop (x : EsCtx) (n : Str) (e : Tree) (l : Lay) (en : ETree) (p : Str)
    (hx : CtxOK x) (h : visitS c (fieldCtx c x n e l) none e = .ok [en])
    (hcand : nestedCand c x.fieldPrefix n = some p) : excludeNested p en = en := by
  have hext := visitS_ext c e _ none _ (ctxOK_fieldCtx hx) h
  rw [fieldCtx_fieldPrefix, fieldFp, Option.getD_some] at hext
  obtain ⟨_, q, hq, hqpre, hsp⟩ := nestedCand_split hx hcand
  obtain ⟨r', hr'⟩ := List.isPrefixOf_iff_prefix.1 hqpre
  apply excludeNested_eq_self
  intro hmem
  have := (Ext.single.1 hext) p hmem
  rw [hsp, ← hr'] at this
  obtain ⟨q', hq', heq⟩ := (properPrefix_iff _ _).1 this
  have := congrArg List.length heq
  simp only [List.length_append] at this
  have : q'.length = 0 := by omega
  exact hq' (List.length_eq_zero_iff.1 this)

/-- **the meaning of the E-tree of a supported query is the meaning of the query**, at every
well-formed document, for every truth assignment of the (normalised) leaf clauses -/
theorem sem_build (t : Tree) (e : ETree) (doc : Obj) (hs : SupportedSem c t = true)
    (h : visitS c {} none t = .ok [e]) (hd : DocWF c doc = true) :
    evalE atom e doc = denote c atom none none t doc := by
  simp only [DocWF, Bool.and_eq_true, List.isEmpty_iff] at hd
  have hc : Compat {} doc := by unfold Compat; rw [hd.1]; rfl
  have := sem_visit c atom t {} none [e] doc ctxOK_default .none hs h hd.2 hc
  rwa [comb_single] at this

end Main

/-! ### associativity: flattening same-kind operands preserves the meaning -/

section Flatten
variable (c : EsCfg) (atom : Obj → EItem → Bool) (an : Option Bool) (fp : Option (List Str))

theorem denoteAll_append (xs ys : List Tree) (o : Obj) :
    denoteAll c atom an fp (xs ++ ys) o = (denoteAll c atom an fp xs o && denoteAll c atom an fp ys o) := by
  induction xs with
  | nil => simp [denoteAll]
  | cons x r ih => simp [denoteAll, ih, Bool.and_assoc]

theorem denoteAny_append (xs ys : List Tree) (o : Obj) :
    denoteAny c atom an fp (xs ++ ys) o = (denoteAny c atom an fp xs o || denoteAny c atom an fp ys o) := by
  induction xs with
  | nil => simp [denoteAny]
  | cons x r ih => simp [denoteAny, ih, Bool.or_assoc]

/-- an operand of exactly the same kind may be replaced by its own operands (`simplify_if_same`) -/
theorem denote_flatten (k : OpK) (hk : k ≠ .bool) (xs ys zs : List Tree) (l l' : Lay) (o : Obj) :
    denote c atom an fp (.op k (xs ++ .op k ys l' :: zs) l) o =
    denote c atom an fp (.op k (xs ++ ys ++ zs) l) o := by
  rw [denote_op c atom an fp k _ l o hk, denote_op c atom an fp k _ l o hk]
  simp only [denoteAll_append, denoteAny_append, denoteAll, denoteAny, denote_op c atom an fp k ys l' o hk]
  by_cases h : kindOr c k = true <;> simp [h, Bool.and_assoc, Bool.or_assoc]

end Flatten

end Luqum.Lemmas.Es
