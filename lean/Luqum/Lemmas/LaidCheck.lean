/-
  Luqum.Lemmas.LaidCheck — an executable checker for `Laid` (used for kernel-checked witnesses).
-/
import Luqum.Lemmas.LaidDefs

namespace Luqum

def layAtB (l : Lay) (p : Int) (body : Str) : Bool :=
  l.pos == some p && l.size == some (body.length : Int)

theorem layAtB_iff (l : Lay) (p : Int) (body : Str) : layAtB l p body = true ↔ LayAt l p body := by
  simp [layAtB, LayAt]

mutual
/-- Bool version of `Laid` -/
def laidB (s : NumStyle) : Int → Tree → Bool
  | off, .term k v l => layAtB l (off + l.head.length) (Tree.body s (.term k v l))
  | off, .field n e l =>
      layAtB l (off + l.head.length) (Tree.body s (.field n e l)) &&
      laidB s (off + l.head.length + n.length + 1) e
  | off, .group k e l =>
      layAtB l (off + l.head.length) (Tree.body s (.group k e l)) &&
      laidB s (off + l.head.length + 1) e
  | off, .range a b il ih l =>
      layAtB l (off + l.head.length) (Tree.body s (.range a b il ih l)) &&
      (laidB s (off + l.head.length + 1) a &&
      laidB s (off + l.head.length + 1 + (a.full s).length + 2) b)
  | off, .approx k t n l =>
      layAtB l (off + l.head.length) (Tree.body s (.approx k t n l)) &&
      laidB s (off + l.head.length) t
  | off, .boost e n l =>
      layAtB l (off + l.head.length) (Tree.body s (.boost e n l)) &&
      laidB s (off + l.head.length) e
  | off, .op k xs l =>
      layAtB l (off + l.head.length) (Tree.body s (.op k xs l)) &&
      laidListB s k.word.length (off + l.head.length) xs
  | off, .unary k a l =>
      layAtB l (off + l.head.length) (Tree.body s (.unary k a l)) &&
      laidB s (off + l.head.length + k.word.length) a
  | off, .orange k a inc l =>
      layAtB l (off + l.head.length) (Tree.body s (.orange k a inc l)) &&
      laidB s (off + l.head.length + (orangePre k inc).length) a
  | _, .none _ => false
def laidListB (s : NumStyle) (sep : Nat) : Int → List Tree → Bool
  | _, [] => true
  | off, x :: r => laidB s off x && laidListB s sep (off + (x.full s).length + sep) r
end

mutual
theorem laidB_iff (s : NumStyle) : ∀ (off : Int) (t : Tree), laidB s off t = true ↔ Laid s off t
  | off, .term k v l => by simp only [laidB, Laid, layAtB_iff]
  | off, .field n e l => by simp only [laidB, Laid, Bool.and_eq_true, layAtB_iff, laidB_iff s _ e]
  | off, .group k e l => by simp only [laidB, Laid, Bool.and_eq_true, layAtB_iff, laidB_iff s _ e]
  | off, .range a b il ih l => by
      simp only [laidB, Laid, Bool.and_eq_true, layAtB_iff, laidB_iff s _ a, laidB_iff s _ b]
  | off, .approx k t n l => by simp only [laidB, Laid, Bool.and_eq_true, layAtB_iff, laidB_iff s _ t]
  | off, .boost e n l => by simp only [laidB, Laid, Bool.and_eq_true, layAtB_iff, laidB_iff s _ e]
  | off, .op k xs l => by
      simp only [laidB, Laid, Bool.and_eq_true, layAtB_iff, laidListB_iff s _ _ xs]
  | off, .unary k a l => by simp only [laidB, Laid, Bool.and_eq_true, layAtB_iff, laidB_iff s _ a]
  | off, .orange k a inc l => by
      simp only [laidB, Laid, Bool.and_eq_true, layAtB_iff, laidB_iff s _ a]
  | off, .none _ => by simp [laidB, Laid]
theorem laidListB_iff (s : NumStyle) (sep : Nat) : ∀ (off : Int) (xs : List Tree),
    laidListB s sep off xs = true ↔ LaidList s sep off xs
  | off, [] => by simp [laidListB, LaidList]
  | off, x :: r => by
      simp only [laidListB, LaidList, Bool.and_eq_true, laidB_iff s _ x, laidListB_iff s sep _ r]
end

end Luqum
