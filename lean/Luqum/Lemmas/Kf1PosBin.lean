/-
  Luqum.Lemmas.Kf1PosBin — positions without the KF1 hypothesis: `binary_operation` after
  `create_operation` (as `LaidBin`, for the source layout `PosS`).
-/
import Luqum.Lemmas.Kf1PosAct

namespace Luqum

/-- the operands a (well-formed, laid-out) item contributes are laid out from the item's offset,
and span the item's extent plus one separator -/
theorem side_posListS (k : OpK) {a : Tree} {off : Int} (ha : a.good)
    (hp : PosS a (off + a.head.length)) :
    side k a ≠ [] ∧ PosListS k.word.length (side k a) off ∧
      spanS k.word.length (side k a) = a.ext + k.word.length := by
  rcases side_cases k a with ⟨xs, l, rfl, hs⟩ | hs
  · rw [hs]
    cases xs with
    | nil => exact absurd ha (by simp [Tree.good])
    | cons x r =>
      obtain ⟨h1, h2, _⟩ := ha
      simp only [PosS, Tree.head, Tree.lay, h1, List.length_nil, LayS] at hp
      obtain ⟨_, ⟨_, hsz⟩, hl⟩ := hp
      refine ⟨by simp, by simpa using hl, ?_⟩
      simp only [Tree.ext, Tree.lay, layLen, hsz, h1, h2, Option.getD_some, List.length_nil]
      omega
  · rw [hs]
    exact ⟨by simp, ⟨hp, trivial⟩, by simp [spanS]⟩

/-- the extent of the operator token, if any -/
def olLen : Option Lay → Int
  | some l => layLen l
  | none => 0

theorem binaryOp_posS (k : OpK) (a b : Tree) (ol : Option Lay) (off : Int)
    (ha : a.good) (hkb : isOpK k b = false)
    (hpa : PosS a (off + a.head.length))
    (hol : ∀ l, ol = some l → l.head = [] ∧ l.size = some (k.word.length : Int))
    (hnone : ol = none → k.word = [])
    (hpb : PosS b (off + a.ext + olLen ol + b.head.length)) :
    PosS (binaryOp k a ol b) off ∧ (binaryOp k a ol b).ext = a.ext + olLen ol + b.ext := by
  obtain ⟨hsne, hsl, hsp⟩ := side_posListS k ha hpa
  rw [binaryOp_eq', afterCreate_other hkb, side_other hkb]
  have hsize : (mgrPos (binParts a ol (b.setHead (b.head ++ opTailOf ol))) false false).2.map
      (· - ((opTailOf ol).length : Int)) = some (a.ext + olLen ol + b.ext) := by
    cases ol with
    | none =>
      simp only [binParts, mgrPos_two, Option.map_some, opTailOf, List.length_nil, olLen,
        List.append_nil]
      congr 1
      have := ext_setHead b b.head
      simp only [Tree.ext] at this ⊢
      omega
    | some l =>
      simp only [binParts, mgrPos_three, Option.map_some, opTailOf, olLen]
      congr 1
      have := ext_setHead b (b.head ++ l.tail)
      simp only [Tree.ext, List.length_append] at this ⊢
      omega
  have hol' : olLen ol = (k.word.length : Int) + (opTailOf ol).length := by
    cases ol with
    | none => simp [olLen, opTailOf, hnone rfl]
    | some l =>
      obtain ⟨h1, h2⟩ := hol l rfl
      simp [olLen, opTailOf, layLen, h1, h2]
  refine ⟨⟨by simp [hsne], ⟨?_, ?_⟩, ?_⟩, ?_⟩
  · cases ol <;> simp [binParts, mgrPos_two, mgrPos_three, hpa.pos_eq, Tree.head]
  · rw [hsize, spanS_append, hsp]
    simp only [pushHead, spanS, ext_setHead, List.length_append]
    congr 1; omega
  · rw [posListS_append]
    refine ⟨hsl, ?_⟩
    rw [hsp]
    simp only [pushHead, PosListS, posS_setHead, Tree.setHead_head, List.length_append, and_true]
    exact hpb.cast (by omega)
  · simp only [Tree.ext, Tree.lay, layLen, hsize, Option.getD_some, List.length_nil]
    omega

end Luqum
