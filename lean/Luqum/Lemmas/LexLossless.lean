/-
  Luqum.Lemmas.LexLossless — lexer slicing lemma: when `lex` meets no illegal character, the
  lexemes with the heads and tails attached by `HeadTailLexer` concatenate to the input, only the
  first token has a head, and every lexeme is consistent with its token kind; and the bridge from
  tokens to the stack values the parser receives.
-/
import Luqum.Lemmas.Flat

namespace Luqum

/-! ### lexemes and token kinds -/

/-- the lexeme is consistent with the token kind -/
def tokOK : TokK → Str → Prop
  | .plus, x => x = ['+']
  | .minus, x => x = ['-']
  | .column, x => x = [':']
  | .lparen, x => x = ['(']
  | .rparen, x => x = [')']
  | .lbracket, x => x = ['['] ∨ x = ['{']
  | .rbracket, x => x = [']'] ∨ x = ['}']
  | .lessthan, x => x = ['<'] ∨ x = ['<', '=']
  | .greaterthan, x => x = ['>'] ∨ x = ['>', '=']
  | .andOp, x => x = "AND".toList
  | .orOp, x => x = "OR".toList
  | .not, x => x = "NOT".toList
  | .to, x => x = "TO".toList
  | .approx, x => ∃ cs, x = '~' :: cs
  | .boost, x => ∃ cs, x = '^' :: cs
  | _, _ => True

theorem reservedKind_ok (x : Str) : tokOK (reservedKind x) x := by
  unfold reservedKind
  split
  · next h => exact h
  · split
    · next h => exact h
    · split
      · next h => exact h
      · split
        · next h => exact h
        · trivial

theorem termLen_pos {prev rest : Str} {n : Nat} (h : termLen prev rest = some n) : 1 ≤ n := by
  unfold termLen at h
  split at h
  · cases h
  · split at h
    · cases h; omega
    · split at h
      · split at h
        · split at h
          · cases h; omega
          · cases h
        · cases h
      · cases h

theorem ite_elim {α : Sort _} {c : Prop} [Decidable c] {a b x : α} (h : (if c then a else b) = x) :
    (c ∧ a = x) ∨ (¬c ∧ b = x) := by
  by_cases hc : c
  · rw [if_pos hc] at h; exact Or.inl ⟨hc, h⟩
  · rw [if_neg hc] at h; exact Or.inr ⟨hc, h⟩

theorem suffixLen_spec {m : Char} {c : Char} {r : Str} {n : Nat} (h : suffixLen m (c :: r) = some n) :
    c = m ∧ ∃ k, n = 1 + k := by
  unfold suffixLen at h
  simp only at h
  rcases ite_elim h with ⟨hc, h⟩ | ⟨hc, h⟩
  · injection h with h; exact ⟨hc, _, h.symm⟩
  · cases h

/-- one step of the master regex: a separator (maximal run of `\s`), or a token whose lexeme is
consistent with its kind -/
theorem lexOne_spec {prev : Str} {c : Char} {r : Str} {l : Lexeme}
    (h : lexOne prev (c :: r) = some l) :
    (isSpace c = true ∧ l = .sep (sepLen (c :: r))) ∨
    (isSpace c = false ∧ ∃ k n, l = .tok k n ∧ tokOK k ((c :: r).take (max n 1))) := by
  unfold lexOne at h
  simp only at h
  rcases ite_elim h with ⟨hc, h⟩ | ⟨hc, h⟩
  · left; exact ⟨hc, by injection h with h; exact h.symm⟩
  right
  refine ⟨by simpa using hc, ?_⟩
  clear hc
  rcases ite_elim h with ⟨hc, h⟩ | ⟨hc, h⟩
  · injection h with h; subst h; subst hc; exact ⟨_, _, rfl, by simp [tokOK]⟩
  clear hc
  rcases ite_elim h with ⟨hc, h⟩ | ⟨hc, h⟩
  · injection h with h; subst h; subst hc; exact ⟨_, _, rfl, by simp [tokOK]⟩
  clear hc
  rcases ite_elim h with ⟨hc, h⟩ | ⟨hc, h⟩
  · injection h with h; subst h; subst hc; exact ⟨_, _, rfl, by simp [tokOK]⟩
  clear hc
  rcases ite_elim h with ⟨hc, h⟩ | ⟨hc, h⟩
  · injection h with h; subst h; subst hc; exact ⟨_, _, rfl, by simp [tokOK]⟩
  clear hc
  rcases ite_elim h with ⟨hc, h⟩ | ⟨hc, h⟩
  · injection h with h; subst h; subst hc; exact ⟨_, _, rfl, by simp [tokOK]⟩
  clear hc
  rcases ite_elim h with ⟨hc, h⟩ | ⟨hc, h⟩
  · injection h with h; subst h
    simp only [Bool.or_eq_true, decide_eq_true_eq] at hc
    exact ⟨_, _, rfl, by rcases hc with rfl | rfl <;> simp [tokOK]⟩
  clear hc
  rcases ite_elim h with ⟨hc, h⟩ | ⟨hc, h⟩
  · injection h with h; subst h
    simp only [Bool.or_eq_true, decide_eq_true_eq] at hc
    exact ⟨_, _, rfl, by rcases hc with rfl | rfl <;> simp [tokOK]⟩
  clear hc
  rcases ite_elim h with ⟨hc, h⟩ | ⟨hc, h⟩
  · injection h with h; subst h; subst hc
    refine ⟨_, _, rfl, ?_⟩
    split
    · simp [tokOK]
    · simp [tokOK]
  clear hc
  rcases ite_elim h with ⟨hc, h⟩ | ⟨hc, h⟩
  · injection h with h; subst h; subst hc
    refine ⟨_, _, rfl, ?_⟩
    split
    · simp [tokOK]
    · simp [tokOK]
  clear hc
  rcases ite_elim h with ⟨hc, h⟩ | ⟨hc, h⟩
  · simp only [Option.map_eq_some_iff] at h
    obtain ⟨n, _, rfl⟩ := h
    exact ⟨_, _, rfl, trivial⟩
  clear hc
  rcases ite_elim h with ⟨hc, h⟩ | ⟨hc, h⟩
  · simp only [Option.map_eq_some_iff] at h
    obtain ⟨n, _, rfl⟩ := h
    exact ⟨_, _, rfl, trivial⟩
  clear hc
  rcases ite_elim h with ⟨hc, h⟩ | ⟨hc, h⟩
  · simp only [Option.map_eq_some_iff] at h
    obtain ⟨n, hn, rfl⟩ := h
    obtain ⟨rfl, k, rfl⟩ := suffixLen_spec hn
    exact ⟨_, _, rfl, ⟨r.take k, by simp [Nat.add_comm 1 k]⟩⟩
  clear hc
  rcases ite_elim h with ⟨hc, h⟩ | ⟨hc, h⟩
  · simp only [Option.map_eq_some_iff] at h
    obtain ⟨n, hn, rfl⟩ := h
    obtain ⟨rfl, k, rfl⟩ := suffixLen_spec hn
    exact ⟨_, _, rfl, ⟨r.take k, by simp [Nat.add_comm 1 k]⟩⟩
  clear hc
  simp only [Option.map_eq_some_iff] at h
  obtain ⟨n, hn, rfl⟩ := h
  have := termLen_pos hn
  refine ⟨_, _, rfl, ?_⟩
  rw [Nat.max_eq_left this]
  exact reservedKind_ok _



/-! ### token sequences -/

/-- the source text a token stands for -/
def Tok.flat (t : Tok) : Str := t.head ++ t.text ++ t.tail

def tflats (toks : List Tok) : Str := (toks.map Tok.flat).flatten

@[simp] theorem tflats_nil : tflats [] = [] := rfl
@[simp] theorem tflats_cons (t : Tok) (r : List Tok) : tflats (t :: r) = t.flat ++ tflats r := by
  simp [tflats]
@[simp] theorem tflats_append (a b : List Tok) : tflats (a ++ b) = tflats a ++ tflats b := by
  simp [tflats]

/-- lexemes consistent with kinds; only the first token has a head -/
structure ToksWF (toks : List Tok) : Prop where
  ok : ∀ t ∈ toks, tokOK t.kind t.text
  heads : ∀ t ∈ toks.tail, t.head = []

theorem toksWF_nil : ToksWF [] := ⟨by simp, by simp⟩

theorem toksWF_snoc (l : List Tok) (t : Tok) :
    ToksWF (l ++ [t]) ↔ ToksWF l ∧ tokOK t.kind t.text ∧ (l ≠ [] → t.head = []) := by
  cases l with
  | nil =>
    constructor
    · intro h; exact ⟨toksWF_nil, h.ok t (by simp), by simp⟩
    · intro h; exact ⟨by simpa using h.2.1, by simp⟩
  | cons x r =>
    constructor
    · intro h
      exact ⟨⟨fun y hy => h.ok y (by simp at hy ⊢; rcases hy with rfl | hy <;> simp [*]),
        fun y hy => h.heads y (by simp at hy ⊢; exact Or.inl hy)⟩,
        h.ok t (by simp), fun _ => h.heads t (by simp)⟩
    · rintro ⟨h1, h2, h3⟩
      refine ⟨fun y hy => ?_, fun y hy => ?_⟩
      · simp at hy
        rcases hy with rfl | hy | rfl
        · exact h1.ok _ (by simp)
        · exact h1.ok _ (by simp [hy])
        · exact h2
      · simp at hy
        rcases hy with hy | rfl
        · exact h1.heads _ (by simpa using hy)
        · exact h3 (by simp)

theorem sepLen_drop (rest : Str) : ∀ c r, rest.drop (sepLen rest) = c :: r → isSpace c = false := by
  intro c r h
  unfold sepLen at h
  induction rest with
  | nil => simp at h
  | cons x xs ih =>
    by_cases hx : isSpace x = true
    · simp [List.takeWhile, hx] at h
      exact ih h
    · simp [List.takeWhile, hx] at h
      obtain ⟨rfl, _⟩ := h
      simpa using hx

theorem sepLen_pos {c : Char} {r : Str} (h : isSpace c = true) : 1 ≤ sepLen (c :: r) := by
  simp [sepLen, List.takeWhile, h]



theorem take_ne_nil {c : Char} {r : Str} {n : Nat} (h : 1 ≤ n) : (c :: r).take n ≠ [] := by
  cases n with
  | zero => omega
  | succ m => simp

theorem drop_length_lt {c : Char} {r : Str} {n fuel : Nat} (h : 1 ≤ n) (hf : (c :: r).length < fuel + 1) :
    ((c :: r).drop n).length < fuel := by
  simp at hf ⊢; omega

/-! ### the lexer loop -/

theorem lexLoop_spec : ∀ (fuel pos : Nat) (prev rest : Str) (acc : List Tok) (pending : Option Str)
    (toks : List Tok) (done : Str),
    rest.length < fuel →
    (pos = 0 ↔ done = []) →
    (acc = [] → done = pending.getD [] ∧ (done ≠ [] → ∀ c r, rest = c :: r → isSpace c = false)) →
    (acc ≠ [] → pending = none ∧ done = tflats acc.reverse ∧ pos ≠ 0) →
    ToksWF acc.reverse →
    lexLoop fuel pos prev rest acc pending = (toks, none) →
    ToksWF toks ∧ (toks ≠ [] → tflats toks = done ++ rest) := by
  intro fuel
  induction fuel with
  | zero => intro pos prev rest acc pending toks done hf; omega
  | succ fuel ih =>
    intro pos prev rest acc pending toks done hf hpos hnil hcons hwf h
    cases rest with
    | nil =>
      simp [lexLoop] at h
      subst h
      refine ⟨hwf, fun hne => ?_⟩
      have : acc ≠ [] := by simpa using hne
      simp [(hcons this).2.1]
    | cons c r =>
      unfold lexLoop at h
      simp only at h
      cases hl : lexOne prev (c :: r) with
      | none => rw [hl] at h; simp at h
      | some l =>
        rw [hl] at h
        rcases lexOne_spec hl with ⟨hc, rfl⟩ | ⟨hc, k, n, rfl, hk⟩
        · -- a separator
          simp only at h
          have hn1 : max (sepLen (c :: r)) 1 = sepLen (c :: r) := Nat.max_eq_left (sepLen_pos (r := r) hc)
          rw [hn1] at h
          have hsp : 1 ≤ sepLen (c :: r) := sepLen_pos hc
          have hlen := drop_length_lt hsp hf
          have hsne : (c :: r).take (sepLen (c :: r)) ≠ [] := take_ne_nil (sepLen_pos (r := r) hc)
          by_cases hp : pos = 0
          · rw [if_pos hp] at h
            have hd : done = [] := hpos.1 hp
            have hacc : acc = [] := Classical.byContradiction fun hne => (hcons hne).2.2 hp
            subst hacc; subst hd
            have := ih _ _ _ _ _ _ ((c :: r).take (sepLen (c :: r))) hlen
              ⟨fun h' => by omega, fun h' => absurd h' hsne⟩
              (fun _ => ⟨rfl, fun _ => sepLen_drop (c :: r)⟩)
              (fun hne => absurd rfl hne) hwf h
            refine ⟨this.1, fun hne => ?_⟩
            rw [this.2 hne, List.take_append_drop]; rfl
          · rw [if_neg hp] at h
            cases acc with
            | nil =>
              have hdn : done ≠ [] := fun hd => hp (hpos.2 hd)
              have := (hnil rfl).2 hdn c r rfl
              rw [hc] at this; cases this
            | cons t racc =>
              obtain ⟨hpn, hdone, _⟩ := hcons (by simp)
              simp only [addTail] at h
              have := ih _ _ _ _ _ _ (done ++ (c :: r).take (sepLen (c :: r))) hlen
                ⟨fun h' => by omega, fun h' => absurd (List.append_eq_nil_iff.1 h').2 hsne⟩
                (fun hh => by simp at hh)
                (fun _ => ⟨hpn, by simp [hdone, Tok.flat], by omega⟩)
                (by
                  simp only [List.reverse_cons] at hwf ⊢
                  rw [toksWF_snoc] at hwf ⊢
                  exact hwf) h
              refine ⟨this.1, fun hne => ?_⟩
              rw [this.2 hne, List.append_assoc, List.take_append_drop]
        · -- a token
          simp only at h
          have hn1 : 1 ≤ max n 1 := Nat.le_max_right _ _
          have hlen := drop_length_lt hn1 hf
          have hsne : (c :: r).take (max n 1) ≠ [] := take_ne_nil hn1
          have := ih _ _ _ _ _ _ (done ++ (c :: r).take (max n 1)) hlen
            ⟨fun h' => by omega, fun h' => absurd (List.append_eq_nil_iff.1 h').2 hsne⟩
            (fun hh => by simp at hh)
            (fun _ => ⟨rfl, by
              by_cases hacc : acc = []
              · subst hacc; simp [(hnil rfl).1, Tok.flat]
              · obtain ⟨hpn, hdone, _⟩ := hcons hacc
                simp [hpn, hdone, Tok.flat], by omega⟩)
            (by
              simp only [List.reverse_cons]
              rw [toksWF_snoc]
              refine ⟨hwf, hk, fun hne => ?_⟩
              have hacc : acc ≠ [] := by simpa using hne
              simp [(hcons hacc).1]) h
          refine ⟨this.1, fun hne => ?_⟩
          rw [this.2 hne, List.append_assoc, List.take_append_drop]

/-- **lexer slicing lemma**: if the lexer meets no illegal character, the tokens with their heads
and tails concatenate to the input (unless there is no token at all: empty or blank input), only
the first token has a head, and every lexeme is consistent with its token kind -/
theorem lex_spec {s : Str} {toks : List Tok} (h : lex s = (toks, none)) :
    ToksWF toks ∧ (toks ≠ [] → tflats toks = s) := by
  have := lexLoop_spec (s.length + 1) 0 [] s [] none toks [] (by omega) (by simp)
    (fun _ => ⟨rfl, fun h => absurd rfl h⟩) (fun h => absurd rfl h) toksWF_nil h
  simpa using this



/-! ### from tokens to stack values -/

theorem toVal_flat {t : Tok} (h : tokOK t.kind t.text) : t.toVal.flat = t.flat := by
  obtain ⟨kind, text, pos, head, tail⟩ := t
  cases kind <;> simp only [tokOK] at h <;>
    simp [Tok.toVal, Val.flat, Tok.flat, Tree.full, tokText]
  all_goals
    obtain ⟨cs, rfl⟩ := h
    cases cs <;> simp

theorem toVal_good {t : Tok} (h : tokOK t.kind t.text) : t.toVal.good := by
  obtain ⟨kind, text, pos, head, tail⟩ := t
  cases kind <;> simp only [tokOK] at h <;>
    simp [Tok.toVal, Val.good, Tree.good, tokValOK, h]
  all_goals simpa using h

theorem toVal_nonFirst {t : Tok} (h : t.head = []) : t.toVal.nonFirst := by
  obtain ⟨kind, text, pos, head, tail⟩ := t
  cases kind <;> simpa [Tok.toVal, Val.nonFirst, Tree.nonFirst, Tree.lay] using h

theorem toVal_lay_tail (t : Tok) : t.toVal.lay.tail = t.tail := by
  obtain ⟨kind, text, pos, head, tail⟩ := t
  cases kind <;> simp [Tok.toVal, Val.lay, Tree.lay]

theorem toVal_isColon (t : Tok) : t.toVal.isColon = (t.kind == .column) := by
  obtain ⟨kind, text, pos, head, tail⟩ := t
  cases kind <;> simp [Tok.toVal, Val.isColon] <;> decide

theorem flats_toVal {toks : List Tok} (h : ∀ t ∈ toks, tokOK t.kind t.text) :
    flats (toks.map Tok.toVal) = tflats toks := by
  induction toks with
  | nil => rfl
  | cons t r ih =>
    simp only [List.map_cons, flats_cons, tflats_cons]
    rw [toVal_flat (h t (by simp)), ih (fun x hx => h x (by simp [hx]))]

theorem allGood_toVal {toks : List Tok} (h : ToksWF toks) : AllGood (toks.map Tok.toVal) := by
  intro v hv
  simp at hv
  obtain ⟨t, ht, rfl⟩ := hv
  exact toVal_good (h.ok t ht)

theorem allNF_toVal {toks : List Tok} (h : ToksWF toks) : AllNF (toks.map Tok.toVal).tail := by
  intro v hv
  cases toks with
  | nil => simp at hv
  | cons x r =>
    simp at hv
    obtain ⟨t, ht, rfl⟩ := hv
    exact toVal_nonFirst (h.heads t (by simpa using ht))

end Luqum
