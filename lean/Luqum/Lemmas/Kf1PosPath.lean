/-
  Luqum.Lemmas.Kf1PosPath — positions without the KF1 hypothesis: consequences of the source layout
  `PosS` for the nodes of the tree, path by path (spans of the children inside the node's span, in
  order, without overlapping; every descendant inside the root), and a Bool checker for the
  witnesses.
-/
import Luqum.Lemmas.Kf1PosDefs
import Luqum.Lemmas.LaidPath

namespace Luqum

/-! ### spans -/

theorem PosS.span_true {t : Tree} {p : Int} (h : PosS t p) :
    t.span true = some (p - t.head.length, p - t.head.length + t.ext) := by
  obtain ⟨z, hz, he⟩ := h.ext_nonneg
  simp only [Tree.span, h.pos_eq, hz, if_true, he]
  congr 2; omega

theorem PosS.span_false {t : Tree} {p : Int} {z : Int} (h : PosS t p) (hz : t.lay.size = some z) :
    t.span false = some (p, p + z) := by
  simp [Tree.span, h.pos_eq, hz]

theorem chain_singleS {c : Tree} {lo hi q : Int} (hc : PosS c q)
    (h1 : lo ≤ q - c.head.length) (h2 : q - c.head.length + c.ext ≤ hi) : SpanChain lo [c] hi := by
  obtain ⟨z, _, he⟩ := hc.ext_nonneg
  exact ⟨_, _, hc.span_true, h1, by omega, h2⟩

theorem posListS_chain (sep : Nat) : ∀ (xs : List Tree) (off : Int), xs ≠ [] →
    PosListS sep xs off → SpanChain off xs (off + (spanS sep xs - sep))
  | [], _, hne, _ => absurd rfl hne
  | [x], off, _, h => by
    simp only [PosListS] at h
    exact chain_singleS h.1 (by omega) (by simp only [spanS]; omega)
  | x :: y :: r, off, _, h => by
    simp only [PosListS] at h
    obtain ⟨hx, hr⟩ := h
    obtain ⟨z, _, he⟩ := hx.ext_nonneg
    have ih := posListS_chain sep (y :: r) _ (by simp) (by simpa only [PosListS] using hr)
    refine ⟨_, _, hx.span_true, by omega, by omega, ?_⟩
    refine SpanChain.mono_lo (lo' := off + x.ext + sep) ?_ (by omega)
    have e : off + x.ext + (sep : Int) + (spanS sep (y :: r) - sep)
        = off + (spanS sep (x :: y :: r) - sep) := by simp only [spanS]; omega
    rw [← e]; exact ih

/-- **children's spans**: the widened spans of the children of a node laid out in the source lie
inside the node's own span, in order and without overlapping -/
theorem PosS.chain {t : Tree} {p : Int} (h : PosS t p) :
    ∃ z : Nat, t.lay.size = some (z : Int) ∧ SpanChain p t.children (p + z) := by
  obtain ⟨z, hz⟩ := h.size_nonneg
  refine ⟨z, hz, ?_⟩
  cases t with
  | term k v l => simp only [Tree.children, SpanChain]; omega
  | none l => exact h.elim
  | field n e l =>
    obtain ⟨g, ⟨_, h2⟩, he⟩ := h
    simp only [Tree.lay, h2, Option.some.injEq] at hz
    exact chain_singleS he (by omega) (by omega)
  | group k e l =>
    obtain ⟨⟨_, h2⟩, he⟩ := h
    simp only [Tree.lay, h2, Option.some.injEq] at hz
    exact chain_singleS he (by omega) (by omega)
  | range a b il ih l =>
    obtain ⟨⟨_, h2⟩, ha, hb⟩ := h
    simp only [Tree.lay, h2, Option.some.injEq] at hz
    obtain ⟨za, _, hea⟩ := ha.ext_nonneg
    refine ⟨_, _, ha.span_true, by omega, by omega, ?_⟩
    exact chain_singleS hb (by omega) (by omega)
  | approx k t n l =>
    obtain ⟨⟨_, h2⟩, he⟩ := h
    simp only [Tree.lay, h2, Option.some.injEq] at hz
    exact chain_singleS he (by omega) (by omega)
  | boost e n l =>
    obtain ⟨⟨_, h2⟩, he⟩ := h
    simp only [Tree.lay, h2, Option.some.injEq] at hz
    exact chain_singleS he (by omega) (by omega)
  | op k xs l =>
    obtain ⟨hne, ⟨_, h2⟩, hl⟩ := h
    simp only [Tree.lay, h2, Option.some.injEq] at hz
    rw [← hz]
    exact posListS_chain _ xs p hne hl
  | unary k a l =>
    obtain ⟨⟨_, h2⟩, he⟩ := h
    simp only [Tree.lay, h2, Option.some.injEq] at hz
    exact chain_singleS he (by omega) (by omega)
  | orange k a inc l =>
    obtain ⟨⟨_, h2⟩, he⟩ := h
    simp only [Tree.lay, h2, Option.some.injEq] at hz
    exact chain_singleS he (by omega) (by omega)

theorem posListS_mem {sep : Nat} : ∀ {xs : List Tree} {p : Int} {c : Tree}, PosListS sep xs p →
    c ∈ xs → ∃ q, PosS c q
  | [], _, _, _, hc => by simp at hc
  | x :: r, p, c, h, hc => by
    simp only [PosListS] at h
    simp only [List.mem_cons] at hc
    rcases hc with rfl | hc
    · exact ⟨_, h.1⟩
    · exact posListS_mem h.2 hc

/-- every child of a node laid out in the source is laid out in the source -/
theorem PosS.child {t : Tree} {p : Int} (h : PosS t p) {c : Tree} (hc : c ∈ t.children) :
    ∃ q, PosS c q := by
  cases t with
  | term k v l => simp [Tree.children] at hc
  | none l => exact h.elim
  | field n e l =>
    obtain ⟨g, _, he⟩ := h
    simp only [Tree.children, List.mem_cons, List.not_mem_nil, or_false] at hc
    subst hc; exact ⟨_, he⟩
  | group k e l =>
    simp only [Tree.children, List.mem_cons, List.not_mem_nil, or_false] at hc
    subst hc; exact ⟨_, h.2⟩
  | range a b il ih l =>
    simp only [Tree.children, List.mem_cons, List.not_mem_nil, or_false] at hc
    rcases hc with rfl | rfl
    · exact ⟨_, h.2.1⟩
    · exact ⟨_, h.2.2⟩
  | approx k t n l =>
    simp only [Tree.children, List.mem_cons, List.not_mem_nil, or_false] at hc
    subst hc; exact ⟨_, h.2⟩
  | boost e n l =>
    simp only [Tree.children, List.mem_cons, List.not_mem_nil, or_false] at hc
    subst hc; exact ⟨_, h.2⟩
  | op k xs l => exact posListS_mem h.2.2 hc
  | unary k a l =>
    simp only [Tree.children, List.mem_cons, List.not_mem_nil, or_false] at hc
    subst hc; exact ⟨_, h.2⟩
  | orange k a inc l =>
    simp only [Tree.children, List.mem_cons, List.not_mem_nil, or_false] at hc
    subst hc; exact ⟨_, h.2⟩

/-- **every node lies inside the root**: the node at any path of a tree laid out in the source is
laid out in the source, and its widened span lies inside the widened span of the tree -/
theorem PosS.at : ∀ (path : List Nat) {t n : Tree} {p : Int}, PosS t p → t.at? path = some n →
    ∃ q, PosS n q ∧ p - t.head.length ≤ q - n.head.length ∧
      q - n.head.length + n.ext ≤ p - t.head.length + t.ext
  | [], t, n, p, h, hn => by
    simp only [Tree.at?, Option.some.injEq] at hn; subst hn
    exact ⟨p, h, by omega, by omega⟩
  | i :: r, t, n, p, h, hn => by
    simp only [Tree.at?] at hn
    cases hc : t.children[i]? with
    | none => rw [hc] at hn; cases hn
    | some c =>
      rw [hc] at hn
      obtain ⟨q, hq⟩ := h.child (List.mem_of_getElem? hc)
      obtain ⟨q', hq', h1, h2⟩ := PosS.at r hq hn
      obtain ⟨z, hz, hch⟩ := h.chain
      obtain ⟨a, b, hs, ha, _, hb⟩ := (SpanChain.spec hch).1 i c hc
      rw [hq.span_true] at hs
      simp only [Option.some.injEq, Prod.mk.injEq] at hs
      obtain ⟨rfl, rfl⟩ := hs
      have := ext_eq t hz
      exact ⟨q', hq', by omega, by omega⟩

/-! ### a Bool checker (for kernel-checked witnesses) -/

def layAtSB (l : Lay) (p z : Int) : Bool := l.pos == some p && l.size == some z

theorem layAtSB_iff (l : Lay) (p z : Int) : layAtSB l p z = true ↔ LayS l p z := by
  simp [layAtSB, LayS]

mutual
/-- Bool version of `PosS` (the gap of a `SearchField` is read off its `size`) -/
def posSB : Tree → Int → Bool
  | .term _ v l, p => layAtSB l p v.length
  | .field n e l, p =>
      let g : Int := l.size.getD 0 - (n.length + 1 + e.ext)
      decide (0 ≤ g) && layAtSB l p (n.length + g + 1 + e.ext) &&
        posSB e (p + n.length + g + 1 + e.head.length)
  | .group _ e l, p => layAtSB l p (1 + e.ext + 1) && posSB e (p + 1 + e.head.length)
  | .range a b _ _ l, p =>
      layAtSB l p (1 + a.ext + 2 + b.ext + 1) && (posSB a (p + 1 + a.head.length) &&
      posSB b (p + 1 + a.ext + 2 + b.head.length))
  | .approx _ t n l, p => layAtSB l p (t.ext + 1 + n.source.length) && posSB t (p + t.head.length)
  | .boost e n l, p => layAtSB l p (e.ext + 1 + n.source.length) && posSB e (p + e.head.length)
  | .op k xs l, p =>
      !xs.isEmpty && (layAtSB l p (spanS k.word.length xs - k.word.length) &&
        posListSB k.word.length xs p)
  | .unary k a l, p =>
      layAtSB l p (k.word.length + a.ext) && posSB a (p + k.word.length + a.head.length)
  | .orange k a inc l, p =>
      layAtSB l p ((orangePre k inc).length + a.ext) &&
      posSB a (p + (orangePre k inc).length + a.head.length)
  | .none _, _ => false
def posListSB (sep : Nat) : List Tree → Int → Bool
  | [], _ => true
  | x :: r, p => posSB x (p + x.head.length) && posListSB sep r (p + x.ext + sep)
end

mutual
theorem posSB_sound : ∀ (t : Tree) (p : Int), posSB t p = true → PosS t p
  | .term _ v l, p, h => by simpa only [posSB, PosS, layAtSB_iff] using h
  | .field n e l, p, h => by
    simp only [posSB, Bool.and_eq_true, decide_eq_true_eq, layAtSB_iff] at h
    obtain ⟨⟨hg, hl⟩, he⟩ := h
    obtain ⟨g, hg'⟩ : ∃ g : Nat, l.size.getD 0 - ((n.length : Int) + 1 + e.ext) = g :=
      ⟨_, (Int.toNat_of_nonneg hg).symm⟩
    rw [hg'] at hl he
    exact ⟨g, hl, posSB_sound e _ he⟩
  | .group _ e l, p, h => by
    simp only [posSB, Bool.and_eq_true, layAtSB_iff] at h
    exact ⟨h.1, posSB_sound e _ h.2⟩
  | .range a b _ _ l, p, h => by
    simp only [posSB, Bool.and_eq_true, layAtSB_iff] at h
    exact ⟨h.1, posSB_sound a _ h.2.1, posSB_sound b _ h.2.2⟩
  | .approx _ t n l, p, h => by
    simp only [posSB, Bool.and_eq_true, layAtSB_iff] at h
    exact ⟨h.1, posSB_sound t _ h.2⟩
  | .boost e n l, p, h => by
    simp only [posSB, Bool.and_eq_true, layAtSB_iff] at h
    exact ⟨h.1, posSB_sound e _ h.2⟩
  | .op k xs l, p, h => by
    simp only [posSB, Bool.and_eq_true, layAtSB_iff, Bool.not_eq_true', List.isEmpty_eq_false_iff] at h
    exact ⟨h.1, h.2.1, posListSB_sound _ xs _ h.2.2⟩
  | .unary k a l, p, h => by
    simp only [posSB, Bool.and_eq_true, layAtSB_iff] at h
    exact ⟨h.1, posSB_sound a _ h.2⟩
  | .orange k a inc l, p, h => by
    simp only [posSB, Bool.and_eq_true, layAtSB_iff] at h
    exact ⟨h.1, posSB_sound a _ h.2⟩
  | .none _, _, h => by simp [posSB] at h
theorem posListSB_sound (sep : Nat) : ∀ (xs : List Tree) (p : Int),
    posListSB sep xs p = true → PosListS sep xs p
  | [], _, _ => trivial
  | x :: r, p, h => by
    simp only [posListSB, Bool.and_eq_true] at h
    exact ⟨posSB_sound x _ h.1, posListSB_sound sep r _ h.2⟩
end

end Luqum
