/-
  Luqum.Lemmas.PrettySpellNl — `noNewlineLexemes` (no word, phrase, regex or field name of the tree
  contains a newline: finding KF10), the token texts printed for such a tree contain no newline, and
  a tree in canonical form has no operand-less operation.
-/
import Luqum.Lemmas.PrettySpellTree
import Luqum.Lemmas.ReparseValid
import Luqum.Lemmas.CertDefs

namespace Luqum.PSpell
open Luqum Luqum.Pretty

mutual
/-- no word, phrase, regex or field name of the tree contains a newline -/
def noNewlineLexemes : Tree → Bool
  | .term _ v _ => !v.contains '\n'
  | .field n e _ => !n.contains '\n' && noNewlineLexemes e
  | .group _ e _ => noNewlineLexemes e
  | .range lo hi _ _ _ => noNewlineLexemes lo && noNewlineLexemes hi
  | .approx _ e _ _ => noNewlineLexemes e
  | .boost e _ _ => noNewlineLexemes e
  | .op _ xs _ => noNewlineLexemesL xs
  | .unary _ e _ => noNewlineLexemes e
  | .orange _ e _ _ => noNewlineLexemes e
  | .none _ => true
def noNewlineLexemesL : List Tree → Bool
  | [] => true
  | x :: r => noNewlineLexemes x && noNewlineLexemesL r
end

/-- no piece has a newline in its text -/
def NoNlL (ps : List Piece) : Prop := ∀ p ∈ ps, '\n' ∉ p.text

theorem noNlL_nil : NoNlL [] := fun _ h => by cases h

theorem noNlL_cons {p : Piece} {ps : List Piece} (hp : '\n' ∉ p.text) (h : NoNlL ps) :
    NoNlL (p :: ps) := fun q hq => by
  simp only [List.mem_cons] at hq
  rcases hq with rfl | hq
  · exact hp
  · exact h q hq

theorem noNlL_cons' {sep : Str} {k : TokK} {x : Str} {ps : List Piece} (hp : '\n' ∉ x)
    (h : NoNlL ps) : NoNlL (⟨sep, k, x⟩ :: ps) := noNlL_cons hp h

theorem noNlL_append {ps qs : List Piece} (h1 : NoNlL ps) (h2 : NoNlL qs) : NoNlL (ps ++ qs) :=
  fun q hq => by
    simp only [List.mem_append] at hq
    rcases hq with hq | hq
    · exact h1 q hq
    · exact h2 q hq

theorem not_contains {v : Str} (h : (!v.contains '\n') = true) : '\n' ∉ v := by
  simpa using h

theorem takeWhile_length_all {p : Char → Bool} : ∀ {l : Str}, (l.takeWhile p).length = l.length →
    ∀ c ∈ l, p c = true
  | [], _ => fun _ h => by cases h
  | a :: l, h => by
    rw [List.takeWhile_cons] at h
    split at h
    · next ha =>
      simp only [List.length_cons, Nat.add_right_cancel_iff] at h
      intro c hc
      simp only [List.mem_cons] at hc
      rcases hc with rfl | hc
      · exact ha
      · exact takeWhile_length_all h c hc
    · simp at h

theorem isNumChar_nl : isNumChar '\n' = false := by decide

/-- a valid `~…` / `^…` token text contains no newline -/
theorem validTok_mark_noNl {k : TokK} {m : Char} {cs : Str}
    (hm : (m = '~' ∧ k = .approx) ∨ (m = '^' ∧ k = .boost)) (h : validTok k (m :: cs) = true) :
    '\n' ∉ m :: cs := by
  have hall : ∀ c ∈ cs, isNumChar c = true := by
    rcases hm with ⟨rfl, rfl⟩ | ⟨rfl, rfl⟩
    · simp only [validTok, decide_eq_true_eq, lexOne_tilde, suffixLen, if_true, Option.map_some,
        Option.some.injEq, Lexeme.tok.injEq, true_and, List.length_cons] at h
      exact takeWhile_length_all (by omega)
    · simp only [validTok, decide_eq_true_eq, lexOne_caret, suffixLen, if_true, Option.map_some,
        Option.some.injEq, Lexeme.tok.injEq, true_and, List.length_cons] at h
      exact takeWhile_length_all (by omega)
  intro hmem
  simp only [List.mem_cons] at hmem
  rcases hmem with hmem | hmem
  · rcases hm with ⟨rfl, _⟩ | ⟨rfl, _⟩ <;> cases hmem
  · have := hall _ hmem
    rw [isNumChar_nl] at this
    cases this

mutual
/-- **the token texts printed for a tree without newline in its lexemes contain no newline** -/
theorem Tree.pcs_noNl (s : NumStyle) : ∀ (t : Tree) (pre : Str), noNewlineLexemes t = true →
    validNums s t = true → NoNlL (t.pcs s pre).1
  | .term .word v l, pre, h, _ => by
    simp only [noNewlineLexemes] at h
    exact noNlL_cons (not_contains h) noNlL_nil
  | .term .phrase v l, pre, h, _ => by
    simp only [noNewlineLexemes] at h
    exact noNlL_cons (not_contains h) noNlL_nil
  | .term .regex v l, pre, h, _ => by
    simp only [noNewlineLexemes] at h
    exact noNlL_cons (not_contains h) noNlL_nil
  | .field n e l, pre, h, hn => by
    simp only [noNewlineLexemes, Bool.and_eq_true] at h
    simp only [validNums] at hn
    exact noNlL_cons (not_contains h.1) (noNlL_cons' (by decide) (Tree.pcs_noNl s e [] h.2 hn))
  | .group k e l, pre, h, hn => by
    simp only [noNewlineLexemes] at h
    simp only [validNums] at hn
    simp only [Tree.pcs]
    exact noNlL_cons' (by decide) (noNlL_append (Tree.pcs_noNl s e [] h hn)
      (noNlL_cons' (by decide) noNlL_nil))
  | .range a b il ih l, pre, h, hn => by
    simp only [noNewlineLexemes, Bool.and_eq_true] at h
    simp only [validNums, Bool.and_eq_true] at hn
    simp only [Tree.pcs, List.append_assoc]
    exact noNlL_cons' (by cases il <;> decide) (noNlL_append (Tree.pcs_noNl s a [] h.1 hn.1)
      (noNlL_cons' (by decide) (noNlL_append (Tree.pcs_noNl s b [] h.2 hn.2)
        (noNlL_cons' (by cases ih <;> decide) noNlL_nil))))
  | .approx k t n l, pre, h, hn => by
    simp only [noNewlineLexemes] at h
    simp only [validNums, Bool.and_eq_true] at hn
    simp only [Tree.pcs]
    exact noNlL_append (Tree.pcs_noNl s t _ h hn.2)
      (noNlL_cons (validTok_mark_noNl (Or.inl ⟨rfl, rfl⟩) hn.1) noNlL_nil)
  | .boost e n l, pre, h, hn => by
    simp only [noNewlineLexemes] at h
    simp only [validNums, Bool.and_eq_true] at hn
    simp only [Tree.pcs]
    exact noNlL_append (Tree.pcs_noNl s e _ h hn.2)
      (noNlL_cons (validTok_mark_noNl (Or.inr ⟨rfl, rfl⟩) hn.1) noNlL_nil)
  | .op k [] l, pre, _, _ => by simp only [Tree.pcs]; exact noNlL_nil
  | .op k (x :: xs) l, pre, h, hn => by
    simp only [noNewlineLexemes, noNewlineLexemesL, Bool.and_eq_true] at h
    simp only [validNums, validNumss, Bool.and_eq_true] at hn
    simp only [Tree.pcs]
    exact noNlL_append (Tree.pcs_noNl s x _ h.1 hn.1) (Tree.pcsTail_noNl s k xs _ h.2 hn.2)
  | .unary k a l, pre, h, hn => by
    simp only [noNewlineLexemes] at h
    simp only [validNums] at hn
    have ha := Tree.pcs_noNl s a [] h hn
    cases k <;> simp only [Tree.pcs] <;> exact noNlL_cons' (by decide) ha
  | .orange k a inc l, pre, h, hn => by
    simp only [noNewlineLexemes] at h
    simp only [validNums] at hn
    have ha := Tree.pcs_noNl s a [] h hn
    cases k <;> cases inc <;> simp only [Tree.pcs] <;> exact noNlL_cons' (by decide) ha
  | .none l, pre, _, _ => by simp only [Tree.pcs]; exact noNlL_nil
theorem Tree.pcsTail_noNl (s : NumStyle) (k : OpK) : ∀ (ys : List Tree) (pre : Str),
    noNewlineLexemesL ys = true → validNumss s ys = true → NoNlL (Tree.pcsTail s k ys pre).1
  | [], pre, _, _ => by simp only [Tree.pcsTail]; exact noNlL_nil
  | y :: r, pre, h, hn => by
    simp only [noNewlineLexemesL, Bool.and_eq_true] at h
    simp only [validNumss, Bool.and_eq_true] at hn
    rcases opTok_word k with ⟨h1, _, _⟩ | ⟨kk, w, h1, _, _⟩
    · simp only [Tree.pcsTail, h1]
      exact noNlL_append (Tree.pcs_noNl s y _ h.1 hn.1) (Tree.pcsTail_noNl s k r _ h.2 hn.2)
    · simp only [Tree.pcsTail, h1]
      have hw : '\n' ∉ w := by
        cases k <;> simp [opTok] at h1 <;> (rw [← h1.2]; decide)
      exact noNlL_cons hw (noNlL_append (Tree.pcs_noNl s y _ h.1 hn.1)
        (Tree.pcsTail_noNl s k r _ h.2 hn.2))
end

/-! ### canonical form: no operand-less operation -/

mutual
theorem canon_noEmptyOp : ∀ (uf : Bool) (t : Tree), CanonAt uf t = true → NoEmptyOp t = true
  | _, .term .., _ => by simp [NoEmptyOp]
  | _, .none _, _ => by simp [NoEmptyOp]
  | _, .op k xs _, h => by
    simp only [CanonAt, Bool.and_eq_true, decide_eq_true_eq] at h
    simp only [NoEmptyOp, Bool.and_eq_true]
    refine ⟨?_, canons_noEmptyOps xs h.1.2⟩
    cases xs with
    | nil => have := h.1.1.2; simp at this
    | cons x r => rfl
  | _, .unary .., _ => by simp [NoEmptyOp]
  | _, .field _ e _, h => by
    simp only [CanonAt, Bool.and_eq_true] at h
    simp only [NoEmptyOp]
    exact canon_noEmptyOp true e h.1
  | uf, .group k e _, h => by
    simp only [CanonAt, Bool.and_eq_true] at h
    simp only [NoEmptyOp]
    exact canon_noEmptyOp false e h.2
  | _, .boost .., _ => by simp [NoEmptyOp]
  | _, .approx .., _ => by simp [NoEmptyOp]
  | _, .range .., _ => by simp [NoEmptyOp]
  | _, .orange .., _ => by simp [NoEmptyOp]
theorem canons_noEmptyOps : ∀ xs : List Tree, CanonsAt xs = true → NoEmptyOps xs = true
  | [], _ => by simp [NoEmptyOps]
  | x :: r, h => by
    simp only [CanonsAt, Bool.and_eq_true] at h
    simp only [NoEmptyOps, Bool.and_eq_true]
    exact ⟨canon_noEmptyOp false x h.1, canons_noEmptyOps r h.2⟩
end

end Luqum.PSpell
