/-
  Luqum.Lemmas.Visit — helper lemmas for C08: dispatch cache, visitEvents vs preorder (generalised
  over the `parents` / `path` prefix), context of preorder entries, order of the paths.
-/
import Luqum.Model.Visitor

namespace Luqum.Lemmas.Visit
open Luqum

/-! ### the dispatch cache -/

/-- a cache is consistent with the handler list when every entry is what uncached dispatch gives -/
def Consistent (H : List String) (c : Cache) : Prop := ∀ e ∈ c, e.2 = dispatch H e.1

theorem consistent_nil (H : List String) : Consistent H [] := by intro e he; cases he

theorem get?_of_consistent {H : List String} {c : Cache} (hc : Consistent H c) {cls h : String}
    (hg : c.get? cls = some h) : h = dispatch H cls := by
  unfold Cache.get? at hg
  cases hf : c.find? (fun e => e.1 == cls) with
  | none => simp [hf] at hg
  | some e =>
    simp [hf] at hg
    have hm := List.mem_of_find?_eq_some hf
    have hp := List.find?_some hf
    simp at hp
    rw [← hg, hc e hm, hp]

theorem dispatchCached_fst {H : List String} {c : Cache} (hc : Consistent H c) (cls : String) :
    (dispatchCached H c cls).1 = dispatch H cls := by
  unfold dispatchCached
  cases hg : c.get? cls with
  | none => rfl
  | some h => simp [get?_of_consistent hc hg]

theorem dispatchCached_snd {H : List String} {c : Cache} (hc : Consistent H c) (cls : String) :
    Consistent H (dispatchCached H c cls).2 := by
  unfold dispatchCached
  cases hg : c.get? cls with
  | none =>
    intro e he
    simp at he
    rcases he with rfl | he
    · rfl
    · exact hc e he
  | some h => exact hc

/-- the cache only grows -/
theorem dispatchCached_mono (H : List String) (c : Cache) (cls : String) :
    ∀ e ∈ c, e ∈ (dispatchCached H c cls).2 := by
  intro e he
  unfold dispatchCached
  cases hg : c.get? cls with
  | none => simp [he]
  | some h => exact he

/-! ### events = preorder, decorated with the handler -/

def mkEvent (H : List String) (x : Tree × List Tree × List Nat) : Event :=
  { handler := dispatch H x.1.className, node := x.1, parents := x.2.1, path := x.2.2 }

mutual
theorem visitEvents_eq (H : List String) : ∀ (t : Tree) (c : Cache) (ps : List Tree) (p : List Nat),
    Consistent H c →
    (visitEvents H c ps p t).1 = (preorder ps p t).map (mkEvent H)
      ∧ Consistent H (visitEvents H c ps p t).2
  | .term k v l, c, ps, p, hc => by
    rw [visitEvents, preorder]
    simp [mkEvent, dispatchCached_fst hc, dispatchCached_snd hc]
  | .none l, c, ps, p, hc => by
    rw [visitEvents, preorder]
    simp [mkEvent, dispatchCached_fst hc, dispatchCached_snd hc]
  | .field n e l, c, ps, p, hc => by
    have ih := visitEvents_eq H e _ (ps ++ [.field n e l]) (p ++ [0])
      (dispatchCached_snd hc (Tree.field n e l).className)
    rw [visitEvents, preorder]
    simp only [List.map_cons, mkEvent, dispatchCached_fst hc]
    exact ⟨by rw [ih.1], ih.2⟩
  | .group k e l, c, ps, p, hc => by
    have ih := visitEvents_eq H e _ (ps ++ [.group k e l]) (p ++ [0])
      (dispatchCached_snd hc (Tree.group k e l).className)
    rw [visitEvents, preorder]
    simp only [List.map_cons, mkEvent, dispatchCached_fst hc]
    exact ⟨by rw [ih.1], ih.2⟩
  | .approx k e n l, c, ps, p, hc => by
    have ih := visitEvents_eq H e _ (ps ++ [.approx k e n l]) (p ++ [0])
      (dispatchCached_snd hc (Tree.approx k e n l).className)
    rw [visitEvents, preorder]
    simp only [List.map_cons, mkEvent, dispatchCached_fst hc]
    exact ⟨by rw [ih.1], ih.2⟩
  | .boost e n l, c, ps, p, hc => by
    have ih := visitEvents_eq H e _ (ps ++ [.boost e n l]) (p ++ [0])
      (dispatchCached_snd hc (Tree.boost e n l).className)
    rw [visitEvents, preorder]
    simp only [List.map_cons, mkEvent, dispatchCached_fst hc]
    exact ⟨by rw [ih.1], ih.2⟩
  | .unary k e l, c, ps, p, hc => by
    have ih := visitEvents_eq H e _ (ps ++ [.unary k e l]) (p ++ [0])
      (dispatchCached_snd hc (Tree.unary k e l).className)
    rw [visitEvents, preorder]
    simp only [List.map_cons, mkEvent, dispatchCached_fst hc]
    exact ⟨by rw [ih.1], ih.2⟩
  | .orange k e i l, c, ps, p, hc => by
    have ih := visitEvents_eq H e _ (ps ++ [.orange k e i l]) (p ++ [0])
      (dispatchCached_snd hc (Tree.orange k e i l).className)
    rw [visitEvents, preorder]
    simp only [List.map_cons, mkEvent, dispatchCached_fst hc]
    exact ⟨by rw [ih.1], ih.2⟩
  | .range a b il ih l, c, ps, p, hc => by
    have iha := visitEvents_eq H a _ (ps ++ [.range a b il ih l]) (p ++ [0])
      (dispatchCached_snd hc (Tree.range a b il ih l).className)
    have ihb := visitEvents_eq H b _ (ps ++ [.range a b il ih l]) (p ++ [1]) iha.2
    rw [visitEvents, preorder]
    simp only [List.map_cons, List.map_append, mkEvent, dispatchCached_fst hc]
    exact ⟨by rw [iha.1, ihb.1], ihb.2⟩
  | .op k xs l, c, ps, p, hc => by
    have ih := visitEventsList_eq H xs _ (ps ++ [.op k xs l]) p 0
      (dispatchCached_snd hc (Tree.op k xs l).className)
    rw [visitEvents, preorder]
    simp only [List.map_cons, mkEvent, dispatchCached_fst hc]
    exact ⟨by rw [ih.1], ih.2⟩
theorem visitEventsList_eq (H : List String) : ∀ (xs : List Tree) (c : Cache) (ps : List Tree)
    (p : List Nat) (i : Nat), Consistent H c →
    (visitEventsList H c ps p i xs).1 = (preorderList ps p i xs).map (mkEvent H)
      ∧ Consistent H (visitEventsList H c ps p i xs).2
  | [], c, ps, p, i, hc => by simp [visitEventsList, preorderList, hc]
  | x :: r, c, ps, p, i, hc => by
    have ih1 := visitEvents_eq H x c ps (p ++ [i]) hc
    have ih2 := visitEventsList_eq H r _ ps p (i + 1) ih1.2
    rw [visitEventsList, preorderList]
    simp only [List.map_append]
    exact ⟨by rw [ih1.1, ih2.1], ih2.2⟩
end

/-! ### every node exactly once -/

mutual
theorem preorder_length : ∀ (t : Tree) (ps : List Tree) (p : List Nat),
    (preorder ps p t).length = t.nodeCount
  | .term .., ps, p => by rw [preorder]; simp [Tree.nodeCount]
  | .none _, ps, p => by rw [preorder]; simp [Tree.nodeCount]
  | .field n e l, ps, p => by rw [preorder]; simp [Tree.nodeCount, preorder_length e]
  | .group k e l, ps, p => by rw [preorder]; simp [Tree.nodeCount, preorder_length e]
  | .approx k e n l, ps, p => by rw [preorder]; simp [Tree.nodeCount, preorder_length e]
  | .boost e n l, ps, p => by rw [preorder]; simp [Tree.nodeCount, preorder_length e]
  | .unary k e l, ps, p => by rw [preorder]; simp [Tree.nodeCount, preorder_length e]
  | .orange k e i l, ps, p => by rw [preorder]; simp [Tree.nodeCount, preorder_length e]
  | .range a b il ih l, ps, p => by
    rw [preorder]; simp [Tree.nodeCount, preorder_length a, preorder_length b]
  | .op k xs l, ps, p => by rw [preorder]; simp [Tree.nodeCount, preorderList_length xs]
theorem preorderList_length : ∀ (xs : List Tree) (ps : List Tree) (p : List Nat) (i : Nat),
    (preorderList ps p i xs).length = Tree.nodeCounts xs
  | [], ps, p, i => by simp [preorderList, Tree.nodeCounts]
  | x :: r, ps, p, i => by
    simp [preorderList, Tree.nodeCounts, preorder_length x, preorderList_length r]
end

/-! ### the context of every entry is the true one -/

/-- entry `e` of an enumeration of `t` started with prefix `ps` / `p`: its path is `p ++ q`, the
node is the one at `q` in `t`, the ancestors are `ps` followed by the nodes at the proper prefixes
of `q` -/
def Ctx (t : Tree) (ps : List Tree) (p : List Nat) (e : Tree × List Tree × List Nat) : Prop :=
  ∃ q anc, e.2.2 = p ++ q ∧ e.2.1 = ps ++ anc ∧ t.at? q = some e.1 ∧ anc.length = q.length ∧
    ∀ i (h : i < anc.length), t.at? (q.take i) = some anc[i]

theorem Ctx.root (t : Tree) (ps : List Tree) (p : List Nat) : Ctx t ps p (t, ps, p) :=
  ⟨[], [], by simp, by simp, rfl, rfl, by intro i h; cases h⟩

theorem Ctx.lift {t c : Tree} {ps : List Tree} {p : List Nat} {j : Nat}
    {e : Tree × List Tree × List Nat} (hc : t.children[j]? = some c)
    (h : Ctx c (ps ++ [t]) (p ++ [j]) e) : Ctx t ps p e := by
  obtain ⟨q, anc, h1, h2, h3, h4, h5⟩ := h
  refine ⟨j :: q, t :: anc, by simp [h1], by simp [h2], ?_, by simp [h4], ?_⟩
  · simp [Tree.at?, hc, h3]
  · intro i hi
    cases i with
    | zero => simp [Tree.at?]
    | succ i =>
      simp at hi
      simp [Tree.at?, hc, h5 i hi]

mutual
theorem preorder_ctx : ∀ (t : Tree) (ps : List Tree) (p : List Nat),
    ∀ e ∈ preorder ps p t, Ctx t ps p e
  | .term k v l, ps, p, e, he => by
    rw [preorder] at he; simp at he; subst he; exact Ctx.root _ _ _
  | .none l, ps, p, e, he => by
    rw [preorder] at he; simp at he; subst he; exact Ctx.root _ _ _
  | .field n c l, ps, p, e, he => by
    rw [preorder] at he; simp only [List.mem_cons] at he
    rcases he with rfl | he
    · exact Ctx.root _ _ _
    · exact Ctx.lift (j := 0) (by simp [Tree.children]) (preorder_ctx c _ _ e he)
  | .group k c l, ps, p, e, he => by
    rw [preorder] at he; simp only [List.mem_cons] at he
    rcases he with rfl | he
    · exact Ctx.root _ _ _
    · exact Ctx.lift (j := 0) (by simp [Tree.children]) (preorder_ctx c _ _ e he)
  | .approx k c n l, ps, p, e, he => by
    rw [preorder] at he; simp only [List.mem_cons] at he
    rcases he with rfl | he
    · exact Ctx.root _ _ _
    · exact Ctx.lift (j := 0) (by simp [Tree.children]) (preorder_ctx c _ _ e he)
  | .boost c n l, ps, p, e, he => by
    rw [preorder] at he; simp only [List.mem_cons] at he
    rcases he with rfl | he
    · exact Ctx.root _ _ _
    · exact Ctx.lift (j := 0) (by simp [Tree.children]) (preorder_ctx c _ _ e he)
  | .unary k c l, ps, p, e, he => by
    rw [preorder] at he; simp only [List.mem_cons] at he
    rcases he with rfl | he
    · exact Ctx.root _ _ _
    · exact Ctx.lift (j := 0) (by simp [Tree.children]) (preorder_ctx c _ _ e he)
  | .orange k c i l, ps, p, e, he => by
    rw [preorder] at he; simp only [List.mem_cons] at he
    rcases he with rfl | he
    · exact Ctx.root _ _ _
    · exact Ctx.lift (j := 0) (by simp [Tree.children]) (preorder_ctx c _ _ e he)
  | .range a b il ih l, ps, p, e, he => by
    rw [preorder] at he; simp only [List.mem_cons, List.mem_append] at he
    rcases he with rfl | he | he
    · exact Ctx.root _ _ _
    · exact Ctx.lift (j := 0) (by simp [Tree.children]) (preorder_ctx a _ _ e he)
    · exact Ctx.lift (j := 1) (by simp [Tree.children]) (preorder_ctx b _ _ e he)
  | .op k xs l, ps, p, e, he => by
    rw [preorder] at he; simp only [List.mem_cons] at he
    rcases he with rfl | he
    · exact Ctx.root _ _ _
    · obtain ⟨j, x, hx, hc⟩ := preorderList_ctx xs _ _ 0 e he
      simp only [Nat.zero_add] at hc
      exact Ctx.lift (j := j) (by simpa [Tree.children] using hx) hc
theorem preorderList_ctx : ∀ (xs : List Tree) (ps : List Tree) (p : List Nat) (i : Nat),
    ∀ e ∈ preorderList ps p i xs, ∃ j x, xs[j]? = some x ∧ Ctx x ps (p ++ [i + j]) e
  | [], ps, p, i, e, he => by simp [preorderList] at he
  | x :: r, ps, p, i, e, he => by
    rw [preorderList] at he; simp only [List.mem_append] at he
    rcases he with he | he
    · exact ⟨0, x, by simp, by simpa using preorder_ctx x ps (p ++ [i]) e he⟩
    · obtain ⟨j, y, hy, hc⟩ := preorderList_ctx r ps p (i + 1) e he
      refine ⟨j + 1, y, by simpa using hy, ?_⟩
      have : i + (j + 1) = i + 1 + j := by omega
      rw [this]; exact hc
end

/-! ### the paths are strictly increasing (lexicographically): document order, no node twice -/

theorem lt_append_cons (p : List Nat) (k : Nat) (q : List Nat) : p < p ++ k :: q := by
  induction p with
  | nil => exact List.Lex.nil
  | cons a p ih => exact List.Lex.cons ih

theorem append_lt_append (p : List Nat) {a b : Nat} (h : a < b) (q q' : List Nat) :
    p ++ a :: q < p ++ b :: q' := by
  induction p with
  | nil => exact List.Lex.rel h
  | cons a p ih => exact List.Lex.cons ih

theorem preorder_path (t : Tree) (ps : List Tree) (p : List Nat) :
    ∀ e ∈ preorder ps p t, ∃ q, e.2.2 = p ++ q := by
  intro e he
  obtain ⟨q, _, h, _⟩ := preorder_ctx t ps p e he
  exact ⟨q, h⟩

theorem preorderList_path (xs : List Tree) (ps : List Tree) (p : List Nat) (i : Nat) :
    ∀ e ∈ preorderList ps p i xs, ∃ j q, e.2.2 = p ++ (i + j) :: q := by
  intro e he
  obtain ⟨j, x, _, q, _, h, _⟩ := preorderList_ctx xs ps p i e he
  exact ⟨j, q, by simp [h]⟩

abbrev PathLt (a b : Tree × List Tree × List Nat) : Prop := a.2.2 < b.2.2

private theorem single_child (t c : Tree) (ps : List Tree) (p : List Nat)
    (ih : List.Pairwise PathLt (preorder (ps ++ [t]) (p ++ [0]) c)) :
    List.Pairwise PathLt ((t, ps, p) :: preorder (ps ++ [t]) (p ++ [0]) c) := by
  refine List.pairwise_cons.2 ⟨?_, ih⟩
  intro e he
  obtain ⟨q, hq⟩ := preorder_path c _ _ e he
  show p < e.2.2
  rw [hq, List.append_assoc]; exact lt_append_cons _ _ _

mutual
theorem preorder_sorted : ∀ (t : Tree) (ps : List Tree) (p : List Nat),
    List.Pairwise PathLt (preorder ps p t)
  | .term k v l, ps, p => by rw [preorder]; simp
  | .none l, ps, p => by rw [preorder]; simp
  | .field n c l, ps, p => by rw [preorder]; exact single_child _ c ps p (preorder_sorted c _ _)
  | .group k c l, ps, p => by rw [preorder]; exact single_child _ c ps p (preorder_sorted c _ _)
  | .approx k c n l, ps, p => by rw [preorder]; exact single_child _ c ps p (preorder_sorted c _ _)
  | .boost c n l, ps, p => by rw [preorder]; exact single_child _ c ps p (preorder_sorted c _ _)
  | .unary k c l, ps, p => by rw [preorder]; exact single_child _ c ps p (preorder_sorted c _ _)
  | .orange k c i l, ps, p => by rw [preorder]; exact single_child _ c ps p (preorder_sorted c _ _)
  | .range a b il ih l, ps, p => by
    rw [preorder]
    refine List.pairwise_cons.2 ⟨?_, List.pairwise_append.2
      ⟨preorder_sorted a _ _, preorder_sorted b _ _, ?_⟩⟩
    · intro e he
      simp only [List.mem_append] at he
      show p < e.2.2
      rcases he with he | he <;> obtain ⟨q, hq⟩ := preorder_path _ _ _ e he <;>
        rw [hq, List.append_assoc] <;> exact lt_append_cons _ _ _
    · intro e1 h1 e2 h2
      obtain ⟨q1, hq1⟩ := preorder_path _ _ _ e1 h1
      obtain ⟨q2, hq2⟩ := preorder_path _ _ _ e2 h2
      show e1.2.2 < e2.2.2
      rw [hq1, hq2, List.append_assoc, List.append_assoc]
      exact append_lt_append p (by omega) _ _
  | .op k xs l, ps, p => by
    rw [preorder]
    refine List.pairwise_cons.2 ⟨?_, preorderList_sorted xs _ _ _⟩
    intro e he
    obtain ⟨j, q, hq⟩ := preorderList_path _ _ _ _ e he
    show p < e.2.2
    rw [hq]; exact lt_append_cons _ _ _
theorem preorderList_sorted : ∀ (xs : List Tree) (ps : List Tree) (p : List Nat) (i : Nat),
    List.Pairwise PathLt (preorderList ps p i xs)
  | [], ps, p, i => by simp [preorderList]
  | x :: r, ps, p, i => by
    rw [preorderList]
    refine List.pairwise_append.2 ⟨preorder_sorted x _ _, preorderList_sorted r _ _ _, ?_⟩
    intro e1 h1 e2 h2
    obtain ⟨q1, hq1⟩ := preorder_path _ _ _ e1 h1
    obtain ⟨j, q2, hq2⟩ := preorderList_path _ _ _ _ e2 h2
    show e1.2.2 < e2.2.2
    rw [hq1, hq2, List.append_assoc]
    exact append_lt_append p (by omega) _ _
end

theorem lex_irrefl : ∀ (p : List Nat), ¬ p < p
  | [], h => by cases h
  | a :: p, h => by
    cases h with
    | rel h => omega
    | cons h => exact lex_irrefl p h

end Luqum.Lemmas.Visit
