/-
  Luqum.Lemmas.Lockstep — two runs of the LR driver over token lists with the same kinds and texts
  (but possibly different heads, tails and positions) stay in lock-step: equal state stacks, value
  stacks related by `Val.Sim` (tokens: same kind and value; items: same meaning-bearing content).
-/
import Luqum.Lemmas.Fuel
import Luqum.Props.C09

namespace Luqum
open Luqum.Props.C09 (content contents)

/-! ### `content` of the trees built by the semantic actions -/

@[simp] theorem content_setLay (t : Tree) (l : Lay) : content (t.setLay l) = content t := by
  cases t <;> simp [Tree.setLay, content]

@[simp] theorem content_setHead (t : Tree) (h : Str) : content (t.setHead h) = content t :=
  content_setLay _ _

@[simp] theorem content_setTail (t : Tree) (x : Str) : content (t.setTail x) = content t :=
  content_setLay _ _

theorem contents_append (xs ys : List Tree) : contents (xs ++ ys) = contents xs ++ contents ys := by
  induction xs with
  | nil => simp [contents]
  | cons x r ih => simp [contents, ih]

theorem contents_pushHead (tl : Str) (xs : List Tree) : contents (pushHead tl xs) = contents xs := by
  cases xs <;> simp [pushHead, contents]

/-- flattening depends only on the operation kind of the operand, which `content` keeps -/
theorem contents_side (k : OpK) (t : Tree) : contents (side k t) = side k (content t) := by
  cases t <;> simp [side, content, contents]
  rename_i k' xs l
  by_cases hk : k' = k <;> simp [hk, contents, content]

theorem content_binaryOp (k : OpK) (a b : Tree) (ol : Option Lay) :
    content (binaryOp k a ol b) = .op k (side k (content a) ++ side k (content b)) {} := by
  obtain ⟨pos, size, h⟩ := binaryOp_eq k a b ol
  rw [h]
  simp [content, contents_append, contents_pushHead, contents_side]

theorem content_toFieldGroup (e : Tree) : content (toFieldGroup e) = toFieldGroup (content e) := by
  unfold toFieldGroup
  split
  · simp [content]
  · rename_i hne
    cases e <;> simp [content]
    rename_i k x l
    cases k
    · exact absurd rfl (hne _ _)
    · simp

theorem content_word_inv {t : Tree} {k : TermK} {v : Str} {l : Lay}
    (h : content (.term k v l) = content t) : ∃ l', t = .term k v l' := by
  cases t <;> simp [content] at h
  obtain ⟨rfl, rfl⟩ := h
  exact ⟨_, rfl⟩

/-! ### the simulation relation on stack values -/

/-- two stack values that may differ in layout, positions and attached names only:
tokens of the same kind and value; items with the same meaning-bearing content -/
inductive Val.Sim : Val → Val → Prop
  | tok (k : TokK) (v v' : TokV) (h : v.value = v'.value) : Val.Sim (.tok k v) (.tok k v')
  | item (t t' : Tree) (h : content t = content t') : Val.Sim (.item t) (.item t')

/-- value stacks (or argument lists) that simulate each other element by element -/
inductive Sims : List Val → List Val → Prop
  | nil : Sims [] []
  | cons {v v' : Val} {vs vs' : List Val} : Val.Sim v v' → Sims vs vs' → Sims (v :: vs) (v' :: vs')

theorem Val.Sim.refl : ∀ v : Val, Val.Sim v v
  | .tok k v => .tok k v v rfl
  | .item t => .item t t rfl

/-! ### numbers -/

theorem intNum_sim {a a' : TokV} (h : a.value = a'.value) :
    (∃ n, intNum a = .ok n ∧ intNum a' = .ok n) ∨
    (∃ t p p', intNum a = .error (.badNumber t p) ∧ intNum a' = .error (.badNumber t p')) := by
  unfold intNum numError
  rw [← h]
  split
  · exact Or.inl ⟨_, rfl, rfl⟩
  · split
    · exact Or.inl ⟨_, rfl, rfl⟩
    · exact Or.inr ⟨_, _, _, rfl, rfl⟩

theorem decNum_sim {a a' : TokV} (d : Dec) (h : a.value = a'.value) :
    (∃ n, decNum a d = .ok n ∧ decNum a' d = .ok n) ∨
    (∃ t p p', decNum a d = .error (.badNumber t p) ∧ decNum a' d = .error (.badNumber t p')) := by
  unfold decNum numError
  rw [← h]
  split
  · exact Or.inl ⟨_, rfl, rfl⟩
  · split
    · exact Or.inl ⟨_, rfl, rfl⟩
    · exact Or.inr ⟨_, _, _, rfl, rfl⟩

/-! ### the semantic actions respect the simulation -/

/-- the syntax errors of luqum (`ParseSyntaxError`), as opposed to `IllegalCharacterError` and to the
model-internal errors -/
def ParseErr.isSyntax : ParseErr → Bool
  | .syntaxAt .. => true
  | .syntaxEnd => true
  | .badNumber .. => true
  | _ => false

/-- the same syntax error, up to the position -/
def ErrSim : ParseErr → ParseErr → Prop
  | .syntaxAt t _, .syntaxAt t' _ => t = t'
  | .syntaxEnd, .syntaxEnd => True
  | .badNumber t _, .badNumber t' _ => t = t'
  | _, _ => False

/-- outcomes that simulate each other: success with simulating results, or the same syntax error
(up to its position); nothing is claimed about other errors of the first run -/
def ResRel (r r' : Except ParseErr Val) : Prop :=
  match r with
  | .ok v => ∃ v', r' = .ok v' ∧ Val.Sim v v'
  | .error e => e.isSyntax = true → ∃ e', r' = .error e' ∧ ErrSim e e'

theorem Sims.nil_inv {ws : List Val} (h : Sims [] ws) : ws = [] := by cases h; rfl

theorem Sims.cons_inv {v : Val} {vs ws : List Val} (h : Sims (v :: vs) ws) :
    ∃ w ws', ws = w :: ws' ∧ Val.Sim v w ∧ Sims vs ws' := by
  cases h with
  | cons h1 h2 => exact ⟨_, _, rfl, h1, h2⟩

theorem Val.Sim.item_inv {t : Tree} {w : Val} (h : Val.Sim (.item t) w) :
    ∃ t', w = .item t' ∧ content t = content t' := by
  cases h with
  | item _ t' h => exact ⟨t', rfl, h⟩

theorem Val.Sim.tok_inv {k : TokK} {v : TokV} {w : Val} (h : Val.Sim (.tok k v) w) :
    ∃ v', w = .tok k v' ∧ v.value = v'.value := by
  cases h with
  | tok _ _ v' h => exact ⟨v', rfl, h⟩

theorem Sims.inv1 {v : Val} {ws : List Val} (h : Sims [v] ws) : ∃ w, ws = [w] ∧ Val.Sim v w := by
  obtain ⟨w, ws', rfl, h1, h2⟩ := h.cons_inv
  cases h2.nil_inv
  exact ⟨w, rfl, h1⟩

/-- `[tok, item]` -/
theorem Sims.inv_ti {k : TokK} {o : TokV} {e : Tree} {ws : List Val}
    (h : Sims [.tok k o, .item e] ws) :
    ∃ o' e', ws = [.tok k o', .item e'] ∧ o.value = o'.value ∧ content e = content e' := by
  obtain ⟨_, _, rfl, h1, h⟩ := h.cons_inv
  obtain ⟨_, _, rfl, h2, h⟩ := h.cons_inv
  cases h.nil_inv
  obtain ⟨o', rfl, ho⟩ := h1.tok_inv
  obtain ⟨e', rfl, he⟩ := h2.item_inv
  exact ⟨o', e', rfl, ho, he⟩

/-- `[item, tok]` -/
theorem Sims.inv_it {k : TokK} {o : TokV} {e : Tree} {ws : List Val}
    (h : Sims [.item e, .tok k o] ws) :
    ∃ e' o', ws = [.item e', .tok k o'] ∧ content e = content e' ∧ o.value = o'.value := by
  obtain ⟨_, _, rfl, h1, h⟩ := h.cons_inv
  obtain ⟨_, _, rfl, h2, h⟩ := h.cons_inv
  cases h.nil_inv
  obtain ⟨e', rfl, he⟩ := h1.item_inv
  obtain ⟨o', rfl, ho⟩ := h2.tok_inv
  exact ⟨e', o', rfl, he, ho⟩

/-- `[item, tok, item]` -/
theorem Sims.inv_iti {k : TokK} {o : TokV} {a b : Tree} {ws : List Val}
    (h : Sims [.item a, .tok k o, .item b] ws) :
    ∃ a' o' b', ws = [.item a', .tok k o', .item b'] ∧ content a = content a' ∧
      o.value = o'.value ∧ content b = content b' := by
  obtain ⟨_, _, rfl, h1, h⟩ := h.cons_inv
  obtain ⟨o', b', rfl, ho, hb⟩ := h.inv_ti
  obtain ⟨a', rfl, ha⟩ := h1.item_inv
  exact ⟨a', o', b', rfl, ha, ho, hb⟩

/-- `[tok, item, tok]` -/
theorem Sims.inv_tit {k1 k2 : TokK} {o1 o2 : TokV} {e : Tree} {ws : List Val}
    (h : Sims [.tok k1 o1, .item e, .tok k2 o2] ws) :
    ∃ o1' e' o2', ws = [.tok k1 o1', .item e', .tok k2 o2'] ∧ o1.value = o1'.value ∧
      content e = content e' ∧ o2.value = o2'.value := by
  obtain ⟨_, _, rfl, h1, h⟩ := h.cons_inv
  obtain ⟨e', o2', rfl, he, h2⟩ := h.inv_it
  obtain ⟨o1', rfl, h1'⟩ := h1.tok_inv
  exact ⟨o1', e', o2', rfl, h1', he, h2⟩

/-- the unit productions pass their value on -/
def unitActs : List String :=
  ["p_expression_unary", "p_possibly_negative_term", "p_phrase_or_possibly_negative_term",
   "p_quoting", "p_terms", "p_regex", "p_phrase_or_term"]

theorem act_unit (f : String) (v : Val) (hf : f ∈ unitActs) : act f [v] = .ok v := by
  simp only [unitActs, List.mem_cons, List.not_mem_nil, or_false] at hf
  rcases hf with rfl | rfl | rfl | rfl | rfl | rfl | rfl
  case inr.inl =>
    cases v with
    | item t => rfl
    | tok k o => cases k <;> rfl
  all_goals rfl

theorem act_field_eq (name : Str) (nl : Lay) (c : TokV) (e : Tree) :
    act "p_field_search" [.item (.term .word name nl), .tok .column c, .item e] =
      .ok (.item (.field name ((toFieldGroup e).setHead (c.lay.tail ++ (toFieldGroup e).head))
        { head := nl.head, tail := [],
          pos := (mgrPos [nl, c.lay, (toFieldGroup e).lay] true false).1,
          size := (mgrPos [nl, c.lay, (toFieldGroup e).lay] true false).2 })) := rfl

theorem act_sim {f : String} {vs : List Val} {r : Except ParseErr Val} (h : act f vs = r) :
    ∀ vs', Sims vs vs' → ResRel r (act f vs') := by
  unfold act at h
  split at h
  case h_1 =>
    subst h; intro vs' hs
    obtain ⟨a', o', b', rfl, ha, ho, hb⟩ := hs.inv_iti
    exact ⟨_, rfl, .item _ _ (by simp [content_binaryOp, ha, hb])⟩
  case h_2 =>
    subst h; intro vs' hs
    obtain ⟨a', o', b', rfl, ha, ho, hb⟩ := hs.inv_iti
    exact ⟨_, rfl, .item _ _ (by simp [content_binaryOp, ha, hb])⟩
  case h_3 =>
    subst h; intro vs' hs
    obtain ⟨_, _, rfl, h1, hs⟩ := hs.cons_inv
    obtain ⟨w, rfl, h2⟩ := hs.inv1
    obtain ⟨a', rfl, ha⟩ := h1.item_inv
    obtain ⟨b', rfl, hb⟩ := h2.item_inv
    exact ⟨_, rfl, .item _ _ (by simp [content_binaryOp, ha, hb])⟩
  case h_4 =>
    subst h; intro vs' hs
    obtain ⟨o', e', rfl, _, he⟩ := hs.inv_ti
    exact ⟨_, rfl, .item _ _ (by simp [mgrUnary, content, he])⟩
  case h_5 =>
    subst h; intro vs' hs
    obtain ⟨o', e', rfl, _, he⟩ := hs.inv_ti
    exact ⟨_, rfl, .item _ _ (by simp [mgrUnary, content, he])⟩
  case h_6 =>
    subst h; intro vs' hs
    obtain ⟨o', e', rfl, _, he⟩ := hs.inv_ti
    exact ⟨_, rfl, .item _ _ (by simp [mgrUnary, content, he])⟩
  case h_7 =>
    subst h; intro vs' hs
    obtain ⟨w, rfl, hv⟩ := hs.inv1
    exact ⟨_, act_unit _ _ (by decide), hv⟩
  case h_8 =>
    split at h; subst h; intro vs' hs
    obtain ⟨lp', e', rp', rfl, _, he, _⟩ := hs.inv_tit
    exact ⟨_, rfl, .item _ _ (by simp [content, he])⟩
  case h_9 =>
    split at h; subst h; intro vs' hs
    obtain ⟨_, _, rfl, h1, hs⟩ := hs.cons_inv
    obtain ⟨_, _, rfl, h2, hs⟩ := hs.cons_inv
    obtain ⟨to', hi', rb', rfl, _, hhi, hrb⟩ := hs.inv_tit
    obtain ⟨lb', rfl, hlb⟩ := h1.tok_inv
    obtain ⟨lo', rfl, hlo⟩ := h2.item_inv
    exact ⟨_, rfl, .item _ _ (by simp [content, hlo, hhi, hlb, hrb])⟩
  case h_10 =>
    subst h; intro vs' hs
    obtain ⟨o', e', rfl, _, he⟩ := hs.inv_ti
    exact ⟨_, rfl, .item _ _ (by simp [mgrUnary, content, he])⟩
  case h_11 =>
    subst h; intro vs' hs
    obtain ⟨w, rfl, hv⟩ := hs.inv1
    exact ⟨_, act_unit _ _ (by decide), hv⟩
  case h_12 =>
    subst h; intro vs' hs
    obtain ⟨w, rfl, hv⟩ := hs.inv1
    exact ⟨_, act_unit _ _ (by decide), hv⟩
  case h_13 =>
    subst h; intro vs' hs
    obtain ⟨o', e', rfl, ho, he⟩ := hs.inv_ti
    exact ⟨_, rfl, .item _ _ (by simp [mgrUnary, content, he, ho])⟩
  case h_14 =>
    subst h; intro vs' hs
    obtain ⟨o', e', rfl, ho, he⟩ := hs.inv_ti
    exact ⟨_, rfl, .item _ _ (by simp [mgrUnary, content, he, ho])⟩
  case h_15 =>
    rename_i name nl c e
    have h' : Except.ok (Val.item (.field name ((toFieldGroup e).setHead (c.lay.tail ++ (toFieldGroup e).head))
        { head := nl.head, tail := [],
          pos := (mgrPos [nl, c.lay, (toFieldGroup e).lay] true false).1,
          size := (mgrPos [nl, c.lay, (toFieldGroup e).lay] true false).2 })) = r := h
    subst h'; intro vs' hs
    obtain ⟨_, _, rfl, h1, hs⟩ := hs.cons_inv
    obtain ⟨c', e', rfl, _, he⟩ := hs.inv_ti
    obtain ⟨t', rfl, ht⟩ := h1.item_inv
    obtain ⟨nl', rfl⟩ := content_word_inv ht
    exact ⟨_, act_field_eq name nl' c' e', .item _ _ (by simp [content, content_toFieldGroup, he])⟩
  case h_16 =>
    subst h; intro vs' hs
    obtain ⟨w, rfl, hv⟩ := hs.inv1
    exact ⟨_, act_unit _ _ (by decide), hv⟩
  case h_17 =>
    intro vs' hs
    obtain ⟨e', a', rfl, he, ha⟩ := hs.inv_it
    have e2 : act "p_proximity" [.item e', .tok .approx a'] =
        (match intNum a' with
          | .ok n => .ok (.item (mgrPostUnary e' a'.lay (fun x l =>  .approx .proximity x n l)))
          | .error err => .error err) := rfl
    rw [e2]
    rcases intNum_sim ha with ⟨n, h1, h2⟩ | ⟨t, p, p', h1, h2⟩
    · rw [h1] at h; subst h; rw [h2]
      exact ⟨_, rfl, .item _ _ (by simp [mgrPostUnary, content, he])⟩
    · rw [h1] at h; subst h; rw [h2]
      exact fun _ => ⟨_, rfl, rfl⟩
  case h_18 =>
    intro vs' hs
    obtain ⟨e', a', rfl, he, ha⟩ := hs.inv_it
    have e2 : act "p_boosting" [.item e', .tok .boost a'] =
        (match decNum a' { coeff := 1 } with
          | .ok n => .ok (.item (mgrPostUnary e' a'.lay (fun x l =>  .boost x n l)))
          | .error err => .error err) := rfl
    rw [e2]
    rcases decNum_sim _ ha with ⟨n, h1, h2⟩ | ⟨t, p, p', h1, h2⟩
    · rw [h1] at h; subst h; rw [h2]
      exact ⟨_, rfl, .item _ _ (by simp [mgrPostUnary, content, he])⟩
    · rw [h1] at h; subst h; rw [h2]
      exact fun _ => ⟨_, rfl, rfl⟩
  case h_19 =>
    subst h; intro vs' hs
    obtain ⟨w, rfl, hv⟩ := hs.inv1
    exact ⟨_, act_unit _ _ (by decide), hv⟩
  case h_20 =>
    intro vs' hs
    obtain ⟨e', a', rfl, he, ha⟩ := hs.inv_it
    have e2 : act "p_fuzzy" [.item e', .tok .approx a'] =
        (match decNum a' { coeff := 5, exp := -1 } with
          | .ok n => .ok (.item (mgrPostUnary e' a'.lay (fun x l =>  .approx .fuzzy x n l)))
          | .error err => .error err) := rfl
    rw [e2]
    rcases decNum_sim _ ha with ⟨n, h1, h2⟩ | ⟨t, p, p', h1, h2⟩
    · rw [h1] at h; subst h; rw [h2]
      exact ⟨_, rfl, .item _ _ (by simp [mgrPostUnary, content, he])⟩
    · rw [h1] at h; subst h; rw [h2]
      exact fun _ => ⟨_, rfl, rfl⟩
  case h_21 =>
    subst h; intro vs' hs
    obtain ⟨w, rfl, hv⟩ := hs.inv1
    exact ⟨_, act_unit _ _ (by decide), hv⟩
  case h_22 =>
    split at h; subst h; intro vs' hs
    obtain ⟨w, rfl, hv⟩ := hs.inv1
    obtain ⟨t', rfl, ht⟩ := hv.tok_inv
    exact ⟨_, rfl, .item _ _ (by simp [content, ht])⟩
  case h_23 =>
    subst h; intro vs' hs
    obtain ⟨w, rfl, hv⟩ := hs.inv1
    exact ⟨_, act_unit _ _ (by decide), hv⟩
  case h_24 =>
    subst h; intro vs' hs hsyn; simp [ParseErr.isSyntax] at hsyn

/-! ### lists of simulating values -/

theorem Sims.refl : ∀ vs : List Val, Sims vs vs
  | [] => .nil
  | v :: r => .cons (Val.Sim.refl v) (Sims.refl r)

theorem Sims.length_eq {vs vs' : List Val} (h : Sims vs vs') : vs.length = vs'.length := by
  induction h with
  | nil => rfl
  | cons _ _ ih => simp [ih]

theorem Sims.take {vs vs' : List Val} (h : Sims vs vs') : ∀ n, Sims (vs.take n) (vs'.take n) := by
  induction h with
  | nil => intro n; simpa using Sims.nil
  | cons h1 _ ih =>
    intro n
    cases n with
    | zero => simpa using Sims.nil
    | succ n => simpa using Sims.cons h1 (ih n)

theorem Sims.drop {vs vs' : List Val} (h : Sims vs vs') : ∀ n, Sims (vs.drop n) (vs'.drop n) := by
  induction h with
  | nil => intro n; simpa using Sims.nil
  | cons h1 h2 ih =>
    intro n
    cases n with
    | zero => simpa using Sims.cons h1 h2
    | succ n => simpa using ih n

theorem Sims.append {xs xs' ys ys' : List Val} (h : Sims xs xs') (h' : Sims ys ys') :
    Sims (xs ++ ys) (xs' ++ ys') := by
  induction h with
  | nil => simpa using h'
  | cons h1 _ ih => simpa using Sims.cons h1 ih

theorem Sims.reverse {vs vs' : List Val} (h : Sims vs vs') : Sims vs.reverse vs'.reverse := by
  induction h with
  | nil => simpa using Sims.nil
  | cons h1 _ ih => simpa using Sims.append ih (Sims.cons h1 .nil)

/-! ### tokens with the same kind and text -/

/-- what the grammar sees of a token: its kind and its text (not its head, tail and position) -/
def tokKey (t : Tok) : TokK × Str := (t.kind, t.text)

theorem toVal_sim {t t' : Tok} (h : tokKey t = tokKey t') : Val.Sim t.toVal t'.toVal := by
  obtain ⟨kind, text, pos, head, tail⟩ := t
  obtain ⟨kind', text', pos', head', tail'⟩ := t'
  simp only [tokKey, Prod.mk.injEq] at h
  obtain ⟨rfl, rfl⟩ := h
  cases kind <;> first
    | exact .item _ _ (by simp [content])
    | exact .tok _ _ _ rfl

theorem toVal_errText {t t' : Tok} (h : tokKey t = tokKey t') :
    t.toVal.errText = t'.toVal.errText := by
  obtain ⟨kind, text, pos, head, tail⟩ := t
  obtain ⟨kind', text', pos', head', tail'⟩ := t'
  simp only [tokKey, Prod.mk.injEq] at h
  obtain ⟨rfl, rfl⟩ := h
  cases kind <;> rfl

/-- look-aheads with the same kind and text -/
def LookSim : Option Tok → Option Tok → Prop
  | none, none => True
  | some t, some t' => tokKey t = tokKey t'
  | _, _ => False

theorem lookSim_head {toks toks' : List Tok} (h : toks.map tokKey = toks'.map tokKey) :
    LookSim toks.head? toks'.head? := by
  cases toks <;> cases toks' <;> simp [LookSim] at h ⊢
  exact h.1

theorem lookName_sim {l l' : Option Tok} (h : LookSim l l') : lookName l' = lookName l := by
  cases l <;> cases l' <;> simp [LookSim, lookName, tokKey] at h ⊢
  rw [h.1]

/-! ### one step of the driver -/

/-- configurations in lock-step: equal state stacks, simulating value stacks -/
def CfgSim (c c' : Cfg) : Prop := c.states = c'.states ∧ Sims c.vals c'.vals

/-- results of a step that simulate each other -/
def StepRel : StepResult → StepResult → Prop
  | .shift c, r' => ∃ c', r' = .shift c' ∧ CfgSim c c'
  | .reduce c, r' => ∃ c', r' = .reduce c' ∧ CfgSim c c'
  | .accept v, r' => ∃ v', r' = .accept v' ∧ Val.Sim v v'
  | .error e, r' => e.isSyntax = true → ∃ e', r' = .error e' ∧ ErrSim e e'

theorem reduceBy_sim (T : Tables) {c c' : Cfg} (p : String × List String × String)
    (hc : CfgSim c c') : StepRel (reduceBy T c p) (reduceBy T c' p) := by
  obtain ⟨hst, hv⟩ := hc
  unfold reduceBy
  have hargs : Sims (c.vals.take p.2.1.length).reverse (c'.vals.take p.2.1.length).reverse :=
    (hv.take _).reverse
  rw [← hst, ← hargs.length_eq]
  split
  · intro h; simp [ParseErr.isSyntax] at h
  · have := act_sim (f := p.2.2) rfl _ hargs
    cases hr : act p.2.2 (c.vals.take p.2.1.length).reverse with
    | error e =>
      rw [hr] at this
      intro hsyn
      obtain ⟨e', he', hee⟩ := this hsyn
      rw [he']
      exact ⟨e', rfl, hee⟩
    | ok v =>
      rw [hr] at this
      obtain ⟨v', hv', hvv⟩ := this
      rw [hv']
      simp only
      split
      · exact ⟨_, rfl, rfl, .cons hvv (hv.drop _)⟩
      · intro h; simp [ParseErr.isSyntax] at h

theorem step_sim (T : Tables) {c c' : Cfg} {look look' : Option Tok} (hc : CfgSim c c')
    (hl : LookSim look look') : StepRel (step T c look) (step T c' look') := by
  rw [step_eq, step_eq, ← hc.1, lookName_sim hl]
  cases T.act? (c.states.headD 0) (lookName look) with
  | none =>
    cases look <;> cases look' <;> simp only [LookSim] at hl
    · exact fun _ => ⟨_, rfl, trivial⟩
    · exact fun _ => ⟨_, rfl, toVal_errText hl⟩
  | some a =>
    simp only
    split
    · cases look <;> cases look' <;> simp only [LookSim] at hl
      · intro h; simp [ParseErr.isSyntax] at h
      · exact ⟨_, rfl, by simp [hc.1], .cons (toVal_sim hl) hc.2⟩
    · split
      · exact reduceBy_sim T _ hc
      · obtain ⟨st, vals⟩ := c
        obtain ⟨st', vals'⟩ := c'
        obtain ⟨_, hv⟩ := hc
        simp only at hv ⊢
        cases hv with
        | nil => intro h; simp [ParseErr.isSyntax] at h
        | cons h1 _ => exact ⟨_, rfl, h1⟩

/-! ### the loop -/

/-- **lock-step**: two runs with the same tables and fuel, from configurations in lock-step, over
token lists with the same kinds and texts, the second without pending lexer error, have simulating
outcomes -/
theorem runLoop_sim (T : Tables) : ∀ (fuel : Nat) (c c' : Cfg) (toks toks' : List Tok)
    (lerr : Option LexErr), CfgSim c c' → toks.map tokKey = toks'.map tokKey →
    ResRel (runLoop T fuel c toks lerr) (runLoop T fuel c' toks' none) := by
  intro fuel
  induction fuel with
  | zero => intro c c' toks toks' lerr _ _ h; simp [ParseErr.isSyntax] at h
  | succ fuel ih =>
    intro c c' toks toks' lerr hc hk
    rw [runLoop_succ_eq, runLoop_succ_eq]
    split
    · intro h; simp [ParseErr.isSyntax] at h
    · rw [if_neg (by simp)]
      have hs := step_sim T hc (lookSim_head hk)
      have hk' : toks.tail.map tokKey = toks'.tail.map tokKey := by
        simpa using congrArg List.tail hk
      cases h1 : step T c toks.head? with
      | shift c1 =>
        rw [h1] at hs
        obtain ⟨c2, h2, hcc⟩ := hs
        rw [h2]
        exact ih _ _ _ _ _ hcc hk'
      | reduce c1 =>
        rw [h1] at hs
        obtain ⟨c2, h2, hcc⟩ := hs
        rw [h2]
        exact ih _ _ _ _ _ hcc hk
      | accept v =>
        rw [h1] at hs
        obtain ⟨v', h2, hvv⟩ := hs
        rw [h2]
        exact ⟨v', rfl, hvv⟩
      | error e =>
        rw [h1] at hs
        intro hsyn
        obtain ⟨e', h2, hee⟩ := hs hsyn
        rw [h2]
        exact ⟨e', rfl, hee⟩

end Luqum
