/-
  Luqum.Lemmas.Kf1Tok — known finding KF1 on the token level: `dropColonBlanks` removes exactly
  the tails of the tokens directly followed by a `:` token; what it removes is blank, the rest is
  kept in place (sublist, count, token keys), and nothing is removed iff `noBlankBeforeColon`.
-/
import Luqum.Lemmas.Kf1Flat
import Luqum.Lemmas.RelexPieces
import Luqum.Lemmas.Lockstep
import Luqum.Props.C01

namespace Luqum
open Luqum.Props.C01 (noBlankBeforeColon)

/-- total length of the tails that `dropColonBlanks` empties -/
def droppedLen : List Tok → Nat
  | [] => 0
  | t :: r => (if nextIsColon r then t.tail.length else 0) + droppedLen r

theorem dropColonBlanks_length : ∀ (toks : List Tok),
    (tflats (dropColonBlanks toks)).length + droppedLen toks = (tflats toks).length
  | [] => rfl
  | t :: r => by
    have ih := dropColonBlanks_length r
    simp only [dropColonBlanks, droppedLen, tflats_cons, List.length_append]
    cases nextIsColon r <;> simp [Tok.flat] <;> omega

theorem dropColonBlanks_sublist : ∀ (toks : List Tok),
    (tflats (dropColonBlanks toks)).Sublist (tflats toks)
  | [] => List.Sublist.refl _
  | t :: r => by
    simp only [dropColonBlanks, tflats_cons]
    refine List.Sublist.append ?_ (dropColonBlanks_sublist r)
    cases nextIsColon r
    · exact List.Sublist.refl _
    · simp only [if_true, Tok.flat, List.append_nil]
      exact List.sublist_append_left _ _

theorem dropColonBlanks_keys : ∀ (toks : List Tok),
    (dropColonBlanks toks).map tokKey = toks.map tokKey
  | [] => rfl
  | t :: r => by
    simp only [dropColonBlanks, List.map_cons, dropColonBlanks_keys r]
    cases nextIsColon r <;> rfl

theorem dropColonBlanks_length_eq (toks : List Tok) : (dropColonBlanks toks).length = toks.length := by
  simpa using congrArg List.length (dropColonBlanks_keys toks)

theorem droppedLen_eq_zero_iff : ∀ (toks : List Tok),
    droppedLen toks = 0 ↔ noBlankBeforeColon toks = true
  | [] => by simp [droppedLen, noBlankBeforeColon]
  | [t] => by simp [droppedLen, noBlankBeforeColon, nextIsColon]
  | t :: c :: r => by
    have ih := droppedLen_eq_zero_iff (c :: r)
    simp only [droppedLen, nextIsColon, noBlankBeforeColon, Bool.and_eq_true, Bool.or_eq_true,
      bne_iff_ne, ne_eq, List.isEmpty_iff, ← ih] at ih ⊢
    by_cases hc : c.kind = .column
    · simp [hc, Nat.add_eq_zero_iff, List.length_eq_zero_iff]
    · simp [hc]

theorem dropColonBlanks_of_zero : ∀ (toks : List Tok), droppedLen toks = 0 → dropColonBlanks toks = toks
  | [], _ => rfl
  | t :: r, h => by
    simp only [droppedLen, Nat.add_eq_zero_iff] at h
    simp only [dropColonBlanks, dropColonBlanks_of_zero r h.2]
    cases hn : nextIsColon r
    · rfl
    · simp only [hn, if_true, List.length_eq_zero_iff] at h
      obtain ⟨kind, text, pos, head, tail⟩ := t
      simp only at h
      simp [h.1]

/-- nothing is dropped iff no token directly followed by a `:` token has a tail -/
theorem tflats_dropColonBlanks_eq_iff (toks : List Tok) :
    tflats (dropColonBlanks toks) = tflats toks ↔ noBlankBeforeColon toks = true := by
  rw [← droppedLen_eq_zero_iff]
  constructor
  · intro h
    have := dropColonBlanks_length toks
    rw [h] at this
    omega
  · intro h; rw [dropColonBlanks_of_zero toks h]

/-! ### what is dropped is blank -/

theorem toksOf_tails_blank (trail : Str) (htr : isBlank trail = true) : ∀ (ps : List Piece)
    (pos : Nat) (first : Bool), (∀ p ∈ ps, isBlank p.sep = true) →
    ∀ t ∈ toksOf pos first ps trail, isBlank t.tail = true
  | [], _, _, _, t, ht => by simp [toksOf] at ht
  | p :: ps, pos, first, hb, t, ht => by
    simp only [toksOf, List.mem_cons] at ht
    rcases ht with rfl | ht
    · cases ps with
      | nil => exact htr
      | cons q qs => exact hb q (by simp)
    · exact toksOf_tails_blank trail htr ps _ _ (fun q hq => hb q (by simp [hq])) t ht

/-- the tails the lexer attaches are blank -/
theorem lex_tails_blank {s : Str} {toks : List Tok} (h : lex s = (toks, none)) :
    ∀ t ∈ toks, isBlank t.tail = true := by
  obtain ⟨ps, trail, hs, hok⟩ := lex_decomp s (by rw [h])
  have hl := lex_spell ps trail hok
  rw [← hs, h] at hl
  simp only [Prod.mk.injEq, and_true] at hl
  rw [hl]
  exact toksOf_tails_blank trail hok.blankTrail ps 0 true hok.blank

theorem filter_blank {w : Str} (h : isBlank w = true) : w.filter (fun c => !isSpace c) = [] := by
  simp only [isBlank, List.all_eq_true] at h
  simp only [List.filter_eq_nil_iff, Bool.not_eq_true', Bool.not_eq_false]
  exact h

/-- the characters that are not blank are all kept -/
theorem dropColonBlanks_filter : ∀ (toks : List Tok), (∀ t ∈ toks, isBlank t.tail = true) →
    (tflats (dropColonBlanks toks)).filter (fun c => !isSpace c)
      = (tflats toks).filter (fun c => !isSpace c)
  | [], _ => rfl
  | t :: r, h => by
    have ih := dropColonBlanks_filter r (fun x hx => h x (by simp [hx]))
    simp only [dropColonBlanks, tflats_cons, List.filter_append, ih]
    cases nextIsColon r
    · rfl
    · simp [Tok.flat, filter_blank (h t (by simp))]

end Luqum
