/-
  Luqum.Lemmas.TransChain — the chain condition of a printed tree, computed on the tree
  (`Tree.chainAt s t R`: every token of `t`, printed in style `s` and followed by the text `R`, is
  followed by a text that does not change how it lexes), and the preorder `Rel R' R` on following
  texts (`R'` is at least as good a follower as `R`, in every left context).

  These are the tools for the properties about printing a *transformed* tree and parsing it again
  (C11): a transformer that only inserts blanks, or replaces a token by one that nothing glues to,
  makes every following text better.
-/
import Luqum.Lemmas.ReparseBare
import Luqum.Lemmas.ReparseGlue

namespace Luqum

/-! ### following texts -/

/-- `r'` is at least as good a follower as `r`: whenever a token followed by `a ++ r` keeps its
lexing, so it does followed by `a ++ r'` -/
def Rel (r' r : Str) : Prop :=
  ∀ (a : Str) (k : TokK) (x : Str), followOK k x (a ++ r) = true → followOK k x (a ++ r') = true

theorem Rel.refl (r : Str) : Rel r r := fun _ _ _ h => h

theorem Rel.trans {r₁ r₂ r₃ : Str} (h₁ : Rel r₁ r₂) (h₂ : Rel r₂ r₃) : Rel r₁ r₃ :=
  fun a k x h => h₁ a k x (h₂ a k x h)

/-- a common prefix -/
theorem Rel.pre {r' r : Str} (h : Rel r' r) (b : Str) : Rel (b ++ r') (b ++ r) := by
  intro a k x hf
  rw [← List.append_assoc] at hf ⊢
  exact h (a ++ b) k x hf

theorem Rel.cons {r' r : Str} (h : Rel r' r) (c : Char) : Rel (c :: r') (c :: r) := h.pre [c]

theorem Rel.apply {r' r : Str} (h : Rel r' r) {k : TokK} {x : Str} (hf : followOK k x r = true) :
    followOK k x r' = true := h [] k x hf

/-- a character after which nothing is glued: every token followed by it keeps its lexing, and it is
not a digit -/
def Stop (c : Char) : Prop := (∀ k x r, followOK k x (c :: r) = true) ∧ isDigitU c = false

theorem stop_blank {c : Char} (h : isSpace c = true) : Stop c :=
  ⟨fun k x r => followOK_blank k x r h, space_not_digit h⟩

theorem stop_of_excl {c : Char} (h1 : isTermNext c = false) (h2 : c ≠ '\\') (h3 : c ≠ ':')
    (h4 : c ≠ '=') (h5 : isNumChar c = false) (h6 : isDigitU c = false) : Stop c := by
  refine ⟨fun k x r => ?_, h6⟩
  cases k <;> simp [followOK, termStops, h1, h2, h3, h4, h5]

theorem stop_rbracket : Stop ']' := stop_of_excl (by decide +kernel) (by decide) (by decide) (by decide)
  (by decide) (by decide +kernel)
theorem stop_rbrace : Stop '}' := stop_of_excl (by decide +kernel) (by decide) (by decide) (by decide)
  (by decide) (by decide +kernel)
theorem stop_lbracket : Stop '[' := stop_of_excl (by decide +kernel) (by decide) (by decide) (by decide)
  (by decide) (by decide +kernel)
theorem stop_lbrace : Stop '{' := stop_of_excl (by decide +kernel) (by decide) (by decide) (by decide)
  (by decide) (by decide +kernel)
theorem stop_rparen : Stop ')' := stop_of_excl (by decide +kernel) (by decide) (by decide) (by decide)
  (by decide) (by decide +kernel)

/-- a text that is empty or starts with a `Stop` character -/
def StopStart (r : Str) : Prop := r = [] ∨ ∃ c r', r = c :: r' ∧ Stop c

theorem startsDD_stop {a r' r : Str} (hs : StopStart r') (h : startsDD (a ++ r') = true) :
    startsDD (a ++ r) = true := by
  match a with
  | [] =>
    rcases hs with rfl | ⟨c, r'', rfl, hc⟩
    · simp [startsDD] at h
    · cases r'' <;> simp [startsDD, hc.2] at h
  | [d] =>
    rcases hs with rfl | ⟨c, r'', rfl, hc⟩
    · simp [startsDD] at h
    · simp [startsDD, hc.2] at h
  | d1 :: d2 :: a' => simpa [startsDD] using h

/-- **a text that starts with a `Stop` character (or is empty) is a better follower than any text** -/
theorem rel_of_stop {r' : Str} (hs : StopStart r') (r : Str) : Rel r' r := by
  intro a k x hf
  cases a with
  | nil =>
    rcases hs with rfl | ⟨c, r'', rfl, hc⟩
    · exact followOK_nil k x
    · exact hc.1 k x r''
  | cons c0 a' =>
    have hterm : termStops x.reverse (c0 :: a' ++ r) = true → termStops x.reverse (c0 :: a' ++ r') = true := by
      simp only [List.cons_append, termStops, Bool.and_eq_true, Bool.not_eq_true', bne_iff_ne, ne_eq,
        Bool.and_eq_false_iff]
      rintro ⟨h1, h2⟩
      refine ⟨h1, ?_⟩
      rcases h2 with h2 | h2
      · exact Or.inl h2
      · right
        cases hd : startsDD (a' ++ r') with
        | false => rfl
        | true => rw [startsDD_stop hs hd] at h2; cases h2
    cases k <;> first | exact hterm hf | rfl | exact hf

theorem stopStart_blank {w : Str} (hw : isBlank w = true) (r : Str) (hne : w ≠ []) :
    StopStart (w ++ r) := by
  cases w with
  | nil => exact absurd rfl hne
  | cons c w' =>
    rw [isBlank_cons, Bool.and_eq_true] at hw
    exact Or.inr ⟨c, w' ++ r, rfl, stop_blank hw.1⟩

/-- a text that starts with a blank is a better follower than any text -/
theorem rel_blank {w : Str} (hw : isBlank w = true) (hne : w ≠ []) (r' r : Str) : Rel (w ++ r') r :=
  rel_of_stop (stopStart_blank hw r' hne) r

/-- a separator may grow: stay as it is, or become any blank that is not empty -/
def Grow (w' w : Str) : Prop := w' = w ∨ (isBlank w' = true ∧ w' ≠ [])

theorem Grow.refl (w : Str) : Grow w w := Or.inl rfl

theorem rel_grow {w' w r' r : Str} (hw : Grow w' w) (h : Rel r' r) : Rel (w' ++ r') (w ++ r) := by
  rcases hw with rfl | ⟨h1, h2⟩
  · exact h.pre _
  · exact rel_blank h1 h2 _ _

/-! ### the chain condition on the tree -/

/-- the token kind of a unary operator -/
def unTok : UnK → TokK
  | .plus => .plus | .not => .not | .prohibit => .minus

/-- the token kind of `<` / `>` -/
def orTok : ORK → TokK
  | .from => .greaterthan | .to => .lessthan

/-- the closing character of a range -/
def clCh (ih : Bool) : Char := if ih then ']' else '}'

/-- what is printed after an operand: the other operands, each after the operator word, then `R` -/
def restStr (s : NumStyle) (k : OpK) (ys : List Tree) (R : Str) : Str :=
  tailJoin k.word (Tree.fulls s ys) ++ R

/-- the operator word (if the operation has one) keeps its lexing when followed by `r` -/
def opFollow (k : OpK) (r : Str) : Bool :=
  match opTok k with
  | some (kk, w) => followOK kk w r
  | none => true

mutual
/-- the chain condition of the tokens of `t` (printed in style `s`) when `R` is printed after the
tree: every token is followed by a text that does not change how it lexes -/
def Tree.chainAt (s : NumStyle) : Tree → Str → Bool
  | .term .word v l, R => followOK (reservedKind v) v (l.tail ++ R)
  | .term .phrase _ _, _ => true
  | .term .regex _ _, _ => true
  | .field n e l, R => followOK .term n (':' :: (e.full s ++ (l.tail ++ R))) && e.chainAt s (l.tail ++ R)
  | .group _ e l, R => e.chainAt s (')' :: (l.tail ++ R))
  | .range a b _ ih l, R =>
      a.chainAt s ("TO".toList ++ (b.full s ++ (clCh ih :: (l.tail ++ R)))) &&
      followOK .to "TO".toList (b.full s ++ (clCh ih :: (l.tail ++ R))) &&
      b.chainAt s (clCh ih :: (l.tail ++ R))
  | .approx _ t n l, R =>
      t.chainAt s ('~' :: (n.text s ++ (l.tail ++ R))) && followOK .approx ('~' :: n.text s) (l.tail ++ R)
  | .boost e n l, R =>
      e.chainAt s ('^' :: (n.text s ++ (l.tail ++ R))) && followOK .boost ('^' :: n.text s) (l.tail ++ R)
  | .op _ [] _, _ => true
  | .op k (x :: xs) l, R =>
      x.chainAt s (restStr s k xs (l.tail ++ R)) && Tree.chainsTail s k xs (l.tail ++ R)
  | .unary k a l, R => followOK (unTok k) k.word (a.full s ++ (l.tail ++ R)) && a.chainAt s (l.tail ++ R)
  | .orange k a inc l, R =>
      followOK (orTok k) (k.word ++ (if inc then ['='] else [])) (a.full s ++ (l.tail ++ R)) &&
      a.chainAt s (l.tail ++ R)
  | .none _, _ => true
/-- the operands after the first one -/
def Tree.chainsTail (s : NumStyle) (k : OpK) : List Tree → Str → Bool
  | [], _ => true
  | y :: r, R =>
      opFollow k (y.full s ++ restStr s k r R) && y.chainAt s (restStr s k r R) &&
      Tree.chainsTail s k r R
end

theorem opFollow_rel {k : OpK} {r' r : Str} (h : Rel r' r) (hf : opFollow k r = true) :
    opFollow k r' = true := by
  unfold opFollow at hf ⊢
  split at hf
  · exact h.apply hf
  · rfl

/-! ### the bridge to `chainOK` of the pieces -/

theorem chainOK_append (tr : Str) : ∀ (A B : List Piece),
    chainOK (A ++ B) tr = (chainOK A (spell B tr) && chainOK B tr)
  | [], B => by simp [chainOK]
  | p :: A, B => by
    simp only [List.cons_append, chainOK, chainOK_append tr A B, Bool.and_assoc]
    congr 2
    rw [spell_append, spell_trail A (spell B tr)]

theorem chainOK_addPre (P : Str) (R : List Piece × Str) (X : Str) :
    chainOK (addPre P R).1 ((addPre P R).2 ++ X) = chainOK R.1 (R.2 ++ X) := by
  obtain ⟨ps, tr⟩ := R
  cases ps with
  | nil => rfl
  | cons p ps => rfl

theorem Tree.pcs_spell_R (s : NumStyle) (t : Tree) (pre R : Str) :
    spell (t.pcs s pre).1 ((t.pcs s pre).2 ++ R) = pre ++ (t.full s ++ R) := by
  rw [spell_trail, ← List.append_assoc, Tree.pcs_spell s t pre, List.append_assoc]

theorem Tree.pcsTail_spell_R (s : NumStyle) (k : OpK) (ys : List Tree) (pre R : Str) :
    spell (Tree.pcsTail s k ys pre).1 ((Tree.pcsTail s k ys pre).2 ++ R) = pre ++ restStr s k ys R := by
  rw [spell_trail, ← List.append_assoc, Tree.pcsTail_spell s k ys pre, List.append_assoc]
  rfl

theorem restStr_cons (s : NumStyle) (k : OpK) (y : Tree) (r : List Tree) (R : Str) :
    restStr s k (y :: r) R = k.word ++ (y.full s ++ restStr s k r R) := by
  simp [restStr, Tree.fulls, tailJoin]

theorem restStr_nil (s : NumStyle) (k : OpK) (R : Str) : restStr s k [] R = R := rfl

theorem followOK_any {k : TokK} (hk : k = .column ∨ k = .lparen ∨ k = .rparen ∨ k = .lbracket ∨
    k = .rbracket ∨ k = .phrase ∨ k = .regex ∨ k = .plus ∨ k = .minus) (x r : Str) :
    followOK k x r = true := by
  rcases hk with rfl | rfl | rfl | rfl | rfl | rfl | rfl | rfl | rfl <;> rfl

mutual
/-- **the chain condition of the pieces of a tree is `chainAt`** -/
theorem Tree.pcs_chain (s : NumStyle) : ∀ (t : Tree) (pre R : Str),
    chainOK (t.pcs s pre).1 ((t.pcs s pre).2 ++ R) = t.chainAt s R
  | .term k v l, pre, R => by
    cases k <;> simp [Tree.pcs, Tree.chainAt, chainOK, spell, followOK]
  | .field n e l, pre, R => by
    have ih := Tree.pcs_chain s e [] (l.tail ++ R)
    have hs := Tree.pcs_spell_R s e [] (l.tail ++ R)
    simp only [List.nil_append] at hs
    simp only [Tree.pcs, Tree.chainAt, chainOK, spell, List.append_assoc, List.nil_append, hs, ih,
      List.cons_append]
    simp [followOK]
  | .group k e l, pre, R => by
    have ih := Tree.pcs_chain s e [] (')' :: (l.tail ++ R))
    simp only [Tree.pcs, Tree.chainAt, chainOK, chainOK_append, spell, List.cons_append,
      List.append_assoc, List.nil_append]
    rw [ih]
    simp [followOK]
  | .range a b il ih l, pre, R => by
    have iha := Tree.pcs_chain s a [] ("TO".toList ++ (b.full s ++ (clCh ih :: (l.tail ++ R))))
    have ihb := Tree.pcs_chain s b [] (clCh ih :: (l.tail ++ R))
    have hsb := Tree.pcs_spell_R s b [] (clCh ih :: (l.tail ++ R))
    simp only [List.nil_append] at hsb
    simp only [Tree.pcs, Tree.chainAt, chainOK, chainOK_append, spell, List.cons_append,
      List.append_assoc, List.nil_append, spell_append]
    have hcl : (if ih = true then ']' else '}') = clCh ih := rfl
    rw [hcl]
    have e1 : spell (b.pcs s []).1 [] ++ ((b.pcs s []).2 ++ clCh ih :: (l.tail ++ R))
        = b.full s ++ (clCh ih :: (l.tail ++ R)) := by
      rw [← hsb, spell_trail (b.pcs s []).1 ((b.pcs s []).2 ++ _)]
    rw [e1, iha, ihb]
    simp [followOK, Bool.and_assoc]
  | .approx k t n l, pre, R => by
    have ih := Tree.pcs_chain s t (pre ++ l.head) ('~' :: (n.text s ++ (l.tail ++ R)))
    simp only [Tree.pcs, Tree.chainAt, chainOK, chainOK_append, spell, List.cons_append,
      List.append_assoc]
    rw [ih]
    simp
  | .boost e n l, pre, R => by
    have ih := Tree.pcs_chain s e (pre ++ l.head) ('^' :: (n.text s ++ (l.tail ++ R)))
    simp only [Tree.pcs, Tree.chainAt, chainOK, chainOK_append, spell, List.cons_append,
      List.append_assoc]
    rw [ih]
    simp
  | .op k [] l, pre, R => by simp [Tree.pcs, Tree.chainAt, chainOK]
  | .op k (x :: xs) l, pre, R => by
    have hs := Tree.pcsTail_spell_R s k xs (x.pcs s (pre ++ l.head)).2 (l.tail ++ R)
    have ih1 := Tree.pcs_chain s x (pre ++ l.head) (restStr s k xs (l.tail ++ R))
    have ih2 := Tree.pcsTail_chain s k xs (x.pcs s (pre ++ l.head)).2 (l.tail ++ R)
    simp only [Tree.pcs, Tree.chainAt, chainOK_append, List.append_assoc]
    rw [hs, ih1, ih2]
  | .unary k a l, pre, R => by
    have ih := Tree.pcs_chain s a [] (l.tail ++ R)
    have hs := Tree.pcs_spell_R s a [] (l.tail ++ R)
    simp only [List.nil_append] at hs
    cases k <;>
      simp only [Tree.pcs, Tree.chainAt, chainOK, List.append_assoc, hs, ih, unTok, UnK.word]
  | .orange k a inc l, pre, R => by
    have ih := Tree.pcs_chain s a [] (l.tail ++ R)
    have hs := Tree.pcs_spell_R s a [] (l.tail ++ R)
    simp only [List.nil_append] at hs
    cases k <;> cases inc <;>
      simp only [Tree.pcs, Tree.chainAt, chainOK, List.append_assoc, hs, ih, orTok, ORK.word] <;> rfl
  | .none l, pre, R => by simp [Tree.pcs, Tree.chainAt, chainOK]
theorem Tree.pcsTail_chain (s : NumStyle) (k : OpK) : ∀ (ys : List Tree) (pre R : Str),
    chainOK (Tree.pcsTail s k ys pre).1 ((Tree.pcsTail s k ys pre).2 ++ R) = Tree.chainsTail s k ys R
  | [], pre, R => by simp [Tree.pcsTail, Tree.chainsTail, chainOK]
  | y :: r, pre, R => by
    rcases opTok_word k with ⟨h1, _, _⟩ | ⟨kk, w, h1, _, _⟩
    · have hs := Tree.pcsTail_spell_R s k r (y.pcs s pre).2 R
      have ih1 := Tree.pcs_chain s y pre (restStr s k r R)
      have ih2 := Tree.pcsTail_chain s k r (y.pcs s pre).2 R
      simp only [Tree.pcsTail, h1, Tree.chainsTail, opFollow, chainOK_append, Bool.true_and]
      rw [hs, ih1, ih2]
    · have hs := Tree.pcsTail_spell_R s k r (y.pcs s []).2 R
      have hy := Tree.pcs_spell_R s y [] (restStr s k r R)
      have ih1 := Tree.pcs_chain s y [] (restStr s k r R)
      have ih2 := Tree.pcsTail_chain s k r (y.pcs s []).2 R
      simp only [List.nil_append] at hy
      simp only [Tree.pcsTail, h1, Tree.chainsTail, opFollow, chainOK, chainOK_append]
      rw [hs, ih1, ih2, hy]
end

/-- the chain condition of a tree: that of its pieces, with nothing printed after the tree -/
theorem Tree.chain_iff (s : NumStyle) (t : Tree) :
    chainOK (t.pcs s []).1 (t.pcs s []).2 = t.chainAt s [] := by
  have := Tree.pcs_chain s t [] []
  rwa [List.append_nil] at this

/-! ### a better follower -/

theorem restStr_rel (s : NumStyle) (k : OpK) (ys : List Tree) {R' R : Str} (h : Rel R' R) :
    Rel (restStr s k ys R') (restStr s k ys R) := h.pre _

mutual
/-- the chain condition of a tree passes to a better follower -/
theorem Tree.chainAt_mono (s : NumStyle) : ∀ (t : Tree) (R' R : Str), Rel R' R →
    t.chainAt s R = true → t.chainAt s R' = true
  | .term k v l, R', R, hR, hc => by
    cases k
    · exact (hR.pre _).apply hc
    · rfl
    · rfl
  | .none _, _, _, _, _ => rfl
  | .field n e l, R', R, hR, hc => by
    simp only [Tree.chainAt, Bool.and_eq_true] at hc ⊢
    exact ⟨(((hR.pre _).pre _).cons ':').apply hc.1, Tree.chainAt_mono s e _ _ (hR.pre _) hc.2⟩
  | .group k e l, R', R, hR, hc => by
    simp only [Tree.chainAt] at hc ⊢
    exact Tree.chainAt_mono s e _ _ ((hR.pre _).cons ')') hc
  | .range a b il ih l, R', R, hR, hc => by
    simp only [Tree.chainAt, Bool.and_eq_true] at hc ⊢
    have hT := (hR.pre l.tail).cons (clCh ih)
    exact ⟨⟨Tree.chainAt_mono s a _ _ ((hT.pre _).pre _) hc.1.1, (hT.pre _).apply hc.1.2⟩,
      Tree.chainAt_mono s b _ _ hT hc.2⟩
  | .approx k t n l, R', R, hR, hc => by
    simp only [Tree.chainAt, Bool.and_eq_true] at hc ⊢
    exact ⟨Tree.chainAt_mono s t _ _ (((hR.pre _).pre _).cons '~') hc.1, (hR.pre _).apply hc.2⟩
  | .boost e n l, R', R, hR, hc => by
    simp only [Tree.chainAt, Bool.and_eq_true] at hc ⊢
    exact ⟨Tree.chainAt_mono s e _ _ (((hR.pre _).pre _).cons '^') hc.1, (hR.pre _).apply hc.2⟩
  | .op k [] l, _, _, _, _ => rfl
  | .op k (x :: xs) l, R', R, hR, hc => by
    simp only [Tree.chainAt, Bool.and_eq_true] at hc ⊢
    exact ⟨Tree.chainAt_mono s x _ _ (restStr_rel s k xs (hR.pre _)) hc.1,
      Tree.chainsTail_mono s k xs _ _ (hR.pre _) hc.2⟩
  | .unary k a l, R', R, hR, hc => by
    simp only [Tree.chainAt, Bool.and_eq_true] at hc ⊢
    exact ⟨((hR.pre _).pre _).apply hc.1, Tree.chainAt_mono s a _ _ (hR.pre _) hc.2⟩
  | .orange k a inc l, R', R, hR, hc => by
    simp only [Tree.chainAt, Bool.and_eq_true] at hc ⊢
    exact ⟨((hR.pre _).pre _).apply hc.1, Tree.chainAt_mono s a _ _ (hR.pre _) hc.2⟩
theorem Tree.chainsTail_mono (s : NumStyle) (k : OpK) : ∀ (ys : List Tree) (R' R : Str), Rel R' R →
    Tree.chainsTail s k ys R = true → Tree.chainsTail s k ys R' = true
  | [], _, _, _, _ => rfl
  | y :: r, R', R, hR, hc => by
    simp only [Tree.chainsTail, Bool.and_eq_true] at hc ⊢
    have hr := restStr_rel s k r hR
    exact ⟨⟨opFollow_rel (hr.pre _) hc.1.1, Tree.chainAt_mono s y _ _ hr hc.1.2⟩,
      Tree.chainsTail_mono s k r _ _ hR hc.2⟩
end

/-! ### the adjacency condition `gluesOK` and `chainAt` -/

/-- the chain condition, computed on the tree, gives the adjacency condition of the pieces -/
theorem glues_of_chainAt (s : NumStyle) (u : Tree) (ht : validTexts u = true)
    (hn : validNums s u = true) (h : u.chainAt s [] = true) :
    gluesOK (u.pcs s []).1 (u.pcs s []).2 = true := by
  refine gluesOK_of_chainOK _ _ (fun p hp => ?_) (by rw [Tree.chain_iff]; exact h)
  obtain ⟨c, xs, hx, _⟩ := validTok_cons (Tree.pcs_valid s u [] ht hn p hp)
  rw [hx]; simp

/-- and conversely, for a tree with a blank layout -/
theorem chainAt_of_glues (s : NumStyle) (u : Tree) (hb : u.blankLayout = true)
    (ht : validTexts u = true) (hn : validNums s u = true)
    (hg : gluesOK (u.pcs s []).1 (u.pcs s []).2 = true) : u.chainAt s [] = true := by
  rw [← Tree.chain_iff]
  obtain ⟨h1, h2⟩ := Tree.pcs_blank s u [] rfl hb
  exact chainOK_of_gluesOK _ _ h2 h1 (Tree.pcs_valid s u [] ht hn) hg

end Luqum
