/-
  Luqum.Lemmas.PropagateDefs — the definitions used in the statement of property C16 (match
  propagation computes the boolean value of every sub-expression): boolean semantics of a query
  (`evalT`), the term covered by a named element (`cover`, `coverVal`), the hypotheses on the tree
  (`good`) and the set of nodes `MatchingPropagator._propagate` visits (`visible`).
  Re-exported by `Luqum.Props.C16`; the lemmas about them are in `Luqum.Lemmas.Propagate`.
-/
import Luqum.Model.Naming
import Luqum.Lemmas.NamedPaths

namespace Luqum.Lemmas.Propagate
open Luqum

/-! ### the three class tests of `MatchingPropagator`, as pattern matching -/

/-- the node is treated as a disjunction: `OrOperation`, and `UnknownOperation` when the default
operation is OR -/
def isOrNode (defaultOr : Bool) : Tree → Bool
  | .op .or _ _ => true
  | .op .unk _ _ => defaultOr
  | _ => false

/-- the node is a negation: `Not` or `Prohibit` -/
def isNeg : Tree → Bool
  | .unary .not _ _ | .unary .prohibit _ _ => true
  | _ => false

/-- propagation does not descend below the node: `Range`, `Fuzzy`, `Proximity` -/
def isAtomic : Tree → Bool
  | .range .. | .approx .. => true
  | _ => false

/-- term-like: `Term`, `Range`, `BaseApprox` (the nodes whose status comes from a name) -/
def isTermLike : Tree → Bool
  | .term .. | .range .. | .approx .. => true
  | _ => false

/-! ### boolean semantics -/

mutual
/-- Boolean value of the sub-expression `t` located at `path`; `τ` gives the truth of the
term-like nodes (by their path). AND = all, OR = any, implicit operation = the default operation,
`NOT` / `-` = negation, every other construct = the value of its operand.
(`BoolOperation` and `NoneItem` are excluded by the hypothesis `good`; the value given here is
what the implementation computes.) -/
def evalT (defaultOr : Bool) (τ : List Nat → Bool) (path : List Nat) : Tree → Bool
  | .term .. => τ path
  | .range .. => τ path
  | .approx .. => τ path
  | .none _ => τ path
  | .op .and xs _ => (evalTs defaultOr τ path 0 xs).all id
  | .op .or xs _ => (evalTs defaultOr τ path 0 xs).any id
  | .op .unk xs _ =>
      if defaultOr then (evalTs defaultOr τ path 0 xs).any id
      else (evalTs defaultOr τ path 0 xs).all id
  | .op .bool xs _ => (evalTs defaultOr τ path 0 xs).all id
  | .unary .not a _ => !evalT defaultOr τ (path ++ [0]) a
  | .unary .prohibit a _ => !evalT defaultOr τ (path ++ [0]) a
  | .unary .plus a _ => evalT defaultOr τ (path ++ [0]) a
  | .field _ a _ => evalT defaultOr τ (path ++ [0]) a
  | .group _ a _ => evalT defaultOr τ (path ++ [0]) a
  | .boost a _ _ => evalT defaultOr τ (path ++ [0]) a
  | .orange _ a _ _ => evalT defaultOr τ (path ++ [0]) a
/-- the values of the operands `xs` (the first one has index `i`) of the operation at `path` -/
def evalTs (defaultOr : Bool) (τ : List Nat → Bool) (path : List Nat) (i : Nat) :
    List Tree → List Bool
  | [] => []
  | x :: r => evalT defaultOr τ (path ++ [i]) x :: evalTs defaultOr τ path (i + 1) r
end

/-! ### the term covered by an element -/

/-- Relative path of the term-like node covered by the element `t`: descend through the
single-operand non-operation nodes; `none` when an operation (or `NoneItem`) is met first. -/
def cover : Tree → Option (List Nat)
  | .term .. => some []
  | .range .. => some []
  | .approx .. => some []
  | .op .. => none
  | .none _ => none
  | .field _ e _ => (cover e).map (0 :: ·)
  | .group _ e _ => (cover e).map (0 :: ·)
  | .boost e _ _ => (cover e).map (0 :: ·)
  | .unary _ e _ => (cover e).map (0 :: ·)
  | .orange _ e _ _ => (cover e).map (0 :: ·)

/-- no negation on the chain from the root of `t` (inclusive) to the term it covers (vacuous when
it covers none) -/
def negFree : Tree → Bool
  | .unary .not a _ => (cover a).isNone
  | .unary .prohibit a _ => (cover a).isNone
  | .unary .plus e _ => negFree e
  | .field _ e _ => negFree e
  | .group _ e _ => negFree e
  | .boost e _ _ => negFree e
  | .orange _ e _ _ => negFree e
  | .term .. | .range .. | .approx .. | .op .. | .none _ => true

/-- contains no operation at all, operands or not (required of range bounds and of the operand of
a fuzzy / proximity; `NoneItem` is allowed there, these parts are never visited) -/
def opFree : Tree → Bool
  | .op .. => false
  | .term .. => true
  | .none _ => true
  | .range a b _ _ _ => opFree a && opFree b
  | .approx _ e _ _ => opFree e
  | .field _ e _ => opFree e
  | .group _ e _ => opFree e
  | .boost e _ _ => opFree e
  | .unary _ e _ => opFree e
  | .orange _ e _ _ => opFree e

mutual
/-- **The hypotheses on the tree**: no `BoolOperation`, no operation without operands, no
`NoneItem` (outside range bounds / approx operands), no operation inside a `Range` / `BaseApprox`,
and no negation STRICTLY between a named element and the term it covers.

The flag `below` tells that the node is strictly below a named element on its chain of
single-operand nodes (then a negation node covering a term is forbidden); the named elements are
the operands of the operations, and the root.

Why each is needed (counterexamples of the conclusion of `propagate_correct` otherwise):
* negation below a named element: `(NOT a) OR b` with a group around `NOT a`: the group is named,
  it covers `a`; when `a` matches the group is reported matching, although its value is false;
* operation inside a range: `t = .range (.op .and [a, b]) c`: `named t = [[0,0],[0,1]]`, the root is
  term-like but neither it nor an ancestor is named, `_status_from_parent` answers false whatever
  `τ []` is;
* operation without operand, `NoneItem`: not term-like, yet their status is the inherited one
  (`AND` of nothing is true, the inherited status of a named operation is false).
`BoolOperation` is excluded because it has no all / any meaning (the implementation treats it as a
conjunction, and so does `evalT`; the proof does not use its exclusion). -/
def good (below : Bool) : Tree → Bool
  | .term .. => true
  | .range a b _ _ _ => opFree a && opFree b
  | .approx _ e _ _ => opFree e
  | .op k xs _ => k != .bool && !xs.isEmpty && goods xs
  | .unary .not a _ => (if below then (cover a).isNone else true) && good true a
  | .unary .prohibit a _ => (if below then (cover a).isNone else true) && good true a
  | .unary .plus a _ => good true a
  | .field _ e _ => good true e
  | .group _ e _ => good true e
  | .boost e _ _ => good true e
  | .orange _ e _ _ => good true e
  | .none _ => false
/-- the operands of an operation are named elements: `below := false` -/
def goods : List Tree → Bool
  | [] => true
  | x :: r => good false x && goods r
end

/-- `p` is (the path of) a node of `t` not strictly inside a `Range` / `BaseApprox` — so it is
visited by `_propagate` (validity of the path is part of it) -/
def visible : Tree → List Nat → Bool
  | _, [] => true
  | t, i :: r => !isAtomic t && match t.children[i]? with
    | some c => visible c r
    | none => false

/-- truth of the term covered by the element at `p` (false when it covers none) -/
def coverVal (τ : List Nat → Bool) (t : Tree) (p : List Nat) : Bool :=
  match (t.at? p).bind cover with
  | some c => τ (p ++ c)
  | none => false

/-! ### named elements which cover an operation (a parenthesised operand, say)

Such an element has no term of its own. The search engine reports its name when the clause built for
the operation matched; `matching_from_names` then puts its path among the matching ones. -/

/-- Relative path of the operation covered by the element `t`: descend through the single-operand
nodes; `none` when a term-like node (or `NoneItem`) is met first. -/
def coverOp : Tree → Option (List Nat)
  | .op .. => some []
  | .term .. => none
  | .range .. => none
  | .approx .. => none
  | .none _ => none
  | .field _ e _ => (coverOp e).map (0 :: ·)
  | .group _ e _ => (coverOp e).map (0 :: ·)
  | .boost e _ _ => (coverOp e).map (0 :: ·)
  | .unary _ e _ => (coverOp e).map (0 :: ·)
  | .orange _ e _ _ => (coverOp e).map (0 :: ·)

/-- no negation on the chain from the root of `t` (inclusive) down to the operation it covers -/
def negFreeOp : Tree → Bool
  | .unary .not _ _ => false
  | .unary .prohibit _ _ => false
  | .unary .plus e _ => negFreeOp e
  | .field _ e _ => negFreeOp e
  | .group _ e _ => negFreeOp e
  | .boost e _ _ => negFreeOp e
  | .orange _ e _ _ => negFreeOp e
  | .term .. | .range .. | .approx .. | .op .. | .none _ => true

/-- no negation STRICTLY between the element `t` and the operation it covers (`t` itself may be a
negation) -/
def negFreeBelow : Tree → Bool
  | .unary _ e _ => negFreeOp e
  | .field _ e _ => negFreeOp e
  | .group _ e _ => negFreeOp e
  | .boost e _ _ => negFreeOp e
  | .orange _ e _ _ => negFreeOp e
  | .term .. | .range .. | .approx .. | .op .. | .none _ => true

/-- the value of a node before its own negation is applied: of its operand for `NOT` / `-`, its own
otherwise. This is what the override `path in matching` of `_propagate` stands for. -/
def preVal (d : Bool) (τ : List Nat → Bool) (path : List Nat) (t : Tree) : Bool :=
  if isNeg t then !evalT d τ path t else evalT d τ path t

/-- truth of the operation covered by the element at `p` (false when it covers none) -/
def coverOpVal (d : Bool) (τ : List Nat → Bool) (t : Tree) (p : List Nat) : Bool :=
  match (t.at? p).bind coverOp with
  | some c => match t.at? (p ++ c) with
    | some o => evalT d τ (p ++ c) o
    | none => false
  | none => false

end Luqum.Lemmas.Propagate
