/-
  Luqum.Lemmas.NumDigits — decimal digit strings: `natDigits` (= `Nat.repr`), `digitsToNat`,
  `Dec.ofLiteral` on digit strings.  Core Lean only (the `Nat.toDigits` lemmas are in core).
-/
import Luqum.Model.Parser

namespace Luqum

/-- the character class `[0-9]` (the test used by `intOfLiteral`) -/
def isDigitC (c : Char) : Bool := '0' ≤ c && c ≤ '9'

theorem isDigitC_eq_isDigit (c : Char) : isDigitC c = c.isDigit := by
  simp [isDigitC, Char.isDigit, Char.le_def, UInt32.le_iff_toNat_le]

theorem isDigitC_zero : isDigitC '0' = true := by decide

theorem isDigitC_ne_dot {c : Char} (h : isDigitC c = true) : c ≠ '.' := by
  intro hc; subst hc; revert h; decide

theorem digitVal_le_nine {c : Char} (h : isDigitC c = true) : digitVal c ≤ 9 := by
  simp only [isDigitC, Bool.and_eq_true, decide_eq_true_eq, Char.le_def,
    UInt32.le_iff_toNat_le] at h
  have h2 := h.2
  simp only [digitVal, Char.toNat]
  have : ('9' : Char).val.toNat = 57 := by decide
  have h0 : ('0' : Char).val.toNat = 48 := by decide
  omega

/-! ### `natDigits` -/

theorem natDigits_eq (n : Nat) : natDigits n = Nat.toDigits 10 n := by
  simp [natDigits]

theorem natDigits_ne_nil (n : Nat) : natDigits n ≠ [] := by
  rw [natDigits_eq]; exact Nat.toDigits_ne_nil

theorem natDigits_length_pos (n : Nat) : 0 < (natDigits n).length :=
  List.length_pos_iff.mpr (natDigits_ne_nil n)

theorem natDigits_digit (n : Nat) : ∀ c ∈ natDigits n, isDigitC c = true := by
  intro c hc
  rw [natDigits_eq] at hc
  rw [isDigitC_eq_isDigit]
  exact Nat.isDigit_of_mem_toDigits (by decide) (by decide) hc

theorem natDigits_zero : natDigits 0 = ['0'] := by
  rw [natDigits_eq]; exact Nat.toDigits_zero 10

theorem natDigits_length_le_iff {n k : Nat} (h : 0 < k) :
    (natDigits n).length ≤ k ↔ n < 10 ^ k := by
  rw [natDigits_eq]; exact Nat.length_toDigits_le_iff (by decide) h

theorem lt_pow_natDigits_length (n : Nat) : n < 10 ^ (natDigits n).length :=
  (natDigits_length_le_iff (natDigits_length_pos n)).mp (Nat.le_refl _)

/-- a positive number has at least `10^(len-1)`: no leading zero -/
theorem pow_le_of_natDigits {n : Nat} (hn : n ≠ 0) : 10 ^ ((natDigits n).length - 1) ≤ n := by
  have hp := natDigits_length_pos n
  by_cases h1 : (natDigits n).length = 1
  · rw [h1]; simp; omega
  · apply Nat.le_of_not_lt
    intro hlt
    have := (natDigits_length_le_iff (n := n) (k := (natDigits n).length - 1) (by omega)).mpr hlt
    omega

theorem natDigits_step {n : Nat} (h : 10 ≤ n) :
    natDigits n = natDigits (n / 10) ++ [Nat.digitChar (n % 10)] := by
  rw [natDigits_eq, natDigits_eq]; exact Nat.toDigits_of_base_le (by decide) h

theorem natDigits_lt_ten {n : Nat} (h : n < 10) : natDigits n = [Nat.digitChar n] := by
  rw [natDigits_eq]; exact Nat.toDigits_of_lt_base h

/-- the last printed digit is the digit of `n % 10` -/
theorem natDigits_getLast? (n : Nat) : (natDigits n).getLast? = some (Nat.digitChar (n % 10)) := by
  by_cases h : n < 10
  · rw [natDigits_lt_ten h, Nat.mod_eq_of_lt h]; rfl
  · rw [natDigits_step (by omega)]; simp

/-- the first printed digit of a positive number is not `0` -/
theorem natDigits_head? (n : Nat) (hn : n ≠ 0) : (natDigits n).head? ≠ some '0' := by
  induction n using Nat.strongRecOn with
  | _ n ih =>
    by_cases h : n < 10
    · rw [natDigits_lt_ten h]
      have : n = 1 ∨ n = 2 ∨ n = 3 ∨ n = 4 ∨ n = 5 ∨ n = 6 ∨ n = 7 ∨ n = 8 ∨ n = 9 := by omega
      rcases this with h | h | h | h | h | h | h | h | h <;> subst h <;> decide
    · rw [natDigits_step (by omega)]
      have := ih (n / 10) (by omega) (by omega)
      have hne := natDigits_ne_nil (n / 10)
      cases hd : natDigits (n / 10) with
      | nil => exact absurd hd hne
      | cons a as => rw [hd] at this; simpa using this

/-! ### `digitsToNat` -/

theorem digitsToNat_eq (ds : Str) : digitsToNat ds = Nat.ofDigitChars 10 ds 0 := by
  unfold digitsToNat Nat.ofDigitChars
  generalize 0 = i
  induction ds generalizing i with
  | nil => rfl
  | cons c cs ih => simp only [List.foldl_cons]; rw [ih, Nat.mul_comm]; rfl

theorem digitsToNat_natDigits (n : Nat) : digitsToNat (natDigits n) = n := by
  rw [digitsToNat_eq, natDigits_eq]; exact Nat.ofDigitChars_ten_toDigits

theorem digitsToNat_nil : digitsToNat [] = 0 := rfl

theorem digitsToNat_append (a b : Str) :
    digitsToNat (a ++ b) = digitsToNat a * 10 ^ b.length + digitsToNat b := by
  rw [digitsToNat_eq, digitsToNat_eq, digitsToNat_eq, Nat.ofDigitChars_append,
    Nat.ofDigitChars_eq_ofDigitChars_zero, Nat.mul_comm]

theorem digitsToNat_replicate_zero (k : Nat) : digitsToNat (List.replicate k '0') = 0 := by
  rw [digitsToNat_eq, Nat.ofDigitChars_replicate_zero]; simp

theorem digitsToNat_zeros_append (k : Nat) (b : Str) :
    digitsToNat (List.replicate k '0' ++ b) = digitsToNat b := by
  rw [digitsToNat_append, digitsToNat_replicate_zero]; simp

theorem digitsToNat_append_zeros (a : Str) (k : Nat) :
    digitsToNat (a ++ List.replicate k '0') = digitsToNat a * 10 ^ k := by
  rw [digitsToNat_append, digitsToNat_replicate_zero]; simp

theorem digitsToNat_lt : ∀ (ds : Str), (∀ c ∈ ds, isDigitC c = true) →
    digitsToNat ds < 10 ^ ds.length
  | [], _ => by simp [digitsToNat]
  | c :: cs, h => by
    have ih := digitsToNat_lt cs (fun x hx => h x (List.mem_cons_of_mem _ hx))
    have hc := digitVal_le_nine (h c List.mem_cons_self)
    have e : digitsToNat (c :: cs) = digitsToNat [c] * 10 ^ cs.length + digitsToNat cs :=
      digitsToNat_append [c] cs
    have e1 : digitsToNat [c] = digitVal c := by simp [digitsToNat]
    rw [e, e1, List.length_cons, Nat.pow_succ]
    have := Nat.mul_le_mul_right (10 ^ cs.length) hc
    omega

/-! ### `takeWhile` / `dropWhile` at the first dot -/

theorem takeWhile_noDot (a : Str) (h : ∀ c ∈ a, c ≠ '.') (b : Str) :
    (a ++ '.' :: b).takeWhile (· ≠ '.') = a := by
  induction a with
  | nil => simp
  | cons x xs ih =>
    have hx : x ≠ '.' := h x List.mem_cons_self
    simp only [List.cons_append]
    rw [List.takeWhile_cons_of_pos (by simpa using hx),
      ih (fun c hc => h c (List.mem_cons_of_mem _ hc))]

theorem dropWhile_noDot (a : Str) (h : ∀ c ∈ a, c ≠ '.') (b : Str) :
    (a ++ '.' :: b).dropWhile (· ≠ '.') = '.' :: b := by
  induction a with
  | nil => simp
  | cons x xs ih =>
    have hx : x ≠ '.' := h x List.mem_cons_self
    simp only [List.cons_append]
    rw [List.dropWhile_cons_of_pos (by simpa using hx),
      ih (fun c hc => h c (List.mem_cons_of_mem _ hc))]

theorem takeWhile_noDot_all (a : Str) (h : ∀ c ∈ a, c ≠ '.') :
    a.takeWhile (· ≠ '.') = a := by
  induction a with
  | nil => rfl
  | cons x xs ih =>
    have hx : x ≠ '.' := h x List.mem_cons_self
    rw [List.takeWhile_cons_of_pos (by simpa using hx),
      ih (fun c hc => h c (List.mem_cons_of_mem _ hc))]

theorem dropWhile_noDot_all (a : Str) (h : ∀ c ∈ a, c ≠ '.') :
    a.dropWhile (· ≠ '.') = [] := by
  induction a with
  | nil => rfl
  | cons x xs ih =>
    have hx : x ≠ '.' := h x List.mem_cons_self
    rw [List.dropWhile_cons_of_pos (by simpa using hx),
      ih (fun c hc => h c (List.mem_cons_of_mem _ hc))]

/-! ### `Dec.ofLiteral` on the two shapes of a plain literal -/

theorem ofLiteral_digits (s : Str) (h : ∀ c ∈ s, c ≠ '.') (hne : s ≠ []) :
    Dec.ofLiteral s = some { neg := false, coeff := digitsToNat s, exp := 0 } := by
  unfold Dec.ofLiteral
  simp only [takeWhile_noDot_all s h, dropWhile_noDot_all s h]
  simp [hne]

theorem ofLiteral_dotted (ip fp : Str) (hip : ∀ c ∈ ip, c ≠ '.') (hfp : ∀ c ∈ fp, c ≠ '.')
    (hne : ip ≠ [] ∨ fp ≠ []) :
    Dec.ofLiteral (ip ++ '.' :: fp) =
      some { neg := false, coeff := digitsToNat (ip ++ fp), exp := - (fp.length : Int) } := by
  unfold Dec.ofLiteral
  simp only [takeWhile_noDot ip hip fp, dropWhile_noDot ip hip fp]
  have h1 : ¬ '.' ∈ fp := fun hc => hfp '.' hc rfl
  have h2 : (ip.isEmpty && fp.isEmpty) = false := by
    rcases hne with h | h
    · simp [h]
    · simp [h]
  simp [h1, h2]

/-- every literal the parser accepts is unsigned -/
theorem ofLiteral_neg {s : Str} {d : Dec} (h : Dec.ofLiteral s = some d) : d.neg = false := by
  unfold Dec.ofLiteral at h
  simp only at h
  split at h
  · split at h
    · cases h
    · cases h; rfl
  · split at h
    · cases h
    · split at h
      · cases h
      · cases h; rfl

end Luqum
