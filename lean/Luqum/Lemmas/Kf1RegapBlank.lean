/-
  Luqum.Lemmas.Kf1RegapBlank — known finding KF1: counting the characters that are not blank.  The
  re-gapped tree prints as many non-blank characters as the tree itself plus those of its gaps; so
  when both print the same non-blank characters (as for a parse tree: C01b), every gap is blank.
-/
import Luqum.Lemmas.Kf1RegapPath
import Luqum.Lemmas.RelexSpell

namespace Luqum

/-- number of characters that are not `\s` -/
def nbLen (w : Str) : Nat := (w.filter (fun c => !isSpace c)).length

@[simp] theorem nbLen_nil : nbLen [] = 0 := rfl
@[simp] theorem nbLen_append (a b : Str) : nbLen (a ++ b) = nbLen a + nbLen b := by
  simp [nbLen, List.filter_append]

theorem isBlank_of_nbLen {w : Str} (h : nbLen w = 0) : isBlank w = true := by
  simp only [nbLen, List.length_eq_zero_iff, List.filter_eq_nil_iff, Bool.not_eq_true',
    Bool.not_eq_false] at h
  simpa [isBlank, List.all_eq_true] using h

mutual
/-- non-blank characters in the gaps of the tree -/
def gapsNB (s : Str) : Tree → Nat
  | .term .. => 0
  | .field n e l => nbLen (gapOf s n e l) + gapsNB s e
  | .group _ e _ => gapsNB s e
  | .range a b _ _ _ => gapsNB s a + gapsNB s b
  | .approx _ t _ _ => gapsNB s t
  | .boost e _ _ => gapsNB s e
  | .op _ xs _ => gapsNBs s xs
  | .unary _ a _ => gapsNB s a
  | .orange _ a _ _ => gapsNB s a
  | .none _ => 0
def gapsNBs (s : Str) : List Tree → Nat
  | [] => 0
  | x :: r => gapsNB s x + gapsNBs s r
end

mutual
theorem nbLen_regap (s : Str) : ∀ t : Tree,
    nbLen ((regap s t).full .raw) = nbLen (t.full .raw) + gapsNB s t
  | .term .. => by simp [regap, gapsNB]
  | .none _ => by simp [regap, gapsNB, Tree.full]
  | .field n e l => by
    have ih := nbLen_regap s e
    simp only [regap, Tree.full, gapsNB, nbLen_append, ih]; omega
  | .group _ e l => by
    have ih := nbLen_regap s e
    simp only [regap, Tree.full, gapsNB, nbLen_append, ih]; omega
  | .range a b _ _ l => by
    have iha := nbLen_regap s a
    have ihb := nbLen_regap s b
    simp only [regap, Tree.full, gapsNB, nbLen_append, iha, ihb]; omega
  | .approx _ t n l => by
    have ih := nbLen_regap s t
    simp only [regap, Tree.full, gapsNB, nbLen_append, ih]; omega
  | .boost e n l => by
    have ih := nbLen_regap s e
    simp only [regap, Tree.full, gapsNB, nbLen_append, ih]; omega
  | .op k xs l => by
    have ih := nbLen_regaps s k.word xs
    simp only [regap, Tree.full, gapsNB, nbLen_append, ih]; omega
  | .unary _ a l => by
    have ih := nbLen_regap s a
    simp only [regap, Tree.full, gapsNB, nbLen_append, ih]; omega
  | .orange _ a _ l => by
    have ih := nbLen_regap s a
    simp only [regap, Tree.full, gapsNB, nbLen_append, ih]; omega
theorem nbLen_regaps (s w : Str) : ∀ xs : List Tree,
    nbLen (joinWith w (Tree.fulls .raw (regaps s xs)))
      = nbLen (joinWith w (Tree.fulls .raw xs)) + gapsNBs s xs
  | [] => rfl
  | [x] => by
    have ih := nbLen_regap s x
    simp only [regaps, Tree.fulls, joinWith, gapsNBs, ih]; omega
  | x :: y :: r => by
    have ihx := nbLen_regap s x
    have ih := nbLen_regaps s w (y :: r)
    simp only [regaps, Tree.fulls, joinWith, gapsNBs, nbLen_append] at ih ⊢
    rw [ihx, ih]; omega
end

theorem gapsNBs_mem (s : Str) : ∀ {xs : List Tree} {c : Tree}, c ∈ xs → gapsNB s c ≤ gapsNBs s xs
  | x :: r, c, h => by
    simp only [List.mem_cons] at h
    simp only [gapsNBs]
    rcases h with rfl | h
    · omega
    · have := gapsNBs_mem s h; omega

theorem gapsNB_child (s : Str) {t c : Tree} (h : c ∈ t.children) : gapsNB s c ≤ gapsNB s t := by
  cases t with
  | op k xs l => simpa [gapsNB, Tree.children] using gapsNBs_mem s h
  | term => simp [Tree.children] at h
  | none => simp [Tree.children] at h
  | range a b il ih l =>
    simp only [Tree.children, List.mem_cons, List.not_mem_nil, or_false] at h
    rcases h with rfl | rfl <;> simp only [gapsNB] <;> omega
  | _ =>
    simp only [Tree.children, List.mem_cons, List.not_mem_nil, or_false] at h
    subst h; simp only [gapsNB]; omega

theorem gapsNB_at (s : Str) : ∀ (path : List Nat) {t n : Tree}, t.at? path = some n →
    gapsNB s n ≤ gapsNB s t
  | [], t, n, h => by
    simp only [Tree.at?, Option.some.injEq] at h; subst h; exact Nat.le_refl _
  | i :: r, t, n, h => by
    simp only [Tree.at?] at h
    cases hc : t.children[i]? with
    | none => rw [hc] at h; cases h
    | some c =>
      rw [hc] at h
      have h1 := gapsNB_at s r h
      have h2 := gapsNB_child s (List.mem_of_getElem? hc)
      omega

end Luqum
