/-
  Luqum.Lemmas.Yield — the yield of a tree: the sequence of (token kind, lexeme) a tree is written
  with (numerals in their source spelling).  Main theorem `parse_yield`: if `parse s = .ok t` then
  the token sequence of `s` is `yield t`; in particular the token sequence is determined by the tree.
-/
import Luqum.Lemmas.ParseTotal
import Luqum.Lemmas.LexLossless
import Luqum.Props.C01
import Luqum.Props.C09
import Luqum.Lemmas.Lockstep

namespace Luqum

/-! ### a lexer fact that is not part of `lex_spec`: the lexeme of a TERM token is not a reserved
word (`AND`, `OR`, `NOT`, `TO` get their own token kinds); with or without lexer error -/

/-- the lexeme of a TERM token is not a reserved word -/
def Tok.termClean (t : Tok) : Prop := t.kind = .term → reservedKind t.text = .term

/-- only the TERM rule of the master regex produces the kind `.term`, and only for a lexeme that is
not reserved -/
theorem lexOne_term {prev rest : Str} {n : Nat} (h : lexOne prev rest = some (.tok .term n)) :
    reservedKind (rest.take (max n 1)) = .term := by
  unfold lexOne at h
  split at h
  · cases h
  · rename_i c r
    iterate 14
      (obtain ⟨_, h⟩ | ⟨_, h⟩ := ite_elim h
       · simp at h)
    simp only [Option.map_eq_some_iff] at h
    obtain ⟨m, hm, he⟩ := h
    injection he with hk hn
    subst hn
    rw [Nat.max_eq_left (termLen_pos hm)]
    exact hk

/-- a property of tokens that does not depend on the tail, and holds for every token the master
regex produces, holds for all tokens of the lexer loop -/
theorem lexLoop_all {C : Tok → Prop}
    (htail : ∀ (t : Tok) (s : Str), C t → C { t with tail := t.tail ++ s })
    (hnew : ∀ (prev rest : Str) (k : TokK) (n pos : Nat) (hd : Str),
      lexOne prev rest = some (.tok k n) →
      C { kind := k, text := rest.take (max n 1), pos := pos, head := hd, tail := [] }) :
    ∀ (fuel pos : Nat) (prev rest : Str) (acc : List Tok) (pending : Option Str),
      (∀ t ∈ acc, C t) → ∀ t ∈ (lexLoop fuel pos prev rest acc pending).1, C t := by
  intro fuel
  induction fuel with
  | zero => intro pos prev rest acc pending hacc t ht; simp [lexLoop] at ht; exact hacc t ht
  | succ fuel ih =>
    intro pos prev rest acc pending hacc t ht
    cases rest with
    | nil => simp [lexLoop] at ht; exact hacc t ht
    | cons c r =>
      unfold lexLoop at ht
      simp only at ht
      cases hl : lexOne prev (c :: r) with
      | none => rw [hl] at ht; simp at ht; exact hacc t ht
      | some l =>
        rw [hl] at ht
        cases l with
        | sep n =>
          simp only at ht
          split at ht
          · exact ih _ _ _ _ _ hacc t ht
          · refine ih _ _ _ _ _ ?_ t ht
            intro x hx
            cases acc with
            | nil => simp [addTail] at hx
            | cons y ys =>
              simp only [addTail, List.mem_cons] at hx
              rcases hx with rfl | hx
              · exact htail y _ (hacc y (by simp))
              · exact hacc x (by simp [hx])
        | tok k n =>
          simp only at ht
          refine ih _ _ _ _ _ ?_ t ht
          intro x hx
          simp only [List.mem_cons] at hx
          rcases hx with rfl | hx
          · exact hnew _ _ _ _ _ _ hl
          · exact hacc x hx

/-- **the lexeme of a TERM token is not a reserved word** (with or without lexer error) -/
theorem lex_termClean (s : Str) : ∀ t ∈ (lex s).1, t.termClean := by
  unfold lex
  refine lexLoop_all (C := Tok.termClean) (fun t s h => h) ?_ _ _ _ _ _ _ (by simp)
  intro prev rest k n pos hd hl hk
  simp only at hk
  subst hk
  exact lexOne_term hl

example : (lex "TO a AND NOT b OR x:TO ANDY".toList).1.map (fun t => (t.kind, t.text)) =
    [(.to, "TO".toList), (.term, ['a']), (.andOp, "AND".toList), (.not, "NOT".toList), (.term, ['b']),
     (.orOp, "OR".toList), (.term, ['x']), (.column, [':']), (.to, "TO".toList),
     (.term, "ANDY".toList)] := by decide +kernel

/-! ### definitions -/

/- `tokKey t = (t.kind, t.text)` (what identifies a token: its kind and its lexeme) is defined in
Luqum.Lemmas.Lockstep -/

/-- the operator token between two operands of an operation -/
def opKey : OpK → List (TokK × Str)
  | .and => [(.andOp, "AND".toList)]
  | .or => [(.orOp, "OR".toList)]
  | .unk => []
  | .bool => []

/-- `joinWith` for arbitrary lists -/
def joinL {α : Type} (sep : List α) : List (List α) → List α
  | [] => []
  | [x] => x
  | x :: y :: r => x ++ sep ++ joinL sep (y :: r)

mutual
/-- the tokens a tree is written with -/
def yield : Tree → List (TokK × Str)
  | .term .word v _ => [(reservedKind v, v)]
  | .term .phrase v _ => [(.phrase, v)]
  | .term .regex v _ => [(.regex, v)]
  | .field n e _ => (.term, n) :: (.column, [':']) :: yield e
  | .group _ e _ => (.lparen, ['(']) :: yield e ++ [(.rparen, [')'])]
  | .range lo hi il ih _ =>
      (.lbracket, [if il then '[' else '{']) :: yield lo ++ (.to, "TO".toList) :: yield hi
        ++ [(.rbracket, [if ih then ']' else '}'])]
  | .approx _ t n _ => yield t ++ [(.approx, '~' :: n.source)]
  | .boost e n _ => yield e ++ [(.boost, '^' :: n.source)]
  | .op k xs _ => joinL (opKey k) (yields xs)
  | .unary .plus a _ => (.plus, ['+']) :: yield a
  | .unary .prohibit a _ => (.minus, ['-']) :: yield a
  | .unary .not a _ => (.not, "NOT".toList) :: yield a
  | .orange .to a inc _ => (.lessthan, if inc then ['<', '='] else ['<']) :: yield a
  | .orange .from a inc _ => (.greaterthan, if inc then ['>', '='] else ['>']) :: yield a
  | .none _ => []
def yields : List Tree → List (List (TokK × Str))
  | [] => []
  | x :: r => yield x :: yields r
end


/-! ### yield and layout -/

theorem joinL_append {α : Type} (sep : List α) (xs ys : List (List α)) (hx : xs ≠ []) (hy : ys ≠ []) :
    joinL sep (xs ++ ys) = joinL sep xs ++ sep ++ joinL sep ys := by
  induction xs with
  | nil => exact absurd rfl hx
  | cons x r ih =>
    cases r with
    | nil =>
      cases ys with
      | nil => exact absurd rfl hy
      | cons y s => simp [joinL]
    | cons x2 r2 =>
      have := ih (by simp)
      simp [joinL] at this ⊢
      simp [this]

theorem yields_append (xs ys : List Tree) : yields (xs ++ ys) = yields xs ++ yields ys := by
  induction xs with
  | nil => simp [yields]
  | cons x r ih => simp [yields, ih]

theorem yields_ne {xs : List Tree} (h : xs ≠ []) : yields xs ≠ [] := by
  cases xs with
  | nil => exact absurd rfl h
  | cons x r => simp [yields]

@[simp] theorem yield_setLay (t : Tree) (l : Lay) : yield (t.setLay l) = yield t := by
  cases t with
  | term k v l' => cases k <;> simp [Tree.setLay, yield]
  | unary k a l' => cases k <;> simp [Tree.setLay, yield]
  | orange k a i l' => cases k <;> simp [Tree.setLay, yield]
  | _ => simp [Tree.setLay, yield]

@[simp] theorem yield_setHead (t : Tree) (h : Str) : yield (t.setHead h) = yield t := yield_setLay _ _
@[simp] theorem yield_setTail (t : Tree) (x : Str) : yield (t.setTail x) = yield t := yield_setLay _ _

@[simp] theorem yield_toFieldGroup (e : Tree) : yield (toFieldGroup e) = yield e := by
  unfold toFieldGroup
  split <;> simp [yield]

theorem yields_pushHead (tl : Str) (xs : List Tree) : yields (pushHead tl xs) = yields xs := by
  cases xs <;> simp [pushHead, yields]

/-! ### operations -/

/-- not an operation without operands -/
def Tree.opNE : Tree → Prop
  | .op _ [] _ => False
  | _ => True

theorem side_yield (k : OpK) (t : Tree) (h : t.opNE) :
    side k t ≠ [] ∧ joinL (opKey k) (yields (side k t)) = yield t := by
  rcases side_cases k t with ⟨xs, l, rfl, hs⟩ | hs
  · rw [hs]
    cases xs with
    | nil => exact absurd h (by simp [Tree.opNE])
    | cons x r => exact ⟨by simp, by simp [yield]⟩
  · rw [hs]
    exact ⟨by simp, by simp [yields, joinL]⟩

theorem binaryOp_yield (k : OpK) (a b : Tree) (ol : Option Lay) (ha : a.opNE) (hb : b.opNE) :
    yield (binaryOp k a ol b) = yield a ++ opKey k ++ yield b ∧ (binaryOp k a ol b).opNE := by
  obtain ⟨pos, size, he⟩ := binaryOp_eq k a b ol
  obtain ⟨hna, hja⟩ := side_yield k a ha
  obtain ⟨hnb, hjb⟩ := side_yield k b hb
  rw [he]
  constructor
  · simp only [yield]
    rw [yields_append, yields_pushHead, joinL_append _ _ _ (yields_ne hna) (yields_ne hnb), hja, hjb]
  · cases hs : side k a with
    | nil => exact absurd hs hna
    | cons x r => simp [Tree.opNE]

/-! ### stack values -/

/-- the tokens a stack value stands for -/
def valYield : Val → List (TokK × Str)
  | .item t => yield t
  | .tok k v => [(k, tokText k v.value)]

/-- side condition on stack values: token values consistent with their kinds, items are not
operations without operands -/
def VGood : Val → Prop
  | .tok k v => tokValOK k v.value
  | .item t => t.opNE

/-- the side condition for `p_field_search`: the field name is not a reserved word -/
def FieldCond (f : String) (args : List Val) : Prop :=
  f = "p_field_search" → ∀ name nl, args.head? = some (.item (.term .word name nl)) →
    reservedKind name = .term

theorem unit_yield (v : Val) (hg : ∀ x ∈ [v], VGood x) :
    valYield v = [v].flatMap valYield ∧ VGood v := ⟨by simp, hg v (by simp)⟩

theorem act_yield {f : String} {args : List Val} {v : Val} (h : act f args = .ok v)
    (hg : ∀ x ∈ args, VGood x) (hf : FieldCond f args) :
    valYield v = args.flatMap valYield ∧ VGood v := by
  unfold act at h
  split at h
  all_goals try (simp at h; done)
  all_goals try (cases h; exact unit_yield _ hg)
  all_goals simp only [List.mem_cons, List.not_mem_nil, or_false, forall_eq_or_imp, forall_eq, VGood,
    tokValOK] at hg
  case h_1 =>
    cases h
    obtain ⟨ha, ho, hb⟩ := hg
    obtain ⟨h1, h2⟩ := binaryOp_yield .or _ _ (some _) ha hb
    exact ⟨by simp [valYield, h1, opKey, tokText, ho], h2⟩
  case h_2 =>
    cases h
    obtain ⟨ha, ho, hb⟩ := hg
    obtain ⟨h1, h2⟩ := binaryOp_yield .and _ _ (some _) ha hb
    exact ⟨by simp [valYield, h1, opKey, tokText, ho], h2⟩
  case h_3 =>
    cases h
    obtain ⟨ha, hb⟩ := hg
    obtain ⟨h1, h2⟩ := binaryOp_yield .unk _ _ none ha hb
    exact ⟨by simp [valYield, h1, opKey], h2⟩
  case h_4 => cases h; exact ⟨by simp [valYield, yield, mgrUnary, tokText, hg], by simp [VGood, mgrUnary, Tree.opNE]⟩
  case h_5 => cases h; exact ⟨by simp [valYield, yield, mgrUnary, tokText, hg], by simp [VGood, mgrUnary, Tree.opNE]⟩
  case h_6 => cases h; exact ⟨by simp [valYield, yield, mgrUnary, tokText, hg], by simp [VGood, mgrUnary, Tree.opNE]⟩
  case h_10 => cases h; exact ⟨by simp [valYield, yield, mgrUnary, tokText, hg], by simp [VGood, mgrUnary, Tree.opNE]⟩
  case h_8 =>
    split at h; cases h
    exact ⟨by simp [valYield, yield, tokText, hg], by simp [VGood, Tree.opNE]⟩
  case h_9 =>
    split at h; cases h
    obtain ⟨hlb, hlo, hto, hhi, hrb⟩ := hg
    refine ⟨?_, by simp [VGood, Tree.opNE]⟩
    rcases hlb with hlb | hlb <;> rcases hrb with hrb | hrb <;>
      simp [valYield, yield, tokText, hlb, hrb, hto]
  case h_13 =>
    cases h
    refine ⟨?_, by simp [VGood, mgrUnary, Tree.opNE]⟩
    rcases hg.1 with ho | ho <;> simp [valYield, yield, mgrUnary, tokText, ho]
  case h_14 =>
    cases h
    refine ⟨?_, by simp [VGood, mgrUnary, Tree.opNE]⟩
    rcases hg.1 with ho | ho <;> simp [valYield, yield, mgrUnary, tokText, ho]
  case h_22 =>
    split at h; cases h
    exact ⟨by simp [valYield, yield, tokText, hg, reservedKind], by simp [VGood, Tree.opNE]⟩
  case h_17 =>
    split at h
    · rename_i n hn; cases h
      exact ⟨by simp [valYield, yield, mgrPostUnary, tokText, intNum_source hn], by simp [VGood, mgrPostUnary, Tree.opNE]⟩
    · cases h
  case h_18 =>
    split at h
    · rename_i n hn; cases h
      exact ⟨by simp [valYield, yield, mgrPostUnary, tokText, decNum_source hn], by simp [VGood, mgrPostUnary, Tree.opNE]⟩
    · cases h
  case h_20 =>
    split at h
    · rename_i n hn; cases h
      exact ⟨by simp [valYield, yield, mgrPostUnary, tokText, decNum_source hn], by simp [VGood, mgrPostUnary, Tree.opNE]⟩
    · cases h
  case h_15 =>
    rename_i name nl c e
    have h' : Val.item (.field name ((toFieldGroup e).setHead (c.lay.tail ++ (toFieldGroup e).head))
        { head := nl.head, tail := [],
          pos := (mgrPos [nl, c.lay, (toFieldGroup e).lay] true false).1,
          size := (mgrPos [nl, c.lay, (toFieldGroup e).lay] true false).2 }) = v := Except.ok.inj h
    subst h'
    have hn : reservedKind name = .term := hf rfl name nl rfl
    exact ⟨by simp [valYield, yield, tokText, hg, hn], by simp [VGood, Tree.opNE]⟩

/-! ### the yield up to the spelling of numerals -/

/-- a token key whose numeral (for `~` and `^`) is a numeric value instead of a spelling -/
abbrev NKey := TokK × Str × Option Dec

def plainKey (k : TokK × Str) : NKey := (k.1, k.2, none)

mutual
/-- `yield`, with the numeral of `~` / `^` given by its value as stored in the tree -/
def yieldC : Tree → List NKey
  | .term .word v _ => [(reservedKind v, v, none)]
  | .term .phrase v _ => [(.phrase, v, none)]
  | .term .regex v _ => [(.regex, v, none)]
  | .field n e _ => (.term, n, none) :: (.column, [':'], none) :: yieldC e
  | .group _ e _ => (.lparen, ['('], none) :: yieldC e ++ [(.rparen, [')'], none)]
  | .range lo hi il ih _ =>
      (.lbracket, [if il then '[' else '{'], none) :: yieldC lo ++ (.to, "TO".toList, none) :: yieldC hi
        ++ [(.rbracket, [if ih then ']' else '}'], none)]
  | .approx _ t n _ => yieldC t ++ [(.approx, ['~'], some n.val)]
  | .boost e n _ => yieldC e ++ [(.boost, ['^'], some n.val)]
  | .op k xs _ => joinL ((opKey k).map plainKey) (yieldCs xs)
  | .unary .plus a _ => (.plus, ['+'], none) :: yieldC a
  | .unary .prohibit a _ => (.minus, ['-'], none) :: yieldC a
  | .unary .not a _ => (.not, "NOT".toList, none) :: yieldC a
  | .orange .to a inc _ => (.lessthan, if inc then ['<', '='] else ['<'], none) :: yieldC a
  | .orange .from a inc _ => (.greaterthan, if inc then ['>', '='] else ['>'], none) :: yieldC a
  | .none _ => []
def yieldCs : List Tree → List (List NKey)
  | [] => []
  | x :: r => yieldC x :: yieldCs r
end

/-- the yield with canonical numerals: every `~` / `^` token carries the canonical representative of
the numeric value of the degree / force (an implicit one carries the default value) -/
def yieldNorm (t : Tree) : List NKey := yieldC (Props.C09.content t)

/-- **equal trees (`Item.__eq__`) have the same yield up to the spelling of numerals** -/
theorem yieldNorm_eqv (a b : Tree) (h : a.eqv b = true) : yieldNorm a = yieldNorm b := by
  unfold yieldNorm
  rw [(Props.C09.eqv_iff_content a b).1 h]

theorem yieldCs_contents : ∀ xs : List Tree, yieldCs (Props.C09.contents xs) = xs.map yieldNorm
  | [] => by simp [Props.C09.contents, yieldCs]
  | x :: r => by simp [Props.C09.contents, yieldCs, yieldCs_contents r, yieldNorm]

/-- the defining equations of `yieldNorm`: those of `yield`, but for `~` / `^` -/
theorem yieldNorm_approx (k : ApxK) (t : Tree) (n : Num) (l : Lay) :
    yieldNorm (.approx k t n l) = yieldNorm t ++ [(.approx, ['~'], some n.val.canon)] := by
  simp [yieldNorm, Props.C09.content, Props.C09.Num.content, yieldC]

theorem yieldNorm_boost (e : Tree) (n : Num) (l : Lay) :
    yieldNorm (.boost e n l) = yieldNorm e ++ [(.boost, ['^'], some n.val.canon)] := by
  simp [yieldNorm, Props.C09.content, Props.C09.Num.content, yieldC]

theorem yieldNorm_op (k : OpK) (xs : List Tree) (l : Lay) :
    yieldNorm (.op k xs l) = joinL ((opKey k).map plainKey) (xs.map yieldNorm) := by
  simp [yieldNorm, Props.C09.content, yieldC, yieldCs_contents]

/-- forget the numerals: `~…` ↦ `~`, `^…` ↦ `^` -/
def eraseNum (k : TokK × Str) : TokK × Str :=
  match k.1 with
  | .approx => (.approx, ['~'])
  | .boost => (.boost, ['^'])
  | _ => k

theorem map_joinL {α β : Type} (f : α → β) (sep : List α) : ∀ xs : List (List α),
    (joinL sep xs).map f = joinL (sep.map f) (xs.map (List.map f))
  | [] => rfl
  | [x] => rfl
  | x :: y :: r => by
    have := map_joinL f sep (y :: r)
    simp only [List.map_cons] at this
    simp [joinL, this]

theorem eraseNum_reserved (v : Str) : eraseNum (reservedKind v, v) = (reservedKind v, v) := by
  unfold reservedKind
  repeat' split
  all_goals rfl

theorem eraseNum_opKey (k : OpK) :
    (opKey k).map eraseNum = ((opKey k).map plainKey).map (fun x : NKey => (x.1, x.2.1)) := by
  cases k <;> rfl

mutual
/-- apart from the numerals, `yieldNorm` is `yield` -/
theorem yieldNorm_erase : ∀ t : Tree,
    (yieldNorm t).map (fun x => (x.1, x.2.1)) = (yield t).map eraseNum
  | .term k v l => by
    cases k <;> simp [yieldNorm, Props.C09.content, yieldC, yield, eraseNum_reserved]
    all_goals rfl
  | .field n e l => by
    have := yieldNorm_erase e
    simp only [yieldNorm] at this
    simp [yieldNorm, Props.C09.content, yieldC, yield, this]
    exact ⟨rfl, rfl⟩
  | .group k e l => by
    have := yieldNorm_erase e
    simp only [yieldNorm] at this
    simp [yieldNorm, Props.C09.content, yieldC, yield, this]
    exact ⟨rfl, rfl⟩
  | .range a b il ih l => by
    have h1 := yieldNorm_erase a
    have h2 := yieldNorm_erase b
    simp only [yieldNorm] at h1 h2
    simp [yieldNorm, Props.C09.content, yieldC, yield, h1, h2]
    exact ⟨rfl, rfl, rfl⟩
  | .approx k t n l => by
    have := yieldNorm_erase t
    simp only [yieldNorm] at this
    simp [yieldNorm, Props.C09.content, yieldC, yield, this]
    rfl
  | .boost e n l => by
    have := yieldNorm_erase e
    simp only [yieldNorm] at this
    simp [yieldNorm, Props.C09.content, yieldC, yield, this]
    rfl
  | .op k xs l => by
    rw [yieldNorm_op]
    simp only [yield]
    rw [map_joinL, map_joinL, eraseNum_opKey, yieldNorms_erase xs]
  | .unary k a l => by
    have := yieldNorm_erase a
    simp only [yieldNorm] at this
    cases k <;> simp [yieldNorm, Props.C09.content, yieldC, yield, this] <;> rfl
  | .orange k a i l => by
    have := yieldNorm_erase a
    simp only [yieldNorm] at this
    cases k <;> simp [yieldNorm, Props.C09.content, yieldC, yield, this] <;> rfl
  | .none l => by simp [yieldNorm, Props.C09.content, yieldC, yield]
theorem yieldNorms_erase : ∀ xs : List Tree,
    (xs.map yieldNorm).map (List.map (fun x => (x.1, x.2.1))) = (yields xs).map (List.map eraseNum)
  | [] => by simp [yields]
  | x :: r => by simp [yields, yieldNorm_erase x, yieldNorms_erase r]
end

/-! ### shifted tokens -/

theorem toVal_yield {t : Tok} (h : tokOK t.kind t.text) (hc : t.termClean) :
    valYield t.toVal = [tokKey t] := by
  obtain ⟨kind, text, pos, head, tail⟩ := t
  cases kind <;> simp only [tokOK] at h <;>
    simp [Tok.toVal, valYield, yield, tokKey, tokText]
  · exact hc rfl
  all_goals
    obtain ⟨cs, rfl⟩ := h
    cases cs <;> simp

theorem toVal_vgood {t : Tok} (h : tokOK t.kind t.text) : VGood t.toVal := by
  obtain ⟨kind, text, pos, head, tail⟩ := t
  cases kind <;> simp only [tokOK] at h <;>
    simp [Tok.toVal, VGood, Tree.opNE, tokValOK, h]
  all_goals simpa using h

/-! ### LR stack consistency, refined: a value pushed on the symbol TERM is a word that is not
reserved -/

/-- a `Word` whose value is not a reserved word -/
def CleanWord (v : Val) : Prop := ∃ t l, v = .item (.term .word t l) ∧ reservedKind t = .term

/-- what is known of a value from the grammar symbol by which its state was entered -/
def SymClean (X : String) (v : Val) : Prop := X = "TERM" → CleanWord v

/-- the state stack is a path of the automaton from state 0, and every value entered on the symbol
TERM is a word that is not reserved -/
inductive InvC (T : Tables) : List Nat → List Val → Prop
  | base : InvC T [0] []
  | push {s0 : Nat} {ss : List Nat} {vs : List Val} {X : String} {s : Nat} {v : Val} :
      InvC T (s0 :: ss) vs → T.Edge s0 X s → SymClean X v → InvC T (s :: s0 :: ss) (v :: vs)

/-- the values (top of the stack first) entered on the symbols `Xs` (last symbol first) -/
def SymsClean : List String → List Val → Prop
  | [], [] => True
  | X :: r, v :: vs => SymClean X v ∧ SymsClean r vs
  | _, _ => False

theorem invC_states_ne {T : Tables} {ss : List Nat} {vs : List Val} (h : InvC T ss vs) :
    ∃ s r, ss = s :: r := by
  cases h <;> exact ⟨_, _, rfl⟩

theorem invC_back {T : Tables} {lhs : String} : ∀ (rhsRev : List String) (s : Nat) (ss : List Nat)
    (vs : List Val), InvC T (s :: ss) vs → BackOK T lhs rhsRev s →
    rhsRev.length ≤ vs.length ∧ SymsClean rhsRev (vs.take rhsRev.length) ∧
    (∃ s' ss', (s :: ss).drop rhsRev.length = s' :: ss' ∧ InvC T (s' :: ss') (vs.drop rhsRev.length))
  | [], s, ss, vs, hI, _ => by
    exact ⟨Nat.zero_le _, by simp [SymsClean], s, ss, rfl, hI⟩
  | X :: rest, s, ss, vs, hI, hB => by
    obtain ⟨hs0, hall⟩ := hB
    cases hI with
    | base => exact absurd rfl hs0
    | push hI' hE hV =>
      rename_i s0 ss' vs' Y v
      obtain ⟨rfl, hB'⟩ := hall _ _ hE
      obtain ⟨h1, h2, s', ss'', h3, h4⟩ := invC_back rest s0 ss' vs' hI' hB'
      refine ⟨by simp; omega, ?_, s', ss'', ?_, ?_⟩
      · simp only [List.length_cons, List.take_succ_cons, SymsClean]
        exact ⟨hV, h2⟩
      · simpa using h3
      · simpa using h4

/-! ### the grammar: the field name of `p_field_search` is the terminal TERM -/

theorem field_prods_ok :
    (tables.prods.toList.all fun p =>
      p.2.2 != "p_field_search" || p.2.1 == ["TERM", "COLUMN", "unary_expression"]) = true := by
  decide +kernel

theorem field_prod (i : Nat) (h : (tables.prods.getD i ("", [], "")).2.2 = "p_field_search") :
    (tables.prods.getD i ("", [], "")).2.1 = ["TERM", "COLUMN", "unary_expression"] := by
  by_cases hi : i < tables.prods.size
  · have hm : tables.prods.getD i ("", [], "") ∈ tables.prods.toList := by
      simp [Array.getD, hi]
    have := List.all_eq_true.1 field_prods_ok _ hm
    rw [h] at this
    simpa using this
  · simp [Array.getD, hi] at h

theorem term_name {k : TokK} (h : k.name = "TERM") : k = .term := by
  cases k <;> first | rfl | (exact absurd h (by decide))

theorem symKind_TERM : symKind "TERM" = .word := by decide

/-! ### the run invariant -/

/-- the invariant of the driver loop: the stack (bottom first) followed by the remaining input has
the yield `K` -/
structure YInv (K : List (TokK × Str)) (c : Cfg) (toks : List Tok) : Prop where
  inv : InvC tables c.states c.vals
  tks : ∀ t ∈ toks, tokOK t.kind t.text ∧ t.termClean
  good : ∀ v ∈ c.vals, VGood v
  yld : c.vals.reverse.flatMap valYield ++ toks.map tokKey = K

theorem yinv_shift {K : List (TokK × Str)} (c : Cfg) (t : Tok) (toks : List Tok) (c' : Cfg)
    (hP : YInv K c (t :: toks)) (hs : step tables c (some t) = .shift c') : YInv K c' toks := by
  obtain ⟨t', a, hl, ha, hpos, rfl⟩ := step_shift hs
  cases hl
  obtain ⟨hI, hT, hG, hY⟩ := hP
  obtain ⟨hok, hcl⟩ := hT t (by simp)
  refine ⟨?_, fun x hx => hT x (by simp [hx]), ?_, ?_⟩
  · obtain ⟨s, ss, hss⟩ := invC_states_ne hI
    simp only
    rw [hss] at hI ha ⊢
    refine .push hI (Or.inl ⟨a, by simpa using ha, hpos, rfl⟩) ?_
    intro hn
    have hk := term_name hn
    refine ⟨t.text, { head := t.head, tail := t.tail, pos := some t.pos, size := some t.text.length },
      ?_, hcl hk⟩
    simp [Tok.toVal, hk]
  · intro v hv
    simp only [List.mem_cons] at hv
    rcases hv with rfl | hv
    · exact toVal_vgood hok
    · exact hG v hv
  · rw [← hY]
    simp [toVal_yield hok hcl]

theorem yinv_reduce {K : List (TokK × Str)} (c : Cfg) (toks : List Tok) (c' : Cfg)
    (hP : YInv K c toks) (hs : step tables c toks.head? = .reduce c') : YInv K c' toks := by
  obtain ⟨a, ha, hneg, hr⟩ := step_reduce' hs
  obtain ⟨v, g, hlen, hact, hg, rfl⟩ := reduceBy_reduce' hr
  obtain ⟨_, hlhs, hback⟩ := cons_ok.red _ _ _ ha hneg
  have hfp := field_prod (-a).toNat
  generalize tables.prods.getD (-a).toNat ("", [], "") = p at hlen hact hg hlhs hback hfp
  obtain ⟨hI, hT, hG, hY⟩ := hP
  obtain ⟨s, ss, hss⟩ := invC_states_ne hI
  rw [hss] at hI
  rw [hss, List.headD_cons] at hback
  obtain ⟨_, hvals, s', ss', hdrop, hI'⟩ := invC_back _ _ _ _ hI hback
  simp only [List.length_reverse] at hvals hdrop hI'
  -- the action keeps the yield
  have hgood : ∀ x ∈ (c.vals.take p.2.1.length).reverse, VGood x := fun x hx =>
    hG x (List.mem_of_mem_take (List.mem_reverse.1 hx))
  have hfc : FieldCond p.2.2 (c.vals.take p.2.1.length).reverse := by
    intro hf name nl hhead
    have hrhs := hfp hf
    rw [hrhs] at hvals
    simp only [List.reverse_cons, List.reverse_nil, List.nil_append, List.cons_append,
      List.length_cons, List.length_nil] at hvals
    rw [hrhs] at hhead
    simp only [List.length_cons, List.length_nil] at hhead
    match hv : c.vals.take 3, hvals with
    | [x3, x2, x1], hvals =>
      simp only [SymsClean] at hvals
      rw [hv] at hhead
      simp at hhead
      subst hhead
      obtain ⟨t, l, he, hk⟩ := hvals.2.2.1 rfl
      cases he
      exact hk
  obtain ⟨hy, hvg⟩ := act_yield hact hgood hfc
  refine ⟨?_, hT, ?_, ?_⟩
  · simp only
    rw [hss, hdrop]
    rw [hss, hdrop, List.headD_cons] at hg
    refine .push hI' (Or.inr ⟨g, hg, rfl⟩) ?_
    intro hn
    rw [hn, symKind_TERM] at hlhs
    cases hlhs
  · intro x hx
    simp only [List.mem_cons] at hx
    rcases hx with rfl | hx
    · exact hvg
    · exact hG x (List.mem_of_mem_drop hx)
  · rw [← hY]
    simp only [List.reverse_cons, List.flatMap_append, List.flatMap_cons, List.flatMap_nil,
      List.append_nil, hy]
    rw [← List.flatMap_append, ← List.reverse_append, List.take_append_drop]

/-! ### non-vacuity -/

/-- the yield of the parse tree of an input (if it parses) -/
def yieldOf (s : String) : Option (List (TokK × Str)) :=
  match parse s.toList with
  | .ok t => some (yield t)
  | .error _ => none

example : yieldOf "f:[1 TO 5}^2.50 -z TO" =
    some [(.term, ['f']), (.column, [':']), (.lbracket, ['[']), (.term, ['1']), (.to, "TO".toList),
      (.term, ['5']), (.rbracket, ['}']), (.boost, "^2.50".toList), (.minus, ['-']), (.term, ['z']),
      (.to, "TO".toList)] := by decide +kernel

example :
    let s := "  a  AND (f:[1 TO  5}^2.50   OR \"x y\"~3 ) -z b NOT +c <=4 >z /re/^ x~ y~0.5"
    yieldOf s = some ((lex s.toList).1.map tokKey) := by decide +kernel

/-- KF1 input (blank before `:`): the text is not kept, the token sequence is -/
example : yieldOf "foo :bar" = some ((lex "foo :bar".toList).1.map tokKey) := by decide +kernel

/-- the operator is written between operands only -/
example : yield (.op .and [] {}) = [] ∧
    yield (.op .and [.term .word ['a'] {}] {}) = [(.term, ['a'])] ∧
    yield (.op .or [.term .word ['a'] {}, .term .phrase ['b'] {}] {}) =
      [(.term, ['a']), (.orOp, "OR".toList), (.phrase, ['b'])] := by decide +kernel

/-- an implicit degree and re-spelled numerals: same normalized yield, different yield -/
example :
    (match parse "a~ b^2".toList, parse "a~0.50 b^2.0".toList with
     | .ok t, .ok u => decide (yieldNorm t = yieldNorm u) && decide (yield t ≠ yield u)
     | _, _ => false) = true := by decide +kernel

/-- a `Word` made from the TO token yields the TO token -/
example : yield (.term .word "TO".toList {}) = [(.to, "TO".toList)] := by decide +kernel

/-- a successful run of the generated tables over well-formed tokens returns a value whose yield
is the token sequence -/
theorem runLoop_yield (fuel : Nat) (toks : List Tok) (lerr : Option LexErr) (v : Val)
    (hT : ∀ t ∈ toks, tokOK t.kind t.text ∧ t.termClean)
    (h : runLoop tables fuel { states := [0], vals := [] } toks lerr = .ok v) :
    valYield v = toks.map tokKey := by
  have := runLoop_ok (T := tables)
    (P := fun c tk => YInv (toks.map tokKey) c tk ∧ Shape tables c)
    (fun c t tk c' hP hs => ⟨yinv_shift c t tk c' hP.1 hs, shape_shift Props.C01.tables_ok hP.2 hs⟩)
    (fun c tk c' hP hs => ⟨yinv_reduce c tk c' hP.1 hs, shape_reduce Props.C01.tables_ok hP.2 hs⟩)
    fuel { states := [0], vals := [] } toks lerr v
    ⟨⟨.base, hT, by simp, by simp⟩, shape_init tables⟩ h
  obtain ⟨c', toks', ⟨⟨_, _, _, hY⟩, hsh⟩, hacc, _⟩ := this
  obtain ⟨hlook, hv⟩ := shape_accept Props.C01.tables_ok hsh hacc
  have ht : toks' = [] := by cases toks' <;> simp at hlook ⊢
  subst ht
  simpa [hv] using hY

/-- **the token sequence is determined by the tree**: if `parse s` succeeds with the tree `t`, the
tokens of `s` (kinds and lexemes) are exactly the yield of `t` -/
theorem parse_yield (s : Str) (t : Tree) (h : parse s = .ok t) : (lex s).1.map tokKey = yield t := by
  have hnolex := Props.C01.parse_ok_no_lexErr s t h
  have hclean := lex_termClean s
  unfold parse parseWith at h
  rcases hlex : lex s with ⟨toks, lerr⟩
  rw [hlex] at h hnolex hclean
  simp only at h hnolex hclean
  subst hnolex
  obtain ⟨hwf, _⟩ := lex_spec hlex
  split at h
  · rename_i t' hrun
    cases h
    exact (runLoop_yield _ toks none _ (fun x hx => ⟨hwf.ok x hx, hclean x hx⟩) hrun).symm
  · cases h
  · cases h

/-- two inputs that parse to trees with the same yield have the same token sequence -/
theorem parse_yield_inj (s₁ s₂ : Str) (t₁ t₂ : Tree) (h₁ : parse s₁ = .ok t₁) (h₂ : parse s₂ = .ok t₂)
    (h : yield t₁ = yield t₂) : (lex s₁).1.map tokKey = (lex s₂).1.map tokKey := by
  rw [parse_yield s₁ t₁ h₁, parse_yield s₂ t₂ h₂, h]

end Luqum
