/-
  Luqum.Lemmas.TransMeaning — normalisation keeps the boolean meaning `evalB` of a tree (for the
  two readings of the implicit operation under which an implicit operation is associative: AND and
  OR), and commutes with the erasure `content` of everything equality ignores.
-/
import Luqum.Lemmas.TransNorm
import Luqum.Props.C10

namespace Luqum
open Luqum.Props.C10 (evalB evalBs combine occur evalB_setLay evalBs_eq_map)
open Luqum.Props.C09 (content contents)

/-! ### `evalB` -/

/-- conjunction / disjunction of the operands' values -/
def aggr (ke : OpK) (vs : List Bool) : Bool :=
  match ke with
  | .or => vs.any id
  | _ => vs.all id

theorem combine_eq_aggr {ke : OpK} (h : ke = .and ∨ ke = .or) (os : List Props.C10.Occur) (vs : List Bool) :
    combine ke os vs = aggr ke vs := by
  rcases h with rfl | rfl <;> rfl

theorem aggr_append (ke : OpK) (a b : List Bool) :
    aggr ke (a ++ b) = (match ke with | .or => aggr ke a || aggr ke b | _ => aggr ke a && aggr ke b) := by
  cases ke <;> simp [aggr]

theorem aggr_single {ke : OpK} (v : Bool) : aggr ke [v] = v := by
  cases ke <;> simp [aggr]

/-- the kind an operation is read as -/
def effK (dflt k : OpK) : OpK := if k == .unk then dflt else k

theorem effK_andOr {dflt k : OpK} (hd : dflt = .and ∨ dflt = .or) (hk : k ≠ .bool) :
    effK dflt k = .and ∨ effK dflt k = .or := by
  cases k <;> simp_all [effK]

theorem evalB_op (dflt : OpK) (τ : Option Str → Str → Bool) (fld : Option Str) (k : OpK)
    (xs : List Tree) (l : Lay) :
    evalB dflt τ fld (.op k xs l) = combine (effK dflt k) (xs.map occur) (evalBs dflt τ fld xs) := by
  simp [evalB, effK]

theorem evalBs_append (dflt : OpK) (τ : Option Str → Str → Bool) (fld : Option Str) (a b : List Tree) :
    evalBs dflt τ fld (a ++ b) = evalBs dflt τ fld a ++ evalBs dflt τ fld b := by
  simp [evalBs_eq_map]

theorem evalBs_pushFront (dflt : OpK) (τ : Option Str → Str → Bool) (fld : Option Str) (w : Str)
    (xs : List Tree) : evalBs dflt τ fld (pushFront w xs) = evalBs dflt τ fld xs := by
  cases xs <;> simp [pushFront, evalBs, Tree.setHead, evalB_setLay]

theorem evalBs_pushBack (dflt : OpK) (τ : Option Str → Str → Bool) (fld : Option Str) (w : Str) :
    ∀ xs : List Tree, evalBs dflt τ fld (pushBack w xs) = evalBs dflt τ fld xs
  | [] => rfl
  | [x] => by simp [pushBack, evalBs, Tree.setTail, evalB_setLay]
  | x :: y :: r => by
    have := evalBs_pushBack dflt τ fld w (y :: r)
    simp only [pushBack, evalBs] at this ⊢
    rw [this]

/-- the operands a `k`-operand stands for have, together, the value of the operand -/
theorem aggr_splice (dflt : OpK) (hd : dflt = .and ∨ dflt = .or) (τ : Option Str → Str → Bool)
    (fld : Option Str) (k : OpK) (hk : k ≠ .bool) (z : Tree) :
    aggr (effK dflt k) (evalBs dflt τ fld (splice k z)) = evalB dflt τ fld z := by
  cases z with
  | op k' ys l =>
    simp only [splice]
    split
    · rename_i hc
      simp only [Bool.and_eq_true, beq_iff_eq] at hc
      obtain ⟨rfl, _⟩ := hc
      rw [evalBs_pushBack, evalBs_pushFront, evalB_op, combine_eq_aggr (effK_andOr hd hk)]
    · simp [evalBs, aggr_single]
  | _ => simp [splice, evalBs, aggr_single]

theorem evalB_wrapOp (dflt : OpK) (hd : dflt = .and ∨ dflt = .or) (τ : Option Str → Str → Bool)
    (fld : Option Str) (k : OpK) (hk : k ≠ .bool) (zs : List Tree) (l : Lay) :
    evalB dflt τ fld (wrapOp k zs l) = aggr (effK dflt k) (evalBs dflt τ fld zs) := by
  unfold wrapOp
  split
  · simp [Tree.setTail, Tree.setHead, evalB_setLay, evalBs, aggr_single]
  · rw [evalB_op, combine_eq_aggr (effK_andOr hd hk)]

mutual
/-- **the normal form has the boolean meaning of the tree**, on every document, in every field
context, when an implicit operation is read as AND or as OR -/
theorem evalB_norm (dflt : OpK) (hd : dflt = .and ∨ dflt = .or) (τ : Option Str → Str → Bool) :
    ∀ (u : Tree) (fld : Option Str), evalB dflt τ fld (norm u) = evalB dflt τ fld u
  | .term .., _ => rfl
  | .none _, _ => rfl
  | .field n e l, fld => by simp [norm, evalB, evalB_norm dflt hd τ e]
  | .group k e l, fld => by simp [norm, evalB, evalB_norm dflt hd τ e]
  | .boost e n l, fld => by simp [norm, evalB, evalB_norm dflt hd τ e]
  | .unary k e l, fld => by cases k <;> simp [norm, evalB, evalB_norm dflt hd τ e]
  | .approx .., _ => rfl
  | .range .., _ => rfl
  | .orange .., _ => rfl
  | .op k xs l, fld => by
    simp only [norm]
    split
    · rfl
    · rename_i hk
      have hk' : k ≠ .bool := by simpa using hk
      rw [evalB_wrapOp dflt hd τ fld k hk', aggr_normOps dflt hd τ xs fld k hk', evalB_op,
        combine_eq_aggr (effK_andOr hd hk')]
theorem aggr_normOps (dflt : OpK) (hd : dflt = .and ∨ dflt = .or) (τ : Option Str → Str → Bool) :
    ∀ (xs : List Tree) (fld : Option Str) (k : OpK), k ≠ .bool →
      aggr (effK dflt k) (evalBs dflt τ fld (normOps k xs)) = aggr (effK dflt k) (evalBs dflt τ fld xs)
  | [], _, _, _ => rfl
  | x :: r, fld, k, hk => by
    have e1 := aggr_splice dflt hd τ fld k hk (norm x)
    have e2 := aggr_normOps dflt hd τ r fld k hk
    rw [evalB_norm dflt hd τ x fld] at e1
    have e3 : evalBs dflt τ fld (x :: r) = [evalB dflt τ fld x] ++ evalBs dflt τ fld r := rfl
    rw [normOps, evalBs_append, aggr_append, e1, e2, e3, aggr_append, aggr_single]
end

/-! ### `content` -/

theorem contents_pushFront (w : Str) (xs : List Tree) : contents (pushFront w xs) = contents xs := by
  cases xs <;> simp [pushFront, contents]

theorem contents_pushBack (w : Str) : ∀ xs : List Tree, contents (pushBack w xs) = contents xs
  | [] => rfl
  | [x] => by simp [pushBack, contents]
  | x :: y :: r => by
    have := contents_pushBack w (y :: r)
    simp only [pushBack, contents] at this ⊢
    rw [this]

theorem content_lay (t : Tree) : (content t).lay = {} := by cases t <;> rfl

theorem setHead_self (t : Tree) : t.setHead t.head = t := by cases t <;> rfl
theorem setTail_self (t : Tree) : t.setTail t.tail = t := by cases t <;> rfl

theorem pushFront_nil : ∀ xs : List Tree, pushFront [] xs = xs
  | [] => rfl
  | x :: r => by simp [pushFront, setHead_self]

theorem pushBack_nil : ∀ xs : List Tree, pushBack [] xs = xs
  | [] => rfl
  | [x] => by simp [pushBack, setTail_self]
  | x :: y :: r => by
    have := pushBack_nil (y :: r)
    simp only [pushBack] at this ⊢
    rw [this]

theorem contents_isEmpty (xs : List Tree) : (contents xs).isEmpty = xs.isEmpty := by
  cases xs <;> rfl

theorem contents_splice (k : OpK) (z : Tree) : contents (splice k z) = splice k (content z) := by
  cases z with
  | op k' ys l =>
    simp only [splice, content, contents_isEmpty]
    split
    · rw [contents_pushBack, contents_pushFront]
      show contents ys = pushBack [] (pushFront [] (contents ys))
      rw [pushFront_nil, pushBack_nil]
    · simp [contents, content]
  | _ => simp [splice, contents, content]

theorem content_wrapOp (k : OpK) (zs : List Tree) (l : Lay) :
    content (wrapOp k zs l) = wrapOp k (contents zs) {} := by
  match zs with
  | [z] =>
    simp only [wrapOp, contents, Tree.setTail, Tree.setHead, content_setLay]
    have h := content_lay z
    have : (content z).setLay (content z).lay = content z := by cases (content z) <;> rfl
    rw [h] at this
    simp [Tree.head, Tree.tail, h, this]
  | [] => rfl
  | _ :: _ :: _ => rfl

mutual
/-- **normalisation commutes with the erasure of layout and numeral spelling** -/
theorem content_norm : ∀ u : Tree, content (norm u) = norm (content u)
  | .term .. => rfl
  | .none _ => rfl
  | .field n e l => by simp [norm, content, content_norm e]
  | .group k e l => by simp [norm, content, content_norm e]
  | .boost e n l => by simp [norm, content, content_norm e]
  | .unary k e l => by simp [norm, content, content_norm e]
  | .approx .. => rfl
  | .range .. => rfl
  | .orange .. => rfl
  | .op k xs l => by
    simp only [norm, content]
    split
    · rfl
    · rw [content_wrapOp, contents_normOps xs k]
theorem contents_normOps : ∀ (xs : List Tree) (k : OpK), contents (normOps k xs) = normOps k (contents xs)
  | [], _ => rfl
  | x :: r, k => by
    rw [normOps, contents_append, contents_splice, content_norm x, contents_normOps r k]
    rfl
end

end Luqum
