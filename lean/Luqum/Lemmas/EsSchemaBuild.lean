/-
  Luqum.Lemmas.EsSchemaBuild — the query built for `field:word`, the field being given by its dotted
  name: first for any configuration (explicit hypotheses on the configuration), then for the
  configuration derived from the schema of a well-formed mapping.
-/
import Luqum.Lemmas.EsSchemaObjects

namespace Luqum.Lemmas.EsSchema
open Luqum

/-- the term-level (`na`) / full-text clause for the word `v` on the field `F` -/
def wordClause (na : Bool) (F v : Str) : JVal :=
  if na then .obj [("term".toList, .obj [(F, .obj [("value".toList, .str v)])])]
  else .obj [("match".toList, .obj [(F, .obj [("query".toList, .str v),
        ("zero_terms_query".toList, .str "none".toList)])])]

/-- `{"nested": {"path": …, "query": …}}` around the clause when there is a nested path -/
def wrapNested (path : Option Str) (j : JVal) : JVal :=
  match path with
  | some pa => .obj [("nested".toList, .obj [("path".toList, .str pa), ("query".toList, j)])]
  | none => j

/-- the innermost registered nested prefix of the path: the longest non-empty prefix of `p` whose
dotted name is a nested prefix of the configuration -/
def innermostNested (c : EsCfg) (p : List Str) : Option Str :=
  ((List.range p.length).map fun i => joinDot (p.take (p.length - i))).find?
    (fun x => c.nestedPrefixes.contains x)

theorem innermostNested_eq_none {c : EsCfg} {p : List Str} :
    innermostNested c p = none ↔
      ∀ j, 1 ≤ j → j ≤ p.length → c.nestedPrefixes.contains (joinDot (p.take j)) = false := by
  unfold innermostNested
  rw [List.find?_eq_none]
  constructor
  · intro h j h1 h2
    have := h (joinDot (p.take j)) (by
      rw [List.mem_map]
      exact ⟨p.length - j, by simp; omega, by congr 2; omega⟩)
    simpa using this
  · intro h x hx
    rw [List.mem_map] at hx
    obtain ⟨i, hi, rfl⟩ := hx
    have hi' : i < p.length := by simpa using hi
    have hh := h (p.length - i) (by omega) (by omega)
    show ¬ (c.nestedPrefixes.contains (joinDot (p.take (p.length - i))) = true)
    rw [hh]; simp

theorem innermostNested_eq_some {c : EsCfg} {p : List Str} {x : Str}
    (h : innermostNested c p = some x) :
    ∃ j, 1 ≤ j ∧ j ≤ p.length ∧ x = joinDot (p.take j) ∧ x ∈ c.nestedPrefixes ∧
      ∀ j', j < j' → j' ≤ p.length → c.nestedPrefixes.contains (joinDot (p.take j')) = false := by
  unfold innermostNested at h
  rw [List.find?_eq_some_iff_getElem] at h
  obtain ⟨hx, i, hi, hxi, hlt⟩ := h
  have hi' : i < p.length := by simpa using hi
  simp only [List.getElem_map, List.getElem_range] at hxi
  refine ⟨p.length - i, by omega, by omega, hxi.symm, by simpa using hx, ?_⟩
  intro j' h1 h2
  have := hlt (p.length - j') (by omega)
  simp only [List.getElem_map, List.getElem_range] at this
  have e : p.length - (p.length - j') = j' := by omega
  rw [e] at this
  simpa using this

/-! ### the clause of a word -/

theorem item_json_na (c : EsCfg) (p : List Str) (v : Str) (hopt : c.fieldOptions = [])
    (hna : c.notAnalyzed.contains (joinDot p) = true) (hw : hasWildcard v = false) (hs : v ≠ ['*']) :
    EItem.json c { kind := .word, q := some v, method0 := "term".toList, fields := p, name := none } =
      wordClause true (joinDot p) v := by
  have hm : EItem.method c
      { kind := .word, q := some v, method0 := "term".toList, fields := p, name := none } =
      "term".toList := by
    have hna' : joinDot p ∈ c.notAnalyzed := by simpa using hna
    simp [EItem.method, EItem.field, EItem.wild, hna', hw]
  have hq : (some v == some ['*']) = false := by simpa using hs
  unfold EItem.json
  simp only [hm, hopt, EItem.field]
  simp [hq, wordClause, jerase, jget, jset, containsSub, containsSub.go, startsWith]

theorem item_json_an (c : EsCfg) (p : List Str) (v : Str) (hopt : c.fieldOptions = [])
    (hw : hasWildcard v = false) (hs : v ≠ ['*']) :
    EItem.json c { kind := .word, q := some v, method0 := "match".toList, fields := p, name := none } =
      wordClause false (joinDot p) v := by
  have hm : EItem.method c
      { kind := .word, q := some v, method0 := "match".toList, fields := p, name := none } =
      "match".toList := by
    simp [EItem.method, EItem.field, EItem.wild, hw, hopt, startsWith, jget]
  have hq : (some v == some ['*']) = false := by simpa using hs
  unfold EItem.json
  simp only [hm, hopt, EItem.field]
  simp [hq, wordClause, jerase, jget, jset, containsSub, containsSub.go, startsWith]

theorem checkFinal_ok (c : EsCfg) (p : List Str) (t : Tree) (hsub : c.subFields = .none)
    (hn : c.nestedPrefixes.contains (joinDot p) = false)
    (ho : c.objectPrefixes.contains (joinDot p) = false) : checkFinal c p t = .ok () := by
  unfold checkFinal
  have : c.subNorm = none := by simp [EsCfg.subNorm, hsub, normalizeObject]
  simp only [hn, ho, this]
  split <;> simp

/-- **`field:word` for any configuration** without field options, sub-field specification and
`match_word_as_phrase`: when the dotted field is neither a nested nor an object prefix, the word has
no wildcard and is not `*`, the result is a `term` clause iff the field is not analysed, else a
`match` clause, wrapped in `nested` on the innermost registered nested prefix iff there is one -/
theorem esBuild_field_word (c : EsCfg) (p : List Str) (v : Str) (hp : p ≠ []) (dp : DotFree p)
    (hopt : c.fieldOptions = []) (hphr : c.matchWordAsPhrase = false) (hsub : c.subFields = .none)
    (hn : c.nestedPrefixes.contains (joinDot p) = false)
    (ho : c.objectPrefixes.contains (joinDot p) = false)
    (hw : hasWildcard v = false) (hs : v ≠ ['*']) :
    esBuild c (.field (joinDot p) (.term .word v {}) {}) =
      .ok (wrapNested (innermostNested c p)
        (wordClause (c.notAnalyzed.contains (joinDot p)) (joinDot p) v)) := by
  have hsplit := splitOnChar_joinDot hp dp
  unfold esBuild
  simp only [nestingCheck, List.nil_append, hsplit, checkFinal_ok c p _ hsub hn ho]
  simp only [esVisit, hsplit, Option.getD_none, List.nil_append, propagateName, Tree.lay, ctxName,
    EsCfg.isAnalyzed, EsCfg.fields, Option.getD_some, hphr, exactlyOne]
  have hin : List.find? (fun p => c.nestedPrefixes.contains p)
      (List.map (fun i => joinDot (List.take (p.length - i) p)) (List.range p.length)) =
      innermostNested c p := rfl
  rw [hin]
  cases hna : c.notAnalyzed.contains (joinDot p) <;> cases hi : innermostNested c p <;>
    simp only [Bool.not_false, Bool.not_true, if_true, Bool.false_eq_true, if_false, excludeNested,
      ETree.json, wrapNested, item_json_na c p v hopt, item_json_an c p v hopt, hna, hw, hs,
      List.append_nil, ne_eq, not_false_eq_true]

/-- when the dotted field is a nested or object prefix the query is refused -/
theorem esBuild_field_word_container (c : EsCfg) (p : List Str) (v : Str) (hp : p ≠ [])
    (dp : DotFree p)
    (h : c.nestedPrefixes.contains (joinDot p) = true ∨ c.objectPrefixes.contains (joinDot p) = true) :
    ∃ msg, esBuild c (.field (joinDot p) (.term .word v {}) {}) = .error (.nestedSearch msg) := by
  have hsplit := splitOnChar_joinDot hp dp
  have hpe : p.isEmpty = false := by cases p <;> simp_all
  unfold esBuild
  simp only [nestingCheck, List.nil_append, hsplit, checkFinal, hpe, Bool.false_eq_true, if_false]
  by_cases hn : c.nestedPrefixes.contains (joinDot p) = true
  · simp only [hn, if_true]
    exact ⟨_, rfl⟩
  · have ho : c.objectPrefixes.contains (joinDot p) = true := by
      rcases h with h | h
      · exact absurd h hn
      · exact h
    have hn' : c.nestedPrefixes.contains (joinDot p) = false := by simpa using hn
    simp only [hn', ho, if_true, Bool.false_eq_true, if_false]
    exact ⟨_, rfl⟩

/-! ### the configuration derived from a schema -/

/-- a leaf, a multi-field or a sub field -/
def Field.isLeafLike : Field → Bool
  | .node (.leaf _) => true
  | .node (.multi _ _) => true
  | .sub _ _ => true
  | _ => false

theorem notAnalyzed_contains {m : Props} (h : Props.wf m = true) {p : List Str} {f : Field}
    (hm : (p, f) ∈ allFields m) :
    (schemaCfg (toJson m)).notAnalyzed.contains (joinDot p) = f.notAnalysed := by
  rw [Bool.eq_iff_iff]
  have := mem_schemaNotAnalyzed h hm
  simpa [schemaCfg] using this

/-- **`field:word` for the options derived from the schema of a well-formed mapping**, the field
being a leaf, a multi-field or a sub field of the mapping given by its dotted path -/
theorem esBuild_schema_field {m : Props} (h : Props.wf m = true) {p : List Str} {f : Field}
    (hm : (p, f) ∈ allFields m) (hf : f.isLeafLike = true) (hne : joinDot p ≠ []) (v : Str)
    (hw : hasWildcard v = false) (hs : v ≠ ['*']) :
    esBuild (schemaCfg (toJson m)) (.field (joinDot p) (.term .word v {}) {}) =
      .ok (wrapNested (innermostNested (schemaCfg (toJson m)) p)
        (wordClause f.notAnalysed (joinDot p) v)) := by
  obtain ⟨hp, dp⟩ := allFields_path h hm
  have hn : (schemaCfg (toJson m)).nestedPrefixes.contains (joinDot p) = false := by
    rw [Bool.eq_false_iff]
    intro hc
    have hc' : joinDot p ∈ (schemaCfg (toJson m)).nestedPrefixes := by simpa using hc
    obtain ⟨ps', h2, _⟩ := (mem_nestedPrefixes h hp dp hne).mp hc'
    have := allFields_unique h hm h2
    subst this
    simp [Field.isLeafLike] at hf
  have ho : (schemaCfg (toJson m)).objectPrefixes.contains (joinDot p) = false := by
    rw [Bool.eq_false_iff]
    intro hc
    have hc' : joinDot p ∈ (schemaCfg (toJson m)).objectPrefixes := by simpa using hc
    obtain ⟨ps', h2, _⟩ := (mem_objectPrefixes h hp dp).mp hc'
    have := allFields_unique h hm h2
    subst this
    simp [Field.isLeafLike] at hf
  rw [esBuild_field_word _ p v hp dp rfl rfl rfl hn ho hw hs, notAnalyzed_contains h hm]

theorem joinDot_ne_nil {q : List Str} (hq : q ≠ []) (h : ∀ x ∈ q, x ≠ []) : joinDot q ≠ [] := by
  cases q with
  | nil => exact absurd rfl hq
  | cons x r =>
    have hx : x ≠ [] := h x (by simp)
    cases r with
    | nil => simpa [joinDot_single] using hx
    | cons y s =>
      rw [joinDot_cons_cons]
      intro e
      have := congrArg List.length e
      simp at this

/-- the path the clause is wrapped on is the dotted path of the innermost nested ancestor having a
child at or below which nothing is registered -/
theorem innermostNested_schema {m : Props} (h : Props.wf m = true) {p : List Str} (dp : DotFree p)
    (hne : ∀ x ∈ p, x ≠ []) {x : Str} (hx : innermostNested (schemaCfg (toJson m)) p = some x) :
    ∃ q ps', q <+: p ∧ x = joinDot q ∧ (q, Field.node (.nested ps')) ∈ allFields m ∧
      (∃ c ∈ ps', c.2.hasReg = false) ∧
      ∀ q', q' <+: p → q.length < q'.length →
        joinDot q' ∉ (schemaCfg (toJson m)).nestedPrefixes := by
  obtain ⟨j, h1, h2, rfl, hmem, hmax⟩ := innermostNested_eq_some hx
  have hq : p.take j ≠ [] := by
    intro e
    have : (p.take j).length = 0 := by rw [e]; rfl
    rw [List.length_take] at this
    omega
  have dq : DotFree (p.take j) := fun y hy => dp y (List.mem_of_mem_take hy)
  have hnq : joinDot (p.take j) ≠ [] :=
    joinDot_ne_nil hq (fun y hy => hne y (List.mem_of_mem_take hy))
  obtain ⟨ps', h3, h4⟩ := (mem_nestedPrefixes h hq dq hnq).mp hmem
  refine ⟨p.take j, ps', List.take_prefix _ _, rfl, h3, h4, ?_⟩
  intro q' hq' hlen
  have hq'len : q'.length ≤ p.length := hq'.length_le
  have : q' = p.take q'.length := by
    obtain ⟨t, rfl⟩ := hq'
    simp
  rw [this]
  have := hmax q'.length (by simp at hlen; omega) hq'len
  simpa using this

end Luqum.Lemmas.EsSchema
