/-
  Luqum.Lemmas.RelexSpell — the spelling theorem: a text assembled from valid token texts and blank
  separators lexes back into exactly these tokens, with the separators as heads and tails as
  `HeadTailLexer` attaches them, if every token is followed by a text that satisfies `followOK`.
-/
import Luqum.Lemmas.RelexOne
import Luqum.Lemmas.Lockstep

namespace Luqum

/-! ### character classes -/

theorem inRanges_disjoint {rs rs' : List (Nat × Nat)} {n : Nat}
    (hd : (rs.all fun r => rs'.all fun r' => decide (r.2 < r'.1) || decide (r'.2 < r.1)) = true)
    (h : inRanges rs n = true) (h' : inRanges rs' n = true) : False := by
  simp only [inRanges, List.any_eq_true, Bool.and_eq_true, decide_eq_true_eq] at h h'
  obtain ⟨r, hr, h1, h2⟩ := h
  obtain ⟨r', hr', h1', h2'⟩ := h'
  have := List.all_eq_true.1 (List.all_eq_true.1 hd r hr) r' hr'
  simp at this
  omega

/-- `\s` and `\d` are disjoint -/
theorem space_not_digit {c : Char} (h : isSpace c = true) : isDigitU c = false := by
  cases hd : isDigitU c with
  | false => rfl
  | true => exact (inRanges_disjoint (by decide +kernel) h hd).elim

theorem isNumChar_toNat {c : Char} (h : isNumChar c = true) :
    inRanges [(46, 46), (48, 57)] c.toNat = true := by
  simp only [isNumChar, Bool.or_eq_true, Bool.and_eq_true, decide_eq_true_eq, beq_iff_eq] at h
  simp only [inRanges, List.any_cons, List.any_nil, Bool.or_false, Bool.or_eq_true,
    Bool.and_eq_true, decide_eq_true_eq]
  rcases h with ⟨h1, h2⟩ | rfl
  · right
    rw [Char.le_def] at h1 h2
    exact ⟨h1, h2⟩
  · left; decide

/-- `\s` and `[0-9.]` are disjoint -/
theorem space_not_num {c : Char} (h : isSpace c = true) : isNumChar c = false := by
  cases hd : isNumChar c with
  | false => rfl
  | true => exact (inRanges_disjoint (by decide +kernel) h (isNumChar_toNat hd)).elim

theorem space_ne {c d : Char} (h : isSpace c = true) (hd : isSpace d = false) : c ≠ d := by
  rintro rfl; rw [h] at hd; cases hd

/-! ### pieces and spellings -/

/-- a token text with the separator written before it -/
structure Piece where
  sep : Str
  kind : TokK
  text : Str
deriving DecidableEq, Repr

/-- kind and text of a piece -/
def Piece.key (p : Piece) : TokK × Str := (p.kind, p.text)

/-- the text: `sep ++ text` for every piece, then `trail` -/
def spell : List Piece → Str → Str
  | [], trail => trail
  | p :: ps, trail => p.sep ++ p.text ++ spell ps trail

/-- all characters are `\s` -/
def isBlank (w : Str) : Bool := w.all isSpace

/-- the separator after the current token: the separator of the next piece, or the trailing one -/
def nextSep : List Piece → Str → Str
  | [], trail => trail
  | q :: _, _ => q.sep

/-- the tokens `HeadTailLexer` is expected to give for a spelling that starts at offset `pos`:
the separator before the first token of the input is its head, every other separator is the tail of
the token before it -/
def toksOf (pos : Nat) (first : Bool) : List Piece → Str → List Tok
  | [], _ => []
  | p :: ps, trail =>
    { kind := p.kind, text := p.text, pos := pos + p.sep.length,
      head := if first then p.sep else [], tail := nextSep ps trail } ::
      toksOf (pos + p.sep.length + p.text.length) false ps trail

/-- every token is followed (separator included) by a text that does not change how it lexes -/
def chainOK : List Piece → Str → Bool
  | [], _ => true
  | p :: ps, trail => followOK p.kind p.text (spell ps trail) && chainOK ps trail

/-- `x₁` immediately followed by the token text `x₂` still lexes as `x₁` (the pairwise part of
`followOK`; the time-expression clash `T12` `:` `30` involves a third token, see `timeClash`) -/
def glueOK (k₁ : TokK) (x₁ : Str) (_k₂ : TokK) (x₂ : Str) : Bool := followOK k₁ x₁ x₂

/-- the term `x` followed by `r` is a time-expression clash (finding KF8): `x` ends with `T\d\d`
(or `T\d\d:\d\d`) and `r` starts with `:\d\d`, so the term goes on -/
def timeClash (x r : Str) : Bool := (tddR x.reverse || tmmR x.reverse) && secOK r

theorem toksOf_keys (pos : Nat) (first : Bool) (ps : List Piece) (trail : Str) :
    (toksOf pos first ps trail).map tokKey = ps.map Piece.key := by
  induction ps generalizing pos first with
  | nil => rfl
  | cons p ps ih => simp [toksOf, tokKey, Piece.key, ih]

/-! ### blank separators -/

theorem isBlank_cons {c : Char} {w : Str} : isBlank (c :: w) = (isSpace c && isBlank w) := rfl

/-- a blank never changes how the token before it lexes -/
theorem followOK_blank (k : TokK) (x : Str) {c : Char} (r : Str) (hc : isSpace c = true) :
    followOK k x (c :: r) = true := by
  have h1 : isTermNext c = false := by simp [isTermNext, hc]
  have h2 : c ≠ '\\' := space_ne hc (by decide)
  have h3 : c ≠ ':' := space_ne hc (by decide)
  have h4 : c ≠ '=' := space_ne hc (by decide)
  have h5 := space_not_num hc
  cases k <;> simp [followOK, termStops, h1, h2, h3, h4, h5]

theorem followOK_nil (k : TokK) (x : Str) : followOK k x [] = true := by
  cases k <;> simp [followOK, termStops]

/-- a blank before a term blocks the look-behind -/
theorem boundOK_blank {c : Char} (prev : Str) (hc : isSpace c = true) : boundOK (c :: prev) = true := by
  have h1 : c ≠ 'T' := space_ne hc (by decide)
  simp [boundOK, h1, space_not_digit hc]

/-- what follows a piece list starts with a non-blank, or is all blank -/
def StartOK (r : Str) : Prop := ∀ c r', r = c :: r' → isSpace c = false

theorem sepLen_blank {w r : Str} (hw : isBlank w = true) (hr : StartOK r) :
    sepLen (w ++ r) = w.length := by
  unfold sepLen
  rw [takeWhile_append_stop (fun c hc => List.all_eq_true.1 hw c hc) hr]

theorem lexOne_blank {prev w r : Str} (hw : isBlank w = true) (hne : w ≠ []) (hr : StartOK r) :
    lexOne prev (w ++ r) = some (.sep w.length) := by
  cases w with
  | nil => exact absurd rfl hne
  | cons c w' =>
    have hc : isSpace c = true := by
      rw [isBlank_cons] at hw; simp only [Bool.and_eq_true] at hw; exact hw.1
    have := sepLen_blank (r := r) hw hr
    simp only [List.cons_append] at this ⊢
    simp [lexOne, hc, this]

/-! ### steps of the lexer loop -/

theorem lexLoop_nil (f pos : Nat) (prev : Str) (acc : List Tok) (pending : Option Str) :
    lexLoop f pos prev [] acc pending = (acc.reverse, none) := by
  cases f <;> rfl

theorem lexLoop_tok {f pos : Nat} {prev x r : Str} {acc : List Tok} {pending : Option Str} {k : TokK}
    (hx : x ≠ []) (h : lexOne prev (x ++ r) = some (.tok k x.length)) :
    lexLoop (f + 1) pos prev (x ++ r) acc pending =
      lexLoop f (pos + x.length) (x.reverse ++ prev) r
        ({ kind := k, text := x, pos := pos, head := pending.getD [], tail := [] } :: acc) none := by
  have hl : 1 ≤ x.length := by cases x with | nil => exact absurd rfl hx | cons _ _ => simp
  cases hxr : x ++ r with
  | nil => cases x <;> simp at hxr hx
  | cons c r' =>
    rw [hxr] at h
    conv => lhs; unfold lexLoop
    simp only [h]
    rw [Nat.max_eq_left hl, ← hxr, List.take_left' rfl, List.drop_left' rfl]

theorem lexLoop_sep {f pos : Nat} {prev w r : Str} {acc : List Tok} {pending : Option Str}
    (hw : isBlank w = true) (hne : w ≠ []) (hr : StartOK r) :
    lexLoop (f + 1) pos prev (w ++ r) acc pending =
      if pos = 0 then lexLoop f (pos + w.length) (w.reverse ++ prev) r acc (some w)
      else lexLoop f (pos + w.length) (w.reverse ++ prev) r (addTail acc w) pending := by
  have h := lexOne_blank (prev := prev) hw hne hr
  have hl : 1 ≤ w.length := by cases w with | nil => exact absurd rfl hne | cons _ _ => simp
  cases hxr : w ++ r with
  | nil => cases w <;> simp at hxr hne
  | cons c r' =>
    rw [hxr] at h
    conv => lhs; unfold lexLoop
    simp only [h]
    rw [Nat.max_eq_left hl, ← hxr, List.take_left' rfl, List.drop_left' rfl]

end Luqum
