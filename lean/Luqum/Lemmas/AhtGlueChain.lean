/-
  Luqum.Lemmas.AhtGlueChain — the heart of C13 (iv): a tree with the separators `auto_head_tail`
  guarantees (`spaced`), a blank layout, no `NoneItem` and none of the two bad adjacencies (`safeAdj`)
  satisfies the chain condition of the spelling theorem (`chainOK`): every token of the printed tree
  is followed by a text that does not change how it lexes.

  The induction runs over the tree; `X` is the text printed after the tree by its context.  Every
  place where two tokens are printed without separator is examined here:
  `(`·, ·`)`, `[`·, ·`]`, `+`·, `-`·, name·`:`, `:`·value, ·`~n`, ·`^n`, `<`·, `>`·, `<=`·, `>=`·, and
  what follows a `~n` / `^n`.
-/
import Luqum.Lemmas.AhtGlueDefs

namespace Luqum.Lemmas.AhtGlue
open Luqum Luqum.Lemmas.Aht

/-! ### spellings and the chain condition -/

theorem spell_append' (ps qs : List Piece) (T : Str) : spell (ps ++ qs) T = spell ps (spell qs T) := by
  rw [spell_append, spell_trail ps (spell qs T)]

theorem chainOK_append : ∀ (ps qs : List Piece) (T : Str),
    chainOK (ps ++ qs) T = (chainOK ps (spell qs T) && chainOK qs T)
  | [], qs, T => by simp [chainOK]
  | p :: ps, qs, T => by
    simp only [List.cons_append, chainOK, spell_append', chainOK_append ps qs T, Bool.and_assoc]

theorem chainOK_snoc (ps : List Piece) (q : Piece) (T : Str) :
    chainOK (ps ++ [q]) T = (chainOK ps (q.sep ++ (q.text ++ T)) && followOK q.kind q.text T) := by
  simp [chainOK_append, chainOK, spell]

/-- the text of a tree followed by `Z` -/
theorem spell_pcs (s : NumStyle) (t : Tree) (pre Z : Str) :
    spell (t.pcs s pre).1 ((t.pcs s pre).2 ++ Z) = pre ++ (t.full s ++ Z) := by
  rw [spell_trail, ← List.append_assoc, Tree.pcs_spell s t pre, List.append_assoc]

theorem spell_pcsTail (s : NumStyle) (k : OpK) (ys : List Tree) (pre Z : Str) :
    spell (Tree.pcsTail s k ys pre).1 ((Tree.pcsTail s k ys pre).2 ++ Z) =
      pre ++ (tailJoin k.word (Tree.fulls s ys) ++ Z) := by
  rw [spell_trail, ← List.append_assoc, Tree.pcsTail_spell s k ys pre, List.append_assoc]

/-- a tree that starts with a separator: any token before it keeps its reading -/
theorem followOK_before {t : Tree} (hn : t.isNone = false) (hb : t.blankLayout = true)
    (hh : t.lay.head.isEmpty = false) (k : TokK) (x : Str) (s : NumStyle) (Z : Str) :
    followOK k x (t.full s ++ Z) = true := by
  have hbl : isBlank t.lay.head = true := by
    cases t <;> simp_all [Tree.blankLayout, Tree.lay, Tree.isNone]
  rw [full_eq hn, List.append_assoc]
  exact followOK_blank_append k x hbl (by intro h0; rw [h0] at hh; cases hh) _

/-! ### the chain condition of a spaced tree -/

mutual
/-- **the chain condition**, for the tree printed in front of the text `X` (which the last token of
the tree tolerates: `contOK`) and after the pending separator `pre` -/
theorem chain_spaced : ∀ (t : Tree) (pre X : Str), noNone t = true → spaced t = true →
    t.blankLayout = true → safeAdj t = true → isBlank pre = true →
    contOK ((t.pcs .norm pre).2 ++ X) = true →
    chainOK (t.pcs .norm pre).1 ((t.pcs .norm pre).2 ++ X) = true
  | .term k v l, pre, X, _, _, _, _, _, hc => by
    cases k <;> simp only [Tree.pcs] at hc ⊢ <;>
      simp only [chainOK, spell, Bool.and_true] <;> exact followOK_cont _ _ hc
  | .none l, pre, X, hn, _, _, _, _, _ => by simp [noNone] at hn
  | .field n e l, pre, X, hn, hs, hb, ha, hp, hc => by
    simp only [noNone] at hn
    simp only [spaced] at hs
    simp only [Tree.blankLayout, Bool.and_eq_true] at hb
    simp only [safeAdj, Bool.and_eq_true, Bool.not_eq_true'] at ha
    simp only [Tree.pcs, List.append_assoc] at hc ⊢
    have hbe := Tree.pcs_blank .norm e [] rfl hb.2
    simp only [chainOK, Bool.and_eq_true]
    refine ⟨?_, rfl, chain_spaced e [] (l.tail ++ X) hn hs hb.2 ha.2 rfl hc⟩
    -- the name, glued to `:` and to the value (KF8)
    simp only [spell, List.nil_append, List.singleton_append]
    rw [spell_trail]
    have h1 : startsDD (spell (e.pcs .norm []).1 [] ++ ((e.pcs .norm []).2 ++ (l.tail ++ X))) =
        startsDD (e.full .norm) := by
      have := Tree.pcs_spell .norm e []
      simp only [List.nil_append] at this
      rw [← this, startsDD_cont hc, startsDD_cont (contOK_blank hbe.2)]
    have h2 := ha.1
    simp only [timeName] at h2
    simp only [followOK, termStops, h1]
    rw [show (':' == ':') = true from rfl, Bool.true_and, h2]
    decide
  | .group k e l, pre, X, hn, hs, hb, ha, hp, hc => by
    simp only [noNone] at hn
    simp only [spaced] at hs
    simp only [Tree.blankLayout, Bool.and_eq_true] at hb
    simp only [safeAdj] at ha
    simp only [Tree.pcs] at hc ⊢
    have hbe := Tree.pcs_blank .norm e [] rfl hb.2
    rw [List.cons_append]
    simp only [chainOK, chainOK_snoc, Bool.and_eq_true]
    refine ⟨rfl, ?_, rfl⟩
    exact chain_spaced e [] (')' :: (l.tail ++ X)) hn hs hb.2 ha rfl
      (contOK_blank_append hbe.2 (contOK_cons stopC_fixed.1 _))
  | .range a b il ih l, pre, X, hn, hs, hb, ha, hp, hc => by
    simp only [noNone, Bool.and_eq_true] at hn
    simp only [spaced, Bool.and_eq_true, Bool.not_eq_true'] at hs
    simp only [Tree.blankLayout, Bool.and_eq_true] at hb
    simp only [safeAdj, Bool.and_eq_true] at ha
    simp only [Tree.pcs, List.append_assoc, List.cons_append] at hc ⊢
    have hba := Tree.pcs_blank .norm a [] rfl hb.1.2
    have hbb := Tree.pcs_blank .norm b [] rfl hb.2
    have hna := noNone_isNone hn.1
    have hnb := noNone_isNone hn.2
    rw [chainOK, chainOK_append, chainOK, chainOK_snoc]
    simp only [Bool.and_eq_true]
    refine ⟨rfl, ?_, ?_, ?_, rfl⟩
    · -- the lower bound, then a separator, then `TO`
      simp only [spell]
      rw [List.append_assoc]
      exact chain_spaced a [] _ hn.1 hs.1.2 hb.1.2 ha.1 rfl
        (contOK_of_ne hba.2 (trail_ne hna .norm [] hs.1.1.1) _)
    · -- `TO`, then a separator
      rw [spell_append']
      simp only [spell, List.append_assoc]
      rw [spell_pcs, List.nil_append]
      exact followOK_before hnb hb.2 hs.1.1.2 _ _ _ _
    · -- the upper bound, glued to the closing bracket
      have hc2 : contOK ((b.pcs .norm []).2 ++ ((if ih then ']' else '}') :: (l.tail ++ X))) = true :=
        contOK_blank_append hbb.2
          (contOK_cons (c := if ih then ']' else '}') (by cases ih <;> decide) _)
      exact chain_spaced b [] _ hn.2 hs.2 hb.2 ha.2 rfl hc2
  | .approx k t n l, pre, X, hn, hs, hb, ha, hp, hc => by
    simp only [noNone] at hn
    simp only [spaced] at hs
    simp only [Tree.blankLayout, Bool.and_eq_true] at hb
    simp only [safeAdj] at ha
    simp only [Tree.pcs] at hc ⊢
    have hp' : isBlank (pre ++ l.head) = true := by rw [isBlank_append, hp, hb.1.1]; rfl
    have hbt := Tree.pcs_blank .norm t (pre ++ l.head) hp' hb.2
    simp only [chainOK_snoc, Bool.and_eq_true]
    refine ⟨?_, followOK_cont _ _ hc⟩
    exact chain_spaced t (pre ++ l.head) _ hn hs hb.2 ha hp'
      (contOK_blank_append hbt.2 (contOK_cons stopC_fixed.2.2.2.1 _))
  | .boost e n l, pre, X, hn, hs, hb, ha, hp, hc => by
    simp only [noNone] at hn
    simp only [spaced] at hs
    simp only [Tree.blankLayout, Bool.and_eq_true] at hb
    simp only [safeAdj] at ha
    simp only [Tree.pcs] at hc ⊢
    have hp' : isBlank (pre ++ l.head) = true := by rw [isBlank_append, hp, hb.1.1]; rfl
    have hbt := Tree.pcs_blank .norm e (pre ++ l.head) hp' hb.2
    simp only [chainOK_snoc, Bool.and_eq_true]
    refine ⟨?_, followOK_cont _ _ hc⟩
    exact chain_spaced e (pre ++ l.head) _ hn hs hb.2 ha hp'
      (contOK_blank_append hbt.2 (contOK_cons stopC_fixed.2.2.2.2 _))
  | .unary k a l, pre, X, hn, hs, hb, ha, hp, hc => by
    simp only [noNone] at hn
    simp only [spaced, Bool.and_eq_true] at hs
    simp only [Tree.blankLayout, Bool.and_eq_true] at hb
    simp only [safeAdj] at ha
    have hna := noNone_isNone hn
    cases k <;> simp only [Tree.pcs, List.append_assoc] at hc ⊢ <;>
      simp only [chainOK, Bool.and_eq_true]
    · exact ⟨rfl, chain_spaced a [] _ hn hs.2 hb.2 ha rfl hc⟩
    · refine ⟨?_, chain_spaced a [] _ hn hs.2 hb.2 ha rfl hc⟩
      rw [spell_pcs, List.nil_append]
      exact followOK_before hna hb.2 (by simpa using hs.1) _ _ _ _
    · exact ⟨rfl, chain_spaced a [] _ hn hs.2 hb.2 ha rfl hc⟩
  | .orange k a inc l, pre, X, hn, hs, hb, ha, hp, hc => by
    simp only [noNone] at hn
    simp only [spaced] at hs
    simp only [Tree.blankLayout, Bool.and_eq_true] at hb
    simp only [safeAdj, Bool.and_eq_true] at ha
    -- what follows `<` / `>` does not start with `=` (KF9)
    have hkey : inc = false →
        (spell (a.pcs .norm []).1 ((a.pcs .norm []).2 ++ (l.tail ++ X))).head? ≠ some '=' := by
      intro hi
      have h1 := ha.1
      rw [hi] at h1
      simp only [Bool.false_or, bne_iff_ne, ne_eq] at h1
      have hsp := Tree.pcs_spell .norm a []
      simp only [List.nil_append] at hsp
      rw [spell_trail]
      cases hS : spell (a.pcs .norm []).1 [] with
      | nil =>
        simp only [List.nil_append]
        intro h0
        cases hR : (a.pcs .norm []).2 ++ (l.tail ++ X) with
        | nil => rw [hR] at h0; cases h0
        | cons c r =>
          rw [hR] at h0
          simp only [List.head?_cons, Option.some.injEq] at h0
          have : stopC c = true := by
            have hc' : contOK ((a.pcs .norm []).2 ++ (l.tail ++ X)) = true := by
              cases k <;> simpa only [Tree.pcs, List.append_assoc] using hc
            rw [hR] at hc'; exact hc'
          exact stopC_ne_eq this h0
      | cons c S =>
        rw [← hsp, hS] at h1
        simpa using h1
    cases k <;> cases inc <;> simp only [Tree.pcs, List.append_assoc] at hc ⊢ <;>
      simp only [chainOK, Bool.and_eq_true]
    · exact ⟨(followOK_lt _ (hkey rfl)).2, chain_spaced a [] _ hn hs hb.2 ha.2 rfl hc⟩
    · exact ⟨(followOK_le _).2, chain_spaced a [] _ hn hs hb.2 ha.2 rfl hc⟩
    · exact ⟨(followOK_lt _ (hkey rfl)).1, chain_spaced a [] _ hn hs hb.2 ha.2 rfl hc⟩
    · exact ⟨(followOK_le _).1, chain_spaced a [] _ hn hs hb.2 ha.2 rfl hc⟩
  | .op k [] l, pre, X, _, _, _, _, _, _ => rfl
  | .op k (x :: xs) l, pre, X, hn, hs, hb, ha, hp, hc => by
    simp only [noNone, noNones, Bool.and_eq_true] at hn
    simp only [spaced, spaceds, operandsOK, Bool.and_eq_true, Bool.or_eq_true,
      Bool.not_eq_true'] at hs
    simp only [Tree.blankLayout, Tree.blankLayouts, Bool.and_eq_true] at hb
    simp only [safeAdj, safeAdjs, Bool.and_eq_true] at ha
    simp only [Tree.pcs, List.append_assoc] at hc ⊢
    have hp' : isBlank (pre ++ l.head) = true := by rw [isBlank_append, hp, hb.1.1]; rfl
    have hbx := Tree.pcs_blank .norm x (pre ++ l.head) hp' hb.2.1
    rw [chainOK_append, Bool.and_eq_true]
    refine ⟨?_, chainTail_spaced k xs _ (l.tail ++ X) hn.2 hs.2.2 hb.2.2 ha.2 hs.1.2 hbx.2 hc⟩
    rw [spell_pcsTail]
    apply chain_spaced x (pre ++ l.head) _ hn.1 hs.2.1 hb.2.1 ha.1 hp'
    cases xs with
    | nil => simpa [Tree.pcsTail, tailJoin, Tree.fulls] using hc
    | cons y r =>
      rcases hs.1.1 with h0 | h0
      · simp at h0
      · exact contOK_of_ne hbx.2 (trail_ne (noNone_isNone hn.1) .norm _ h0) _
/-- the same for the operands of an operation after the first one -/
theorem chainTail_spaced : ∀ (k : OpK) (ys : List Tree) (pre Z : Str), noNones ys = true →
    spaceds ys = true → Tree.blankLayouts ys = true → safeAdjs ys = true →
    restOK (k != .unk) ys = true → isBlank pre = true →
    contOK ((Tree.pcsTail .norm k ys pre).2 ++ Z) = true →
    chainOK (Tree.pcsTail .norm k ys pre).1 ((Tree.pcsTail .norm k ys pre).2 ++ Z) = true
  | k, [], pre, Z, _, _, _, _, _, _, _ => rfl
  | k, y :: r, pre, Z, hn, hs, hb, ha, hr, hp, hc => by
    simp only [noNones, Bool.and_eq_true] at hn
    simp only [spaceds, Bool.and_eq_true] at hs
    simp only [Tree.blankLayouts, Bool.and_eq_true] at hb
    simp only [safeAdjs, Bool.and_eq_true] at ha
    simp only [restOK, Bool.and_eq_true, Bool.or_eq_true, Bool.not_eq_true'] at hr
    have hny := noNone_isNone hn.1
    -- the operand `y` after the pending separator `pre'`, then the other operands
    have main : ∀ pre' : Str, isBlank pre' = true →
        contOK ((Tree.pcsTail .norm k r (y.pcs .norm pre').2).2 ++ Z) = true →
        chainOK ((y.pcs .norm pre').1 ++ (Tree.pcsTail .norm k r (y.pcs .norm pre').2).1)
          ((Tree.pcsTail .norm k r (y.pcs .norm pre').2).2 ++ Z) = true := by
      intro pre' hp' hc'
      have hby := Tree.pcs_blank .norm y pre' hp' hb.1
      rw [chainOK_append, Bool.and_eq_true]
      refine ⟨?_, chainTail_spaced k r _ Z hn.2 hs.2 hb.2 ha.2 hr.2 hby.2 hc'⟩
      rw [spell_pcsTail]
      apply chain_spaced y pre' _ hn.1 hs.1 hb.1 ha.1 hp'
      cases r with
      | nil => simpa [Tree.pcsTail, tailJoin, Tree.fulls] using hc'
      | cons z r' =>
        rcases hr.1.2 with h0 | h0
        · simp at h0
        · exact contOK_of_ne hby.2 (trail_ne hny .norm _ h0) _
    rcases opTok_word k with ⟨h1, _, _⟩ | ⟨kk, w, h1, _, _⟩
    · simp only [Tree.pcsTail, h1] at hc ⊢
      exact main pre hp hc
    · have hk : (k != OpK.unk) = true := by cases k <;> simp_all [opTok]
      simp only [Tree.pcsTail, h1] at hc ⊢
      rw [List.cons_append]
      simp only [chainOK, Bool.and_eq_true]
      refine ⟨?_, main [] rfl hc⟩
      -- the operator word, then a separator
      rw [spell_append', spell_pcsTail, spell_pcs, List.nil_append]
      have hh : y.lay.head.isEmpty = false := by
        rcases hr.1.1 with h0 | h0
        · rw [hk] at h0; cases h0
        · exact h0
      exact followOK_before hny hb.1 hh _ _ _ _
end

end Luqum.Lemmas.AhtGlue
